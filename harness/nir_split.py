"""Pre-pass for tools/nir2coq.py: NIR netlists in which a signal is assigned partly from its own other bits, e.g.

    link_command[ 0:11].eq(...);  link_command[11:16].eq(crc5(link_command[0:11]))      (usb3/link/command.py)

are acyclic bit by bit but cyclic at the granularity of NIR cells (one AssignmentList cell per signal), which is
the granularity nir2coq orders and prints cells at ("combinational cycle").  `split_self_dependent` breaks such a
cycle without changing the meaning:

  for an AssignmentList cell C on a combinational cycle, a new AssignmentList cell C' is appended with the same
  default and exactly those assignments of C that do not depend on the cycle; inside the cycle every reference to a
  bit C.k is redirected to C'.k.  By NIR's semantics (start from `default`, execute the assignments in order, each
  touching only its own bit range) C.k = C'.k for every bit k that no dropped assignment writes; this is checked for
  every redirected bit, otherwise Unsupported is raised.  C itself is kept (signal names, later users).

`SplitTarget` is `harness.core.Target` with this pre-pass between elaboration and printing.  The result is still
validated against Amaranth's simulator on every run (translator validation), like every generated machine."""
import hashlib, pathlib

from amaranth.hdl import _nir
from tools import nir2coq
from tools.nir2coq import Unsupported
from harness.core import Target

COMB = (_nir.Operator, _nir.Matches, _nir.PriorityMatch, _nir.AssignmentList, _nir.Part)


def _values(c):
    if isinstance(c, _nir.Operator): return list(c.inputs)
    if isinstance(c, _nir.Matches): return [c.value]
    if isinstance(c, _nir.PriorityMatch): return [_nir.Value([c.en]), c.inputs]
    if isinstance(c, _nir.AssignmentList):
        return [c.default] + [_nir.Value([a.cond]) for a in c.assignments] + [a.value for a in c.assignments]
    if isinstance(c, _nir.Part): return [c.value, c.offset]
    return []


def _cells_of(values, cells):
    d = set()
    for v in values:
        for n in v:
            if n.is_cell and n.cell != 0 and isinstance(cells[n.cell], COMB):
                d.add(n.cell)
    return d


def _reach(start, cells):
    seen = set(); todo = list(start)
    while todo:
        i = todo.pop()
        if i in seen: continue
        seen.add(i)
        todo += list(_cells_of(_values(cells[i]), cells))
    return seen


def _redirect(value, src, dst, forbidden):
    out = []
    for n in value:
        if n.is_cell and n.cell == src:
            if n.bit in forbidden:
                raise Unsupported("self-dependent assignment list: a bit inside the cycle is written by the cycle")
            out.append(_nir.Net.from_cell(dst, n.bit))
        else:
            out.append(n)
    return _nir.Value(out)


def split_self_dependent(nl):
    cells = nl.cells
    n_split = 0
    for ci in range(len(cells)):
        c = cells[ci]
        if not isinstance(c, _nir.AssignmentList):
            continue
        below = _reach(_cells_of(_values(c), cells), cells)
        if ci not in below:
            continue
        scc = {x for x in below if ci in _reach(_cells_of(_values(cells[x]), cells), cells)} | {ci}
        if _cells_of([c.default], cells) & scc:
            raise Unsupported("self-dependent assignment list: default depends on the cycle")
        kept, dropped = [], []
        for a in c.assignments:
            (dropped if (_cells_of([_nir.Value([a.cond]), a.value], cells) & scc) else kept).append(a)
        forbidden = set()
        for a in dropped:
            forbidden |= set(range(a.start, a.start + len(a.value)))
        new_idx = len(cells)
        cells.append(_nir.AssignmentList(c.module_idx, default=c.default, assignments=kept, src_loc=c.src_loc))
        for x in scc - {ci}:
            cx = cells[x]
            if isinstance(cx, _nir.Operator):
                cx.inputs = tuple(_redirect(v, ci, new_idx, forbidden) for v in cx.inputs)
            elif isinstance(cx, _nir.Matches):
                cx.value = _redirect(cx.value, ci, new_idx, forbidden)
            elif isinstance(cx, _nir.PriorityMatch):
                cx.en = _redirect(_nir.Value([cx.en]), ci, new_idx, forbidden)[0]
                cx.inputs = _redirect(cx.inputs, ci, new_idx, forbidden)
            elif isinstance(cx, _nir.Part):
                cx.value = _redirect(cx.value, ci, new_idx, forbidden)
                cx.offset = _redirect(cx.offset, ci, new_idx, forbidden)
            elif isinstance(cx, _nir.AssignmentList):
                cx.default = _redirect(cx.default, ci, new_idx, forbidden)
                for a in cx.assignments:
                    a.cond = _redirect(_nir.Value([a.cond]), ci, new_idx, forbidden)[0]
                    a.value = _redirect(a.value, ci, new_idx, forbidden)
        for a in dropped:
            a.cond = _redirect(_nir.Value([a.cond]), ci, new_idx, forbidden)[0]
            a.value = _redirect(a.value, ci, new_idx, forbidden)
        n_split += 1
    return n_split


class SplitTarget(Target):
    """Target whose netlist goes through `split_self_dependent` before it is printed."""
    def generate(self, outdir):
        elab, ins, outs = self.build()
        ports = {}
        for n, s in ins: ports[n] = (s, 'i')
        for n, s in outs: ports[n] = (s, 'o')
        nl = nir2coq.elaborate(elab, ports)
        self.n_split = split_self_dependent(nl)
        consts = {}
        declared = {n for n, _ in ins}
        for nm in nl.top.ports_i:
            if nm not in declared and (nm == "rst" or nm.endswith("_rst")):
                consts[nm] = 0
        modname = "G_" + self.name
        text, lay = nir2coq.emit(nl, modname, [n for n, _ in ins], [n for n, _ in outs], consts)
        outdir = pathlib.Path(outdir); outdir.mkdir(parents=True, exist_ok=True)
        path = outdir / f"{modname}.v"
        path.write_text(text)
        self.layout = lay
        self.modname = modname
        self.gen_path = path
        self.ncells = len(nl.cells)
        self.gen_sha = hashlib.sha256(text.encode()).hexdigest()[:16]
        return lay
