"""Generic check driver:  python -m harness.check Cxx [--tier quick|thorough] [--replay file]

exit 0  property shown on the current /repo tree (all obligations discharged, correspondence holds)
exit 1  VIOLATION property=Cxx replay=<path> [no-failing-input-found]
exit 2  harness fault (machinery broken; nothing is claimed)
"""
import os, sys, json, time, random, importlib, argparse, re, traceback, pathlib, shutil

from harness import core
from harness.core import HarnessFault, VERIF, BUILD, COQ
from harness import tie as tiemod

TRUSTED_BASE = [
    "Coq 8.16.1 kernel incl. bytecode VM (vm_compute); no native_compute",
    "axioms: none declared; Print Assumptions output recorded per theorem in coverage.assumptions_report",
    "Amaranth 0.5.9 Fragment.get/build_netlist (elaboration of /repo's modules to NIR)",
    "tools/nir2coq.py + coq/Lib/Netlist.v (NIR semantics), validated every run against Amaranth's simulator",
    "harness/*.py (trace generation, packing, replay)",
]


class Violation(Exception):
    def __init__(self, payload, nofail=False):
        self.payload = payload; self.nofail = nofail


def strip_coq_comments(text):
    """Remove (possibly nested) (* ... *) comments, keeping newlines so line numbers survive."""
    out = []; depth = 0; i = 0; n = len(text)
    while i < n:
        if text.startswith("(*", i):
            depth += 1; i += 2; continue
        if depth and text.startswith("*)", i):
            depth -= 1; i += 2; continue
        ch = text[i]
        if depth == 0 or ch == "\n":
            out.append(ch)
        i += 1
    return "".join(out)


def banned_tokens_gate(files=None):
    """No Admitted/admit/Axiom/Parameter/... anywhere in the development (Variable/Hypothesis only in Sections)."""
    pat = re.compile(r"\b(Admitted|admit|Axiom|Axioms|Parameter|Parameters|Conjecture|Conjectures|Hypothesis|Hypotheses|Variable|Variables|Context)\b|Unset Guard|bypass_check|type-in-type|impredicative-set|Admit Obligations")
    bad = []
    for f in (files if files is not None else list(COQ.rglob("*.v"))):
        depth = 0
        for ln, code in enumerate(strip_coq_comments(pathlib.Path(f).read_text()).splitlines(), 1):
            if re.match(r"\s*Section\b", code): depth += 1
            if re.match(r"\s*End\b", code) and depth > 0: depth -= 1
            m = pat.search(code)
            if m:
                if m.group(1) in ("Hypothesis", "Variable", "Variables", "Hypotheses", "Context") and depth > 0:
                    continue
                bad.append(f"{f}:{ln}: {code.strip()}")
    if bad:
        raise HarnessFault("banned declarations in the Coq development:\n" + "\n".join(bad[:20]))


def dep_closure(pid, tie_imports):
    """All Lib files plus Properties/<pid>.v and every Model/Lib file reachable from it and from the
    tie imports through `Require Import` lines: the part of the development this check relies on."""
    files = set(COQ.glob("Lib/*.v"))
    todo = []
    pf = COQ / "Properties" / f"{pid}.v"
    if pf.exists():
        files.add(pf); todo.append(pf.read_text())
    todo.append(tie_imports)
    pat = re.compile(r"From\s+(LunaModel|LunaLib|LunaProps)\s+Require\s+(?:Import|Export)\s+([^.]*)\.")
    sub = {"LunaModel": "Model", "LunaLib": "Lib", "LunaProps": "Properties"}
    while todo:
        text = strip_coq_comments(todo.pop())
        for lib, names in pat.findall(text):
            for n in names.split():
                f = COQ / sub[lib] / f"{n}.v"
                if f.exists() and f not in files:
                    files.add(f); todo.append(f.read_text())
    return sorted(files)


def print_assumptions(out):
    """Parse the output of `Print Assumptions` commands: list of reports."""
    reps = []
    for m in re.finditer(r"(Closed under the global context|Axioms:\n(?:.+\n?)+)", out):
        reps.append(m.group(1).strip())
    return reps


def run_check(prop, tier, seed, replay=None):
    pid = prop.PID
    rng = random.Random(seed)
    bdir = BUILD / pid
    if bdir.exists():
        shutil.rmtree(bdir)
    bdir.mkdir(parents=True)
    cov = dict(obligations=0, discharged=0, samples=[], trusted_base=list(TRUSTED_BASE),
               checker_cmd=f"coqc (Tie_defs.v, Tie_thms.v, Properties/{pid}.v) via python -m harness.check {pid}",
               obligation_list=[], assumptions_report=[], translator_validation=[], correspondence=[])
    assumptions = list(getattr(prop, "ASSUMPTIONS", []))

    # 1. static development (models, specs, parametric theorems)
    deps = dep_closure(pid, getattr(prop, "TIE_IMPORTS", ""))
    banned_tokens_gate(deps)
    built_ok, build_log = core.ensure_static_built(deps)
    pfile = COQ / "Properties" / f"{pid}.v"
    static_thms = []
    if pfile.exists():
        ok, out, secs = core.coqc(pfile)
        if not ok:
            raise HarnessFault(f"Properties/{pid}.v does not compile:\n{out[-2000:]}")
        reps = print_assumptions(out)
        names = re.findall(r"^\s*(?:Theorem|Corollary)\s+(\w+)", pfile.read_text(), re.M)
        for n, r in zip(names, reps):
            cov["assumptions_report"].append(f"{n}: {r}")
            if not r.startswith("Closed"):
                allowed = getattr(prop, "ALLOWED_AXIOMS", [])
                for ax in re.findall(r"^(\S+)\s*:", r, re.M):
                    if ax not in allowed and ax != "Axioms":
                        raise HarnessFault(f"theorem {n} depends on undeclared axiom {ax}")
        static_thms = names
        cov["obligations"] += len(names); cov["discharged"] += len(names)
        cov["obligation_list"] += [f"static theorem {n} (parametric model proof)" for n in names]

    # 2. regenerate targets from the current tree
    from concurrent.futures import ThreadPoolExecutor
    pool = ThreadPoolExecutor(max_workers=int(os.environ.get("VERIF_JOBS", "6")))
    targets = prop.targets(tier)
    dup = sorted({t.name for t in targets if [u.name for u in targets].count(t.name) > 1})
    if dup:
        raise HarnessFault(f"duplicate target names {dup}: generated files would overwrite each other")
    for t in targets:
        try:
            t.generate(bdir)
        except nir2coq_unsupported() as e:
            raise HarnessFault(f"translator cannot express target {t.name}: {e}")
        except Exception as e:
            # /repo's module can no longer be built/elaborated in a configuration the property is tied at: the theorems
            # cannot be re-stated for this tree (on the unchanged tree every target elaborates, or the check would be broken)
            raise Violation(dict(property=pid, target=t.name,
                                 reason=f"target {t.name}: /repo's module can no longer be elaborated in this configuration "
                                        f"({type(e).__name__}: {str(e)[:500]}); the tie theorems cannot be stated for this tree"),
                            nofail=True)
    for t, (ok, out, secs) in zip(targets, pool.map(lambda t: core.coqc(t.gen_path, extra_dirs=[(bdir, "Run")]), targets)):
        if not ok:
            raise HarnessFault(f"generated {t.gen_path} does not compile:\n{out[-2000:]}")

    # 2b. property-specific regenerated artefacts (e.g. GF(2) terms of CRC kernels)
    gen_broken = None
    if hasattr(prop, "extra_gen"):
        try:
            for path in prop.extra_gen(bdir, tier):
                ok, out, secs = core.coqc(path, extra_dirs=[(bdir, "Run")])
                if not ok:
                    raise HarnessFault(f"generated {path} does not compile:\n{out[-2000:]}")
        except Exception as e:
            if isinstance(e, HarnessFault):
                raise
            gen_broken = f"{type(e).__name__}: {e}"

    # 3. translator validation against Amaranth's simulator
    impl_traces = {}
    all_trs = [[t.add_ticks(tr) for tr in prop.traces(t, rng, tier)] for t in targets]   # rng used serially
    all_outs = [t.simulate(trs) for t, trs in zip(targets, all_trs)]                      # pysim: serial
    for t, trs, (info, outs) in zip(targets, all_trs,
                                    pool.map(lambda a: core.validate_translation(a[0], a[1], bdir, outs=a[2]),
                                             zip(targets, all_trs, all_outs))):
        info["target"] = t.name; info["cells"] = t.ncells; info["gen_sha"] = t.gen_sha
        cov["translator_validation"].append(info)
        impl_traces[t.name] = (trs, outs)

    # 4. tie obligations: definitions + counterexample search
    obs = prop.obligations(targets, tier)
    if gen_broken is not None:
        # the regenerated model can no longer be expressed: the theorems cannot be re-checked.
        # Look for a concrete failing input with the runtime oracles, else report no-failing-input-found.
        imports = "".join(f"Require Import Run.{t.modname}.\n" for t in targets)
        hdr0 = tiemod.HEADER + "".join(l + "\n" for l in getattr(prop, "TIE_IMPORTS", "").splitlines() if "Run." not in l) + imports
        payload = correspond(prop, obs, impl_traces, bdir, hdr0, cov)
        if payload is not None:
            payload["reason"] = "model regeneration failed (" + gen_broken + ") and the implementation differs from the hand model"
            raise Violation(payload, nofail=False)
        raise Violation(dict(property=pid, reason="model regeneration failed: " + gen_broken +
                             "; the tie theorems can no longer be stated"), nofail=True)
    imports = "".join(f"Require Import Run.{t.modname}.\n" for t in targets)
    defs_text = tiemod.HEADER + getattr(prop, "TIE_IMPORTS", "") + imports + "".join(o.defs for o in obs)
    ok, out, secs = compile_tie_defs(bdir, tiemod.HEADER + getattr(prop, "TIE_IMPORTS", "") + imports, obs, defs_text, pool)
    if not ok:
        raise HarnessFault(f"Tie_defs.v does not compile:\n{out[-3000:]}")
    cov["tie_defs_s"] = round(secs, 1)
    hdr = tiemod.HEADER + getattr(prop, "TIE_IMPORTS", "") + imports + "Require Import Run.Tie_defs.\n"
    if replay is not None:
        return do_replay(prop, targets, obs, replay, bdir, hdr)
    queries = []
    robs = [o for o in obs if o.kind.startswith("R-") or o.kind.startswith("A-")]
    for o in robs:
        queries += [(f"q_{o.name}_cex", f"{o.name}.ob_cex"), (f"q_{o.name}_left", f"{o.name}.ob_left"),
                    (f"q_{o.name}_states", f"{o.name}.ob_states")]
    res = core.coq_eval(bdir, "Tie_query", hdr, "", queries, extra_dirs=[(bdir, "Run")]) if queries else {}
    for o in robs:
        cov["obligations"] += 1
        cex = res[f"q_{o.name}_cex"]
        left = core.parse_nums(res[f"q_{o.name}_left"])
        states = core.parse_nums(res[f"q_{o.name}_states"])
        entry = dict(name=o.name, kind=o.kind, target=o.target.name if o.target else None, describe=o.describe,
                     product_states=states[0] if states else None)
        cov["obligation_list"].append(entry)
        if cex.startswith("Some"):
            path = core.parse_nums(cex)
            payload = o.confirm(path, bdir, hdr) if o.confirm else confirm_on_impl(prop, o, path, bdir, hdr)
            raise Violation(payload)
        if left and left[0] != 0:
            raise Violation(dict(property=pid, obligation=o.name, target=o.target.name if o.target else None,
                                 reason="reachability exploration did not terminate within its fuel; "
                                        "theorem %s_T.tie no longer checks" % o.name), nofail=True)

    # 5. theorems
    thm_text = hdr + "".join(o.thms for o in obs) + getattr(prop, "tie_theorems", lambda t, tier: "")(targets, tier)
    names = []
    for o in obs: names += o.theorem_names
    names += getattr(prop, "tie_theorem_names", lambda t, tier: [])(targets, tier)
    thm_text += "".join(f"Print Assumptions {n}.\n" for n in names)
    (bdir / "Tie_thms.v").write_text(thm_text)
    ok, out, secs = core.coqc(bdir / "Tie_thms.v", extra_dirs=[(bdir, "Run")])
    cov["tie_thms_s"] = round(secs, 1)
    if not ok:
        payload = search_impl(prop, targets, obs, impl_traces, bdir, hdr, rng, tier)
        if payload is None:
            payload = correspond(prop, obs, impl_traces, bdir, hdr, cov)
            if payload is not None:
                payload["reason"] = "a tie theorem no longer checks and the implementation differs from the specification-satisfying hand model"
                payload["coq_error"] = out[-800:]
                raise Violation(payload, nofail=False)
        if payload is None:
            m = re.search(r'File "[^"]*Tie_thms.v", line (\d+)', out)
            raise Violation(dict(property=pid, reason="a tie theorem no longer checks against the regenerated model",
                                 coq_error=out[-1500:], line=m.group(1) if m else None), nofail=True)
        raise Violation(payload)
    reps = print_assumptions(out)
    for n, r in zip(names, reps):
        cov["assumptions_report"].append(f"{n}: {r}")
        if not r.startswith("Closed"):
            raise HarnessFault(f"tie theorem {n} is not closed: {r}")
    cov["discharged"] += len(robs)
    extra_names = names[len(sum([o.theorem_names for o in obs], [])):]
    cov["obligations"] += len(extra_names); cov["discharged"] += len(extra_names)
    cov["obligation_list"] += [f"tie corollary {n}" for n in extra_names]

    # 6. monitors over implementation traces (oracle on the real code) + model correspondence
    payload = search_impl(prop, targets, obs, impl_traces, bdir, hdr, rng, tier, cov=cov)
    if payload is not None:
        raise Violation(payload)
    payload = correspond(prop, obs, impl_traces, bdir, hdr, cov)
    if payload is not None:
        exact = any(getattr(o, "spec_exact", False) for o in obs if o.name == payload.get("obligation"))
        if exact:
            payload["reason"] = ("the implementation differs from the model on this simulator trace, and the model is proved equal to "
                                 "the specification for every input trace: the trace is a failing input")
            payload["confirmed_on_pysim"] = True
        raise Violation(payload, nofail=not exact)
    if hasattr(prop, "correspondence"):
        payload = prop.correspondence(tier, rng, bdir, cov)
        if payload is not None:
            raise Violation(payload, nofail=payload.get("nofail", False))

    # samples
    for t in targets[:2]:
        trs, outs = impl_traces[t.name]
        if trs:
            cov["samples"].append(dict(target=t.name, inputs=trs[0][:12], outputs=outs[0][:12]))
    for o in obs[:3]:
        cov["samples"].append(dict(obligation=o.name, kind=o.kind, describe=o.describe))
    return cov, assumptions


def nir2coq_unsupported():
    from tools.nir2coq import Unsupported
    return Unsupported


def eval_monitor(o, trs_packed, bdir, hdr, tag):
    """Evaluate obligation o's monitor over recorded implementation traces. Returns list of codes
    (0 = accepted, k+1 = first violated cycle k)."""
    defs = ("Definition ios : list (list (N * N)) := [" +
            ";\n ".join("[" + "; ".join(f"({i},{x})" for i, x in tr) + "]" for tr in trs_packed) + "].\n")
    q = [("codes", f"map (bad_code {o.mon_expr} {o.m0_expr}) ios")]
    res = core.coq_eval(bdir, tag, hdr, defs, q, extra_dirs=[(bdir, "Run")])
    return core.parse_nums(res["codes"]) if res["codes"].strip() != "[]" else []


def compile_tie_defs(bdir, header, obs, defs_text, pool):
    """Tie_defs.v holds the computed part of every obligation (certified reachability explorations etc.).  The obligations'
    definition blocks are independent of each other in almost every property, so each is compiled as a file of its own, in
    parallel, and Tie_defs.v re-exports them; if any part does not compile on its own (a block that refers to an earlier one, or
    a genuine failure) the monolithic file is compiled instead, so the split can only change the wall time."""
    t0 = time.time()
    parts = [o for o in obs if o.defs.strip()]
    if len(parts) > 1 and os.environ.get("VERIF_SPLIT_DEFS", "1") == "1":
        names = []
        for k, o in enumerate(parts):
            fn = f"Tie_d{k}_" + re.sub(r"\W", "_", o.name)
            (bdir / f"{fn}.v").write_text(header + o.defs)
            names.append(fn)
        results = list(pool.map(lambda fn: core.coqc(bdir / f"{fn}.v", extra_dirs=[(bdir, "Run")]), names))
        if all(r[0] for r in results):
            (bdir / "Tie_defs.v").write_text("".join(f"Require Export Run.{fn}.\n" for fn in names))
            ok, out, _ = core.coqc(bdir / "Tie_defs.v", extra_dirs=[(bdir, "Run")])
            if ok:
                return ok, out, time.time() - t0
    (bdir / "Tie_defs.v").write_text(defs_text)
    ok, out, _ = core.coqc(bdir / "Tie_defs.v", extra_dirs=[(bdir, "Run")])
    return ok, out, time.time() - t0


def correspond(prop, obs, impl_traces, bdir, hdr, cov):
    """Hand model vs simulator of the real module on the same traces (C obligations)."""
    for o in obs:
        if o.corr is None:
            continue
        t = o.target
        trs, outs = impl_traces[t.name]
        tin = [[t.pack_in(c) for c in tr] for tr in trs]
        tout = [[t.pack_out(x) for x in ou] for ou in outs]
        mstep, m0, norm = o.corr
        defs = ("Definition tin : list (list N) := [" + ";\n ".join(core.nlist(x) for x in tin) + "].\n" +
                "Definition tout : list (list N) := [" + ";\n ".join(core.nlist(x) for x in tout) + "].\n")
        res = core.coq_eval(bdir, f"Corr_{o.name}", hdr, defs,
                            [("codes", f"corr_codes ({mstep}) ({norm}) ({m0}) tin tout")], extra_dirs=[(bdir, "Run")])
        codes = core.parse_nums(res["codes"]) if res["codes"].strip() != "[]" else []
        cyc = sum(len(x) for x in tin)
        cov["correspondence"].append(dict(obligation=o.name, target=t.name, traces=len(tin), cycles=cyc,
                                          describe=o.describe))
        for k, c in enumerate(codes):
            if c != 0:
                res2 = core.coq_eval(bdir, f"CorrD_{o.name}", hdr,
                                     f"Definition one : list N := {core.nlist(tin[k][:c])}.\n",
                                     [("mo", f"run ({mstep}) ({m0}) one")], extra_dirs=[(bdir, "Run")])
                mo = core.parse_nums(res2["mo"])
                return dict(property=prop.PID, obligation=o.name, target=t.name, describe=o.describe,
                            reason="correspondence between the hand model and the implementation no longer holds "
                                   "and no monitor found a failing input",
                            inputs=trs[k][:c], outputs=outs[k][:c],
                            model_outputs=[core.nir2coq.unpack(t.layout.outputs, x) for x in mo],
                            differing_cycle=c - 1)
    return None


def confirm_on_impl(prop, o, path, bdir, hdr):
    """A counterexample path found on the generated model: replay it on the real implementation."""
    t = o.target
    trace = [core.nir2coq.unpack(t.layout.inputs, x) for x in path]
    outs = t.simulate([trace])[0]
    packed = [[(t.pack_in(c), t.pack_out(x)) for c, x in zip(trace, outs)]]
    codes = eval_monitor(o, packed, bdir, hdr, f"Confirm_{o.name}")
    return dict(property=prop.PID, obligation=o.name, target=t.name, describe=o.describe,
                inputs=trace, outputs=outs, confirmed_on_pysim=bool(codes and codes[0] != 0),
                failing_cycle=(codes[0] - 1) if codes and codes[0] else None,
                how="counterexample from certified-reachability search on the regenerated model, replayed on Amaranth's simulator of /repo")


def search_impl(prop, targets, obs, impl_traces, bdir, hdr, rng, tier, cov=None):
    """Run every obligation's monitor over simulator traces of the real implementation."""
    total = 0
    for o in obs:
        if o.mon_expr is None:
            continue
        t = o.target
        trs, outs = impl_traces[t.name]
        packed = [[(t.pack_in(c), t.pack_out(x)) for c, x in zip(tr, ou)] for tr, ou in zip(trs, outs)]
        codes = eval_monitor(o, packed, bdir, hdr, f"Mon_{o.name}")
        total += len(packed)
        if cov is not None:
            cov.setdefault("monitors_over_impl_traces", []).append(
                dict(obligation=o.name, target=t.name, traces=len(packed), cycles=sum(len(x) for x in packed),
                     describe=o.describe))
        for k, c in enumerate(codes):
            if c != 0:
                return dict(property=prop.PID, obligation=o.name, target=t.name, describe=o.describe,
                            inputs=trs[k][:c], outputs=outs[k][:c], failing_cycle=c - 1, confirmed_on_pysim=True,
                            how="monitor evaluated over a simulator trace of /repo")
    if cov is not None:
        cov["traces_validated_against_impl"] = total
    return None


def do_replay(prop, targets, obs, replay, bdir, hdr):
    data = json.loads(pathlib.Path(replay).read_text())
    if "inputs" not in data:
        print(f"replay {replay} names a broken obligation, not an input: {data.get('reason')}")
        return None
    o = [x for x in obs if x.name == data["obligation"]][0]
    t = o.target
    outs = t.simulate([data["inputs"]])[0]
    packed = [[(t.pack_in(c), t.pack_out(x)) for c, x in zip(data["inputs"], outs)]]
    codes = eval_monitor(o, packed, bdir, hdr, "Replay")
    if codes and codes[0] != 0:
        print(f"replay: monitor of {o.name} fails at cycle {codes[0]-1} on the current tree")
        print(f"VIOLATION property={prop.PID} replay={replay}")
        sys.exit(1)
    print("replay: the recorded trace is accepted on the current tree")
    sys.exit(0)


def main():
    ap = argparse.ArgumentParser()
    ap.add_argument("pid")
    ap.add_argument("--tier", default=os.environ.get("VERIF_TIER", "quick"))
    ap.add_argument("--replay")
    a = ap.parse_args()
    seed = int(os.environ.get("VERIF_SEED", "1"))
    t0 = time.time()
    prop = importlib.import_module(f"props.{a.pid}")
    if a.tier == "thorough":                  # larger configurations: a single exploration may take tens of minutes
        core.COQ_TIMEOUT = max(core.COQ_TIMEOUT, 2400)
    # two runs of the same property in the same build area would wipe each other's generated files: serialise them
    import fcntl
    BUILD.mkdir(parents=True, exist_ok=True)
    _lk = open(BUILD / f".lock_{a.pid}", "w")
    fcntl.flock(_lk, fcntl.LOCK_EX)
    try:
        r = run_check(prop, a.tier, seed, replay=a.replay)
        if r is None:
            sys.exit(0)
        cov, assumptions = r
        findings = core.known_findings(a.pid)
        for sig, text in findings:
            print(f"KNOWN-FINDING: property={a.pid} {text}")
        cov["known_findings"] = [s for s, _ in findings]
        core.write_evidence(a.pid, a.tier, seed, cov, assumptions, time.time() - t0)
        print(f"OK property={a.pid} obligations={cov['obligations']} discharged={cov['discharged']} "
              f"wall={time.time()-t0:.1f}s")
        sys.exit(0)
    except Violation as v:
        p = core.write_replay(a.pid, v.payload)
        cov = dict(explanation="violation reported: an obligation failed on the current tree; see samples[0] (the replay payload)",
                   checker_cmd="python -m harness.check " + a.pid, trusted_base=TRUSTED_BASE, samples=[v.payload])
        core.write_evidence(a.pid, a.tier, seed, cov, [], time.time() - t0, violations=1, level="other")
        print(f"VIOLATION property={a.pid} replay={p}" + (" no-failing-input-found" if v.nofail else ""))
        sys.exit(1)
    except HarnessFault as e:
        print(f"HARNESS-FAULT property={a.pid}: {e}")
        sys.exit(2)


if __name__ == "__main__":
    main()
