"""Lock-step R obligation over an explicit input alphabet (used by the SuperSpeed properties C32/C34/C35,
whose modules have 32+4-bit data inputs: `tie.rlock` enumerates all 2^k input words, which is impossible
here; this variant quantifies over a Coq list of packed input words instead).  Same certified machinery
(`Machine.R_lockstep`); additionally the netlist's outputs can be passed through `norm : N -> N` before
they are compared (to drop don't-care bits such as the payload while `valid = 0`)."""
from harness.tie import Obligation


def rlock_alpha(name, target, *, St, mstep, enc, dec, wf, dec_enc, wf_step, m0, wf_m0, alphabet,
                env="(fun _ _ => true)", norm="(fun o => o)", fuel=5000, describe=""):
    """Theorem <name>_T.tie : forall tr, Forall (fun i => In i alpha) tr -> env_ok ... tr = true ->
         map norm (run G.step G.init tr) = run mstep m0 tr."""
    G = target.modname
    defs = f"""
Module {name}.
  Definition norm : N -> N := {norm}.
  Definition step := fun st i => let (s, o) := {G}.step st i in (s, norm o).
  Definition lmon := rl_mon ({St}) ({mstep}) ({enc}) ({dec}) ({env}).
  (* the same monitor over raw (un-normalised) implementation outputs: used as runtime oracle *)
  Definition mon := fun m i o => lmon m i (norm o).
  Definition alpha : list N := Eval vm_compute in {alphabet}.
  Definition m0 := ({enc}) ({m0}).
  Definition bfs := Eval vm_compute in explore step lmon alpha {fuel} {G}.init m0.
  Definition ob_cex := Eval vm_compute in cex bfs.
  Definition ob_left := Eval vm_compute in length (front bfs).
  Definition ob_states := Eval vm_compute in length (allst bfs).
End {name}.
"""
    thms = f"""
Module {name}_T.
  Import {name}.
  Definition L := Eval vm_compute in allst bfs.
  Lemma L_closed : closed step lmon alpha L = true.
  Proof. vm_cast_no_check (@eq_refl bool true). Qed.   (* evaluated once, by the kernel's VM at Qed *)
  Lemma init_in : pmem {G}.init m0 (of_list L) = true.
  Proof. vm_compute. reflexivity. Qed.
  Lemma run_norm : forall tr st, run step st tr = map norm (run {G}.step st tr).
  Proof.
    induction tr as [|i t IH]; intros st; [reflexivity|]. cbn [run map]. unfold step at 1.
    destruct ({G}.step st i) as [s' o]. cbn [map]. rewrite IH. reflexivity.
  Qed.
  Theorem tie : forall tr, Forall (fun i => In i alpha) tr ->
    env_ok ({St}) ({mstep}) ({env}) ({m0}) tr = true ->
    map norm (run {G}.step {G}.init tr) = run ({mstep}) ({m0}) tr.
  Proof.
    intros tr H HE. rewrite <- run_norm.
    apply (R_lockstep step ({St}) ({mstep}) ({enc}) ({dec}) ({wf}) ({env}) ({dec_enc}) ({wf_step}) alpha L).
    - exact L_closed.
    - exact init_in.
    - {wf_m0}
    - exact H.
    - exact HE.
  Qed.
End {name}_T.
"""
    return Obligation(name, "R-lockstep", target, defs, thms, [f"{name}_T.tie"], describe,
                      mon_expr=f"{name}.mon", m0_expr=f"{name}.m0")
