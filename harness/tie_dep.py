"""R lock-step obligation with a model-state-dependent input alphabet (coq/Lib/ReachDep.v).

Use when the full 2^k alphabet is only affordable in a few states (e.g. the states in which a module samples its
data inputs) and a handful of representative input words suffices elsewhere.  The props file must import
`From LunaLib Require Import ReachDep.` through TIE_IMPORTS."""
from harness.tie import Obligation


def rlock_dep(name, target, *, St, mstep, enc, dec, wf, dec_enc, wf_step, m0, wf_m0, alpha, fuel=5000, describe=""):
    """theorem: for every input trace whose input word of each cycle lies in `alpha <model state of that cycle>`
    (alpha : St -> list N), the regenerated netlist and the model produce identical packed outputs."""
    G = target.modname
    defs = f"""
Module {name}.
  Definition step := {G}.step.
  Definition mon := rld_mon ({St}) ({mstep}) ({enc}) ({dec}).
  Definition alpha := alphaN ({St}) ({dec}) ({alpha}).
  Definition m0 := ({enc}) ({m0}).
  Definition bfs := Eval vm_compute in explore_dep step mon alpha {fuel} {G}.init m0.
  Definition ob_cex := Eval vm_compute in cex bfs.
  Definition ob_left := Eval vm_compute in length (front bfs).
  Definition ob_states := Eval vm_compute in length (allst bfs).
End {name}.
"""
    thms = f"""
Module {name}_T.
  Import {name}.
  Definition L := Eval vm_compute in allst bfs.
  Lemma L_closed : closed_dep step mon alpha L = true.
  Proof. vm_compute. reflexivity. Qed.
  Lemma init_in : pmem {G}.init m0 (of_list L) = true.
  Proof. vm_compute. reflexivity. Qed.
  Theorem tie : forall tr, alpha_ok ({St}) ({mstep}) ({alpha}) ({m0}) tr = true ->
    run {G}.step {G}.init tr = run ({mstep}) ({m0}) tr.
  Proof.
    intros tr HA.
    apply (R_lockstep_dep step ({St}) ({mstep}) ({enc}) ({dec}) ({wf}) ({alpha}) ({dec_enc}) ({wf_step}) L).
    - exact L_closed.
    - exact init_in.
    - {wf_m0}
    - exact HA.
  Qed.
End {name}_T.
"""
    return Obligation(name, "R-lockstep(state-dependent alphabet)", target, defs, thms, [f"{name}_T.tie"], describe,
                      mon_expr=f"{name}.mon", m0_expr=f"{name}.m0")
