"""Builders for the Coq text of tie obligations (files compiled against the regenerated Gen/*)."""

HEADER = """From Coq Require Import NArith ZArith List Bool Lia.
Import ListNotations.
From LunaLib Require Import Netlist Bits Machine.
Open Scope N_scope.
"""


class Obligation:
    """One tie obligation.  defs: Coq text that always compiles and ends by defining
    <name>.ob_cex : option (list N) and <name>.ob_left : nat (frontier left = exploration incomplete);
    thms: Coq text holding the theorems (compiled only when no counterexample was found)."""
    def __init__(self, name, kind, target, defs, thms, theorem_names, describe, mon_expr=None, m0_expr=None):
        self.name = name; self.kind = kind; self.target = target
        self.defs = defs; self.thms = thms; self.theorem_names = theorem_names
        self.describe = describe
        self.mon_expr = mon_expr; self.m0_expr = m0_expr
        self.corr = None     # (mstep_expr, m0_expr, norm_expr) for correspondence obligations
        self.confirm = None  # optional callback(path_numbers, bdir, hdr) -> replay payload (for non-R counterexamples)


def rlock(name, target, *, St, mstep, enc, dec, wf, dec_enc, wf_step, m0, wf_m0,
          env="(fun _ _ => true)", alpha_bits, fuel=5000, describe=""):
    """R obligation: generated machine == packed hand model in lock step, for every input trace over
    all `alpha_bits`-bit inputs that respects `env` (certified reachability of the product)."""
    G = target.modname
    defs = f"""
Module {name}.
  Definition step := {G}.step.
  Definition mon := rl_mon ({St}) ({mstep}) ({enc}) ({dec}) ({env}).
  Definition alpha := range_bits {alpha_bits}.
  Definition m0 := ({enc}) ({m0}).
  Definition bfs := Eval vm_compute in explore step mon alpha {fuel} {G}.init m0.
  Definition ob_cex := Eval vm_compute in cex bfs.
  Definition ob_left := Eval vm_compute in length (front bfs).
  Definition ob_states := Eval vm_compute in length (allst bfs).
End {name}.
"""
    thms = f"""
Module {name}_T.
  Import {name}.
  Definition L := Eval vm_compute in allst bfs.
  Lemma L_closed : closed step mon alpha L = true.
  Proof. vm_compute. reflexivity. Qed.
  Lemma init_in : pmem {G}.init m0 (of_list L) = true.
  Proof. vm_compute. reflexivity. Qed.
  Theorem tie : forall tr, Forall (fun i => i < 2 ^ N.of_nat {alpha_bits}) tr ->
    env_ok ({St}) ({mstep}) ({env}) ({m0}) tr = true ->
    run {G}.step {G}.init tr = run ({mstep}) ({m0}) tr.
  Proof.
    intros tr H HE.
    apply (R_lockstep step ({St}) ({mstep}) ({enc}) ({dec}) ({wf}) ({env}) ({dec_enc}) ({wf_step}) alpha L).
    - exact L_closed.
    - exact init_in.
    - {wf_m0}
    - apply Forall_range_bits; exact H.
    - exact HE.
  Qed.
End {name}_T.
"""
    return Obligation(name, "R-lockstep", target, defs, thms, [f"{name}_T.tie"], describe,
                      mon_expr=f"{name}.mon", m0_expr=f"{name}.m0")


def rmon(name, target, *, mon, m0, alpha_bits, fuel=5000, describe="", alphabet=None):
    """R obligation with a free-standing monitor  mon : N -> N -> N -> option (N * bool)."""
    G = target.modname
    alpha = alphabet if alphabet else f"range_bits {alpha_bits}"
    defs = f"""
Module {name}.
  Definition step := {G}.step.
  Definition mon := {mon}.
  Definition alpha := {alpha}.
  Definition m0 : N := {m0}.
  Definition bfs := Eval vm_compute in explore step mon alpha {fuel} {G}.init m0.
  Definition ob_cex := Eval vm_compute in cex bfs.
  Definition ob_left := Eval vm_compute in length (front bfs).
  Definition ob_states := Eval vm_compute in length (allst bfs).
End {name}.
"""
    if alphabet:
        quant = "Forall (fun i => In i alpha) tr"
        use = "exact H"
    else:
        quant = f"Forall (fun i => i < 2 ^ N.of_nat {alpha_bits}) tr"
        use = "apply Forall_range_bits; exact H"
    thms = f"""
Module {name}_T.
  Import {name}.
  Definition L := Eval vm_compute in allst bfs.
  Lemma L_closed : closed step mon alpha L = true.
  Proof. vm_compute. reflexivity. Qed.
  Lemma init_in : pmem {G}.init m0 (of_list L) = true.
  Proof. vm_compute. reflexivity. Qed.
  Theorem tie : forall tr, {quant} -> check_trace {G}.step mon {G}.init m0 tr = true.
  Proof.
    intros tr H. apply (closed_sound step mon alpha L L_closed).
    - apply pmem_of_list. exact init_in.
    - {use}.
  Qed.
End {name}_T.
"""
    return Obligation(name, "R-monitor", target, defs, thms, [f"{name}_T.tie"], describe,
                      mon_expr=f"{name}.mon", m0_expr=f"{name}.m0")


def corr(name, target, *, mstep, m0, norm="(fun o => o)", describe="", spec_exact=False):
    """C obligation (correspondence, not a proof): the typed hand model `mstep`/`m0` is run inside Coq
    on the same input traces as Amaranth's simulator of the real module; outputs (after `norm`) must agree
    in every cycle.  The model packs its outputs exactly like the target's declared output ports."""
    o = Obligation(name, "C-correspondence", target, "", "", [], describe)
    o.corr = (mstep, m0, norm)
    # spec_exact: a theorem states that the model's outputs ARE the specification for every input trace, with no environment
    # assumption; a trace on which the implementation differs from the model is then itself a failing input of the property
    o.spec_exact = spec_exact
    return o


def cmon(name, target, *, mon, m0, describe=""):
    """Runtime-oracle obligation: a monitor (N -> N -> N -> option (N * bool)) evaluated over simulator
    traces of the real module (for configurations too large for an R obligation)."""
    return Obligation(name, "C-monitor", target, "", "", [], describe, mon_expr=mon, m0_expr=m0)


def affine(name, *, xt, nvars, spec_aff, describe="", confirm=None):
    """A obligation: the GF(2) terms `xt` (regenerated from /repo) have the same affine normal forms as the symbolic
    run `spec_aff` of the bit-serial reference.  Defines top-level `<xt>_aff`; a difference is reported as
    ob_cex = Some [output bit; 0 | S variable] (the all-zero input resp. the unit vector distinguishes)."""
    defs = f"""
Definition {xt}_aff : list aff := {spec_aff}.
Module {name}.
  Definition forms := Eval vm_compute in map (nf {nvars}) {xt}_xt.
  Definition spec := Eval vm_compute in {xt}_aff.
  Definition ob_cex : option (list N) := Eval vm_compute in
    match aff_diff 0 forms spec with Some (k, v) => Some [N.of_nat k; N.of_nat v] | None => None end.
  Definition ob_left : nat := 0.
  Definition ob_states : nat := Eval vm_compute in length forms.
End {name}.
"""
    o = Obligation(name, "A-affine", None, defs, "", [], describe)
    o.confirm = confirm
    o.xt = xt; o.nvars = nvars
    return o
