"""Targets whose netlist has a WORD-level combinational cycle that is acyclic at bit level (C36).

RawPacketTransmitter drives `source.data[27:32]` from a CRC-5 of `source.data[16:27]`: NIR represents `source.data`
as one 32-bit AssignmentList cell, so at cell granularity that cell depends on itself and tools/nir2coq.py (which
orders whole cells) reports "combinational cycle", although no bit depends on itself (Amaranth itself accepts the
design).  SplitTarget rewrites the netlist before it is printed: every AssignmentList cell that lies on a cell-level
cycle is cut into independent AssignmentList cells at its assignment boundaries (same default bits, same conditions,
the matching slices of the assigned values), and every reference to a bit of the old cell is redirected to the new
cell holding that bit.  The old cell is replaced by a placeholder (`Top`, which nir2coq.emit skips -- the same device
as harness/slice.py).  Nothing else changes; if a cycle remains, nir2coq still fails closed.  As for every target, the
printed machine is validated against Amaranth's simulator of the untouched design on every run.
"""
import hashlib, pathlib

from amaranth.hdl import _nir

from harness.core import Target
from tools import nir2coq


def _comb_deps(cells, i):
    c = cells[i]
    d = set()
    for n in c.input_nets():
        if n.is_const or n.is_late or n.cell == 0:
            continue
        if isinstance(cells[n.cell], (_nir.FlipFlop, _nir.SyncReadPort, _nir.Memory, _nir.SyncWritePort)):
            continue
        d.add(n.cell)
    return d


def _cells_on_cycles(cells):
    comb = [i for i, c in enumerate(cells)
            if isinstance(c, (_nir.Operator, _nir.Matches, _nir.PriorityMatch, _nir.AssignmentList, _nir.Part))]
    deps = {i: _comb_deps(cells, i) for i in comb}
    # Tarjan SCC (iterative)
    index = {}; low = {}; on = set(); stack = []; res = set(); counter = [0]
    for root in comb:
        if root in index:
            continue
        work = [(root, iter(sorted(deps[root])))]
        index[root] = low[root] = counter[0]; counter[0] += 1; stack.append(root); on.add(root)
        while work:
            v, it = work[-1]
            advanced = False
            for w in it:
                if w not in deps:
                    continue
                if w not in index:
                    index[w] = low[w] = counter[0]; counter[0] += 1; stack.append(w); on.add(w)
                    work.append((w, iter(sorted(deps[w])))); advanced = True
                    break
                elif w in on:
                    low[v] = min(low[v], index[w])
            if advanced:
                continue
            work.pop()
            if work:
                u = work[-1][0]; low[u] = min(low[u], low[v])
            if low[v] == index[v]:
                scc = []
                while True:
                    w = stack.pop(); on.discard(w); scc.append(w)
                    if w == v:
                        break
                if len(scc) > 1 or v in deps[v]:
                    res.update(scc)
    return res


class _Remap:
    """Looks like a Netlist to Cell.resolve_nets: redirects nets of split cells."""
    def __init__(self, table):
        self.table = table          # old cell index -> list of (lo, hi, new cell index)
    def resolve_net(self, net):
        if net.is_const or net.is_late:
            return net
        t = self.table.get(net.cell)
        if t is None:
            return net
        for lo, hi, idx in t:
            if lo <= net.bit < hi:
                return _nir.Net.from_cell(idx, net.bit - lo)
        raise nir2coq.Unsupported("split: bit outside every slice")
    def resolve_value(self, value):
        return _nir.Value(self.resolve_net(n) for n in value)


def split_word_cycles(nl):
    """In place: split AssignmentList cells lying on cell-level cycles.  Returns the number of cells split."""
    total = 0
    for _round in range(4):
        cyc = [i for i in sorted(_cells_on_cycles(nl.cells)) if isinstance(nl.cells[i], _nir.AssignmentList)]
        if not cyc:
            break
        table = {}
        for i in cyc:
            c = nl.cells[i]; w = len(c.default)
            cuts = {0, w}
            for a in c.assignments:
                cuts.add(max(0, min(w, a.start))); cuts.add(max(0, min(w, a.start + len(a.value))))
            cuts = sorted(cuts)
            if len(cuts) <= 2:
                continue
            parts = []
            for lo, hi in zip(cuts, cuts[1:]):
                assigns = []
                for a in c.assignments:
                    s, e = max(a.start, lo), min(a.start + len(a.value), hi)
                    if s < e:
                        assigns.append(_nir.Assignment(cond=a.cond, start=s - lo,
                                                       value=_nir.Value(a.value[s - a.start: e - a.start]), src_loc=a.src_loc))
                new = _nir.AssignmentList(c.module_idx, default=_nir.Value(c.default[lo:hi]), assignments=assigns,
                                          src_loc=c.src_loc)
                nl.cells.append(new)
                parts.append((lo, hi, len(nl.cells) - 1))
            table[i] = parts
            total += 1
        if not table:
            break
        rm = _Remap(table)
        for k, cell in enumerate(nl.cells):
            if k in table:
                continue
            cell.resolve_nets(rm)
        for sig in list(nl.signals):
            nl.signals[sig] = rm.resolve_value(nl.signals[sig])
        for i in table:
            nl.cells[i] = _nir.Top()
    return total


class SplitTarget(Target):
    def generate(self, outdir):
        elab, ins, outs = self.build()
        ports = {}
        for n, s in ins: ports[n] = (s, 'i')
        for n, s in outs: ports[n] = (s, 'o')
        nl = nir2coq.elaborate(elab, ports)
        self.nsplit = split_word_cycles(nl)
        consts = {}
        declared = {n for n, _ in ins}
        for nm in nl.top.ports_i:
            if nm not in declared and (nm == "rst" or nm.endswith("_rst")):
                consts[nm] = 0
        modname = "G_" + self.name
        text, lay = nir2coq.emit(nl, modname, [n for n, _ in ins], [n for n, _ in outs], consts)
        outdir = pathlib.Path(outdir); outdir.mkdir(parents=True, exist_ok=True)
        path = outdir / f"{modname}.v"
        path.write_text(text)
        self.layout = lay
        self.modname = modname
        self.gen_path = path
        self.ncells = len(nl.cells)
        self.gen_sha = hashlib.sha256(text.encode()).hexdigest()[:16]
        return lay
