"""R lock-step obligation over an explicit input alphabet (a Coq `list N`), for modules whose data inputs
are too wide for `tie.rlock`'s "all 2^k input words" (e.g. an 11-bit frame number next to control bits).

Same certified closure as tie.rlock (Machine.R_lockstep is already generic in the alphabet); the theorem
quantifies over all traces, of any length, whose input words are members of the alphabet:

    forall tr, Forall (fun i => In i alpha) tr -> env_ok ... tr = true ->
      run G.step G.init tr = run mstep m0 tr.

This is weaker than tie.rlock: input words outside the alphabet are not covered by the theorem (use
tie.corr on full-range traces for those).  Choose alphabets that exercise every bit of every data input
both ways.
"""
from harness.tie import Obligation


def rlock_alpha(name, target, *, St, mstep, enc, dec, wf, dec_enc, wf_step, m0, wf_m0, alphabet,
                env="(fun _ _ => true)", fuel=5000, describe=""):
    G = target.modname
    defs = f"""
Module {name}.
  Definition step := {G}.step.
  Definition mon := rl_mon ({St}) ({mstep}) ({enc}) ({dec}) ({env}).
  Definition alpha : list N := Eval vm_compute in ({alphabet}).
  Definition m0 := ({enc}) ({m0}).
  Definition bfs := Eval vm_compute in explore step mon alpha {fuel} {G}.init m0.
  Definition ob_cex := Eval vm_compute in cex bfs.
  Definition ob_left := Eval vm_compute in length (front bfs).
  Definition ob_states := Eval vm_compute in length (allst bfs).
End {name}.
"""
    thms = f"""
Module {name}_T.
  Import {name}.
  Definition L := Eval vm_compute in allst bfs.
  Lemma L_closed : closed step mon alpha L = true.
  Proof. vm_compute. reflexivity. Qed.
  Lemma init_in : pmem {G}.init m0 (of_list L) = true.
  Proof. vm_compute. reflexivity. Qed.
  Lemma alpha_mem : forall x, existsb (N.eqb x) alpha = true -> In x alpha.
  Proof.
    intros x H. apply existsb_exists in H. destruct H as [y [Hy E]]. apply N.eqb_eq in E. subst y. exact Hy.
  Qed.
  Theorem tie : forall tr, Forall (fun i => In i alpha) tr ->
    env_ok ({St}) ({mstep}) ({env}) ({m0}) tr = true ->
    run {G}.step {G}.init tr = run ({mstep}) ({m0}) tr.
  Proof.
    intros tr H HE.
    apply (R_lockstep step ({St}) ({mstep}) ({enc}) ({dec}) ({wf}) ({env}) ({dec_enc}) ({wf_step}) alpha L).
    - exact L_closed.
    - exact init_in.
    - {wf_m0}
    - exact H.
    - exact HE.
  Qed.
End {name}_T.
"""
    return Obligation(name, "R-lockstep(alphabet)", target, defs, thms, [f"{name}_T.tie"], describe,
                      mon_expr=f"{name}.mon", m0_expr=f"{name}.m0")
