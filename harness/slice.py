"""Cone-of-influence slicing of a regenerated netlist (used by targets that observe a few signals of a
large design, e.g. the frame counters inside USBDevice).

SlicedTarget behaves like core.Target, but before the netlist is printed as Coq every cell that cannot
influence a declared output (transitively, through registers and memories) is dropped, and every
top-level input that is not declared is checked to lie outside that cone (otherwise the target is rejected:
fail-closed) and tied to 0.  Dropping cells outside the cone does not change any declared output on any
input trace; in addition, the sliced machine is validated against Amaranth's simulator of the complete,
unsliced design on every run like any other target (core.validate_translation).

The slicing itself lives here (and not in tools/nir2coq.py) so that the printer stays a pure
cell-kind -> helper table; nir2coq.emit skips `Top` cells, which is what dropped cells are replaced by.
"""
import copy, hashlib, pathlib

from amaranth.hdl import _nir

from harness.core import Target
from tools import nir2coq


def cone_of_influence(nl, out_names):
    """Indices of all cells that can influence the top-level outputs `out_names`."""
    cells = nl.cells
    top = nl.top
    work = []
    for nm in out_names:
        if nm not in top.ports_o:
            raise nir2coq.Unsupported(f"declared output {nm} missing from netlist")
        work += [n for n in top.ports_o[nm]]
    keep = set()
    used_top_bits = set()
    writers = {}
    for i, c in enumerate(cells):
        if isinstance(c, _nir.SyncWritePort):
            writers.setdefault(c.memory, []).append(i)
    stack = []
    def push_nets(nets):
        for n in nets:
            if n.is_const:
                continue
            if n.is_late:
                raise nir2coq.Unsupported("late-bound net survived resolution")
            if n.cell == 0:
                used_top_bits.add(n.bit)
            elif n.cell not in keep:
                keep.add(n.cell); stack.append(n.cell)
    push_nets(work)
    while stack:
        i = stack.pop()
        c = cells[i]
        push_nets(c.input_nets())
        if isinstance(c, _nir.SyncReadPort):
            for j in [c.memory] + writers.get(c.memory, []):
                if j not in keep:
                    keep.add(j); stack.append(j)
        if isinstance(c, _nir.AsyncReadPort):
            raise nir2coq.Unsupported("asynchronous read port in the cone of influence")
    return keep, used_top_bits


class SlicedTarget(Target):
    def generate(self, outdir):
        elab, ins, outs = self.build()
        ports = {}
        for n, s in ins: ports[n] = (s, 'i')
        for n, s in outs: ports[n] = (s, 'o')
        nl = nir2coq.elaborate(elab, ports)
        keep, used_bits = cone_of_influence(nl, [n for n, _ in outs])
        declared = {n for n, _ in ins}
        consts = {}
        clock_bits = set()
        for i in keep:
            c = nl.cells[i]
            if isinstance(c, (_nir.FlipFlop, _nir.SyncReadPort, _nir.SyncWritePort)) and not c.clk.is_const and c.clk.cell == 0:
                clock_bits.add(c.clk.bit)
        for nm, (start, width) in nl.top.ports_i.items():
            if nm in declared:
                continue
            bits = set(range(start, start + width))
            if bits & clock_bits:
                continue                      # a clock of kept registers: handled by emit
            if nm == "rst" or nm.endswith("_rst") or not (bits & used_bits):
                consts[nm] = 0                # reset inputs are held at 0 (as in core.Target); others are outside the cone
            else:
                raise nir2coq.Unsupported(f"undeclared top-level input {nm} can influence the declared outputs")
        placeholder = _nir.Top()
        nl2 = copy.copy(nl)
        nl2.cells = [c if (i == 0 or i in keep) else placeholder for i, c in enumerate(nl.cells)]
        modname = "G_" + self.name
        text, lay = nir2coq.emit(nl2, modname, [n for n, _ in ins], [n for n, _ in outs], consts)
        outdir = pathlib.Path(outdir); outdir.mkdir(parents=True, exist_ok=True)
        path = outdir / f"{modname}.v"
        path.write_text(text)
        self.layout = lay
        self.modname = modname
        self.gen_path = path
        self.ncells = len(keep)
        self.ncells_unsliced = len(nl.cells)
        self.gen_sha = hashlib.sha256(text.encode()).hexdigest()[:16]
        return lay
