"""Core of the verification harness: targets, translator invocation, pysim runner, Coq evaluation,
evidence and replay writing.  Run with PYTHONPATH=/repo:/verif, PYTHONHASHSEED=0, /venv/bin/python."""
import os, sys, re, json, time, random, subprocess, hashlib, shutil, pathlib

VERIF = pathlib.Path(__file__).resolve().parent.parent
REPO = pathlib.Path(os.environ.get("LUNA_REPO", "/repo"))
BUILD_ROOT = VERIF / "_build"
# experiments against another tree (LUNA_REPO) get their own scratch area so they cannot clobber a
# concurrent run of the same check against /repo
BUILD = BUILD_ROOT if str(REPO) == "/repo" else BUILD_ROOT / ("exp_" + REPO.name)
COQ = VERIF / "coq"
if str(REPO) not in sys.path:
    sys.path.insert(0, str(REPO))
if str(VERIF) not in sys.path:
    sys.path.insert(0, str(VERIF))

import warnings
warnings.filterwarnings("ignore")

from tools import nir2coq

COQ_TIMEOUT = int(os.environ.get("VERIF_COQ_TIMEOUT", "600"))


class HarnessFault(Exception):
    """The machinery itself is broken (exit 2, never a VIOLATION)."""


# ----------------------------------------------------------------------------------------------
# Targets
# ----------------------------------------------------------------------------------------------
class Target:
    """A module of /repo, instantiated with fixed parameters, with named ports.

    build() -> (elaboratable, [(in_name, Signal)], [(out_name, Signal)])
    """
    def __init__(self, name, build, clocks=None):
        self.name = name
        self.build = build
        self.clocks = clocks   # for multi-clock targets: {domain: ratio}
        self._nl = None

    def generate(self, outdir):
        """Elaborate from the current /repo tree and print the Coq machine. Returns Layout."""
        from amaranth.hdl import Fragment
        elab, ins, outs = self.build()
        ports = {}
        for n, s in ins: ports[n] = (s, 'i')
        for n, s in outs: ports[n] = (s, 'o')
        nl = nir2coq.elaborate(elab, ports)
        # a target may state which clock inputs its configuration must have (e.g. a `domain=` constructor option)
        exp = getattr(self, "expect_clocks", None)
        if exp is not None:
            clk_ports = sorted(nm for nm in nl.top.ports_i if nm == "clk" or nm.endswith("_clk"))
            if clk_ports != sorted(exp):
                raise RuntimeError(f"configuration must be clocked by {sorted(exp)} but the elaborated design has clock inputs {clk_ports}")
        consts = {}
        declared = {n for n, _ in ins}
        for nm in nl.top.ports_i:
            if nm not in declared and (nm == "rst" or nm.endswith("_rst")):
                consts[nm] = 0
        modname = "G_" + self.name
        text, lay = nir2coq.emit(nl, modname, [n for n, _ in ins], [n for n, _ in outs], consts)
        outdir = pathlib.Path(outdir); outdir.mkdir(parents=True, exist_ok=True)
        path = outdir / f"{modname}.v"
        path.write_text(text)
        self.layout = lay
        self.modname = modname
        self.gen_path = path
        self.ncells = len(nl.cells)
        self.gen_sha = hashlib.sha256(text.encode()).hexdigest()[:16]
        return lay

    # ---- pysim --------------------------------------------------------------------------------
    def simulate(self, traces):
        """traces: list of list of dict(in_name->int).  Returns list of list of dict(out_name->int):
        the combinational outputs seen in each cycle (after the inputs of that cycle are applied and
        before the clock edge)."""
        from amaranth.sim import Simulator
        from amaranth.hdl import Fragment
        elab, ins, outs = self.build()
        sim = Simulator(elab)
        frag = sim._design.fragment if hasattr(sim, "_design") else None
        domains = list(sim._design.fragment.domains.keys()) if frag is not None else ["sync"]
        if self.clocks:
            # multi-clock target: {domain: ratio}; one trace step = one period of the fastest clock,
            # active edges of a domain with ratio r coincide with every r-th fast edge (steps 0, r, 2r, ...)
            base = 1e-6
            for d, ratio in self.clocks.items():
                sim.add_clock(base * ratio, phase=base / 2, domain=d)
        else:
            for d in domains:
                sim.add_clock(1e-6, domain=d)
        holder = {"trace": None, "result": None}
        insig = dict(ins); outsig = list(outs)
        tick_domain = domains[0] if domains else "sync"
        if self.clocks:
            tick_domain = min(self.clocks, key=lambda d: self.clocks[d])

        async def tb(ctx):
            res = []
            for cyc in holder["trace"]:
                for n, v in cyc.items():
                    if n in insig:
                        ctx.set(insig[n], v)
                res.append({n: ctx.get(s) for n, s in outsig})
                if domains:
                    await ctx.tick(tick_domain)
                else:
                    await ctx.delay(1e-6)
            holder["result"] = res
        sim.add_testbench(tb)
        results = []
        for tr in traces:
            holder["trace"] = tr
            sim.reset()
            sim.run()
            results.append(holder["result"])
        return results

    def add_ticks(self, trace):
        """For multi-clock targets: add the tick_<clk> fields (step k ticks domain d iff k % ratio == 0)."""
        if not self.clocks:
            return trace
        out = []
        for k, cyc in enumerate(trace):
            c = dict(cyc)
            for d, ratio in self.clocks.items():
                c[f"tick_{d}_clk"] = int(k % ratio == 0)
            out.append(c)
        return out

    def pack_in(self, cyc):
        return nir2coq.pack(self.layout.inputs, cyc)

    def pack_out(self, o):
        return nir2coq.pack(self.layout.outputs, o)


# ----------------------------------------------------------------------------------------------
# Coq
# ----------------------------------------------------------------------------------------------
def coq_args(extra_dirs=()):
    a = ["-Q", str(COQ / "Lib"), "LunaLib", "-Q", str(COQ / "Model"), "LunaModel",
         "-Q", str(COQ / "Properties"), "LunaProps"]
    for d, name in extra_dirs:
        a += ["-Q", str(d), name]
    return a


def _big_stack():
    """vm_compute over a few hundred thousand reachable states recurses deeply: lift the soft stack limit to the
    hard one for the coqc child (no effect where the hard limit is small)."""
    import resource
    try:
        soft, hard = resource.getrlimit(resource.RLIMIT_STACK)
        resource.setrlimit(resource.RLIMIT_STACK, (hard, hard))
    except (ValueError, OSError):
        pass


def coqc(path, extra_dirs=(), timeout=None):
    """Compile one file. Returns (ok, stdout+stderr, seconds)."""
    t = time.time()
    cmd = ["timeout", str(timeout or COQ_TIMEOUT), "coqc"] + coq_args(extra_dirs) + [str(path)]
    p = subprocess.run(cmd, capture_output=True, text=True, cwd=str(pathlib.Path(path).parent),
                       preexec_fn=_big_stack)
    return p.returncode == 0, p.stdout + p.stderr, time.time() - t


def ensure_static_built(needed=None):
    """(Re)build Lib/ and Model/ with make (incremental, under a lock so that concurrent checks do
    not race).  _CoqProject is regenerated from the files present."""
    import fcntl
    BUILD_ROOT.mkdir(exist_ok=True)
    with open(BUILD_ROOT / ".make.lock", "w") as lk:
        fcntl.flock(lk, fcntl.LOCK_EX)
        files = sorted(str(p.relative_to(COQ)) for d in ("Lib", "Model") for p in (COQ / d).glob("*.v"))
        text = "-Q Lib LunaLib\n-Q Model LunaModel\n-Q Properties LunaProps\n" + "\n".join(files) + "\n"
        cp = COQ / "_CoqProject"
        if not cp.exists() or cp.read_text() != text:
            cp.write_text(text)
        mk = COQ / "Makefile"
        if not mk.exists() or mk.stat().st_mtime < cp.stat().st_mtime:
            subprocess.run(["coq_makefile", "-f", "_CoqProject", "-o", "Makefile"], cwd=str(COQ), check=True,
                           capture_output=True)
        # build only what this check depends on (a slow or broken file of another property must not block us),
        # each file under its own time limit
        goals = []
        if needed is not None:
            goals = [str(pathlib.Path(f).relative_to(COQ))[:-2] + ".vo" for f in needed
                     if pathlib.Path(f).parent.name in ("Lib", "Model")]
        p = subprocess.run(["timeout", "3000", "make", "-k", "-j8", f"COQC=timeout {COQ_TIMEOUT} coqc"] + goals,
                           cwd=str(COQ), capture_output=True, text=True)
        return p.returncode == 0, (p.stdout + p.stderr)[-3000:]


def nlist(xs):
    return "[" + "; ".join(str(int(x)) for x in xs) + "]"


def parse_n_list(out, tag):
    """Parse `tag = [1; 2; 3]` style output of `Eval vm_compute in`. We print each result with a
    preceding (* tag *) marker by naming the definition."""
    m = re.search(re.escape(tag) + r"\s*=\s*(.*?)\n\s*:\s", out, re.S)
    if not m:
        raise HarnessFault(f"cannot find {tag} in coq output:\n{out[-2000:]}")
    body = m.group(1)
    return body


def coq_eval(workdir, name, header, defs, queries, extra_dirs=(), timeout=None):
    """Write <name>.v = header + defs + `Definition q := ...` and print each query with
    Eval vm_compute.  queries: list of (tag, expr) where expr : list N or N or bool.
    Returns dict tag -> raw text."""
    workdir = pathlib.Path(workdir); workdir.mkdir(parents=True, exist_ok=True)
    src = [header, defs]
    for tag, expr in queries:
        src.append(f"Definition {tag} := {expr}.")
        src.append(f"Eval vm_compute in {tag}.")
    path = workdir / f"{name}.v"
    path.write_text("\n".join(src) + "\n")
    ok, out, secs = coqc(path, extra_dirs=list(extra_dirs) + [(workdir, "Run")], timeout=timeout)
    if not ok:
        raise HarnessFault(f"coq evaluation file {path} failed:\n{out[-3000:]}")
    res = {}
    # Output blocks look like "     = value\n     : type"
    blocks = re.findall(r"=\s(.*?)\n\s+:\s[^\n]*", out, re.S)
    if len(blocks) != len(queries):
        raise HarnessFault(f"expected {len(queries)} results, got {len(blocks)} in\n{out[-2000:]}")
    for (tag, _), b in zip(queries, blocks):
        res[tag] = re.sub(r"\s+", " ", b.strip())
    return res


def parse_nums(txt):
    return [int(x) for x in re.findall(r"\d+", txt.replace("%N", ""))]


# ----------------------------------------------------------------------------------------------
# Translator validation: generated machine vs Amaranth's simulator
# ----------------------------------------------------------------------------------------------
def validate_translation(target, traces, workdir, outs=None):
    """Run pysim and the generated Coq machine on the same traces; any difference is a harness
    fault (the translator or Netlist.v misrepresents Amaranth), not a property violation.
    `outs`: simulator outputs if already computed (simulation is done serially by the driver: building
    LUNA objects and running pysim is not thread-safe; only the coqc evaluation runs in parallel)."""
    if outs is None:
        outs = target.simulate(traces)
    ins_packed = [[target.pack_in(c) for c in tr] for tr in traces]
    outs_packed = [[target.pack_out(o) for o in tr] for tr in outs]
    M = target.modname
    defs = [f"Definition tr_in : list (list N) := [" + ";\n ".join(nlist(t) for t in ins_packed) + "].",
            f"Definition tr_out : list (list N) := [" + ";\n ".join(nlist(t) for t in outs_packed) + "]."]
    hdr = (f"From Coq Require Import NArith List. Import ListNotations.\n"
           f"From LunaLib Require Import Netlist Machine.\nRequire Import Run.{M}.\nOpen Scope N_scope.\n")
    q = [("mism", f"mismatches {M}.step {M}.init tr_in tr_out")]
    res = coq_eval(workdir, f"Val_{target.name}", hdr, "\n".join(defs), q)
    bad = parse_nums(res["mism"])
    if bad:
        raise HarnessFault(f"translator validation failed for {target.name}: trace indices {bad[:10]} differ "
                           f"between pysim and the generated Coq machine")
    return dict(traces=len(traces), cycles=sum(len(t) for t in traces)), outs


# ----------------------------------------------------------------------------------------------
# Evidence / replays / known findings
# ----------------------------------------------------------------------------------------------
def write_evidence(pid, tier, seed, coverage, assumptions, wall, violations=0, level="proof"):
    ev = dict(property_id=pid, tier=tier, seed=int(seed), level=level, coverage=coverage,
              assumptions=assumptions, wall_s=round(wall, 2), violations=violations)
    # evidence/ is only written for runs against /repo itself; experiments with LUNA_REPO go to _build/
    d = (VERIF / "evidence") if str(REPO) == "/repo" else (BUILD / "evidence")
    if os.environ.get("VERIF_EVIDENCE_DIR"):           # bulk runs that must not touch the committed evidence
        d = pathlib.Path(os.environ["VERIF_EVIDENCE_DIR"])
    d.mkdir(parents=True, exist_ok=True)
    (d / f"{pid}.json").write_text(json.dumps(ev, indent=1, default=str) + "\n")


def write_replay(pid, payload):
    d = VERIF / "replays"; d.mkdir(exist_ok=True)
    h = hashlib.sha256(json.dumps(payload, sort_keys=True, default=str).encode()).hexdigest()[:10]
    p = d / f"{pid}-{h}.json"
    p.write_text(json.dumps(payload, indent=1, default=str) + "\n")
    return p


def known_findings(pid):
    """Lines `finding: property=Cxx sig=<signature> <text>` from known_findings.txt."""
    f = VERIF / "known_findings.txt"
    out = []
    if f.exists():
        for line in f.read_text().splitlines():
            m = re.match(r"finding:\s+property=(\S+)\s+sig=(\S+)\s+(.*)", line)
            if m and m.group(1) == pid:
                out.append((m.group(2), m.group(3)))
    return out
