"""R lock-step obligation over an EXPLICIT input alphabet (a Coq `list N` expression) instead of all
k-bit words: same theorem shape and same kernel-checked closure as tie.rlock (Machine.R_lockstep is generic
in the alphabet), but the closure enumerates only the listed input words.  For modules with wide data or
parameter inputs (8-bit payloads, 12-bit byte counts) of which a few representative values are covered
exhaustively; words outside the alphabet are NOT covered by the theorem (use tie.corr for those).
(Used by props/C28.py and props/C15.py.)"""
from harness.tie import Obligation


def rlock_alpha(name, target, *, St, mstep, enc, dec, wf, dec_enc, wf_step, m0, wf_m0, alphabet,
                env="(fun _ _ => true)", fuel=5000, describe=""):
    """alphabet: Coq expression of type `list N` (packed input words).  Theorems produced:
         <name>_T.tie : forall tr, Forall (fun i => In i <name>.alpha) tr -> env_ok St mstep env m0 tr = true ->
                        run G.step G.init tr = run mstep m0 tr
         <name>_T.alpha_mem : forall w, existsb (N.eqb w) <name>.alpha = true -> In w <name>.alpha."""
    G = target.modname
    defs = f"""
Module {name}.
  Definition step := {G}.step.
  Definition mon := rl_mon ({St}) ({mstep}) ({enc}) ({dec}) ({env}).
  Definition alpha : list N := Eval vm_compute in ({alphabet}).
  Definition m0 := ({enc}) ({m0}).
  Definition bfs := Eval vm_compute in explore step mon alpha {fuel} {G}.init m0.
  Definition ob_cex := Eval vm_compute in cex bfs.
  Definition ob_left := Eval vm_compute in length (front bfs).
  Definition ob_states := Eval vm_compute in length (allst bfs).
End {name}.
"""
    thms = f"""
Module {name}_T.
  Import {name}.
  Definition L := Eval vm_compute in allst bfs.
  Lemma L_closed : closed step mon alpha L = true.
  Proof. vm_compute. reflexivity. Qed.
  Lemma init_in : pmem {G}.init m0 (of_list L) = true.
  Proof. vm_compute. reflexivity. Qed.
  Lemma alpha_mem : forall w, existsb (N.eqb w) alpha = true -> In w alpha.
  Proof. intros w H. apply existsb_exists in H as [x [Hx E]]. apply N.eqb_eq in E. subst. exact Hx. Qed.
  Theorem tie : forall tr, Forall (fun i => In i alpha) tr ->
    env_ok ({St}) ({mstep}) ({env}) ({m0}) tr = true ->
    run {G}.step {G}.init tr = run ({mstep}) ({m0}) tr.
  Proof.
    intros tr H HE.
    apply (R_lockstep step ({St}) ({mstep}) ({enc}) ({dec}) ({wf}) ({env}) ({dec_enc}) ({wf_step}) alpha L).
    - exact L_closed.
    - exact init_in.
    - {wf_m0}
    - exact H.
    - exact HE.
  Qed.
End {name}_T.
"""
    return Obligation(name, "R-lockstep(explicit alphabet)", target, defs, thms, [f"{name}_T.tie"], describe,
                      mon_expr=f"{name}.mon", m0_expr=f"{name}.m0")
