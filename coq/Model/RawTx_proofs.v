(* C36 -- proofs about the RawPacketTransmitter / RawHeaderPacketReceiver models (Model/RawTx.v). *)
From Coq Require Import NArith ZArith Arith List Bool Lia ZifyBool ZifyN.
Import ListNotations.
From LunaLib Require Import Netlist Bits Affine Machine PackN SsWords.
From LunaModel Require Import Crc Crc_proofs DataRx DataRx_proofs RawTx.
Ltac Zify.zify_post_hook ::= Z.div_mod_to_equations.
Open Scope N_scope.

(* ------------------------------------------------------------------------------------------------------ *)
(* 1. byte-valid masks                                                                                     *)
Lemma rtx_nbytes_cases : forall v, rtx_nbytes v <> 0 ->
  (v = 1 /\ rtx_nbytes v = 1) \/ (v = 3 /\ rtx_nbytes v = 2) \/ (v = 7 /\ rtx_nbytes v = 3) \/ (v = 15 /\ rtx_nbytes v = 4).
Proof.
  intros v H. unfold rtx_nbytes in *.
  destruct (v =? 15) eqn:E15; [right; right; right; split; [lia | reflexivity]|].
  destruct (v =? 7) eqn:E7; [right; right; left; split; [lia | reflexivity]|].
  destruct (v =? 3) eqn:E3; [right; left; split; [lia | reflexivity]|].
  destruct (v =? 1) eqn:E1; [left; split; [lia | reflexivity]|]. contradiction.
Qed.

(* ------------------------------------------------------------------------------------------------------ *)
(* 2. the transmitter frames packets: cycle-exact equality with the wire specification                      *)
Definition rtx_tailw (pv pw crc : N) : list (N * N) :=
  [(rtx_last_word pv pw crc, 0); rtx_crc_word pv crc; rtx_fin_word pv].
Fixpoint rtx_pay_rest (bs : list (N * N)) (crc : N) : list (N * N) :=
  match bs with
  | [] => []
  | b :: t => match t with [] => rtx_tailw (snd b) (fst b) crc | _ => (fst b, 0) :: rtx_pay_rest t crc end
  end.

Lemma rtx_pay_rest_nonempty : forall bs crc, bs <> [] -> rtx_pay_rest bs crc <> [].
Proof. intros [|b [|b2 t]] crc H; [contradiction | discriminate | discriminate]. Qed.

Section Framing.
  Variable U : crc_units.
  Variables h16 c32f r16 r32 : list N -> N.
  Hypothesis H16i : r16 [] = u16_init U.
  Hypothesis H16a : forall ws w, u16_adv U (r16 ws) w = r16 (ws ++ [w]).
  Hypothesis H16o : forall ws, u16_out U (r16 ws) = h16 ws.
  Hypothesis H32i : r32 [] = u32_init U.
  Hypothesis H32a : forall bs k w, 1 <= k <= 4 ->
    u32_adv U (r32 bs) k w = r32 (bs ++ firstn (N.to_nat k) (drx_bytes4 w)).
  Hypothesis H32o : forall bs, u32_out U (r32 bs) = c32f bs.

  Variable p : rtx_pkt.
  Hypothesis Hb0 : p_dw0 p < 4294967296.
  Hypothesis Hb1 : p_dw1 p < 4294967296.
  Hypothesis Hb2 : p_dw2 p < 4294967296.
  Hypothesis Hbl : p_lf p < 4294967296.
  Hypothesis Hbeats : beats_ok (p_beats p) = true.

  Let crc := c32f (p_payload p).
  Definition rtx_dpp_x : list (N * N) :=
    if p_delayed p then [RTX_DPPABORT]
    else match p_beats p with
         | [] => [rtx_crc_word 15 crc; rtx_fin_word 15]
         | bs => rtx_pay_rest bs crc
         end.
  Definition rtx_rest_x : list (N * N) := if p_is_data p then RTX_DPPSTART :: rtx_dpp_x else [].
  Definition rtx_d3w : N * N := (rtx_dw3 (h16 [p_dw0 p; p_dw1 p; p_dw2 p]) (p_lf p), 0).
  (* the wire, word by word as the FSM produces it *)
  Definition rtx_wire_x : list (N * N) :=
    RTX_HPSTART :: (p_dw0 p, 0) :: (p_dw1 p, 0) :: (p_dw2 p, 0) :: rtx_d3w :: rtx_rest_x.

  Definition rtx_latched (s : rtx_state) : Prop :=
    th0 s = p_dw0 p /\ th1 s = p_dw1 p /\ th2 s = p_dw2 p /\ thl s = p_lf p.
  Definition rtx_hdr_inv (s : rtx_state) (bs : list (N * N)) (k16 : list N) : Prop :=
    rtx_latched s /\ t16 s = r16 k16 /\ t32 s = r32 [] /\ bs = p_beats p.

  Definition rtx_inv (s : rtx_state) (bs ws : list (N * N)) : Prop :=
    match tf s with
    | TIDLE => ws = []
    | THP => rtx_hdr_inv s bs [] /\ ws = rtx_wire_x
    | TDW0 => rtx_hdr_inv s bs [] /\ ws = (p_dw0 p, 0) :: (p_dw1 p, 0) :: (p_dw2 p, 0) :: rtx_d3w :: rtx_rest_x
    | TDW1 => rtx_hdr_inv s bs [p_dw0 p] /\ ws = (p_dw1 p, 0) :: (p_dw2 p, 0) :: rtx_d3w :: rtx_rest_x
    | TDW2 => rtx_hdr_inv s bs [p_dw0 p; p_dw1 p] /\ ws = (p_dw2 p, 0) :: rtx_d3w :: rtx_rest_x
    | TDW3 => rtx_hdr_inv s bs [p_dw0 p; p_dw1 p; p_dw2 p] /\ ws = rtx_d3w :: rtx_rest_x
    | TSDP => rtx_latched s /\ t32 s = r32 [] /\ bs = p_beats p /\
              tzlp s = match p_beats p with [] => true | _ => false end /\ ws = RTX_DPPSTART :: rtx_dpp_x
    | TPAY => exists consumed, bs <> [] /\ beats_ok bs = true /\ t32 s = r32 consumed /\
              consumed ++ flat_map beat_bytes bs = p_payload p /\ ws = (tpw s, 0) :: rtx_pay_rest bs crc
    | TLAST => u32_out U (t32 s) = crc /\ ws = rtx_tailw (tpv s) (tpw s) crc
    | TCRC => u32_out U (t32 s) = crc /\ ws = [rtx_crc_word (tpv s) crc; rtx_fin_word (tpv s)]
    | TFIN => ws = [rtx_fin_word (tpv s)]
    | TABORT => ws = [RTX_DPPABORT]
    end.

  (* one step of the specification *)
  Definition wire_hd (ws : list (N * N)) (r : bool) : rtx_obs :=
    match ws with
    | [] => rtx_idle_obs
    | w :: ws' => (true, w, r && match ws' with [] => true | _ => false end)
    end.
  Definition wire_tl (ws : list (N * N)) (r : bool) : list (N * N) :=
    match ws with [] => [] | _ :: ws' => if r then ws' else ws end.

  Lemma wire_run_cons : forall ws r t, wire_run ws (r :: t) = wire_hd ws r :: wire_run (wire_tl ws r) t.
  Proof. intros [|w ws'] r t; reflexivity. Qed.

  (* taking a beat from the producer: shared by START_DPP and SEND_PAYLOAD *)
  Lemma rtx_take_beat : forall consumed b t,
    beats_ok (b :: t) = true -> consumed ++ flat_map beat_bytes (b :: t) = p_payload p ->
    rtx_nbytes (snd b) <> 0 /\
    u32_adv U (r32 consumed) (rtx_nbytes (snd b)) (fst b) = r32 (consumed ++ beat_bytes b) /\
    (t = [] -> c32f (consumed ++ beat_bytes b) = crc) /\
    (t <> [] -> beats_ok t = true /\ (consumed ++ beat_bytes b) ++ flat_map beat_bytes t = p_payload p).
  Proof.
    intros consumed b t Hok Hpay.
    assert (Hn : rtx_nbytes (snd b) <> 0).
    { destruct t as [|b2 t2]; cbn [beats_ok] in Hok.
      - apply andb_true_iff in Hok as [Hn _]. destruct (rtx_nbytes (snd b) =? 0) eqn:E; [discriminate | lia].
      - apply andb_true_iff in Hok as [Hn _]. apply andb_true_iff in Hn as [Hn _]. apply N.eqb_eq in Hn. rewrite Hn. discriminate. }
    split; [exact Hn|]. split.
    - rewrite H32a; [reflexivity|]. destruct (rtx_nbytes_cases _ Hn) as [[_ E]|[[_ E]|[[_ E]|[_ E]]]]; rewrite E; lia.
    - split.
      + intros ->. cbn [flat_map] in Hpay. rewrite app_nil_r in Hpay. unfold crc. rewrite <- Hpay. reflexivity.
      + intros Hne. destruct t as [|b2 t2]; [contradiction|]. cbn [beats_ok] in Hok.
        apply andb_true_iff in Hok as [_ Hok]. split; [exact Hok|]. rewrite <- app_assoc. exact Hpay.
  Qed.

  Lemma rtx_head_mask_nonzero : forall b t, beats_ok (b :: t) = true -> (snd b =? 0) = false.
  Proof.
    intros b t Hok. destruct t as [|b2 t2]; cbn [beats_ok] in Hok.
    - apply andb_true_iff in Hok as [Hn _]. destruct (snd b =? 0) eqn:E; [|reflexivity].
      apply N.eqb_eq in E. rewrite E in Hn. discriminate.
    - apply andb_true_iff in Hok as [Hn _]. apply andb_true_iff in Hn as [Hn _]. apply N.eqb_eq in Hn. rewrite Hn. reflexivity.
  Qed.

  Ltac rsimp := unfold rtx_inv, rtx_hdr_inv, rtx_latched in *;
                cbn [tf th0 th1 th2 thl tpw tpv tzlp t16 t32 fst snd] in *.

  Lemma rtx_step_inv : forall s bs ws r, rtx_inv s bs ws ->
    let so := rtx_next U s (rtx_env_in p false bs r) in
    rtx_obs_of (snd so) = wire_hd ws r /\
    rtx_inv (fst so) (if x_dready (snd so) then tl bs else bs) (wire_tl ws r).
  Proof.
    intros s bs ws r I. destruct s as [f h0 h1 h2 hl pw pv z a b].
    destruct f; rsimp;
      cbn [rtx_next tf fst snd rtx_env_in i_gen i_ready i_ddata i_dvalid i_dlast th0 th1 th2 thl tpw tpv tzlp t16 t32
           rtx_obs_of x_valid x_data x_ctrl x_done x_dready andb].
    - (* IDLE *) subst ws. split; reflexivity.
    - (* HP *) destruct I as [[[L0 [L1 [L2 L3]]] [A [B E]]] ->]. subst.
      destruct r; (split; [reflexivity|]); cbn [wire_tl rtx_wire_x]; rsimp; repeat split; reflexivity.
    - (* DW0 *) destruct I as [[[L0 [L1 [L2 L3]]] [A [B E]]] ->]. subst.
      destruct r; (split; [reflexivity|]); cbn [wire_tl]; rsimp; rewrite ?H16a; repeat split; reflexivity.
    - (* DW1 *) destruct I as [[[L0 [L1 [L2 L3]]] [A [B E]]] ->]. subst.
      destruct r; (split; [reflexivity|]); cbn [wire_tl]; rsimp; rewrite ?H16a; repeat split; reflexivity.
    - (* DW2 *) destruct I as [[[L0 [L1 [L2 L3]]] [A [B E]]] ->]. subst.
      destruct r; (split; [reflexivity|]); cbn [wire_tl]; rsimp; rewrite ?H16a; repeat split; reflexivity.
    - (* DW3 *) destruct I as [[[L0 [L1 [L2 L3]]] [A [B E]]] ->]. subst. rewrite H16o.
      fold (p_is_data p). unfold rtx_rest_x, rtx_d3w.
      destruct (p_is_data p) eqn:D; destruct r; cbn [wire_hd wire_tl andb negb]; (split; [reflexivity|]); rsimp.
      + repeat split; try reflexivity.
        destruct (p_beats p) as [|b0 t0] eqn:EB; [reflexivity|]. cbn [fst snd]. apply (rtx_head_mask_nonzero b0 t0). exact Hbeats.
      + repeat split; reflexivity.
      + reflexivity.
      + repeat split; reflexivity.
    - (* START_DPP *) destruct I as [[L0 [L1 [L2 L3]]] [B [E [Z ->]]]]. subst.
      fold (p_delayed p). unfold rtx_dpp_x.
      destruct r; [|split; [reflexivity|]; cbn [wire_tl]; rsimp; repeat split; reflexivity].
      destruct (p_delayed p) eqn:DL.
      + split; [reflexivity|]. cbn [negb andb wire_tl]. rsimp. reflexivity.
      + destruct (p_beats p) as [|b0 t0] eqn:EB.
        * split; [reflexivity|]. cbn [negb andb wire_tl]. rsimp. split; [|reflexivity].
          rewrite H32o. unfold crc, p_payload. rewrite EB. reflexivity.
        * assert (Hpay : [] ++ flat_map beat_bytes (b0 :: t0) = p_payload p) by (unfold p_payload; rewrite EB; reflexivity).
          pose proof (rtx_take_beat [] b0 t0 Hbeats Hpay) as [Hn [Hadv [Hlast Hmore]]].
          cbn [negb andb wire_tl wire_hd tl]. split.
          { unfold rtx_obs_of. cbn [x_valid x_data x_ctrl x_done]. f_equal.
            destruct (rtx_pay_rest (b0 :: t0) crc) eqn:EP; [|reflexivity].
            exfalso. apply (rtx_pay_rest_nonempty (b0 :: t0) crc); [discriminate | exact EP]. }
          replace (negb (rtx_nbytes (snd b0) =? 0)) with true by (destruct (rtx_nbytes (snd b0) =? 0) eqn:E0; [lia | reflexivity]).
          rewrite Hadv. destruct t0 as [|b1 t1]; rsimp.
          -- split; [|reflexivity]. rewrite H32o. apply Hlast. reflexivity.
          -- destruct (Hmore ltac:(discriminate)) as [Hok' Hpay']. exists ([] ++ beat_bytes b0).
             repeat split; try assumption; try reflexivity. discriminate.
    - (* SEND_PAYLOAD *) destruct I as [consumed [Hne [Hok [B [Hpay ->]]]]]. subst.
      destruct r; [|split; [reflexivity|]; cbn [wire_tl]; rsimp; exists consumed; repeat split; assumption || reflexivity].
      destruct bs as [|b0 t0]; [contradiction|].
      pose proof (rtx_take_beat consumed b0 t0 Hok Hpay) as [Hn [Hadv [Hlast Hmore]]].
      cbn [wire_hd wire_tl tl fst snd]. split.
      + f_equal. f_equal. destruct (rtx_pay_rest (b0 :: t0) crc) eqn:EP; [|reflexivity].
        exfalso. apply (rtx_pay_rest_nonempty (b0 :: t0) crc); [discriminate | exact EP].
      + replace (negb (rtx_nbytes (snd b0) =? 0)) with true by (destruct (rtx_nbytes (snd b0) =? 0) eqn:E0; [lia | reflexivity]).
        rewrite Hadv. destruct t0 as [|b1 t1]; rsimp.
        * split; [|reflexivity]. rewrite H32o. apply Hlast. reflexivity.
        * destruct (Hmore ltac:(discriminate)) as [Hok' Hpay']. exists (consumed ++ beat_bytes b0).
          repeat split; try assumption; try reflexivity. discriminate.
    - (* SEND_LAST_WORD *) destruct I as [C ->]. rewrite C.
      destruct r; (split; [reflexivity|]); cbn [wire_tl rtx_tailw]; rsimp; [split; reflexivity | split; reflexivity].
    - (* SEND_CRC *) destruct I as [C ->]. rewrite C.
      destruct r; (split; [destruct (rtx_crc_word pv crc); reflexivity|]); cbn [wire_tl]; rsimp; [reflexivity | split; reflexivity].
    - (* FINISH_DPP *) subst ws.
      destruct r; (split; [destruct (rtx_fin_word pv); reflexivity|]); cbn [wire_tl]; rsimp; reflexivity.
    - (* ABORT_DPP *) subst ws. destruct r; (split; [reflexivity|]); cbn [wire_tl]; rsimp; reflexivity.
  Qed.

  Lemma rtx_loop_inv : forall rdys s bs ws, rtx_inv s bs ws ->
    map rtx_obs_of (rtx_loop U p s bs false rdys) = wire_run ws rdys.
  Proof.
    induction rdys as [|r t IH]; intros s bs ws I; [reflexivity|].
    cbn [rtx_loop]. rewrite wire_run_cons.
    pose proof (rtx_step_inv s bs ws r I) as [Ho In]. cbv zeta in Ho, In.
    destruct (rtx_next U s (rtx_env_in p false bs r)) as [s' o]. cbn [fst snd map] in *.
    rewrite Ho. f_equal. apply IH. exact In.
  Qed.

  Lemma rtx_hdr_word_fields :
    bits (rtx_hdr_word p) 0 32 = p_dw0 p /\ bits (rtx_hdr_word p) 32 32 = p_dw1 p /\
    bits (rtx_hdr_word p) 64 32 = p_dw2 p /\ bits (rtx_hdr_word p) 96 32 = p_lf p.
  Proof.
    unfold rtx_hdr_word. rewrite !bits_spec.
    change (2 ^ 0) with 1; change (2 ^ 32) with 4294967296; change (2 ^ 64) with (4294967296 * 4294967296);
      change (2 ^ 96) with (4294967296 * (4294967296 * 4294967296)).
    rewrite N.div_1_r. rewrite <- !N.div_div by lia.
    set (W := 4294967296) in *.
    assert (E1 : (p_dw0 p + W * (p_dw1 p + W * (p_dw2 p + W * p_lf p))) / W = p_dw1 p + W * (p_dw2 p + W * p_lf p))
      by (apply (pk_div W); exact Hb0).
    assert (E2 : (p_dw1 p + W * (p_dw2 p + W * p_lf p)) / W = p_dw2 p + W * p_lf p) by (apply (pk_div W); exact Hb1).
    assert (E3 : (p_dw2 p + W * p_lf p) / W = p_lf p) by (apply (pk_div W); exact Hb2).
    rewrite E1, E2, E3. repeat split.
    - apply (pk_mod W); exact Hb0.
    - apply (pk_mod W); exact Hb1.
    - apply (pk_mod W); exact Hb2.
    - apply N.mod_small. exact Hbl.
  Qed.

  (* C36, transmit side: generate in the first cycle, then ANY ready pattern *)
  Theorem rtx_frames : forall r0 rdys,
    map rtx_obs_of (rtx_loop U p (rtx_init U) (p_beats p) true (r0 :: rdys)) = rtx_idle_obs :: wire_run rtx_wire_x rdys.
  Proof.
    intros r0 rdys. cbn [rtx_loop rtx_next rtx_init tf rtx_env_in i_gen map rtx_obs_of x_valid x_data x_ctrl x_done x_dready].
    f_equal. apply rtx_loop_inv. unfold rtx_inv, rtx_hdr_inv, rtx_latched. cbn [tf th0 th1 th2 thl t16 t32 i_hdr].
    change (i_hdr (rtx_env_in p true (p_beats p) r0)) with (rtx_hdr_word p).
    destruct rtx_hdr_word_fields as [F0 [F1 [F2 F3]]]. rewrite F0, F1, F2, F3, H16i, H32i. repeat split; reflexivity.
  Qed.
End Framing.

(* ------------------------------------------------------------------------------------------------------ *)
(* 3. the word-by-word wire equals the declarative symbol stream                                            *)
Definition rtx_nosym (b : N) : N * bool := (b, false).
Definition rtx_endseq : list (N * bool) := [(SYM_END, true); (SYM_END, true); (SYM_END, true); (SYM_EPF, true)].

Ltac bits_arith :=
  rewrite ?bits_spec;
  change (2 ^ 0) with 1; change (2 ^ 8) with 256; change (2 ^ 16) with 65536; change (2 ^ 24) with 16777216;
  change (2 ^ 32) with 4294967296; unfold SYM_END, SYM_EPF; lia.

Ltac rtx_pairs := repeat match goal with
  | |- _ :: _ = _ :: _ => f_equal
  | |- (_, _) = (_, _) => apply f_equal2
  end.

Lemma rtx_words_full : forall w S, w < 4294967296 ->
  words_of_syms (map rtx_nosym (drx_bytes4 w) ++ S) = (w, 0) :: words_of_syms S.
Proof.
  intros w S Hw. cbn [drx_bytes4 map app words_of_syms]. f_equal. unfold sym_word. cbn [map fst snd rtx_nosym].
  f_equal. apply (drx_le_word w Hw).
Qed.

Lemma rtx_words_end : words_of_syms rtx_endseq = [RTX_DPPEND].
Proof. vm_compute. reflexivity. Qed.

Lemma rtx_dpp_words : forall bs crc, beats_ok bs = true -> crc < 4294967296 ->
  words_of_syms (map rtx_nosym (flat_map beat_bytes bs ++ drx_bytes4 crc) ++ rtx_endseq)
  = match bs with [] => [rtx_crc_word 15 crc; rtx_fin_word 15] | _ => rtx_pay_rest bs crc end.
Proof.
  intros bs crc. induction bs as [|b t IH]; intros Hok Hc.
  - cbn [flat_map app]. rewrite rtx_words_full by exact Hc. rewrite rtx_words_end. reflexivity.
  - destruct t as [|b2 t2].
    + (* the last beat *)
      cbn [beats_ok] in Hok. apply andb_true_iff in Hok as [Hn Hw]. apply N.ltb_lt in Hw.
      assert (Hn' : rtx_nbytes (snd b) <> 0) by (destruct (rtx_nbytes (snd b) =? 0) eqn:E; [discriminate | lia]).
      destruct b as [w v]. cbn [fst snd] in *. cbn [flat_map rtx_pay_rest fst snd]. rewrite app_nil_r. unfold beat_bytes. cbn [fst snd].
      destruct (rtx_nbytes_cases v Hn') as [[-> E]|[[-> E]|[[-> E]|[-> E]]]]; rewrite E.
      * change (N.to_nat 1) with 1%nat. cbn [firstn drx_bytes4 app map words_of_syms]. unfold rtx_tailw, sym_word, rtx_nosym, rtx_endseq.
        cbn [map fst snd rtx_last_word rtx_crc_word rtx_fin_word drx_le].
        rtx_pairs; try reflexivity; bits_arith.
      * change (N.to_nat 2) with 2%nat. cbn [firstn drx_bytes4 app map words_of_syms]. unfold rtx_tailw, sym_word, rtx_nosym, rtx_endseq.
        cbn [map fst snd rtx_last_word rtx_crc_word rtx_fin_word drx_le].
        rtx_pairs; try reflexivity; bits_arith.
      * change (N.to_nat 3) with 3%nat. cbn [firstn drx_bytes4 app map words_of_syms]. unfold rtx_tailw, sym_word, rtx_nosym, rtx_endseq.
        cbn [map fst snd rtx_last_word rtx_crc_word rtx_fin_word drx_le].
        rtx_pairs; try reflexivity; bits_arith.
      * change (N.to_nat 4) with 4%nat. change (firstn 4 (drx_bytes4 w)) with (drx_bytes4 w).
        rewrite map_app, <- app_assoc, rtx_words_full by exact Hw. rewrite rtx_words_full by exact Hc. rewrite rtx_words_end.
        reflexivity.
    + (* a full word, more to come *)
      change (beats_ok (b :: b2 :: t2)) with ((snd b =? 15) && (fst b <? 4294967296) && beats_ok (b2 :: t2)) in Hok.
      apply andb_true_iff in Hok as [Hb Hok]. apply andb_true_iff in Hb as [Hv Hw]. apply N.eqb_eq in Hv. apply N.ltb_lt in Hw.
      change (flat_map beat_bytes (b :: b2 :: t2)) with (beat_bytes b ++ flat_map beat_bytes (b2 :: t2)).
      unfold beat_bytes at 1. rewrite Hv. change (N.to_nat (rtx_nbytes 15)) with 4%nat.
      change (firstn 4 (drx_bytes4 (fst b))) with (drx_bytes4 (fst b)).
      rewrite <- app_assoc, map_app, <- app_assoc, rtx_words_full by exact Hw.
      rewrite IH by assumption. reflexivity.
Qed.

(* the wire specification of Model/RawTx.v, for a well-formed packet, is the word-by-word wire *)
Theorem rtx_wire_explicit : forall h16 c32f p, beats_ok (p_beats p) = true -> (forall bs, c32f bs < 4294967296) ->
  wire h16 c32f p = rtx_wire_x h16 c32f p.
Proof.
  intros h16 c32f p Hok Hc. unfold wire, rtx_wire_x, wire_header, rtx_rest_x, rtx_d3w. cbn [app]. repeat f_equal.
  destruct (p_is_data p); [|reflexivity]. unfold rtx_dpp_x. destruct (p_delayed p); [reflexivity|].
  unfold wire_dpp. f_equal.
  pose proof (rtx_dpp_words (p_beats p) (c32f (p_payload p)) Hok (Hc _)) as W.
  change (map (fun b : N => (b, false)) (p_payload p ++ drx_bytes4 (c32f (p_payload p))) ++
          [(SYM_END, true); (SYM_END, true); (SYM_END, true); (SYM_EPF, true)])
    with (map rtx_nosym (flat_map beat_bytes (p_beats p) ++ drx_bytes4 (c32f (p_payload p))) ++ rtx_endseq).
  rewrite W. destruct (p_beats p); reflexivity.
Qed.

(* ------------------------------------------------------------------------------------------------------ *)
(* 4. reading the cycle-exact statement: accepted words and `done`                                          *)
Fixpoint rtx_count_true (l : list bool) : nat := match l with [] => O | b :: t => (if b then 1 else 0) + rtx_count_true t end.

Fixpoint obs_accepted (rdys : list bool) (obs : list rtx_obs) : list (N * N) :=
  match rdys, obs with
  | r :: t, (v, w, _) :: o => (if r && v then [w] else []) ++ obs_accepted t o
  | _, _ => []
  end.
Definition obs_dones (obs : list rtx_obs) : nat := length (filter (fun o : rtx_obs => snd o) obs).

Lemma wire_run_accepted : forall rdys ws, obs_accepted rdys (wire_run ws rdys) = firstn (rtx_count_true rdys) ws.
Proof.
  induction rdys as [|r t IH]; intros ws; [reflexivity|].
  destruct ws as [|w ws']; cbn [wire_run obs_accepted rtx_idle_obs rtx_count_true].
  - rewrite andb_false_r. cbn [app]. rewrite IH. rewrite !firstn_nil. reflexivity.
  - rewrite andb_true_r. destruct r; cbn [app Nat.add]; rewrite IH; reflexivity.
Qed.

Lemma wire_run_dones : forall rdys ws,
  obs_dones (wire_run ws rdys) = if (Nat.ltb 0 (length ws) && Nat.leb (length ws) (rtx_count_true rdys))%bool then 1%nat else 0%nat.
Proof.
  unfold obs_dones. induction rdys as [|r t IH]; intros ws.
  - cbn. destruct ws; reflexivity.
  - destruct ws as [|w ws']; cbn [wire_run rtx_idle_obs filter snd length rtx_count_true].
    + rewrite IH. reflexivity.
    + destruct r; cbn [andb Nat.add].
      * destruct ws' as [|w2 ws2]; cbn [filter snd length].
        -- rewrite IH. reflexivity.
        -- rewrite IH. cbn [length]. reflexivity.
      * rewrite IH. cbn [length]. reflexivity.
Qed.

(* ------------------------------------------------------------------------------------------------------ *)
(* 5. instances                                                                                             *)
Lemma drx_crc32_lt : forall bs, crc32_usb bs < 4294967296.
Proof.
  intro bs. unfold crc32_usb. pose proof (bits2N_bound (crc_bits poly32 (bits_of_units 8 bs))) as B.
  assert (L : length (crc_bits poly32 (bits_of_units 8 bs)) = 32%nat).
  { unfold crc_bits, crc_finish. rewrite map_length, rev_length.
    change (crc_shifts bool xorb false poly32 (repeat true (length poly32)) (bits_of_units 8 bs))
      with (crc_update poly32 (repeat true 32) (bits_of_units 8 bs)).
    rewrite drx_crc_update_length; [reflexivity | reflexivity | discriminate]. }
  rewrite L in B. exact B.
Qed.

Lemma drx_stub_c32_lt : forall bs, drx_stub_c32 bs < 4294967296.
Proof.
  unfold drx_stub_c32. assert (G : forall bs acc, acc < 2 ^ 32 -> fold_left (fun r b => N.lxor r (bits b 0 2)) bs acc < 2 ^ 32).
  { induction bs as [|b t IH]; intros acc Ha; [exact Ha|]. cbn [fold_left]. apply IH. apply drx_lxor_lt_pow2; [exact Ha|].
    pose proof (bits_lt b 0 2) as Hb. change (2 ^ 2) with 4 in Hb. change (2 ^ 32) with 4294967296. lia. }
  intro bs. apply (G bs 3). cbn. lia.
Qed.

Definition rtx_pkt_ok (p : rtx_pkt) : Prop :=
  p_dw0 p < 4294967296 /\ p_dw1 p < 4294967296 /\ p_dw2 p < 4294967296 /\ p_lf p < 4294967296 /\
  beats_ok (p_beats p) = true.

Theorem rtx_real_frames : forall p r0 rdys, rtx_pkt_ok p ->
  map rtx_obs_of (rtx_loop drx_real_units p (rtx_init drx_real_units) (p_beats p) true (r0 :: rdys))
  = rtx_idle_obs :: wire_run (wire crc16_hdr crc32_usb p) rdys.
Proof.
  intros p r0 rdys (H0 & H1 & H2 & H3 & Hb).
  rewrite (rtx_wire_explicit crc16_hdr crc32_usb p Hb drx_crc32_lt).
  apply (rtx_frames drx_real_units crc16_hdr crc32_usb drx_reg16_of drx_reg32_of); try assumption.
  - exact drx_real16_init.
  - exact drx_real16_adv.
  - exact drx_real16_out.
  - exact drx_real32_init.
  - exact drx_real32_adv.
  - exact drx_real32_out.
Qed.

Theorem rtx_stub_frames : forall p r0 rdys, rtx_pkt_ok p ->
  map rtx_obs_of (rtx_loop drx_stub_units p (rtx_init drx_stub_units) (p_beats p) true (r0 :: rdys))
  = rtx_idle_obs :: wire_run (wire drx_stub_h16 drx_stub_c32 p) rdys.
Proof.
  intros p r0 rdys (H0 & H1 & H2 & H3 & Hb).
  rewrite (rtx_wire_explicit drx_stub_h16 drx_stub_c32 p Hb drx_stub_c32_lt).
  apply (rtx_frames drx_stub_units drx_stub_h16 drx_stub_c32 drx_stub_h16 drx_stub_c32); try assumption.
  - reflexivity.
  - intros. unfold drx_stub_h16. rewrite fold_left_app. reflexivity.
  - reflexivity.
  - reflexivity.
  - intros. cbn [u32_adv drx_stub_units]. apply drx_stub32_adv. assumption.
  - reflexivity.
Qed.

(* ------------------------------------------------------------------------------------------------------ *)
(* 6. the fourth header word                                                                                *)
Lemma drx_crc16h_lt : forall ws, crc16_hdr ws < 65536.
Proof.
  intro ws. unfold crc16_hdr. pose proof (bits2N_bound (crc_bits poly16h (bits_of_units 32 ws))) as B.
  assert (L : length (crc_bits poly16h (bits_of_units 32 ws)) = 16%nat).
  { unfold crc_bits, crc_finish. rewrite map_length, rev_length.
    change (crc_shifts bool xorb false poly16h (repeat true (length poly16h)) (bits_of_units 32 ws))
      with (crc_update poly16h (repeat true 16) (bits_of_units 32 ws)).
    rewrite drx_crc_update_length; [reflexivity | reflexivity | discriminate]. }
  rewrite L in B. exact B.
Qed.

Lemma rtx_dw3_fields : forall c lf, c < 65536 ->
  bits (rtx_dw3 c lf) 0 16 = c /\ bits (rtx_dw3 c lf) 16 11 = bits lf 16 11 /\
  bits (rtx_dw3 c lf) 27 5 = crc5_usb (bits lf 16 11) /\ bits (rtx_dw3 c lf) 16 3 = bits lf 16 3 /\
  rtx_dw3 c lf < 4294967296.
Proof.
  intros c lf Hc. unfold rtx_dw3. pose proof (drx_crc5_lt (bits lf 16 11)) as H5.
  pose proof (bits_lt lf 16 11) as H11. change (2 ^ 11) with 2048 in H11.
  set (L := bits lf 16 11) in *. set (K := crc5_usb L) in *.
  assert (E3 : bits lf 16 3 = L mod 8).
  { unfold L. rewrite !bits_spec. change (2 ^ 16) with 65536; change (2 ^ 3) with 8; change (2 ^ 11) with 2048. lia. }
  rewrite E3. rewrite !bits_spec.
  change (2 ^ 0) with 1; change (2 ^ 16) with 65536; change (2 ^ 11) with 2048; change (2 ^ 27) with 134217728;
    change (2 ^ 5) with 32; change (2 ^ 3) with 8.
  repeat split; lia.
Qed.

(* ------------------------------------------------------------------------------------------------------ *)
(* 7. round trip, header: RawHeaderPacketReceiver recovers the header from the transmitted words, with any
      invalid words interleaved                                                                             *)
Section HdrRoundTrip.
  Variable U : crc_units.
  Variables h16 r16f : list N -> N.
  Hypothesis H16i : r16f [] = u16_init U.
  Hypothesis H16a : forall ws w, u16_adv U (r16f ws) w = r16f (ws ++ [w]).
  Hypothesis H16o : forall ws, u16_out U (r16f ws) = h16 ws.
  Hypothesis H16b : forall ws, h16 ws < 65536.
  Variable p : rtx_pkt.
  Variable eseq : N.

  Let d3 := rtx_dw3 (h16 [p_dw0 p; p_dw1 p; p_dw2 p]) (p_lf p).

  (* progress through the header: k words of it have been taken *)
  Definition rhr_prog (k : nat) (s : rhr_state) : Prop :=
    match k with
    | 0%nat => rf s = RWAIT
    | 1%nat => rf s = RDW0 /\ r16 s = r16f []
    | 2%nat => rf s = RDW1 /\ r16 s = r16f [p_dw0 p] /\ rp0 s = p_dw0 p
    | 3%nat => rf s = RDW2 /\ r16 s = r16f [p_dw0 p; p_dw1 p] /\ rp0 s = p_dw0 p /\ rp1 s = p_dw1 p
    | 4%nat => rf s = RDW3 /\ r16 s = r16f [p_dw0 p; p_dw1 p; p_dw2 p] /\ rp0 s = p_dw0 p /\ rp1 s = p_dw1 p /\ rp2 s = p_dw2 p
    | _ => rf s = RCHK /\ r16 s = r16f [p_dw0 p; p_dw1 p; p_dw2 p] /\ rp0 s = p_dw0 p /\ rp1 s = p_dw1 p /\ rp2 s = p_dw2 p /\
           rp3 s = d3 /\ rx5 s = crc5_usb (bits d3 16 11)
    end.

  Definition rhr_invalid (w : bool * (N * N)) : Prop := fst w = false.

  Lemma rhr_prog_gap : forall g k s, (k <= 4)%nat -> Forall rhr_invalid g -> rhr_prog k s ->
    rhr_prog k (rhr_state_after U s eseq g).
  Proof.
    induction g as [|[v [d c]] g IH]; intros k s Hk Hg P; [exact P|].
    inversion Hg as [|? ? Hv Hg']; subst. unfold rhr_invalid in Hv. cbn [fst] in Hv. subst v.
    cbn [rhr_state_after]. apply IH; [exact Hk | exact Hg'|].
    destruct s as [f a0 a1 a2 a3 x k16 n o].
    destruct k as [|[|[|[|[|k]]]]]; try lia; cbn [rhr_prog rf r16 rp0 rp1 rp2 rp3 rx5] in *.
    - subst f. reflexivity.
    - destruct P as [-> P]. cbn [rhr_next rf fst r16]. exact (conj eq_refl P).
    - destruct P as [-> P]. cbn [rhr_next rf fst r16 rp0]. exact (conj eq_refl P).
    - destruct P as [-> P]. cbn [rhr_next rf fst r16 rp0 rp1]. exact (conj eq_refl P).
    - destruct P as [-> P]. cbn [rhr_next rf fst r16 rp0 rp1 rp2]. exact (conj eq_refl P).
  Qed.

  Lemma rhr_after_app : forall a b s,
    rhr_state_after U s eseq (a ++ b) = rhr_state_after U (rhr_state_after U s eseq a) eseq b.
  Proof. induction a as [|[v [d c]] a IH]; intros b s; [reflexivity|]. cbn [app rhr_state_after]. apply IH. Qed.

  Lemma rhr_prog_word : forall k s, (k <= 4)%nat -> rhr_prog k s ->
    rhr_prog (S k) (rhr_state_after U s eseq
      [(true, nth k [RTX_HPSTART; (p_dw0 p, 0); (p_dw1 p, 0); (p_dw2 p, 0); (d3, 0)] (0, 0))]).
  Proof.
    intros k s Hk P. destruct s as [f a0 a1 a2 a3 x k16 n o].
    destruct k as [|[|[|[|[|k]]]]]; try lia; cbn [rhr_prog rf r16 rp0 rp1 rp2 rp3 rx5 nth rhr_state_after] in *.
    - subst f. cbn [rhr_next rf fst r16 RTX_HPSTART snd andb]. rewrite !N.eqb_refl. cbn [andb rf r16]. split; [reflexivity | symmetry; exact H16i].
    - destruct P as [-> ->]. cbn [rhr_next rf fst r16 rp0]. rewrite H16a. repeat split; reflexivity.
    - destruct P as [-> [-> ->]]. cbn [rhr_next rf fst r16 rp0 rp1]. rewrite H16a. repeat split; reflexivity.
    - destruct P as [-> [-> [-> ->]]]. cbn [rhr_next rf fst r16 rp0 rp1 rp2]. rewrite H16a. repeat split; reflexivity.
    - destruct P as [-> [-> [-> [-> ->]]]]. cbn [rhr_next rf fst r16 rp0 rp1 rp2 rp3 rx5]. repeat split; reflexivity.
  Qed.

  Theorem rhr_roundtrip : forall s g0 g1 g2 g3 g4 x,
    rf s = RWAIT -> eseq = bits (p_lf p) 16 3 ->
    Forall rhr_invalid g0 -> Forall rhr_invalid g1 -> Forall rhr_invalid g2 -> Forall rhr_invalid g3 -> Forall rhr_invalid g4 ->
    let s' := rhr_state_after U s eseq
                (g0 ++ [(true, RTX_HPSTART)] ++ g1 ++ [(true, (p_dw0 p, 0))] ++ g2 ++ [(true, (p_dw1 p, 0))] ++
                 g3 ++ [(true, (p_dw2 p, 0))] ++ g4 ++ [(true, (d3, 0))] ++ [x]) in
    rf s' = RWAIT /\ rnew s' = true /\
    rout s' = p_dw0 p + 4294967296 * (p_dw1 p + 4294967296 * (p_dw2 p + 4294967296 * d3)).
  Proof.
    intros s g0 g1 g2 g3 g4 x Hs He G0 G1 G2 G3 G4.
    pose proof (rhr_prog_gap g0 0 s ltac:(lia) G0 Hs) as P0.
    pose proof (rhr_prog_word 0 _ ltac:(lia) P0) as P1. cbn [nth] in P1.
    pose proof (rhr_prog_gap g1 1 _ ltac:(lia) G1 P1) as P1'.
    pose proof (rhr_prog_word 1 _ ltac:(lia) P1') as P2. cbn [nth] in P2.
    pose proof (rhr_prog_gap g2 2 _ ltac:(lia) G2 P2) as P2'.
    pose proof (rhr_prog_word 2 _ ltac:(lia) P2') as P3. cbn [nth] in P3.
    pose proof (rhr_prog_gap g3 3 _ ltac:(lia) G3 P3) as P3'.
    pose proof (rhr_prog_word 3 _ ltac:(lia) P3') as P4. cbn [nth] in P4.
    pose proof (rhr_prog_gap g4 4 _ ltac:(lia) G4 P4) as P4'.
    pose proof (rhr_prog_word 4 _ ltac:(lia) P4') as P5. cbn [nth] in P5.
    cbv zeta. rewrite !rhr_after_app.
    set (s5 := rhr_state_after U _ eseq [(true, (d3, 0))]) in *.
    destruct P5 as [F [K [A0 [A1 [A2 [A3 X5]]]]]].
    destruct x as [v [d c]]. cbn [rhr_state_after]. destruct s5 as [f a0 a1 a2 a3 x5 k16 n o].
    cbn [rf r16 rp0 rp1 rp2 rp3 rx5] in *. subst f k16 a0 a1 a2 a3 x5.
    cbn [rhr_next rf fst rnew rout rx5 rp3 r16 rp0 rp1 rp2]. rewrite H16o.
    destruct (rtx_dw3_fields (h16 [p_dw0 p; p_dw1 p; p_dw2 p]) (p_lf p) (H16b _)) as [F0 [F11 [F5 [F3 _]]]].
    fold d3 in F0, F11, F5, F3. rewrite F0, F5, F11, F3, He, !N.eqb_refl. cbn [negb orb andb]. repeat split; reflexivity.
  Qed.
End HdrRoundTrip.

(* ------------------------------------------------------------------------------------------------------ *)
(* 8. round trip, data: the specification of DataPacketReceiver (C40) run over the transmitted words yields the
      payload and `good`                                                                                    *)
Lemma rtx_last_beat_facts : forall w v crc, rtx_nbytes v <> 0 -> w < 4294967296 -> crc < 4294967296 ->
  let nb := N.to_nat (rtx_nbytes v) in
  let lastw := rtx_last_word v w crc in let cw := rtx_crc_word v crc in
  firstn nb (drx_bytes4 lastw ++ drx_bytes4 (fst cw)) = firstn nb (drx_bytes4 w) /\
  drx_le (firstn 4 (skipn nb (drx_bytes4 lastw ++ drx_bytes4 (fst cw)))) = crc /\
  snd (lastw, 0) = 0.
Proof.
  intros w v crc Hn Hw Hc. cbv zeta.
  destruct (rtx_nbytes_cases v Hn) as [[-> E]|[[-> E]|[[-> E]|[-> E]]]]; rewrite E;
    [change (N.to_nat 1) with 1%nat | change (N.to_nat 2) with 2%nat | change (N.to_nat 3) with 3%nat | change (N.to_nat 4) with 4%nat];
    cbn [rtx_last_word rtx_crc_word fst snd drx_bytes4 app firstn skipn drx_le]; (split; [|split; [|reflexivity]]).
  - f_equal. bits_arith.
  - bits_arith.
  - f_equal; [bits_arith | f_equal; bits_arith].
  - bits_arith.
  - f_equal; [bits_arith | f_equal; [bits_arith | f_equal; bits_arith]].
  - bits_arith.
  - reflexivity.
  - bits_arith.
Qed.

Definition rtx_zero_ctrl (w : N * N) : Prop := snd w = 0.

Lemma rtx_body_split : forall crc bs, bs <> [] -> beats_ok bs = true -> crc < 4294967296 ->
  exists pay cw more,
    rtx_pay_rest bs crc = pay ++ cw :: more /\ length pay = length bs /\ Forall rtx_zero_ctrl pay /\
    firstn (length (flat_map beat_bytes bs)) (sp_pbytes (pay ++ [cw])) = flat_map beat_bytes bs /\
    drx_le (firstn 4 (skipn (length (flat_map beat_bytes bs)) (sp_pbytes (pay ++ [cw])))) = crc /\
    (4 * (length bs - 1) < length (flat_map beat_bytes bs) <= 4 * length bs)%nat.
Proof.
  intros crc. induction bs as [|b t IH]; intros Hne Hok Hc; [contradiction|].
  destruct t as [|b2 t2].
  - cbn [beats_ok] in Hok. apply andb_true_iff in Hok as [Hn Hw]. apply N.ltb_lt in Hw.
    assert (Hn' : rtx_nbytes (snd b) <> 0) by (destruct (rtx_nbytes (snd b) =? 0) eqn:E; [discriminate | lia]).
    destruct b as [w v]. cbn [fst snd] in *.
    exists [(rtx_last_word v w crc, 0)], (rtx_crc_word v crc), [rtx_fin_word v].
    destruct (rtx_last_beat_facts w v crc Hn' Hw Hc) as [F1 [F2 _]].
    cbn [rtx_pay_rest fst snd flat_map app length]. rewrite app_nil_r. unfold beat_bytes. cbn [fst snd].
    assert (Hlen : length (firstn (N.to_nat (rtx_nbytes v)) (drx_bytes4 w)) = N.to_nat (rtx_nbytes v)).
    { rewrite firstn_length. cbn [drx_bytes4 length].
      destruct (rtx_nbytes_cases v Hn') as [[_ E]|[[_ E]|[[_ E]|[_ E]]]]; rewrite E; reflexivity. }
    rewrite Hlen. unfold sp_pbytes. cbn [map fst flat_map app]. rewrite app_nil_r.
    repeat split.
    + constructor; [reflexivity | constructor].
    + exact F1.
    + exact F2.
    + destruct (rtx_nbytes_cases v Hn') as [[_ E]|[[_ E]|[[_ E]|[_ E]]]]; rewrite E; cbn; lia.
    + destruct (rtx_nbytes_cases v Hn') as [[_ E]|[[_ E]|[[_ E]|[_ E]]]]; rewrite E; cbn; lia.
  - change (beats_ok (b :: b2 :: t2)) with ((snd b =? 15) && (fst b <? 4294967296) && beats_ok (b2 :: t2)) in Hok.
    apply andb_true_iff in Hok as [Hb Hok]. apply andb_true_iff in Hb as [Hv Hw]. apply N.eqb_eq in Hv. apply N.ltb_lt in Hw.
    destruct (IH ltac:(discriminate) Hok Hc) as [pay [cw [more [E [Hl [Hz [F1 [F2 F3]]]]]]]].
    exists ((fst b, 0) :: pay), cw, more.
    change (rtx_pay_rest (b :: b2 :: t2) crc) with ((fst b, 0) :: rtx_pay_rest (b2 :: t2) crc). rewrite E.
    change (flat_map beat_bytes (b :: b2 :: t2)) with (beat_bytes b ++ flat_map beat_bytes (b2 :: t2)).
    assert (Hbb : beat_bytes b = drx_bytes4 (fst b)) by (unfold beat_bytes; rewrite Hv; reflexivity).
    rewrite !Hbb. set (P := flat_map beat_bytes (b2 :: t2)) in *.
    change (sp_pbytes (((fst b, 0) :: pay) ++ [cw])) with (drx_bytes4 (fst b) ++ sp_pbytes (pay ++ [cw])).
    rewrite app_length. change (length (drx_bytes4 (fst b))) with 4%nat.
    repeat split.
    + cbn [length]. rewrite Hl. reflexivity.
    + constructor; [reflexivity | exact Hz].
    + rewrite firstn_app. change (length (drx_bytes4 (fst b))) with 4%nat.
      rewrite firstn_all2 by (cbn [drx_bytes4 length]; lia). f_equal.
      replace (4 + length P - 4)%nat with (length P) by lia. exact F1.
    + rewrite skipn_app. change (length (drx_bytes4 (fst b))) with 4%nat.
      rewrite skipn_all2 by (cbn [drx_bytes4 length]; lia). cbn [app].
      replace (4 + length P - 4)%nat with (length P) by lia. exact F2.
    + cbn [length] in *. lia.
    + cbn [length] in *. lia.
Qed.

Lemma rtx_clean_zero : forall lw ws pay k, Forall rtx_zero_ctrl pay -> sp_clean lw ws k pay = true.
Proof.
  intros lw ws. induction pay as [|w t IH]; intros k H; [reflexivity|].
  inversion H as [|? ? Hw Ht]; subst. cbn [sp_clean]. unfold rtx_zero_ctrl in Hw. rewrite Hw, N.land_0_l, N.eqb_refl.
  cbn [andb]. apply IH. exact Ht.
Qed.

Theorem rtx_data_roundtrip : forall lw p rest, rtx_pkt_ok p ->
  bits (p_dw0 p) 0 5 = DRX_TYPE_DATA -> p_delayed p = false ->
  bits (p_dw1 p) 16 lw = N.of_nat (length (p_payload p)) ->
  let ws := [p_dw0 p; p_dw1 p; p_dw2 p; rtx_dw3 (crc16_hdr [p_dw0 p; p_dw1 p; p_dw2 p]) (p_lf p)] in
  exists pay more,
    sp_run crc16_hdr crc32_usb lw SIdle (wire crc16_hdr crc32_usb p ++ rest)
    = sp_beats lw ws 0 pay ++ Report (sp_hdr ws) true :: sp_run crc16_hdr crc32_usb lw SIdle (more ++ rest) /\
    flat_map drx_beat_bytes (sp_beats lw ws 0 pay) = p_payload p.
Proof.
  intros lw p rest (H0 & H1 & H2 & H3 & Hb) Ht Hd HL ws.
  rewrite (rtx_wire_explicit crc16_hdr crc32_usb p Hb drx_crc32_lt).
  unfold rtx_wire_x, rtx_rest_x, rtx_d3w, rtx_dpp_x.
  assert (Hdata : p_is_data p = true).
  { unfold p_is_data. unfold DRX_TYPE_DATA in Ht. rewrite bits_spec in *. change (2 ^ 0) with 1 in *.
    change (2 ^ 5) with 32 in Ht. change (2 ^ 4) with 16. apply N.eqb_eq. lia. }
  rewrite Hdata, Hd.
  destruct (rtx_dw3_fields (crc16_hdr [p_dw0 p; p_dw1 p; p_dw2 p]) (p_lf p) (drx_crc16h_lt _)) as [F0 [F11 [F5 [F3 Fb]]]].
  assert (Hok : sp_hdr_ok crc16_hdr ws = true).
  { unfold sp_hdr_ok, ws. cbn [firstn nth]. rewrite F0, F11, F5, !N.eqb_refl. reflexivity. }
  assert (HLen : sp_len lw ws = N.of_nat (length (p_payload p))) by (unfold sp_len, ws; cbn [nth]; exact HL).
  set (crc := crc32_usb (p_payload p)).
  destruct (p_beats p) as [|b0 t0] eqn:EB.
  - (* zero-length packet *)
    assert (Hpl : p_payload p = []) by (unfold p_payload; rewrite EB; reflexivity).
    unfold crc in *. clear crc. rewrite Hpl in *. exists [rtx_crc_word 15 (crc32_usb [])], []. cbn [app]. cbn [length N.of_nat] in HLen. split.
    + assert (Hn : N.of_nat (length [rtx_crc_word 15 (crc32_usb [])]) = sp_nwords (sp_len lw ws)) by (rewrite HLen; reflexivity).
      assert (Hcl : sp_clean lw ws 0 [rtx_crc_word 15 (crc32_usb [])] = true)
        by (apply rtx_clean_zero; constructor; [reflexivity | constructor]).
      pose proof (sp_good_packet crc16_hdr crc32_usb lw (p_dw0 p) 0 (p_dw1 p) 0 (p_dw2 p) 0
                    (rtx_dw3 (crc16_hdr [p_dw0 p; p_dw1 p; p_dw2 p]) (p_lf p)) 0
                    [rtx_crc_word 15 (crc32_usb [])] (rtx_fin_word 15) rest Ht Hok Hn Hcl) as G.
      etransitivity; [exact G|]. fold ws. f_equal. f_equal. f_equal.
      unfold sp_verdict. fold ws. rewrite HLen. change (N.to_nat 0) with 0%nat.
      change (firstn 0 (sp_pbytes ([rtx_crc_word 15 (crc32_usb [])] ++ [rtx_fin_word 15]))) with (@nil N).
      change (drx_le (firstn 4 (skipn 0 (sp_pbytes ([rtx_crc_word 15 (crc32_usb [])] ++ [rtx_fin_word 15])))))
        with (drx_le (drx_bytes4 (crc32_usb []))).
      rewrite drx_le_word by apply drx_crc32_lt. apply N.eqb_refl.
    + cbn [sp_beats]. fold ws. rewrite HLen. reflexivity.
  - (* at least one beat *)
    rewrite <- EB in *.
    assert (Hne : p_beats p <> []) by (rewrite EB; discriminate).
    destruct (rtx_body_split crc (p_beats p) Hne Hb (drx_crc32_lt _)) as [pay [cw [more [E [Hl [Hz [G1 [G2 G3]]]]]]]].
    fold (p_payload p) in G1, G2, G3.
    exists pay, more.
    assert (Hmatch : match p_beats p with [] => [rtx_crc_word 15 crc; rtx_fin_word 15] | _ :: _ => rtx_pay_rest (p_beats p) crc end
                     = pay ++ cw :: more) by (rewrite EB in *; exact E).
    rewrite EB. rewrite EB in Hmatch. cbv beta iota in Hmatch |- *. rewrite <- EB in *.
    assert (Hn : N.of_nat (length pay) = sp_nwords (sp_len lw ws)).
    { rewrite HLen, Hl. unfold sp_nwords. destruct (N.of_nat (length (p_payload p)) =? 0) eqn:E0; lia. }
    split.
    + assert (Hcl : sp_clean lw ws 0 pay = true) by (apply rtx_clean_zero; exact Hz).
      pose proof (sp_good_packet crc16_hdr crc32_usb lw (p_dw0 p) 0 (p_dw1 p) 0 (p_dw2 p) 0
                    (rtx_dw3 (crc16_hdr [p_dw0 p; p_dw1 p; p_dw2 p]) (p_lf p)) 0
                    pay cw (more ++ rest) Ht Hok Hn Hcl) as G.
      rewrite E. cbn [app]. rewrite <- app_assoc. cbn [app].
      etransitivity; [exact G|]. fold ws. f_equal. f_equal. f_equal.
      unfold sp_verdict. fold ws. rewrite HLen, Nat2N.id, G1, G2. apply N.eqb_refl.
    + rewrite drx_beats_bytes. fold ws. rewrite N.mul_0_r, N.sub_0_r, HLen, Nat2N.id.
      rewrite <- G1 at 2. unfold sp_pbytes. rewrite map_app, flat_map_app, firstn_app.
      replace (length (p_payload p) - length (flat_map drx_bytes4 (map fst pay)))%nat with 0%nat.
      * rewrite firstn_O, app_nil_r. reflexivity.
      * change (flat_map drx_bytes4 (map fst pay)) with (drx_wbytes pay). rewrite drx_wbytes_length. lia.
Qed.

(* ------------------------------------------------------------------------------------------------------ *)
(* 9. packing for the lock-step obligations                                                                 *)
Lemma rtx_fsm_code_lt : forall f, rtx_fsm_code f < 16.
Proof. destruct f; cbn; lia. Qed.
Lemma rtx_fsm_of_code : forall f, rtx_fsm_of (rtx_fsm_code f) = f.
Proof. destruct f; reflexivity. Qed.

Lemma rtx_dec_enc : forall s, rtx_wf s -> rtx_dec (rtx_enc s) = s.
Proof.
  intros s (H1 & H2 & H3 & H4 & H5 & H6 & H7).
  unfold rtx_dec. cbv zeta. rewrite !N.shiftr_div_pow2.
  change 15 with (N.ones 4); change 4294967295 with (N.ones 32). rewrite !N.land_ones.
  change (2 ^ 4) with 16; change (2 ^ 32) with W32; change (2 ^ 1) with 2. unfold rtx_enc.
  repeat first [ rewrite (pk_div 16 (rtx_fsm_code (tf s))) by apply rtx_fsm_code_lt
               | rewrite (pk_mod 16 (rtx_fsm_code (tf s))) by apply rtx_fsm_code_lt
               | rewrite pk_div by first [assumption | apply b2n_lt2]
               | rewrite pk_mod by first [assumption | apply b2n_lt2] ].
  rewrite drx_odd_pk2, rtx_fsm_of_code. destruct s; reflexivity.
Qed.

Lemma rtx_wf_init : forall U, units_bounded U -> rtx_wf (rtx_init U).
Proof. intros U (A & B & _ & _). unfold rtx_wf, rtx_init, W32 in *. cbn. repeat split; try lia; assumption. Qed.

Lemma rtx_wf_next : forall U, units_bounded U -> forall s x,
  i_ddata x < W32 -> i_dvalid x < 16 -> rtx_wf s -> rtx_wf (fst (rtx_next U s x)).
Proof.
  intros U (Ai & Bi & Aa & Ba) s x Hd Hv (H1 & H2 & H3 & H4 & H5 & H6 & H7).
  assert (Hh0 : bits (i_hdr x) 0 32 < W32) by apply (bits_lt _ 0 32).
  assert (Hh1 : bits (i_hdr x) 32 32 < W32) by apply (bits_lt _ 32 32).
  assert (Hh2 : bits (i_hdr x) 64 32 < W32) by apply (bits_lt _ 64 32).
  assert (Hh3 : bits (i_hdr x) 96 32 < W32) by apply (bits_lt _ 96 32).
  assert (H16 : forall w, (if i_ready x then u16_adv U (t16 s) w else t16 s) < W32)
    by (intro w; destruct (i_ready x); [apply Aa; assumption | assumption]).
  assert (Hi : u16_init U < W32) by exact Ai.
  assert (H15 : 15 < 16) by lia.
  unfold rtx_next.
  destruct (tf s); cbn [fst];
    repeat match goal with |- rtx_wf (if ?c then _ else _) => destruct c end;
    unfold rtx_wf; cbn [th0 th1 th2 thl tpw tpv t16]; repeat split;
    first [assumption | apply H16 | idtac].
Qed.

Lemma rtx_wf_step : forall U, units_bounded U -> forall s i, rtx_wf s -> rtx_wf (fst (rtx_step U s i)).
Proof.
  intros U HU s i Hs. unfold rtx_step.
  pose proof (rtx_wf_next U HU s (rtx_decode i)) as H.
  destruct (rtx_next U s (rtx_decode i)) as [s' o]. cbn [fst] in *. apply H; [| | exact Hs].
  - unfold rtx_decode. cbn [i_ddata]. apply (bits_lt i 129 32).
  - unfold rtx_decode. cbn [i_dvalid]. apply (bits_lt i 161 4).
Qed.

Lemma rhr_fsm_code_lt : forall f, rhr_fsm_code f < 8.
Proof. destruct f; cbn; lia. Qed.
Lemma rhr_fsm_of_code : forall f, rhr_fsm_of (rhr_fsm_code f) = f.
Proof. destruct f; reflexivity. Qed.

Lemma rhr_dec_enc : forall s, rhr_wf s -> rhr_dec (rhr_enc s) = s.
Proof.
  intros s (H1 & H2 & H3 & H4 & H5 & H6).
  unfold rhr_dec. cbv zeta. rewrite !N.shiftr_div_pow2.
  change 7 with (N.ones 3); change 31 with (N.ones 5); change 4294967295 with (N.ones 32). rewrite !N.land_ones.
  change (2 ^ 3) with 8; change (2 ^ 32) with W32; change (2 ^ 5) with 32; change (2 ^ 1) with 2. unfold rhr_enc.
  repeat first [ rewrite (pk_div 8 (rhr_fsm_code (rf s))) by apply rhr_fsm_code_lt
               | rewrite (pk_mod 8 (rhr_fsm_code (rf s))) by apply rhr_fsm_code_lt
               | rewrite pk_div by first [assumption | apply b2n_lt2]
               | rewrite pk_mod by first [assumption | apply b2n_lt2] ].
  rewrite drx_odd_pk2, rhr_fsm_of_code. destruct s; reflexivity.
Qed.

Lemma rhr_wf_init : forall U, units_bounded U -> rhr_wf (rhr_init U).
Proof. intros U (A & B & _ & _). unfold rhr_wf, rhr_init, W32 in *. cbn. repeat split; try lia; assumption. Qed.

Lemma rhr_wf_next : forall U, units_bounded U -> forall s v data ctrl eseq, data < W32 -> rhr_wf s ->
  rhr_wf (fst (rhr_next U s v data ctrl eseq)).
Proof.
  intros U (Ai & Bi & Aa & Ba) s v data ctrl eseq Hd (H1 & H2 & H3 & H4 & H5 & H6).
  pose proof (drx_crc5_lt (bits data 16 11)) as H5'.
  assert (Hi : u16_init U < W32) by exact Ai.
  assert (Ha : u16_adv U (r16 s) data < W32) by (apply Aa; assumption).
  unfold rhr_next.
  destruct (rf s); cbn [fst];
    repeat match goal with |- rhr_wf (if ?c then _ else _) => destruct c end;
    unfold rhr_wf; cbn [rp0 rp1 rp2 rp3 rx5 r16]; repeat split; assumption.
Qed.

Lemma rhr_wf_step : forall U, units_bounded U -> forall s i, rhr_wf s -> rhr_wf (fst (rhr_step U s i)).
Proof.
  intros U HU s i Hs. unfold rhr_step.
  pose proof (bits_lt i 0 32) as Hd. change (2 ^ 32) with W32 in Hd.
  pose proof (rhr_wf_next U HU s (N.odd (bits i 36 1)) (bits i 0 32) (bits i 32 4) (bits i 37 3) Hd Hs) as H.
  destruct (rhr_next U s (N.odd (bits i 36 1)) (bits i 0 32) (bits i 32 4) (bits i 37 3)) as [s' o]. exact H.
Qed.
