(* C36 -- proofs about the RawPacketTransmitter / RawHeaderPacketReceiver models (Model/RawTx.v). *)
From Coq Require Import NArith ZArith Arith List Bool Lia ZifyBool ZifyN.
Import ListNotations.
From LunaLib Require Import Netlist Bits Affine Machine PackN SsWords.
From LunaModel Require Import Crc Crc_proofs DataRx DataRx_proofs RawTx.
Ltac Zify.zify_post_hook ::= Z.div_mod_to_equations.
Open Scope N_scope.
