From Coq Require Import NArith ZArith List Bool Lia ZifyBool ZifyN.
Import ListNotations.
From LunaLib Require Import Netlist Machine.
From LunaModel Require Import IpTimer.
Open Scope N_scope.
Ltac Zify.zify_post_hook ::= Z.div_mod_to_equations.

(* generic: the output in cycle t is the output function applied to the state reached on the first
   t inputs and to the input of cycle t *)
Lemma run_nth : forall (S : Type) (step : S -> N -> S * N) tr s t d, (t < length tr)%nat ->
  nth t (run step s tr) d = snd (step (run_state step s (firstn t tr)) (nth t tr 0)).
Proof.
  induction tr as [|i tr IH]; intros s t d Ht; simpl in Ht; [lia|].
  destruct t as [|t]; simpl.
  - destruct (step s i); reflexivity.
  - destruct (step s i) as [s' o] eqn:E. simpl. rewrite IH by lia. reflexivity.
Qed.

Section Proofs.
  Variable nif : nat.
  Variables cmax w : N.
  Variable tbl : ip_table.
  (* every delay in the table is reachable by the counter, and the counter register can hold cmax+1 *)
  Definition tbl_ok : Prop :=
    forall s a b t, tbl s = Some (a, b, t) -> a <= cmax /\ b <= cmax /\ t <= cmax.
  Hypothesis Htbl : tbl_ok.
  Hypothesis Hw : cmax + 1 < 2 ^ w.

  (* the saturating counter is the elapsed time, clipped at cmax+1 *)
  Definition rel (c e : N) : Prop := c = N.min e (cmax + 1).

  Lemma rel_init : rel ip_init sp_init.
  Proof. unfold rel, ip_init, sp_init. lia. Qed.

  Lemma rel_next : forall c e st, rel c e -> rel (ip_next cmax w c st) (sp_next e st).
  Proof.
    intros c e st H. unfold rel, ip_next, sp_next in *. destruct st; [lia|].
    destruct (c <? cmax + 1) eqn:E.
    - rewrite N.mod_small by lia. lia.
    - lia.
  Qed.

  Lemma rel_strobes : forall c e sp, rel c e -> ip_strobes tbl c sp = ip_strobes tbl e sp.
  Proof.
    intros c e sp H. unfold ip_strobes. destruct (tbl sp) as [[[a b] t]|] eqn:T; [|reflexivity].
    destruct (Htbl _ _ _ _ T) as (Ha & Hb & Ht). unfold rel in H.
    assert (Ea : (c =? a) = (e =? a)) by lia.
    assert (Eb : (c =? b) = (e =? b)) by lia.
    assert (Et : (c =? t) = (e =? t)) by lia.
    rewrite Ea, Eb, Et. reflexivity.
  Qed.

  Theorem iptimer_refines : forall tr c e, rel c e ->
    run (ip_step nif cmax w tbl) c tr = run (sp_step nif tbl) e tr.
  Proof.
    induction tr as [|i tr IH]; intros c e H; simpl; [reflexivity|].
    rewrite (rel_strobes _ _ _ H). f_equal. apply IH. apply rel_next. exact H.
  Qed.

  Corollary iptimer_from_reset : forall tr,
    run (ip_step nif cmax w tbl) ip_init tr = run (sp_step nif tbl) sp_init tr.
  Proof. intro tr. apply iptimer_refines. apply rel_init. Qed.

  (* closed form of the specification state *)
  Lemma sp_state_app1 : forall h e i,
    run_state (sp_step nif tbl) e (h ++ [i]) = sp_next (run_state (sp_step nif tbl) e h) (ip_starts nif i).
  Proof. intros. rewrite run_state_app. reflexivity. Qed.

  Lemma sp_state_elapsed : forall h, run_state (sp_step nif tbl) sp_init h = elapsed nif h.
  Proof.
    induction h as [|i h IH] using rev_ind; [reflexivity|].
    rewrite sp_state_app1, IH. unfold elapsed. rewrite rev_app_distr.
    cbn [rev app quiet_suffix]. unfold sp_next. destruct (ip_starts nif i); lia.
  Qed.

  (* the property, cycle by cycle: the strobes seen by every interface in cycle t are exactly
     "elapsed time = delay for the speed selected in cycle t" *)
  Theorem iptimer_exact : forall tr t, (t < length tr)%nat ->
    nth t (run (ip_step nif cmax w tbl) ip_init tr) 0
    = rep nif (ip_strobes tbl (elapsed nif (firstn t tr)) (ip_speed nif (nth t tr 0))).
  Proof.
    intros tr t Ht. rewrite iptimer_from_reset, run_nth by exact Ht.
    rewrite sp_state_elapsed. reflexivity.
  Qed.
End Proofs.

(* elapsed time after a start request in cycle |pre| followed by start-free cycles *)
Lemma elapsed_after_start : forall nif pre s quiet,
  ip_starts nif s = true -> Forall (fun i => ip_starts nif i = false) quiet ->
  elapsed nif (pre ++ s :: quiet) = N.of_nat (length quiet).
Proof.
  intros nif pre s quiet Hs Hq. unfold elapsed.
  induction quiet as [|q quiet IH] using rev_ind.
  - rewrite rev_app_distr. cbn [rev app quiet_suffix length]. rewrite Hs. reflexivity.
  - apply Forall_app in Hq as [Hq1 Hq2]. inversion Hq2; subst.
    replace (pre ++ s :: quiet ++ [q]) with ((pre ++ s :: quiet) ++ [q])
      by (rewrite <- app_assoc; reflexivity).
    rewrite rev_app_distr. cbn [rev app quiet_suffix]. rewrite H1, IH by exact Hq1.
    rewrite app_length. cbn [length]. lia.
Qed.

Lemma elapsed_from_reset : forall nif quiet,
  Forall (fun i => ip_starts nif i = false) quiet -> elapsed nif quiet = N.of_nat (length quiet).
Proof.
  intros nif quiet Hq. unfold elapsed.
  induction quiet as [|q quiet IH] using rev_ind; [reflexivity|].
  apply Forall_app in Hq as [Hq1 Hq2]. inversion Hq2; subst.
  rewrite rev_app_distr. cbn [rev app quiet_suffix]. rewrite H1, IH by exact Hq1.
  rewrite app_length. cbn [length]. lia.
Qed.

(* ---- the module's tables are the USB figures ------------------------------------------------- *)
Lemma tbl_60_spec : forall fs_only s, s <= 2 -> tbl_60 fs_only s = usb_delays 5 (negb fs_only) s.
Proof.
  intros fs_only s Hs.
  assert (H : s = 0 \/ s = 1 \/ s = 2) by lia.
  destruct H as [H|[H|H]]; subst s; destruct fs_only; reflexivity.
Qed.
Lemma tbl_12_spec : forall s, s <= 2 -> tbl_12 s = usb_delays 1 false s.
Proof.
  intros s Hs. assert (H : s = 0 \/ s = 1 \/ s = 2) by lia.
  destruct H as [H|[H|H]]; subst s; reflexivity.
Qed.

Lemma tbl_60_ok : forall fs_only, tbl_ok (cmax_of fs_only false) (tbl_60 fs_only).
Proof.
  intros fs_only s a b t H. unfold tbl_60, cmax_of in *.
  destruct s as [|[p|p|]]; destruct fs_only; simpl in *; try discriminate;
    inversion H; subst; cbv; repeat split; discriminate.
Qed.
Lemma tbl_12_ok : tbl_ok (cmax_of true true) tbl_12.
Proof.
  intros s a b t H. unfold tbl_12, cmax_of in *.
  destruct s as [|[p|p|]]; simpl in *; try discriminate.
  inversion H; subst; cbv; repeat split; discriminate.
Qed.

(* strobes depend on the table only through its value at the selected speed *)
Lemma ip_strobes_ext : forall t1 t2 c s, t1 s = t2 s -> ip_strobes t1 c s = ip_strobes t2 c s.
Proof. intros. unfold ip_strobes. rewrite H. reflexivity. Qed.

Lemma sp_run_ext : forall nif t1 t2 tr e,
  Forall (fun i => t1 (ip_speed nif i) = t2 (ip_speed nif i)) tr ->
  run (sp_step nif t1) e tr = run (sp_step nif t2) e tr.
Proof.
  induction tr as [|i tr IH]; intros e H; simpl; [reflexivity|].
  inversion H; subst. rewrite (ip_strobes_ext t1 t2 _ _ H2). f_equal. apply IH. exact H3.
Qed.

(* packing facts for the lock-step obligations: the model state is the counter itself *)
Definition ip_wf (c : N) : Prop := True.
Definition ip_enc (c : N) : N := c.
Definition ip_dec (c : N) : N := c.
Lemma ip_dec_enc : forall c, ip_wf c -> ip_dec (ip_enc c) = c.
Proof. reflexivity. Qed.
