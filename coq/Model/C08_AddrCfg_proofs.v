(* C08 -- proofs about Model/C08_AddrCfg.v:
     (1) the code-shaped model (request-handler FSM with its expecting_ack registers, frozen while the setup
         packet is not a standard request, plus the device registers) equals the four-field specification on
         every event history in which the setup fields only change together with `received`;
     (2) history-level consequences of the specification (unbounded in the length of the history);
     (3) packing lemmas for the tie obligations. *)
From Coq Require Import NArith ZArith List Bool Lia ZifyBool ZifyN.
Import ListNotations.
From LunaLib Require Import Netlist Machine.
From LunaModel Require Import C08_AddrCfg.
Open Scope N_scope.
Ltac Zify.zify_post_hook ::= Z.div_mod_to_equations.

(* ---------------------------------------------------------------------------------------------- *)
(* (1) model = specification                                                                       *)

Definition frozen_or_idle (prev : ev) (h : hstate) : Prop :=
  (h_fsm h = H_OTHER /\ h_ea_addr h = false /\ h_ea_cfg h = false) \/
  (h_fsm h = H_SET_ADDRESS /\ e_type prev <> TYPE_STANDARD /\ h_ea_cfg h = false) \/
  (h_fsm h = H_SET_CONFIGURATION /\ e_type prev <> TYPE_STANDARD /\ h_ea_addr h = false).

(* simulation relation; `prev` is the previous event (it holds the current contents of the decoder's registers) *)
Definition rel (prev : ev) (s : spec_state) (m : mstate) : Prop :=
  sp_addr s = m_addr m /\ sp_cfg s = m_cfg m /\
  match sp_pend s with
  | Some (true, v) => h_fsm (m_h m) = H_SET_ADDRESS /\ e_type prev = TYPE_STANDARD /\ e_value prev = v /\
                      h_ea_addr (m_h m) = sp_armed s /\ h_ea_cfg (m_h m) = false
  | Some (false, v) => h_fsm (m_h m) = H_SET_CONFIGURATION /\ e_type prev = TYPE_STANDARD /\ e_value prev = v /\
                       h_ea_cfg (m_h m) = sp_armed s /\ h_ea_addr (m_h m) = false
  | None => sp_armed s = false /\ frozen_or_idle prev (m_h m)
  end.

Lemma rel_init : rel ev0 sp_init m_init.
Proof. unfold rel, sp_init, m_init, h_init, frozen_or_idle; simpl. repeat split; auto. Qed.

Lemma rel_out : forall prev s m, rel prev s m -> sp_out s = m_out m.
Proof. intros prev s m (Ha & Hc & _). unfold sp_out, m_out. rewrite Ha, Hc. reflexivity. Qed.

Lemma same_fields_eq : forall a b, same_fields a b = true ->
  e_type a = e_type b /\ e_req a = e_req b /\ e_value a = e_value b.
Proof. intros a b H. unfold same_fields in H. apply andb_true_iff in H as [H H3]. apply andb_true_iff in H as [H1 H2].
       apply N.eqb_eq in H1, H2, H3. auto. Qed.

Ltac brk :=
  repeat match goal with
         | |- context [if ?b then _ else _] => let E := fresh "E" in destruct b eqn:E
         | H : context [if ?b then _ else _] |- _ => let E := fresh "E" in destruct b eqn:E
         end.

Ltac unfold_all :=
  unfold rel, sp_next, m_next, sp_commit, h_next, h_new_addr, h_new_cfg, h_addr_changed, h_cfg_changed, regwrite, ea_next,
         reg_next, classify, dispatch, frozen_or_idle, TYPE_STANDARD in *;
  cbn [e_recv e_type e_req e_value e_tok e_status e_ack e_reset sp_pend sp_armed sp_addr sp_cfg
       h_fsm h_ea_addr h_ea_cfg m_h m_addr m_cfg] in *.

Ltac fin := simpl; intuition (auto; congruence).

Lemma rel_next : forall prev s m e, rel prev s m -> (e_recv e || same_fields prev e) = true ->
  rel e (sp_next s e) (m_next m e).
Proof.
  intros prev [pend armed addr cfg] [[f ea ec] ma mc] [rc ty rq vl tk stt ak rs] (Ha & Hc & Hp) Henv.
  simpl in Ha, Hc. subst ma mc.
  destruct rc; simpl in Henv.
  - (* a new setup packet: both machines forget the old request and classify the new one *)
    clear Henv.
    assert (Hea : ea = false \/ f = H_SET_ADDRESS).
    { destruct pend as [[[|] v]|]; simpl in Hp; unfold frozen_or_idle in Hp; simpl in Hp; intuition auto. }
    assert (Hec : ec = false \/ f = H_SET_CONFIGURATION).
    { destruct pend as [[[|] v]|]; simpl in Hp; unfold frozen_or_idle in Hp; simpl in Hp; intuition auto. }
    destruct (N.eq_dec ty 0) as [->|Hty].
    + clear Hp. unfold_all. simpl (0 =? 0).
      destruct (rq =? REQ_SET_ADDRESS) eqn:E5; [|destruct (rq =? REQ_SET_CONFIGURATION) eqn:E9];
        destruct f, ea, ec; try (exfalso; destruct Hea; discriminate); try (exfalso; destruct Hec; discriminate);
        destruct armed, tk, stt, ak, rs; fin.
    + assert (Ety : (ty =? 0) = false) by (apply N.eqb_neq; exact Hty).
      unfold_all. rewrite Ety.
      destruct pend as [[[|] v]|]; destruct armed, ak, rs; fin.
  - (* no setup packet in this cycle: the decoder's registers hold their values *)
    apply same_fields_eq in Henv as (Hty & Hrq & Hvl). simpl in Hty, Hrq, Hvl.
    destruct pend as [[[|] v]|]; simpl in Hp.
    + destruct Hp as (Hf & Ht & Hv & Hea & Hec). destruct f; try discriminate. subst ea ec.
      unfold TYPE_STANDARD in Ht. rewrite Ht in Hty. subst ty. rewrite Hv in Hvl. subst vl.
      unfold_all. simpl (0 =? 0).
      destruct armed, tk, stt, ak, rs; fin.
    + destruct Hp as (Hf & Ht & Hv & Hec & Hea). destruct f; try discriminate. subst ea ec.
      unfold TYPE_STANDARD in Ht. rewrite Ht in Hty. subst ty. rewrite Hv in Hvl. subst vl.
      unfold_all. simpl (0 =? 0).
      destruct armed, tk, stt, ak, rs; fin.
    + destruct Hp as (Harm & Hfz). subst armed. unfold frozen_or_idle in Hfz. simpl in Hfz.
      destruct Hfz as [(Hf & Hea & Hec)|[(Hf & Ht & Hec)|(Hf & Ht & Hea)]].
      * subst f ea ec. unfold_all. destruct (ty =? 0); destruct tk, stt, ak, rs; fin.
      * subst f ec. unfold TYPE_STANDARD in Ht. rewrite Hty in Ht.
        assert (Ety : (ty =? 0) = false) by (apply N.eqb_neq; exact Ht).
        unfold_all. rewrite Ety. destruct ak, rs; fin.
      * subst f ea. unfold TYPE_STANDARD in Ht. rewrite Hty in Ht.
        assert (Ety : (ty =? 0) = false) by (apply N.eqb_neq; exact Ht).
        unfold_all. rewrite Ety. destruct ak, rs; fin.
Qed.

Theorem model_meets_spec_from : forall tr prev s m, rel prev s m -> setup_stable prev tr = true ->
  ev_run m_step m tr = ev_run sp_step s tr.
Proof.
  induction tr as [|e t IH]; intros prev s m HR Hst; simpl; [reflexivity|].
  simpl in Hst. apply andb_true_iff in Hst as [He Ht].
  rewrite (rel_out _ _ _ HR). f_equal. apply (IH e); [apply (rel_next prev); assumption | exact Ht].
Qed.

Theorem model_meets_spec : forall tr, setup_stable ev0 tr = true ->
  ev_run m_step m_init tr = ev_run sp_step sp_init tr.
Proof. intros tr H. apply (model_meets_spec_from tr ev0); [apply rel_init | exact H]. Qed.

(* ---------------------------------------------------------------------------------------------- *)
(* (2) consequences of the specification                                                           *)

Definition reg_of (k : bool) (s : spec_state) : N := if k then sp_addr s else sp_cfg s.
Definition val_of (k : bool) (v : N) : N := if k then v mod 128 else v mod 256.

Lemma sp_run_state_app : forall a b s, sp_run_state s (a ++ b) = sp_run_state (sp_run_state s a) b.
Proof. induction a as [|e t IH]; intros b s; simpl; [reflexivity | apply IH]. Qed.

(* a bus reset clears both registers *)
Lemma spec_bus_reset : forall s e, e_reset e = true -> sp_addr (sp_next s e) = 0 /\ sp_cfg (sp_next s e) = 0.
Proof. intros s e H. unfold sp_next. simpl. rewrite H. auto. Qed.

(* without a bus reset, a register changes only in a cycle in which the specification commits *)
Lemma spec_change_commit : forall k s e, e_reset e = false ->
  reg_of k (sp_next s e) <> reg_of k s ->
  exists v, sp_commit s e = Some (k, v) /\ reg_of k (sp_next s e) = val_of k v.
Proof.
  intros k s e Hr Hne. unfold sp_next, reg_of, val_of in *. simpl in *. rewrite Hr in *.
  destruct (sp_commit s e) as [[[|] v]|]; destruct k; try congruence; exists v; auto.
Qed.

Lemma spec_no_ack_no_change : forall s e, e_reset e = false -> e_ack e = false ->
  sp_addr (sp_next s e) = sp_addr s /\ sp_cfg (sp_next s e) = sp_cfg s.
Proof. intros s e Hr Ha. unfold sp_next, sp_commit. simpl. rewrite Hr, Ha. simpl. auto. Qed.

(* after a token whose transaction did not involve the status stage of the control endpoint
   (no status_requested since the token), an ACK changes nothing: handshakes of other endpoints' transactions *)
Lemma unarmed_stays : forall mid s, sp_armed s = false -> Forall (fun x => e_status x = false) mid ->
  sp_armed (sp_run_state s mid) = false.
Proof.
  induction mid as [|e t IH]; intros s Ha Hf; simpl; [exact Ha|].
  inversion Hf as [|? ? He Ht]; subst. apply IH; [|exact Ht].
  unfold sp_next, sp_commit. simpl. rewrite Ha, He, andb_false_r. simpl.
  destruct (e_recv e); [reflexivity|]. destruct (sp_pend s); [|reflexivity]. destruct (e_tok e); reflexivity.
Qed.

Lemma token_disarms : forall s e, e_tok e = true -> e_status e = false -> sp_armed (sp_next s e) = false.
Proof.
  intros s e Ht Hs. unfold sp_next. simpl. rewrite Ht, Hs.
  destruct (e_recv e); [reflexivity|]. destruct (sp_commit s e); [reflexivity|]. destruct (sp_pend s); reflexivity.
Qed.

Theorem spec_foreign_handshake : forall s etok mid e,
  e_tok etok = true -> Forall (fun x => e_status x = false) (etok :: mid) -> e_reset e = false ->
  let s' := sp_run_state s (etok :: mid) in
  sp_addr (sp_next s' e) = sp_addr s' /\ sp_cfg (sp_next s' e) = sp_cfg s'.
Proof.
  intros s etok mid e Ht Hf Hr s'. inversion Hf as [|? ? H1 H2]; subst.
  assert (Ha : sp_armed s' = false).
  { unfold s'. simpl. apply unarmed_stays; [apply token_disarms; assumption | exact H2]. }
  unfold sp_next, sp_commit. simpl. rewrite Hr, Ha, andb_false_r. simpl. auto.
Qed.

(* history invariants: what `pending` and `armed` say about the events so far *)
Definition norecv (x : ev) : Prop := e_recv x = false.
Definition notok (x : ev) : Prop := e_tok x = false.

Definition pend_hist (tr : list ev) (k : bool) (v : N) : Prop :=
  exists pre es mid, tr = pre ++ es :: mid /\ e_recv es = true /\ classify es = Some (k, v) /\ Forall norecv mid.

(* the history ends with: the setup packet of the request, no further setup packet; a cycle in which its status
   stage was answered; no token since *)
Definition armed_hist (tr : list ev) (k : bool) (v : N) : Prop :=
  exists pre es mid1 ez mid2, tr = pre ++ es :: mid1 ++ ez :: mid2 /\ e_recv es = true /\ classify es = Some (k, v) /\
    Forall norecv (mid1 ++ ez :: mid2) /\ e_status ez = true /\ Forall notok mid2.

Lemma hist_inv : forall tr s0, sp_pend s0 = None -> sp_armed s0 = false ->
  let s := sp_run_state s0 tr in
  (forall k v, sp_pend s = Some (k, v) -> pend_hist tr k v) /\
  (sp_armed s = true -> exists k v, sp_pend s = Some (k, v) /\ armed_hist tr k v).
Proof.
  intros tr s0 Hp0 Ha0. induction tr as [|e tr IH] using rev_ind.
  - simpl. split; [intros k v H; congruence | intro H; congruence].
  - rewrite sp_run_state_app. simpl. set (s := sp_run_state s0 tr) in *. destruct IH as [IHp IHa].
    assert (Pn : forall k v, sp_pend (sp_next s e) = Some (k, v) -> pend_hist (tr ++ [e]) k v).
    { intros k v H. unfold sp_next in H. simpl in H. destruct (e_recv e) eqn:Er.
      - exists tr, e, []. repeat split; auto.
      - destruct (sp_commit s e); [discriminate|].
        destruct (IHp k v H) as (pre & es & mid & -> & H1 & H2 & H3).
        exists pre, es, (mid ++ [e]). rewrite <- app_assoc. simpl. repeat split; auto.
        apply Forall_app. split; [exact H3 | constructor; [exact Er | constructor]]. }
    split; [exact Pn|].
    intro H. unfold sp_next in H. simpl in H.
    destruct (e_recv e) eqn:Er; [discriminate|].
    destruct (sp_commit s e) eqn:Ec; [discriminate|].
    destruct (sp_pend s) as [[k v]|] eqn:Ep; [|discriminate].
    exists k, v. split; [unfold sp_next; simpl; rewrite ?Er, ?Ec, ?Ep; reflexivity|].
    destruct (e_status e) eqn:Es.
    + destruct (IHp k v eq_refl) as (pre & es & mid & -> & H1 & H2 & H3).
      exists pre, es, mid, e, []. rewrite <- app_assoc. simpl. repeat split; auto.
      apply Forall_app. split; [exact H3 | constructor; [exact Er | constructor]].
    + destruct (e_tok e) eqn:Et; [discriminate|].
      destruct (IHa H) as (k' & v' & Hkv & pre & es & mid1 & ez & mid2 & -> & H1 & H2 & H3 & H4 & H5).
      inversion Hkv; subst k' v'.
      exists pre, es, mid1, ez, (mid2 ++ [e]).
      repeat split; auto.
      * rewrite <- !app_assoc. simpl. rewrite <- app_assoc. reflexivity.
      * replace (mid1 ++ ez :: mid2 ++ [e]) with ((mid1 ++ ez :: mid2) ++ [e]) by (rewrite <- app_assoc; reflexivity).
        apply Forall_app. split; [exact H3 | constructor; [exact Er | constructor]].
      * apply Forall_app. split; [exact H5 | constructor; [exact Et | constructor]].
Qed.

(* Only on completion: if the event e changes register k (and is not a bus reset), then e carries an ACK, and the
   history before it ends with a SET_ADDRESS / SET_CONFIGURATION setup packet carrying the value now adopted,
   the answer to its status stage, and no token and no other setup packet in between. *)
Theorem spec_change_only_on_completion : forall k tr e,
  let s := sp_run_state sp_init tr in
  e_reset e = false -> reg_of k (sp_next s e) <> reg_of k s ->
  e_ack e = true /\ e_recv e = false /\
  exists v, armed_hist tr k v /\ reg_of k (sp_next s e) = val_of k v.
Proof.
  intros k tr e s Hr Hne.
  destruct (spec_change_commit k s e Hr Hne) as (v & Hc & Hv).
  unfold sp_commit in Hc.
  destruct (e_ack e) eqn:Ea; [|discriminate]. destruct (sp_armed s) eqn:Earm; [|discriminate].
  destruct (e_recv e) eqn:Erc; [discriminate|]. simpl in Hc.
  split; [reflexivity|]. split; [reflexivity|]. exists v. split; [|exact Hv].
  destruct (hist_inv tr sp_init eq_refl eq_refl) as [_ Hh]. fold s in Hh.
  destruct (Hh Earm) as (k' & v' & Hkv & Hah). rewrite Hkv in Hc. inversion Hc; subst. exact Hah.
Qed.

(* Takes effect: setup packet of SET_x with value v; anything except another setup packet or a status-stage
   answer (in particular: tokens and ACKs of other endpoints' transactions, bus resets); the status stage is
   answered; no token, no ACK (a lost handshake would be followed by a token); then the ACK: register = v. *)
Lemma pending_unarmed_stays : forall mid s k v, sp_pend s = Some (k, v) -> sp_armed s = false ->
  Forall (fun x => e_recv x = false /\ e_status x = false) mid ->
  sp_pend (sp_run_state s mid) = Some (k, v) /\ sp_armed (sp_run_state s mid) = false.
Proof.
  induction mid as [|e t IH]; intros s k v Hp Ha Hf; simpl; [auto|].
  inversion Hf as [|? ? [Hr Hs] Ht]; subst. apply IH; [| |exact Ht].
  - unfold sp_next, sp_commit. simpl. rewrite Hr, Ha, andb_false_r. simpl. exact Hp.
  - unfold sp_next, sp_commit. simpl. rewrite Hr, Ha, Hs, Hp, andb_false_r. simpl. destruct (e_tok e); reflexivity.
Qed.

Lemma pending_armed_stays : forall mid s k v, sp_pend s = Some (k, v) -> sp_armed s = true ->
  Forall (fun x => e_recv x = false /\ e_tok x = false /\ e_ack x = false) mid ->
  sp_pend (sp_run_state s mid) = Some (k, v) /\ sp_armed (sp_run_state s mid) = true.
Proof.
  induction mid as [|e t IH]; intros s k v Hp Ha Hf; simpl; [auto|].
  inversion Hf as [|? ? (Hr & Ht & Hk) Hrest]; subst. apply IH; [| |exact Hrest].
  - unfold sp_next, sp_commit. simpl. rewrite Hr, Hk. simpl. exact Hp.
  - unfold sp_next, sp_commit. simpl. rewrite Hr, Hk, Ht, Hp, Ha. simpl. destruct (e_status e); reflexivity.
Qed.

Theorem spec_takes_effect : forall k v s es mid1 ez mid2 ea,
  e_recv es = true -> classify es = Some (k, v) ->
  Forall (fun x => e_recv x = false /\ e_status x = false) mid1 ->
  e_recv ez = false -> e_status ez = true ->
  Forall (fun x => e_recv x = false /\ e_tok x = false /\ e_ack x = false) mid2 ->
  e_ack ea = true -> e_recv ea = false -> e_reset ea = false ->
  let s' := sp_run_state s (es :: mid1 ++ ez :: mid2 ++ [ea]) in
  reg_of k s' = val_of k v /\ sp_pend s' = None.
Proof.
  intros k v s es mid1 ez mid2 ea H1 H2 H3 H4 H5 H6 H7 H8 H9 s'.
  unfold s'. simpl. rewrite sp_run_state_app. simpl. rewrite sp_run_state_app. simpl.
  set (s1 := sp_next s es).
  assert (P1 : sp_pend s1 = Some (k, v) /\ sp_armed s1 = false).
  { unfold s1, sp_next. simpl. rewrite H1. auto. }
  destruct (pending_unarmed_stays mid1 s1 k v (proj1 P1) (proj2 P1) H3) as [P2 A2].
  set (s2 := sp_run_state s1 mid1) in *.
  set (s3 := sp_next s2 ez).
  assert (P3 : sp_pend s3 = Some (k, v) /\ sp_armed s3 = true).
  { unfold s3, sp_next, sp_commit. simpl. rewrite H4, A2, H5, P2, andb_false_r. simpl. auto. }
  destruct (pending_armed_stays mid2 s3 k v (proj1 P3) (proj2 P3) H6) as [P4 A4].
  set (s4 := sp_run_state s3 mid2) in *.
  unfold sp_next, sp_commit, reg_of, val_of. simpl. rewrite H7, H8, H9, A4, P4. simpl.
  destruct k; auto.
Qed.

(* Exactly once: after the completing ACK nothing but a bus reset changes the registers until the next
   setup packet. *)
Lemma nopend_stays : forall mid s, sp_pend s = None -> sp_armed s = false -> Forall norecv mid ->
  sp_pend (sp_run_state s mid) = None /\ sp_armed (sp_run_state s mid) = false.
Proof.
  induction mid as [|e t IH]; intros s Hp Ha Hf; simpl; [auto|].
  inversion Hf as [|? ? Hr Ht]; subst. unfold norecv in Hr. apply IH; [| |exact Ht].
  - unfold sp_next, sp_commit. simpl. rewrite Hr, Ha, Hp, andb_false_r. reflexivity.
  - unfold sp_next, sp_commit. simpl. rewrite Hr, Ha, Hp, andb_false_r. reflexivity.
Qed.

Theorem spec_exactly_once : forall s e c mid e2, sp_commit s e = Some c -> Forall norecv mid ->
  e_recv e2 = false -> e_reset e2 = false ->
  let s' := sp_run_state (sp_next s e) mid in
  sp_addr (sp_next s' e2) = sp_addr s' /\ sp_cfg (sp_next s' e2) = sp_cfg s'.
Proof.
  intros s e c mid e2 Hc Hf Hr2 Hrs s'.
  assert (Hrc : e_recv e = false).
  { unfold sp_commit in Hc. destruct (e_recv e); [rewrite andb_false_r in Hc; discriminate | reflexivity]. }
  assert (P : sp_pend (sp_next s e) = None /\ sp_armed (sp_next s e) = false).
  { unfold sp_next. simpl. rewrite Hrc, Hc. auto. }
  destruct (nopend_stays mid _ (proj1 P) (proj2 P) Hf) as [P2 A2]. fold s' in P2, A2.
  unfold sp_next, sp_commit. simpl. rewrite Hrs, A2, andb_false_r. simpl. auto.
Qed.

(* ---------------------------------------------------------------------------------------------- *)
(* the same statements for the code-shaped model, through model_meets_spec                          *)
Lemma ev_run_nth_state : forall tr m s prev, rel prev s m -> setup_stable prev tr = true ->
  exists prev', rel prev' (sp_run_state s tr) (m_run_state m tr).
Proof.
  induction tr as [|e t IH]; intros m s prev HR Hst; simpl.
  - exists prev. exact HR.
  - simpl in Hst. apply andb_true_iff in Hst as [He Ht]. apply (IH _ _ e); [apply (rel_next prev); assumption | exact Ht].
Qed.

Theorem model_registers_are_spec_registers : forall tr, setup_stable ev0 tr = true ->
  m_addr (m_run_state m_init tr) = sp_addr (sp_run_state sp_init tr) /\
  m_cfg (m_run_state m_init tr) = sp_cfg (sp_run_state sp_init tr).
Proof.
  intros tr H. destruct (ev_run_nth_state tr m_init sp_init ev0 rel_init H) as (p & Ha & Hc & _). auto.
Qed.

(* ---------------------------------------------------------------------------------------------- *)
(* (3) packing lemmas                                                                              *)
Lemma h_dec_enc : forall h, h_dec (h_enc h) = h.
Proof. intros [[| |] [|] [|]]; reflexivity. Qed.

Lemma rg_dec_enc : forall r, rg_wf r -> rg_dec (rg_enc r) = r.
Proof. intros [a c] [Ha Hc]. unfold rg_dec, rg_enc, rg_wf in *. cbn [fst snd] in *. f_equal; lia. Qed.

Lemma bits_lt : forall x lo w, bits x lo w < 2 ^ w.
Proof. intros. unfold bits. rewrite N.land_ones. apply N.mod_lt. apply N.pow_nonzero. discriminate. Qed.

Lemma rg_wf_step : forall r i, rg_wf r -> rg_wf (fst (rg_step r i)).
Proof.
  intros [a c] i [Ha Hc]. unfold rg_wf, rg_step, reg_next in *. cbn [fst snd] in *.
  pose proof (bits_lt i 1 7). pose proof (bits_lt i 18 7). pose proof (bits_lt i 9 8). pose proof (bits_lt i 26 8).
  change (2 ^ 7) with 128 in *. change (2 ^ 8) with 256 in *.
  split; brk; lia.
Qed.

Lemma rg_wf_init : rg_wf (0, 0).
Proof. unfold rg_wf. cbn [fst snd]. lia. Qed.
