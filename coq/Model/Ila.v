(* C56 -- hand model of luna/gateware/debug/ila.py: IntegratedLogicAnalyzer, parametric in
     depth  sample_depth (number of samples per capture),
     pw     width of the write_position / captured_sample_number signals (Signal(range(depth))),
     pre    samples_pretrigger (0: inputs used directly, 1: one register, >= 2: FFSynchronizer stages);
   samples are arbitrary N (the sample width only enters through the packing at the end).

   Reading guide
     1. ispec / sp_next / sp_out     the SPECIFICATION machine: it remembers the whole probe history and
                                     stores, while capturing, "the probe value `pre` cycles ago";
                                     no pipeline registers, no write-enable register, no wrapping counter
     2. ila_state / ila_next         the code-shaped MODEL
     3. ila_mstep / ila_enc / ...    packed form for the lock-step tie
   The declarative capture theorems about the specification are in Ila_proofs.v / Properties/C56.v. *)
From Coq Require Import NArith List Bool Arith.
Import ListNotations.
From LunaLib Require Import Netlist Machine PackN ListMem.
Open Scope nat_scope.

Record ila_in := { ii_trigger : bool; ii_probe : N; ii_number : nat }.
Record ila_out := { io_sampling : bool; io_complete : bool; io_captured : N }.

(* ------------------------------------------------------------------------------------------ *)
(* 1. Specification                                                                            *)
Record ispec := {
  sp_past  : list N;       (* probe values of all earlier cycles, most recent first *)
  sp_phase : option nat;   (* None: idle;  Some k: capturing, k samples stored so far *)
  sp_buf   : list N;       (* sample buffer, sample n at index n *)
  sp_done  : bool;         (* `complete` *)
  sp_shown : N }.          (* `captured_sample` (synchronous read port) *)

Section Spec.
  Variables depth pre : nat.

  Definition sp_init : ispec :=
    {| sp_past := []; sp_phase := None; sp_buf := repeat 0%N depth; sp_done := false; sp_shown := 0%N |}.

  Definition sp_out (s : ispec) : ila_out :=
    {| io_sampling := match sp_phase s with Some _ => true | None => false end;
       io_complete := sp_done s; io_captured := sp_shown s |}.

  (* the probe value `pre` cycles before the current one (0 before the beginning of time) *)
  Definition sp_sample (s : ispec) (i : ila_in) : N := nth pre (ii_probe i :: sp_past s) 0%N.

  Definition sp_next (s : ispec) (i : ila_in) : ispec :=
    {| sp_past := ii_probe i :: sp_past s;
       sp_phase := match sp_phase s with
                   | None => if ii_trigger i then Some 0 else None
                   | Some k => if S k =? depth then None else Some (S k)    (* triggers are ignored *)
                   end;
       sp_buf := match sp_phase s with
                 | None => sp_buf s
                 | Some k => upd k (sp_sample s i) (sp_buf s)
                 end;
       sp_done := match sp_phase s with
                  | None => if ii_trigger i then false else sp_done s
                  | Some k => if S k =? depth then true else sp_done s
                  end;
       sp_shown := nth (ii_number i) (sp_buf s) 0%N |}.

  Fixpoint sp_run (s : ispec) (ins : list ila_in) : list ila_out :=
    match ins with
    | [] => []
    | i :: t => sp_out s :: sp_run (sp_next s i) t
    end.

  Fixpoint sp_run_state (s : ispec) (ins : list ila_in) : ispec :=
    match ins with
    | [] => s
    | i :: t => sp_run_state (sp_next s i) t
    end.
End Spec.

(* ------------------------------------------------------------------------------------------ *)
(* 2. Model                                                                                    *)
Record ila_state := {
  il_sampling : bool;     (* ila_state FSM: false = IDLE, true = SAMPLE *)
  il_pos : nat;           (* write_position *)
  il_en : bool;           (* write_port.en (a register: the write happens one cycle after the FSM decides) *)
  il_complete : bool;
  il_pipe : list N;       (* delayed_inputs pipeline, newest first, `pre` registers *)
  il_mem : list N;        (* ila_buffer *)
  il_rdata : N }.         (* read port data register *)

Section Model.
  Variables depth pw pre : nat.

  Definition ila_init : ila_state :=
    {| il_sampling := false; il_pos := 0; il_en := false; il_complete := false;
       il_pipe := repeat 0%N pre; il_mem := repeat 0%N depth; il_rdata := 0%N |}.

  Definition ila_out_of (st : ila_state) : ila_out :=
    {| io_sampling := il_sampling st; io_complete := il_complete st; io_captured := il_rdata st |}.

  Definition ila_delayed (st : ila_state) (i : ila_in) : N :=
    match pre with 0 => ii_probe i | S p => nth p (il_pipe st) 0%N end.

  Definition ila_next (st : ila_state) (i : ila_in) : ila_state :=
    let mem' := if il_en st then upd (il_pos st) (ila_delayed st i) (il_mem st) else il_mem st in
    let pipe' := firstn pre (ii_probe i :: il_pipe st) in
    let rdata' := nth (ii_number i) (il_mem st) 0%N in
    if il_sampling st then
      (* SAMPLE *)
      let last := S (il_pos st) =? depth in
      {| il_sampling := negb last; il_pos := S (il_pos st) mod 2 ^ pw; il_en := negb last;
         il_complete := if last then true else il_complete st;
         il_pipe := pipe'; il_mem := mem'; il_rdata := rdata' |}
    else if ii_trigger i then
      (* IDLE, trigger *)
      {| il_sampling := true; il_pos := 0; il_en := true; il_complete := false;
         il_pipe := pipe'; il_mem := mem'; il_rdata := rdata' |}
    else
      {| il_sampling := false; il_pos := il_pos st; il_en := false; il_complete := il_complete st;
         il_pipe := pipe'; il_mem := mem'; il_rdata := rdata' |}.

  Fixpoint ila_run (st : ila_state) (ins : list ila_in) : list ila_out :=
    match ins with
    | [] => []
    | i :: t => ila_out_of st :: ila_run (ila_next st i) t
    end.
End Model.

(* ------------------------------------------------------------------------------------------ *)
(* 3. Packed form.  Input word (LSB first): trigger, captured_sample_number[pw], probe[width].
      Output word: sampling, complete, captured_sample[width].                                  *)
Open Scope N_scope.

Definition ila_decode (pw : nat) (width : N) (i : N) : ila_in :=
  {| ii_trigger := N.testbit i 0; ii_number := N.to_nat (bits i 1 (N.of_nat pw));
     ii_probe := bits i (1 + N.of_nat pw) width |}.

Definition ila_pack_out (o : ila_out) : N :=
  b2n (io_sampling o) + 2 * b2n (io_complete o) + 4 * io_captured o.

Definition ila_mstep (depth pw pre : nat) (width : N) (st : ila_state) (i : N) : ila_state * N :=
  (ila_next depth pw pre st (ila_decode pw width i), ila_pack_out (ila_out_of st)).

Definition ila_enc (depth pw pre : nat) (width : N) (st : ila_state) : N :=
  let B := 2 ^ width in
  pk 2 (b2n (il_sampling st)) (pk 2 (b2n (il_en st)) (pk 2 (b2n (il_complete st))
    (pk (N.of_nat (2 ^ pw)) (N.of_nat (il_pos st)) (pk B (il_rdata st)
      (pk (B ^ N.of_nat pre) (pack B (il_pipe st)) (pack B (il_mem st))))))).

Definition ila_dec (depth pw pre : nat) (width : N) (x : N) : ila_state :=
  let B := 2 ^ width in let P := N.of_nat (2 ^ pw) in
  let x1 := x / 2 in let x2 := x1 / 2 in let x3 := x2 / 2 in let x4 := x3 / P in let x5 := x4 / B in
  {| il_sampling := x mod 2 =? 1; il_en := x1 mod 2 =? 1; il_complete := x2 mod 2 =? 1;
     il_pos := N.to_nat (x3 mod P); il_rdata := x4 mod B;
     il_pipe := unpack B pre (x5 mod B ^ N.of_nat pre);
     il_mem := unpack B depth (x5 / B ^ N.of_nat pre) |}.

Definition ila_wf (depth pw pre : nat) (width : N) (st : ila_state) : Prop :=
  (il_pos st < 2 ^ pw)%nat /\ il_rdata st < 2 ^ width /\
  length (il_pipe st) = pre /\ Forall (fun x => x < 2 ^ width) (il_pipe st) /\
  length (il_mem st) = depth /\ Forall (fun x => x < 2 ^ width) (il_mem st).
