(* C35 -- proofs about the link command generator / detector models: CRC-5 equations = bit-serial reference
   (all 2^11 inputs), wire format of a generated command under arbitrary ready stalls, the detector accepts
   exactly the well-formed words, round trip generator -> detector under arbitrary stalls; packing lemmas. *)
From Coq Require Import NArith ZArith List Bool Lia ZifyBool ZifyN.
Import ListNotations.
From LunaLib Require Import Netlist Machine SymWord.
From LunaModel Require Import LinkCommand.
Open Scope N_scope.
Ltac Zify.zify_post_hook ::= Z.div_mod_to_equations.

Lemma bits_eq : forall x lo w, bits x lo w = (x / 2 ^ lo) mod 2 ^ w.
Proof. intros. unfold bits. rewrite N.land_ones, N.shiftr_div_pow2. reflexivity. Qed.

Lemma bits_bound : forall x lo w, bits x lo w < 2 ^ w.
Proof. intros. rewrite bits_eq. apply N.mod_lt. apply N.pow_nonzero. discriminate. Qed.

(* ---------------------------------------------------------------------------------------- *)
(* CRC-5: the coded XOR equations equal the bit-serial reference on every 11-bit input       *)
Lemma crc5_sweep : forall_bits 11 (fun x => N.eqb (crc5_par x) (crc5_ser x)) = true.
Proof. vm_compute. reflexivity. Qed.

Theorem crc5_par_ser : forall x, x < 2048 -> crc5_par x = crc5_ser x.
Proof. intros x H. apply N.eqb_eq. apply (forall_bits_sound 11 _ crc5_sweep x). exact H. Qed.

Lemma b2n_le1 : forall b, b2n b <= 1.
Proof. destruct b; cbn; lia. Qed.

Lemma crc5_par_bound : forall x, crc5_par x < 32.
Proof.
  intros. unfold crc5_par.
  pose proof (b2n_le1 (xbits x [0; 1; 2; 5; 6; 8])). pose proof (b2n_le1 (negb (xbits x [0; 1; 2; 3; 6; 7; 9]))).
  pose proof (b2n_le1 (xbits x [0; 1; 2; 3; 4; 7; 8; 10])). pose proof (b2n_le1 (xbits x [0; 3; 4; 6; 9])).
  pose proof (b2n_le1 (xbits x [0; 1; 4; 5; 7; 10])). lia.
Qed.

(* ---------------------------------------------------------------------------------------- *)
(* wire format                                                                               *)
Lemma hdr_is_slc_slc_slc_epf : HDR_DATA = data_of HDR_SYMS /\ HDR_CTRL = ctrl_of HDR_SYMS.
Proof. split; reflexivity. Qed.

Lemma payload_bound : forall c s, c < 16 -> s < 16 -> lc_payload c s < 2048.
Proof. intros. unfold lc_payload. lia. Qed.

(* the generated command word carries the reference CRC-5 of its 11 payload bits *)
Theorem lc_word_has_valid_crc : forall c s, c < 16 -> s < 16 ->
  lc_word c s = lc_payload c s + 2048 * crc5_ser (lc_payload c s).
Proof. intros c s Hc Hs. unfold lc_word, lc_word_of. rewrite crc5_par_ser by (apply payload_bound; assumption). reflexivity. Qed.

Lemma lc_word_bound : forall p, p < 2048 -> lc_word_of crc5_par p < 65536.
Proof. intros p H. unfold lc_word_of. pose proof (crc5_par_bound p). lia. Qed.

Lemma two_copies : forall w, w < 65536 -> lc_lo (w + 65536 * w) = w /\ lc_hi (w + 65536 * w) = w.
Proof.
  intros w H. unfold lc_lo, lc_hi. rewrite !bits_eq. change (2 ^ 0) with 1. change (2 ^ 16) with 65536.
  rewrite N.div_1_r. split; lia.
Qed.

(* all (command, subtype) pairs: the generated word passes the detector's checks and decodes to the pair *)
Lemma lc_roundtrip_sweep :
  forall_bits 8 (fun x => let c := x mod 16 in let s := x / 16 in
     lc_accepts (lc_data c s) 0 && (bits (lc_data c s) 7 4 =? c) && (bits (lc_data c s) 0 4 =? s)) = true.
Proof. vm_compute. reflexivity. Qed.

Lemma lc_roundtrip : forall c s, c < 16 -> s < 16 ->
  lc_accepts (lc_data c s) 0 = true /\ bits (lc_data c s) 7 4 = c /\ bits (lc_data c s) 0 4 = s.
Proof.
  intros c s Hc Hs. pose proof (forall_bits_sound 8 _ lc_roundtrip_sweep (c + 16 * s)) as H.
  cbv beta zeta in H. replace ((c + 16 * s) mod 16) with c in H by lia.
  replace ((c + 16 * s) / 16) with s in H by lia.
  assert (Hb : c + 16 * s < 2 ^ N.of_nat 8) by (change (2 ^ N.of_nat 8) with 256; lia).
  specialize (H Hb). apply andb_true_iff in H as [H H3]. apply andb_true_iff in H as [H1 H2].
  apply N.eqb_eq in H2, H3. auto.
Qed.

(* The detector's acceptance test holds exactly for the well-formed words: no control flag, two identical
   16-bit copies, each = 11 payload bits followed by their CRC-5. *)
Theorem lc_accepts_iff_wellformed : forall data ctrl, data < 2 ^ 32 ->
  (lc_accepts data ctrl = true <->
   ctrl = 0 /\ exists p, p < 2048 /\ data = lc_word_of crc5_par p + 65536 * lc_word_of crc5_par p).
Proof.
  intros data ctrl Hd. unfold lc_accepts. split.
  - intros H. apply andb_true_iff in H as [H H3]. apply andb_true_iff in H as [H1 H2].
    apply N.eqb_eq in H1, H2, H3. split; [exact H1|].
    exists (bits (lc_lo data) 0 11). split; [apply (bits_bound _ 0 11)|].
    assert (Hw : lc_lo data = lc_word_of crc5_par (bits (lc_lo data) 0 11)).
    { unfold lc_word_of. rewrite <- H3. pose proof (bits_bound data 0 16) as Hb. fold (lc_lo data) in Hb.
      rewrite !bits_eq. change (2 ^ 0) with 1. change (2 ^ 11) with 2048. change (2 ^ 5) with 32.
      change (2 ^ 16) with 65536 in Hb. rewrite N.div_1_r. lia. }
    rewrite <- Hw. rewrite H2 at 2. unfold lc_lo, lc_hi. rewrite !bits_eq. change (2 ^ 0) with 1.
    change (2 ^ 16) with 65536. change (2 ^ 32) with 4294967296 in Hd. rewrite N.div_1_r. lia.
  - intros [Hc (p & Hp & He)]. subst ctrl data.
    destruct (two_copies _ (lc_word_bound p Hp)) as [E1 E2]. rewrite E1, E2.
    rewrite !N.eqb_refl. cbn [andb]. apply N.eqb_eq.
    unfold lc_word_of. pose proof (crc5_par_bound p). rewrite !bits_eq.
    change (2 ^ 0) with 1. change (2 ^ 11) with 2048. change (2 ^ 5) with 32. rewrite N.div_1_r.
    replace ((p + 2048 * crc5_par p) mod 2048) with p by lia.
    replace ((p + 2048 * crc5_par p) / 2048) with (crc5_par p) by lia. lia.
Qed.

(* ---------------------------------------------------------------------------------------- *)
(* detector: when it reports                                                                 *)
Theorem det_reports_iff : forall st i,
  dnew (fst (det_step st i)) = true <->
  dfsm st = D_PARSE /\ d_valid i = true /\ lc_accepts (d_data i) (d_ctrl i) = true.
Proof.
  intros st i. unfold det_step. destruct (dfsm st); cbn [fst dnew].
  - split; [discriminate | intros [H _]; discriminate].
  - destruct (d_valid i); [destruct (lc_accepts (d_data i) (d_ctrl i))|]; cbn [fst dnew];
      split; intro H; try discriminate; try tauto; destruct H as (_ & H1 & H2); discriminate.
Qed.

Theorem det_report_fields : forall st i, dnew (fst (det_step st i)) = true ->
  dcmd (fst (det_step st i)) = bits (d_data i) 7 4 /\ dsub (fst (det_step st i)) = bits (d_data i) 0 4.
Proof.
  intros st i H. pose proof H as H'. apply det_reports_iff in H' as (H1 & H2 & H3).
  unfold det_step. rewrite H1, H2, H3. split; reflexivity.
Qed.

Theorem det_silent_keeps : forall st i, dnew (fst (det_step st i)) = false ->
  dcmd (fst (det_step st i)) = dcmd st /\ dsub (fst (det_step st i)) = dsub st.
Proof.
  intros st i. unfold det_step. destruct (dfsm st); cbn [fst]; [split; reflexivity|].
  destruct (d_valid i); [destruct (lc_accepts (d_data i) (d_ctrl i))|]; cbn [fst dnew dcmd dsub];
    intro H; try discriminate; split; reflexivity.
Qed.

(* the outputs of a cycle are the registers *)
Lemma det_out_regs : forall st i, snd (det_step st i) = {| r_cmd := dcmd st; r_sub := dsub st; r_new := dnew st |}.
Proof. intros st i. unfold det_step. destruct (dfsm st); [reflexivity|]. destruct (d_valid i); [destruct (lc_accepts _ _)|]; reflexivity. Qed.

(* ---------------------------------------------------------------------------------------- *)
(* generator: one transaction under arbitrary stalls                                         *)
Definition stalled (i : gen_in) : Prop := g_ready i = false.

Lemma gen_idle : forall st i, gfsm st = G_IDLE -> g_generate i = false -> gen_step st i = (st, gen_quiet).
Proof. intros st i H1 H2. unfold gen_step. rewrite H1, H2. reflexivity. Qed.

Lemma gen_hdr_step : forall st i, gfsm st = G_HEADER -> stalled i -> gen_step st i = (st, gen_hdr).
Proof. intros st i H1 H2. unfold gen_step. rewrite H1, H2. reflexivity. Qed.

Lemma gen_cmd_step : forall st i, gfsm st = G_COMMAND -> stalled i ->
  gen_step st i = (st, gen_cmdw (lcmd st) (lsub st) false).
Proof. intros st i H1 H2. unfold gen_step. rewrite H1, H2. reflexivity. Qed.

Lemma gen_hdr_stall : forall pre st, gfsm st = G_HEADER -> Forall stalled pre ->
  trun gen_step st pre = repeat gen_hdr (length pre) /\ tstate gen_step st pre = st.
Proof.
  induction pre as [|i t IH]; intros st Hs Hp; [split; reflexivity|].
  inversion Hp as [|? ? Hi Ht]; subst. cbn [trun tstate length repeat]. rewrite (gen_hdr_step st i Hs Hi).
  cbn [fst]. destruct (IH st Hs Ht) as [E1 E2]. rewrite E1, E2. split; reflexivity.
Qed.

Lemma gen_cmd_stall : forall pre st, gfsm st = G_COMMAND -> Forall stalled pre ->
  trun gen_step st pre = repeat (gen_cmdw (lcmd st) (lsub st) false) (length pre) /\ tstate gen_step st pre = st.
Proof.
  induction pre as [|i t IH]; intros st Hs Hp; [split; reflexivity|].
  inversion Hp as [|? ? Hi Ht]; subst. cbn [trun tstate length repeat]. rewrite (gen_cmd_step st i Hs Hi).
  cbn [fst]. destruct (IH st Hs Ht) as [E1 E2]. rewrite E1, E2. split; reflexivity.
Qed.

(* A request accepted in IDLE, then any number of stalled cycles, a ready cycle, any number of stalled
   cycles, a ready cycle (command/subtype/generate inputs arbitrary meanwhile): nothing in the request cycle,
   the start word held until accepted, then the command word for the latched pair held until accepted, `done`
   exactly in that last cycle, and the generator is idle again. *)
Theorem gen_transaction : forall st i0 pre1 x1 pre2 x2,
  gfsm st = G_IDLE -> g_generate i0 = true ->
  Forall stalled pre1 -> g_ready x1 = true -> Forall stalled pre2 -> g_ready x2 = true ->
  trun gen_step st (i0 :: pre1 ++ x1 :: pre2 ++ [x2])
  = gen_quiet :: repeat gen_hdr (length pre1) ++ gen_hdr
    :: repeat (gen_cmdw (g_cmd i0) (g_sub i0) false) (length pre2) ++ [gen_cmdw (g_cmd i0) (g_sub i0) true]
  /\ gfsm (tstate gen_step st (i0 :: pre1 ++ x1 :: pre2 ++ [x2])) = G_IDLE.
Proof.
  intros st i0 pre1 x1 pre2 x2 Hs Hg H1 Hx1 H2 Hx2.
  set (s1 := {| gfsm := G_HEADER; lcmd := g_cmd i0; lsub := g_sub i0 |}).
  set (s2 := {| gfsm := G_COMMAND; lcmd := g_cmd i0; lsub := g_sub i0 |}).
  set (s3 := {| gfsm := G_IDLE; lcmd := g_cmd i0; lsub := g_sub i0 |}).
  assert (S0 : gen_step st i0 = (s1, gen_quiet)) by (unfold gen_step; rewrite Hs, Hg; reflexivity).
  assert (S1 : gen_step s1 x1 = (s2, gen_hdr)) by (unfold gen_step; cbn [gfsm s1]; rewrite Hx1; reflexivity).
  assert (S2 : gen_step s2 x2 = (s3, gen_cmdw (g_cmd i0) (g_sub i0) true))
    by (unfold gen_step; cbn [gfsm s2]; rewrite Hx2; reflexivity).
  destruct (gen_hdr_stall pre1 s1 eq_refl H1) as [E1 E2].
  destruct (gen_cmd_stall pre2 s2 eq_refl H2) as [E3 E4].
  cbn [trun tstate]. rewrite S0. cbn [fst]. rewrite trun_app, tstate_app, E1, E2.
  cbn [trun tstate]. rewrite S1. cbn [fst]. rewrite trun_app, tstate_app, E3, E4.
  cbn [trun tstate]. rewrite S2. cbn [fst]. split; reflexivity.
Qed.

(* ---------------------------------------------------------------------------------------- *)
(* round trip: generator -> link (word transferred when valid & ready) -> detector            *)
Definition det_regs (d : det_state) : det_out := {| r_cmd := dcmd d; r_sub := dsub d; r_new := dnew d |}.
Definition det_quiet (d : det_state) : det_out := {| r_cmd := dcmd d; r_sub := dsub d; r_new := false |}.
Definition det_hold (d : det_state) (f : det_fsm) : det_state :=
  {| dfsm := f; dcmd := dcmd d; dsub := dsub d; dnew := false |}.

Lemma rt_hdr_step : forall g d i, gfsm g = G_HEADER -> dfsm d = D_WAIT -> stalled i ->
  rt_step (g, d) i = ((g, det_hold d D_WAIT), (det_regs d, gen_hdr)).
Proof.
  intros g d i Hg Hd Hi. unfold rt_step. cbn [fst snd]. rewrite (gen_hdr_step g i Hg Hi).
  unfold det_step, link_word, is_header. rewrite Hd, Hi. cbn. reflexivity.
Qed.

Lemma rt_cmd_step : forall g d i, gfsm g = G_COMMAND -> dfsm d = D_PARSE -> stalled i ->
  rt_step (g, d) i = ((g, det_hold d D_PARSE), (det_regs d, gen_cmdw (lcmd g) (lsub g) false)).
Proof.
  intros g d i Hg Hd Hi. unfold rt_step. cbn [fst snd]. rewrite (gen_cmd_step g i Hg Hi).
  unfold det_step, link_word. rewrite Hd, Hi. cbn. reflexivity.
Qed.

Lemma det_hold_idem : forall d f, det_hold (det_hold d f) f = det_hold d f.
Proof. reflexivity. Qed.

Lemma rt_hdr_stall : forall pre g d, gfsm g = G_HEADER -> dfsm d = D_WAIT -> dnew d = false -> Forall stalled pre ->
  map fst (trun rt_step (g, d) pre) = repeat (det_quiet d) (length pre) /\
  tstate rt_step (g, d) pre = (g, det_hold d D_WAIT).
Proof.
  induction pre as [|i t IH]; intros g d Hg Hd Hn Hp.
  - split; [reflexivity|]. cbn [tstate]. destruct d as [f c s n]. cbn in *. subst. reflexivity.
  - inversion Hp as [|? ? Hi Ht]; subst. cbn [trun tstate length repeat map]. rewrite (rt_hdr_step g d i Hg Hd Hi).
    cbn [fst snd map]. destruct (IH g (det_hold d D_WAIT) Hg eq_refl eq_refl Ht) as [E1 E2]. rewrite E1, E2. split.
    + f_equal. unfold det_regs, det_quiet. rewrite Hn. reflexivity.
    + reflexivity.
Qed.

Lemma rt_cmd_stall : forall pre g d, gfsm g = G_COMMAND -> dfsm d = D_PARSE -> dnew d = false -> Forall stalled pre ->
  map fst (trun rt_step (g, d) pre) = repeat (det_quiet d) (length pre) /\
  tstate rt_step (g, d) pre = (g, det_hold d D_PARSE).
Proof.
  induction pre as [|i t IH]; intros g d Hg Hd Hn Hp.
  - split; [reflexivity|]. cbn [tstate]. destruct d as [f c s n]. cbn in *. subst. reflexivity.
  - inversion Hp as [|? ? Hi Ht]; subst. cbn [trun tstate length repeat map]. rewrite (rt_cmd_step g d i Hg Hd Hi).
    cbn [fst snd map]. destruct (IH g (det_hold d D_PARSE) Hg eq_refl eq_refl Ht) as [E1 E2]. rewrite E1, E2. split.
    + f_equal. unfold det_regs, det_quiet. rewrite Hn. reflexivity.
    + reflexivity.
Qed.

(* Round trip.  Generator idle, detector waiting (any previously reported command rc/rs in its registers).  A
   request for (c, s), c, s < 16; the link stalls for any number of cycles before taking the start word and again
   before taking the command word (all other inputs arbitrary); x3 is the cycle after.  The detector's outputs
   over these cycles: its old registers with new_command = 0 throughout, then, in the cycle after the command
   word was transferred, new_command = 1 with command = c and subtype = s -- exactly one report, of exactly the
   requested command. *)
Theorem roundtrip : forall g d i0 pre1 x1 pre2 x2 x3,
  gfsm g = G_IDLE -> dfsm d = D_WAIT -> g_generate i0 = true -> g_cmd i0 < 16 -> g_sub i0 < 16 ->
  Forall stalled pre1 -> g_ready x1 = true -> Forall stalled pre2 -> g_ready x2 = true ->
  map fst (trun rt_step (g, d) (i0 :: pre1 ++ x1 :: pre2 ++ [x2; x3]))
  = det_regs d :: repeat (det_quiet d) (length pre1) ++ det_quiet d
    :: repeat (det_quiet d) (length pre2) ++ [det_quiet d; {| r_cmd := g_cmd i0; r_sub := g_sub i0; r_new := true |}].
Proof.
  intros g d i0 pre1 x1 pre2 x2 x3 Hg Hd Hgen Hc Hs H1 Hx1 H2 Hx2.
  set (c := g_cmd i0) in *. set (s := g_sub i0) in *.
  set (g1 := {| gfsm := G_HEADER; lcmd := c; lsub := s |}).
  set (g2 := {| gfsm := G_COMMAND; lcmd := c; lsub := s |}).
  set (g3 := {| gfsm := G_IDLE; lcmd := c; lsub := s |}).
  set (d1 := det_hold d D_WAIT). set (d2 := det_hold d D_PARSE).
  set (d3 := {| dfsm := D_WAIT; dcmd := c; dsub := s; dnew := true |}).
  destruct (lc_roundtrip c s Hc Hs) as (A1 & A2 & A3).
  assert (S0 : rt_step (g, d) i0 = ((g1, d1), (det_regs d, gen_quiet))).
  { unfold rt_step. cbn [fst snd]. unfold gen_step. rewrite Hg, Hgen.
    unfold det_step, link_word, is_header. rewrite Hd. cbn. reflexivity. }
  assert (S1 : rt_step (g1, d1) x1 = ((g2, d2), (det_quiet d, gen_hdr))).
  { unfold rt_step. cbn [fst snd]. unfold gen_step. cbn [gfsm g1]. rewrite Hx1.
    unfold det_step, link_word, is_header. cbn. reflexivity. }
  assert (S2 : rt_step (g2, d2) x2 = ((g3, d3), (det_quiet d, gen_cmdw c s true))).
  { unfold rt_step. cbn [fst snd]. unfold gen_step. cbn [gfsm g2 lcmd lsub]. rewrite Hx2.
    unfold det_step, link_word. cbn [dfsm d2 det_hold gen_cmdw g_valid g_data g_ctrl d_valid d_data d_ctrl andb].
    rewrite A1, A2, A3. reflexivity. }
  assert (S3 : snd (rt_step (g3, d3) x3) = (det_regs d3, snd (gen_step g3 x3))).
  { unfold rt_step. cbn [fst snd]. destruct (gen_step g3 x3) as [g' go]. cbn [snd].
    destruct (det_step d3 (link_word go (g_ready x3))) as [d' dout] eqn:E. cbn [snd].
    f_equal. pose proof (det_out_regs d3 (link_word go (g_ready x3))) as Ho. rewrite E in Ho. exact Ho. }
  destruct (rt_hdr_stall pre1 g1 d1 eq_refl eq_refl eq_refl H1) as [E1 E2].
  destruct (rt_cmd_stall pre2 g2 d2 eq_refl eq_refl eq_refl H2) as [E3 E4].
  change (det_hold d1 D_WAIT) with d1 in E2. change (det_quiet d1) with (det_quiet d) in E1.
  change (det_hold d2 D_PARSE) with d2 in E4. change (det_quiet d2) with (det_quiet d) in E3.
  cbn [trun tstate map]. rewrite S0. cbn [fst snd map]. f_equal.
  rewrite trun_app, map_app, E1, E2. f_equal.
  cbn [trun map]. rewrite S1. cbn [fst snd map]. f_equal.
  rewrite trun_app, map_app, E3, E4. f_equal.
  cbn [trun map]. rewrite S2. cbn [fst snd map]. f_equal.
Qed.

(* ---------------------------------------------------------------------------------------- *)
(* packed machines and packing lemmas                                                        *)
Lemma gen_mrun : forall tr st, run gen_mstep st tr = map gen_eout (trun gen_step st (map gen_din tr)).
Proof. intros. unfold gen_mstep. apply (run_packed gen_step gen_din gen_eout). Qed.
Lemma det_mrun : forall tr st, run det_mstep st tr = map det_eout (trun det_step st (map det_din tr)).
Proof. intros. unfold det_mstep. apply (run_packed det_step det_din det_eout). Qed.
Lemma rt_mrun : forall tr st, run rt_mstep st tr = map rt_eout (trun rt_step st (map gen_din tr)).
Proof. intros. unfold rt_mstep. apply (run_packed rt_step gen_din rt_eout). Qed.

Definition gen_wf (st : gen_state) : Prop := lcmd st < 16 /\ lsub st < 16.
Definition det_wf (st : det_state) : Prop := dcmd st < 16 /\ dsub st < 16.
Definition rt_wf (st : gen_state * det_state) : Prop := gen_wf (fst st) /\ det_wf (snd st).

Lemma gen_dec_enc : forall st, gen_wf st -> gen_dec (gen_enc st) = st.
Proof.
  intros [f c s] [Hc Hs]. cbn [lcmd lsub] in *. unfold gen_dec, gen_enc. cbn [gfsm lcmd lsub].
  destruct f.
  - replace ((0 + 4 * c + 64 * s) mod 4) with 0 by lia. f_equal; lia.
  - replace ((1 + 4 * c + 64 * s) mod 4) with 1 by lia. f_equal; lia.
  - replace ((2 + 4 * c + 64 * s) mod 4) with 2 by lia. f_equal; lia.
Qed.

Lemma gen_wf_next : forall st i, gen_wf st -> g_cmd i < 16 -> g_sub i < 16 -> gen_wf (fst (gen_step st i)).
Proof.
  intros st i [Hc Hs] Hic His. unfold gen_step, gen_wf. destruct (gfsm st); cbn [fst].
  - destruct (g_generate i); cbn [lcmd lsub]; auto.
  - destruct (g_ready i); cbn [lcmd lsub]; auto.
  - destruct (g_ready i); cbn [lcmd lsub]; auto.
Qed.

Lemma gen_din_ok : forall i, g_cmd (gen_din i) < 16 /\ g_sub (gen_din i) < 16.
Proof. intros. unfold gen_din. cbn [g_cmd g_sub]. split; apply (bits_bound _ _ 4). Qed.

Lemma gen_wf_step : forall st i, gen_wf st -> gen_wf (fst (gen_mstep st i)).
Proof.
  intros st i H. unfold gen_mstep. destruct (gen_din_ok i) as [H1 H2].
  pose proof (gen_wf_next st (gen_din i) H H1 H2) as Hn. destruct (gen_step st (gen_din i)). exact Hn.
Qed.

Lemma gen_wf_init : gen_wf gen_init. Proof. split; reflexivity. Qed.

Lemma det_dec_enc : forall st, det_wf st -> det_dec (det_enc st) = st.
Proof.
  intros [f c s n] [Hc Hs]. cbn [dcmd dsub] in *. unfold det_dec, det_enc. cbn [dfsm dcmd dsub dnew].
  destruct f, n; cbn [b2n].
  - replace ((0 + 2 * 1 + 4 * c + 64 * s) mod 2) with 0 by lia.
    replace (((0 + 2 * 1 + 4 * c + 64 * s) / 2) mod 2) with 1 by lia. f_equal; lia.
  - replace ((0 + 2 * 0 + 4 * c + 64 * s) mod 2) with 0 by lia.
    replace (((0 + 2 * 0 + 4 * c + 64 * s) / 2) mod 2) with 0 by lia. f_equal; lia.
  - replace ((1 + 2 * 1 + 4 * c + 64 * s) mod 2) with 1 by lia.
    replace (((1 + 2 * 1 + 4 * c + 64 * s) / 2) mod 2) with 1 by lia. f_equal; lia.
  - replace ((1 + 2 * 0 + 4 * c + 64 * s) mod 2) with 1 by lia.
    replace (((1 + 2 * 0 + 4 * c + 64 * s) / 2) mod 2) with 0 by lia. f_equal; lia.
Qed.

Lemma det_wf_next : forall st i, det_wf st -> det_wf (fst (det_step st i)).
Proof.
  intros st i [Hc Hs]. unfold det_step, det_wf. destruct (dfsm st); cbn [fst dcmd dsub]; [auto|].
  destruct (d_valid i); [destruct (lc_accepts _ _)|]; cbn [fst dcmd dsub]; auto.
  split; apply (bits_bound _ _ 4).
Qed.

Lemma det_wf_step : forall st i, det_wf st -> det_wf (fst (det_mstep st i)).
Proof.
  intros st i H. unfold det_mstep. pose proof (det_wf_next st (det_din i) H) as Hn.
  destruct (det_step st (det_din i)). exact Hn.
Qed.

Lemma det_wf_init : det_wf det_init. Proof. split; reflexivity. Qed.

Lemma gen_enc_bound : forall st, gen_wf st -> gen_enc st < 1024.
Proof. intros [f c s] [Hc Hs]. cbn [lcmd lsub] in *. unfold gen_enc. cbn [gfsm lcmd lsub]. destruct f; lia. Qed.

Lemma rt_dec_enc : forall st, rt_wf st -> rt_dec (rt_enc st) = st.
Proof.
  intros [g d] [Hg Hd]. cbn [fst snd] in *. unfold rt_dec, rt_enc. cbn [fst snd].
  pose proof (gen_enc_bound g Hg) as Hb.
  replace ((gen_enc g + 1024 * det_enc d) mod 1024) with (gen_enc g) by lia.
  replace ((gen_enc g + 1024 * det_enc d) / 1024) with (det_enc d) by lia.
  rewrite gen_dec_enc, det_dec_enc by assumption. reflexivity.
Qed.

Lemma rt_wf_step : forall st i, rt_wf st -> rt_wf (fst (rt_mstep st i)).
Proof.
  intros [g d] i [Hg Hd]. cbn [fst snd] in *. unfold rt_mstep, rt_step. cbn [fst snd].
  destruct (gen_din_ok i) as [H1 H2]. pose proof (gen_wf_next g (gen_din i) Hg H1 H2) as Hn.
  destruct (gen_step g (gen_din i)) as [g' go]. cbn [fst] in Hn.
  pose proof (det_wf_next d (link_word go (g_ready (gen_din i))) Hd) as Hm.
  destruct (det_step d (link_word go (g_ready (gen_din i)))) as [d' dout]. cbn [fst] in *. split; assumption.
Qed.

Lemma rt_wf_init : rt_wf (gen_init, det_init). Proof. split; [apply gen_wf_init | apply det_wf_init]. Qed.
