(* C51 -- hand model of luna/gateware/interface/spi.py: SPIRegisterInterface (which contains
   SPICommandInterface), parametric in address_size, register_size, the register map and default_read_value.

   Shift registers are lists of booleans, MOST significant bit first (head = bit [-1] of the Amaranth signal):
   `Cat(sdi, reg[:-1])` is then `tl reg ++ [sdi]` and `reg[-1]` is `hd reg`.

   Packed ports (first = least significant):
     in : sck(1) sdi(1) cs(1)
     out: sdo(1) idle(1) stalled(1) value of each memory register (register_size bits each, declaration order)
          write strobe of each memory register (1 bit each, same order)                                     *)
From Coq Require Import NArith List Bool.
Import ListNotations.
From LunaLib Require Import Netlist Bits Machine.
Open Scope N_scope.

Record r_cfg := {
  asz : nat;                (* address_size  (command = write flag + address, asz+1 bits) *)
  rsz : nat;                (* register_size *)
  rw : list N;              (* addresses of the memory-backed registers (add_register), declaration order *)
  ro : list (N * N);        (* read-only registers: (address, constant read value) *)
  dflt : N                  (* default_read_value *)
}.

(* value <-> MSB-first bit list *)
Definition to_msb (w : nat) (v : N) : list bool := rev (N2bits w v).
Definition of_msb (l : list bool) : N := bits2N (rev l).

Definition i_sck (i : N) : bool := N.testbit i 0.
Definition i_sdi (i : N) : bool := N.testbit i 1.
Definition i_cs (i : N) : bool := N.testbit i 2.

Inductive c_fsm := STALL | IDLE | RECV_CMD | PROCESSING | LATCH_OUTPUT | SHIFT_DATA.

Record r_state := {
  fsm : c_fsm; past_sck : bool; cnt : N;
  ccmd : list bool;          (* current_command *)
  cword : list bool;         (* current_word *)
  wcomplete : bool;          (* word_complete *)
  command : list bool;       (* command (write flag first) *)
  wrecv : list bool;         (* word_received *)
  sdo : bool;
  regs : list N              (* values of the memory registers, in the order of `rw` *)
}.

Section SpiReg.
  Variable c : r_cfg.

  Definition csz : nat := S (asz c).                                  (* command_size *)
  Definition cnt_w : N := N.size (N.of_nat (Nat.max (rsz c) csz)).    (* Signal(range(0, max+1)) *)

  Definition r_init : r_state :=
    {| fsm := STALL; past_sck := false; cnt := 0; ccmd := repeat false csz; cword := repeat false (rsz c);
       wcomplete := false; command := repeat false csz; wrecv := repeat false (rsz c); sdo := false;
       regs := repeat 0 (length (rw c)) |}.

  Definition is_write (st : r_state) : bool := hd false (command st).
  Definition address (st : r_state) : N := of_msb (tl (command st)).

  Fixpoint lookup {A} (a : N) (keys : list N) (vals : list A) : option A :=
    match keys, vals with
    | k :: ks, v :: vs => if a =? k then Some v else lookup a ks vs
    | _, _ => None
    end.

  (* the value the addressed register reads as (truncated to register_size) *)
  Definition read_value (a : N) (rs : list N) : N :=
    match lookup a (map fst (ro c)) (map snd (ro c)) with
    | Some v => v
    | None => match lookup a (rw c) rs with Some v => v | None => dflt c end
    end.
  Definition word_to_send (st : r_state) : list bool := to_msb (rsz c) (read_value (address st) (regs st)).

  (* write strobe of the register at address a *)
  Definition strobe (st : r_state) (a : N) : bool := is_write st && wcomplete st && (address st =? a).

  Definition regs_next (st : r_state) : list N :=
    map (fun av => if strobe st (fst av) then of_msb (wrecv st) else snd av) (combine (rw c) (regs st)).

  Definition r_next (st : r_state) (i : N) : r_state :=
    let sck := i_sck i in let sdi := i_sdi i in let cs := i_cs i in
    let edge := past_sck st && negb sck in
    let cnt1 := (cnt st + 1) mod 2 ^ cnt_w in
    match fsm st with
    | STALL => {| fsm := if cs then STALL else IDLE; past_sck := sck; cnt := cnt st; ccmd := ccmd st;
                  cword := cword st; wcomplete := false; command := command st; wrecv := wrecv st;
                  sdo := sdo st; regs := regs_next st |}
    | IDLE => {| fsm := if cs then RECV_CMD else IDLE; past_sck := sck; cnt := 0; ccmd := ccmd st;
                 cword := cword st; wcomplete := false; command := command st; wrecv := wrecv st;
                 sdo := sdo st; regs := regs_next st |}
    | RECV_CMD =>
        if cnt st <? N.of_nat csz then
          {| fsm := if cs then RECV_CMD else IDLE; past_sck := sck;
             cnt := if edge then cnt1 else cnt st;
             ccmd := if edge then tl (ccmd st) ++ [sdi] else ccmd st;
             cword := cword st; wcomplete := false; command := command st; wrecv := wrecv st;
             sdo := sdo st; regs := regs_next st |}
        else
          {| fsm := PROCESSING; past_sck := sck; cnt := 0; ccmd := ccmd st; cword := cword st;
             wcomplete := false; command := ccmd st; wrecv := wrecv st; sdo := sdo st; regs := regs_next st |}
    | PROCESSING => {| fsm := LATCH_OUTPUT; past_sck := sck; cnt := cnt st; ccmd := ccmd st; cword := cword st;
                       wcomplete := false; command := command st; wrecv := wrecv st; sdo := sdo st;
                       regs := regs_next st |}
    | LATCH_OUTPUT => {| fsm := SHIFT_DATA; past_sck := sck; cnt := cnt st; ccmd := ccmd st;
                         cword := word_to_send st; wcomplete := false; command := command st;
                         wrecv := wrecv st; sdo := sdo st; regs := regs_next st |}
    | SHIFT_DATA =>
        if cnt st <? N.of_nat (rsz c) then
          {| fsm := if cs then SHIFT_DATA else IDLE; past_sck := sck;
             cnt := if edge then cnt1 else cnt st; ccmd := ccmd st;
             cword := if edge then tl (cword st) ++ [sdi] else cword st;
             wcomplete := false; command := command st; wrecv := wrecv st;
             sdo := hd false (cword st); regs := regs_next st |}
        else
          {| fsm := STALL; past_sck := sck; cnt := 0; ccmd := ccmd st; cword := cword st;
             wcomplete := true; command := command st; wrecv := cword st;
             sdo := hd false (cword st); regs := regs_next st |}
    end.

  (* output packing *)
  Fixpoint pack_fields (fs : list (N * N)) : N :=      (* (width, value), first field least significant *)
    match fs with
    | [] => 0
    | (w, v) :: t => v + 2 ^ w * pack_fields t
    end.

  Definition r_out (st : r_state) : N :=
    pack_fields ([(1, b2n (sdo st));
                  (1, b2n (match fsm st with IDLE => true | _ => false end));
                  (1, b2n (match fsm st with STALL => true | _ => false end))]
                 ++ map (fun v => (N.of_nat (rsz c), v)) (regs st)
                 ++ map (fun a => (1, b2n (strobe st a))) (rw c)).

  Definition r_step (st : r_state) (i : N) : r_state * N := (r_next st i, r_out st).
End SpiReg.

(* ------------------------------------------------------------------------------------------ *)
(* packing of the model state for lock-step obligations                                        *)
(* ------------------------------------------------------------------------------------------ *)
Fixpoint unpack_fields (ws : list N) (m : N) : list N :=
  match ws with
  | [] => []
  | w :: t => m mod 2 ^ w :: unpack_fields t (m / 2 ^ w)
  end.

Definition fsm_code (f : c_fsm) : N :=
  match f with STALL => 0 | IDLE => 1 | RECV_CMD => 2 | PROCESSING => 3 | LATCH_OUTPUT => 4 | SHIFT_DATA => 5 end.
Definition fsm_of (n : N) : c_fsm :=
  match n with 0 => STALL | 1 => IDLE | 2 => RECV_CMD | 3 => PROCESSING | 4 => LATCH_OUTPUT | _ => SHIFT_DATA end.

Definition r_fields (c : r_cfg) (st : r_state) : list (N * N) :=
  [(3, fsm_code (fsm st)); (1, b2n (past_sck st)); (1, b2n (wcomplete st)); (1, b2n (sdo st));
   (cnt_w c, cnt st);
   (N.of_nat (csz c), bits2N (ccmd st)); (N.of_nat (rsz c), bits2N (cword st));
   (N.of_nat (csz c), bits2N (command st)); (N.of_nat (rsz c), bits2N (wrecv st))]
  ++ map (fun v => (N.of_nat (rsz c), v)) (regs st).
Definition r_widths (c : r_cfg) : list N :=
  [3; 1; 1; 1; cnt_w c; N.of_nat (csz c); N.of_nat (rsz c); N.of_nat (csz c); N.of_nat (rsz c)]
  ++ repeat (N.of_nat (rsz c)) (length (rw c)).
Definition r_enc (c : r_cfg) (st : r_state) : N := pack_fields (r_fields c st).
Definition r_dec (c : r_cfg) (m : N) : r_state :=
  let vs := unpack_fields (r_widths c) m in
  {| fsm := fsm_of (nth 0 vs 0); past_sck := nth 1 vs 0 =? 1; wcomplete := nth 2 vs 0 =? 1; sdo := nth 3 vs 0 =? 1;
     cnt := nth 4 vs 0;
     ccmd := N2bits (csz c) (nth 5 vs 0); cword := N2bits (rsz c) (nth 6 vs 0);
     command := N2bits (csz c) (nth 7 vs 0); wrecv := N2bits (rsz c) (nth 8 vs 0);
     regs := skipn 9 vs |}.
Definition r_wf (c : r_cfg) (st : r_state) : Prop :=
  cnt st < 2 ^ cnt_w c /\
  length (ccmd st) = csz c /\ length (cword st) = rsz c /\ length (command st) = csz c /\ length (wrecv st) = rsz c /\
  length (regs st) = length (rw c) /\ Forall (fun v => v < 2 ^ N.of_nat (rsz c)) (regs st).
