(* C45 -- hand model of luna/gateware/usb/usb3/protocol/transaction.py: TransactionPacketGenerator,
   and its specification.  One list element = one "ss" clock cycle.

   Input word (25 bits):  [0..6] interface.endpoint_number  [7] retry_required  [8..12] next_sequence
                          [13] send_ack [14] send_stall [15] send_nrdy [16] send_erdy
                          [17..23] address   [24] header_source.ready
   Output word (131 bits): [0] interface.ready [1] interface.done [2] header_source.valid
                          [3..34] header.dw0 [35..66] header.dw1 [67..98] header.dw2
                          [99..130] the link-layer word of the header (crc16, sequence number, ...). *)
From Coq Require Import NArith List Bool.
Import ListNotations.
From LunaLib Require Import Netlist Machine.
Open Scope N_scope.

(* ---- input fields ---- *)
Definition i_ep (i : N) : N := bits i 0 7.
Definition i_retry (i : N) : bool := N.testbit i 7.
Definition i_seq (i : N) : N := bits i 8 5.
Definition i_ack (i : N) : bool := N.testbit i 13.
Definition i_stall (i : N) : bool := N.testbit i 14.
Definition i_nrdy (i : N) : bool := N.testbit i 15.
Definition i_erdy (i : N) : bool := N.testbit i 16.
Definition i_addr (i : N) : N := bits i 17 7.
Definition i_hsready (i : N) : bool := N.testbit i 24.

(* ---- transaction packets (USB 3.2 section 8.5) ---- *)
Inductive tp_kind := ACK | STALL | NRDY | ERDY.
Definition subtype_code (k : tp_kind) : N :=
  match k with ACK => 1 | NRDY => 2 | ERDY => 3 | STALL => 5 end.       (* TransactionPacketSubtype *)
Definition TP_TYPE : N := 4.                                            (* HeaderPacketType.TRANSACTION *)

(* what an endpoint asks for *)
Record request := { q_kind : tp_kind; q_addr : N; q_ep : N; q_retry : bool; q_seq : N }.

(* The 128-bit header for a request.  Field positions are those of ACKHeaderPacket /
   NRDYHeaderPacket / ERDYHeaderPacket: DW0 = type[0..4] route_string[5..24] device_address[25..31];
   DW1 = subtype[0..3] retry[6] direction[7] endpoint_number[8..11] number_of_packets[16..20]
   data_sequence[21..25].  Only the low four bits of the 7-bit interface endpoint number fit the
   packet.  retry and data_sequence exist only in ACK packets.  (As in the code, STALL is sent
   through the ACK layout with number_of_packets = 1.) *)
Definition enc_dw0 (r : request) : N := TP_TYPE + N.shiftl (q_addr r) 25.
Definition enc_dw1 (r : request) : N :=
  subtype_code (q_kind r) + N.shiftl (bits (q_ep r) 0 4) 8 +
  match q_kind r with
  | ACK => N.shiftl (b2n (q_retry r)) 6 + N.shiftl 1 16 + N.shiftl (q_seq r) 21
  | STALL => N.shiftl 1 16
  | NRDY => N.shiftl 1 7
  | ERDY => N.shiftl 1 7 + N.shiftl 1 16
  end.
Definition encode (r : request) : N := enc_dw0 r + N.shiftl (enc_dw1 r) 32.

(* reading a header back (the receiver's view) *)
Definition h_type (h : N) : N := bits h 0 5.
Definition h_route (h : N) : N := bits h 5 20.
Definition h_addr (h : N) : N := bits h 25 7.
Definition h_subtype (h : N) : N := bits h 32 4.
Definition h_retry (h : N) : bool := N.testbit h 38.
Definition h_direction (h : N) : bool := N.testbit h 39.
Definition h_ep (h : N) : N := bits h 40 4.
Definition h_nump (h : N) : N := bits h 48 5.
Definition h_seq (h : N) : N := bits h 53 5.

(* ---- output word ---- *)
Definition pack_out (ready done valid : bool) (hdr : N) : N :=
  b2n ready + 2 * b2n done + 4 * b2n valid + 8 * hdr.
Definition o_ready (o : N) : bool := N.testbit o 0.
Definition o_done (o : N) : bool := N.testbit o 1.
Definition o_valid (o : N) : bool := N.testbit o 2.
Definition o_header (o : N) : N := N.shiftr o 3.

(* Which packet a cycle's strobes ask for.  With exactly one strobe it is that strobe's packet
   (lemma strobe_kind_single); simultaneous strobes are resolved as the code's If-chain does
   (the later `If` wins): ERDY over NRDY over STALL over ACK. *)
Definition strobe_kind (i : N) : option tp_kind :=
  if i_erdy i then Some ERDY else if i_nrdy i then Some NRDY
  else if i_stall i then Some STALL else if i_ack i then Some ACK else None.
Definition req_of (k : tp_kind) (i : N) : request :=
  {| q_kind := k; q_addr := i_addr i; q_ep := i_ep i; q_retry := i_retry i; q_seq := i_seq i |}.

(* ---- the code-shaped machine: FSM + four registers that are re-latched in every cycle of
   DISPATCH_REQUESTS ---- *)
Inductive tp_fsm := DISPATCH | SEND (k : tp_kind).
Record tp_state := { fsm : tp_fsm; l_ep : N; l_retry : bool; l_seq : N; l_addr : N }.
Definition tp_init : tp_state := {| fsm := DISPATCH; l_ep := 0; l_retry := false; l_seq := 0; l_addr := 0 |}.

Definition latched (k : tp_kind) (st : tp_state) : request :=
  {| q_kind := k; q_addr := l_addr st; q_ep := l_ep st; q_retry := l_retry st; q_seq := l_seq st |}.

Definition tp_next (st : tp_state) (i : N) : tp_state :=
  match fsm st with
  | DISPATCH =>
      {| fsm := match strobe_kind i with Some k => SEND k | None => DISPATCH end;
         l_ep := i_ep i; l_retry := i_retry i; l_seq := i_seq i; l_addr := i_addr i |}
  | SEND k =>
      {| fsm := if i_hsready i then DISPATCH else SEND k;
         l_ep := l_ep st; l_retry := l_retry st; l_seq := l_seq st; l_addr := l_addr st |}
  end.

Definition tp_out (st : tp_state) (i : N) : N :=
  match fsm st with
  | DISPATCH => pack_out true false false 0
  | SEND k => pack_out false (i_hsready i) true (encode (latched k st))
  end.

Definition tp_step (st : tp_state) (i : N) : tp_state * N := (tp_next st i, tp_out st i).

(* ---- specification machine: nothing but "the request being served, if any" ---- *)
Definition sp_next (p : option request) (i : N) : option request :=
  match p with
  | None => match strobe_kind i with Some k => Some (req_of k i) | None => None end
  | Some r => if i_hsready i then None else Some r
  end.
Definition sp_out (p : option request) (i : N) : N :=
  match p with
  | None => pack_out true false false 0                       (* ready; nothing offered *)
  | Some r => pack_out false (i_hsready i) true (encode r)    (* offering r until the queue takes it *)
  end.
Definition sp_step (p : option request) (i : N) : option request * N := (sp_next p i, sp_out p i).

(* ---- the property on observed traces (input word, output word per cycle):
   requests_of = the requests made while the generator says ready;
   packets_of  = the headers the header queue actually took (valid and ready in the same cycle). *)
Fixpoint requests_of (ios : list (N * N)) : list request :=
  match ios with
  | [] => []
  | (i, o) :: t =>
      match (if o_ready o then strobe_kind i else None) with
      | Some k => req_of k i :: requests_of t
      | None => requests_of t
      end
  end.
Fixpoint packets_of (ios : list (N * N)) : list N :=
  match ios with
  | [] => []
  | (i, o) :: t => if o_valid o && i_hsready i then o_header o :: packets_of t else packets_of t
  end.

(* ---- packing of the model state for the certified-reachability tie ---- *)
Definition fsm_code (f : tp_fsm) : N :=
  match f with DISPATCH => 0 | SEND ACK => 1 | SEND STALL => 2 | SEND NRDY => 3 | SEND ERDY => 4 end.
Definition fsm_of (c : N) : tp_fsm :=
  match c with 0 => DISPATCH | 1 => SEND ACK | 2 => SEND STALL | 3 => SEND NRDY | _ => SEND ERDY end.
Definition tp_enc (st : tp_state) : N :=
  fsm_code (fsm st) + 8 * (l_ep st + 128 * (b2n (l_retry st) + 2 * (l_seq st + 32 * l_addr st))).
Definition tp_dec (m : N) : tp_state :=
  {| fsm := fsm_of (m mod 8); l_ep := (m / 8) mod 128; l_retry := N.odd (m / 1024);
     l_seq := (m / 2048) mod 32; l_addr := m / 65536 |}.
Definition tp_wf (st : tp_state) : Prop := l_ep st < 128 /\ l_seq st < 32.

(* ---- representative input words for the tie: every combination of the four strobes and of
   header_source.ready, with (endpoint, retry, sequence, address) drawn from: all-zero, all-one,
   two alternating patterns, and a walking one through all 20 field bits. *)
Definition mk_in (ep : N) (retry : bool) (seq : N) (strobes : N) (addr : N) (hsready : bool) : N :=
  ep + N.shiftl (b2n retry) 7 + N.shiftl seq 8 + N.shiftl strobes 13 + N.shiftl addr 17 + N.shiftl (b2n hsready) 24.
(* a 20-bit pattern p = ep[0..6] retry[7] seq[8..12] addr[13..19] *)
Definition of_pattern (p strobes : N) (hsready : bool) : N :=
  mk_in (bits p 0 7) (N.testbit p 7) (bits p 8 5) strobes (bits p 13 7) hsready.
Definition tp_patterns : list N :=
  [0; 1048575; 699050; 349525] ++ map (fun k => N.shiftl 1 (N.of_nat k)) (seq 0 20).
Definition tp_alpha : list N :=
  flat_map (fun p => flat_map (fun s => [of_pattern p s false; of_pattern p s true])
                              (map N.of_nat (seq 0 16))) tp_patterns.
