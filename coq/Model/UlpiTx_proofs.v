(* C23 -- proofs about the ULPITransmitTranslator model (Model/UlpiTx.v):
     tx_model_accepts   the model satisfies the cycle-level contract on every input trace
     tx_packets         the cycle-level contract implies the packet-level reading
                        (PHY packets = translation of the UTMI transmissions)
     tx_model_packets   both together, for the model
     + packing lemmas for the lock-step obligation.                                               *)
From Coq Require Import NArith ZArith List Bool Lia ZifyBool ZifyN.
Import ListNotations.
From LunaLib Require Import Netlist Machine.
From LunaModel Require Import UlpiTx.
Open Scope N_scope.
Ltac Zify.zify_post_hook ::= Z.div_mod_to_equations.

(* ------------------------------ bit-field bookkeeping ------------------------------------------ *)
Lemma odd_mod2 : forall x, N.odd x = (x mod 2 =? 1).
Proof.
  intro x. rewrite (N.div_mod' x 2) at 1. rewrite N.add_comm, N.odd_add_mul_2.
  assert (x mod 2 < 2) by (apply N.mod_lt; discriminate).
  assert (x mod 2 = 0 \/ x mod 2 = 1) as [E|E] by lia; rewrite E; reflexivity.
Qed.

Lemma testbit_div : forall x k, N.testbit x k = ((x / 2 ^ k) mod 2 =? 1).
Proof. intros. rewrite N.testbit_odd, N.shiftr_div_pow2. apply odd_mod2. Qed.

Lemma bits_div : forall x lo w, bits x lo w = (x / 2 ^ lo) mod 2 ^ w.
Proof. intros. unfold bits. rewrite N.land_ones, N.shiftr_div_pow2. reflexivity. Qed.

Lemma tx_pack_fields : forall r q d st b, d < 256 ->
  let o := tx_pack r q d st b in
  N.testbit o 0 = r /\ N.testbit o 1 = q /\ bits o 2 8 = d /\ N.testbit o 10 = st /\ N.testbit o 11 = b.
Proof.
  intros r q d st b Hd o. subst o. unfold tx_pack. rewrite !testbit_div, bits_div.
  change (2 ^ 0) with 1. change (2 ^ 1) with 2. change (2 ^ 2) with 4. change (2 ^ 8) with 256.
  change (2 ^ 10) with 1024. change (2 ^ 11) with 2048.
  destruct r, q, st, b; cbn [b2n]; repeat split; lia.
Qed.

Lemma ti_data_lt : forall i, ti_data i < 256.
Proof. intro i. unfold ti_data. rewrite bits_div. change (2 ^ 8) with 256. apply N.mod_lt. discriminate. Qed.

Lemma tx_view_pack : forall i r q d st b, d < 256 ->
  tx_view (i, tx_pack r q d st b) =
  {| c_data := ti_data i; c_valid := ti_valid i; c_mode := ti_mode i; c_ready := r;
     c_idle := ti_idle i; c_nxt := ti_nxt i; c_req := q; c_dout := d; c_stp := st; c_busy := b |}.
Proof.
  intros i r q d st b Hd. unfold tx_view.
  destruct (tx_pack_fields r q d st b Hd) as (H0 & H1 & H2 & H3 & H4).
  rewrite H0, H1, H2, H3, H4. reflexivity.
Qed.

(* ------------------------------ (A) the model satisfies the contract ---------------------------- *)
Definition tx_inv (s : tx_state) (g : txg) : Prop :=
  t_tx s = g_tx g /\
  (if g_tx g then t_req s = true
   else (g_rp g = true -> t_req s = true) /\ (g_armed g = false -> t_req s = false)).

Lemma tx_inv_init : tx_inv tx_init txg0.
Proof. split; [reflexivity|]. cbn. split; [discriminate | reflexivity]. Qed.

Ltac SIMP := cbn [g_tx g_rp g_armed c_data c_valid c_mode c_ready c_idle c_nxt c_req c_dout c_stp c_busy
                   t_tx t_req andb orb negb implb eqb fst snd].

Lemma tx_step_ok : forall s g i, tx_inv s g ->
  let c := tx_view (i, snd (tx_step s i)) in
  tx_env g c = true -> tx_ok g c = true /\ tx_inv (fst (tx_step s i)) (tx_gnext g c).
Proof.
  intros [tx rq] [gt grp ga] i [Htx Hreq]. cbn [t_tx t_req g_tx g_rp g_armed] in *. subst gt.
  unfold tx_step. cbv zeta. cbn [t_tx t_req].
  assert (Hd := ti_data_lt i).
  assert (Hn : ti_data i mod 16 < 16) by (apply N.mod_lt; discriminate).
  assert (Hc : forall b : bool, TXCMD + (if b then 0 else ti_data i mod 16) < 256)
    by (intros []; unfold TXCMD; lia).
  destruct tx.
  - (* TRANSMIT *) subst rq.
    destruct (ti_valid i) eqn:V, (ti_mode i =? NO_BIT_STUFF) eqn:M; cbn [fst snd];
      (rewrite tx_view_pack by lia); clear Hc Hd Hn; intros _;
      unfold tx_ok, tx_gnext, tx_inv, c_nostuff; SIMP; rewrite ?V, ?M, ?N.eqb_refl, ?eqb_reflx; SIMP;
      repeat split; try reflexivity; try discriminate.
  - (* IDLE *) destruct Hreq as [Hrp Harm].
    destruct (ti_valid i) eqn:V, (ti_idle i) eqn:I, (ti_mode i =? NO_BIT_STUFF) eqn:M, (ti_nxt i) eqn:X;
      cbn [andb negb fst snd]; (rewrite tx_view_pack by (unfold TXCMD; lia)); clear Hc Hd Hn;
      unfold tx_env, tx_ok, tx_gnext, tx_inv, txcmd_of, c_rq, c_nostuff; SIMP;
      rewrite ?V, ?I, ?M, ?X, ?N.eqb_refl; SIMP; intro E;
      destruct grp, ga, rq; SIMP; cbn [implb negb andb orb] in *;
      try discriminate; try (specialize (Hrp eq_refl)); try (specialize (Harm eq_refl)); try discriminate;
      repeat split; try reflexivity; try discriminate; auto.
Qed.

Lemma ios_cons : forall (S : Type) (step : S -> N -> S * N) s i t,
  ios step s (i :: t) = (i, snd (step s i)) :: ios step (fst (step s i)) t.
Proof. intros. unfold ios. cbn [run]. destruct (step s i) as [s' o]. reflexivity. Qed.

Theorem tx_model_accepts_from : forall tr s g, tx_inv s g ->
  tx_accepts g (map tx_view (ios tx_step s tr)) = true.
Proof.
  induction tr as [|i t IH]; intros s g H; [reflexivity|].
  rewrite ios_cons. cbn [map tx_accepts].
  destruct (tx_env g (tx_view (i, snd (tx_step s i)))) eqn:E; [|reflexivity].
  destruct (tx_step_ok s g i H E) as [Hok Hinv]. rewrite Hok. cbn. apply IH. exact Hinv.
Qed.

Theorem tx_model_accepts : forall tr, tx_accepts txg0 (map tx_view (ios tx_step tx_init tr)) = true.
Proof. intro tr. apply tx_model_accepts_from. apply tx_inv_init. Qed.

(* accepted + environment kept = strict *)
Lemma tx_strict_of : forall cs g, tx_accepts g cs = true -> tx_env_all g cs = true -> tx_strict g cs = true.
Proof.
  induction cs as [|c t IH]; intros g HA HE; [reflexivity|]. cbn in *.
  apply andb_true_iff in HE as [He Ht]. rewrite He in *. apply andb_true_iff in HA as [Hok Ha].
  rewrite Hok. cbn. apply IH; assumption.
Qed.

(* ------------------------------ (B) contract => packet-level reading ---------------------------- *)
(* bytes the PHY has taken so far for a transmission of which UTMI has handed over l *)
Definition wbytes (m : N) (l : list N) : list N :=
  if m =? NO_BIT_STUFF then TXCMD :: l
  else match l with [] => [] | b0 :: r => (TXCMD + b0 mod 16) :: r end.

Definition pk_rel (g : txg) (cp : option (list N)) (cu : option (N * list N)) : Prop :=
  if g_tx g then
    exists m l, cu = Some (m, l) /\ cp = Some (wbytes m l) /\ (m <> NO_BIT_STUFF -> l <> [])
  else cp = None /\ (cu = None \/ exists m, cu = Some (m, [])).

Lemma is_txcmd_cmd : forall x, x < 16 -> is_txcmd (TXCMD + x) = true.
Proof. intros x H. unfold is_txcmd, TXCMD. lia. Qed.

Lemma is_txcmd_of : forall c, is_txcmd (txcmd_of c) = true.
Proof.
  intro c. unfold txcmd_of. apply is_txcmd_cmd. destruct (c_nostuff c); [lia | apply N.mod_lt; discriminate].
Qed.

Lemma wbytes_snoc : forall m l d, (m <> NO_BIT_STUFF -> l <> []) -> wbytes m l ++ [d] = wbytes m (l ++ [d]).
Proof.
  intros m l d H. unfold wbytes. destruct (m =? NO_BIT_STUFF) eqn:E; [reflexivity|].
  destruct l as [|b0 r]; [|reflexivity]. exfalso. apply H; [|reflexivity]. intro; subst. discriminate.
Qed.

Lemma wire_wbytes : forall m l stopb, (m <> NO_BIT_STUFF -> l <> []) ->
  stopb = (if m =? NO_BIT_STUFF then 255 else 0) ->
  implb (m =? NO_BIT_STUFF) (negb (match l with [] => true | _ => false end)) = true ->
  [(wbytes m l, stopb)] = wire (m, l).
Proof.
  intros m l stopb H -> HU. unfold wire, wbytes. cbn [fst snd].
  destruct l as [|b0 r].
  - destruct (m =? NO_BIT_STUFF) eqn:E; [discriminate|]. exfalso. apply H; [|reflexivity].
    intro; subst; discriminate.
  - destruct (m =? NO_BIT_STUFF); reflexivity.
Qed.

Theorem tx_packets_from : forall cs g cp cu, pk_rel g cp cu ->
  tx_strict g cs = true -> utmi_ok cu cs = true ->
  phy_tx cp cs = flat_map wire (utmi_tx cu cs).
Proof.
  induction cs as [|c t IH]; intros g cp cu R HS HU; [reflexivity|].
  cbn [tx_strict] in HS. apply andb_true_iff in HS as [HS Ht]. apply andb_true_iff in HS as [He Hok].
  unfold pk_rel in R. unfold tx_env, tx_ok in He, Hok.
  destruct (g_tx g) eqn:G.
  - (* packet in progress *)
    destruct R as (m & l & -> & -> & Hne).
    apply andb_true_iff in Hok as [Hok Hbody]. apply andb_true_iff in Hok as [Hreq Hbusy].
    cbn [phy_tx utmi_tx utmi_ok] in *.
    destruct (c_valid c) eqn:V.
    + apply andb_true_iff in Hbody as [Hbody Hstp]. apply andb_true_iff in Hbody as [Hd Hr].
      apply negb_true_iff in Hstp. rewrite Hstp. apply N.eqb_eq in Hd. apply eqb_prop in Hr.
      apply andb_true_iff in HU as [Hm HU].
      rewrite Hr in *. destruct (c_nxt c) eqn:X.
      * rewrite Hd, wbytes_snoc by exact Hne.
        apply (IH (tx_gnext g c)); [|exact Ht|exact HU].
        unfold tx_gnext, pk_rel. rewrite G, V. cbn [g_tx].
        exists m, (l ++ [c_data c]). repeat split. intros _. destruct l; discriminate.
      * apply (IH (tx_gnext g c)); [|exact Ht|exact HU].
        unfold tx_gnext, pk_rel. rewrite G, V. cbn [g_tx]. exists m, l. repeat split. exact Hne.
    + apply andb_true_iff in Hbody as [Hstp Hd]. rewrite Hstp. apply N.eqb_eq in Hd.
      apply andb_true_iff in HU as [HU1 HU]. apply andb_true_iff in HU1 as [Hm Hnn].
      apply N.eqb_eq in Hm. cbn [flat_map].
      rewrite <- (wire_wbytes m l (c_dout c)); [| exact Hne | | exact Hnn].
      * cbn [app]. f_equal. apply (IH (tx_gnext g c)); [|exact Ht|exact HU].
        unfold tx_gnext, pk_rel. rewrite G, V. cbn. split; [reflexivity | left; reflexivity].
      * rewrite Hd. unfold c_nostuff. rewrite Hm. reflexivity.
  - (* no packet in progress *)
    destruct R as [-> Hcu].
    repeat (apply andb_true_iff in Hok as [Hok ?]).
    cbn [phy_tx].
    match goal with H : (c_dout c =? _) = true |- _ => apply N.eqb_eq in H; rename H into Hd end.
    match goal with H : implb (c_valid c) _ = true |- _ => rename H into Hrdy end.
    assert (Hstart : (c_req c && c_idle c && c_nxt c && is_txcmd (c_dout c)) = (c_rq c && c_nxt c)).
    { rewrite Hd. unfold c_rq in *.
      destruct (c_valid c), (c_idle c), (c_nxt c), (c_req c); cbn [andb implb] in *;
        rewrite ?is_txcmd_of; try reflexivity; try discriminate. }
    rewrite Hstart.
    cbn [utmi_tx utmi_ok] in *.
    destruct (c_valid c) eqn:V.
    + cbn [implb] in Hrdy. apply eqb_prop in Hrdy.
      (* the run's mode: that of its first cycle *)
      assert (Hmode : exists m, (match cu with Some ml => ml | None => (c_mode c, []) end) = (m, []) /\
                                utmi_ok (Some (m, if c_ready c then [c_data c] else [])) t = true /\ c_mode c = m).
      { destruct Hcu as [-> | [m ->]].
        - exists (c_mode c). repeat split. exact HU.
        - apply andb_true_iff in HU as [Hm HU]. apply N.eqb_eq in Hm. exists m. repeat split; assumption. }
      destruct Hmode as (m & Hcur & HU' & Hm). rewrite Hcur. cbn [app].
      destruct (c_rq c && c_nxt c) eqn:S.
      * apply andb_true_iff in S as [S1 S2]. rewrite S1, S2 in *. cbn [andb] in Hrdy.
        unfold txcmd_of, c_nostuff in *. rewrite Hm in *.
        destruct (m =? NO_BIT_STUFF) eqn:M; cbn [negb] in Hrdy; rewrite Hrdy in *.
        -- apply (IH (tx_gnext g c)); [|exact Ht|exact HU'].
           unfold tx_gnext, pk_rel. rewrite G, S1, S2. cbn [g_tx andb].
           exists m, []. rewrite Hd. unfold wbytes. rewrite M, N.add_0_r. repeat split.
           intro Hc. apply N.eqb_neq in Hc. congruence.
        -- apply (IH (tx_gnext g c)); [|exact Ht|exact HU'].
           unfold tx_gnext, pk_rel. rewrite G, S1, S2. cbn [g_tx andb].
           exists m, [c_data c]. rewrite Hd. unfold wbytes. rewrite M. repeat split. intros _. discriminate.
      * assert (c_ready c = false) as Hr0.
        { rewrite Hrdy. destruct (c_rq c), (c_nxt c); try discriminate; reflexivity. }
        rewrite Hr0 in *.
        apply (IH (tx_gnext g c)); [|exact Ht|exact HU'].
        unfold tx_gnext, pk_rel. rewrite G, S. cbn [g_tx].
        split; [reflexivity|]. right. exists m. reflexivity.
    + assert (S : c_rq c && c_nxt c = false) by (unfold c_rq; rewrite V; reflexivity).
      rewrite S.
      destruct Hcu as [-> | [m ->]].
      * apply (IH (tx_gnext g c)); [|exact Ht|exact HU].
        unfold tx_gnext, pk_rel. rewrite G, S. cbn. split; [reflexivity | left; reflexivity].
      * apply andb_true_iff in HU as [_ HU]. cbn [flat_map wire snd app].
        apply (IH (tx_gnext g c)); [|exact Ht|exact HU].
        unfold tx_gnext, pk_rel. rewrite G, S. cbn. split; [reflexivity | left; reflexivity].
Qed.

Theorem tx_packets : forall cs, tx_strict txg0 cs = true -> utmi_ok None cs = true ->
  phy_tx None cs = flat_map wire (utmi_tx None cs).
Proof. intros cs. apply (tx_packets_from cs txg0 None None). split; [reflexivity | left; reflexivity]. Qed.

Corollary tx_model_packets : forall tr,
  let cs := map tx_view (ios tx_step tx_init tr) in
  tx_env_all txg0 cs = true -> utmi_ok None cs = true ->
  phy_tx None cs = flat_map wire (utmi_tx None cs).
Proof.
  intros tr cs HE HU. apply tx_packets; [|exact HU].
  apply tx_strict_of; [apply tx_model_accepts | exact HE].
Qed.

(* ------------------------------ packing lemmas -------------------------------------------------- *)
Lemma tx_dec_enc : forall s, tx_dec (tx_enc s) = s.
Proof. intros [[] []]; reflexivity. Qed.

Lemma txg_dec_enc : forall g, txg_dec (txg_enc g) = g.
Proof. intros [[] [] []]; reflexivity. Qed.
