(* C28 -- proofs about the USBOutStreamBoundaryDetector model (Model/BoundaryDet.v). *)
From Coq Require Import NArith ZArith List Bool Lia ZifyBool ZifyN.
Import ListNotations.
From LunaLib Require Import Netlist Machine.
From LunaModel Require Import BoundaryDet.
Open Scope N_scope.
Ltac Zify.zify_post_hook ::= Z.div_mod_to_equations.

(* ------------------------------------------------------------------------------------------ *)
(* list-level facts about the specification                                                    *)
Definition is_nil {A} (l : list A) : bool := match l with [] => true | _ => false end.

(* the events of bytes that are known not to be the last of their packet *)
Definition nonlast (first : bool) (pre : list N) : list event :=
  match pre with
  | [] => []
  | b :: t => Byte b first false :: map (fun x => Byte x false false) t
  end.

Lemma nonlast_false : forall pre, nonlast false pre = map (fun x => Byte x false false) pre.
Proof. destruct pre; reflexivity. Qed.

Lemma byte_events_cons2 : forall f a l, l <> [] ->
  byte_events f (a :: l) = Byte a f false :: byte_events false l.
Proof. intros f a [|b t] H; [contradiction | reflexivity]. Qed.

Lemma byte_events_app : forall pre f b fut,
  byte_events f (pre ++ b :: fut) = nonlast f pre ++ byte_events (f && is_nil pre) (b :: fut).
Proof.
  induction pre as [|a pre IH]; intros f b fut.
  - cbn [app nonlast is_nil]. rewrite andb_true_r. reflexivity.
  - change ((a :: pre) ++ b :: fut) with (a :: (pre ++ b :: fut)).
    rewrite byte_events_cons2 by (destruct pre; discriminate).
    rewrite IH. cbn [nonlast is_nil]. rewrite andb_false_r, nonlast_false. cbn [andb]. reflexivity.
Qed.

Lemma nonlast_snoc : forall pre b,
  nonlast true (pre ++ [b]) = nonlast true pre ++ [Byte b (is_nil pre) false].
Proof.
  destruct pre as [|a pre]; intros b; [reflexivity|].
  cbn [app nonlast is_nil]. rewrite map_app. reflexivity.
Qed.

Lemma events_cons : forall o l, events (o :: l) = events_of o ++ events l.
Proof. reflexivity. Qed.

Lemma events_app : forall a b, events (a ++ b) = events a ++ events b.
Proof. intros. unfold events. apply flat_map_app. Qed.

Lemma bd_run_app : forall a b s,
  bd_run s (a ++ b) = bd_run s a ++ bd_run (fold_left bd_next a s) b.
Proof. induction a as [|i t IH]; intros b s; cbn [app bd_run fold_left]; [reflexivity|]. rewrite IH. reflexivity. Qed.

Lemma bd_run_length : forall ins s, length (bd_run s ins) = length ins.
Proof. induction ins as [|i t IH]; intros s; cbn [bd_run length]; [reflexivity | rewrite IH; reflexivity]. Qed.

(* ------------------------------------------------------------------------------------------ *)
(* The main induction: from every model state, the events still to come are exactly the events *)
(* the specification still expects.                                                            *)
Definition rx_inv (s : bd_state) : Prop :=
  o_last (out s) = false /\ o_complete (out s) = false /\ o_invalid (out s) = false.

Definition goal_at (s : bd_state) (ins : list bd_in) : Prop :=
  match fsm s with
  | WAIT_FOR_FIRST_BYTE =>
      env_from Idle ins = true ->
      events (bd_run s (ins ++ flush)) =
      events_of (out s) ++ flat_map packet_events (packets_of None ins)
  | OUTPUT_STROBES =>
      env_from JustEnded ins = true ->
      events (bd_run s (ins ++ flush)) =
      events_of (out s) ++ strobe_events (buf_c s) (buf_i s) ++ flat_map packet_events (packets_of None ins)
  | RECEIVE_AND_TRANSMIT =>
      rx_inv s -> env_from InPacket ins = true ->
      forall pre, is_first s = is_nil pre ->
      exists R,
        flat_map packet_events
          (packets_of (Some {| bytes := pre ++ [buf s]; complete := buf_c s; invalid := buf_i s |}) ins)
        = nonlast true pre ++ R
        /\ events (bd_run s (ins ++ flush)) = events_of (out s) ++ R
  end.

Lemma strobe_events_ff : strobe_events false false = [].
Proof. reflexivity. Qed.

Ltac evs := unfold events_of; cbn [o_valid o_next o_first o_last o_complete o_invalid o_payload andb app];
  rewrite ?orb_false_r, ?andb_false_r, ?app_nil_r; cbn [andb app].

Lemma bd_main : forall ins s, goal_at s ins.
Proof.
  induction ins as [|i t IH]; intros [f o b isf bc bi].
  - (* the history is over: three idle cycles flush everything *)
    destruct f; unfold goal_at; cbn [fsm].
    + intros _. destruct o. cbn. rewrite !app_nil_r. reflexivity.
    + intros [Hl [Hc Hv]] _ pre Hf. cbn in Hl, Hc, Hv, Hf. subst.
      exists (Byte b (is_nil pre) true :: strobe_events bc bi). split.
      * cbn [packets_of flat_map packet_events bytes complete invalid buf buf_c buf_i].
        unfold packet_events; cbn [bytes complete invalid]. rewrite app_nil_r, byte_events_app. cbn [andb byte_events]. rewrite <- app_assoc. reflexivity.
      * destruct o. cbn in *. subst. cbn. evs. reflexivity.
    + intros _. destruct o. cbn. evs. reflexivity.
  - destruct f; unfold goal_at; cbn [fsm].
    + (* WAIT_FOR_FIRST_BYTE *)
      intros He. cbn [app bd_run]. rewrite events_cons. f_equal.
      cbn [env_from] in He. cbn [packets_of].
      destruct (i_valid i && i_next i) eqn:E.
      * pose proof (IH (bd_next {| fsm := WAIT_FOR_FIRST_BYTE; out := o; buf := b; is_first := isf; buf_c := bc; buf_i := bi |} i)) as G.
        unfold goal_at, bd_next in G. cbn [fsm] in G. rewrite E in G. cbn [fsm out buf is_first buf_c buf_i] in G.
        destruct (G (conj eq_refl (conj eq_refl eq_refl)) He [] eq_refl) as [R [H1 H2]].
        unfold bd_next. cbn [fsm]. rewrite E. cbn [fsm out buf is_first buf_c buf_i].
        rewrite H2. cbn [app nonlast] in H1. rewrite H1. reflexivity.
      * pose proof (IH (bd_next {| fsm := WAIT_FOR_FIRST_BYTE; out := o; buf := b; is_first := isf; buf_c := bc; buf_i := bi |} i)) as G.
        unfold goal_at, bd_next in G. cbn [fsm] in G. rewrite E in G. cbn [fsm out buf is_first buf_c buf_i] in G.
        unfold bd_next. cbn [fsm]. rewrite E. cbn [fsm out buf is_first buf_c buf_i]. rewrite (G He). reflexivity.
    + (* RECEIVE_AND_TRANSMIT *)
      intros [Hl [Hc Hv]] He pre Hf. cbn [out is_first buf buf_c buf_i] in *.
      cbn [env_from] in He. cbn [packets_of bytes complete invalid].
      pose proof (IH (bd_next {| fsm := RECEIVE_AND_TRANSMIT; out := o; buf := b; is_first := isf; buf_c := bc; buf_i := bi |} i)) as G.
      cbn [app bd_run]. rewrite events_cons.
      unfold goal_at, bd_next in G |- *. cbn [fsm out buf is_first buf_c buf_i] in G |- *.
      destruct (negb (i_valid i)) eqn:Ev; [| destruct (i_next i) eqn:En]; cbn [fsm out buf is_first buf_c buf_i] in G |- *.
      * (* valid fell: the held-back byte goes out as the last one, then the strobes *)
        rewrite (G He).
        exists (Byte b (is_nil pre) true :: strobe_events (bc || i_cin i) (bi || i_iin i)
                ++ flat_map packet_events (packets_of None t)).
        split.
        -- cbn [flat_map]. unfold packet_events at 1; cbn [bytes complete invalid].
           rewrite byte_events_app. cbn [andb byte_events]. rewrite <- !app_assoc. reflexivity.
        -- f_equal. evs. rewrite Hc, Hv, Hf. cbn [strobe_events orb app]. reflexivity.
      * (* a further byte *)
        destruct (G (conj Hl (conj Hc Hv)) He (pre ++ [b]) ltac:(destruct pre; reflexivity)) as [R [H1 H2]].
        exists (Byte b (is_nil pre) false :: R). split.
        -- rewrite H1, nonlast_snoc, <- app_assoc. reflexivity.
        -- f_equal. rewrite H2. evs. rewrite Hc, Hv, Hl, Hf. cbn [strobe_events orb app]. reflexivity.
      * (* a gap between bytes *)
        destruct (G (conj Hl (conj Hc Hv)) He pre Hf) as [R [H1 H2]].
        exists R. split; [exact H1|].
        f_equal. rewrite H2. evs. rewrite Hc, Hv. cbn [strobe_events orb app]. reflexivity.
    + (* OUTPUT_STROBES *)
      intros He. cbn [app bd_run]. rewrite events_cons. f_equal.
      cbn [env_from] in He. apply andb_true_iff in He as [E He]. apply negb_true_iff in E.
      cbn [packets_of]. rewrite E.
      pose proof (IH (bd_next {| fsm := OUTPUT_STROBES; out := o; buf := b; is_first := isf; buf_c := bc; buf_i := bi |} i)) as G.
      unfold goal_at, bd_next in G |- *. cbn [fsm out buf is_first buf_c buf_i] in G |- *.
      rewrite (G He). evs. cbn [buf_c buf_i]. reflexivity.
Qed.

(* ------------------------------------------------------------------------------------------ *)
(* The theorems.                                                                               *)

(* (1) complete histories: once the history is followed by three idle cycles, the processed side
   has shown exactly the expected events -- every packet's bytes in order with first/last in
   place, each packet's strobes after its last byte, nothing else. *)
Theorem bd_flushed : forall ins, bd_env ins = true ->
  events (bd_run bd_init (ins ++ flush)) = expected ins.
Proof. intros ins He. exact (bd_main ins bd_init He). Qed.

(* (2) every cut of a history: what has been shown so far is a prefix of what is expected, so
   nothing is ever output early, out of order, or that does not belong to a received packet. *)
Theorem bd_prefix : forall ins, bd_env ins = true ->
  exists rest, expected ins = events (bd_run bd_init ins) ++ rest.
Proof.
  intros ins He. rewrite <- (bd_flushed ins He), bd_run_app, events_app. eexists. reflexivity.
Qed.

(* (3) a byte strobe is never shown without the processed stream being valid *)
Theorem bd_next_valid : forall ins s,
  (o_next (out s) = true -> o_valid (out s) = true) ->
  Forall (fun o => o_next o = true -> o_valid o = true) (bd_run s ins).
Proof.
  induction ins as [|i t IH]; intros s H; cbn [bd_run]; constructor; [exact H|].
  apply IH. unfold bd_next. destruct (fsm s); cbn [fsm out o_next o_valid].
  - destruct (i_valid i && i_next i); cbn; discriminate.
  - destruct (negb (i_valid i)); [|destruct (i_next i)]; cbn; reflexivity.
  - cbn. discriminate.
Qed.

(* ------------------------------------------------------------------------------------------ *)
(* Packing facts for the lock-step obligation.                                                 *)
Lemma pk_mod : forall B x rest, x < B -> pk B x rest mod B = x.
Proof. intros B x rest H. unfold pk. symmetry. apply (N.mod_unique _ _ rest); [exact H | lia]. Qed.

Lemma pk_div : forall B x rest, x < B -> pk B x rest / B = rest.
Proof. intros B x rest H. unfold pk. symmetry. apply (N.div_unique _ _ _ x); [exact H | lia]. Qed.

Lemma b2n_lt2 : forall b, b2n b < 2.
Proof. destruct b; cbn; lia. Qed.

Lemma nb_b2n : forall b, nb (b2n b) = b.
Proof. destruct b; reflexivity. Qed.

Lemma fsm_code_lt : forall f, fsm_code f < 4.
Proof. destruct f; cbn; lia. Qed.

Lemma fsm_of_code : forall f, fsm_of (fsm_code f) = f.
Proof. destruct f; reflexivity. Qed.

Definition bd_wf (s : bd_state) : Prop := o_payload (out s) < 256 /\ buf s < 256.

Ltac pk_side := first [apply b2n_lt2 | apply fsm_code_lt | assumption].
Ltac unpk := repeat first [rewrite pk_div by pk_side | rewrite pk_mod by pk_side].

Lemma bd_dec_enc : forall s, bd_wf s -> bd_dec (bd_enc s) = s.
Proof.
  intros [f o b isf bc bi] [Hp Hb]. destruct o as [v n fi la co iv pl]. cbn [out o_payload buf] in *.
  unfold bd_dec, bd_enc. cbv zeta. cbn [fsm out buf is_first buf_c buf_i
    o_valid o_next o_first o_last o_complete o_invalid o_payload].
  unpk. rewrite !nb_b2n, fsm_of_code. reflexivity.
Qed.

Lemma bd_out_of_pack : forall o, o_payload o < 256 -> bd_out_of (bd_out_pack o) = o.
Proof.
  intros o Hp. destruct o as [v n fi la co iv pl]. cbn [o_payload] in Hp.
  unfold bd_out_of, bd_out_pack. cbv zeta.
  cbn [o_valid o_next o_first o_last o_complete o_invalid o_payload].
  unpk. rewrite !nb_b2n. rewrite N.mod_small by exact Hp. reflexivity.
Qed.

Lemma bits_lt : forall x lo w, bits x lo w < 2 ^ w.
Proof. intros. unfold bits. rewrite N.land_ones. apply N.mod_lt. apply N.pow_nonzero. lia. Qed.

Lemma bd_in_of_payload : forall w, i_payload (bd_in_of w) < 256.
Proof. intro w. cbn [bd_in_of i_payload]. apply (bits_lt w 4 8). Qed.

Lemma bd_wf_next : forall s i, bd_wf s -> i_payload i < 256 -> bd_wf (bd_next s i).
Proof.
  intros [f o b isf bc bi] i [Hp Hb] Hi. cbn [out buf] in *. unfold bd_wf, bd_next.
  cbn [fsm out buf is_first buf_c buf_i]. destruct f.
  - destruct (i_valid i && i_next i); cbn [out buf o_payload]; split; assumption.
  - destruct (negb (i_valid i)); [|destruct (i_next i)]; cbn [out buf o_payload]; split; assumption.
  - cbn [out buf o_payload]. split; assumption.
Qed.

Lemma bd_wf_step : forall s w, bd_wf s -> bd_wf (fst (bd_mstep s w)).
Proof. intros s w H. cbn [bd_mstep fst]. apply bd_wf_next; [exact H | apply bd_in_of_payload]. Qed.

Lemma bd_wf_init : bd_wf bd_init.
Proof. split; cbn; lia. Qed.

(* the packed machine is the typed model seen through the port packing *)
Lemma bd_mrun : forall ws s,
  run bd_mstep s ws = map bd_out_pack (bd_run s (map bd_in_of ws)).
Proof. induction ws as [|w t IH]; intros s; cbn [run bd_mstep map bd_run]; [reflexivity | rewrite IH; reflexivity]. Qed.

Lemma bd_run_payloads : forall ins s, bd_wf s -> Forall (fun i => i_payload i < 256) ins ->
  Forall (fun o => o_payload o < 256) (bd_run s ins).
Proof.
  induction ins as [|i t IH]; intros s Hs Hi; cbn [bd_run]; constructor.
  - exact (proj1 Hs).
  - inversion Hi; subst. apply IH; [apply bd_wf_next|]; assumption.
Qed.

Lemma map_out_of_pack : forall l, Forall (fun o => o_payload o < 256) l ->
  map bd_out_of (map bd_out_pack l) = l.
Proof.
  induction l as [|o t IH]; intro H; [reflexivity|]. inversion H; subst.
  cbn [map]. rewrite bd_out_of_pack by assumption. rewrite IH by assumption. reflexivity.
Qed.

(* What the lock-step tie needs to turn "netlist = model" into "netlist meets the specification":
   the processed-side events decoded from the packed output words of the model. *)
Theorem bd_packed_flushed : forall ws, bd_env (map bd_in_of ws) = true ->
  events (map bd_out_of (run bd_mstep bd_init (ws ++ [0; 0; 0]))) = expected (map bd_in_of ws).
Proof.
  intros ws He. rewrite bd_mrun, map_out_of_pack.
  - rewrite map_app. change (map bd_in_of [0; 0; 0]) with flush. apply bd_flushed. exact He.
  - apply bd_run_payloads; [exact bd_wf_init|].
    apply Forall_forall. intros i Hi. apply in_map_iff in Hi as [w [<- _]]. apply bd_in_of_payload.
Qed.

(* the environment assumption as a predicate on (model state, input word), for the lock-step tie:
   while the model reports strobes (the cycle after a packet ended) no byte is presented *)
Definition phase_of (f : bd_fsm) : phase :=
  match f with WAIT_FOR_FIRST_BYTE => Idle | RECEIVE_AND_TRANSMIT => InPacket | OUTPUT_STROBES => JustEnded end.

Lemma bd_env_ok : forall ws s, env_from (phase_of (fsm s)) (map bd_in_of ws) = true ->
  env_ok bd_state bd_mstep bd_menv s ws = true.
Proof.
  induction ws as [|w t IH]; intros s H; [reflexivity|].
  cbn [map env_from] in H. cbn [env_ok bd_mstep fst]. unfold bd_menv at 1.
  destruct s as [f o b isf bc bi]. cbn [fsm] in *. destruct f; cbn [phase_of] in H.
  - cbn [andb]. apply IH. unfold bd_next. cbn [fsm].
    destruct (i_valid (bd_in_of w) && i_next (bd_in_of w)); cbn [fsm phase_of]; exact H.
  - cbn [andb]. apply IH. unfold bd_next. cbn [fsm].
    destruct (negb (i_valid (bd_in_of w))); [|destruct (i_next (bd_in_of w))]; cbn [fsm phase_of]; exact H.
  - apply andb_true_iff in H as [H1 H2]. rewrite H1. cbn [andb]. apply IH. exact H2.
Qed.

Lemma bd_env_flush : forall ins ph, env_from ph ins = true -> env_from ph (ins ++ flush) = true.
Proof.
  induction ins as [|i t IH]; intros ph H.
  - destruct ph; reflexivity.
  - cbn [app env_from] in *. destruct ph.
    + apply IH. exact H.
    + apply IH. exact H.
    + apply andb_true_iff in H as [H1 H2]. rewrite H1. cbn [andb]. apply IH. exact H2.
Qed.
