(* C13 -- luna/gateware/usb/usb2/endpoints/stream.py: USBStreamOutEndpoint (bulk / interrupt OUT),
   parametric in max_packet_size (mps), the buffer size (depth) and the endpoint number.

   Reading guide
     1. so_in / so_out            one record per clock cycle of the "usb" domain
     2. ss_state / ss_next / ss_outf   the SPECIFICATION: a packet-level machine (list queue, packet tracker of
                                  C16_OutTrack.v, data toggle, "mid-transfer" flag).  A packet's payload enters the
                                  output queue in ONE step, framed, when the packet has ended CRC-valid, addressed,
                                  with the expected toggle and without having lost a byte; it is ACKed under exactly the
                                  same condition (or because its toggle is the previous one), NAKed when a byte found
                                  no room, and the toggle / mid-transfer flag advance with the ACK.
     3. ss_env                    the environment assumption
     4. so_state / so_next / so_outf   the code-shaped MODEL: boundary-detector model (C28) + glue + FIFO model (C18)
     5. packing                   for the lock-step tie against the regenerated netlist

   DEFECTS in the tree as found (findings/C13-...): the model describes the repaired behaviour.
     (a) `overflow` is cleared when the packet is discarded, two cycles after its end; at full / low speed
         rx_ready_for_response comes later, finds the flag clear and the endpoint ACKs (and toggles) for a packet
         it has thrown away -- data loss.  Repair: the flag lives until the next packet begins.
     (b) `transfer_active` is updated when the last byte is WRITTEN, also for packets that are then discarded
         (bad CRC, overflow), so the retransmission's first byte gets a wrong `first`; and a zero-length packet
         never clears it.  Repair: remember whether the packet was full-size (next_active) and move it into
         transfer_active together with the data toggle, i.e. when the packet is ACKed as new data. *)
From Coq Require Import NArith List Bool Arith.
Import ListNotations.
From LunaLib Require Import Netlist Machine PackN.
From LunaModel Require Import BoundaryDet TxFifo C16_OutTrack.
Open Scope nat_scope.

(* ------------------------------------------------------------------------------------------ *)
(* 1. Interface                                                                                *)
Record so_in := {
  u_tgt  : bool;      (* tokenizer.endpoint == endpoint_number  &  tokenizer.is_out *)
  u_ping : bool;      (* tokenizer.endpoint == endpoint_number  &  tokenizer.is_ping  &  tokenizer.ready_for_response *)
  u_rfr  : bool;      (* interface.rx_ready_for_response *)
  u_tog  : N;         (* interface.rx_pid_toggle (2 bits) *)
  u_clr  : bool;      (* clear_endpoint_halt_in: enable & ~direction & number == endpoint_number *)
  u_rdy  : bool;      (* stream.ready *)
  u_rx   : rx_in      (* interface.rx.valid / next / payload, rx_complete, rx_invalid *)
}.

Record so_out := { v_ack : bool; v_nak : bool; v_valid : bool; v_first : bool; v_last : bool; v_data : N }.

(* payload, first and last mean something only while valid is high *)
Definition so_norm (o : so_out) : so_out :=
  if v_valid o then o
  else {| v_ack := v_ack o; v_nak := v_nak o; v_valid := false; v_first := false; v_last := false; v_data := 0%N |}.

Definition is_some {A} (x : option A) : bool := match x with Some _ => true | None => false end.

Section StreamOut.
  Variable mps : nat.      (* max_packet_size *)
  Variable depth : nat.    (* buffer_size *)

  (* ---------------------------------------------------------------------------------------- *)
  (* 2. Specification                                                                          *)
  Record ss_state := {
    t_ph    : phase;        (* packet tracker: bytes of the open packet, its strobes, timing *)
    t_tgt   : bool;         (* the open packet is addressed to this endpoint (sampled at its first byte) *)
    t_new   : bool;         (* ... and carries new data: addressed with the expected toggle (sampled when its first
                               byte is forwarded to the buffer) *)
    t_start : bool;         (* ... and its first byte starts a transfer *)
    t_n     : nat;          (* bytes of the open packet in the buffer (uncommitted) *)
    t_lost  : bool;         (* a byte of the most recent packet found no room (kept until the next packet begins) *)
    t_full  : bool;         (* the most recent packet's last byte completed a maximum-size packet *)
    t_tog   : bool;         (* expected data toggle *)
    t_act   : bool;         (* a transfer is in progress: the last new packet ACKed was a maximum-size packet *)
    t_q     : list entry;   (* accepted payload not yet delivered *)
    t_tent  : bool          (* an entry was delivered in the previous cycle; its slot is released one cycle later *)
  }.

  Definition ss_init : ss_state :=
    {| t_ph := PIdle; t_tgt := false; t_new := false; t_start := false; t_n := 0; t_lost := false; t_full := false;
       t_tog := false; t_act := false; t_q := []; t_tent := false |}.

  (* buffer slots in use, as the endpoint sees them *)
  Definition ss_held (s : ss_state) : nat := (if t_tent s then 1 else 0) + length (t_q s) + t_n s.

  Definition ss_match (s : ss_state) (i : so_in) : bool := (u_tog i =? (if t_tog s then 1 else 0))%N.

  (* what happens to the byte forwarded in this cycle (if any) *)
  Definition ss_okay (s : ss_state) (i : so_in) : bool :=
    match fwd (t_ph s) with
    | Some (_, true, _) => u_tgt i && ss_match s i       (* first byte: is this packet new data for us? *)
    | Some _ => t_new s
    | None => false
    end.
  Definition ss_lost_now (s : ss_state) (i : so_in) : bool := ss_okay s i && (ss_held s =? depth).
  Definition ss_stored (s : ss_state) (i : so_in) : bool := ss_okay s i && negb (ss_held s =? depth).
  (* the packet that is ending now / ended last was a maximum-size packet *)
  Definition ss_full_now (s : ss_state) (i : so_in) : bool :=
    match fwd (t_ph s) with
    | Some (_, _, true) => if ss_stored s i then t_n s =? mps - 1 else t_full s
    | _ => t_full s
    end.

  (* handshake decisions *)
  Definition ss_accepted (s : ss_state) (i : so_in) : bool :=
    u_tgt i && ss_match s i && negb (ss_lost_now s i) && negb (t_lost s).
  Definition ss_suff (s : ss_state) : bool := mps <=? depth - ss_held s.

  Definition ss_outf (s : ss_state) (i : so_in) : so_out :=
    let drr := u_tgt i && u_rfr i in
    let skip := u_tgt i && negb (ss_match s i) in
    let ack := (drr && ss_accepted s i) || (u_ping i && ss_suff s) || (drr && skip) in
    let nak := (drr && negb (ss_accepted s i) && negb skip) || (u_ping i && negb (ss_suff s)) in
    match t_q s with
    | [] => {| v_ack := ack; v_nak := nak; v_valid := false; v_first := false; v_last := false; v_data := 0%N |}
    | e :: _ => {| v_ack := ack; v_nak := nak; v_valid := true; v_first := e_first e; v_last := e_last e;
                   v_data := e_data e |}
    end.

  Definition ss_next (s : ss_state) (i : so_in) : ss_state :=
    let ph := t_ph s in
    let pop := u_rdy i && negb (match t_q s with [] => true | _ => false end) in
    let q1 := if pop then tl (t_q s) else t_q s in
    let accepted_now := u_tgt i && u_rfr i && ss_accepted s i in
    (* a new packet begins on the raw receive stream *)
    let begins := r_valid (u_rx i) && (match ph with PIdle => true | _ => false end) in
    (* outcome of a packet: committed as a whole, or thrown away *)
    let commit := match ph with
                  | PReport bs c v => t_tgt s && c && negb v && negb (t_lost s) && t_new s
                  | _ => false
                  end in
    {| t_ph := trk_next ph (u_rx i);
       t_tgt := match ph with PIdle | PReport _ _ _ => u_tgt i | _ => t_tgt s end;
       t_new := match fwd ph with Some (_, true, _) => u_tgt i && ss_match s i | _ => t_new s end;
       t_start := match fwd ph with Some (_, true, _) => negb (t_act s) | _ => t_start s end;
       t_n := match ph with
              | PReport _ _ _ => 0
              | _ => if ss_stored s i then S (t_n s) else t_n s
              end;
       t_lost := if ss_lost_now s i then true else if begins then false else t_lost s;
       t_full := match fwd ph with
                 | Some (_, _, true) => if ss_stored s i then t_n s =? mps - 1 else if begins then false else t_full s
                 | _ => if begins then false else t_full s
                 end;
       t_tog := if u_clr i then false else if accepted_now then negb (t_tog s) else t_tog s;
       t_act := if accepted_now then ss_full_now s i else t_act s;
       t_q := match ph with
              | PReport bs c v => if commit then q1 ++ frame (t_start s) (length bs <? mps) bs else q1
              | _ => q1
              end;
       t_tent := pop |}.

  Fixpoint ss_run (s : ss_state) (ins : list so_in) : list so_out :=
    match ins with
    | [] => []
    | i :: t => ss_outf s i :: ss_run (ss_next s i) t
    end.

  (* ---------------------------------------------------------------------------------------- *)
  (* 3. Environment assumption, cycle by cycle:
        E0  payload bytes are bytes;
        E1  the addressing (tokenizer fields) and the received data PID do not change while a packet is being
            received and until its outcome has been acted upon; no response is requested and no ClearFeature(HALT)
            arrives while a packet is open;
        E2  rx.valid stays low for the two cycles after a packet ended;
        E3  a packet addressed to the endpoint ends with exactly one of rx_complete / rx_invalid;
        E4  a packet addressed to the endpoint has at most max_packet_size bytes.                *)
  Definition ss_env (s : ss_state) (i : so_in) : bool :=
    let r := u_rx i in
    (r_pay r <? 256)%N &&
    match t_ph s with
    | PIdle => true
    | POpen bs c v _ =>
        eqb (u_tgt i) (t_tgt s) && negb (u_rfr i) && negb (u_clr i) &&
        (if 0 <? n_fwd (t_ph s) then eqb (t_tgt s && ss_match s i) (t_new s) else true) &&
        (if t_tgt s then
           if negb (r_valid r) then xorb (c || r_cin r) (v || r_iin r)
           else if r_next r then length bs <? mps else true
         else true)
    | PEnded _ _ _ =>
        eqb (u_tgt i) (t_tgt s) && negb (r_valid r) && negb (u_clr i) &&
        (if 0 <? n_fwd (t_ph s) then eqb (t_tgt s && ss_match s i) (t_new s) else true)
    | PReport _ c v => negb (r_valid r) && (if c || v then eqb (u_tgt i) (t_tgt s) else true)
    end.

  Fixpoint ss_env_ok (s : ss_state) (ins : list so_in) : bool :=
    match ins with
    | [] => true
    | i :: t => ss_env s i && ss_env_ok (ss_next s i) t
    end.

  (* ---------------------------------------------------------------------------------------- *)
  (* 4. Model                                                                                  *)
  Definition cnt_width : N := N.size (N.of_nat (mps - 1)).    (* rx_cnt = Signal(range(max_packet_size)) *)

  Record so_state := {
    n_bd   : bd_state;     (* USBOutStreamBoundaryDetector *)
    n_ff   : tf_state;     (* TransactionalizedFIFO(width=10, depth=buffer_size) *)
    n_tog  : bool;         (* expected_data_toggle *)
    n_ovf  : bool;         (* overflow *)
    n_cnt  : N;            (* rx_cnt, cnt_width bits, wraps *)
    n_act  : bool;         (* transfer_active *)
    n_nact : bool;         (* next_active (the repair) *)
    (* ghost registers, read only by the environment predicate so_env: *)
    h_tgt  : bool;         (* u_tgt at the first byte of the packet *)
    h_new  : bool;         (* okay_to_receive when the packet's first byte was forwarded *)
    h_cnt  : nat;          (* bytes of the packet so far, saturating at mps + 1 *)
    h_fwd  : bool          (* a byte of the open packet has been forwarded *)
  }.

  Definition so_init : so_state :=
    {| n_bd := bd_init; n_ff := tf_init depth; n_tog := false; n_ovf := false; n_cnt := 0%N; n_act := false;
       n_nact := false; h_tgt := false; h_new := false; h_cnt := 0; h_fwd := false |}.

  (* combinational signals of a cycle *)
  Record so_comb := {
    k_okay : bool; k_lost : bool; k_wen : bool; k_accepted : bool; k_drr : bool; k_skip : bool; k_suff : bool;
    k_fullpkt : bool; k_commit : bool; k_discard : bool; k_lastw : bool; k_newpkt : bool }.

  Definition so_sig (m : so_state) (i : so_in) : so_comb :=
    let o := out (n_bd m) in
    let f := tf_outputs depth (n_ff m) in
    let expected_pid_match := (u_tog i =? (if n_tog m then 1 else 0))%N in
    let okay_to_receive := u_tgt i && expected_pid_match in
    let byte := is_some (bd_fwd (n_bd m)) in                             (* rx.next & rx.valid *)
    let data_is_lost := okay_to_receive && byte && fo_full f in
    let write_en := okay_to_receive && byte && negb (fo_full f) in
    let rx_last := match bd_fwd (n_bd m) with Some (_, _, la) => la | None => false end in
    {| k_okay := okay_to_receive; k_lost := data_is_lost; k_wen := write_en;
       k_accepted := okay_to_receive && negb data_is_lost && negb (n_ovf m);
       k_drr := u_tgt i && u_rfr i;
       k_skip := u_tgt i && negb expected_pid_match;
       k_suff := mps <=? fo_space f;
       k_fullpkt := (n_cnt m =? N.of_nat (mps - 1))%N;
       k_commit := u_tgt i && o_complete o && negb (n_ovf m);
       k_discard := u_tgt i && (o_invalid o || (o_complete o && n_ovf m));
       k_lastw := write_en && rx_last;
       k_newpkt := r_valid (u_rx i) && negb (o_valid o) |}.

  Definition so_outf (m : so_state) (i : so_in) : so_out :=
    let k := so_sig m i in
    let f := tf_outputs depth (n_ff m) in
    let rd := fo_read_data f in
    {| v_ack := (k_drr k && k_accepted k) || (u_ping i && k_suff k) || (k_drr k && k_skip k);
       v_nak := (k_drr k && negb (k_accepted k) && negb (k_skip k)) || (u_ping i && negb (k_suff k));
       v_valid := negb (fo_empty f); v_first := N.testbit rd 9; v_last := N.testbit rd 8;
       v_data := (rd mod 256)%N |}.

  Definition so_fifo_in (m : so_state) (i : so_in) : tf_in :=
    let k := so_sig m i in
    {| fi_read_en := u_rdy i; fi_read_commit := true; fi_read_discard := false;
       fi_write_en := k_wen k; fi_write_commit := k_commit k; fi_write_discard := k_discard k;
       fi_write_data := match bd_fwd (n_bd m) with
                        | Some (p, fi, la) =>
                            enc_entry {| e_data := p; e_first := fi && negb (n_act m); e_last := la && negb (k_fullpkt k) |}
                        | None => 0%N
                        end |}.

  Definition so_next (m : so_state) (i : so_in) : so_state :=
    let k := so_sig m i in
    let r := u_rx i in
    let toggling := k_drr k && k_accepted k in
    {| n_bd := bd_next (n_bd m) (rx_bd r);
       n_ff := tf_next_state depth (n_ff m) (so_fifo_in m i);
       n_tog := if u_clr i then false else if toggling then negb (n_tog m) else n_tog m;
       n_ovf := if k_lost k then true else if k_newpkt k then false else n_ovf m;
       n_cnt := if k_commit k || k_discard k then 0%N
                else if k_wen k then ((n_cnt m + 1) mod 2 ^ cnt_width)%N else n_cnt m;
       n_act := if toggling then (if k_lastw k then k_fullpkt k else n_nact m) else n_act m;
       n_nact := if k_lastw k then k_fullpkt k else if k_newpkt k then false else n_nact m;
       h_tgt := match fsm (n_bd m) with WAIT_FOR_FIRST_BYTE => u_tgt i | _ => h_tgt m end;
       h_new := match bd_fwd (n_bd m) with Some (_, true, _) => k_okay k | _ => h_new m end;
       h_cnt := match fsm (n_bd m) with
                | WAIT_FOR_FIRST_BYTE => 1
                | RECEIVE_AND_TRANSMIT => if r_valid r && r_next r then Nat.min (S (h_cnt m)) (S mps) else h_cnt m
                | OUTPUT_STROBES => h_cnt m
                end;
       h_fwd := match fsm (n_bd m) with
                | WAIT_FOR_FIRST_BYTE => false
                | _ => h_fwd m || is_some (bd_fwd (n_bd m))
                end |}.

  Fixpoint so_run (m : so_state) (ins : list so_in) : list so_out :=
    match ins with
    | [] => []
    | i :: t => so_outf m i :: so_run (so_next m i) t
    end.

  (* the environment assumption phrased on the model's registers (equal to ss_env on related states) *)
  Definition so_env (m : so_state) (i : so_in) : bool :=
    let r := u_rx i in
    let b := n_bd m in
    let mt := (u_tog i =? (if n_tog m then 1 else 0))%N in
    (r_pay r <? 256)%N &&
    match fsm b with
    | WAIT_FOR_FIRST_BYTE =>
        if o_valid (out b) then
          negb (r_valid r) && (if o_complete (out b) || o_invalid (out b) then eqb (u_tgt i) (h_tgt m) else true)
        else true
    | RECEIVE_AND_TRANSMIT =>
        eqb (u_tgt i) (h_tgt m) && negb (u_rfr i) && negb (u_clr i) &&
        (if h_fwd m then eqb (h_tgt m && mt) (h_new m) else true) &&
        (if h_tgt m then
           if negb (r_valid r) then xorb (buf_c b || r_cin r) (buf_i b || r_iin r)
           else if r_next r then h_cnt m <? mps else true
         else true)
    | OUTPUT_STROBES =>
        eqb (u_tgt i) (h_tgt m) && negb (r_valid r) && negb (u_clr i) &&
        (if h_fwd m then eqb (h_tgt m && mt) (h_new m) else true)
    end.
End StreamOut.

(* ------------------------------------------------------------------------------------------ *)
(* 5. Packed form.  Input word (LSB first): is_out, is_ping, tokenizer.ready_for_response, rx_valid, rx_next,
      rx_complete, rx_invalid, rx_ready_for_response, stream.ready, rx_pid_toggle[2], endpoint[4],
      clear_endpoint_halt_in[6] (enable, direction, number[4]), rx_payload[8].
      Output word: ack, nak, valid, first, last, payload[8].                                   *)
Open Scope N_scope.

Definition so_in_of (ep : N) (w : N) : so_in :=
  let epm := bits w 11 4 =? ep in
  {| u_tgt := epm && N.testbit w 0;
     u_ping := epm && N.testbit w 1 && N.testbit w 2;
     u_rfr := N.testbit w 7;
     u_tog := bits w 9 2;
     u_clr := N.testbit w 15 && negb (N.testbit w 16) && (bits w 17 4 =? ep);
     u_rdy := N.testbit w 8;
     u_rx := {| r_valid := N.testbit w 3; r_next := N.testbit w 4; r_cin := N.testbit w 5;
                r_iin := N.testbit w 6; r_pay := bits w 21 8 |} |}.

Definition so_out_pack (o : so_out) : N :=
  b2n (v_ack o) + 2 * b2n (v_nak o) + 4 * b2n (v_valid o) + 8 * b2n (v_first o) + 16 * b2n (v_last o) + 32 * v_data o.

Definition so_out_of (w : N) : so_out :=
  {| v_ack := N.testbit w 0; v_nak := N.testbit w 1; v_valid := N.testbit w 2; v_first := N.testbit w 3;
     v_last := N.testbit w 4; v_data := bits w 5 8 |}.

Definition so_mstep (mps depth : nat) (ep : N) (m : so_state) (w : N) : so_state * N :=
  (* the lock-step targets expose the stream fields masked by stream.valid, so the packed model does the same *)
  let i := so_in_of ep w in (so_next mps depth m i, so_out_pack (so_norm (so_outf mps depth m i))).

Definition so_menv (mps : nat) (ep : N) (m : so_state) (w : N) : bool := so_env mps m (so_in_of ep w).

Definition so_normN (w : N) : N := so_out_pack (so_norm (so_out_of w)).

(* state packing: bit fields *)
Definition hcnt_bits (mps : nat) : N := N.size (N.of_nat (S mps)).

Definition so_enc (mps depth : nat) (m : so_state) : N :=
  let b := fun x : bool => PackN.pk (2 ^ 1) (b2n x) in
  b (n_tog m) (b (n_ovf m) (b (n_act m) (b (n_nact m) (b (h_tgt m) (b (h_new m) (b (h_fwd m)
    (PackN.pk (2 ^ cnt_width mps) (n_cnt m) (PackN.pk (2 ^ hcnt_bits mps) (N.of_nat (h_cnt m))
      (PackN.pk (2 ^ tf_bits2 depth) (tf_enc2 depth (n_ff m)) (bd_enc (n_bd m))))))))))).

Definition so_dec (mps depth : nat) (x : N) : so_state :=
  let tg := N.land x (N.ones 1) in let x := N.shiftr x 1 in
  let ov := N.land x (N.ones 1) in let x := N.shiftr x 1 in
  let ac := N.land x (N.ones 1) in let x := N.shiftr x 1 in
  let na := N.land x (N.ones 1) in let x := N.shiftr x 1 in
  let ht := N.land x (N.ones 1) in let x := N.shiftr x 1 in
  let hn := N.land x (N.ones 1) in let x := N.shiftr x 1 in
  let hf := N.land x (N.ones 1) in let x := N.shiftr x 1 in
  let cn := N.land x (N.ones (cnt_width mps)) in let x := N.shiftr x (cnt_width mps) in
  let hc := N.land x (N.ones (hcnt_bits mps)) in let x := N.shiftr x (hcnt_bits mps) in
  let f := N.land x (N.ones (tf_bits2 depth)) in let x := N.shiftr x (tf_bits2 depth) in
  {| n_bd := bd_dec2 x; n_ff := tf_dec2 depth f; n_tog := nb tg; n_ovf := nb ov; n_cnt := cn; n_act := nb ac;
     n_nact := nb na; h_tgt := nb ht; h_new := nb hn; h_cnt := N.to_nat hc; h_fwd := nb hf |}.
