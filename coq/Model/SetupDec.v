(* C06 -- hand model of luna/gateware/usb/usb2/request.py: USBSetupDecoder, i.e. the SETUP decoder FSM
   together with the components it is wired to in LUNA (as in USBDevice / USBControlEndpoint): its
   USBDataPacketDeserializer (packet.py, max_packet_size = 8, modelled parametrically), the
   USBDataPacketCRC unit (Model/Crc.v), the USBTokenDetector (Model/TokenDet.v) and a
   USBInterpacketTimer (Model/IpTimer.v, 60 MHz, HS-capable) started by the decoder alone.

   The model takes two flags that select, for two places of the source, between the behaviour of the
   code as found (false) and the property-satisfying behaviour (true):
     fa  USBDataPacketDeserializer.CAPTURE_DATA: leave the state when the packet ends with a CRC mismatch
         (as found: no transition, the FSM keeps capturing the next packet's bytes);
     fb  USBSetupDecoder.READ_DATA: a new SETUP token starts a new transaction
         (as found: any new token, including a SETUP, returns the FSM to IDLE).
   All theorems are about  c6_step true true.

   Packed ports.  inputs : rx_active (bit 0), rx_valid (1), rx_data (2..9), device address (10..16), speed (17..18)
                  outputs: received (bit 0), the eight setup bytes bmRequestType, bRequest, wValue, wIndex,
                           wLength little-endian (bits 1..64), ack (bit 65), tokenizer.endpoint (66..69). *)
From Coq Require Import NArith List Bool.
Import ListNotations.
From LunaLib Require Import Netlist Bits Machine.
From LunaModel Require Import Crc Handshake TokenDet IpTimer.
Open Scope N_scope.

Definition c_speed (i : N) : N := bits i 17 2.
Definition c_utmi (i : N) : N := bits i 0 17.        (* the token detector's input word (Model/TokenDet.v) *)

Fixpoint upd (l : list N) (k : nat) (x : N) : list N :=
  match l, k with
  | [], _ => []
  | _ :: t, O => x :: t
  | a :: t, S k' => a :: upd t k' x
  end.
Definition le_bytes (l : list N) : N := fold_right (fun b acc => b + 256 * acc) 0 l.

(* ============================ USBDataPacketDeserializer ======================================= *)
(* mx = max_packet_size; w = width of position_in_packet = Signal(range(0, mx + 2));
   wl = width of length = Signal(range(0, mx + 1)) *)
Inductive ds_fsm := DS_IDLE | DS_READ_PID | DS_CAPTURE | DS_IRRELEVANT.
Record ds_state := {
  ds_f : ds_fsm; ds_apid : N (* active_pid *); ds_pos : N (* position_in_packet *);
  ds_buf : list N (* active_packet, mx + 2 bytes *);
  ds_lw : N (* last_word *); ds_lbc : N (* last_byte_crc *); ds_lwc : N (* last_word_crc *);
  ds_new : bool (* new_packet *); ds_pid : N (* packet_id *); ds_pkt : list N (* packet, mx bytes *);
  ds_len : N (* length *) }.
Definition ds_init (mx : nat) : ds_state :=
  {| ds_f := DS_IDLE; ds_apid := 0; ds_pos := 0; ds_buf := repeat 0 (mx + 2); ds_lw := 0; ds_lbc := 0; ds_lwc := 0;
     ds_new := false; ds_pid := 0; ds_pkt := repeat 0 mx; ds_len := 0 |}.

(* is_valid_pid & is_data *)
Definition data_pid (d : N) : bool := valid_pid d && (bits d 0 2 =? 3).

Definition ds_step (fa : bool) (mx : nat) (w wl : N) (s : ds_state) (act val : bool) (d crc : N) : ds_state :=
  let mk f ap pos := {| ds_f := f; ds_apid := ap; ds_pos := pos; ds_buf := ds_buf s; ds_lw := ds_lw s;
                        ds_lbc := ds_lbc s; ds_lwc := ds_lwc s; ds_new := false; ds_pid := ds_pid s;
                        ds_pkt := ds_pkt s; ds_len := ds_len s |} in
  match ds_f s with
  | DS_IDLE => mk (if act then DS_READ_PID else DS_IDLE) (ds_apid s) (ds_pos s)
  | DS_READ_PID =>
      if negb act then mk DS_IDLE (ds_apid s) (ds_pos s)
      else if val then
        if data_pid d then mk DS_CAPTURE (bits d 0 4) 0 else mk DS_IRRELEVANT (ds_apid s) (ds_pos s)
      else mk DS_READ_PID (ds_apid s) (ds_pos s)
  | DS_CAPTURE =>
      let lim := N.of_nat mx + 2 in
      let cap := val && (ds_pos s <? lim) in          (* a byte is stored *)
      let ovf := val && (lim <=? ds_pos s) in         (* it would over-fill the buffer *)
      let endp := negb act in
      let ok := ds_lwc s =? ds_lw s in                (* last_word_crc == last_word *)
      {| ds_f := if endp && (ok || fa) then DS_IDLE else if ovf then DS_IRRELEVANT else DS_CAPTURE;
         ds_apid := ds_apid s;
         ds_pos := if cap then (ds_pos s + 1) mod 2 ^ w else ds_pos s;
         ds_buf := if cap then upd (ds_buf s) (N.to_nat (ds_pos s)) d else ds_buf s;
         ds_lw := if cap then ds_lw s / 256 + 256 * d else ds_lw s;       (* Cat(last_word[8:], rx_data) *)
         ds_lbc := if cap then crc else ds_lbc s;
         ds_lwc := if cap then ds_lbc s else ds_lwc s;
         ds_new := endp && ok;
         ds_pid := if endp && ok then ds_apid s else ds_pid s;
         ds_pkt := if endp && ok then firstn mx (ds_buf s) else ds_pkt s;
         ds_len := if endp && ok then (ds_pos s + 2 ^ wl - 2) mod 2 ^ wl else ds_len s |}
  | DS_IRRELEVANT => mk (if act then DS_IRRELEVANT else DS_IDLE) (ds_apid s) (ds_pos s)
  end.

(* ============================ USBSetupDecoder(standalone) ===================================== *)
Inductive sd_fsm := SD_IDLE | SD_READ_DATA | SD_DELAY.
Record c6_state := {
  c_td : td_state;            (* tokenizer *)
  c_crc : list bool;          (* CRC16 running register *)
  c_tmr : N;                  (* interpacket timer counter *)
  c_ds : ds_state;            (* data_handler *)
  c_f : sd_fsm; c_recv : bool (* packet.received *); c_setup : list N (* the 8 setup bytes *) }.
Definition c6_init : c6_state :=
  {| c_td := td_init; c_crc := reg_init 16; c_tmr := 0; c_ds := ds_init 8; c_f := SD_IDLE; c_recv := false;
     c_setup := repeat 0 8 |}.

Definition c6_tbl : ip_table := tbl_60 false.     (* USBInterpacketTimer(): 60 MHz, HS-capable *)
Definition tx_allowed_at (c sp : N) : bool := N.odd (ip_strobes c6_tbl c sp).

Definition c6_out (s : c6_state) (ack : bool) : N :=
  b2n (c_recv s) + 2 * le_bytes (c_setup s) + 2 ^ 65 * b2n ack + 2 ^ 66 * t_ep (td_regs (c_td s)).

(* the decoder FSM: (state, setup bytes) and this cycle's strobes -> next state, received', setup bytes', ack *)
Definition sd_step (fb : bool) (f : sd_fsm) (setup : list N) (ntok stok dnew : bool) (dlen : N) (dpkt : list N)
    (tx_allowed hs : bool) : sd_fsm * bool * list N * bool :=
  match f with
  | SD_IDLE => (if stok && ntok then SD_READ_DATA else SD_IDLE, false, setup, false)
  | SD_READ_DATA =>
      if dnew then
        if dlen =? 8
        then (if tx_allowed || hs then SD_IDLE else SD_DELAY, true, dpkt, tx_allowed || hs)
        else (SD_IDLE, false, setup, false)
      else (if ntok && negb (fb && stok) then SD_IDLE else SD_READ_DATA, false, setup, false)
  | SD_DELAY => (if tx_allowed then SD_IDLE else SD_DELAY, false, setup, tx_allowed)
  end.

Definition c6_step (fa fb : bool) (s : c6_state) (i : N) : c6_state * N :=
  let act := d_act i in let val := d_val i in let d := d_dat i in let sp := c_speed i in
  let tr := td_regs (c_td s) in let ds := c_ds s in
  (* combinational signals between the submodules *)
  let crc_start := match ds_f ds with DS_READ_PID => true | _ => false end in   (* data_crc.start *)
  let crc := crc_out (c_crc s) in                                                (* data_crc.crc *)
  let tx_allowed := tx_allowed_at (c_tmr s) sp in                                (* timer.tx_allowed *)
  let '(f', recv', setup', ack) :=
    sd_step fb (c_f s) (c_setup s) (t_new_token tr) (t_pid tr =? 13) (ds_new ds) (ds_len ds) (ds_pkt ds)
            tx_allowed (sp =? 0) in
  ({| c_td := fst (td_step true (c_td s) (c_utmi i));
      c_crc := fst (crc16mod_step (c_crc s) (b2n crc_start + 2 * d + 512 * b2n val));
      c_tmr := ip_next 640 10 (c_tmr s) (ds_new ds);                             (* timer.start = new_packet *)
      c_ds := ds_step fa 8 4 4 ds act val d crc;
      c_f := f'; c_recv := recv'; c_setup := setup' |},
   c6_out s ack).

(* ============================ specification ================================================== *)
(* The specification is a monitor over the (input, output) pairs of every cycle.  It follows the
   bytes of the packet in progress and the token events exactly as C01's specification does
   (TokenDet.tsp_step), classifies every completed packet as a data packet or not, and keeps a
   three-valued "armed" status.

   Data packets (as seen by an 8-byte deserializer).  A completed packet p :: body with a DATA0/1/2/MDATA
   PID byte whose last two bytes are the CRC16 (little endian) of the bytes before them:
     D8 pl   delivered with exactly 8 payload bytes pl            Dx   delivered, another length (0..7)
     D0      not delivered: bad CRC, more than 8 payload bytes, or not a data packet at all
     Dq      a data packet cut off before its CRC field (fewer than 2 bytes after the PID): the
             deserializer compares stale registers; it may or may not signal a packet, never of length 8. *)
Inductive dstat := D0 | D8 (pl : list N) | Dx | Dq.
Definition dclass (pkt : list N) : dstat :=
  match pkt with
  | [] => D0
  | p :: body =>
      if negb (data_pid p) then D0
      else match rev body with
           | hi :: lo :: rp =>
               let pl := rev rp in
               if Nat.leb (length pl) 8 && (crc16_usb pl =? lo + 256 * hi)
               then (if Nat.eqb (length pl) 8 then D8 pl else Dx) else D0
           | _ => Dq
           end
  end.

(* armed: A_yes = the last token event for this device was a SETUP and no data packet has been delivered
   since (the next D8 packet IS the setup request); A_no = it is not; A_q = a cut-off data packet (Dq) arrived
   while armed: whether the pending SETUP is still armed is unspecified until the next token event. *)
Inductive arm := A_no | A_yes | A_q.
(* what `received` must show in the current cycle *)
Inductive rexp := R0 | R1 (pl : list N) | Rq (pl : list N).     (* low / high with these bytes / either *)

Record sm_state := {
  m_tsp : tsp_state;        (* packet in progress, tokenizer registers (C01) *)
  m_dn : dstat;             (* class of the packet that completed in the previous cycle *)
  m_ar : arm;
  m_wt : option N;          (* full speed: cycles waited since the setup data packet was signalled *)
  m_rx : rexp;
  m_fl : N;                 (* the setup bytes currently shown *)
  m_sp : option N }.        (* the bus speed of this history (HIGH = 0 / FULL = 1), fixed by its first cycle *)
Definition sm_init : sm_state :=
  {| m_tsp := tsp_init; m_dn := D0; m_ar := A_no; m_wt := None; m_rx := R0; m_fl := 0; m_sp := None |}.

Definition o_recv (o : N) : bool := N.odd o.
Definition o_flds (o : N) : N := bits o 1 64.
Definition o_ack (o : N) : bool := N.testbit o 65.
Definition o_endp (o : N) : N := bits o 66 4.

(* The reaction to this cycle's strobes: armed', wait', what `received` must show in the next cycle,
   the expected ACK request of this cycle (None = either), and whether the environment must not complete
   a packet in this cycle.  sp = bus speed, wt = ACK delay in progress, ntok/stok = a token for this device
   is signalled / its PID is SETUP, ack = the ACK request actually seen (used only where the status is A_q). *)
Definition sm_react (sp : N) (wt : option N) (ar : arm) (dn : dstat) (ntok stok ack : bool)
    : arm * option N * rexp * option bool * bool :=
  match wt with
  | Some k => if k =? 10 then (A_no, None, R0, Some true, false) else (A_no, Some (k + 1), R0, Some false, true)
  | None =>
      match ar, dn with
      | A_no, _ => (if stok && ntok then A_yes else A_no, None, R0, Some false, false)
      | A_yes, D8 pl => (A_no, if sp =? 0 then None else Some 0, R1 pl, Some (sp =? 0), sp =? 1)
      | A_yes, Dx => (A_no, None, R0, Some false, false)
      | A_yes, Dq => (A_q, None, R0, Some false, false)
      | A_yes, D0 => (if ntok && negb stok then A_no else A_yes, None, R0, Some false, false)
      | A_q, D8 pl => if sp =? 0 then (A_no, None, if ack then R1 pl else R0, None, false)
                      else (A_no, None, Rq pl, Some false, true)
      | A_q, Dx => (A_no, None, R0, Some false, false)
      | A_q, Dq => (A_q, None, R0, Some false, false)
      | A_q, D0 => (if ntok then (if stok then A_yes else A_no) else A_q, None, R0, Some false, false)
      end
  end.

(* one cycle: None = the environment assumption is broken (speed changes or is not HIGH/FULL; a packet
   completes while a full-speed ACK is being delayed); otherwise the next state and the verdict on the outputs.
   Timing: a packet completes in the cycle t in which rx_active falls; the deserializer / tokenizer strobes are
   seen in t+1 (m_dn, new_token); `received` and the setup bytes in t+2; the ACK request in t+1 at high speed
   and in t+12 at full speed (2 bit times = 10 cycles after the timer restarts in t+2). *)
Definition sm_step (s : sm_state) (i o : N) : option (sm_state * bool) :=
  let sp := match m_sp s with Some x => x | None => c_speed i end in
  if negb ((c_speed i =? sp) && (sp <=? 1)) then None else
  let r := snd (m_tsp s) in
  let done := pk_done (fst (m_tsp s)) i in
  let recv := o_recv o in
  let ok_recv := match m_rx s with R0 => negb recv | R1 _ => recv | Rq _ => true end in
  let exp_fl := match m_rx s with R0 => m_fl s | R1 pl | Rq pl => if recv then le_bytes pl else m_fl s end in
  (* a full-speed ACK delay has begun iff a setup request that was left open (Rq) is in fact being reported *)
  let wt := match m_rx s with Rq _ => if recv && (sp =? 1) then Some 0 else m_wt s | _ => m_wt s end in
  let '(ar', wt', rx', exp_ack, quiet) :=
    sm_react sp wt (m_ar s) (m_dn s) (t_new_token r) (t_pid r =? 13) (o_ack o) in
  if quiet && match done with Some _ => true | None => false end then None else
  let ok_ack := match exp_ack with Some b => Bool.eqb (o_ack o) b | None => true end in
  Some ({| m_tsp := fst (tsp_step true (m_tsp s) (c_utmi i));
           m_dn := match done with Some pkt => dclass pkt | None => D0 end;
           m_ar := ar'; m_wt := wt'; m_rx := rx'; m_fl := exp_fl; m_sp := Some sp |},
        ok_recv && (o_flds o =? exp_fl) && ok_ack && (o_endp o =? t_ep r)).

(* the monitor over a whole trace of (input, output) pairs: true = no violated cycle (before the first
   cycle, if any, in which the environment assumption breaks) *)
Fixpoint sm_accepts (s : sm_state) (ios : list (N * N)) : bool :=
  match ios with
  | [] => true
  | (i, o) :: t => match sm_step s i o with
                   | None => true
                   | Some (s', ok) => ok && sm_accepts s' t
                   end
  end.
(* the environment assumption alone *)
Fixpoint sm_env (s : sm_state) (ios : list (N * N)) : bool :=
  match ios with
  | [] => true
  | (i, o) :: t => match sm_step s i o with None => false | Some (s', _) => sm_env s' t end
  end.

(* ---- the monitor packed into N (to run it as a runtime oracle over recorded implementation traces) ---- *)
Fixpoint bytes_of_le (k : nat) (n : N) : list N :=
  match k with O => [] | S k' => N.land n 255 :: bytes_of_le k' (N.shiftr n 8) end.
Definition dn_tag (d : dstat) : N := match d with D0 => 0 | D8 _ => 1 | Dx => 2 | Dq => 3 end.
Definition dn_pl (d : dstat) : N := match d with D8 pl => le_bytes pl | _ => 0 end.
Definition rx_tag (r : rexp) : N := match r with R0 => 0 | R1 _ => 1 | Rq _ => 2 end.
Definition rx_pl (r : rexp) : N := match r with R0 => 0 | R1 pl | Rq pl => le_bytes pl end.
Definition opt_code (x : option N) : N := match x with None => 0 | Some k => k + 1 end.
Definition opt_of (c : N) : option N := match c with 0 => None | _ => Some (c - 1) end.
Definition sm_enc (s : sm_state) : N :=
  dn_tag (m_dn s) + 4 * ((match m_ar s with A_no => 0 | A_yes => 1 | A_q => 2 end)
  + 4 * (opt_code (m_wt s) + 32 * (rx_tag (m_rx s) + 4 * (opt_code (m_sp s)
  + 4 * (dn_pl (m_dn s) + 2 ^ 64 * (rx_pl (m_rx s) + 2 ^ 64 * (m_fl s + 2 ^ 64 * tsp_enc (m_tsp s)))))))).
Definition sm_dec (m : N) : sm_state :=
  let dpl := bytes_of_le 8 (bits m 13 64) in let rpl := bytes_of_le 8 (bits m 77 64) in
  {| m_tsp := tsp_dec (N.shiftr m 205);
     m_dn := match bits m 0 2 with 0 => D0 | 1 => D8 dpl | 2 => Dx | _ => Dq end;
     m_ar := match bits m 2 2 with 0 => A_no | 1 => A_yes | _ => A_q end;
     m_wt := opt_of (bits m 4 5);
     m_rx := match bits m 9 2 with 0 => R0 | 1 => R1 rpl | _ => Rq rpl end;
     m_fl := bits m 141 64;
     m_sp := opt_of (bits m 11 2) |}.
Definition sm_mon (m i o : N) : option (N * bool) :=
  match sm_step (sm_dec m) i o with None => None | Some (s', ok) => Some (sm_enc s', ok) end.

(* the environment assumption along an input history, evaluated with the corrected model's own outputs;
   c6_joint also returns the model and monitor states reached *)
Fixpoint c6_joint (s : c6_state) (m : sm_state) (tr : list N) : option (c6_state * sm_state) :=
  match tr with
  | [] => Some (s, m)
  | i :: t => let (s', o) := c6_step true true s i in
              match sm_step m i o with None => None | Some (m', _) => c6_joint s' m' t end
  end.
Definition c6_env (tr : list N) : bool :=
  match c6_joint c6_init sm_init tr with Some _ => true | None => false end.

(* ---- stimuli (for examples and for exhaustive single-transaction sweeps of the regenerated netlist) ---- *)
Definition c6_cyc (act val dat addr sp : N) : N := act + 2 * val + 4 * dat + 1024 * addr + 131072 * sp.
Definition c6_pkt (bytes : list N) (addr sp : N) : list N :=
  c6_cyc 1 0 0 addr sp :: map (fun b => c6_cyc 1 1 b addr sp) bytes.
Definition c6_idle (n : nat) (addr sp : N) : list N := repeat (c6_cyc 0 0 0 addr sp) n.
(* a data packet: PID byte, payload, CRC16 little-endian (xor an error mask) *)
Definition data_bytes (pid : N) (pl : list N) (err : N) : list N :=
  let c := N.lxor (crc16_usb pl) err in pid :: pl ++ [N.land c 255; N.shiftr c 8].
Definition setup_token00 : list N := [45; 0; 16].                  (* SETUP, address 0, endpoint 0, CRC5 *)
Definition ref_setup : list N := [128; 6; 0; 1; 0; 0; 64; 0].      (* GET_DESCRIPTOR(DEVICE), wLength 64 *)
(* one complete SETUP transaction to address 0 / endpoint 0 with payload pl, CRC error mask err, then idle *)
Definition setup_txn (pl : list N) (err sp : N) : list N :=
  c6_idle 1 0 sp ++ c6_pkt setup_token00 0 sp ++ c6_idle 2 0 sp ++ c6_pkt (data_bytes 195 pl err) 0 sp ++ c6_idle 16 0 sp.
(* sweep index x (11 bits): byte number x / 256 of the reference payload replaced by x mod 256 *)
Definition sweep_setup_byte (sp : N) (x : N) : list N :=
  setup_txn (upd ref_setup (N.to_nat (N.shiftr x 8)) (N.land x 255)) 0 sp.
(* sweep index x (4 bits): CRC bit x flipped *)
Definition sweep_setup_crcflip (sp : N) (x : N) : list N := setup_txn ref_setup (N.shiftl 1 x) sp.
Definition c6_sweep_eq (gstep : N -> N -> N * N) (ginit : N) (w : nat) (mk : N -> list N) : bool :=
  forall_bits w (fun x => list_eqb (run gstep ginit (mk x)) (run (c6_step true true) c6_init (mk x))).

(* over-long data stage: a complete valid setup data packet (8 bytes + their CRC16) followed by 1..4 copies of an
   extra byte; sweep index x (10 bits): extra byte = x mod 256, copies = 1 + x / 256.  Never a setup request. *)
Definition setup_txn_bytes (dbytes : list N) (sp : N) : list N :=
  c6_idle 1 0 sp ++ c6_pkt setup_token00 0 sp ++ c6_idle 2 0 sp ++ c6_pkt dbytes 0 sp ++ c6_idle 16 0 sp.
Definition sweep_setup_extra (sp : N) (x : N) : list N :=
  setup_txn_bytes (data_bytes 195 ref_setup 0 ++ repeat (N.land x 255) (S (N.to_nat (N.shiftr x 8)))) sp.

(* an aborted packet directly before a valid SETUP transaction.  sweep index x (10 bits): b = x mod 256;
   x / 256 selects the aborted packet: [OUT pid; b] (token cut after one byte), [SETUP pid; b], [b] (any single
   byte, incl. every PID cut after the PID), [IN pid; b; b] (complete-length token, mostly bad CRC). *)
Definition sweep_abort_then_setup (sp : N) (x : N) : list N :=
  let b := N.land x 255 in
  let pk := match N.shiftr x 8 with 0 => [225; b] | 1 => [45; b] | 2 => [b] | _ => [105; b; b] end in
  c6_idle 1 0 sp ++ c6_pkt pk 0 sp ++ c6_idle 2 0 sp ++ setup_txn ref_setup 0 sp.

(* a SETUP token whose data stage is cut off before the CRC field.  sweep index x (6 bits): PID nibble p = x mod 16
   (byte p + 16 * (15 - p): all 16 PIDs, data and non-data); bit 4: straight after reset / after a complete valid
   SETUP transaction (stale CRC registers equal); bit 5: nothing / one zero byte after the PID.  Never a request. *)
Definition sweep_setup_runt (sp : N) (x : N) : list N :=
  let p := N.land x 15 in
  let pk := (p + 16 * (15 - p)) :: (if N.testbit x 5 then [0] else []) in
  (if N.testbit x 4 then setup_txn ref_setup 0 sp else []) ++ setup_txn_bytes pk sp.
