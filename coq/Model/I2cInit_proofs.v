(* C52 -- proofs about the I2C initiator model (Model/I2cInit.v). *)
From Coq Require Import NArith ZArith List Bool Lia ZifyBool ZifyN.
Import ListNotations.
From LunaLib Require Import Netlist Bits Machine.
From LunaModel Require Import I2cInit.
Open Scope N_scope.

(* ------------------------------------------------------------------------------------------ *)
(* packing lemmas for the lock-step obligations                                                *)
Lemma ipk_mod : forall w a r, a < 2^w -> N.land (ipk w a r) (N.ones w) = a.
Proof.
  intros w a r H. unfold ipk. rewrite N.land_ones, N.shiftl_mul_pow2.
  rewrite N.mod_add by (apply N.pow_nonzero; discriminate). apply N.mod_small. exact H.
Qed.

Lemma ipk_div : forall w a r, a < 2^w -> N.shiftr (ipk w a r) w = r.
Proof.
  intros w a r H. unfold ipk. rewrite N.shiftr_div_pow2, N.shiftl_mul_pow2.
  rewrite N.div_add by (apply N.pow_nonzero; discriminate). rewrite N.div_small by exact H. reflexivity.
Qed.

Lemma ipkb_odd : forall b r, N.odd (ipk 1 (b2n b) r) = b.
Proof.
  intros b r. unfold ipk. rewrite N.shiftl_mul_pow2. change (2^1) with 2. rewrite (N.mul_comm r 2).
  rewrite N.odd_add_mul_2. destruct b; reflexivity.
Qed.

Lemma ipkb_div : forall b r, N.div2 (ipk 1 (b2n b) r) = r.
Proof.
  intros b r. unfold ipk. rewrite N.div2_div, N.shiftl_mul_pow2. change (2^1) with 2. destruct b; cbn [b2n]; lia.
Qed.

Lemma fsm_code_lt : forall f, fsm_code f < 2^5.
Proof. intros [|g k]; [reflexivity|]. destruct g, k; reflexivity. Qed.

Lemma fsm_of_code : forall f, fsm_of (fsm_code f) = f.
Proof. intros [|g k]; [reflexivity|]. destruct g, k; reflexivity. Qed.

Lemma of_msb_lt : forall l, length l = 8%nat -> of_msb l < 2^8.
Proof.
  intros l H. unfold of_msb. pose proof (bits2N_bound (rev l)) as B. rewrite rev_length, H in B. exact B.
Qed.

Lemma msb8_of_msb : forall l, length l = 8%nat -> msb8 (of_msb l) = l.
Proof.
  intros l H. unfold msb8, of_msb.
  replace 8%nat with (length (rev l)) by (rewrite rev_length; exact H).
  rewrite N2bits_bits2N. apply rev_involutive.
Qed.

Lemma msb8_length : forall d, length (msb8 d) = 8%nat.
Proof. intros d. unfold msb8. rewrite rev_length. apply N2bits_length. Qed.

Lemma i2c_dec_enc : forall st, i2c_wf st -> i2c_dec (i2c_enc st) = st.
Proof.
  intros [f t bz bn w r d ra ao sc sd c0 c1 d0 d1] (Hb & Hw & Hr & Hd).
  cbn [bitno w_shreg r_shreg data_o] in *. unfold i2c_enc, i2c_dec. cbv zeta.
  cbn [fsm timer busy bitno w_shreg r_shreg data_o r_ack ack_o scl_o sda_o scl_s0 scl_i sda_s0 sda_i].
  assert (Hb' : bn < 2^3) by exact Hb.
  repeat first [ rewrite ipk_mod by first [apply fsm_code_lt | apply of_msb_lt; assumption | assumption]
               | rewrite ipk_div by first [apply fsm_code_lt | apply of_msb_lt; assumption | assumption]
               | rewrite ipkb_odd | rewrite ipkb_div ].
  rewrite fsm_of_code, !msb8_of_msb by assumption. reflexivity.
Qed.

Lemma shl0_length : forall l, length l = 8%nat -> length (shl0 l) = 8%nat.
Proof. intros [|x l] H; [discriminate|]. unfold shl0. cbn [tl]. rewrite app_length. cbn in *. lia. Qed.

Lemma shin_length : forall l b, length l = 8%nat -> length (shin l b) = 8%nat.
Proof. intros [|x l] b H; [discriminate|]. unfold shin. cbn [tl]. rewrite app_length. cbn in *. lia. Qed.

Lemma i2c_wf_next : forall q s st i, i2c_wf st -> i2c_wf (i2c_next q s st i).
Proof.
  intros q s st i (Hb & Hw & Hr & Hd). unfold i2c_wf, i2c_next.
  assert (M : (bitno st + 1) mod 8 < 8) by (apply N.mod_lt; discriminate).
  destruct (fsm st) as [|g k]; [|destruct k, g];
    repeat match goal with |- context [if ?b then _ else _] => destruct b end;
    cbn [bitno w_shreg r_shreg data_o]; repeat split;
    first [assumption | apply msb8_length | apply shl0_length; assumption | apply shin_length; assumption].
Qed.

Lemma i2c_wf_step : forall q s st i, i2c_wf st -> i2c_wf (fst (i2c_step q s st i)).
Proof. intros. unfold i2c_step. cbn [fst]. apply i2c_wf_next. assumption. Qed.

Lemma i2c_wf_init : i2c_wf i2c_init.
Proof. unfold i2c_wf, i2c_init. cbn. repeat split; reflexivity. Qed.

(* ------------------------------------------------------------------------------------------ *)
(* Safety invariants: where SCL is while SDA moves; busy                                       *)
Definition sinv (st : i2c_state) : Prop :=
  (busy st = false -> fsm st = Idle) /\
  match fsm st with
  | Idle => scl_o st = true
  | Ph _ Sda1 => scl_o st = false
  | Ph _ Sda2 => scl_o st = true
  | _ => True
  end.

Lemma sinv_init : sinv i2c_init.
Proof. split; [discriminate | reflexivity]. Qed.

Section Safety.
  Variable q : N.
  Variable stretch : bool.

  Lemma sinv_next : forall st i, sinv st -> sinv (i2c_next q stretch st i).
  Proof.
    intros st i (Hb & Hs). unfold sinv, i2c_next.
    destruct (fsm st) as [|g k] eqn:F.
    - (* Idle *)
      repeat match goal with |- context [if ?b then _ else _] => destruct b end;
        cbn [fsm busy scl_o]; split; try discriminate; try reflexivity; try exact I; try assumption.
    - assert (Bz : busy st = true) by (destruct (busy st); [reflexivity | specialize (Hb eq_refl); discriminate]).
      destruct k.
      + destruct (stb st); cbn [fsm busy scl_o]; (split; [rewrite Bz; discriminate | try reflexivity; try exact I]).
      + destruct (stb st); cbn [fsm busy scl_o]; (split; [rewrite Bz; discriminate | try exact I; try assumption]).
      + destruct (stb st); [cbn [fsm busy scl_o]; split; [rewrite Bz; discriminate | exact I]|].
        destruct (sclh_done stretch st) eqn:D; [|cbn [fsm busy scl_o]; split; [rewrite Bz; discriminate | exact I]].
        assert (So : scl_o st = true).
        { unfold sclh_done in D. destruct (scl_o st); [reflexivity|].
          rewrite andb_false_r in D. discriminate. }
        destruct g; cbn [fsm busy scl_o]; (split; [rewrite Bz; discriminate | exact So]).
      + destruct (stb st); cbn [fsm busy scl_o]; [|split; [rewrite Bz; discriminate | assumption]].
        split; [rewrite Bz; discriminate|].
        unfold after_sda2. destruct g; try assumption; destruct (bitno st =? 7); exact I.
  Qed.

  Lemma sinv_reachable : forall tr, sinv (run_state (i2c_step q stretch) i2c_init tr).
  Proof.
    intros tr. assert (G : forall st, sinv st -> sinv (run_state (i2c_step q stretch) st tr)).
    { induction tr as [|i t IH]; intros st H; [exact H|]. cbn [run_state i2c_step fst]. apply IH, sinv_next, H. }
    apply G, sinv_init.
  Qed.

  (* T1: SDA discipline.  In any step in which the initiator's SDA output changes, either the initiator is
     holding SCL low before and after the step, or it has SCL released before and after and the step is the
     SDA edge of a START (falling) or STOP (rising) sequence. *)
  Lemma sda_discipline_step : forall st i, sinv st ->
    let st' := i2c_next q stretch st i in
    sda_o st' <> sda_o st ->
    (scl_o st = false /\ scl_o st' = false /\ exists g, fsm st = Ph g Sda1) \/
    (scl_o st = true /\ scl_o st' = true /\
       ((fsm st = Ph GStart Sda2 /\ sda_o st = true /\ sda_o st' = false) \/
        (fsm st = Ph GStop Sda2 /\ sda_o st = false /\ sda_o st' = true))).
  Proof.
    intros st i (Hb & Hs) st' Hd. subst st'. unfold i2c_next in *.
    destruct (fsm st) as [|g k] eqn:F.
    - exfalso. apply Hd.
      repeat match goal with |- context [if ?b then _ else _] => destruct b end; reflexivity.
    - destruct k.
      + exfalso. apply Hd. destruct (stb st); reflexivity.
      + left. destruct (stb st); cbn [sda_o scl_o] in *; [|exfalso; apply Hd; reflexivity].
        repeat split; try assumption. exists g; reflexivity.
      + exfalso. apply Hd. destruct (stb st); [reflexivity|].
        destruct (sclh_done stretch st); [destruct g|]; reflexivity.
      + right. destruct (stb st); cbn [sda_o scl_o] in *; [|exfalso; apply Hd; reflexivity].
        repeat split; try assumption.
        destruct g; try (exfalso; apply Hd; reflexivity).
        * left. destruct (sda_o st); [auto | exfalso; apply Hd; reflexivity].
        * right. destruct (sda_o st); [exfalso; apply Hd; reflexivity | auto].
  Qed.

  Theorem sda_discipline : forall tr i,
    let st := run_state (i2c_step q stretch) i2c_init tr in
    let st' := i2c_next q stretch st (i2c_decode i) in
    sda_o st' <> sda_o st ->
    (scl_o st = false /\ scl_o st' = false /\ exists g, fsm st = Ph g Sda1) \/
    (scl_o st = true /\ scl_o st' = true /\
       ((fsm st = Ph GStart Sda2 /\ sda_o st = true /\ sda_o st' = false) \/
        (fsm st = Ph GStop Sda2 /\ sda_o st = false /\ sda_o st' = true))).
  Proof. intros tr i. apply sda_discipline_step. apply sinv_reachable. Qed.

  (* the START / STOP groups are only entered by an accepted start / stop request; every group is entered
     from IDLE by its request (priority start > stop > write > read) or, for the ACK groups, from the
     eighth data bit *)
  Definition requested (g : i2c_group) (i : i2c_in) : Prop :=
    match g with
    | GStart => in_start i = true
    | GStop => in_start i = false /\ in_stop i = true
    | GWData => in_start i = false /\ in_stop i = false /\ in_write i = true
    | GRData => in_start i = false /\ in_stop i = false /\ in_write i = false /\ in_read i = true
    | GWAck | GRAck => False
    end.

  Theorem group_entry : forall st i g k, fsm (i2c_next q stretch st i) = Ph g k ->
    (exists k0, fsm st = Ph g k0) \/ (fsm st = Idle /\ requested g i) \/
    (g = GWAck /\ fsm st = Ph GWData Sda2 /\ bitno st = 7) \/ (g = GRAck /\ fsm st = Ph GRData Sda2 /\ bitno st = 7).
  Proof.
    intros st i g k H. unfold i2c_next in H.
    destruct (fsm st) as [|g0 k0] eqn:F.
    - right. left. split; [reflexivity|].
      destruct (in_start i) eqn:E1.
      { cbn [fsm] in H. destruct (scl_i st && sda_i st); [|destruct (negb (scl_i st))]; injection H as <- _; exact E1. }
      destruct (in_stop i) eqn:E2.
      { cbn [fsm] in H. destruct (scl_i st && negb (sda_o st)); [|destruct (negb (scl_i st))]; injection H as <- _; split; assumption. }
      destruct (in_write i) eqn:E3.
      { cbn [fsm] in H. injection H as <- _. repeat split; assumption. }
      destruct (in_read i) eqn:E4.
      { cbn [fsm] in H. injection H as <- _. repeat split; assumption. }
      discriminate.
    - destruct k0.
      + left. destruct (stb st); cbn [fsm] in H; injection H as <- _; eauto.
      + left. destruct (stb st); cbn [fsm] in H; injection H as <- _; eauto.
      + left. destruct (stb st); [cbn [fsm] in H; injection H as <- _; eauto|].
        destruct (sclh_done stretch st); [destruct g0|]; cbn [fsm] in H; injection H as <- _; eauto.
      + destruct (stb st); [|left; cbn [fsm] in H; injection H as <- _; eauto].
        cbn [fsm] in H. unfold after_sda2 in H.
        destruct g0; try discriminate.
        * destruct (bitno st =? 7) eqn:E; injection H as <- _.
          -- right. right. left. apply N.eqb_eq in E. auto.
          -- left. eauto.
        * destruct (bitno st =? 7) eqn:E; injection H as <- _.
          -- right. right. right. apply N.eqb_eq in E. auto.
          -- left. eauto.
  Qed.

  (* T3: busy is low only in IDLE, and in IDLE every request is accepted in the same cycle *)
  Theorem busy_low_only_idle : forall tr,
    let st := run_state (i2c_step q stretch) i2c_init tr in busy st = false -> fsm st = Idle.
  Proof. intros tr st. exact (proj1 (sinv_reachable tr)). Qed.

  Theorem idle_accepts : forall st i, fsm st = Idle ->
    (in_start i || in_stop i || in_write i || in_read i) = true ->
    exists g k, fsm (i2c_next q stretch st i) = Ph g k /\ requested g i /\ busy (i2c_next q stretch st i) = true.
  Proof.
    intros st i F R. unfold i2c_next. rewrite F.
    destruct (in_start i) eqn:E1.
    { exists GStart. destruct (scl_i st && sda_i st); [|destruct (negb (scl_i st))]; eexists; cbn [fsm busy]; repeat split; auto. }
    destruct (in_stop i) eqn:E2.
    { exists GStop. destruct (scl_i st && negb (sda_o st)); [|destruct (negb (scl_i st))]; eexists; cbn [fsm busy requested]; repeat split; auto. }
    destruct (in_write i) eqn:E3.
    { exists GWData, SclL. cbn [fsm busy requested]. repeat split; auto. }
    destruct (in_read i) eqn:E4.
    { exists GRData, SclL. cbn [fsm busy requested]. repeat split; auto. }
    discriminate.
  Qed.

  (* T4: clock stretching.  With clk_stretch, while the initiator has released SCL but sees it low, nothing
     moves outside a strobe cycle: FSM state, timer, outputs and data registers are frozen. *)
  Definition ctrl_eq (a b : i2c_state) : Prop :=
    fsm a = fsm b /\ timer a = timer b /\ busy a = busy b /\ bitno a = bitno b /\ w_shreg a = w_shreg b /\
    r_shreg a = r_shreg b /\ data_o a = data_o b /\ r_ack a = r_ack b /\ ack_o a = ack_o b /\
    scl_o a = scl_o b /\ sda_o a = sda_o b.

  Lemma stretch_step : forall st i, stretch = true -> fsm st <> Idle -> busy st = true -> timer st <> 0 ->
    scl_o st = true -> scl_i st = false -> ctrl_eq (i2c_next q stretch st i) st.
  Proof.
    intros st i S F B T So Si. unfold ctrl_eq, i2c_next, timer_next, sclh_done, stb.
    apply N.eqb_neq in T. rewrite T, B, So, Si, S. cbn [negb orb andb eqb].
    destruct (fsm st) as [|g k]; [contradiction|]. destruct k; cbn; repeat split; reflexivity.
  Qed.

  Theorem stretch_holds : forall tr st, stretch = true -> fsm st <> Idle -> busy st = true -> timer st <> 0 ->
    scl_o st = true -> scl_s0 st = false -> scl_i st = false ->
    Forall (fun i => in_scl (i2c_decode i) = false) tr ->
    ctrl_eq (run_state (i2c_step q stretch) st tr) st.
  Proof.
    induction tr as [|i t IH]; intros st S F B T So S0 Si H.
    - cbn. unfold ctrl_eq. repeat split; reflexivity.
    - inversion H as [|a b Hi Ht]; subst a b. cbn [run_state i2c_step fst].
      pose proof (stretch_step st (i2c_decode i) S F B T So Si) as E.
      destruct E as (E1 & E2 & E3 & E4 & E5 & E6 & E7 & E8 & E9 & E10 & E11).
      assert (N0 : scl_s0 (i2c_next q stretch st (i2c_decode i)) = false).
      { unfold i2c_next. destruct (fsm st) as [|g k]; [contradiction|].
        destruct k; repeat match goal with |- context [if ?b then _ else _] => destruct b end;
          try destruct g; cbn [scl_s0]; exact Hi. }
      assert (N1 : scl_i (i2c_next q stretch st (i2c_decode i)) = false).
      { unfold i2c_next. destruct (fsm st) as [|g k]; [contradiction|].
        destruct k; repeat match goal with |- context [if ?b then _ else _] => destruct b end;
          try destruct g; cbn [scl_i]; exact S0. }
      specialize (IH (i2c_next q stretch st (i2c_decode i)) S).
      rewrite E1, E2, E3, E10 in IH. specialize (IH F B T So N0 N1 Ht).
      unfold ctrl_eq in *. destruct IH as (I1 & I2 & I3 & I4 & I5 & I6 & I7 & I8 & I9 & I10 & I11).
      repeat split; congruence.
  Qed.
End Safety.

(* ------------------------------------------------------------------------------------------ *)
(* What a write and a read put on the bus: the ghost invariant                                 *)
Lemma hd_skipn : forall (d : list bool) j p, (j < length d)%nat -> hd false (skipn j d ++ p) = nth j d false.
Proof. induction d as [|x d IH]; intros j p H; cbn in H; [lia|]. destruct j as [|j]; cbn; [reflexivity | apply IH; lia]. Qed.

Lemma tl_skipn : forall (d : list bool) j p, (j < length d)%nat -> tl (skipn j d ++ p) = skipn (S j) d ++ p.
Proof. induction d as [|x d IH]; intros j p H; cbn in H; [lia|]. destruct j as [|j]; cbn; [reflexivity | apply IH; lia]. Qed.

Lemma firstn_snoc : forall (d : list bool) j, (j < length d)%nat -> firstn (S j) d = firstn j d ++ [nth j d false].
Proof. induction d as [|x d IH]; intros j H; cbn in H; [lia|]. destruct j as [|j]; [reflexivity|]. cbn [firstn nth app]. f_equal. apply IH. lia. Qed.

Lemma repeat_snoc : forall (x : bool) n, repeat x n ++ [x] = repeat x (S n).
Proof. intros. rewrite <- repeat_cons. reflexivity. Qed.

Definition ginv (st : i2c_state) (g : ghost) : Prop :=
  let d := g_data g in let a := g_ack g in
  let j := N.to_nat (bitno st) in
  match fsm st with
  | Idle => bitno st = 0 /\
      match g_op g with
      | OpWrite => length d = 8%nat /\ g_rises g = d ++ [true] /\ exists s, g_samples g = [s] /\ ack_o st = negb s
      | OpRead => length (g_samples g) = 8%nat /\ data_o st = g_samples g /\ g_rises g = repeat true 8 ++ [negb a]
      | _ => True
      end
  | Ph GStart _ => g_op g = OpStart /\ bitno st = 0
  | Ph GStop _ => g_op g = OpStop /\ bitno st = 0
  | Ph GWData k => g_op g = OpWrite /\ length d = 8%nat /\ g_samples g = [] /\
      match k with
      | SclL | Sda1 => g_rises g = firstn j d /\ w_shreg st = skipn j d ++ repeat false j
      | SclH => sda_o st = nth j d false /\ w_shreg st = skipn j d ++ repeat false j /\
                g_rises g = firstn j d ++ (if scl_o st then [sda_o st] else [])
      | Sda2 => g_rises g = firstn (S j) d /\ w_shreg st = skipn (S j) d ++ repeat false (S j)
      end
  | Ph GWAck k => g_op g = OpWrite /\ length d = 8%nat /\ bitno st = 0 /\
      match k with
      | SclL | Sda1 => g_rises g = d /\ g_samples g = []
      | SclH => sda_o st = true /\ g_samples g = [] /\ g_rises g = d ++ (if scl_o st then [true] else [])
      | Sda2 => g_rises g = d ++ [true] /\ exists s, g_samples g = [s] /\ ack_o st = negb s
      end
  | Ph GRData k => g_op g = OpRead /\ r_ack st = a /\
      length (g_samples g) = (match k with Sda2 => S j | _ => j end) /\
      (exists pre, r_shreg st = pre ++ g_samples g) /\
      match k with
      | SclL | Sda1 => g_rises g = repeat true j
      | SclH => sda_o st = true /\ g_rises g = repeat true j ++ (if scl_o st then [true] else [])
      | Sda2 => g_rises g = repeat true (S j)
      end
  | Ph GRAck k => g_op g = OpRead /\ r_ack st = a /\ bitno st = 0 /\ length (g_samples g) = 8%nat /\
      r_shreg st = g_samples g /\
      match k with
      | SclL | Sda1 => g_rises g = repeat true 8
      | SclH => sda_o st = negb a /\ g_rises g = repeat true 8 ++ (if scl_o st then [negb a] else [])
      | Sda2 => g_rises g = repeat true 8 ++ [negb a] /\ data_o st = g_samples g
      end
  end.

Lemma ginv_init : ginv i2c_init ghost0.
Proof. unfold ginv. cbn. auto. Qed.

Section GhostProofs.
  Variable q : N.
  Variable stretch : bool.

  Lemma bitno_succ : forall b, b < 8 -> (b =? 7) = false -> (b + 1) mod 8 = b + 1 /\ N.to_nat (b + 1) = S (N.to_nat b) /\ (S (N.to_nat b) < 8)%nat.
  Proof. intros b H E. apply N.eqb_neq in E. split; [apply N.mod_small; lia | split; lia]. Qed.

  Lemma bitno_wrap : forall b, (b =? 7) = true -> (b + 1) mod 8 = 0 /\ N.to_nat b = 7%nat.
  Proof. intros b E. apply N.eqb_eq in E. subst. split; reflexivity. Qed.

  Ltac prj := cbn [fsm timer busy bitno w_shreg r_shreg data_o r_ack ack_o scl_o sda_o scl_s0 scl_i sda_s0 sda_i
                   g_op g_data g_ack g_rises g_samples] in *.

  Lemma ginv_next : forall st i g, i2c_wf st -> sinv st -> ginv st g ->
    ginv (i2c_next q stretch st i) (ghost_next q stretch st i g).
  Proof.
    intros st i g (Wb & Ww & Wr & Wd) (Sb & Ss) G.
    destruct g as [op d a rises samples].
    unfold ginv, ghost_next, accepted, samples_now, i2c_next in *. prj.
    destruct (fsm st) as [|grp k] eqn:F.
    - (* Idle *)
      destruct G as (B0 & G).
      destruct (in_start i); [destruct (scl_i st && sda_i st); [|destruct (negb (scl_i st))]; prj; (split; [reflexivity | exact B0])|].
      destruct (in_stop i); [destruct (scl_i st && negb (sda_o st)); [|destruct (negb (scl_i st))]; prj; (split; [reflexivity | exact B0])|].
      destruct (in_write i).
      { prj. rewrite B0. cbn [N.to_nat firstn skipn repeat]. rewrite app_nil_r.
        repeat split; try reflexivity; apply msb8_length. }
      destruct (in_read i).
      { prj. rewrite B0. cbn [N.to_nat repeat].
        repeat split; try reflexivity. exists (r_shreg st). rewrite app_nil_r. reflexivity. }
      prj. rewrite andb_negb_l. rewrite !app_nil_r. split; [exact B0 | exact G].
    - assert (Bz : busy st = true) by (destruct (busy st); [reflexivity | specialize (Sb eq_refl); discriminate]).
      destruct k.
      + (* SclL *) destruct (stb st) eqn:T; destruct grp; prj; rewrite ?andb_false_r, ?andb_negb_l, ?app_nil_r; try exact G.
      + (* Sda1: SCL is low; on the strobe SDA takes this bit's value *)
        rewrite Ss in *.
        destruct (stb st) eqn:T; destruct grp; prj; rewrite ?Ss; cbn [negb andb]; rewrite ?app_nil_r; try exact G.
        * (* write data *)
          destruct G as (G1 & G2 & G3 & G4 & G5). repeat split; try assumption.
          unfold sda1_value. rewrite G5. apply hd_skipn. lia.
        * destruct G as (G1 & G2 & G3 & G4 & G5). repeat split; assumption.
        * destruct G as (G1 & G2 & G3 & G4 & G5). repeat split; assumption.
        * destruct G as (G1 & G2 & G3 & G4 & G5 & G6). repeat split; try assumption.
          unfold sda1_value. rewrite G2. reflexivity.
      + (* SclH *)
        destruct (stb st) eqn:T.
        * (* strobe: SCL released; a rise is recorded iff it was low *)
          assert (D : sclh_done stretch st = false) by (unfold sclh_done; rewrite T; reflexivity).
          rewrite D. destruct grp; prj; rewrite ?andb_true_r, ?app_nil_r; try exact G.
          -- destruct G as (G1 & G2 & G3 & G4 & G5 & G6). repeat split; try assumption.
             rewrite G6. destruct (scl_o st); cbn [negb]; rewrite ?app_nil_r; reflexivity.
          -- destruct G as (G1 & G2 & G3 & G4 & G5 & G6). repeat split; try assumption.
             rewrite G6, G4. destruct (scl_o st); cbn [negb]; rewrite ?app_nil_r; reflexivity.
          -- destruct G as (G1 & G2 & G3 & G4 & G5 & G6). repeat split; try assumption.
             rewrite G6, G5. destruct (scl_o st); cbn [negb]; rewrite ?app_nil_r; reflexivity.
          -- destruct G as (G1 & G2 & G3 & G4 & G5 & G6 & G7). repeat split; try assumption.
             rewrite G7, G6. destruct (scl_o st); cbn [negb]; rewrite ?app_nil_r; reflexivity.
        * destruct (sclh_done stretch st) eqn:D.
          -- (* SCL seen high: sample / shift, go to Sda2 *)
             assert (So : scl_o st = true).
             { unfold sclh_done in D. destruct (scl_o st); [reflexivity|]. rewrite andb_false_r in D. discriminate. }
             destruct grp; prj; rewrite ?So in *; cbn [negb andb] in *; rewrite ?app_nil_r; try exact G.
             ++ (* write data: shift *)
                destruct G as (G1 & G2 & G3 & G4 & G5 & G6). repeat split; try assumption.
                ** rewrite G6, G4. symmetry. apply firstn_snoc. lia.
                ** unfold shl0. rewrite G5. rewrite tl_skipn by lia. rewrite <- app_assoc.
                   rewrite (repeat_snoc false). reflexivity.
             ++ (* write ack: sample *)
                destruct G as (G1 & G2 & G3 & G4 & G5 & G6). repeat split; try assumption.
                exists (sda_i st). rewrite G5. split; reflexivity.
             ++ (* read data: sample and shift in *)
                destruct G as (G1 & G2 & G3 & (pre & G4) & G5 & G6). repeat split; try assumption.
                ** rewrite app_length, G3. cbn. lia.
                ** destruct pre as [|p pre].
                   { exfalso. cbn in G4. rewrite G4 in Wr. lia. }
                   exists pre. unfold shin. rewrite G4. cbn [tl app]. rewrite app_assoc. reflexivity.
                ** rewrite G6. apply (repeat_snoc true).
             ++ (* read ack: data_o <= r_shreg *)
                destruct G as (G1 & G2 & G3 & G4 & G5 & G6 & G7). repeat split; assumption.
          -- destruct grp; prj; rewrite ?andb_negb_l, ?app_nil_r; exact G.
      + (* Sda2: SCL is released *)
        rewrite Ss in *. cbn [negb andb].
        destruct (stb st) eqn:T; [|destruct grp; prj; rewrite ?app_nil_r; exact G].
        unfold after_sda2.
        destruct grp; prj; rewrite ?app_nil_r; try exact G.
        * destruct G as (G1 & G2). subst op. split; [exact G2 | exact I].
        * destruct G as (G1 & G2). subst op. split; [exact G2 | exact I].
        * (* write data: next bit or go to the ACK group *)
          destruct G as (G1 & G2 & G3 & G4 & G5).
          destruct (bitno st =? 7) eqn:E.
          -- destruct (bitno_wrap _ E) as (E1 & E2). rewrite E1. rewrite E2 in *.
             repeat split; try assumption. rewrite G4. apply firstn_all2. lia.
          -- destruct (bitno_succ _ Wb E) as (E1 & E2 & E3). rewrite E1, E2.
             repeat split; assumption.
        * destruct G as (G1 & G2 & G3 & G4 & G5). subst op. split; [exact G3|]. split; [exact G2|]. split; assumption.
        * (* read data *)
          destruct G as (G1 & G2 & G3 & (pre & G4) & G5).
          destruct (bitno st =? 7) eqn:E.
          -- destruct (bitno_wrap _ E) as (E1 & E2). rewrite E1. rewrite E2 in *.
             assert (P0 : pre = []).
             { destruct pre as [|p pre]; [reflexivity|]. exfalso. rewrite G4 in Wr. rewrite app_length in Wr. cbn in Wr. lia. }
             subst pre. cbn [app] in G4. repeat split; assumption.
          -- destruct (bitno_succ _ Wb E) as (E1 & E2 & E3). rewrite E1, E2.
             repeat split; try assumption. exists pre. exact G4.
        * destruct G as (G1 & G2 & G3 & G4 & G5 & G6 & G7). subst op. split; [exact G3|]. repeat split; assumption.
  Qed.

  Lemma inv_reachable_from : forall tr st g, i2c_wf st -> sinv st -> ginv st g ->
    i2c_wf (fst (grun q stretch st g tr)) /\ sinv (fst (grun q stretch st g tr)) /\
    ginv (fst (grun q stretch st g tr)) (snd (grun q stretch st g tr)).
  Proof.
    induction tr as [|i t IH]; intros st g W S G; [cbn; auto|].
    cbn [grun]. apply IH.
    - apply i2c_wf_next, W.
    - apply sinv_next, S.
    - apply ginv_next; assumption.
  Qed.

  Lemma grun_state : forall tr st g, fst (grun q stretch st g tr) = run_state (i2c_step q stretch) st tr.
  Proof. induction tr as [|i t IH]; intros st g; [reflexivity|]. cbn [grun run_state i2c_step fst]. apply IH. Qed.

  (* Write.  Whenever the initiator is idle and the last accepted request was a write of data_i = D:
     it generated exactly nine SCL pulses; at the rising edges of the first eight its SDA output carried the
     bits of D, most significant first; at the ninth SDA was released; exactly one sample of SDA was taken
     (during that ninth pulse, see samples_scl_high) and ack_o is its complement. *)
  Theorem write_correct : forall tr,
    let st := fst (grun q stretch i2c_init ghost0 tr) in
    let g := snd (grun q stretch i2c_init ghost0 tr) in
    fsm st = Idle -> g_op g = OpWrite ->
    length (g_data g) = 8%nat /\ g_rises g = g_data g ++ [true] /\
    exists s, g_samples g = [s] /\ ack_o st = negb s.
  Proof.
    intros tr st g F O.
    destruct (inv_reachable_from tr i2c_init ghost0 i2c_wf_init sinv_init ginv_init) as (_ & _ & G).
    fold st g in G. unfold ginv in G. rewrite F, O in G. exact (proj2 G).
  Qed.

  (* Read.  Whenever the initiator is idle and the last accepted request was a read with ack_i = A:
     nine SCL pulses; SDA released at the first eight rising edges and driven to (not A) at the ninth
     (A = 1 acknowledges); exactly eight samples of SDA were taken and data_o holds them, first sample in
     the most significant bit. *)
  Theorem read_correct : forall tr,
    let st := fst (grun q stretch i2c_init ghost0 tr) in
    let g := snd (grun q stretch i2c_init ghost0 tr) in
    fsm st = Idle -> g_op g = OpRead ->
    length (g_samples g) = 8%nat /\ data_o st = g_samples g /\
    g_rises g = repeat true 8 ++ [negb (g_ack g)].
  Proof.
    intros tr st g F O.
    destruct (inv_reachable_from tr i2c_init ghost0 i2c_wf_init sinv_init ginv_init) as (_ & _ & G).
    fold st g in G. unfold ginv in G. rewrite F, O in G. exact (proj2 G).
  Qed.

  (* every sample is taken in a non-strobe cycle in which the initiator has SCL released and, when clock
     stretching is honoured, the synchronised SCL input is high *)
  Theorem samples_scl_high : forall st, samples_now stretch st = true ->
    scl_o st = true /\ (stretch = true -> scl_i st = true) /\ stb st = false.
  Proof.
    intros st H. unfold samples_now in H.
    assert (D : sclh_done stretch st = true).
    { destruct (fsm st) as [|g k]; [discriminate|]. destruct g, k; try discriminate; exact H. }
    unfold sclh_done in D. destruct (stb st), (scl_o st); try discriminate. cbn in D.
    repeat split. intros S. rewrite S in D. exact D.
  Qed.

  (* the sampled value reaches the registers only through such a step: r_shreg and ack_o change only when
     samples_now holds *)
  Theorem registers_change_only_by_sampling : forall st i,
    samples_now stretch st = false ->
    r_shreg (i2c_next q stretch st i) = r_shreg st /\ ack_o (i2c_next q stretch st i) = ack_o st.
  Proof.
    intros st i H. unfold samples_now in H. unfold i2c_next.
    destruct (fsm st) as [|g k].
    - repeat match goal with |- context [if ?b then _ else _] => destruct b end; split; reflexivity.
    - destruct k; try (destruct (stb st); split; reflexivity).
      destruct (stb st); [split; reflexivity|].
      destruct g; try rewrite H; try (destruct (sclh_done stretch st)); split; reflexivity.
  Qed.
End GhostProofs.
