From Coq Require Import NArith ZArith List Bool Lia ZifyBool ZifyN.
Import ListNotations.
From LunaLib Require Import Netlist Bits Machine.
From LunaModel Require Import I2cInit.
Open Scope N_scope.
