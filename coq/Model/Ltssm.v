(* C41 -- hand model of luna/gateware/usb/usb3/link/ltssm.py: LTSSMController, and its specification.

   Parameters (lt_cfg): T12, T2, T360 = the 12 ms / 2 ms / 360 ms timeouts in ss clock cycles
   (ceil(t * f)), cw = width of the time-in-state counter (Signal(range(T360 + 1))), loosen =
   loosen_requirements.  One list element = one ss clock cycle.

   The model is code-shaped: Amaranth's "the last assignment wins" is rendered by folding the statements of
   the active FSM state, in program order, over the next-state record (`goto` = transition_to_state: clears
   the time-in-state counter and request_hot_reset, applies the tasks_on_entry of the target and sets m.next).

   WARM RESET.  The model gives in_usb_reset PRIORITY over every other transition of every state (`warm` is the
   last statement of every state: next state Rx.Detect.Reset, counter and request_hot_reset cleared).  /repo's
   code calls handle_warm_resets() FIRST in each state, so that any later transition of the same cycle overrides
   it, and does not call it at all in Rx.Detect.Active, Rx.Detect.Quiet and Polling.LFPS: the unchanged tree
   violates C41 (findings/C41-*.json); the model corresponds to the code with
   findings/C41-warm-reset-priority.diff applied (reset handled once, after the FSM).

   Input word:  [0] in_usb_reset [1] trigger_link_recovery [2] phy_ready [3] disable_scrambling
     [4] link_partner_detected [5] no_link_partner_detected [6] lfps_polling_detected [7] ts1_detected
     [8] inverted_ts1_detected [9] ts2_detected [10] hot_reset_requested [11] loopback_requested
     [12] no_scrambling_requested [13] ts_burst_complete [14] idle_handshake_complete [15..30] lfps_cycles_sent
   Output word: [0] link_ready [1] entering_u0 [2] enable_scrambling [3] tx_electrical_idle
     [4] engage_terminations [5] invert_rx_polarity [6] train_equalizer [7] perform_rx_detection
     [8] send_lfps_polling [9] send_tseq_burst [10] send_ts1_burst [11] send_ts2_burst [12] request_hot_reset
     [13] request_no_scrambling [14] perform_idle_handshake [15] act_as_loopback [16] emit_compliance_pattern *)
From Coq Require Import NArith List Bool.
Import ListNotations.
From LunaLib Require Import Netlist Machine.
Open Scope N_scope.

Record lt_cfg := { T12 : N; T2 : N; T360 : N; cw : N; loosen : bool }.

Inductive lt_fsm :=
  | RxDetReset | RxDetActive | RxDetQuiet | PollLFPS | PollRxEQ | PollActive | PollConfig | PollConfigExit
  | PollIdle | U0 | HotResetActive | HotResetExit | RecActive | RecConfig | RecConfigExit | RecIdle
  | Compliance | Loopback | InactQuiet | InactDetect | DisDefault | DisError.

Definition fsm_code (f : lt_fsm) : N :=
  match f with
  | RxDetReset => 0 | RxDetActive => 1 | RxDetQuiet => 2 | PollLFPS => 3 | PollRxEQ => 4 | PollActive => 5
  | PollConfig => 6 | PollConfigExit => 7 | PollIdle => 8 | U0 => 9 | HotResetActive => 10 | HotResetExit => 11
  | RecActive => 12 | RecConfig => 13 | RecConfigExit => 14 | RecIdle => 15 | Compliance => 16 | Loopback => 17
  | InactQuiet => 18 | InactDetect => 19 | DisDefault => 20 | DisError => 21
  end.
Definition fsm_of_code (n : N) : lt_fsm :=
  match n with
  | 0 => RxDetReset | 1 => RxDetActive | 2 => RxDetQuiet | 3 => PollLFPS | 4 => PollRxEQ | 5 => PollActive
  | 6 => PollConfig | 7 => PollConfigExit | 8 => PollIdle | 9 => U0 | 10 => HotResetActive | 11 => HotResetExit
  | 12 => RecActive | 13 => RecConfig | 14 => RecConfigExit | 15 => RecIdle | 16 => Compliance | 17 => Loopback
  | 18 => InactQuiet | 19 => InactDetect | 20 => DisDefault | _ => DisError
  end.
Definition fsm_eqb (a b : lt_fsm) : bool := fsm_code a =? fsm_code b.

Record lt_in := {
  i_reset : bool; i_recov : bool; i_phy : bool; i_disscr : bool; i_partner : bool; i_nopartner : bool;
  i_lfps : bool; i_ts1 : bool; i_its1 : bool; i_ts2 : bool; i_hotreq : bool; i_loopreq : bool;
  i_noscr : bool; i_burst : bool; i_idle : bool; i_sent : N }.

Definition lt_decode_in (w : N) : lt_in :=
  {| i_reset := N.testbit w 0; i_recov := N.testbit w 1; i_phy := N.testbit w 2; i_disscr := N.testbit w 3;
     i_partner := N.testbit w 4; i_nopartner := N.testbit w 5; i_lfps := N.testbit w 6; i_ts1 := N.testbit w 7;
     i_its1 := N.testbit w 8; i_ts2 := N.testbit w 9; i_hotreq := N.testbit w 10; i_loopreq := N.testbit w 11;
     i_noscr := N.testbit w 12; i_burst := N.testbit w 13; i_idle := N.testbit w 14; i_sent := bits w 15 16 |}.

Record lt_out := {
  o_ready : bool; o_entering : bool; o_scr : bool; o_txidle : bool; o_term : bool; o_invpol : bool;
  o_traineq : bool; o_rxdet : bool; o_poll : bool; o_tseq : bool; o_ts1 : bool; o_ts2 : bool;
  o_reqhot : bool; o_reqnoscr : bool; o_idlehs : bool; o_loop : bool; o_compl : bool }.

Definition pk (m a r : N) : N := a + m * r.
Definition lt_encode_out (o : lt_out) : N :=
  pk 2 (b2n (o_ready o)) (pk 2 (b2n (o_entering o)) (pk 2 (b2n (o_scr o)) (pk 2 (b2n (o_txidle o))
  (pk 2 (b2n (o_term o)) (pk 2 (b2n (o_invpol o)) (pk 2 (b2n (o_traineq o)) (pk 2 (b2n (o_rxdet o))
  (pk 2 (b2n (o_poll o)) (pk 2 (b2n (o_tseq o)) (pk 2 (b2n (o_ts1 o)) (pk 2 (b2n (o_ts2 o))
  (pk 2 (b2n (o_reqhot o)) (pk 2 (b2n (o_reqnoscr o)) (pk 2 (b2n (o_idlehs o)) (pk 2 (b2n (o_loop o))
  (b2n (o_compl o))))))))))))))))).

Definition lt_decode_out (w : N) : lt_out :=
  let w1 := w / 2 in let w2 := w1 / 2 in let w3 := w2 / 2 in let w4 := w3 / 2 in let w5 := w4 / 2 in
  let w6 := w5 / 2 in let w7 := w6 / 2 in let w8 := w7 / 2 in let w9 := w8 / 2 in let w10 := w9 / 2 in
  let w11 := w10 / 2 in let w12 := w11 / 2 in let w13 := w12 / 2 in let w14 := w13 / 2 in let w15 := w14 / 2 in
  let w16 := w15 / 2 in
  {| o_ready := w mod 2 =? 1; o_entering := w1 mod 2 =? 1; o_scr := w2 mod 2 =? 1; o_txidle := w3 mod 2 =? 1;
     o_term := w4 mod 2 =? 1; o_invpol := w5 mod 2 =? 1; o_traineq := w6 mod 2 =? 1; o_rxdet := w7 mod 2 =? 1;
     o_poll := w8 mod 2 =? 1; o_tseq := w9 mod 2 =? 1; o_ts1 := w10 mod 2 =? 1; o_ts2 := w11 mod 2 =? 1;
     o_reqhot := w12 mod 2 =? 1; o_reqnoscr := w13 mod 2 =? 1; o_idlehs := w14 mod 2 =? 1;
     o_loop := w15 mod 2 =? 1; o_compl := w16 mod 2 =? 1 |}.

(* registers *)
Record lt_state := {
  st : lt_fsm; cyc : N;
  polling_seen : bool; ts2_seen : bool; hot_seen : bool; loop_seen : bool; noscr_seen : bool; burst_met : bool;
  lfps_seen : bool; target : N; inv_pol : bool; req_hot : bool; req_noscr : bool }.

Definition lt_init : lt_state :=
  {| st := RxDetReset; cyc := 0; polling_seen := false; ts2_seen := false; hot_seen := false; loop_seen := false;
     noscr_seen := false; burst_met := false; lfps_seen := false; target := 0; inv_pol := false;
     req_hot := false; req_noscr := false |}.

Section Model.
  Variable c : lt_cfg.

  (* transition_to_state(s) with the tasks_on_entry of s, applied to the next-state record x *)
  Definition goto (s : lt_fsm) (i : lt_in) (x : lt_state) : lt_state :=
    match s with
    | PollLFPS =>
        {| st := s; cyc := 0; polling_seen := polling_seen x; ts2_seen := ts2_seen x; hot_seen := hot_seen x;
           loop_seen := loop_seen x; noscr_seen := noscr_seen x; burst_met := burst_met x;
           lfps_seen := false; target := 16; inv_pol := inv_pol x; req_hot := false; req_noscr := req_noscr x |}
    | PollActive | RecActive =>
        {| st := s; cyc := 0; polling_seen := polling_seen x; ts2_seen := false; hot_seen := false;
           loop_seen := false; noscr_seen := false; burst_met := false;
           lfps_seen := lfps_seen x; target := target x; inv_pol := inv_pol x; req_hot := false;
           req_noscr := i_disscr i |}
    | PollRxEQ =>
        {| st := s; cyc := 0; polling_seen := polling_seen x; ts2_seen := false; hot_seen := false;
           loop_seen := loop_seen x; noscr_seen := false; burst_met := burst_met x;
           lfps_seen := lfps_seen x; target := target x; inv_pol := inv_pol x; req_hot := false;
           req_noscr := i_disscr i |}
    | HotResetActive =>
        {| st := s; cyc := 0; polling_seen := polling_seen x; ts2_seen := false; hot_seen := hot_seen x;
           loop_seen := loop_seen x; noscr_seen := noscr_seen x; burst_met := burst_met x;
           lfps_seen := lfps_seen x; target := target x; inv_pol := inv_pol x; req_hot := true;
           req_noscr := req_noscr x |}
    | _ =>
        {| st := s; cyc := 0; polling_seen := polling_seen x; ts2_seen := ts2_seen x; hot_seen := hot_seen x;
           loop_seen := loop_seen x; noscr_seen := noscr_seen x; burst_met := burst_met x;
           lfps_seen := lfps_seen x; target := target x; inv_pol := inv_pol x; req_hot := false;
           req_noscr := req_noscr x |}
    end.

  Definition on (b : bool) (f : lt_state -> lt_state) (x : lt_state) : lt_state := if b then f x else x.

  Definition set_inv (v : bool) (x : lt_state) : lt_state :=
    {| st := st x; cyc := cyc x; polling_seen := polling_seen x; ts2_seen := ts2_seen x; hot_seen := hot_seen x;
       loop_seen := loop_seen x; noscr_seen := noscr_seen x; burst_met := burst_met x; lfps_seen := lfps_seen x;
       target := target x; inv_pol := v; req_hot := req_hot x; req_noscr := req_noscr x |}.
  Definition clr_hot (x : lt_state) : lt_state :=
    {| st := st x; cyc := cyc x; polling_seen := polling_seen x; ts2_seen := ts2_seen x; hot_seen := hot_seen x;
       loop_seen := loop_seen x; noscr_seen := noscr_seen x; burst_met := burst_met x; lfps_seen := lfps_seen x;
       target := target x; inv_pol := inv_pol x; req_hot := false; req_noscr := req_noscr x |}.
  Definition set_lfps (tgt : option N) (x : lt_state) : lt_state :=
    {| st := st x; cyc := cyc x; polling_seen := polling_seen x; ts2_seen := ts2_seen x; hot_seen := hot_seen x;
       loop_seen := loop_seen x; noscr_seen := noscr_seen x; burst_met := burst_met x; lfps_seen := true;
       target := match tgt with Some t => t | None => target x end;
       inv_pol := inv_pol x; req_hot := req_hot x; req_noscr := req_noscr x |}.

  (* statements outside the FSM: the counter counts, the asynchronous "seen" flags accumulate *)
  Definition base (s : lt_state) (i : lt_in) : lt_state :=
    {| st := st s; cyc := (cyc s + 1) mod 2 ^ cw c;
       polling_seen := polling_seen s || i_lfps i; ts2_seen := ts2_seen s || i_ts2 i;
       hot_seen := hot_seen s || i_hotreq i; loop_seen := loop_seen s || i_loopreq i;
       noscr_seen := noscr_seen s || i_noscr i; burst_met := burst_met s || i_burst i;
       lfps_seen := lfps_seen s; target := target s; inv_pol := inv_pol s; req_hot := req_hot s;
       req_noscr := req_noscr s |}.

  Definition timeout (s : lt_state) (T : N) (to : lt_fsm) (i : lt_in) : lt_state -> lt_state :=
    on (cyc s =? T) (goto to i).
  (* warm reset: last statement of the state, so that it wins *)
  Definition warm (i : lt_in) : lt_state -> lt_state := on (i_reset i) (goto RxDetReset i).

  (* body of Polling.Idle / Recovery.Idle *)
  Definition idle_exit (s : lt_state) (i : lt_in) (x : lt_state) : lt_state :=
    if hot_seen s then goto HotResetActive i x
    else if loop_seen s then goto Loopback i x
    else if i_idle i then goto U0 i x else x.

  Definition lt_next (s : lt_state) (i : lt_in) : lt_state :=
    let x := base s i in
    match st s with
    | RxDetReset => warm i (on (negb (i_reset i) && i_phy i) (goto RxDetActive i) x)
    | RxDetActive =>
        warm i (on (i_nopartner i) (goto RxDetQuiet i) (on (i_partner i) (goto PollLFPS i) x))
    | RxDetQuiet => warm i (timeout s (T12 c) RxDetActive i x)
    | PollLFPS =>
        let x :=
          if target s <=? i_sent i then
            let x := on (loosen c && i_ts1 i) (goto PollRxEQ i) x in
            let x := on (i_lfps i && negb (lfps_seen s)) (set_lfps (Some ((i_sent i + 4) mod 65536))) x in
            on (lfps_seen s) (goto PollRxEQ i) x
          else
            on (i_lfps i && negb (lfps_seen s))
               (set_lfps (if 12 <? i_sent i then Some ((i_sent i + 4) mod 65536) else None)) x in
        warm i (timeout s (T360 c) (if polling_seen s then DisDefault else Compliance) i x)
    | PollRxEQ => warm i (on (i_burst i) (goto PollActive i) x)
    | PollActive =>
        let x := timeout s (T12 c) RxDetActive i x in
        let x := on (burst_met s && (i_ts1 i || i_ts2 i)) (fun x => goto PollConfig i (set_inv false x)) x in
        let x := on (burst_met s && i_its1 i) (fun x => goto PollConfig i (set_inv true x)) x in
        warm i x
    | PollConfig =>
        warm i (on (i_burst i && ts2_seen s) (goto PollConfigExit i) (timeout s (T12 c) RxDetActive i x))
    | PollConfigExit => warm i (on (i_burst i) (goto PollIdle i) x)
    | PollIdle => warm i (timeout s (T2 c) RxDetReset i (idle_exit s i x))
    | U0 => warm i (on (i_ts1 i) (goto RecActive i) (on (i_recov i) (goto RecActive i) x))
    | HotResetActive =>
        let x := timeout s (T12 c) InactQuiet i x in
        let x := on (i_burst i) clr_hot x in
        warm i (on (i_burst i && ts2_seen s && negb (i_hotreq i)) (goto HotResetExit i) x)
    | HotResetExit => warm i (timeout s (T2 c) InactQuiet i (on (i_idle i) (goto U0 i) x))
    | RecActive =>
        warm i (on (burst_met s && (i_ts1 i || i_ts2 i)) (goto RecConfig i) (timeout s (T12 c) InactQuiet i x))
    | RecConfig =>
        warm i (on (i_burst i && ts2_seen s) (goto RecConfigExit i) (timeout s (T12 c) InactQuiet i x))
    | RecConfigExit => warm i (on (i_burst i) (goto RecIdle i) x)
    | RecIdle => warm i (timeout s (T2 c) InactQuiet i (idle_exit s i x))
    | Compliance => warm i (goto RxDetReset i x)
    | Loopback => warm i x
    | InactQuiet => warm i (timeout s (T12 c) InactDetect i x)
    | InactDetect =>
        warm i (on (i_nopartner i) (goto RxDetQuiet i) (on (i_partner i) (goto InactQuiet i) x))
    | DisDefault => warm i x
    | DisError => warm i x
    end.

  Definition scr_on (s : lt_state) : bool := negb (req_noscr s) && negb (noscr_seen s).

  Definition lt_outputs (s : lt_state) (i : lt_in) : lt_out :=
    let is x := fsm_eqb (st s) x in
    let idling := is PollIdle || is HotResetExit || is RecIdle in
    {| o_ready := is U0;
       o_entering := ((is PollIdle || is RecIdle) && negb (hot_seen s) && negb (loop_seen s) && i_idle i)
                     || (is HotResetExit && i_idle i);
       o_scr := (idling || is U0) && scr_on s;
       o_txidle := is RxDetReset || is RxDetActive || is RxDetQuiet || is PollLFPS || is InactQuiet
                   || is InactDetect || is DisDefault || is DisError;
       o_term := negb (is RxDetReset || is DisDefault || is DisError);
       o_invpol := inv_pol s;
       o_traineq := is PollRxEQ;
       o_rxdet := is RxDetActive || is InactDetect;
       o_poll := is PollLFPS;
       o_tseq := is PollRxEQ;
       o_ts1 := is PollActive || is RecActive;
       o_ts2 := is PollConfig || is PollConfigExit || is HotResetActive || is RecConfig || is RecConfigExit;
       o_reqhot := req_hot s;
       o_reqnoscr := req_noscr s;
       o_idlehs := idling;
       o_loop := is Loopback;
       o_compl := false |}.

  (* typed step, and the packed step used by the tie *)
  Definition lt_stepT (s : lt_state) (i : lt_in) : lt_state * lt_out := (lt_next s i, lt_outputs s i).
  Definition lt_step (s : lt_state) (w : N) : lt_state * N :=
    let i := lt_decode_in w in (lt_next s i, lt_encode_out (lt_outputs s i)).
End Model.

(* ------------------------------------------------------------------------------------------ *)
(* SPECIFICATION: a ghost-history monitor over the inputs and outputs of each cycle.  It never looks at the
   FSM; the phase of the LTSSM is read off what it transmits / requests in that cycle.

   Since the last cycle with in_usb_reset (a reset clears all of this):
     det  a partner was detected while receiver detection was being performed
     pol  then, while sending polling LFPS, polling LFPS was received (or TS1, when loosened)
     t1x  then, while sending TS1, TS1/TS2 (or inverted TS1) were received                 } the TS1/TS2
     t2x  then a burst of TS2 was completed after TS2 had been received                    } exchange
   Since the last training entry (first cycle of sending TS1 = entry to Polling.Active / Recovery.Active, or
   first cycle of request_hot_reset = entry to Hot Reset.Active):
     ts2s TS2 was received;  c2x  a burst of TS2 was completed after that (TS2 exchange);
     idl  then the idle handshake completed while it was being performed;
     gl   disable_scrambling as sampled at the entry (local request), gp  no_scrambling_requested was received.
   Run lengths (consecutive cycles up to now): n1 sending TS1, ni performing the idle handshake, np sending
   polling LFPS, nq quiet (electrical idle, terminated, neither detecting nor polling).

   Verdict of a cycle (gh_ok):
     V1  link_ready -> det, pol, t1x, t2x, c2x, idl
     V2  in_usb_reset in the previous cycle -> not link_ready
     V3  n1 <= T12+1, ni <= T2+1, np <= T360+1, nq <= T12+1      (a state entered in cycle t and timed with T
                                                                  cycles is occupied during cycles t .. t+T at most)
     V4  link_ready -> enable_scrambling = not gl and not gp                                              *)
Record gh := {
  g_det : bool; g_pol : bool; g_t1x : bool; g_t2x : bool; g_ts2s : bool; g_c2x : bool; g_idl : bool;
  g_pts1 : bool; g_phot : bool; g_preset : bool; g_pdis : bool; g_gl : bool; g_gp : bool;
  g_n1 : N; g_ni : N; g_nq : N; g_np : N }.

Definition gh_init : gh :=
  {| g_det := false; g_pol := false; g_t1x := false; g_t2x := false; g_ts2s := false; g_c2x := false;
     g_idl := false; g_pts1 := false; g_phot := false; g_preset := false; g_pdis := false; g_gl := false;
     g_gp := false; g_n1 := 0; g_ni := 0; g_nq := 0; g_np := 0 |}.

Section Spec.
  Variable c : lt_cfg.

  Definition quiet_out (o : lt_out) : bool := o_txidle o && o_term o && negb (o_rxdet o) && negb (o_poll o).

  Definition gh_next (g : gh) (i : lt_in) (o : lt_out) : gh :=
    let ts1entry := o_ts1 o && negb (g_pts1 g) in
    let entry := ts1entry || (o_reqhot o && negb (g_phot g)) in
    let live := negb (i_reset i) in
    let ts2s0 := negb entry && g_ts2s g in
    let c2x0 := negb entry && g_c2x g in
    let idl0 := negb entry && g_idl g in
    let c2ev := o_ts2 o && i_burst i && ts2s0 in
    {| g_det := live && (g_det g || (o_rxdet o && i_partner i));
       g_pol := live && (g_pol g || (g_det g && o_poll o && (i_lfps i || (loosen c && i_ts1 i))));
       g_t1x := live && (g_t1x g || (g_pol g && o_ts1 o && (i_ts1 i || i_ts2 i || i_its1 i)));
       g_t2x := live && (g_t2x g || (g_t1x g && c2ev));
       g_ts2s := live && (ts2s0 || i_ts2 i);
       g_c2x := live && (c2x0 || c2ev);
       g_idl := live && (idl0 || (c2x0 && o_idlehs o && i_idle i));
       g_pts1 := o_ts1 o; g_phot := o_reqhot o; g_preset := i_reset i; g_pdis := i_disscr i;
       g_gl := (ts1entry && g_pdis g) || (negb ts1entry && g_gl g);
       g_gp := (negb ts1entry && g_gp g) || i_noscr i;
       g_n1 := if o_ts1 o then g_n1 g + 1 else 0;
       g_ni := if o_idlehs o then g_ni g + 1 else 0;
       g_nq := if quiet_out o then g_nq g + 1 else 0;
       g_np := if o_poll o then g_np g + 1 else 0 |}.

  Definition gh_ok (g : gh) (i : lt_in) (o : lt_out) : bool :=
    let g' := gh_next g i o in
    implb (o_ready o) (g_det g && g_pol g && g_t1x g && g_t2x g && g_c2x g && g_idl g)
    && implb (g_preset g) (negb (o_ready o))
    && (g_n1 g' <=? T12 c + 1) && (g_ni g' <=? T2 c + 1) && (g_np g' <=? T360 c + 1) && (g_nq g' <=? T12 c + 1)
    && implb (o_ready o) (Bool.eqb (o_scr o) (negb (g_gl g) && negb (g_gp g))).

  (* the monitor accepts a typed trace of (inputs, outputs) *)
  Fixpoint gh_accepts (g : gh) (ios : list (lt_in * lt_out)) : bool :=
    match ios with
    | [] => true
    | (i, o) :: t => gh_ok g i o && gh_accepts (gh_next g i o) t
    end.

  (* ... and a trace of input words / output words *)
  Fixpoint gh_accepts_w (g : gh) (ins outs : list N) : bool :=
    match ins, outs with
    | i :: ti, o :: to =>
        gh_ok g (lt_decode_in i) (lt_decode_out o) && gh_accepts_w (gh_next g (lt_decode_in i) (lt_decode_out o)) ti to
    | _, _ => true
    end.

  (* typed trace of the model *)
  Fixpoint lt_trace (s : lt_state) (ins : list lt_in) : list (lt_in * lt_out) :=
    match ins with
    | [] => []
    | i :: t => (i, lt_outputs s i) :: lt_trace (lt_next c s i) t
    end.

  (* the monitor packed into N (runtime oracle / reachability monitor over the real module) *)
  Definition gh_enc (g : gh) : N :=
    pk 2 (b2n (g_det g)) (pk 2 (b2n (g_pol g)) (pk 2 (b2n (g_t1x g)) (pk 2 (b2n (g_t2x g)) (pk 2 (b2n (g_ts2s g))
    (pk 2 (b2n (g_c2x g)) (pk 2 (b2n (g_idl g)) (pk 2 (b2n (g_pts1 g)) (pk 2 (b2n (g_phot g))
    (pk 2 (b2n (g_preset g)) (pk 2 (b2n (g_pdis g)) (pk 2 (b2n (g_gl g)) (pk 2 (b2n (g_gp g))
    (pk 4294967296 (g_n1 g) (pk 4294967296 (g_ni g) (pk 4294967296 (g_nq g) (g_np g)))))))))))))))).
  Definition gh_dec (m : N) : gh :=
    let m1 := m / 2 in let m2 := m1 / 2 in let m3 := m2 / 2 in let m4 := m3 / 2 in let m5 := m4 / 2 in
    let m6 := m5 / 2 in let m7 := m6 / 2 in let m8 := m7 / 2 in let m9 := m8 / 2 in let m10 := m9 / 2 in
    let m11 := m10 / 2 in let m12 := m11 / 2 in let m13 := m12 / 2 in
    let m14 := m13 / 4294967296 in let m15 := m14 / 4294967296 in let m16 := m15 / 4294967296 in
    {| g_det := m mod 2 =? 1; g_pol := m1 mod 2 =? 1; g_t1x := m2 mod 2 =? 1; g_t2x := m3 mod 2 =? 1;
       g_ts2s := m4 mod 2 =? 1; g_c2x := m5 mod 2 =? 1; g_idl := m6 mod 2 =? 1; g_pts1 := m7 mod 2 =? 1;
       g_phot := m8 mod 2 =? 1; g_preset := m9 mod 2 =? 1; g_pdis := m10 mod 2 =? 1; g_gl := m11 mod 2 =? 1;
       g_gp := m12 mod 2 =? 1; g_n1 := m13 mod 4294967296; g_ni := m14 mod 4294967296;
       g_nq := m15 mod 4294967296; g_np := m16 |}.
  Definition gh_mon (m i o : N) : option (N * bool) :=
    let g := gh_dec m in let ii := lt_decode_in i in let oo := lt_decode_out o in
    Some (gh_enc (gh_next g ii oo), gh_ok g ii oo).
End Spec.

(* ------------------------------------------------------------------------------------------ *)
(* Time-outs at the level of FSM states (the TS2 phases are not distinguishable from outside) *)
Definition st_timeout (c : lt_cfg) (f : lt_fsm) : option N :=
  match f with
  | RxDetQuiet | PollActive | PollConfig | HotResetActive | RecActive | RecConfig | InactQuiet => Some (T12 c)
  | PollIdle | HotResetExit | RecIdle => Some (T2 c)
  | PollLFPS => Some (T360 c)
  | _ => None
  end.
(* state after a typed input history *)
Fixpoint lt_run (c : lt_cfg) (s : lt_state) (ins : list lt_in) : lt_state :=
  match ins with [] => s | i :: t => lt_run c (lt_next c s i) t end.

(* ------------------------------------------------------------------------------------------ *)
(* packing of the model state for the lock-step tie *)
Definition lt_enc (s : lt_state) : N :=
  pk 2 (b2n (polling_seen s)) (pk 2 (b2n (ts2_seen s)) (pk 2 (b2n (hot_seen s)) (pk 2 (b2n (loop_seen s))
  (pk 2 (b2n (noscr_seen s)) (pk 2 (b2n (burst_met s)) (pk 2 (b2n (lfps_seen s)) (pk 2 (b2n (inv_pol s))
  (pk 2 (b2n (req_hot s)) (pk 2 (b2n (req_noscr s)) (pk 32 (fsm_code (st s)) (pk 65536 (target s) (cyc s)))))))))))).
Definition lt_dec (m : N) : lt_state :=
  let m1 := m / 2 in let m2 := m1 / 2 in let m3 := m2 / 2 in let m4 := m3 / 2 in let m5 := m4 / 2 in
  let m6 := m5 / 2 in let m7 := m6 / 2 in let m8 := m7 / 2 in let m9 := m8 / 2 in let m10 := m9 / 2 in
  let m11 := m10 / 32 in
  {| polling_seen := m mod 2 =? 1; ts2_seen := m1 mod 2 =? 1; hot_seen := m2 mod 2 =? 1; loop_seen := m3 mod 2 =? 1;
     noscr_seen := m4 mod 2 =? 1; burst_met := m5 mod 2 =? 1; lfps_seen := m6 mod 2 =? 1; inv_pol := m7 mod 2 =? 1;
     req_hot := m8 mod 2 =? 1; req_noscr := m9 mod 2 =? 1; st := fsm_of_code (m10 mod 32);
     target := m11 mod 65536; cyc := m11 / 65536 |}.
Definition lt_wf (s : lt_state) : Prop := target s < 65536.

(* ------------------------------------------------------------------------------------------ *)
(* Input alphabet of the R tie: every event alone, every event together with a warm reset, the values of
   lfps_cycles_sent around the thresholds of Polling.LFPS (12, 16, target) alone and with the events read
   there, and the pairs of events that the FSM reads in the same cycle. *)
Definition ev (k : N) : N := 2 ^ k.
Definition sentw (n : N) : N := n * 2 ^ 15.
Definition lt_alpha_core : list N :=
  [0] ++ map ev [0;1;2;4;5;6;7;9;13;14]
  ++ map (fun e => e + ev 0) (map ev [1;2;4;6;7;13;14])
  ++ flat_map (fun n => [sentw n; sentw n + ev 6; sentw n + ev 7]) [13; 16; 20].
(* the optional paths, in two alphabets: hot reset + loopback; scrambling requests + inverted polarity + recovery *)
Definition lt_alpha_opt_a : list N :=
  [0; ev 0; ev 2; ev 4; sentw 16 + ev 6; sentw 20; ev 13; ev 7; ev 9; ev 14; ev 10; ev 11; ev 13 + ev 10; ev 13 + ev 9;
   ev 14 + ev 0].
Definition lt_alpha_opt_b : list N :=
  [0; ev 0; ev 2; ev 4; sentw 16 + ev 6; sentw 20; ev 13; ev 7; ev 9; ev 14; ev 12; ev 8; ev 3 + ev 13; ev 3 + ev 7; ev 1;
   ev 13 + ev 0].
(* a small alphabet for the quick tier: the training path, recovery, and a warm reset alone / coinciding with
   the events that the unpatched code lets override it *)
Definition lt_alpha_small : list N :=
  [0; ev 2; ev 4; ev 5; sentw 16 + ev 6; sentw 20; ev 13; ev 7; ev 9; ev 14; ev 1;
   ev 0; ev 0 + ev 14; ev 0 + ev 13; ev 0 + ev 7; ev 0 + ev 4].
