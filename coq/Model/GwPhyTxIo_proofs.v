(* C25 -- the usb_io half of the transmit path (synchronisers, strobe counter, NRZI encoder) and the complete
   two-clock transmit machine: every packet of a UTMI transmit session appears on D+/D- as
   SYNC, the NRZI-encoded bit-stuffed bytes and SE0 SE0 J, four usb_io cycles per symbol. *)
From Coq Require Import NArith ZArith List Bool Lia Arith ZifyBool ZifyN.
Import ListNotations.
From LunaLib Require Import Netlist Machine.
From LunaModel Require Import GwPhyCodec GwPhyCodec_proofs GwPhy GwPhyTxU_proofs.
Open Scope N_scope.
Ltac Zify.zify_post_hook ::= Z.div_mod_to_equations.

(* ================================================================================================ *)
(* 1. usb_io half: one bit time (four steps) from an aligned state                                   *)
(* ================================================================================================ *)
Definition io_regs (c : txio) : bool * bool * bool := (c_p c, c_n c, c_oe c).

Lemma io_macro : forall c d e, c_ctr c = 1 ->
  let c' := txio_next (txio_next (txio_next (txio_next c d e) d e) d e) d e in
  txio_run c [(d, e); (d, e); (d, e); (d, e)] = [io_regs c; nz_out (c_nz c); nz_out (c_nz c); nz_out (c_nz c)] /\
  c_ctr c' = 1 /\ c_nz c' = nz_next (c_nz c) true e d /\ io_regs c' = nz_out (c_nz c).
Proof.
  intros [d0 d1 d2 e0 e1 e2 q p n oe ct] d e H. cbn [c_ctr] in H. subst ct.
  unfold io_regs. destruct q; cbn; repeat split; reflexivity.
Qed.

Lemma txio_run_app : forall a b c,
  txio_run c (a ++ b) = txio_run c a ++ txio_run (fold_left (fun c f => txio_next c (fst f) (snd f)) a c) b.
Proof.
  induction a as [|[d e] a IH]; intros b c; [reflexivity|]. cbn [app txio_run fold_left fst snd]. rewrite IH. reflexivity.
Qed.

Lemma rep4_cons : forall A (x : A) l, rep4 (x :: l) = [x; x; x; x] ++ rep4 l.
Proof. reflexivity. Qed.
Lemma rep4_length : forall A (l : list A), length (rep4 l) = (4 * length l)%nat.
Proof. induction l as [|x l IH]; [reflexivity|]. rewrite rep4_cons, app_length, IH. cbn [length]. lia. Qed.
Lemma rep4_app : forall A (a b : list A), rep4 (a ++ b) = rep4 a ++ rep4 b.
Proof. intros. unfold rep4. apply flat_map_app. Qed.

(* from an aligned state: the registered outputs lag the encoder state by one step *)
Lemma io_aligned_run : forall F c, c_ctr c = 1 ->
  txio_run c (rep4 F) = firstn (4 * length F) (io_regs c :: rep4 (map nz_out (c_nz c :: nz_states (c_nz c) F))).
Proof.
  induction F as [|[d e] F IH]; intros c Hc; [reflexivity|].
  rewrite rep4_cons, txio_run_app.
  destruct (io_macro c d e Hc) as (R & C1 & C2 & C3). rewrite R.
  cbn [fold_left fst snd].
  rewrite (IH _ C1), C2, C3. cbn [nz_states map]. rewrite !rep4_cons.
  replace (4 * length ((d, e) :: F))%nat with (4 + 4 * length F)%nat by (cbn [length]; lia).
  cbn [app firstn]. reflexivity.
Qed.

(* from reset: step 0 carries the fit value of usb cycle 0, which never reaches the encoder *)
Lemma txio_run_line : forall f0 F,
  txio_run txio_init (f0 :: rep4 F) =
  firstn (1 + 4 * length F) ((false, false, false) :: nz_out NzIdle :: rep4 (map nz_out (NzIdle :: nz_states NzIdle F))).
Proof.
  intros [d0 e0] F. cbn [txio_run]. cbn [firstn Nat.add]. f_equal.
  set (c1 := txio_next txio_init d0 e0).
  assert (H1 : c_ctr c1 = 1) by reflexivity.
  rewrite (io_aligned_run F c1 H1). reflexivity.
Qed.

(* ================================================================================================ *)
(* 2. the two-clock machine = usb half at cycle granularity + usb_io half at step granularity        *)
(* ================================================================================================ *)
Lemma bits_div_mod : forall x lo w, bits x lo w = (x / 2 ^ lo) mod 2 ^ w.
Proof. intros. unfold bits. rewrite N.shiftr_div_pow2, N.land_ones. reflexivity. Qed.

Lemma tx_word_fields : forall d v m t,
  let w := tx_word d v m t in
  bits w 0 8 = d mod 256 /\ bits w 8 1 = b2n v /\ bits w 9 2 = m mod 4 /\ bits w 11 1 = 1 /\ bits w 12 1 = b2n t.
Proof.
  intros d v m t w. subst w. unfold tx_word. rewrite !bits_div_mod.
  change (2 ^ 0) with 1. change (2 ^ 8) with 256. change (2 ^ 1) with 2. change (2 ^ 9) with 512. change (2 ^ 2) with 4.
  change (2 ^ 11) with 2048. change (2 ^ 12) with 4096.
  assert (Hd : d mod 256 < 256) by (apply N.mod_lt; discriminate).
  assert (Hm : m mod 4 < 4) by (apply N.mod_lt; discriminate).
  set (d' := d mod 256) in *. set (m' := m mod 4) in *.
  destruct v, t; unfold b2n; repeat split; lia.
Qed.

Lemma txu_next_mod : forall u d oe, txu_next 8 u (d mod 256) oe = txu_next 8 u d oe.
Proof.
  intros. unfold txu_next, txsh_next. change (2 ^ 8) with 256. rewrite N.mod_mod by discriminate. reflexivity.
Qed.

Lemma tx_obs : forall p n oe r, tx_line_of (tx_out p n oe r) = (p, n, oe) /\ tx_ready_of (tx_out p n oe r) = r.
Proof. intros. destruct p, n, oe, r; split; reflexivity. Qed.

Definition mkX (u : txu) (c : txio) : txs := {| x_u := u; x_io := c |}.

Lemma tx_step_normal : forall u c d v t,
  tx_step 8 (mkX u c) (tx_word d v 0 t) =
  (mkX (if t then txu_next 8 u d v else u) (txio_next c (u_fit_dat u) (u_fit_oe u)),
   tx_out (c_p c) (c_n c) (c_oe c) (u_ready u v)).
Proof.
  intros. destruct (tx_word_fields d v 0 t) as (F1 & F2 & F3 & F4 & F5). unfold tx_step, mkX. cbn [x_u x_io].
  rewrite F1, F2, F3, F4, F5. change (0 mod 4) with 0. change (N.eqb 0 0) with true. cbv iota.
  unfold nb. change (N.eqb 1 0) with false. cbn [negb andb].
  destruct v, t; cbn [b2n N.eqb negb]; rewrite ?txu_next_mod; reflexivity.
Qed.

(* fit values / tx_ready of the usb half along an open-loop input history, one entry per usb cycle *)
Fixpoint ufits (u : txu) (U : list (N * bool)) : list (bool * bool) :=
  match U with
  | [] => []
  | dv :: t => (u_fit_dat u, u_fit_oe u) :: ufits (txu_next 8 u (fst dv) (snd dv)) t
  end.
Fixpoint urdys (u : txu) (U : list (N * bool)) : list bool :=
  match U with
  | [] => []
  | dv :: t => u_ready u (snd dv) :: urdys (txu_next 8 u (fst dv) (snd dv)) t
  end.

Lemma tx_run_cycles : forall U u c,
  map tx_line_of (run (tx_step 8) (mkX u c) (flat_map (tx_words4 0) U)) = txio_run c (rep4 (ufits u U)) /\
  map tx_ready_of (run (tx_step 8) (mkX u c) (flat_map (tx_words4 0) U)) = rep4 (urdys u U).
Proof.
  induction U as [|[d v] U IH]; intros u c; [split; reflexivity|].
  cbn [flat_map ufits urdys fst snd]. rewrite !rep4_cons. unfold tx_words4 at 1 3. cbn [fst snd app].
  cbn [run]. rewrite !tx_step_normal. cbv iota. cbn [map txio_run].
  destruct (IH (txu_next 8 u d v)
              (txio_next (txio_next (txio_next (txio_next c (u_fit_dat u) (u_fit_oe u)) (u_fit_dat u) (u_fit_oe u))
                                    (u_fit_dat u) (u_fit_oe u)) (u_fit_dat u) (u_fit_oe u))) as [I1 I2].
  unfold mkX in *. rewrite I1, I2.
  repeat match goal with |- context [tx_line_of (tx_out ?p ?n ?oe ?r)] => rewrite (proj1 (tx_obs p n oe r)) end.
  repeat match goal with |- context [tx_ready_of (tx_out ?p ?n ?oe ?r)] => rewrite (proj2 (tx_obs p n oe r)) end.
  cbn [c_p c_n c_oe txio_next]. split; reflexivity.
Qed.

(* ================================================================================================ *)
(* 3. the NRZI encoder over the fit stream of one packet                                            *)
(* ================================================================================================ *)
Definition nz_of_sym (s : sym) : nzst := match s with SK => NzDK | _ => NzDJ end.

Lemma last_default : forall A (l : list A) x d1 d2, last (x :: l) d1 = last (x :: l) d2.
Proof. induction l as [|y l IH]; intros; [reflexivity|]. cbn [last] in *. apply IH. Qed.

Lemma nz_states_app : forall a b q,
  nz_states q (a ++ b) = nz_states q a ++ nz_states (last (nz_states q a) q) b.
Proof.
  induction a as [|[d e] a IH]; intros b q; [reflexivity|].
  cbn [app nz_states]. rewrite IH. cbn [app]. f_equal. f_equal.
  destruct (nz_states (nz_next q true e d) a) eqn:E; [reflexivity|].
  change (last (nz_next q true e d :: n :: l) q) with (last (n :: l) q). rewrite (last_default _ l n q (nz_next q true e d)). reflexivity.
Qed.

Lemma last_Forall : forall A (P : A -> Prop) l d, Forall P l -> P d -> P (last l d).
Proof. induction l as [|x l IH]; intros d HF Hd; [exact Hd|]. inversion HF; subst. destruct l; [assumption|]. apply IH; assumption. Qed.

Lemma nz_states_bits : forall bits p, p = SJ \/ p = SK ->
  nz_states (nz_of_sym p) (map (fun b => (b, true)) bits) = map nz_of_sym (nrzi p bits) /\
  (last (map nz_of_sym (nrzi p bits)) (nz_of_sym p) = NzDJ \/ last (map nz_of_sym (nrzi p bits)) (nz_of_sym p) = NzDK).
Proof.
  intros bits p Hp. split.
  - revert p Hp. induction bits as [|b bits IH]; intros p Hp; [reflexivity|].
    cbn [map nz_states nrzi].
    assert (Hn : nz_next (nz_of_sym p) true true b = nz_of_sym (if b then p else flip p)).
    { destruct Hp as [-> | ->]; destruct b; reflexivity. }
    assert (Hp' : (if b then p else flip p) = SJ \/ (if b then p else flip p) = SK).
    { destruct Hp as [-> | ->]; destruct b; cbn; auto. }
    rewrite Hn, (IH _ Hp'). reflexivity.
  - apply (last_Forall _ (fun q => q = NzDJ \/ q = NzDK)).
    + apply Forall_forall. intros q Hq. apply in_map_iff in Hq. destruct Hq as [s [<- _]]. destruct s; cbn; auto.
    + destruct p; cbn; auto.
Qed.

Lemma nz_out_of_sym : forall s, s = SJ \/ s = SK -> nz_out (nz_of_sym s) = sym_drive s.
Proof. intros s [-> | ->]; reflexivity. Qed.

Lemma nrzi_jk : forall bits p, p = SJ \/ p = SK -> Forall (fun s => s = SJ \/ s = SK) (nrzi p bits).
Proof.
  induction bits as [|b bits IH]; intros p Hp; [constructor|]. cbn [nrzi].
  assert (Hp' : (if b then p else flip p) = SJ \/ (if b then p else flip p) = SK)
    by (destruct Hp as [-> | ->]; destruct b; cbn; auto).
  constructor; [exact Hp' | apply IH; exact Hp'].
Qed.

Lemma map_repeat' : forall A B (f : A -> B) x k, map f (repeat x k) = repeat (f x) k.
Proof. induction k as [|k IH]; [reflexivity|]. cbn [repeat map]. rewrite IH. reflexivity. Qed.

Lemma last_app' : forall A (a b : list A) d, b <> [] -> last (a ++ b) d = last b d.
Proof.
  induction a as [|x a IH]; intros b d Hb; [reflexivity|]. cbn [app]. rewrite <- (IH b d Hb).
  destruct (a ++ b) eqn:E; [|reflexivity]. destruct a; [cbn in E; congruence | discriminate E].
Qed.

Definition nz_rest (q : nzst) : Prop := q = NzIdle \/ q = NzEOPJ.

Lemma repeat_idle_states : forall k q, nz_rest q -> nz_states q (repeat (false, false) k) = repeat NzIdle k.
Proof.
  induction k as [|k IH]; intros q Hq; [reflexivity|]. cbn [repeat nz_states].
  assert (E : nz_next q true false false = NzIdle) by (destruct Hq as [-> | ->]; reflexivity).
  rewrite E, IH by (left; reflexivity). reflexivity.
Qed.

Lemma last_repeat_idle : forall k q, nz_rest q -> nz_rest (last (repeat NzIdle k) q).
Proof.
  intros k q Hq. apply (last_Forall _ nz_rest); [|exact Hq].
  apply Forall_forall. intros x Hx. apply repeat_spec in Hx. subst. left. reflexivity.
Qed.

(* one packet: an idle strobe, the bits (the first of which is a 0, as in SYNC), then at least three idle strobes *)
Lemma nz_states_packet : forall bits k q0, nz_rest q0 ->
  let fits := (false, false) :: map (fun b => (b, true)) (false :: bits) ++ repeat (false, false) (3 + k) in
  map nz_out (nz_states q0 fits) =
    line_idle :: map sym_drive (nrzi SJ (false :: bits) ++ eop) ++ repeat line_idle k /\
  nz_rest (last (nz_states q0 fits) q0).
Proof.
  intros bits k q0 Hq0 fits. subst fits.
  destruct (nz_states_bits bits SK (or_intror eq_refl)) as [B1 B2].
  set (q := last (map nz_of_sym (nrzi SK bits)) (nz_of_sym SK)) in *.
  assert (Hq : nz_states q (repeat (false, false) (3 + k)) = NzSE0A :: NzSE0B :: NzEOPJ :: repeat NzIdle k).
  { cbn [Nat.add repeat nz_states].
    assert (E1 : nz_next q true false false = NzSE0A) by (destruct B2 as [-> | ->]; reflexivity). rewrite E1.
    change (nz_next NzSE0A true false false) with NzSE0B. change (nz_next NzSE0B true false false) with NzEOPJ.
    rewrite repeat_idle_states by (right; reflexivity). reflexivity. }
  assert (E : nz_states q0 ((false, false) :: map (fun b => (b, true)) (false :: bits) ++ repeat (false, false) (3 + k)) =
              NzIdle :: nz_of_sym SK :: (map nz_of_sym (nrzi SK bits) ++ NzSE0A :: NzSE0B :: NzEOPJ :: repeat NzIdle k)).
  { cbn [map app nz_states].
    assert (E0 : nz_next q0 true false false = NzIdle) by (destruct Hq0 as [-> | ->]; reflexivity). rewrite E0.
    change (nz_next NzIdle true true false) with (nz_of_sym SK). rewrite nz_states_app, B1. fold q. rewrite Hq. reflexivity. }
  rewrite E. clear E. split.
  - cbn [map nrzi flip app]. change (nz_out NzIdle) with line_idle. f_equal.
    change (nz_out (nz_of_sym SK)) with (sym_drive SK). f_equal.
    rewrite !map_app, map_map. cbn [map eop]. rewrite map_repeat'. change (nz_out NzIdle) with line_idle.
    rewrite <- app_assoc. cbn [app]. f_equal.
    apply map_ext_in. intros s Hs. apply nz_out_of_sym.
    pose proof (nrzi_jk bits SK (or_intror eq_refl)) as HF. rewrite Forall_forall in HF. apply HF. exact Hs.
  - replace (NzIdle :: nz_of_sym SK :: map nz_of_sym (nrzi SK bits) ++ NzSE0A :: NzSE0B :: NzEOPJ :: repeat NzIdle k)
      with ((NzIdle :: nz_of_sym SK :: map nz_of_sym (nrzi SK bits) ++ [NzSE0A; NzSE0B]) ++ NzEOPJ :: repeat NzIdle k)
      by (cbn [app]; rewrite <- app_assoc; reflexivity).
    rewrite last_app' by discriminate. cbn [last].
    destruct (repeat NzIdle k) eqn:Er; [right; reflexivity|]. rewrite <- Er.
    apply last_repeat_idle. exact Hq0.
Qed.

(* ================================================================================================ *)
(* 4. sessions                                                                                      *)
(* ================================================================================================ *)
Definition ustate (u : txu) (U : list (N * bool)) : txu := fold_left (fun u dv => txu_next 8 u (fst dv) (snd dv)) U u.

Lemma ufits_app : forall A B u, ufits u (A ++ B) = ufits u A ++ ufits (ustate u A) B.
Proof. induction A as [|dv A IH]; intros; [reflexivity|]. cbn [app ufits ustate fold_left]. rewrite IH. reflexivity. Qed.
Lemma urdys_app : forall A B u, urdys u (A ++ B) = urdys u A ++ urdys (ustate u A) B.
Proof. induction A as [|dv A IH]; intros; [reflexivity|]. cbn [app urdys ustate fold_left]. rewrite IH. reflexivity. Qed.

Lemma loop_in_obs : forall g s q,
  ufits s (tx_loop_in 8 s q g) = map fit_of (tx_loop 8 s q g) /\
  urdys s (tx_loop_in 8 s q g) = map rdy_of (tx_loop 8 s q g) /\
  ustate s (tx_loop_in 8 s q g) = fst (tx_loop_end 8 s q g).
Proof.
  induction g as [|gd g IH]; intros s q; [repeat split|].
  cbn [tx_loop_in tx_loop tx_loop_end ufits urdys ustate fold_left map fst snd].
  destruct (IH (txu_next 8 s (drv_data q gd) (drv_oe q)) (if u_ready s (drv_oe q) then tl q else q)) as (I1 & I2 & I3).
  unfold ustate in I3. rewrite I1, I2, I3. repeat split.
Qed.

Definition phase_fits (p : list N * list N) : list (bool * bool) :=
  match fst p with
  | [] => repeat (false, false) (length (snd p))
  | _ => let body := (false, false) :: map (fun b => (b, true)) (sync_bits ++ stuff 0 (bits_of_bytes (fst p))) in
         body ++ repeat (false, false) (length (snd p) - length body)
  end.

Lemma session_obs : forall ph s, txu_quiet s -> Forall phase_ok ph ->
  ufits s (tx_session_in 8 s ph) = flat_map phase_fits ph /\
  length (filter (fun r => r) (urdys s (tx_session_in 8 s ph))) = length (flat_map fst ph).
Proof.
  induction ph as [|[bs g] ph IH]; intros s Hq Hok; [split; reflexivity|].
  inversion Hok as [|? ? [Hb Hl] Hok']; subst. cbn [fst snd] in Hb, Hl.
  cbn [tx_session_in flat_map fst snd]. rewrite ufits_app, urdys_app.
  destruct (loop_in_obs g s bs) as (L1 & L2 & L3). rewrite L1, L2, L3.
  destruct bs as [|b bs'].
  - destruct (tx_idle_usb s g Hq) as (T1 & T2 & T3 & T4).
    destruct (IH _ T4 Hok') as [I1 I2]. rewrite I1, T1. split; [reflexivity|].
    rewrite filter_app, app_length, I2.
    assert (E : filter (fun r => r) (map rdy_of (tx_loop 8 s [] g)) = map rdy_of (filter rdy_of (tx_loop 8 s [] g))).
    { generalize (tx_loop 8 s [] g). induction l as [|x l IHl]; [reflexivity|]. cbn [map filter]. destruct (rdy_of x) eqn:Ex; cbn [map]; rewrite IHl, ?Ex; reflexivity. }
    rewrite E, T2. reflexivity.
  - assert (Hlen : (length ((false, false) :: map (fun b0 : bool => (b0, true)) (sync_bits ++ stuff 0 (bits_of_bytes (b :: bs')))) <= length g)%nat).
    { specialize (Hl ltac:(discriminate)). unfold frame0, frame_bits0 in Hl. rewrite app_length, nrzi_length in Hl.
      cbn [length]. rewrite map_length. cbn [length eop] in Hl. lia. }
    destruct (tx_packet_usb s (b :: bs') g Hq ltac:(discriminate) Hb Hlen) as (P1 & P2 & P3 & P4).
    destruct (IH _ P4 Hok') as [I1 I2]. rewrite I1, P1. split; [reflexivity|].
    rewrite filter_app, app_length, I2, app_length.
    assert (E : forall l, length (filter (fun r => r) (map rdy_of l)) = length (filter rdy_of l)).
    { induction l as [|x l IHl]; [reflexivity|]. cbn [map filter]. destruct (rdy_of x); cbn [length]; rewrite IHl; reflexivity. }
    rewrite E, P2. reflexivity.
Qed.

Lemma frame0_length : forall bs, length (frame0 bs) = (8 + length (stuff 0 (bits_of_bytes bs)) + 3)%nat.
Proof. intro bs. unfold frame0, frame_bits0. rewrite app_length, nrzi_length, app_length. reflexivity. Qed.

Lemma session_line : forall ph q0, nz_rest q0 -> Forall phase_ok ph ->
  map nz_out (nz_states q0 (flat_map phase_fits ph)) = flat_map (fun p => phase_line (fst p) (length (snd p))) ph.
Proof.
  induction ph as [|[bs g] ph IH]; intros q0 Hq0 Hok; [reflexivity|].
  inversion Hok as [|? ? [Hb Hl] Hok']; subst. cbn [fst snd] in Hb, Hl.
  cbn [flat_map fst snd]. rewrite nz_states_app, map_app.
  destruct bs as [|b bs'].
  - unfold phase_fits, phase_line. cbn [fst snd]. rewrite repeat_idle_states by exact Hq0.
    rewrite map_repeat'. change (nz_out NzIdle) with line_idle. f_equal.
    apply IH; [|exact Hok']. apply last_repeat_idle. exact Hq0.
  - specialize (Hl ltac:(discriminate)). rewrite frame0_length in Hl.
    set (L := stuff 0 (bits_of_bytes (b :: bs'))) in *.
    assert (E : phase_fits (b :: bs', g) =
                (false, false) :: map (fun x => (x, true)) (false :: ([false; false; false; false; false; false; true] ++ L)) ++
                repeat (false, false) (3 + (length g - 1 - (8 + length L + 3)))).
    { unfold phase_fits. cbn [fst snd]. fold L. cbn [length]. rewrite map_length, app_length. change (length sync_bits) with 8%nat.
      change (sync_bits ++ L) with (false :: [false; false; false; false; false; false; true] ++ L).
      cbn [app]. f_equal. f_equal. f_equal. lia. }
    rewrite E.
    destruct (nz_states_packet ([false; false; false; false; false; false; true] ++ L) (length g - 1 - (8 + length L + 3)) q0 Hq0) as [N1 N2].
    cbv zeta in N1, N2. rewrite N1. f_equal; [|apply IH; [exact N2 | exact Hok']].
    unfold phase_line. rewrite frame0_length. fold L. unfold frame0, frame_bits0. fold L. reflexivity.
Qed.

(* ================================================================================================ *)
(* 5. the transmit theorem                                                                          *)
(* ================================================================================================ *)
Lemma tx_trace_length : forall U, length (tx_trace 0 U) = match U with [] => 0%nat | _ :: t => (1 + 4 * length t)%nat end.
Proof.
  destruct U as [|dv U]; [reflexivity|]. cbn [tx_trace length Nat.add]. f_equal.
  induction U as [|x U IH]; [reflexivity|]. cbn [flat_map]. rewrite app_length, IH. cbn [length tx_words4]. lia.
Qed.

Lemma count_rep4 : forall l, length (filter (fun r : bool => r) (rep4 l)) = (4 * length (filter (fun r => r) l))%nat.
Proof.
  induction l as [|x l IH]; [reflexivity|]. rewrite rep4_cons, filter_app, app_length, IH.
  destruct x; cbn [filter length]; lia.
Qed.

(* Every packet of every UTMI transmit session (each phase lasting at least until its EOP is over) appears on the
   line as idle, SYNC + stuffed NRZI data + EOP at four usb_io steps per symbol, idle; tx_ready is high for exactly
   one usb cycle per byte. *)
Theorem tx_session_line : forall ph, Forall phase_ok ph ->
  let U := tx_session_in 8 txu_init ph in
  let outs := run (tx_step 8) txs_init (tx_trace 0 U) in
  map tx_line_of outs =
    firstn (length outs) ((false, false, false) :: line_idle ::
                          rep4 (flat_map (fun p => phase_line (fst p) (length (snd p))) ph))
  /\ length (filter tx_ready_of outs) = (4 * length (flat_map fst ph))%nat.
Proof.
  intros ph Hok U outs.
  destruct (session_obs ph txu_init txu_init_quiet Hok) as [SF SR]. fold U in SF, SR.
  pose proof (session_line ph NzIdle (or_introl eq_refl) Hok) as SL. rewrite <- SF in SL.
  subst outs. rewrite run_length, tx_trace_length.
  destruct U as [|[d v] U'] eqn:EU.
  - cbn. split; [reflexivity|]. cbn [urdys filter length] in SR. lia.
  - cbn [tx_trace run fst snd]. change txs_init with (mkX txu_init txio_init). rewrite tx_step_normal. cbv iota.
    destruct (tx_run_cycles U' (txu_next 8 txu_init d v) (txio_next txio_init (u_fit_dat txu_init) (u_fit_oe txu_init))) as [R1 R2].
    cbn [map filter]. rewrite (proj1 (tx_obs _ _ _ _)), (proj2 (tx_obs _ _ _ _)).
    unfold mkX in *. rewrite R1. split.
    + cbn [ufits fst snd] in SL. change (u_fit_dat txu_init) with false in *. change (u_fit_oe txu_init) with false in *.
      cbn [nz_states] in SL. change (nz_next NzIdle true false false) with NzIdle in SL.
      pose proof (txio_run_line (false, false) (ufits (txu_next 8 txu_init d v) U')) as TL. cbn [txio_run] in TL.
      rewrite <- SL. cbn [map].
      assert (EL : length (ufits (txu_next 8 txu_init d v) U') = length U').
      { clear. generalize (txu_next 8 txu_init d v). induction U' as [|x U' IH]; intro u; [reflexivity|]. cbn [ufits length]. rewrite IH. reflexivity. }
      rewrite EL in TL. cbn [c_p c_n c_oe txio_init] in TL |- *.
      injection TL as TL. cbn [firstn Nat.add]. f_equal. exact TL.
    + change (u_ready txu_init v) with false. cbv iota.
      assert (E : forall l, length (filter tx_ready_of l) = length (filter (fun r => r) (map tx_ready_of l))).
      { induction l as [|x l IHl]; [reflexivity|]. cbn [map filter]. destruct (tx_ready_of x); cbn [length]; rewrite IHl; reflexivity. }
      rewrite E, R2, count_rep4. cbn [urdys fst snd filter] in SR. change (u_ready txu_init v) with false in SR. cbv iota in SR.
      rewrite SR. reflexivity.
Qed.
