(* C46 -- proofs about the SuperSpeed stream IN endpoint model (Model/SsIn.v). *)
From Coq Require Import NArith ZArith List Bool Lia ZifyBool ZifyN.
Import ListNotations.
From LunaLib Require Import Netlist Machine PackN.
From LunaModel Require Import SsIn.
Open Scope N_scope.
