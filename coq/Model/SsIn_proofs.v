(* C46 -- proofs about the SuperSpeed stream IN endpoint model (Model/SsIn.v).

   Main theorem (ssin_accepted): for every max_packet_size mps with 4 | mps, 8 <= mps, every endpoint
   number and sequence-number width, and EVERY input history, the referee of SsIn.v accepts the model's
   interface trace (or the environment broke its contract first).                                   *)
From Coq Require Import NArith ZArith List Bool Lia ZifyBool ZifyN.
Import ListNotations.
From LunaLib Require Import Netlist Machine.
From LunaModel Require Import SsIn.
Open Scope N_scope.
Ltac Zify.zify_post_hook ::= Z.div_mod_to_equations.

(* ------------------------------------------------------------------------------------------ *)
(* 1. Buffers as item lists                                                                    *)

(* the words of a buffer with their byte counts: 4 each, except that the last one takes what is left *)
Fixpoint witems (ws : list N) (fill : N) : list item :=
  match ws with
  | [] => []
  | w :: t => W w (N.min 4 fill) :: witems t (fill - N.min 4 fill)
  end.

Definition bitems (b : buf) : list item :=
  witems (b_words b) (b_fill b) ++ (if b_ended b then [E] else []).

(* the word list fits the fill count *)
Definition fits (ws : list N) (fill : N) : Prop :=
  4 * N.of_nat (length ws) < fill + 4 /\ fill <= 4 * N.of_nat (length ws).

Lemma fits_nil : forall fill, fits [] fill <-> fill = 0.
Proof. intros. unfold fits. simpl. lia. Qed.

Lemma fits_cons : forall w t fill, fits (w :: t) fill -> 0 < fill /\ fits t (fill - N.min 4 fill).
Proof.
  intros w t fill [H1 H2]. cbn [length] in *. rewrite Nat2N.inj_succ in *. unfold fits. lia.
Qed.

Lemma witems_length : forall ws fill, length (witems ws fill) = length ws.
Proof. induction ws; intros; simpl; [reflexivity | rewrite IHws; reflexivity]. Qed.

Lemma witems_snoc : forall ws fill w n,
  fill = 4 * N.of_nat (length ws) -> 1 <= n <= 4 ->
  witems (ws ++ [w]) (fill + n) = witems ws fill ++ [W w n].
Proof.
  induction ws as [|x t IH]; intros fill w n Hf Hn.
  - simpl in *. subst fill. replace (N.min 4 (0 + n)) with n by lia. reflexivity.
  - cbn [length] in Hf. rewrite Nat2N.inj_succ in Hf. cbn [app witems].
    replace (N.min 4 (fill + n)) with 4 by lia. replace (N.min 4 fill) with 4 by lia.
    f_equal. replace (fill + n - 4) with ((fill - 4) + n) by lia. apply IH; lia.
Qed.

Lemma pkt_bytes_witems : forall ws fill, fits ws fill -> pkt_bytes (witems ws fill) = fill.
Proof.
  induction ws as [|w t IH]; intros fill H.
  - apply fits_nil in H. subst. reflexivity.
  - apply fits_cons in H as [Hp Ht]. cbn [witems pkt_bytes]. rewrite IH by exact Ht. lia.
Qed.

Lemma pkt_bytes_app : forall a b, pkt_bytes (a ++ b) = pkt_bytes a + pkt_bytes b.
Proof. induction a as [|[w n|] t IH]; intros; simpl; [reflexivity | rewrite IH; lia | apply IH]. Qed.

(* taking a packet out of "buffer contents followed by l" *)
Lemma take_pkt_witems : forall ws fill room l, fits ws fill -> fill <= room ->
  take_pkt room (witems ws fill ++ l) =
  match take_pkt (room - fill) l with
  | Some (p, r) => Some (witems ws fill ++ p, r)
  | None => None
  end.
Proof.
  induction ws as [|w t IH]; intros fill room l Hf Hr.
  - apply fits_nil in Hf. subst. simpl. rewrite N.sub_0_r. destruct (take_pkt room l) as [[p r]|]; reflexivity.
  - apply fits_cons in Hf as [Hp Ht]. cbn [witems app take_pkt].
    destruct (room =? 0) eqn:E0; [lia|].
    destruct (N.min 4 fill <=? room) eqn:E1; [|lia].
    rewrite IH by (try exact Ht; lia).
    replace (room - N.min 4 fill - (fill - N.min 4 fill)) with (room - fill) by lia.
    destruct (take_pkt (room - fill) l) as [[p r]|]; reflexivity.
Qed.

Lemma take_pkt_E : forall room l, room <> 0 -> take_pkt room (E :: l) = Some ([], l).
Proof. intros. simpl. destruct (room =? 0) eqn:E0; [lia | reflexivity]. Qed.

Lemma take_pkt_0 : forall l, take_pkt 0 l = Some ([], l).
Proof. destruct l; reflexivity. Qed.

Lemma take_pkt_nil : forall room, room <> 0 -> take_pkt room [] = None.
Proof. intros. simpl. destruct (room =? 0) eqn:E0; [lia | reflexivity]. Qed.

(* position k of a buffer's item list *)
Lemma skipn_witems : forall k ws fill, (k < length ws)%nat -> fits ws fill ->
  skipn k (witems ws fill) =
  W (nth k ws 0) (N.min 4 (fill - 4 * N.of_nat k)) :: skipn (S k) (witems ws fill).
Proof.
  induction k as [|k IH]; intros ws fill Hk Hf.
  - destruct ws as [|w t]; [simpl in Hk; lia|]. simpl. rewrite N.sub_0_r. reflexivity.
  - destruct ws as [|w t]; [simpl in Hk; lia|]. simpl in Hk.
    pose proof Hf as [Hf1 Hf2]. cbn [length] in Hf1, Hf2. rewrite Nat2N.inj_succ in Hf1, Hf2.
    apply fits_cons in Hf as [Hp Ht].
    change (skipn (S k) (witems (w :: t) fill)) with (skipn k (witems t (fill - N.min 4 fill))).
    change (skipn (S (S k)) (witems (w :: t) fill)) with (skipn (S k) (witems t (fill - N.min 4 fill))).
    rewrite IH by (try exact Ht; lia). cbn [nth]. f_equal. f_equal.
    rewrite Nat2N.inj_succ. assert (N.of_nat k < N.of_nat (length t)) by lia. lia.
Qed.

Lemma skipn_all_witems : forall ws fill, skipn (length ws) (witems ws fill) = [].
Proof. intros. rewrite <- (witems_length ws fill). apply skipn_all. Qed.

(* ------------------------------------------------------------------------------------------ *)
(* 2. The invariant relating the endpoint model and the referee                                *)
Section Inv.
  Variables (mps ep sb : N).
  Hypothesis Hmps8 : 8 <= mps.
  Hypothesis Hmps4 : mps mod 4 = 0.

  (* the buffer being filled *)
  Definition wbwf (b : buf) : Prop :=
    fits (b_words b) (b_fill b) /\ b_fill b <= mps /\
    (b_ended b = false -> b_fill b mod 4 = 0) /\ (b_ended b = true -> 0 < b_fill b).
  (* a buffer holding a data packet that can be sent *)
  Definition complete (b : buf) : Prop :=
    fits (b_words b) (b_fill b) /\ 0 < b_fill b <= mps /\ (b_fill b = mps \/ b_ended b = true).
  (* a buffer standing for a pending zero-length packet *)
  Definition zlp_pending (b : buf) : Prop := b_fill b = 0 /\ b_words b = [] /\ b_ended b = true.

  Definition rb_items (s : ss_state) : list item := witems (b_words (s_rb s)) (b_fill (s_rb s)).

  (* the tx register holds item k of the read buffer *)
  Definition reg_holds (s : ss_state) (k : nat) : Prop :=
    s_op s = nth k (b_words (s_rb s)) 0 /\
    s_ov s = vmask (N.min 4 (b_fill (s_rb s) - 4 * N.of_nat k)) /\
    s_of s = (k =? 0)%nat /\
    s_ol s = (S k =? length (b_words (s_rb s)))%nat.

  (* ... and the referee either follows the packet, or is about to see its first word *)
  Definition fly_rel (s : ss_state) (r : ref_state) (k : nat) : Prop :=
    (r_fly r = Some ((k =? 0)%nat, skipn k (rb_items s)) /\ r_req r = None /\ r_out r = true) \/
    (k = O /\ r_fly r = None /\ r_req r = Some 2).

  Definition Inv (s : ss_state) (r : ref_state) : Prop :=
    s_seq s = r_exp r /\ wbwf (s_wb s) /\
    match s_fsm s with
    | WAIT_FOR_DATA =>
        r_pend r = bitems (s_wb s) /\ wb_ready mps (s_wb s) = true /\ b_fill (s_rb s) = 0 /\
        r_out r = false /\ r_req r = None /\ r_fly r = None /\ r_nrdy r = s_erdy s /\ s_ov s = 0
    | REQUEST_IN_TOKEN =>
        r_pend r = bitems (s_rb s) ++ bitems (s_wb s) /\ complete (s_rb s) /\
        r_out r = false /\ r_req r = None /\ r_fly r = None /\ r_nrdy r = true /\ s_erdy s = true /\ s_ov s = 0
    | WAIT_TO_SEND =>
        r_pend r = bitems (s_rb s) ++ bitems (s_wb s) /\ (complete (s_rb s) \/ zlp_pending (s_rb s)) /\
        r_out r = false /\ r_req r = None /\ r_fly r = None /\ r_nrdy r = false /\ s_erdy s = false /\ s_ov s = 0
    | SEND_PACKET =>
        r_pend r = bitems (s_rb s) ++ bitems (s_wb s) /\ complete (s_rb s) /\
        r_nrdy r = false /\ s_erdy s = false /\ s_lpz s = false /\
        ((s_pos s = 0 /\ s_ov s = 0 /\ r_fly r = None /\ r_req r = Some 1) \/
         (exists k, s_pos s = N.of_nat (S k) /\ (S k < length (b_words (s_rb s)))%nat /\
                    reg_holds s k /\ fly_rel s r k))
    | WAIT_FOR_ACK =>
        r_nrdy r = false /\ s_erdy s = false /\
        if s_lpz s then
          r_pend r = E :: bitems (s_wb s) /\ s_rb s = buf_empty /\
          s_ov s = 0 /\ r_fly r = None /\ r_req r = None /\ r_out r = true
        else
          r_pend r = bitems (s_rb s) ++ bitems (s_wb s) /\ complete (s_rb s) /\
          ((s_ov s = 0 /\ r_fly r = None /\ r_req r = None /\ r_out r = true) \/
           (exists k, S k = length (b_words (s_rb s)) /\ reg_holds s k /\ fly_rel s r k))
    end.

  Lemma Inv_init : Inv ss_init ref_init.
  Proof.
    unfold Inv, ss_init, ref_init, wbwf, bitems, wb_ready, buf_empty, fits. cbn.
    repeat split; try reflexivity; try lia; try discriminate.
  Qed.

  (* ---- buffers and take_pkt ---- *)
  Lemma take_complete : forall b l, complete b ->
    take_pkt mps (bitems b ++ l) =
    Some (witems (b_words b) (b_fill b), (if (b_fill b =? mps) && b_ended b then [E] else []) ++ l).
  Proof.
    intros b l [Hf [Hr Hc]]. unfold bitems. rewrite <- app_assoc.
    rewrite take_pkt_witems by (try exact Hf; lia).
    destruct (b_fill b =? mps) eqn:Em.
    - apply N.eqb_eq in Em. rewrite Em, N.sub_diag, take_pkt_0, app_nil_r. reflexivity.
    - apply N.eqb_neq in Em. destruct Hc as [Hc|Hc]; [contradiction|]. rewrite Hc. cbn [app andb].
      rewrite take_pkt_E by lia. rewrite app_nil_r. reflexivity.
  Qed.

  Lemma take_open : forall b, wbwf b -> wb_ready mps b = true -> take_pkt mps (bitems b) = None.
  Proof.
    intros b [Hf [Hle [Hm He]]] Hr. unfold wb_ready in Hr. apply andb_true_iff in Hr as [Hr1 Hr2].
    apply negb_true_iff in Hr2. unfold bitems. rewrite Hr2.
    rewrite take_pkt_witems by (try exact Hf; lia). cbn [app]. rewrite take_pkt_nil by lia. reflexivity.
  Qed.

  Lemma take_zlp : forall l, take_pkt mps (E :: l) = Some ([], l).
  Proof. intros. apply take_pkt_E. lia. Qed.

  (* a write buffer that no longer takes data holds a complete packet *)
  Lemma closed_complete : forall b, wbwf b -> wb_ready mps b = false -> complete b.
  Proof.
    intros b [Hf [Hle [Hm He]]] Hr. unfold wb_ready in Hr. unfold complete.
    destruct (b_ended b) eqn:Ee.
    - specialize (He eq_refl). split; [exact Hf|]. split; [lia|]. right. reflexivity.
    - specialize (Hm eq_refl). rewrite andb_true_r in Hr. apply N.leb_gt in Hr.
      split; [exact Hf|]. split; [lia|]. left. lia.
  Qed.

  (* ---- the stream side ---- *)
  Lemma stream_cases : forall i, stream_ok i = true ->
    i_valid i = 0 \/ (i_valid i = 15) \/
    ((i_valid i = 1 \/ i_valid i = 3 \/ i_valid i = 7) /\ i_last i = true).
  Proof.
    intros i H. unfold stream_ok in H. cbv zeta in H.
    destruct (i_valid i =? 0) eqn:E0; [left; apply N.eqb_eq; exact E0|].
    destruct (i_valid i =? 15) eqn:E15; [right; left; apply N.eqb_eq; exact E15|].
    right; right. cbn [orb] in H. apply andb_true_iff in H as [H1 H2]. split; [|exact H2].
    destruct (i_valid i =? 1) eqn:E1; [left; apply N.eqb_eq; exact E1|].
    destruct (i_valid i =? 3) eqn:E3; [right; left; apply N.eqb_eq; exact E3|].
    destruct (i_valid i =? 7) eqn:E7; [right; right; apply N.eqb_eq; exact E7|]. discriminate.
  Qed.

  (* what the stream word of a cycle does to the write buffer, and what the referee records *)
  Lemma write_step : forall s i (o : ss_out), wbwf (s_wb s) -> stream_ok i = true ->
    o_ready o = wb_ready mps (s_wb s) ->
    wbwf (wb_after mps s i) /\
    bitems (wb_after mps s i) = bitems (s_wb s) ++ accepted_items i o /\
    (* the buffer is complete afterwards iff it was before or the word completed it *)
    (wb_ready mps (s_wb s) = true ->
       wb_ready mps (wb_after mps s i) = negb (completing mps s i)).
  Proof.
    intros s i o Hw Hs Ho. unfold wb_after, accepted_items, wr_en, completing. rewrite Ho.
    destruct Hw as [Hf [Hle [Hm He]]].
    destruct (wb_ready mps (s_wb s)) eqn:Hr.
    2:{ rewrite !andb_false_r. split; [|split].
        - exact (conj Hf (conj Hle (conj Hm He))).
        - rewrite app_nil_r. reflexivity.
        - intro; discriminate. }
    unfold wb_ready in Hr. apply andb_true_iff in Hr as [Hr1 Hr2]. apply negb_true_iff in Hr2.
    specialize (Hm Hr2). pose proof Hf as [Hf1 Hf2].
    assert (Hfl : b_fill (s_wb s) = 4 * N.of_nat (length (b_words (s_wb s)))) by lia.
    rewrite !andb_true_r.
    destruct (stream_cases i Hs) as [Hv|[Hv|[Hv Hl]]].
    - rewrite Hv. change (negb (0 =? 0)) with false. change (N.testbit 0 0) with false. cbn [andb negb].
      split; [|split].
      + exact (conj Hf (conj Hle (conj (fun _ => Hm) He))).
      + rewrite app_nil_r. reflexivity.
      + intros _. unfold wb_ready. rewrite Hr2, Hr1. reflexivity.
    - rewrite Hv. change (negb (15 =? 0)) with true. change (nbytes 15) with 4.
      change (N.testbit 15 0) with true. cbn [andb]. rewrite Hr2. cbn [orb].
      split; [|split].
      + unfold wbwf, fits. cbn [b_words b_fill b_ended]. rewrite app_length. cbn [length].
        rewrite Nat.add_1_r, Nat2N.inj_succ. repeat split; try lia.
      + unfold bitems. cbn [b_words b_fill b_ended]. rewrite Hr2.
        rewrite (witems_snoc _ _ _ 4 Hfl) by lia. rewrite app_nil_r, <- app_assoc. reflexivity.
      + intros _. unfold wb_ready. cbn [b_fill b_ended].
        destruct (i_last i); cbn [negb andb orb]; [rewrite orb_true_r, andb_false_r; reflexivity|].
        rewrite orb_false_r, andb_true_r. lia.
    - rewrite Hl, !orb_true_r, ?Hr2. cbn [orb].
      assert (Hn : 1 <= nbytes (i_valid i) <= 3 /\ (i_valid i =? 0) = false /\ N.testbit (i_valid i) 0 = true)
        by (destruct Hv as [Hv|[Hv|Hv]]; rewrite Hv; repeat split; cbn; lia).
      destruct Hn as [Hn [Hz Hb]]. rewrite Hz, Hb. cbn [negb andb].
      split; [|split].
      + unfold wbwf, fits. cbn [b_words b_fill b_ended]. rewrite app_length. cbn [length].
        rewrite Nat.add_1_r, Nat2N.inj_succ. repeat split; try lia; intro; discriminate.
      + unfold bitems. cbn [b_words b_fill b_ended]. rewrite Hr2.
        rewrite (witems_snoc _ _ _ _ Hfl) by lia. rewrite app_nil_r, <- app_assoc. reflexivity.
      + intros _. unfold wb_ready. cbn [b_ended negb]. rewrite andb_false_r. reflexivity.
  Qed.

  (* ---- the environment's move ---- *)
  Definition retry_c (r : ref_state) (i : N) : bool := i_retry i || negb (i_nseq i =? (r_exp r + 1) mod 2 ^ sb).

  Lemma env_phase_cases : forall r i r1, env_phase mps ep sb r i = Some r1 ->
    stream_ok i = true /\ i_hsready i = negb (r_gen r) /\
    ((r_to_us ep i = false /\ r1 = r) \/
     (r_to_us ep i = true /\ r_req r = None /\ r_fly r = None /\ r_nrdy r = false /\ r_gen r = false /\
      ((r_out r = true /\ retry_c r i = true /\
        r1 = set_ref (r_pend r) (r_exp r) true (Some 0) None false false) \/
       (r_out r = true /\ retry_c r i = false /\ exists p rest, take_pkt mps (r_pend r) = Some (p, rest) /\
        r1 = set_ref rest ((r_exp r + 1) mod 2 ^ sb) false (if i_nump i =? 0 then None else Some 0) None false false) \/
       (r_out r = false /\ (i_nump i =? 0) = false /\
        r1 = set_ref (r_pend r) (r_exp r) false (Some 0) None false false)))).
  Proof.
    intros r i r1 H. unfold env_phase in H.
    destruct (stream_ok i) eqn:Es; [|discriminate]. cbn [negb] in H.
    destruct (Bool.eqb (i_hsready i) (negb (r_gen r))) eqn:Eg; [|discriminate]. cbn [negb] in H.
    apply Bool.eqb_prop in Eg.
    destruct (i_hsdone i && negb (r_gen r)); [discriminate|].
    split; [reflexivity|]. split; [exact Eg|].
    destruct (r_to_us ep i) eqn:Eu.
    2:{ left. split; [reflexivity|]. inversion H. reflexivity. }
    right. split; [reflexivity|].
    destruct (r_req r) eqn:Er; [discriminate|]. destruct (r_fly r) eqn:Ef; [discriminate|].
    destruct (r_nrdy r) eqn:En; [discriminate|]. destruct (r_gen r) eqn:Egen; [discriminate|]. cbn [orb] in H.
    repeat (split; [reflexivity|]).
    destruct (r_out r) eqn:Eo.
    - fold (retry_c r i) in H. destruct (retry_c r i) eqn:Ec.
      + left. inversion H. repeat split; reflexivity.
      + right; left. destruct (take_pkt mps (r_pend r)) as [[p rest]|] eqn:Et; [|discriminate].
        inversion H. repeat split; try reflexivity. exists p, rest. split; reflexivity.
    - right; right. destruct (i_nump i =? 0) eqn:En0; [discriminate|]. inversion H. repeat split; reflexivity.
  Qed.
End Inv.
