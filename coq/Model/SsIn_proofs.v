(* C46 -- proofs about the SuperSpeed stream IN endpoint model (Model/SsIn.v).

   Main theorem (ssin_accepted): for every max_packet_size mps with 4 | mps, 4 <= mps <= 1024, every endpoint
   number and sequence-number width, and EVERY input history, the referee of SsIn.v accepts the model's
   interface trace (or the environment broke its contract first).                                   *)
From Coq Require Import NArith ZArith List Bool Lia ZifyBool ZifyN.
Import ListNotations.
From LunaLib Require Import Netlist Machine.
From LunaModel Require Import SsIn.
Open Scope N_scope.
Ltac Zify.zify_post_hook ::= Z.div_mod_to_equations.

Ltac conjs := repeat match goal with |- _ /\ _ => split end.
Ltac done1 := first [assumption | reflexivity | (left; assumption) | (right; assumption)].

Lemma some_inj : forall {A} (a b : A), Some a = Some b -> a = b.
Proof. intros A a b H. inversion H. reflexivity. Qed.

(* ------------------------------------------------------------------------------------------ *)
(* 1. Buffers as item lists                                                                    *)

(* the words of a buffer with their byte counts: 4 each, except that the last one takes what is left *)
Fixpoint witems (ws : list N) (fill : N) : list item :=
  match ws with
  | [] => []
  | w :: t => W w (N.min 4 fill) :: witems t (fill - N.min 4 fill)
  end.

Definition bitems (b : buf) : list item :=
  witems (b_words b) (b_fill b) ++ (if b_ended b then [E] else []).

(* the word list fits the fill count *)
Definition fits (ws : list N) (fill : N) : Prop :=
  4 * N.of_nat (length ws) < fill + 4 /\ fill <= 4 * N.of_nat (length ws).

Lemma fits_nil : forall fill, fits [] fill <-> fill = 0.
Proof. intros. unfold fits. simpl. lia. Qed.

Lemma fits_cons : forall w t fill, fits (w :: t) fill -> 0 < fill /\ fits t (fill - N.min 4 fill).
Proof.
  intros w t fill [H1 H2]. cbn [length] in *. rewrite Nat2N.inj_succ in *. unfold fits. lia.
Qed.

Lemma witems_length : forall ws fill, length (witems ws fill) = length ws.
Proof. induction ws; intros; simpl; [reflexivity | rewrite IHws; reflexivity]. Qed.

Lemma witems_snoc : forall ws fill w n,
  fill = 4 * N.of_nat (length ws) -> 1 <= n <= 4 ->
  witems (ws ++ [w]) (fill + n) = witems ws fill ++ [W w n].
Proof.
  induction ws as [|x t IH]; intros fill w n Hf Hn.
  - simpl in *. subst fill. replace (N.min 4 (0 + n)) with n by lia. reflexivity.
  - cbn [length] in Hf. rewrite Nat2N.inj_succ in Hf. cbn [app witems].
    replace (N.min 4 (fill + n)) with 4 by lia. replace (N.min 4 fill) with 4 by lia.
    f_equal. replace (fill + n - 4) with ((fill - 4) + n) by lia. apply IH; lia.
Qed.

Lemma pkt_bytes_witems : forall ws fill, fits ws fill -> pkt_bytes (witems ws fill) = fill.
Proof.
  induction ws as [|w t IH]; intros fill H.
  - apply fits_nil in H. subst. reflexivity.
  - apply fits_cons in H as [Hp Ht]. cbn [witems pkt_bytes]. rewrite IH by exact Ht. lia.
Qed.

Lemma pkt_bytes_app : forall a b, pkt_bytes (a ++ b) = pkt_bytes a + pkt_bytes b.
Proof. induction a as [|[w n|] t IH]; intros; simpl; [reflexivity | rewrite IH; lia | apply IH]. Qed.

(* taking a packet out of "buffer contents followed by l" *)
Lemma take_pkt_witems : forall ws fill room l, fits ws fill -> fill <= room ->
  take_pkt room (witems ws fill ++ l) =
  match take_pkt (room - fill) l with
  | Some (p, r) => Some (witems ws fill ++ p, r)
  | None => None
  end.
Proof.
  induction ws as [|w t IH]; intros fill room l Hf Hr.
  - apply fits_nil in Hf. subst. simpl. rewrite N.sub_0_r. destruct (take_pkt room l) as [[p r]|]; reflexivity.
  - apply fits_cons in Hf as [Hp Ht]. cbn [witems app take_pkt].
    destruct (room =? 0) eqn:E0; [lia|].
    destruct (N.min 4 fill <=? room) eqn:E1; [|lia].
    rewrite IH by (try exact Ht; lia).
    replace (room - N.min 4 fill - (fill - N.min 4 fill)) with (room - fill) by lia.
    destruct (take_pkt (room - fill) l) as [[p r]|]; reflexivity.
Qed.

Lemma take_pkt_E : forall room l, room <> 0 -> take_pkt room (E :: l) = Some ([], l).
Proof. intros. simpl. destruct (room =? 0) eqn:E0; [lia | reflexivity]. Qed.

Lemma take_pkt_0 : forall l, take_pkt 0 l = Some ([], l).
Proof. destruct l; reflexivity. Qed.

Lemma take_pkt_nil : forall room, room <> 0 -> take_pkt room [] = None.
Proof. intros. simpl. destruct (room =? 0) eqn:E0; [lia | reflexivity]. Qed.

(* position k of a buffer's item list *)
Lemma skipn_witems : forall k ws fill, (k < length ws)%nat -> fits ws fill ->
  skipn k (witems ws fill) =
  W (nth k ws 0) (N.min 4 (fill - 4 * N.of_nat k)) :: skipn (S k) (witems ws fill).
Proof.
  induction k as [|k IH]; intros ws fill Hk Hf.
  - destruct ws as [|w t]; [simpl in Hk; lia|]. simpl. rewrite N.sub_0_r. reflexivity.
  - destruct ws as [|w t]; [simpl in Hk; lia|]. simpl in Hk.
    pose proof Hf as [Hf1 Hf2]. cbn [length] in Hf1, Hf2. rewrite Nat2N.inj_succ in Hf1, Hf2.
    apply fits_cons in Hf as [Hp Ht].
    change (skipn (S k) (witems (w :: t) fill)) with (skipn k (witems t (fill - N.min 4 fill))).
    change (skipn (S (S k)) (witems (w :: t) fill)) with (skipn (S k) (witems t (fill - N.min 4 fill))).
    rewrite IH by (try exact Ht; lia). cbn [nth]. f_equal. f_equal.
    rewrite Nat2N.inj_succ. assert (N.of_nat k < N.of_nat (length t)) by lia. lia.
Qed.

Lemma skipn_all_witems : forall ws fill, skipn (length ws) (witems ws fill) = [].
Proof. intros. rewrite <- (witems_length ws fill). apply skipn_all. Qed.

(* ------------------------------------------------------------------------------------------ *)
(* 2. The invariant relating the endpoint model and the referee                                *)
Section Inv.
  Variables (mps ep sb : N).
  Hypothesis Hmps8 : 4 <= mps.
  Hypothesis Hmps4 : mps mod 4 = 0.
  Hypothesis Hmps1k : mps <= 1024.

  (* the buffer being filled *)
  Definition wbwf (b : buf) : Prop :=
    fits (b_words b) (b_fill b) /\ b_fill b <= mps /\
    (b_ended b = false -> b_fill b mod 4 = 0) /\ (b_ended b = true -> 0 < b_fill b).
  (* a buffer holding a data packet that can be sent *)
  Definition complete (b : buf) : Prop :=
    fits (b_words b) (b_fill b) /\ 0 < b_fill b <= mps /\ (b_fill b = mps \/ b_ended b = true).
  (* a buffer standing for a pending zero-length packet *)
  Definition zlp_pending (b : buf) : Prop := b_fill b = 0 /\ b_words b = [] /\ b_ended b = true.

  Definition rb_items (s : ss_state) : list item := witems (b_words (s_rb s)) (b_fill (s_rb s)).

  (* the tx register holds item k of the read buffer *)
  Definition reg_holds (s : ss_state) (k : nat) : Prop :=
    s_op s = nth k (b_words (s_rb s)) 0 /\
    s_ov s = vmask (N.min 4 (b_fill (s_rb s) - 4 * N.of_nat k)) /\
    s_of s = (k =? 0)%nat /\
    s_ol s = (S k =? length (b_words (s_rb s)))%nat.

  (* ... and the referee either follows the packet, or is about to see its first word *)
  Definition fly_rel (s : ss_state) (r : ref_state) (k : nat) : Prop :=
    (r_fly r = Some ((k =? 0)%nat, skipn k (rb_items s)) /\ r_req r = None /\ r_out r = true) \/
    (k = O /\ r_fly r = None /\ r_req r = Some 2).

  Definition Inv (s : ss_state) (r : ref_state) : Prop :=
    s_seq s = r_exp r /\ wbwf (s_wb s) /\
    match s_fsm s with
    | WAIT_FOR_DATA =>
        r_pend r = bitems (s_wb s) /\ wb_ready mps (s_wb s) = true /\ b_fill (s_rb s) = 0 /\
        r_out r = false /\ r_req r = None /\ r_fly r = None /\ r_nrdy r = s_erdy s /\ s_ov s = 0 /\ s_pos s = 0
    | REQUEST_IN_TOKEN =>
        r_pend r = bitems (s_rb s) ++ bitems (s_wb s) /\ complete (s_rb s) /\
        r_out r = false /\ r_req r = None /\ r_fly r = None /\ r_nrdy r = true /\ s_erdy s = true /\ s_ov s = 0 /\ s_pos s = 0
    | WAIT_TO_SEND =>
        r_pend r = bitems (s_rb s) ++ bitems (s_wb s) /\ (complete (s_rb s) \/ zlp_pending (s_rb s)) /\
        r_out r = false /\ r_req r = None /\ r_fly r = None /\ r_nrdy r = false /\ s_erdy s = false /\ s_ov s = 0 /\ s_pos s = 0
    | SEND_PACKET =>
        r_pend r = bitems (s_rb s) ++ bitems (s_wb s) /\ complete (s_rb s) /\
        r_nrdy r = false /\ s_erdy s = false /\ s_lpz s = false /\
        ((s_pos s = 0 /\ s_ov s = 0 /\ r_fly r = None /\ r_req r = Some 1) \/
         (exists k, s_pos s = N.of_nat (S k) /\ (S k < length (b_words (s_rb s)))%nat /\
                    reg_holds s k /\ fly_rel s r k))
    | WAIT_FOR_ACK =>
        r_nrdy r = false /\ s_erdy s = false /\
        if s_lpz s then
          r_pend r = E :: bitems (s_wb s) /\ s_rb s = buf_empty /\
          s_ov s = 0 /\ r_fly r = None /\ r_req r = None /\ r_out r = true
        else
          r_pend r = bitems (s_rb s) ++ bitems (s_wb s) /\ complete (s_rb s) /\
          ((s_ov s = 0 /\ r_fly r = None /\ r_req r = None /\ r_out r = true) \/
           (exists k, S k = length (b_words (s_rb s)) /\ reg_holds s k /\ fly_rel s r k))
    end.

  Lemma Inv_init : Inv ss_init ref_init.
  Proof.
    unfold Inv, ss_init, ref_init, wbwf, bitems, wb_ready, buf_empty, fits. cbn.
    repeat split; try reflexivity; try lia; try discriminate.
  Qed.

  (* ---- buffers and take_pkt ---- *)
  Lemma take_complete : forall b l, complete b ->
    take_pkt mps (bitems b ++ l) =
    Some (witems (b_words b) (b_fill b), (if (b_fill b =? mps) && b_ended b then [E] else []) ++ l).
  Proof.
    intros b l [Hf [Hr Hc]]. unfold bitems. rewrite <- app_assoc.
    rewrite take_pkt_witems by (try exact Hf; lia).
    destruct (b_fill b =? mps) eqn:Em.
    - apply N.eqb_eq in Em. rewrite Em, N.sub_diag, take_pkt_0, app_nil_r. reflexivity.
    - apply N.eqb_neq in Em. destruct Hc as [Hc|Hc]; [contradiction|]. rewrite Hc. cbn [app andb].
      rewrite take_pkt_E by lia. rewrite app_nil_r. reflexivity.
  Qed.

  Lemma take_open : forall b, wbwf b -> wb_ready mps b = true -> take_pkt mps (bitems b) = None.
  Proof.
    intros b [Hf [Hle [Hm He]]] Hr. unfold wb_ready in Hr. apply andb_true_iff in Hr as [Hr1 Hr2].
    apply negb_true_iff in Hr2. unfold bitems. rewrite Hr2.
    rewrite take_pkt_witems by (try exact Hf; lia). cbn [app]. rewrite take_pkt_nil by lia. reflexivity.
  Qed.

  Lemma take_zlp : forall l, take_pkt mps (E :: l) = Some ([], l).
  Proof. intros. apply take_pkt_E. lia. Qed.

  (* a write buffer that no longer takes data holds a complete packet *)
  Lemma closed_complete : forall b, wbwf b -> wb_ready mps b = false -> complete b.
  Proof.
    intros b [Hf [Hle [Hm He]]] Hr. unfold wb_ready in Hr. unfold complete.
    destruct (b_ended b) eqn:Ee.
    - specialize (He eq_refl). split; [exact Hf|]. split; [lia|]. right. reflexivity.
    - specialize (Hm eq_refl). rewrite andb_true_r in Hr. apply N.leb_gt in Hr.
      split; [exact Hf|]. split; [lia|]. left. lia.
  Qed.

  (* ---- the stream side ---- *)
  Lemma stream_cases : forall i, stream_ok i = true ->
    i_valid i = 0 \/ (i_valid i = 15) \/
    ((i_valid i = 1 \/ i_valid i = 3 \/ i_valid i = 7) /\ i_last i = true).
  Proof.
    intros i H. unfold stream_ok in H. cbv zeta in H.
    destruct (i_valid i =? 0) eqn:E0; [left; apply N.eqb_eq; exact E0|].
    destruct (i_valid i =? 15) eqn:E15; [right; left; apply N.eqb_eq; exact E15|].
    right; right. cbn [orb] in H. apply andb_true_iff in H as [H1 H2]. split; [|exact H2].
    destruct (i_valid i =? 1) eqn:E1; [left; apply N.eqb_eq; exact E1|].
    destruct (i_valid i =? 3) eqn:E3; [right; left; apply N.eqb_eq; exact E3|].
    destruct (i_valid i =? 7) eqn:E7; [right; right; apply N.eqb_eq; exact E7|]. discriminate.
  Qed.

  (* what the stream word of a cycle does to the write buffer, and what the referee records *)
  Lemma write_step : forall s i (o : ss_out), wbwf (s_wb s) -> stream_ok i = true ->
    o_ready o = wb_ready mps (s_wb s) ->
    wbwf (wb_after mps s i) /\
    bitems (wb_after mps s i) = bitems (s_wb s) ++ accepted_items i o /\
    (* the buffer is complete afterwards iff it was before or the word completed it *)
    (wb_ready mps (s_wb s) = true ->
       wb_ready mps (wb_after mps s i) = negb (completing mps s i)).
  Proof.
    intros s i o Hw Hs Ho. unfold wb_after, accepted_items, wr_en, completing. rewrite Ho.
    destruct Hw as [Hf [Hle [Hm He]]].
    destruct (wb_ready mps (s_wb s)) eqn:Hr.
    2:{ rewrite !andb_false_r. split; [|split].
        - exact (conj Hf (conj Hle (conj Hm He))).
        - rewrite app_nil_r. reflexivity.
        - intro; discriminate. }
    unfold wb_ready in Hr. apply andb_true_iff in Hr as [Hr1 Hr2]. apply negb_true_iff in Hr2.
    specialize (Hm Hr2). pose proof Hf as [Hf1 Hf2].
    assert (Hfl : b_fill (s_wb s) = 4 * N.of_nat (length (b_words (s_wb s)))) by lia.
    assert (Hfn : firstn (N.to_nat (b_fill (s_wb s) / 4)) (b_words (s_wb s)) = b_words (s_wb s)).
    { apply firstn_all2. rewrite Hfl. replace (4 * N.of_nat (length (b_words (s_wb s))) / 4)
        with (N.of_nat (length (b_words (s_wb s)))) by lia. rewrite Nat2N.id. lia. }
    rewrite Hfn. rewrite !andb_true_r.
    destruct (stream_cases i Hs) as [Hv|[Hv|[Hv Hl]]].
    - rewrite Hv. change (negb (0 =? 0)) with false. change (N.testbit 0 0) with false. cbn [andb negb].
      split; [|split].
      + exact (conj Hf (conj Hle (conj (fun _ => Hm) He))).
      + rewrite app_nil_r. reflexivity.
      + intros _. unfold wb_ready. rewrite Hr2, Hr1. reflexivity.
    - rewrite Hv. change (negb (15 =? 0)) with true. change (nbytes 15) with 4.
      change (N.testbit 15 0) with true. cbn [andb]. rewrite Hr2. cbn [orb].
      split; [|split].
      + unfold wbwf, fits. cbn [b_words b_fill b_ended]. rewrite app_length. cbn [length].
        rewrite Nat.add_1_r, Nat2N.inj_succ. repeat split; try lia.
      + unfold bitems. cbn [b_words b_fill b_ended]. rewrite Hr2.
        rewrite (witems_snoc _ _ _ 4 Hfl) by lia. rewrite app_nil_r, <- app_assoc. reflexivity.
      + intros _. unfold wb_ready. cbn [b_fill b_ended].
        destruct (i_last i); cbn [negb andb orb]; [rewrite orb_true_r, andb_false_r; reflexivity|].
        rewrite orb_false_r, andb_true_r. lia.
    - rewrite Hl, !orb_true_r, ?Hr2. cbn [orb].
      assert (Hn : 1 <= nbytes (i_valid i) <= 3 /\ (i_valid i =? 0) = false /\ N.testbit (i_valid i) 0 = true)
        by (destruct Hv as [Hv|[Hv|Hv]]; rewrite Hv; repeat split; cbn; lia).
      destruct Hn as [Hn [Hz Hb]]. rewrite Hz, Hb. cbn [negb andb].
      split; [|split].
      + unfold wbwf, fits. cbn [b_words b_fill b_ended]. rewrite app_length. cbn [length].
        rewrite Nat.add_1_r, Nat2N.inj_succ. repeat split; try lia; intro; discriminate.
      + unfold bitems. cbn [b_words b_fill b_ended]. rewrite Hr2.
        rewrite (witems_snoc _ _ _ _ Hfl) by lia. rewrite app_nil_r, <- app_assoc. reflexivity.
      + intros _. unfold wb_ready. cbn [b_ended negb]. rewrite andb_false_r. reflexivity.
  Qed.

  (* ---- the environment's move ---- *)
  Definition retry_c (r : ref_state) (i : N) : bool := i_retry i || negb (i_nseq i =? (r_exp r + 1) mod 2 ^ sb).

  Lemma env_phase_cases : forall r i r1, env_phase mps ep sb r i = Some r1 ->
    stream_ok i = true /\ i_hsready i = negb (r_gen r) /\
    ((r_to_us ep i = false /\ r1 = r) \/
     (r_to_us ep i = true /\ r_req r = None /\ r_fly r = None /\ r_nrdy r = false /\ r_gen r = false /\
      ((r_out r = true /\ retry_c r i = true /\
        r1 = set_ref (r_pend r) (r_exp r) true (Some 0) None false false) \/
       (r_out r = true /\ retry_c r i = false /\ exists p rest, take_pkt mps (r_pend r) = Some (p, rest) /\
        r1 = set_ref rest ((r_exp r + 1) mod 2 ^ sb) false (if i_nump i =? 0 then None else Some 0) None false false) \/
       (r_out r = false /\ (i_nump i =? 0) = false /\
        r1 = set_ref (r_pend r) (r_exp r) false (Some 0) None false false)))).
  Proof.
    intros r i r1 H. unfold env_phase in H.
    destruct (stream_ok i) eqn:Es; [|discriminate]. cbn [negb] in H.
    destruct (Bool.eqb (i_hsready i) (negb (r_gen r))) eqn:Eg; [|discriminate]. cbn [negb] in H.
    apply Bool.eqb_prop in Eg.
    destruct (i_hsdone i && negb (r_gen r)); [discriminate|].
    split; [reflexivity|]. split; [exact Eg|].
    destruct (r_to_us ep i) eqn:Eu.
    2:{ left. split; [reflexivity|]. apply some_inj in H. symmetry; exact H. }
    right. split; [reflexivity|].
    destruct (r_req r) eqn:Er; [discriminate|]. destruct (r_fly r) eqn:Ef; [discriminate|].
    destruct (r_nrdy r) eqn:En; [discriminate|]. destruct (r_gen r) eqn:Egen; [discriminate|]. cbn [orb] in H.
    repeat (split; [reflexivity|]).
    destruct (r_out r) eqn:Eo.
    - fold (retry_c r i) in H. destruct (retry_c r i) eqn:Ec.
      + left. apply some_inj in H. split; [reflexivity|]. split; [reflexivity|]. symmetry; exact H.
      + right; left. destruct (take_pkt mps (r_pend r)) as [[p rest]|] eqn:Et; [|discriminate].
        apply some_inj in H. split; [reflexivity|]. split; [reflexivity|]. exists p, rest.
        split; [reflexivity | symmetry; exact H].
    - right; right. destruct (i_nump i =? 0) eqn:En0; [discriminate|]. apply some_inj in H.
      split; [reflexivity|]. split; [reflexivity|]. symmetry; exact H.
  Qed.

  (* ---- the referee's judgement when the tx stream is quiet ---- *)
  Definition gen_next (r : ref_state) (i : N) (o : ss_out) : bool :=
    if erdy_acc i o || nrdy_acc i o then true else r_gen r && negb (i_hsdone i).

  Lemma judge_quiet : forall r i o, r_fly r = None -> o_valid o = 0 ->
    judge mps ep r i o =
    (set_ref (r_pend r ++ accepted_items i o) (r_exp r) (r_out r || o_zlp o)
             (if o_zlp o || nrdy_acc i o then None else match r_req r with Some k => Some (k + 1) | None => None end)
             None ((r_nrdy r || nrdy_acc i o) && negb (erdy_acc i o)) (gen_next r i o),
     ck_zlp mps ep r o && ck_nrdy mps ep r i o && ck_erdy mps ep r i o && ck_erdy_live mps r i o &&
     negb (o_zlp o && nrdy_acc i o) &&
     match r_req r with Some k => o_zlp o || nrdy_acc i o || (k <? 2) | None => true end).
  Proof.
    intros r i o Hf Hv. unfold judge, ck_start, ck_word, ck_one, ck_deadline, answered, starts, fly_now, gen_next.
    rewrite Hf, Hv. change (0 =? 0) with true. cbn [negb]. rewrite !orb_false_r, !andb_false_r. cbn [negb andb].
    rewrite !andb_true_r. reflexivity.
  Qed.

  (* ---- one step ---- *)
  Definition step_goal (s : ss_state) (r : ref_state) (i : N) : Prop :=
    match ref_step mps ep sb r i (ss_outputs mps ep sb s i) with
    | None => True
    | Some (r', ok) => ok = true /\ Inv (ss_next mps ep sb s i) r'
    end.

  Lemma in_token_us : forall i, in_token ep i = r_to_us ep i && negb (i_nump i =? 0).
  Proof. reflexivity. Qed.

  Lemma out_quiet : forall s i, s_ov s = 0 -> o_valid (ss_outputs mps ep sb s i) = 0.
  Proof. intros. exact H. Qed.

  Lemma empty_wbwf : wbwf {| b_words := []; b_fill := 0; b_ended := false |}.
  Proof. unfold wbwf, fits. cbn. repeat split; try lia; try discriminate; reflexivity. Qed.

  (* a write buffer that has just been completed by the word of this cycle *)
  Lemma completed_complete : forall s i, wbwf (s_wb s) -> wbwf (wb_after mps s i) -> stream_ok i = true ->
    wb_ready mps (s_wb s) = true -> completing mps s i = true -> complete (wb_after mps s i).
  Proof.
    intros s i Hw Hw' Hs Hr Hc. apply closed_complete; [exact Hw'|].
    destruct (write_step s i (ss_outputs mps ep sb s i) Hw Hs eq_refl) as [_ [_ H]].
    rewrite (H Hr), Hc. reflexivity.
  Qed.

  Lemma step_wfd : forall s r i, s_fsm s = WAIT_FOR_DATA -> Inv s r -> step_goal s r i.
  Proof.
    intros s r i Hfsm [Hseq [Hwb HI]]. rewrite Hfsm in HI.
    destruct HI as [Hp [Hrdy [Hrf [Hout [Hreq [Hfly [Hnrdy [Hov Hpos]]]]]]]].
    unfold step_goal, ref_step. destruct (env_phase mps ep sb r i) as [r1|] eqn:Eenv; [|exact I].
    apply env_phase_cases in Eenv as [Hs [Hhr Hc]].
    pose proof (write_step s i (ss_outputs mps ep sb s i) Hwb Hs eq_refl) as [Hwb' [Hit Hrd']].
    specialize (Hrd' Hrdy).
    pose proof (take_open _ Hwb Hrdy) as Hopen.
    assert (Ez : o_zlp (ss_outputs mps ep sb s i) = false)
      by (unfold ss_outputs, zlp_now; rewrite Hfsm; reflexivity).
    assert (En : o_nrdy (ss_outputs mps ep sb s i) = in_token ep i)
      by (unfold ss_outputs, nrdy_now; rewrite Hfsm; reflexivity).
    assert (Ee : o_erdy (ss_outputs mps ep sb s i) = false)
      by (unfold ss_outputs; rewrite Hfsm; reflexivity).
    assert (Eh : o_hoep (ss_outputs mps ep sb s i) = ep mod 128) by reflexivity.
    destruct Hc as [[Hu Hr1]|[Hu [_ [_ [Hn0 [Hg0 Hc]]]]]].
    - (* no transaction packet for us *)
      subst r1. rewrite judge_quiet by assumption.
      assert (Hit' : in_token ep i = false) by (rewrite in_token_us, Hu; reflexivity).
      unfold ck_zlp, ck_nrdy, ck_erdy, ck_erdy_live, gen_next, nrdy_acc, erdy_acc, nxt.
      rewrite Ez, En, Ee, Hit', Hreq, Hp, Hopen, Hout, Hnrdy. cbn [andb orb negb is_some]. rewrite !andb_false_r.
      split; [reflexivity|]. rewrite orb_false_r, andb_true_r.
      unfold Inv, ss_next. rewrite Hfsm, Hit', orb_false_r.
      destruct (completing mps s i) eqn:Ecomp.
      + pose proof (completed_complete s i Hwb Hwb' Hs Hrdy Ecomp) as Hcomp.
        destruct (s_erdy s) eqn:Eerdy; cbn [upd set_ref s_fsm s_seq s_wb s_rb s_erdy s_ov s_pos r_exp r_pend r_out r_req r_fly r_nrdy];
          (split; [exact Hseq|]); (split; [rewrite Hrf; exact empty_wbwf|]);
          rewrite Hit, Hrf; unfold bitems at 2; cbn [b_words b_fill b_ended witems app]; rewrite app_nil_r;
          conjs; done1.
      + cbn [upd set_ref s_fsm s_seq s_wb s_rb s_erdy s_ov s_pos r_exp r_pend r_out r_req r_fly r_nrdy].
        split; [exact Hseq|]. split; [exact Hwb'|]. rewrite Hit, Hrd'. cbn [negb].
        conjs; done1.
    - (* an ACK TP for us: can only be an IN request, and is answered NRDY *)
      rewrite Hout in Hc. destruct Hc as [[Hc _]|[[Hc _]|[_ [Hnump Hr1]]]]; try discriminate.
      subst r1. rewrite judge_quiet by (try reflexivity; assumption).
      assert (Hit' : in_token ep i = true) by (rewrite in_token_us, Hu, Hnump; reflexivity).
      rewrite Hg0 in Hhr. cbn [negb] in Hhr.
      unfold ck_zlp, ck_nrdy, ck_erdy, ck_erdy_live, gen_next, nrdy_acc, erdy_acc, nxt.
      rewrite Ez, En, Ee, Eh, Hit', Hhr.
      cbn [set_ref r_exp r_pend r_out r_req r_fly r_nrdy r_gen andb orb negb is_some].
      rewrite Hp, Hopen, N.eqb_refl. cbn [andb orb negb is_some].
      split; [reflexivity|].
      unfold Inv, ss_next. rewrite Hfsm, Hit', orb_true_r.
      destruct (completing mps s i) eqn:Ecomp.
      + pose proof (completed_complete s i Hwb Hwb' Hs Hrdy Ecomp) as Hcomp.
        cbn [upd set_ref s_fsm s_seq s_wb s_rb s_erdy s_ov s_pos r_exp r_pend r_out r_req r_fly r_nrdy].
        split; [exact Hseq|]. split; [rewrite Hrf; exact empty_wbwf|].
        rewrite Hit, Hrf. unfold bitems at 2. cbn [b_words b_fill b_ended witems app]. rewrite app_nil_r.
        conjs; done1.
      + cbn [upd set_ref s_fsm s_seq s_wb s_rb s_erdy s_ov s_pos r_exp r_pend r_out r_req r_fly r_nrdy].
        split; [exact Hseq|]. split; [exact Hwb'|]. rewrite Hit, Hrd'. cbn [negb].
        conjs; done1.
  Qed.

  Ltac cbn_st := cbn [upd set_ref s_fsm s_seq s_wb s_rb s_erdy s_ov s_pos s_lpz s_of s_ol s_op
                      r_exp r_pend r_out r_req r_fly r_nrdy r_gen].

  Lemma step_req : forall s r i, s_fsm s = REQUEST_IN_TOKEN -> Inv s r -> step_goal s r i.
  Proof.
    intros s r i Hfsm [Hseq [Hwb HI]]. rewrite Hfsm in HI.
    destruct HI as [Hp [Hcomp [Hout [Hreq [Hfly [Hnrdy [Herdy [Hov Hpos]]]]]]]].
    unfold step_goal, ref_step. destruct (env_phase mps ep sb r i) as [r1|] eqn:Eenv; [|exact I].
    apply env_phase_cases in Eenv as [Hs [Hhr Hc]].
    pose proof (write_step s i (ss_outputs mps ep sb s i) Hwb Hs eq_refl) as [Hwb' [Hit _]].
    assert (Ez : o_zlp (ss_outputs mps ep sb s i) = false)
      by (unfold ss_outputs, zlp_now; rewrite Hfsm; reflexivity).
    assert (En : o_nrdy (ss_outputs mps ep sb s i) = false)
      by (unfold ss_outputs, nrdy_now; rewrite Hfsm; reflexivity).
    assert (Ee : o_erdy (ss_outputs mps ep sb s i) = true)
      by (unfold ss_outputs; rewrite Hfsm; reflexivity).
    assert (Eh : o_hoep (ss_outputs mps ep sb s i) = ep mod 128) by reflexivity.
    destruct Hc as [[Hu Hr1]|[Hu [_ [_ [Hn0 _]]]]]; [|rewrite Hn0 in Hnrdy; discriminate].
    subst r1. rewrite judge_quiet by assumption.
    unfold ck_zlp, ck_nrdy, ck_erdy, ck_erdy_live, gen_next, nrdy_acc, erdy_acc, nxt.
    rewrite Ez, En, Ee, Eh, Hreq, Hp, (take_complete _ _ Hcomp), Hout, Hnrdy, N.eqb_refl.
    cbn [andb orb negb is_some].
    split; [destruct (i_hsready i); reflexivity|].
    unfold Inv, ss_next. rewrite Hfsm.
    destruct (i_hsready i) eqn:Ehr; cbn_st; (split; [exact Hseq|]); (split; [exact Hwb'|]);
      rewrite Hit, app_assoc; conjs; done1.
  Qed.

  Lemma zlp_pending_items : forall b, zlp_pending b -> bitems b = [E] /\ set_ended b false = buf_empty.
  Proof.
    intros b [Hf [Hw He]]. unfold bitems, set_ended, buf_empty. rewrite Hf, Hw, He. split; reflexivity.
  Qed.

  Lemma complete_fill_nz : forall b, complete b -> (b_fill b =? 0) = false.
  Proof. intros b [_ [H _]]. apply N.eqb_neq. lia. Qed.

  Lemma step_wts : forall s r i, s_fsm s = WAIT_TO_SEND -> Inv s r -> step_goal s r i.
  Proof.
    intros s r i Hfsm [Hseq [Hwb HI]]. rewrite Hfsm in HI.
    destruct HI as [Hp [Hrb [Hout [Hreq [Hfly [Hnrdy [Herdy [Hov Hpos]]]]]]]].
    unfold step_goal, ref_step. destruct (env_phase mps ep sb r i) as [r1|] eqn:Eenv; [|exact I].
    apply env_phase_cases in Eenv as [Hs [Hhr Hc]].
    pose proof (write_step s i (ss_outputs mps ep sb s i) Hwb Hs eq_refl) as [Hwb' [Hit _]].
    assert (Ez : o_zlp (ss_outputs mps ep sb s i) = in_token ep i && (b_fill (s_rb s) =? 0))
      by (unfold ss_outputs, zlp_now; rewrite Hfsm; reflexivity).
    assert (En : o_nrdy (ss_outputs mps ep sb s i) = false)
      by (unfold ss_outputs, nrdy_now; rewrite Hfsm; reflexivity).
    assert (Ee : o_erdy (ss_outputs mps ep sb s i) = false)
      by (unfold ss_outputs; rewrite Hfsm; reflexivity).
    assert (Esq : o_seq (ss_outputs mps ep sb s i) = r_exp r)
      by (unfold ss_outputs, acked_now; rewrite Hfsm; exact Hseq).
    assert (Eep : o_ep (ss_outputs mps ep sb s i) = ep mod 16) by reflexivity.
    assert (Edir : o_dir (ss_outputs mps ep sb s i) = true) by reflexivity.
    destruct Hc as [[Hu Hr1]|[Hu [_ [_ [Hn0 [Hg0 Hc]]]]]].
    - subst r1. rewrite judge_quiet by assumption.
      assert (Hit' : in_token ep i = false) by (rewrite in_token_us, Hu; reflexivity).
      unfold ck_zlp, ck_nrdy, ck_erdy, ck_erdy_live, gen_next, nrdy_acc, erdy_acc, nxt.
      rewrite Ez, En, Ee, Hit', Hreq, Hout, Hnrdy. cbn [andb orb negb is_some].
      split; [reflexivity|].
      unfold Inv, ss_next. rewrite Hfsm, Hit'. cbn_st.
      split; [exact Hseq|]. split; [exact Hwb'|]. rewrite Hit, app_assoc, Hp. conjs; done1.
    - rewrite Hout in Hc. destruct Hc as [[Hc _]|[[Hc _]|[_ [Hnump Hr1]]]]; try discriminate.
      subst r1. rewrite judge_quiet by (try reflexivity; assumption).
      assert (Hit' : in_token ep i = true) by (rewrite in_token_us, Hu, Hnump; reflexivity).
      unfold ck_zlp, ck_nrdy, ck_erdy, ck_erdy_live, gen_next, nrdy_acc, erdy_acc, nxt, hdr_ok.
      rewrite Ez, En, Ee, Esq, Eep, Edir, Hit', (out_quiet s i Hov). cbn_st. rewrite Hp.
      destruct Hrb as [Hcomp|Hz].
      + (* a data packet is held: it will be sent *)
        rewrite (complete_fill_nz _ Hcomp). cbn [andb orb negb is_some N.ltb N.compare].
        split; [reflexivity|].
        unfold Inv, ss_next. rewrite Hfsm, Hit', (complete_fill_nz _ Hcomp). cbn_st.
        split; [exact Hseq|]. split; [exact Hwb'|]. rewrite Hit, app_assoc. conjs; try done1.
        left. conjs; done1.
      + (* the zero-length packet that ends the transfer *)
        destruct (zlp_pending_items _ Hz) as [Hzi Hze]. destruct Hz as [Hzf _].
        rewrite Hzf, Hzi. cbn [app]. rewrite take_zlp, !N.eqb_refl. cbn [andb orb negb is_some].
        split; [reflexivity|].
        unfold Inv, ss_next. rewrite Hfsm, Hit', Hzf, Hze. cbn_st. change (0 =? 0) with true. cbn_st.
        split; [exact Hseq|]. split; [exact Hwb'|]. rewrite Hit.
        conjs; done1.
  Qed.

  (* ---- sending ---- *)
  Lemma vmask_nz : forall n, 1 <= n <= 4 -> (vmask n =? 0) = false.
  Proof.
    intros n H. assert (n = 1 \/ n = 2 \/ n = 3 \/ n = 4) as [->|[->|[->| ->]]] by lia; reflexivity.
  Qed.

  Lemma ov_eq : forall fill k, 4 * k < fill ->
    (if fill <=? (k + 1) * 4 then vmask (if fill mod 4 =? 0 then 4 else fill mod 4) else 15) =
    vmask (N.min 4 (fill - 4 * k)).
  Proof.
    intros fill k H. destruct (fill <=? (k + 1) * 4) eqn:E.
    - apply N.leb_le in E. f_equal. destruct (fill mod 4 =? 0) eqn:E4.
      + apply N.eqb_eq in E4. lia.
      + apply N.eqb_neq in E4. lia.
    - apply N.leb_gt in E. replace (N.min 4 (fill - 4 * k)) with 4 by lia. reflexivity.
  Qed.

  Lemma last_word_len : forall ws fill k, fits ws fill -> (k < length ws)%nat ->
    (fill <=? (N.of_nat k + 1) * 4) = (S k =? length ws)%nat.
  Proof.
    intros ws fill k [H1 H2] Hk.
    destruct (S k =? length ws)%nat eqn:E.
    - apply Nat.eqb_eq in E. apply N.leb_le. lia.
    - apply Nat.eqb_neq in E. apply N.leb_gt. lia.
  Qed.

  Lemma item_bytes_range : forall ws fill k, fits ws fill -> (k < length ws)%nat ->
    4 * N.of_nat k < fill /\ 1 <= N.min 4 (fill - 4 * N.of_nat k) <= 4.
  Proof. intros ws fill k [H1 H2] Hk. lia. Qed.

  Lemma judge_flying : forall r i o f x n rest,
    o_zlp o = false -> o_nrdy o = false -> o_erdy o = false -> r_nrdy r = false ->
    fly_now mps r o = Some (f, W x n :: rest) ->
    (starts r o = true -> r_req r = Some 2 /\ ck_start mps ep r o = true) ->
    (starts r o = false -> r_req r = None) ->
    o_valid o = vmask n -> o_payload o = x -> o_first o = f ->
    o_last o = (match rest with [] => true | _ => false end) ->
    judge mps ep r i o =
    (set_ref (r_pend r ++ accepted_items i o) (r_exp r) (r_out r || starts r o) None
             (if i_txready i then match rest with [] => None | _ => Some (false, rest) end
              else Some (f, W x n :: rest))
             false (r_gen r && negb (i_hsdone i)), true).
  Proof.
    intros r i o f x n rest Hz Hn He Hnr Hfly Hst Hnst Hv Hpl Hfi Hla.
    unfold judge, ck_word, ck_zlp, ck_nrdy, ck_erdy, ck_erdy_live, ck_one, ck_deadline, answered, nrdy_acc, erdy_acc.
    rewrite Hfly, Hz, Hn, He, Hnr, Hv, Hpl, Hfi, Hla, !N.eqb_refl, !eqb_reflx.
    cbn [andb orb negb]. rewrite !andb_true_r.
    destruct (starts r o) eqn:Es.
    - destruct (Hst eq_refl) as [Hq Hck]. rewrite Hq, Hck, orb_false_r. reflexivity.
    - rewrite (Hnst eq_refl). rewrite !orb_false_r.
      assert (Hck : ck_start mps ep r o = true) by (unfold ck_start; rewrite Es; reflexivity).
      rewrite Hck. reflexivity.
  Qed.

  Lemma fly_facts : forall s r i k l, complete (s_rb s) -> r_pend r = bitems (s_rb s) ++ l ->
    s_seq s = r_exp r -> o_seq (ss_outputs mps ep sb s i) = s_seq s ->
    (k < length (b_words (s_rb s)))%nat -> reg_holds s k -> fly_rel s r k ->
    let o := ss_outputs mps ep sb s i in
    fly_now mps r o = Some ((k =? 0)%nat, W (nth k (b_words (s_rb s)) 0) (N.min 4 (b_fill (s_rb s) - 4 * N.of_nat k))
                                          :: skipn (S k) (rb_items s)) /\
    (starts r o = true -> r_req r = Some 2 /\ ck_start mps ep r o = true) /\
    (starts r o = false -> r_req r = None) /\
    r_out r || starts r o = true.
  Proof.
    intros s r i k l Hcomp Hp Hseq Hoseq Hk [Hop [Hov [Hof Hol]]] Hrel o. subst o.
    pose proof Hcomp as [Hfits [Hfill _]].
    destruct (item_bytes_range _ _ _ Hfits Hk) as [Hk4 Hn].
    assert (Hvz : (o_valid (ss_outputs mps ep sb s i) =? 0) = false)
      by (unfold ss_outputs; cbn [o_valid]; rewrite Hov; apply vmask_nz; exact Hn).
    destruct Hrel as [[Hfly [Hreq Hout]]|[Hk0 [Hfly Hreq]]].
    - unfold fly_now, starts. rewrite Hfly. unfold rb_items. rewrite (skipn_witems _ _ _ Hk Hfits).
      split; [reflexivity|]. split; [intro; discriminate|]. split; [intros _; exact Hreq|].
      rewrite Hout. reflexivity.
    - subst k. unfold fly_now, starts, nxt. rewrite Hfly, Hvz, Hp, (take_complete _ _ Hcomp). cbn [negb].
      split; [|split; [|split]].
      + f_equal. f_equal. unfold rb_items. rewrite <- (skipn_witems _ _ _ Hk Hfits). reflexivity.
      + intros _. split; [exact Hreq|]. unfold ck_start, starts, nxt, hdr_ok.
        rewrite Hfly, Hvz, Hp, (take_complete _ _ Hcomp), Hreq, (pkt_bytes_witems _ _ Hfits). cbn [negb is_some andb].
        rewrite Hoseq, Hseq. unfold ss_outputs. cbn [o_length o_ep o_dir].
        rewrite !N.eqb_refl. replace (b_fill (s_rb s) =? 0) with false by (symmetry; apply N.eqb_neq; lia).
        reflexivity.
      + intro; discriminate.
      + apply orb_true_r.
  Qed.

  Lemma skipn_S_nil : forall ws fill k, S k = length ws -> skipn (S k) (witems ws fill) = [].
  Proof. intros ws fill k H. rewrite H. apply skipn_all_witems. Qed.

  Lemma skipn_S_cons : forall ws fill k, (S k < length ws)%nat ->
    match skipn (S k) (witems ws fill) with [] => true | _ => false end = false.
  Proof.
    intros ws fill k H. destruct (skipn (S k) (witems ws fill)) eqn:E; [|reflexivity].
    apply (f_equal (@length item)) in E. rewrite skipn_length, witems_length in E. simpl in E. lia.
  Qed.

  Lemma step_send : forall s r i, s_fsm s = SEND_PACKET -> Inv s r -> step_goal s r i.
  Proof.
    intros s r i Hfsm [Hseq [Hwb HI]]. rewrite Hfsm in HI.
    destruct HI as [Hp [Hcomp [Hnrdy [Herdy [Hlpz Hsub]]]]].
    unfold step_goal, ref_step. destruct (env_phase mps ep sb r i) as [r1|] eqn:Eenv; [|exact I].
    apply env_phase_cases in Eenv as [Hs [Hhr Hc]].
    pose proof (write_step s i (ss_outputs mps ep sb s i) Hwb Hs eq_refl) as [Hwb' [Hit _]].
    pose proof Hcomp as [Hfits [Hfill _]].
    assert (Ez : o_zlp (ss_outputs mps ep sb s i) = false)
      by (unfold ss_outputs, zlp_now; rewrite Hfsm; reflexivity).
    assert (En : o_nrdy (ss_outputs mps ep sb s i) = false)
      by (unfold ss_outputs, nrdy_now; rewrite Hfsm; reflexivity).
    assert (Ee : o_erdy (ss_outputs mps ep sb s i) = false)
      by (unfold ss_outputs; rewrite Hfsm; reflexivity).
    assert (Esq : o_seq (ss_outputs mps ep sb s i) = s_seq s)
      by (unfold ss_outputs, acked_now; rewrite Hfsm; reflexivity).
    assert (Hnous : r1 = r).
    { destruct Hc as [[_ H]|[_ [Hq [Hf _]]]]; [exact H|]. exfalso.
      destruct Hsub as [[_ [_ [_ Hq']]]|[k [_ [_ [_ [[Hf' _]|[_ [_ Hq']]]]]]]]; congruence. }
    subst r1. clear Hc.
    destruct Hsub as [[Hpos [Hov [Hfly Hreq]]]|[k [Hpos [Hk [Hreg Hrel]]]]].
    - (* the first word is fetched *)
      rewrite judge_quiet by assumption.
      unfold ck_zlp, ck_nrdy, ck_erdy, ck_erdy_live, gen_next, nrdy_acc, erdy_acc, nxt.
      rewrite Ez, En, Ee, Hreq, Hnrdy. cbn [andb orb negb is_some]. split; [reflexivity|].
      assert (H0 : (0 < length (b_words (s_rb s)))%nat) by (destruct Hfits; lia).
      unfold Inv, ss_next. rewrite Hfsm. unfold tx_free, last_word. rewrite Hov, Hpos. change (0 =? 0) with true.
      cbn [orb]. rewrite (ov_eq _ 0) by lia. change (0 + 1) with (N.of_nat 0 + 1).
      rewrite (last_word_len _ _ 0%nat Hfits H0).
      destruct (1 =? length (b_words (s_rb s)))%nat eqn:El; cbn_st; rewrite Hlpz;
        (split; [exact Hseq|]); (split; [exact Hwb'|]); rewrite Hit, app_assoc, Hp.
      + conjs; try done1. right. exists 0%nat. split; [apply Nat.eqb_eq; exact El|].
        split; [unfold reg_holds; cbn_st; rewrite El; conjs; reflexivity|].
        right. cbn_st. conjs; reflexivity.
      + conjs; try done1. right. exists 0%nat. apply Nat.eqb_neq in El. split; [reflexivity|]. split; [lia|].
        split; [unfold reg_holds; cbn_st; conjs; try reflexivity; symmetry; apply Nat.eqb_neq; exact El|].
        right. cbn_st. conjs; reflexivity.
    - (* word k is on offer *)
      assert (Hk' : (k < length (b_words (s_rb s)))%nat) by lia.
      destruct (fly_facts s r i k _ Hcomp Hp Hseq Esq Hk' Hreg Hrel) as [Hfn [Hst [Hnst Hout']]].
      pose proof Hreg as [Hop [Hov [Hof Hol]]].
      destruct (item_bytes_range _ _ _ Hfits Hk') as [Hk4 Hn].
      rewrite (judge_flying r i _ _ _ _ _ Ez En Ee Hnrdy Hfn Hst Hnst Hov Hop Hof)
        by (unfold ss_outputs; cbn [o_last]; rewrite Hol; unfold rb_items; rewrite skipn_S_cons by exact Hk;
            apply Nat.eqb_neq; lia).
      split; [reflexivity|]. rewrite Hout'. unfold rb_items.
      unfold Inv, ss_next. rewrite Hfsm. unfold tx_free, last_word. rewrite Hov, (vmask_nz _ Hn), Hpos. cbn [orb].
      destruct (i_txready i) eqn:Etx.
      + (* accepted: the next word is fetched *)
        assert (HSk : (S k < length (b_words (s_rb s)))%nat) by exact Hk.
        rewrite (ov_eq _ (N.of_nat (S k))) by (destruct (item_bytes_range _ _ _ Hfits HSk); assumption).
        rewrite (last_word_len _ _ (S k) Hfits HSk), Nat2N.id.
        replace (N.of_nat (S k) =? 0) with false by (symmetry; apply N.eqb_neq; lia).
        destruct (S (S k) =? length (b_words (s_rb s)))%nat eqn:El; cbn_st; rewrite Hlpz;
          (split; [exact Hseq|]); (split; [exact Hwb'|]); rewrite Hit, app_assoc, Hp;
          destruct (skipn (S k) (witems (b_words (s_rb s)) (b_fill (s_rb s)))) as [|it rest] eqn:Esk;
          try (apply (f_equal (@length item)) in Esk; rewrite skipn_length, witems_length in Esk; simpl in Esk; lia).
        * conjs; try done1. right. exists (S k). split; [apply Nat.eqb_eq; exact El|].
          split; [unfold reg_holds; cbn_st; rewrite El; conjs; reflexivity|].
          left. cbn_st. unfold rb_items. cbn_st. rewrite Esk. conjs; reflexivity.
        * conjs; try done1. right. exists (S k). apply Nat.eqb_neq in El. split; [rewrite !Nat2N.inj_succ; lia|].
          split; [lia|].
          split; [unfold reg_holds; cbn_st; conjs; try reflexivity; symmetry; apply Nat.eqb_neq; exact El|].
          left. cbn_st. unfold rb_items. cbn_st. rewrite Esk. conjs; reflexivity.
      + (* not accepted: the word stays *)
        cbn_st. split; [exact Hseq|]. split; [exact Hwb'|]. rewrite Hit, app_assoc, Hp.
        conjs; try done1. right. exists k. split; [reflexivity|]. split; [exact Hk|].
        split; [unfold reg_holds; cbn_st; conjs; assumption || reflexivity|].
        left. unfold rb_items. cbn_st. rewrite (skipn_witems _ _ _ Hk' Hfits). conjs; reflexivity.
  Qed.

  (* ---- waiting for the host's ACK ---- *)
  Lemma is_retry_eq : forall s r i, s_seq s = r_exp r -> is_retry sb s i = retry_c r i.
  Proof. intros s r i H. unfold is_retry, retry_c, advancing, next_seq. rewrite H. reflexivity. Qed.

  Lemma bitems_empty : bitems buf_empty = [].
  Proof. reflexivity. Qed.

  (* the host acknowledged the outstanding packet and no zero-length packet has to follow:
     what is left behind the acknowledged packet is the write buffer's content *)
  Lemma ack_next : forall s r i,
    s_fsm s = WAIT_FOR_ACK -> s_seq s = r_exp r -> wbwf (s_wb s) -> s_erdy s = false -> s_ov s = 0 ->
    stream_ok i = true -> r_to_us ep i = true -> is_retry sb s i = false -> follow_zlp mps s = false ->
    i_hsready i = true ->
    let r1 := set_ref (bitems (s_wb s)) ((r_exp r + 1) mod 2 ^ sb) false
                      (if i_nump i =? 0 then None else Some 0) None false false in
    let (r', ok) := judge mps ep r1 i (ss_outputs mps ep sb s i) in
    ok = true /\ Inv (ss_next mps ep sb s i) r'.
  Proof.
    intros s r i Hfsm Hseq Hwb Herdy Hov Hs Hu Hretry Hfz Hhr r1.
    pose proof (write_step s i (ss_outputs mps ep sb s i) Hwb Hs eq_refl) as [Hwb' [Hit Hrd']].
    assert (Hus : to_us ep i = true) by exact Hu.
    assert (Ez : o_zlp (ss_outputs mps ep sb s i) = false)
      by (unfold ss_outputs, zlp_now; rewrite Hfsm, Hus, Hretry, Hfz; reflexivity).
    assert (En : o_nrdy (ss_outputs mps ep sb s i) =
                 negb (negb (wb_ready mps (s_wb s)) || completing mps s i) && is_in i)
      by (unfold ss_outputs, nrdy_now, acked_now; rewrite Hfsm, Hus, Hretry, Hfz; reflexivity).
    assert (Ee : o_erdy (ss_outputs mps ep sb s i) = false)
      by (unfold ss_outputs; rewrite Hfsm; reflexivity).
    assert (Eh : o_hoep (ss_outputs mps ep sb s i) = ep mod 128) by reflexivity.
    rewrite judge_quiet by (try reflexivity; assumption).
    unfold ck_zlp, ck_nrdy, ck_erdy, ck_erdy_live, gen_next, nrdy_acc, erdy_acc, nxt.
    rewrite Ez, En, Ee, Eh, Hhr. unfold r1. cbn_st.
    assert (Hnseq : next_seq sb s = (r_exp r + 1) mod 2 ^ sb) by (unfold next_seq; rewrite Hseq; reflexivity).
    unfold Inv, ss_next. rewrite Hfsm, Hus, Hretry, Hfz. unfold tx_free. rewrite Hov. change (0 =? 0) with true.
    cbn [orb]. unfold is_in.
    destruct (negb (wb_ready mps (s_wb s)) || completing mps s i) eqn:Etog.
    - (* the next packet is complete: swap the buffers *)
      assert (Hcomp : complete (wb_after mps s i)).
      { destruct (wb_ready mps (s_wb s)) eqn:Er.
        - cbn [negb orb] in Etog. apply (completed_complete s i Hwb Hwb' Hs Er Etog).
        - apply closed_complete; [exact Hwb'|]. unfold wb_after, wr_en. rewrite Er, andb_false_r. exact Er. }
      destruct (i_nump i =? 0) eqn:Enp; cbn [negb andb orb is_some N.ltb N.compare]; (split; [reflexivity|]); cbn_st;
        (split; [exact Hnseq|]); (split; [exact empty_wbwf|]); rewrite Hit, bitems_empty, app_nil_r;
        conjs; try done1.
      left. conjs; done1.
    - (* nothing to send yet *)
      apply orb_false_iff in Etog as [Er Ecomp]. apply negb_false_iff in Er.
      pose proof (take_open _ Hwb Er) as Hopen. rewrite Hopen. specialize (Hrd' Er). rewrite Ecomp in Hrd'.
      cbn [negb andb orb is_some]. rewrite N.eqb_refl.
      destruct (i_nump i =? 0) eqn:Enp; cbn [negb andb orb is_some]; (split; [reflexivity|]); cbn_st;
        (split; [exact Hnseq|]); (split; [exact Hwb'|]); rewrite Hit, Herdy; conjs; done1.
  Qed.

  Lemma acked_zlp_pending : forall b, b_ended b = true -> zlp_pending (acked b).
  Proof. intros b H. unfold zlp_pending, acked. cbn. repeat split. exact H. Qed.

  Lemma step_wfa : forall s r i, s_fsm s = WAIT_FOR_ACK -> Inv s r -> step_goal s r i.
  Proof.
    intros s r i Hfsm [Hseq [Hwb HI]]. rewrite Hfsm in HI. destruct HI as [Hnrdy [Herdy HI]].
    unfold step_goal, ref_step. destruct (env_phase mps ep sb r i) as [r1|] eqn:Eenv; [|exact I].
    apply env_phase_cases in Eenv as [Hs [Hhr Hc]].
    pose proof (write_step s i (ss_outputs mps ep sb s i) Hwb Hs eq_refl) as [Hwb' [Hit _]].
    assert (Ee : o_erdy (ss_outputs mps ep sb s i) = false)
      by (unfold ss_outputs; rewrite Hfsm; reflexivity).
    assert (Eh : o_hoep (ss_outputs mps ep sb s i) = ep mod 128) by reflexivity.
    assert (Eep : o_ep (ss_outputs mps ep sb s i) = ep mod 16) by reflexivity.
    assert (Edir : o_dir (ss_outputs mps ep sb s i) = true) by reflexivity.
    destruct Hc as [[Hu Hr1]|[Hu [Hq0 [Hf0 [Hn0 [Hg0 Hc]]]]]].
    - (* ---- no transaction packet for us ---- *)
      subst r1. assert (Hus : to_us ep i = false) by exact Hu.
      assert (Ez : o_zlp (ss_outputs mps ep sb s i) = false)
        by (unfold ss_outputs, zlp_now; rewrite Hfsm, Hus; reflexivity).
      assert (En : o_nrdy (ss_outputs mps ep sb s i) = false)
        by (unfold ss_outputs, nrdy_now, acked_now; rewrite Hfsm, Hus; reflexivity).
      assert (Esq : o_seq (ss_outputs mps ep sb s i) = s_seq s)
        by (unfold ss_outputs, acked_now; rewrite Hfsm, Hus; reflexivity).
      assert (Hquiet : s_ov s = 0 -> r_fly r = None -> r_req r = None ->
                let (r', ok) := judge mps ep r i (ss_outputs mps ep sb s i) in
                ok = true /\ r' = set_ref (r_pend r ++ accepted_items i (ss_outputs mps ep sb s i)) (r_exp r)
                                         (r_out r) None None false (r_gen r && negb (i_hsdone i))).
      { intros Hov Hfly Hreq. rewrite judge_quiet by assumption.
        unfold ck_zlp, ck_nrdy, ck_erdy, ck_erdy_live, gen_next, nrdy_acc, erdy_acc, nxt.
        rewrite Ez, En, Ee, Hreq, Hnrdy. cbn [andb orb negb is_some]. rewrite orb_false_r. split; reflexivity. }
      destruct (s_lpz s) eqn:Elpz.
      + destruct HI as [Hp [Hrb [Hov [Hfly [Hreq Hout]]]]].
        destruct (judge mps ep r i (ss_outputs mps ep sb s i)) as [r' ok]. destruct (Hquiet Hov Hfly Hreq) as [-> ->].
        split; [reflexivity|]. unfold Inv, ss_next. rewrite Hfsm, Hus. unfold tx_free. rewrite Hov. cbn_st.
        rewrite Elpz. split; [exact Hseq|]. split; [exact Hwb'|]. rewrite Hit, Hp. conjs; done1.
      + destruct HI as [Hp [Hcomp Hsub]].
        destruct Hsub as [[Hov [Hfly [Hreq Hout]]]|[k [Hk [Hreg Hrel]]]].
        * destruct (judge mps ep r i (ss_outputs mps ep sb s i)) as [r' ok]. destruct (Hquiet Hov Hfly Hreq) as [-> ->].
          split; [reflexivity|]. unfold Inv, ss_next. rewrite Hfsm, Hus. unfold tx_free. rewrite Hov. cbn_st.
          rewrite Elpz. split; [exact Hseq|]. split; [exact Hwb'|]. rewrite Hit, app_assoc, Hp. conjs; try done1.
          left. conjs; done1.
        * (* the last word is on offer *)
          pose proof Hcomp as [Hfits [Hfill _]].
          assert (Hk' : (k < length (b_words (s_rb s)))%nat) by lia.
          destruct (fly_facts s r i k _ Hcomp Hp Hseq Esq Hk' Hreg Hrel) as [Hfn [Hst [Hnst Hout']]].
          pose proof Hreg as [Hop [Hov [Hof Hol]]].
          destruct (item_bytes_range _ _ _ Hfits Hk') as [Hk4 Hn].
          rewrite (judge_flying r i _ _ _ _ _ Ez En Ee Hnrdy Hfn Hst Hnst Hov Hop Hof)
            by (unfold ss_outputs; cbn [o_last]; rewrite Hol; unfold rb_items; rewrite (skipn_S_nil _ _ _ Hk);
                apply Nat.eqb_eq; exact Hk).
          split; [reflexivity|]. rewrite Hout'. unfold rb_items. rewrite (skipn_S_nil _ _ _ Hk).
          unfold Inv, ss_next. rewrite Hfsm, Hus. unfold tx_free. rewrite Hov, (vmask_nz _ Hn). cbn [orb].
          destruct (i_txready i) eqn:Etx; cbn_st; rewrite Elpz;
            (split; [exact Hseq|]); (split; [exact Hwb'|]); rewrite Hit, app_assoc, Hp; conjs; try done1.
          -- left. conjs; reflexivity.
          -- right. exists k. split; [exact Hk|].
             split; [unfold reg_holds; cbn_st; conjs; assumption || reflexivity|].
             left. unfold rb_items. cbn_st. rewrite (skipn_witems _ _ _ Hk' Hfits), (skipn_S_nil _ _ _ Hk).
             conjs; reflexivity.
    - (* ---- an ACK TP for us ---- *)
      assert (Hus : to_us ep i = true) by exact Hu.
      rewrite Hg0 in Hhr. cbn [negb] in Hhr.
      (* nothing is in flight, hence the tx register is free *)
      assert (Hov : s_ov s = 0 /\ r_out r = true).
      { destruct (s_lpz s); [destruct HI as [_ [_ [H [_ [_ H2]]]]]; split; assumption|].
        destruct HI as [_ [_ [[H [_ [_ H2]]]|[k [_ [_ [[Hf _]|[_ [_ Hq]]]]]]]]]; [split; assumption| congruence | congruence]. }
      destruct Hov as [Hov Hout]. rewrite Hout in Hc.
      destruct Hc as [[_ [Hretry Hr1]]|[[_ [Hretry [p [rest [Htake Hr1]]]]]|[Hc _]]]; [| |discriminate].
      + (* retry *)
        assert (Hre : is_retry sb s i = true) by (rewrite (is_retry_eq s r i Hseq); exact Hretry).
        assert (Ez : o_zlp (ss_outputs mps ep sb s i) = s_lpz s)
          by (unfold ss_outputs, zlp_now; rewrite Hfsm, Hus, Hre; reflexivity).
        assert (En : o_nrdy (ss_outputs mps ep sb s i) = false)
          by (unfold ss_outputs, nrdy_now, acked_now; rewrite Hfsm, Hus, Hre; reflexivity).
        assert (Esq : o_seq (ss_outputs mps ep sb s i) = r_exp r)
          by (unfold ss_outputs, acked_now; rewrite Hfsm, Hus, Hre; exact Hseq).
        subst r1. rewrite judge_quiet by (try reflexivity; assumption).
        unfold ck_zlp, ck_nrdy, ck_erdy, ck_erdy_live, gen_next, nrdy_acc, erdy_acc, nxt, hdr_ok.
        rewrite Ez, En, Ee, Esq, Eep, Edir, (out_quiet s i Hov). cbn_st.
        unfold Inv, ss_next. rewrite Hfsm, Hus, Hre. unfold tx_free. rewrite Hov. change (0 =? 0) with true. cbn [orb].
        destruct (s_lpz s) eqn:Elpz.
        * destruct HI as [Hp [Hrb _]]. rewrite Hp, take_zlp, !N.eqb_refl. cbn [andb orb negb is_some].
          split; [reflexivity|]. cbn_st.
          split; [exact Hseq|]. split; [exact Hwb'|]. rewrite Hit. conjs; done1.
        * destruct HI as [Hp [Hcomp _]]. cbn [andb orb negb is_some N.ltb N.compare].
          split; [reflexivity|]. cbn_st.
          split; [exact Hseq|]. split; [exact Hwb'|]. rewrite Hit, app_assoc, Hp. conjs; try done1.
          left. conjs; done1.
      + (* acknowledgement *)
        assert (Hre : is_retry sb s i = false) by (rewrite (is_retry_eq s r i Hseq); exact Hretry).
        destruct (s_lpz s) eqn:Elpz.
        * (* ... of a zero-length packet *)
          destruct HI as [Hp [Hrb _]]. rewrite Hp, take_zlp in Htake. apply some_inj in Htake.
          assert (Hrest : rest = bitems (s_wb s)) by congruence. subst rest r1.
          assert (Hfz : follow_zlp mps s = false)
            by (unfold follow_zlp; rewrite Hrb; cbn [b_fill buf_empty];
                replace (0 =? mps) with false by (symmetry; apply N.eqb_neq; lia); reflexivity).
          exact (ack_next s r i Hfsm Hseq Hwb Herdy Hov Hs Hu Hre Hfz Hhr).
        * destruct HI as [Hp [Hcomp _]]. rewrite Hp, (take_complete _ _ Hcomp) in Htake. apply some_inj in Htake.
          assert (Hrest : rest = (if (b_fill (s_rb s) =? mps) && b_ended (s_rb s) then [E] else []) ++ bitems (s_wb s))
            by congruence.
          fold (follow_zlp mps s) in Hrest.
          destruct (follow_zlp mps s) eqn:Hfz.
          2:{ cbn [app] in Hrest. subst rest r1.
              exact (ack_next s r i Hfsm Hseq Hwb Herdy Hov Hs Hu Hre Hfz Hhr). }
          (* ... of a full packet that ended the transfer: a zero-length packet follows *)
          cbn [app] in Hrest. subst rest r1.
          assert (Hended : b_ended (s_rb s) = true)
            by (unfold follow_zlp in Hfz; apply andb_true_iff in Hfz; apply Hfz).
          assert (Ez : o_zlp (ss_outputs mps ep sb s i) = is_in i)
            by (unfold ss_outputs, zlp_now; rewrite Hfsm, Hus, Hre, Hfz; reflexivity).
          assert (En : o_nrdy (ss_outputs mps ep sb s i) = false)
            by (unfold ss_outputs, nrdy_now, acked_now; rewrite Hfsm, Hus, Hre, Hfz; reflexivity).
          assert (Hnseq : next_seq sb s = (r_exp r + 1) mod 2 ^ sb) by (unfold next_seq; rewrite Hseq; reflexivity).
          assert (Esq : o_seq (ss_outputs mps ep sb s i) = if is_in i then (r_exp r + 1) mod 2 ^ sb else s_seq s)
            by (unfold ss_outputs, acked_now; rewrite Hfsm, Hus, Hre, Hfz, Hnseq; reflexivity).
          rewrite judge_quiet by (try reflexivity; assumption).
          unfold ck_zlp, ck_nrdy, ck_erdy, ck_erdy_live, gen_next, nrdy_acc, erdy_acc, nxt, hdr_ok.
          rewrite Ez, En, Ee, Esq, Eep, Edir, (out_quiet s i Hov). cbn_st. rewrite take_zlp.
          unfold Inv, ss_next. rewrite Hfsm, Hus, Hre, Hfz. unfold tx_free. rewrite Hov. change (0 =? 0) with true.
          cbn [orb]. unfold is_in.
          destruct (i_nump i =? 0) eqn:Enp; cbn [negb andb orb is_some]; rewrite ?N.eqb_refl; cbn [negb andb orb is_some];
            (split; [reflexivity|]); cbn_st; (split; [exact Hnseq|]); (split; [exact Hwb'|]); rewrite Hit.
          -- destruct (zlp_pending_items _ (acked_zlp_pending _ Hended)) as [Hzi _]. rewrite Hzi.
             conjs; try done1. right. apply acked_zlp_pending. exact Hended.
          -- conjs; done1.
  Qed.

  Lemma step_ok : forall s r i, Inv s r -> step_goal s r i.
  Proof.
    intros s r i H. destruct (s_fsm s) eqn:E.
    - apply step_wfd; assumption.
    - apply step_req; assumption.
    - apply step_wts; assumption.
    - apply step_send; assumption.
    - apply step_wfa; assumption.
  Qed.

  Lemma accepts_inv : forall tr s r, Inv s r ->
    accepts (ss_next mps ep sb) (ss_outputs mps ep sb) (ref_step mps ep sb) s r tr = true.
  Proof.
    induction tr as [|i t IH]; intros s r H; [reflexivity|].
    cbn [accepts]. pose proof (step_ok s r i H) as Hs. unfold step_goal in Hs.
    destruct (ref_step mps ep sb r i (ss_outputs mps ep sb s i)) as [[r' ok]|]; [|reflexivity].
    destruct Hs as [-> Hi]. cbn [andb]. apply IH. exact Hi.
  Qed.

  (* MAIN THEOREM: the referee accepts every interface trace of the endpoint model *)
  Theorem ssin_accepted : forall tr,
    accepts (ss_next mps ep sb) (ss_outputs mps ep sb) (ref_step mps ep sb) ss_init ref_init tr = true.
  Proof. intro tr. apply accepts_inv. apply Inv_init. Qed.
End Inv.

(* ------------------------------------------------------------------------------------------ *)
(* 3. Packing lemmas (for the lock-step tie)                                                   *)
Lemma lo_pkb : forall w x rest, x < 2 ^ w -> lo w (pkb w x rest) = x.
Proof.
  intros w x rest H. unfold lo, pkb. rewrite N.land_lor_distr_l.
  rewrite (N.land_ones (N.shiftl rest w)), N.shiftl_mul_pow2, N.mod_mul by (apply N.pow_nonzero; lia).
  rewrite N.lor_0_r, N.land_ones. apply N.mod_small. exact H.
Qed.

Lemma hi_pkb : forall w x rest, x < 2 ^ w -> hi w (pkb w x rest) = rest.
Proof.
  intros w x rest H. unfold hi, pkb. rewrite N.shiftr_lor, N.shiftr_shiftl_l, N.sub_diag, N.shiftl_0_r by lia.
  rewrite N.shiftr_div_pow2, N.div_small by exact H. apply N.lor_0_l.
Qed.

Lemma odd_pkb : forall (b : bool) rest, N.odd (pkb 1 (b2n b) rest) = b.
Proof.
  intros b rest. rewrite <- N.bit0_odd. unfold pkb. rewrite N.lor_spec, N.shiftl_spec_low by lia.
  rewrite orb_false_r. destruct b; reflexivity.
Qed.

Lemma hi_pkb_b : forall (b : bool) rest, hi 1 (pkb 1 (b2n b) rest) = rest.
Proof. intros. apply hi_pkb. destruct b; cbn; lia. Qed.

Lemma unpackr_packr : forall w l rest, Forall (fun x => x < 2 ^ w) l ->
  unpackr w (length l) (packr w l rest) = (l, rest).
Proof.
  induction l as [|x t IH]; intros rest H; [reflexivity|].
  inversion H as [|? ? Hx Ht]; subst. cbn [length packr unpackr].
  rewrite hi_pkb, lo_pkb by exact Hx. rewrite IH by exact Ht. reflexivity.
Qed.

Lemma dec_enc_list : forall w l rest, N.of_nat (length l) < 2 ^ 16 -> Forall (fun x => x < 2 ^ w) l ->
  dec_list w (enc_list w l rest) = (l, rest).
Proof.
  intros w l rest Hl Hf. unfold dec_list, enc_list. rewrite lo_pkb, hi_pkb by exact Hl.
  rewrite Nat2N.id. apply unpackr_packr. exact Hf.
Qed.

Definition buf_wf (b : buf) : Prop :=
  b_fill b < 2048 /\ N.of_nat (length (b_words b)) <= 512 /\ Forall (fun x => x < 2 ^ 32) (b_words b).

Definition ss_wf (s : ss_state) : Prop :=
  s_seq s < 32 /\ s_pos s < 2048 /\ s_ov s < 16 /\ s_op s < 2 ^ 32 /\ buf_wf (s_rb s) /\ buf_wf (s_wb s).

Lemma fsm_of_code : forall f, fsm_of (fsm_code f) = f.
Proof. destruct f; reflexivity. Qed.

Lemma fsm_code_lt : forall f, fsm_code f < 2 ^ 3.
Proof. destruct f; cbn; lia. Qed.

Lemma ss_dec_enc : forall s, ss_wf s -> ss_dec (ss_enc s) = s.
Proof.
  intros [f sq [rw rf re] [ww wf we] pos lpz erdy ov ofi ol op] [Hsq [Hpos [Hov [Hop [[Hrf [Hrl Hrw]] [Hwf [Hwl Hww]]]]]]].
  cbn [s_seq s_pos s_ov s_op s_rb s_wb b_fill b_words] in *.
  unfold ss_dec, ss_enc. cbn [s_fsm s_seq s_pos s_lpz s_erdy s_ov s_of s_ol s_op s_rb s_wb b_words b_fill b_ended].
  rewrite !lo_pkb, !hi_pkb by (try apply fsm_code_lt; cbn; lia).
  repeat (rewrite ?odd_pkb, ?hi_pkb_b, ?lo_pkb, ?hi_pkb by (try apply fsm_code_lt; cbn; lia)).
  rewrite dec_enc_list by (try assumption; cbn; lia).
  rewrite dec_enc_list by (try assumption; cbn; lia).
  rewrite fsm_of_code. reflexivity.
Qed.

Lemma Forall_firstn_N : forall (P : N -> Prop) k l, Forall P l -> Forall P (firstn k l).
Proof.
  induction k as [|k IH]; intros l H; [constructor|]. destruct l as [|x t]; [constructor|].
  inversion H; subst. cbn. constructor; [assumption | apply IH; assumption].
Qed.

Lemma ss_wf_init : ss_wf ss_init.
Proof. unfold ss_wf, ss_init, buf_wf, buf_empty. cbn. repeat split; try lia; constructor. Qed.

Lemma bits_lt32 : forall i, i_payload i < 2 ^ 32.
Proof.
  intro i. unfold i_payload, bits. rewrite N.land_ones. apply N.mod_lt. apply N.pow_nonzero. lia.
Qed.

Lemma nbytes_le : forall v, nbytes v <= 4.
Proof.
  intro v. unfold nbytes. destruct v as [|p]; [lia|].
  destruct p as [[[[|[]|]|[]|]|[]|]|[]|]; lia.
Qed.

Lemma vmask_lt16 : forall n, n <= 4 -> vmask n < 16.
Proof.
  intros n H. assert (n = 0 \/ n = 1 \/ n = 2 \/ n = 3 \/ n = 4) as [->|[->|[->|[->| ->]]]] by lia; cbn; lia.
Qed.

Section Wf.
  Variables (mps ep sb : N).
  Hypothesis Hmps1k : mps <= 1024.
  Hypothesis Hsb : sb <= 5.

  Lemma buf_empty_wf : buf_wf buf_empty.
  Proof. unfold buf_wf, buf_empty. cbn. repeat split; try lia; constructor. Qed.

  Lemma wb_after_wf : forall s i, buf_wf (s_wb s) -> buf_wf (wb_after mps s i).
  Proof.
    intros s i [Hf [Hl Hw]]. unfold wb_after, wr_en. destruct (negb (i_valid i =? 0) && wb_ready mps (s_wb s)) eqn:E.
    - apply andb_true_iff in E as [_ E]. unfold wb_ready in E. apply andb_true_iff in E as [E _]. apply N.leb_le in E.
      pose proof (nbytes_le (i_valid i)). unfold buf_wf. cbn [b_fill b_words].
      split; [lia|]. split.
      + rewrite app_length, firstn_length. cbn [length].
        assert (N.to_nat (b_fill (s_wb s) / 4) <= 256)%nat by lia. lia.
      + apply Forall_app. split; [apply Forall_firstn_N; exact Hw|]. constructor; [apply bits_lt32 | constructor].
    - repeat split; assumption.
  Qed.

  Lemma next_seq_lt : forall s, next_seq sb s < 32.
  Proof.
    intro s. unfold next_seq. assert (2 ^ sb <= 2 ^ 5) by (apply N.pow_le_mono_r; lia).
    assert (0 < 2 ^ sb) by (apply N.neq_0_lt_0, N.pow_nonzero; lia).
    pose proof (N.mod_lt (s_seq s + 1) (2 ^ sb)). change (2 ^ 5) with 32 in *. lia.
  Qed.

  Lemma nth_lt32 : forall (l : list N) k, Forall (fun x => x < 2 ^ 32) l -> nth k l 0 < 2 ^ 32.
  Proof.
    induction l as [|x t IH]; intros k H; [destruct k; cbn; lia|].
    inversion H; subst. destruct k; cbn; [assumption | apply IH; assumption].
  Qed.

  Lemma ss_wf_step : forall s i, ss_wf s -> ss_wf (fst (ss_step mps ep sb s i)).
  Proof.
    intros s i [Hsq [Hpos [Hov [Hop [Hrb Hwb]]]]]. cbn [ss_step fst].
    pose proof (wb_after_wf s i Hwb) as Hwb'. pose proof (next_seq_lt s) as Hns.
    pose proof buf_empty_wf as Hbe.
    assert (Hack : buf_wf (acked (s_rb s))) by (unfold acked, buf_wf; cbn; repeat split; try lia; constructor).
    assert (Hack2 : buf_wf (set_ended (acked (s_rb s)) false)) by (unfold set_ended, acked, buf_wf; cbn; repeat split; try lia; constructor).
    assert (Hse : buf_wf (set_ended (s_rb s) false)) by (destruct Hrb as [? [? ?]]; unfold set_ended, buf_wf; cbn; repeat split; assumption).
    assert (Hnw : buf_wf {| b_words := []; b_fill := b_fill (s_rb s); b_ended := false |})
      by (destruct Hrb as [? [? ?]]; unfold buf_wf; cbn; repeat split; try assumption; try lia; constructor).
    assert (Hm : forall x, x mod 2048 < 2048) by (intro; apply N.mod_lt; lia).
    assert (Hvm : forall f, vmask (if f mod 4 =? 0 then 4 else f mod 4) < 16).
    { intro f. apply vmask_lt16. destruct (f mod 4 =? 0); [lia|]. pose proof (N.mod_lt f 4). lia. }
    assert (Hnth : forall k, nth k (b_words (s_rb s)) 0 < 2 ^ 32) by (intro; apply nth_lt32; apply Hrb).
    unfold ss_next, ss_wf.
    destruct (s_fsm s);
      repeat match goal with |- context [if ?c then _ else _] => destruct c end;
      cbn [upd s_seq s_pos s_ov s_op s_rb s_wb]; repeat split; try assumption; try lia; try apply Hm; try apply Hvm;
      try apply Hnth; try apply Hrb; try apply Hwb'; try apply Hbe; try apply Hack; try apply Hack2; try apply Hse; try apply Hnw;
      try (apply vmask_lt16; pose proof (N.mod_lt (b_fill (s_rb s)) 4); lia).
  Qed.
End Wf.

(* ------------------------------------------------------------------------------------------ *)
(* 4. Output words                                                                             *)
Definition out_wf (o : ss_out) : Prop :=
  o_valid o < 16 /\ o_payload o < 2 ^ 32 /\ o_length o < 2 ^ 11 /\ o_seq o < 2 ^ 5 /\ o_ep o < 16 /\ o_hoep o < 128.

Lemma b2n_lt2 : forall b, b2n b < 2.
Proof. destruct b; cbn; lia. Qed.

Lemma b2n_inj : forall a b, b2n a = b2n b -> a = b.
Proof. destruct a, b; cbn; intros; (reflexivity || discriminate). Qed.

Lemma testbit_b2n : forall w k (b : bool), (w / 2 ^ k) mod 2 = b2n b -> N.testbit w k = b.
Proof.
  intros w k b H. pose proof (N.testbit_spec' w k) as T. rewrite H in T.
  destruct (N.testbit w k), b; unfold N.b2n, b2n in T; try reflexivity; discriminate.
Qed.

Lemma bits_divmod : forall x lo w, bits x lo w = (x / 2 ^ lo) mod 2 ^ w.
Proof. intros. unfold bits. rewrite N.land_ones, N.shiftr_div_pow2. reflexivity. Qed.

Lemma unpack_pack_out : forall o, out_wf o -> unpack_out (pack_out o) = o.
Proof.
  intros [rdy v fi la pl z len sq e d nr er he] [Hv [Hpl [Hlen [Hsq [He Hhe]]]]].
  cbn [o_valid o_payload o_length o_seq o_ep o_hoep] in *.
  unfold unpack_out, pack_out.
  cbn [o_ready o_valid o_first o_last o_payload o_zlp o_length o_seq o_ep o_dir o_nrdy o_erdy o_hoep].
  pose proof (b2n_lt2 rdy); pose proof (b2n_lt2 fi); pose proof (b2n_lt2 la); pose proof (b2n_lt2 z);
  pose proof (b2n_lt2 d); pose proof (b2n_lt2 nr); pose proof (b2n_lt2 er).
  set (w := b2n rdy + 2 * v + 32 * b2n fi + 64 * b2n la + 128 * pl + 2 ^ 39 * b2n z + 2 ^ 40 * len +
            2 ^ 51 * sq + 2 ^ 56 * e + 2 ^ 60 * b2n d + 2 ^ 61 * b2n nr + 2 ^ 62 * b2n er + 2 ^ 63 * he).
  assert (E0 : N.testbit w 0 = rdy) by (apply testbit_b2n; subst w; cbn [N.pow] in *; lia).
  assert (E1 : bits w 1 4 = v) by (rewrite bits_divmod; subst w; cbn [N.pow] in *; lia).
  assert (E5 : N.testbit w 5 = fi) by (apply testbit_b2n; subst w; cbn [N.pow] in *; lia).
  assert (E6 : N.testbit w 6 = la) by (apply testbit_b2n; subst w; cbn [N.pow] in *; lia).
  assert (E7 : bits w 7 32 = pl) by (rewrite bits_divmod; subst w; cbn [N.pow] in *; lia).
  assert (E39 : N.testbit w 39 = z) by (apply testbit_b2n; subst w; cbn [N.pow] in *; lia).
  assert (E40 : bits w 40 11 = len) by (rewrite bits_divmod; subst w; cbn [N.pow] in *; lia).
  assert (E51 : bits w 51 5 = sq) by (rewrite bits_divmod; subst w; cbn [N.pow] in *; lia).
  assert (E56 : bits w 56 4 = e) by (rewrite bits_divmod; subst w; cbn [N.pow] in *; lia).
  assert (E60 : N.testbit w 60 = d) by (apply testbit_b2n; subst w; cbn [N.pow] in *; lia).
  assert (E61 : N.testbit w 61 = nr) by (apply testbit_b2n; subst w; cbn [N.pow] in *; lia).
  assert (E62 : N.testbit w 62 = er) by (apply testbit_b2n; subst w; cbn [N.pow] in *; lia).
  assert (E63 : bits w 63 7 = he) by (rewrite bits_divmod; subst w; cbn [N.pow] in *; lia).
  rewrite E0, E1, E5, E6, E7, E39, E40, E51, E56, E60, E61, E62, E63. reflexivity.
Qed.

Section Bridge.
  Variables (mps ep sb : N).
  Hypothesis Hmps1k : mps <= 1024.
  Hypothesis Hsb : sb <= 5.

  Lemma outputs_wf : forall s i, ss_wf s -> out_wf (ss_outputs mps ep sb s i).
  Proof.
    intros s i [Hsq [Hpos [Hov [Hop [[Hrf _] _]]]]]. unfold out_wf, ss_outputs.
    cbn [o_valid o_payload o_length o_seq o_ep o_hoep].
    pose proof (next_seq_lt mps sb Hmps1k Hsb s). pose proof (N.mod_lt ep 16). pose proof (N.mod_lt ep 128).
    repeat split; try assumption; try lia.
    destruct (acked_now ep sb s i && follow_zlp mps s && is_in i); cbn; lia.
  Qed.

  (* judging the packed words the model emits = judging its typed outputs *)
  Lemma accepts_io_model : forall tr s r, ss_wf s ->
    ref_accepts_io mps ep sb r (combine tr (run (ss_step mps ep sb) s tr)) =
    accepts (ss_next mps ep sb) (ss_outputs mps ep sb) (ref_step mps ep sb) s r tr.
  Proof.
    induction tr as [|i t IH]; intros s r Hwf; [reflexivity|].
    cbn [run ss_step combine ref_accepts_io accepts].
    rewrite (unpack_pack_out _ (outputs_wf s i Hwf)).
    destruct (ref_step mps ep sb r i (ss_outputs mps ep sb s i)) as [[r' ok]|]; [|reflexivity].
    f_equal. apply IH. apply (ss_wf_step mps ep sb Hmps1k Hsb s i Hwf).
  Qed.
End Bridge.

(* MAIN THEOREM, on packed interface words: whatever produces the same output words as the model is
   accepted by the referee *)
Theorem ssin_accepted_io : forall mps ep sb, 4 <= mps -> mps mod 4 = 0 -> mps <= 1024 -> sb <= 5 ->
  forall tr outs, outs = run (ss_step mps ep sb) ss_init tr ->
  ref_accepts_io mps ep sb ref_init (combine tr outs) = true.
Proof.
  intros mps ep sb H8 H4 H1k Hsb tr outs ->.
  rewrite (accepts_io_model mps ep sb H1k Hsb tr ss_init ref_init ss_wf_init).
  apply ssin_accepted; assumption.
Qed.

(* ------------------------------------------------------------------------------------------ *)
(* 5. What acceptance by the referee means for the data: exactly once, in order               *)
Lemma items_bytes_app : forall a b, items_bytes (a ++ b) = items_bytes a ++ items_bytes b.
Proof. induction a as [|[w n|] t IH]; intros; cbn [app items_bytes]; [reflexivity | rewrite IH, app_assoc; reflexivity | apply IH]. Qed.

Lemma take_pkt_bytes : forall l room p rest, take_pkt room l = Some (p, rest) ->
  items_bytes l = items_bytes p ++ items_bytes rest /\ pkt_bytes p <= room.
Proof.
  induction l as [|[w n|] t IH]; intros room p rest H; cbn [take_pkt] in H.
  - destruct (room =? 0); [|discriminate]. apply some_inj in H. inversion H; subst. split; [reflexivity | cbn; lia].
  - destruct (room =? 0) eqn:E0.
    + apply some_inj in H. inversion H; subst. split; [reflexivity | cbn; lia].
    + destruct (n <=? room) eqn:En; [|discriminate].
      destruct (take_pkt (room - n) t) as [[p' r']|] eqn:Et; [|discriminate].
      apply some_inj in H. inversion H; subst. destruct (IH _ _ _ Et) as [Hb Hl].
      cbn [items_bytes pkt_bytes]. rewrite Hb, app_assoc. split; [reflexivity | lia].
  - destruct (room =? 0) eqn:E0.
    + apply some_inj in H. inversion H; subst. split; [reflexivity | cbn; lia].
    + apply some_inj in H. inversion H; subst. split; [reflexivity | cbn; lia].
Qed.

Section Meaning.
  Variables (mps ep sb : N).

  Lemma env_phase_pend : forall r i r1, env_phase mps ep sb r i = Some r1 ->
    items_bytes (r_pend r) =
    items_bytes (match acked_pkt mps ep sb r i with Some p => p | None => [] end) ++ items_bytes (r_pend r1) /\
    (forall p, acked_pkt mps ep sb r i = Some p -> pkt_bytes p <= mps).
  Proof.
    intros r i r1 H. unfold acked_pkt. rewrite H.
    destruct (env_phase_cases mps ep sb r i r1 H) as [_ [_ Hc]].
    destruct Hc as [[Hu ->]|[Hu [_ [_ [_ [_ Hc]]]]]].
    - rewrite Hu. cbn [andb]. split; [reflexivity | intros; discriminate].
    - rewrite Hu. cbn [andb].
      destruct Hc as [[Ho [Hr ->]]|[[Ho [Hr [p [rest [Ht ->]]]]]|[Ho [_ ->]]]].
      + rewrite Ho. unfold retry_c in Hr. rewrite Hr. cbn [andb negb]. split; [reflexivity | intros; discriminate].
      + rewrite Ho. unfold retry_c in Hr. rewrite Hr, Ht. cbn [andb negb].
        destruct (take_pkt_bytes _ _ _ _ Ht) as [Hb Hl]. split; [exact Hb|]. intros q Hq. inversion Hq; subst. exact Hl.
      + rewrite Ho. cbn [andb]. split; [reflexivity | intros; discriminate].
  Qed.

  (* EXACTLY ONCE, IN ORDER: along any trace the referee judges and accepts, the bytes accepted from the stream are the
     bytes of the acknowledged packets, in order, followed by the bytes still pending; no packet exceeds mps bytes *)
  Theorem referee_exactly_once : forall ios r r', ref_run_io mps ep sb r ios = Some r' ->
    items_bytes (r_pend r) ++ items_bytes (stream_log ios) =
    items_bytes (concat (acked_log mps ep sb r ios)) ++ items_bytes (r_pend r') /\
    Forall (fun p => pkt_bytes p <= mps) (acked_log mps ep sb r ios).
  Proof.
    induction ios as [|[i o] t IH]; intros r r' H.
    - cbn in H. apply some_inj in H. subst. cbn. rewrite app_nil_r. split; [reflexivity | constructor].
    - cbn [ref_run_io] in H. cbn [acked_log]. unfold ref_step in *.
      destruct (env_phase mps ep sb r i) as [r1|] eqn:Ee; [|discriminate].
      destruct (judge mps ep r1 i (unpack_out o)) as [r2 ok] eqn:Ej. destruct ok; [|discriminate].
      destruct (IH _ _ H) as [IH1 IH2]. destruct (env_phase_pend r i r1 Ee) as [Hp Hle].
      assert (Hr2 : r_pend r2 = r_pend r1 ++ accepted_items i (unpack_out o)).
      { unfold judge in Ej. inversion Ej. reflexivity. }
      rewrite Hr2, items_bytes_app in IH1.
      unfold stream_log in *. cbn [flat_map fst snd]. rewrite items_bytes_app.
      split.
      + rewrite concat_app, items_bytes_app, Hp, <- !app_assoc. f_equal.
        * destruct (acked_pkt mps ep sb r i); cbn; rewrite ?app_nil_r; reflexivity.
        * rewrite <- IH1, app_assoc. reflexivity.
      + apply Forall_app. split; [|exact IH2]. destruct (acked_pkt mps ep sb r i) as [p|] eqn:Ea; constructor; [|constructor].
        apply Hle. reflexivity.
  Qed.
End Meaning.
