(* C16 / C13 -- lemmas shared by the proofs about the two OUT stream endpoints:
     bd_rel_init / bd_rel_step   the packet tracker follows the boundary-detector model cycle by cycle
                                 (every input, no environment assumption)
     bd_fwd_rel / bd_strobes_rel what the glue logic reads from the boundary detector is fwd / strobes of the tracker
     frame / inner lemmas        framing of payloads
     aq_ep_next                  the abstract transactional queue (C18) as the endpoints use it
                                 (read_commit tied to 1, read_discard to 0)
     packing lemmas              bounds needed to stack several packed sub-states into one N *)
From Coq Require Import NArith List Bool Arith Lia.
Import ListNotations.
From LunaLib Require Import Netlist Machine PackN ListMem.
From LunaModel Require Import BoundaryDet BoundaryDet_proofs TxFifo TxFifo_proofs C16_OutTrack.
Open Scope nat_scope.

(* ------------------------------------------------------------------------------------------ *)
(* list helpers                                                                                *)
Lemma last_snoc : forall (l : list N) x d, last (l ++ [x]) d = x.
Proof. induction l as [|a t IH]; intros; [reflexivity|]. cbn [app]. destruct (t ++ [x]) eqn:E.
  - destruct t; discriminate.
  - rewrite <- E. cbn [last]. rewrite E. rewrite <- E. apply IH. Qed.

Lemma nth_snoc_prev : forall (l : list N) x d, l <> [] -> nth (length (l ++ [x]) - 2) (l ++ [x]) d = last l d.
Proof.
  induction l as [|a t IH]; intros x d H; [congruence|].
  destruct t as [|b t']; [reflexivity|].
  specialize (IH x d ltac:(discriminate)).
  cbn [app length] in *. replace (S (S (length (t' ++ [x]))) - 2) with (length (t' ++ [x])) by lia.
  replace (S (length (t' ++ [x])) - 2) with (length (t' ++ [x]) - 1) in IH by lia.
  rewrite app_length in *. cbn [length] in *. replace (length t' + 1) with (S (length t')) in * by lia.
  cbn [nth last] in *. replace (S (length t') - 1) with (length t') in IH by lia. exact IH.
Qed.

(* ------------------------------------------------------------------------------------------ *)
(* tracker vs boundary detector                                                                *)
Lemma bd_rel_init : bd_rel bd_init PIdle.
Proof. cbn. repeat split; reflexivity. Qed.

Lemma bd_rel_start : forall s r,
  fsm s = WAIT_FOR_FIRST_BYTE -> bd_rel (bd_next s (rx_bd r)) (trk_start r).
Proof.
  intros s r Hf. unfold bd_next, trk_start. rewrite Hf. cbn [rx_bd i_valid i_next i_payload].
  destruct (r_valid r && r_next r); cbn [bd_rel fsm out buf is_first buf_c buf_i o_valid o_next o_first o_last
    o_complete o_invalid o_payload length last]; repeat split; try reflexivity; try discriminate; try lia.
Qed.

Lemma bd_rel_step : forall s ph r, bd_rel s ph -> bd_rel (bd_next s (rx_bd r)) (trk_next ph r).
Proof.
  intros s ph r H. destruct ph as [|bs c v fresh|bs c v|bs c v].
  - destruct H as (Hf & _). apply bd_rel_start. exact Hf.
  - destruct H as (Hf & Hne & Hbuf & Hisf & Hc & Hv & Hoc & Hoi & Hol & Hon & Hval & Hnv & Hfr).
    unfold bd_next, trk_next. rewrite Hf. cbn [rx_bd i_valid i_next i_payload i_cin i_iin].
    destruct (r_valid r); cbn [negb].
    + destruct (r_next r).
      * assert (A1 : bs ++ [r_pay r] <> []) by (destruct bs; discriminate).
        assert (A2 : length (bs ++ [r_pay r]) = S (length bs)) by (rewrite app_length; cbn [length]; lia).
        assert (A0 : 1 <= length bs) by (destruct bs; [congruence | cbn [length]; lia]).
        assert (A3 : (length (bs ++ [r_pay r]) =? 1) = false) by (rewrite A2; apply Nat.eqb_neq; lia).
        assert (A4 : (length (bs ++ [r_pay r]) =? 2) = (length bs =? 1)) by (rewrite A2; reflexivity).
        pose proof (nth_snoc_prev bs (r_pay r) 0%N Hne) as A5.
        pose proof (last_snoc bs (r_pay r) 0%N) as A6.
        cbn [bd_rel fsm out buf is_first buf_c buf_i o_valid o_next o_first o_last o_complete o_invalid o_payload].
        rewrite A3, A4, A5, A6, A2.
        repeat split; try assumption; try reflexivity; try congruence; try lia.
      * cbn [bd_rel fsm out buf is_first buf_c buf_i o_valid o_next o_first o_last o_complete o_invalid o_payload].
        repeat split; try assumption; try reflexivity; try congruence; try discriminate.
    + cbn [bd_rel fsm out buf is_first buf_c buf_i o_valid o_next o_first o_last o_complete o_invalid o_payload].
      repeat split; try assumption; try reflexivity; try congruence.
  - destruct H as (Hf & Hne & Hc & Hv & Hoc & Hoi & Hov & Hon & Hol & Hop & Hof).
    unfold bd_next, trk_next. rewrite Hf.
    cbn [bd_rel fsm out buf is_first buf_c buf_i o_valid o_next o_first o_last o_complete o_invalid o_payload].
    repeat split; try assumption; reflexivity.
  - destruct H as (Hf & _). apply bd_rel_start. exact Hf.
Qed.

Lemma bd_fwd_rel : forall s ph, bd_rel s ph -> bd_fwd s = fwd ph.
Proof.
  intros s ph H. unfold bd_fwd. destruct ph as [|bs c v fresh|bs c v|bs c v].
  - destruct H as (_ & _ & Hn & _). rewrite Hn. reflexivity.
  - destruct H as (Hf & Hne & Hbuf & Hisf & Hc & Hv & Hoc & Hoi & Hol & Hon & Hval & Hnv & Hfr).
    rewrite Hon. destruct fresh; [|reflexivity].
    destruct (Hfr eq_refl) as (H2 & Hp & Hfi). rewrite (Hval H2), Hp, Hfi, Hol. reflexivity.
  - destruct H as (Hf & Hne & Hc & Hv & Hoc & Hoi & Hov & Hon & Hol & Hop & Hof).
    rewrite Hon, Hov, Hop, Hof, Hol. reflexivity.
  - destruct H as (_ & _ & Hn & _). rewrite Hn. reflexivity.
Qed.

Lemma bd_strobes_rel : forall s ph, bd_rel s ph -> (o_complete (out s), o_invalid (out s)) = strobes ph.
Proof.
  intros s ph H. destruct ph as [|bs c v fresh|bs c v|bs c v]; cbn [strobes].
  - destruct H as (_ & _ & _ & Hc & Hv). rewrite Hc, Hv. reflexivity.
  - destruct H as (_ & _ & _ & _ & _ & _ & Hc & Hv & _). rewrite Hc, Hv. reflexivity.
  - destruct H as (_ & _ & _ & _ & Hc & Hv & _). rewrite Hc, Hv. reflexivity.
  - destruct H as (_ & _ & _ & Hc & Hv). rewrite Hc, Hv. reflexivity.
Qed.

(* processed-side `valid` (the register the C13 repair looks at) as a function of the tracker *)
Lemma bd_valid_rel : forall s ph, bd_rel s ph ->
  match ph with
  | PIdle => o_valid (out s) = false
  | POpen bs _ _ fresh => (2 <= length bs -> o_valid (out s) = true) /\ (o_valid (out s) = false -> fresh = false)
  | _ => o_valid (out s) = true
  end.
Proof.
  intros s ph H. destruct ph as [|bs c v fresh|bs c v|bs c v].
  - apply H. - split; apply H. - apply H. - apply H.
Qed.

(* ------------------------------------------------------------------------------------------ *)
(* entries and framing                                                                         *)
Lemma enc_entry_dec : forall e, (e_data e < 256)%N ->
  (enc_entry e mod 256 = e_data e)%N /\ N.testbit (enc_entry e) 8 = e_last e /\ N.testbit (enc_entry e) 9 = e_first e.
Proof.
  intros [d f l] H. cbn [e_data e_first e_last] in *. unfold enc_entry. cbn [e_data e_first e_last].
  assert (T : forall x n, N.testbit x n = N.odd (x / 2 ^ n)).
  { intros. rewrite <- N.shiftr_div_pow2. unfold N.testbit. rewrite <- N.bit0_odd, N.shiftr_spec by lia.
    rewrite N.add_0_l. reflexivity. }
  rewrite !T. change (2 ^ 8)%N with 256%N. change (2 ^ 9)%N with 512%N.
  destruct f, l; cbn [b2n]; repeat split.
  all: try (symmetry; apply (N.mod_unique _ 256 3); lia).
  all: try (symmetry; apply (N.mod_unique _ 256 2); lia).
  all: try (symmetry; apply (N.mod_unique _ 256 1); lia).
  all: try (symmetry; apply (N.mod_unique _ 256 0); lia).
  all: try (replace ((d + 256 * 1 + 512 * 1) / 256)%N with 3%N by (apply (N.div_unique _ 256 3 d); lia); reflexivity).
  all: try (replace ((d + 256 * 1 + 512 * 1) / 512)%N with 1%N by (apply (N.div_unique _ 512 1 (d + 256)); lia); reflexivity).
  all: try (replace ((d + 256 * 0 + 512 * 1) / 256)%N with 2%N by (apply (N.div_unique _ 256 2 d); lia); reflexivity).
  all: try (replace ((d + 256 * 0 + 512 * 1) / 512)%N with 1%N by (apply (N.div_unique _ 512 1 d); lia); reflexivity).
  all: try (replace ((d + 256 * 1 + 512 * 0) / 256)%N with 1%N by (apply (N.div_unique _ 256 1 d); lia); reflexivity).
  all: try (replace ((d + 256 * 1 + 512 * 0) / 512)%N with 0%N by (apply (N.div_unique _ 512 0 (d + 256)); lia); reflexivity).
  all: try (replace ((d + 256 * 0 + 512 * 0) / 256)%N with 0%N by (apply (N.div_unique _ 256 0 d); lia); reflexivity).
  all: try (replace ((d + 256 * 0 + 512 * 0) / 512)%N with 0%N by (apply (N.div_unique _ 512 0 d); lia); reflexivity).
Qed.

Lemma enc_entry_lt : forall e, (e_data e < 256)%N -> (enc_entry e < 2 ^ 10)%N.
Proof. intros [d f l] H. cbn [e_data] in H. unfold enc_entry. cbn [e_data e_first e_last].
  change (2 ^ 10)%N with 1024%N. destruct f, l; cbn [b2n]; lia. Qed.

Definition mid (x : N) : entry := {| e_data := x; e_first := false; e_last := false |}.

Lemma inner_false : forall bs, inner false bs = map mid bs.
Proof. destruct bs; reflexivity. Qed.

(* one more byte known not to be the last *)
Lemma inner_snoc : forall f bs k, k < length bs ->
  inner f (firstn (S k) bs) = inner f (firstn k bs) ++ [{| e_data := nth k bs 0%N; e_first := f && (k =? 0); e_last := false |}].
Proof.
  intros f bs k H. destruct bs as [|b t]; [cbn in H; lia|].
  destruct k as [|k].
  - cbn. rewrite andb_true_r. reflexivity.
  - change (firstn (S (S k)) (b :: t)) with (b :: firstn (S k) t).
    change (firstn (S k) (b :: t)) with (b :: firstn k t).
    change (nth (S k) (b :: t) 0%N) with (nth k t 0%N).
    cbn [inner]. cbn [length] in H. rewrite andb_false_r.
    assert (G : forall (l : list N) n, n < length l -> firstn (S n) l = firstn n l ++ [nth n l 0%N]).
    { induction l as [|a l IH]; intros n Hn; [cbn in Hn; lia|]. destruct n; [reflexivity|].
      cbn [firstn nth app]. f_equal. apply IH. cbn in Hn. lia. }
    rewrite G by lia. rewrite map_app. reflexivity.
Qed.

Lemma frame_false_inner : forall l bs, bs <> [] ->
  frame false l bs = map mid (firstn (length bs - 1) bs) ++ [{| e_data := last bs 0%N; e_first := false; e_last := l |}].
Proof.
  induction bs as [|a t IH]; intro H; [congruence|].
  destruct t as [|b t']; [reflexivity|].
  specialize (IH ltac:(discriminate)).
  change (frame false l (a :: b :: t')) with (mid a :: frame false l (b :: t')).
  rewrite IH. cbn [length]. replace (S (S (length t')) - 1) with (S (length t')) by lia.
  replace (S (length t') - 1) with (length t') by lia.
  change (firstn (S (length t')) (a :: b :: t')) with (a :: firstn (length t') (b :: t')).
  reflexivity.
Qed.

(* a complete payload = its inner bytes, then the final byte *)
Lemma frame_split : forall f l bs, bs <> [] ->
  frame f l bs = inner f (firstn (length bs - 1) bs)
                 ++ [{| e_data := last bs 0%N; e_first := f && (length bs =? 1); e_last := l |}].
Proof.
  intros f l bs H. destruct bs as [|a t]; [congruence|].
  destruct t as [|b t']; [cbn; rewrite andb_true_r; reflexivity|].
  change (frame f l (a :: b :: t')) with ({| e_data := a; e_first := f; e_last := false |} :: frame false l (b :: t')).
  rewrite frame_false_inner by discriminate.
  cbn [length]. replace (S (S (length t')) - 1) with (S (length t')) by lia.
  replace (S (length t') - 1) with (length t') by lia.
  change (firstn (S (length t')) (a :: b :: t')) with (a :: firstn (length t') (b :: t')).
  cbn [inner app]. rewrite andb_false_r. reflexivity.
Qed.

Lemma firstn_snoc_le : forall (l : list N) x k, k <= length l -> firstn k (l ++ [x]) = firstn k l.
Proof. intros. rewrite firstn_app. replace (k - length l) with 0 by lia. cbn. apply app_nil_r. Qed.

Lemma frame_data_lt : forall f l bs, Forall (fun b => (b < 256)%N) bs -> Forall (fun e => (e_data e < 256)%N) (frame f l bs).
Proof.
  intros f l bs. revert f. induction bs as [|a t IH]; intros f H; [constructor|].
  inversion H; subst. destruct t as [|b t'].
  - constructor; [assumption | constructor].
  - change (frame f l (a :: b :: t')) with ({| e_data := a; e_first := f; e_last := false |} :: frame false l (b :: t')).
    constructor; [assumption | apply IH; assumption].
Qed.

Lemma frame_length : forall f l bs, length (frame f l bs) = length bs.
Proof.
  intros f l bs. revert f. induction bs as [|a t IH]; intro f; [reflexivity|].
  destruct t as [|b t']; [reflexivity|].
  change (frame f l (a :: b :: t')) with ({| e_data := a; e_first := f; e_last := false |} :: frame false l (b :: t')).
  cbn [length]. rewrite IH. reflexivity.
Qed.

(* ------------------------------------------------------------------------------------------ *)
(* the abstract transactional queue as the endpoints drive it                                   *)
Definition is_nil {A} (l : list A) : bool := match l with [] => true | _ => false end.

Lemma aq_ep_step : forall depth A rdy wen wc wd data,
  aq_next depth A {| fi_read_en := rdy; fi_read_commit := true; fi_read_discard := false;
                     fi_write_en := wen; fi_write_commit := wc; fi_write_discard := wd; fi_write_data := data |} =
  let pop := rdy && negb (is_nil (aq_avail A)) in
  let rest := if pop then tl (aq_avail A) else aq_avail A in
  let added := if wen && negb (aq_held A =? depth) then [data] else [] in
  {| aq_tent := if pop then [hd 0%N (aq_avail A)] else [];
     aq_avail := if wd then rest else if wc then rest ++ aq_pend A else rest;
     aq_pend := if wd then [] else if wc then added else aq_pend A ++ added |}.
Proof.
  intros depth [T [|h t] P] rdy wen wc wd data; destruct rdy, wd, wc; reflexivity.
Qed.

Lemma obs_facts : forall depth st, tf_inv depth st ->
  let A := tf_abs depth st in let o := tf_outputs depth st in
  fo_space o = depth - aq_held A /\ fo_empty o = is_nil (aq_avail A) /\
  (forall h t, aq_avail A = h :: t -> fo_read_data o = h).
Proof.
  intros depth st Hinv A o. pose proof (observe_commutes depth st Hinv) as H.
  fold A in H. fold o in H.
  pose proof (f_equal ob_space H) as H4. pose proof (f_equal ob_empty H) as H2. pose proof (f_equal ob_head H) as H1.
  unfold tf_observe, aq_observe in H1, H2, H4. cbn [ob_space ob_empty ob_head] in H1, H2, H4.
  repeat split.
  - exact H4.
  - rewrite H2. destruct (aq_avail A); reflexivity.
  - intros h t E. rewrite E in H1, H2. cbv beta iota in H2. rewrite H2 in H1. cbn [hd_error] in H1.
    injection H1 as H1. exact H1.
Qed.

(* ------------------------------------------------------------------------------------------ *)
(* packing bounds (to stack a packed FIFO state below further components)                      *)
Lemma pk_lt : forall B x rest R, (x < B)%N -> (rest < R)%N -> (PackN.pk B x rest < B * R)%N.
Proof. intros B x rest R Hx Hr. unfold PackN.pk. nia. Qed.

Lemma pack_lt : forall B l, Forall (fun x => (x < B)%N) l -> (pack B l < B ^ N.of_nat (length l))%N.
Proof.
  induction l as [|x t IH]; intro H; [cbn; lia|].
  inversion H; subst. cbn [pack length]. rewrite Nat2N.inj_succ, N.pow_succ_r'.
  apply pk_lt; [assumption | apply IH; assumption].
Qed.

Lemma tf_enc_lt : forall depth width st, tf_wf depth width st -> (tf_enc depth width st < tf_radix depth width)%N.
Proof.
  intros depth width [cw w cr r mem rd] (H1 & H2 & H3 & H4 & H5 & H6 & H7).
  cbn [tf_cw tf_w tf_cr tf_r tf_mem tf_rdata] in *. unfold tf_enc, tf_radix.
  cbn [tf_cw tf_w tf_cr tf_r tf_mem tf_rdata]. cbv zeta.
  repeat (apply pk_lt; [try exact H5; lia|]).
  rewrite <- H6. apply pack_lt. exact H7.
Qed.

(* tf_wf is kept by a step with any input whose write data fits the entry width *)
Lemma tf_wf_next : forall depth width st i, tf_wf depth width st -> (fi_write_data i < 2 ^ width)%N ->
  tf_wf depth width (tf_next_state depth st i).
Proof.
  intros depth width st ii (H1 & H2 & H3 & H4 & H5 & H6 & H7) Hwd.
  unfold tf_next_state, tf_wf. cbn [tf_cw tf_w tf_cr tf_r tf_mem tf_rdata].
  pose proof (next_le depth _ H2) as Hnw. pose proof (next_le depth _ H4) as Hnr.
  pose proof (pow2_pos width) as HB.
  repeat split.
  - destruct (fi_write_commit ii && negb (fi_write_discard ii)); assumption.
  - destruct (fi_write_discard ii), (fi_write_en ii && negb (tf_full depth st)); assumption.
  - destruct (fi_read_commit ii && negb (fi_read_discard ii)); assumption.
  - destruct (fi_read_discard ii), (fi_read_en ii && negb (tf_empty st)); assumption.
  - apply Forall_nth_lt; assumption.
  - destruct (fi_write_en ii && negb (tf_full depth st)); rewrite ?upd_length; assumption.
  - destruct (fi_write_en ii && negb (tf_full depth st)); [|assumption].
    apply upd_Forall; assumption.
Qed.

(* ------------------------------------------------------------------------------------------ *)
(* fast packing (power-of-two radices)                                                         *)
Lemma land_mod : forall x w, N.land x (N.ones w) = (x mod 2 ^ w)%N.
Proof. intros. apply N.land_ones. Qed.
Lemma shr_div : forall x w, N.shiftr x w = (x / 2 ^ w)%N.
Proof. intros. apply N.shiftr_div_pow2. Qed.

Lemma unpack2_unpack : forall w k n, unpack2 w k n = unpack (2 ^ w) k n.
Proof. induction k as [|k IH]; intro n; [reflexivity|]. cbn [unpack2 unpack]. rewrite IH, land_mod, shr_div. reflexivity. Qed.

Lemma bd_dec2_eq : forall m, bd_dec2 m = bd_dec m.
Proof.
  intro m. unfold bd_dec2, bd_dec. rewrite !land_mod, !shr_div.
  change (2 ^ 2)%N with 4%N. change (2 ^ 1)%N with 2%N. change (2 ^ 8)%N with 256%N. reflexivity.
Qed.

Lemma ptr_lt : forall depth p, p <= depth -> (N.of_nat p < 2 ^ ptr_bits depth)%N.
Proof.
  intros depth p H. unfold ptr_bits. apply N.le_lt_trans with (N.of_nat depth); [lia|]. apply N.size_gt.
Qed.

Lemma tf_dec_enc2 : forall depth st, tf_wf depth 10 st -> tf_dec2 depth (tf_enc2 depth st) = st.
Proof.
  intros depth [cw w cr r mem rd] (H1 & H2 & H3 & H4 & H5 & H6 & H7).
  cbn [tf_cw tf_w tf_cr tf_r tf_mem tf_rdata] in *. unfold tf_dec2, tf_enc2.
  cbn [tf_cw tf_w tf_cr tf_r tf_mem tf_rdata]. cbv zeta.
  rewrite !land_mod, !shr_div, unpack2_unpack.
  pose proof (ptr_lt depth _ H1). pose proof (ptr_lt depth _ H2). pose proof (ptr_lt depth _ H3). pose proof (ptr_lt depth _ H4).
  repeat first [rewrite PackN.pk_div by assumption | rewrite PackN.pk_mod by assumption].
  rewrite !Nat2N.id. rewrite <- H6, unpack_pack by exact H7. reflexivity.
Qed.

Lemma tf_enc2_lt : forall depth st, tf_wf depth 10 st -> (tf_enc2 depth st < 2 ^ tf_bits2 depth)%N.
Proof.
  intros depth [cw w cr r mem rd] (H1 & H2 & H3 & H4 & H5 & H6 & H7).
  cbn [tf_cw tf_w tf_cr tf_r tf_mem tf_rdata] in *. unfold tf_enc2, tf_bits2.
  cbn [tf_cw tf_w tf_cr tf_r tf_mem tf_rdata]. cbv zeta.
  pose proof (ptr_lt depth _ H1). pose proof (ptr_lt depth _ H2). pose proof (ptr_lt depth _ H3). pose proof (ptr_lt depth _ H4).
  replace (4 * ptr_bits depth + 10 + 10 * N.of_nat (S depth))%N
    with (ptr_bits depth + (ptr_bits depth + (ptr_bits depth + (ptr_bits depth + (10 + 10 * N.of_nat (S depth))))))%N by lia.
  rewrite !N.pow_add_r.
  repeat (apply pk_lt; [assumption|]).
  rewrite N.pow_mul_r. rewrite <- H6. apply pack_lt. exact H7.
Qed.
