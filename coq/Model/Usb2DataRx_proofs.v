(* C02 -- proofs about Model/Usb2DataRx.v: the receiver FSM model refines the packet-level specification
   (simulation relation, unbounded induction over the cycle list), packet-level reading lemmas of the
   specification, and packing lemmas for the lock-step tie. *)
From Coq Require Import NArith ZArith Arith List Bool Lia ZifyBool ZifyN.
Import ListNotations.
From LunaLib Require Import Netlist Bits Affine Machine PackN.
From LunaModel Require Import Crc Crc_proofs IpTimer Usb2DataRx.
Open Scope N_scope.
Ltac Zify.zify_post_hook ::= Z.div_mod_to_equations.

(* ---------------------------------------------------------------------------------------------- *)
(* bytes and PIDs                                                                                   *)
Lemma rx_bits_lt : forall x lo w, bits x lo w < 2 ^ w.
Proof.
  intros. unfold bits. rewrite N.land_ones. apply N.mod_lt. apply N.pow_nonzero. discriminate.
Qed.

Lemma rx_dat_lt : forall i, rx_dat i < 256.
Proof. intros. unfold rx_dat. apply (rx_bits_lt i 2 8). Qed.

Lemma rx_pid_facts_all :
  forall_bits 8 (fun d => Bool.eqb (rx_data_pid d) (data_pid_byte d) && (bits d 0 4 =? d mod 16)) = true.
Proof. vm_compute. reflexivity. Qed.

Lemma rx_data_pid_spec : forall d, d < 256 -> rx_data_pid d = data_pid_byte d /\ bits d 0 4 = d mod 16.
Proof.
  intros d Hd. pose proof (forall_bits_sound 8 _ rx_pid_facts_all d Hd) as H. cbv beta in H.
  apply andb_true_iff in H as [H1 H2]. apply eqb_prop in H1. apply N.eqb_eq in H2. auto.
Qed.

(* ---------------------------------------------------------------------------------------------- *)
(* the running CRC register after the bytes bs                                                      *)
Definition rx_R (bs : list N) : list bool := crc_update poly16 (reg_init 16) (bits_of_units 8 bs).

Lemma rx_crc16_R : forall bs, crc16_usb bs = crc_out (rx_R bs).
Proof. intros. reflexivity. Qed.

Lemma rx_R_snoc : forall bs b, rx_R (bs ++ [b]) = crc_update poly16 (rx_R bs) (N2bits 8 b).
Proof.
  intros. unfold rx_R. rewrite bits_of_units_app, crc_update_app.
  unfold bits_of_units at 2. cbn [flat_map]. rewrite app_nil_r. reflexivity.
Qed.

Lemma rx_R_nil : rx_R [] = reg_init 16.
Proof. reflexivity. Qed.

(* ---------------------------------------------------------------------------------------------- *)
(* the last two bytes of a packet                                                                   *)
Lemma rx_len2 : forall (pre : list N) a b, length (pre ++ [a; b]) = S (S (length pre)).
Proof. intros. rewrite app_length. simpl. lia. Qed.

Lemma rx_leb2 : forall (pre : list N) a b, Nat.leb 2 (length (pre ++ [a; b])) = true.
Proof. intros. rewrite rx_len2. reflexivity. Qed.

Lemma rx_payload_of_app : forall pre a b, payload_of (pre ++ [a; b]) = pre.
Proof.
  intros. unfold payload_of. rewrite rx_len2.
  replace (S (S (length pre)) - 2)%nat with (length pre + 0)%nat by lia.
  rewrite firstn_app_2. cbn [firstn]. apply app_nil_r.
Qed.

Lemma rx_nth_lo : forall pre a b, nth (length (pre ++ [a; b]) - 2) (pre ++ [a; b]) 0 = a.
Proof.
  intros. rewrite rx_len2. replace (S (S (length pre)) - 2)%nat with (length pre) by lia.
  rewrite app_nth2 by lia. rewrite Nat.sub_diag. reflexivity.
Qed.

Lemma rx_nth_hi : forall pre a b, nth (length (pre ++ [a; b]) - 1) (pre ++ [a; b]) 0 = b.
Proof.
  intros. rewrite rx_len2. replace (S (S (length pre)) - 1)%nat with (S (length pre)) by lia.
  rewrite app_nth2 by lia. replace (S (length pre) - length pre)%nat with 1%nat by lia. reflexivity.
Qed.

Lemma rx_trailer_of_app : forall pre a b, trailer_of (pre ++ [a; b]) = a + 256 * b.
Proof. intros. unfold trailer_of. rewrite rx_nth_lo, rx_nth_hi. reflexivity. Qed.

Lemma rx_split_last2 : forall (l : list N), (2 <= length l)%nat -> exists pre a b, l = pre ++ [a; b].
Proof.
  intros l H. destruct (exists_last (l := l)) as [l1 [b E]]; [intro; subst; simpl in H; lia|].
  subst l. rewrite app_length in H. simpl in H.
  destruct (exists_last (l := l1)) as [pre [a E]]; [intro; subst; simpl in H; lia|].
  subst l1. exists pre, a, b. rewrite <- app_assoc. reflexivity.
Qed.

Lemma rx_snoc3 : forall (pre : list N) a b d, (pre ++ [a; b]) ++ [d] = (pre ++ [a]) ++ [b; d].
Proof. intros. rewrite <- !app_assoc. reflexivity. Qed.

Lemma rx_snoc2 : forall (pre : list N) a b, pre ++ [a; b] = (pre ++ [a]) ++ [b].
Proof. intros. rewrite <- app_assoc. reflexivity. Qed.

(* ---------------------------------------------------------------------------------------------- *)
(* reading lemmas for the declarative verdict / stream functions                                    *)
Lemma pkt_verdict_framed : forall p payload lo hi,
  pkt_verdict (p :: payload ++ [lo; hi]) =
  if data_pid_byte p then (if crc16_usb payload =? lo + 256 * hi then V_GOOD else V_BAD) else V_NONE.
Proof.
  intros. unfold pkt_verdict. rewrite rx_leb2, rx_payload_of_app, rx_trailer_of_app.
  rewrite andb_true_r. reflexivity.
Qed.

Lemma pkt_verdict_short : forall l, (length l <= 2)%nat -> pkt_verdict l = V_NONE.
Proof.
  intros [|p bs] H; [reflexivity|]. unfold pkt_verdict. cbn [length] in H.
  assert (E : Nat.leb 2 (length bs) = false) by (apply Nat.leb_gt; lia).
  rewrite E, andb_false_r. reflexivity.
Qed.

Lemma pkt_stream_framed : forall p payload lo hi,
  pkt_stream (p :: payload ++ [lo; hi]) = if data_pid_byte p then payload else [].
Proof. intros. unfold pkt_stream. rewrite rx_payload_of_app. reflexivity. Qed.

Lemma pkt_verdict_good_iff : forall l, Forall (fun b => b < 256) l ->
  (pkt_verdict l = V_GOOD <->
   exists p payload, data_pid_byte p = true /\
     l = p :: payload ++ [crc16_usb payload mod 256; crc16_usb payload / 256]).
Proof.
  intros l Hl. split.
  - destruct l as [|p bs]; [discriminate|]. unfold pkt_verdict.
    destruct (data_pid_byte p) eqn:Ep; [|discriminate]. cbn [andb].
    destruct (Nat.leb 2 (length bs)) eqn:E2; [|discriminate].
    apply Nat.leb_le in E2. destruct (rx_split_last2 bs E2) as [pre [a [b ->]]].
    rewrite rx_payload_of_app, rx_trailer_of_app.
    destruct (crc16_usb pre =? a + 256 * b) eqn:Ec; [|discriminate]. intros _.
    apply N.eqb_eq in Ec. exists p, pre. split; [exact Ep|].
    inversion Hl as [|? ? _ Hbs]; subst. apply Forall_app in Hbs as [_ Hab].
    inversion Hab as [|? ? Ha Hb']; subst. inversion Hb' as [|? ? Hb _]; subst.
    rewrite Ec. repeat f_equal; lia.
  - intros [p [payload [Ep ->]]]. rewrite pkt_verdict_framed, Ep.
    assert (E : crc16_usb payload =? crc16_usb payload mod 256 + 256 * (crc16_usb payload / 256) = true)
      by (apply N.eqb_eq; lia).
    rewrite E. reflexivity.
Qed.

(* ---------------------------------------------------------------------------------------------- *)
(* the interpacket timer inside the receiver                                                        *)
Lemma rx_allowed : forall tbl speed c D b t, tbl speed = Some (D, b, t) ->
  N.odd (ip_strobes tbl c speed) = (c =? D).
Proof.
  intros tbl speed c D b t H. unfold ip_strobes. rewrite H.
  destruct (c =? D), (c =? b), (c =? t); reflexivity.
Qed.

Section Refine.
  Variables cmax w : N.
  Variable tbl : ip_table.
  Variable speed : N.
  Variables D tb tt : N.
  Hypothesis Htbl : tbl speed = Some (D, tb, tt).
  Hypothesis HD : D <= cmax + 1.
  Hypothesis Hw : cmax + 1 < 2 ^ w.

  Lemma rx_cnt_le : forall c st, c <= cmax + 1 -> ip_next cmax w c st <= cmax + 1.
  Proof.
    intros c st H. unfold ip_next. destruct st; [lia|].
    destruct (c <? cmax + 1) eqn:E; [|lia]. rewrite N.mod_small by lia. lia.
  Qed.

  Definition vgood (v : rx_verdict) : bool := match v with V_GOOD => true | _ => false end.
  Definition vbad (v : rx_verdict) : bool := match v with V_BAD => true | _ => false end.

  (* what the FSM state knows about the packet in progress *)
  Definition rx_rel_fsm (s : rx_state) (q : rxs_state) : Prop :=
    match x_fsm s with
    | RX_IDLE => q_pkt q = None /\ q_wait q = None
    | RX_READ_PID => q_pkt q = Some [] /\ q_wait q = None
    | RX_IRRELEVANT => exists p bs, q_pkt q = Some (p :: bs) /\ data_pid_byte p = false /\ q_wait q = None
    | RX_FIRST => exists p, q_pkt q = Some [p] /\ data_pid_byte p = true /\ x_apid s = p mod 16 /\
                            x_crc s = rx_R [] /\ q_wait q = None
    | RX_SECOND => exists p b, q_pkt q = Some [p; b] /\ data_pid_byte p = true /\ x_apid s = p mod 16 /\
                               x_hi s = b /\ x_lbc s = crc16_usb [] /\ x_crc s = rx_R [b] /\ q_wait q = None
    | RX_EMIT => exists p pre a b, q_pkt q = Some (p :: pre ++ [a; b]) /\ data_pid_byte p = true /\
                               x_apid s = p mod 16 /\ x_lo s = a /\ x_hi s = b /\
                               x_lwc s = crc16_usb pre /\ x_lbc s = crc16_usb (pre ++ [a]) /\
                               x_crc s = rx_R (pre ++ [a; b]) /\ q_wait q = None
    | RX_DELAY => q_pkt q = None /\ exists k, q_wait q = Some k /\ x_cnt s = k /\ k <= D
    end.

  Definition rx_rel (s : rx_state) (q : rxs_state) : Prop :=
    x_done s = vgood (q_v q) /\ x_bad s = vbad (q_v q) /\ x_pid s = q_pid q /\ x_cnt s <= cmax + 1 /\
    rx_rel_fsm s q.

  Lemma rx_rel_init : rx_rel rx_init rxs_init.
  Proof. unfold rx_rel, rx_rel_fsm, rx_init, rxs_init; cbn. repeat split; lia. Qed.

  Ltac rx_crunch :=
    cbn [x_fsm x_apid x_lo x_hi x_lbc x_lwc x_crc x_done x_bad x_pid x_cnt
         q_pkt q_v q_pid q_wait fst snd rxp_next rxp_done negb andb orb vgood vbad pkt_streaming pkt_oldest] in *.

  Ltac rx_goals tac :=
    split; [split; [|split; [|split; [|split]]] |];
    [ try reflexivity; auto | try reflexivity; auto | try reflexivity; auto | auto; try lia | tac | try reflexivity; auto ].

  Lemma rx_rel_step : forall s q i, rx_rel s q -> rxs_env q i = true ->
    rx_rel (fst (rx_step cmax w tbl speed s i)) (fst (rxs_step D q i)) /\
    snd (rx_step cmax w tbl speed s i) = snd (rxs_step D q i).
  Proof.
    intros s q i (Hd & Hb & Hp & Hc & Hf) Henv.
    unfold rxs_env in Henv. apply andb_true_iff in Henv as [Hva Hwt].
    pose proof (rx_dat_lt i) as Hdat.
    destruct (rx_data_pid_spec _ Hdat) as [Hpid Hnib].
    destruct s as [f apid lo hi lbc lwc crc done bad pid cnt].
    destruct q as [pkt v qpid wait].
    unfold rx_rel, rx_rel_fsm, rx_step, rxs_step. rx_crunch. unfold rx_rel_fsm in Hf. rx_crunch.
    rewrite (rx_allowed tbl speed cnt D tb tt Htbl).
    subst done bad pid.
    pose proof (rx_cnt_le cnt false Hc) as Hc'.
    destruct f; rx_crunch.
    - (* IDLE *)
      destruct Hf as [-> ->]. rx_crunch.
      destruct (rx_act i); rx_crunch; rx_goals ltac:(split; reflexivity).
    - (* READ_PID *)
      destruct Hf as [-> ->]. rx_crunch.
      destruct (rx_act i) eqn:A; rx_crunch.
      + destruct (rx_val i) eqn:V; rx_crunch.
        * rewrite Hpid. destruct (data_pid_byte (rx_dat i)) eqn:P; rx_crunch.
          -- rx_goals ltac:(exists (rx_dat i); repeat split; auto).
          -- rx_goals ltac:(exists (rx_dat i), []; repeat split; auto).
        * rx_goals ltac:(split; reflexivity).
      + rewrite (pkt_verdict_short []) by (cbn; lia). rx_goals ltac:(split; reflexivity).
    - (* FIRST *)
      destruct Hf as (p & -> & P & -> & -> & ->). rx_crunch.
      rewrite P. rx_crunch.
      destruct (rx_act i) eqn:A; rx_crunch.
      + destruct (rx_val i) eqn:V; rx_crunch.
        * rx_goals ltac:(exists p, (rx_dat i); repeat split; auto;
                         change [rx_dat i] with ([] ++ [rx_dat i]); rewrite rx_R_snoc; reflexivity).
        * rx_goals ltac:(exists p; repeat split; auto).
      + rewrite (pkt_verdict_short [p]) by (cbn; lia). rx_goals ltac:(split; reflexivity).
    - (* SECOND *)
      destruct Hf as (p & b & -> & P & -> & -> & -> & -> & ->). rx_crunch.
      rewrite P. rx_crunch.
      destruct (rx_val i) eqn:V; rx_crunch.
      + cbn [negb orb] in Hva. rewrite Hva. rx_crunch.
        rx_goals ltac:(exists p, [], b, (rx_dat i); cbn [app]; repeat split; auto;
                       try (change [b; rx_dat i] with ([b] ++ [rx_dat i]); rewrite rx_R_snoc; reflexivity);
                       try (rewrite rx_crc16_R; reflexivity)).
      + destruct (rx_act i) eqn:A; rx_crunch.
        * rx_goals ltac:(exists p, b; repeat split; auto).
        * rewrite (pkt_verdict_short [p; b]) by (cbn; lia). rx_goals ltac:(split; reflexivity).
    - (* EMIT *)
      destruct Hf as (p & pre & a & b & -> & P & -> & -> & -> & -> & -> & -> & ->). rx_crunch.
      rewrite P, rx_leb2, rx_nth_lo. rx_crunch.
      destruct (rx_act i) eqn:A; rx_crunch.
      + destruct (rx_val i) eqn:V; rx_crunch.
        * rx_goals ltac:(exists p, (pre ++ [a]), b, (rx_dat i); rewrite <- rx_snoc3; repeat split; auto;
                         try (rewrite rx_R_snoc; reflexivity);
                         try (rewrite <- rx_snoc2; symmetry; apply rx_crc16_R)).
        * rx_goals ltac:(exists p, pre, a, b; repeat split; auto).
      + rewrite orb_false_r in Hva. apply negb_true_iff in Hva. rewrite Hva. rx_crunch.
        unfold pkt_verdict. rewrite P, rx_leb2, rx_payload_of_app, rx_trailer_of_app. rx_crunch.
        destruct (crc16_usb pre =? a + 256 * b) eqn:M; rx_crunch.
        * unfold ip_next. rx_goals ltac:(split; [reflexivity|]; exists 0; repeat split; auto; lia).
        * rx_goals ltac:(split; reflexivity).
    - (* DELAY *)
      destruct Hf as (-> & k & -> & -> & Hk). rx_crunch.
      apply negb_true_iff in Hwt. rewrite Hwt in *. rx_crunch.
      rewrite orb_false_r in Hva. apply negb_true_iff in Hva. rewrite Hva. rx_crunch.
      destruct (k =? D) eqn:E; rx_crunch.
      + rx_goals ltac:(split; reflexivity).
      + assert (k < D) by lia.
        assert (En : ip_next cmax w k false = k + 1).
        { unfold ip_next. destruct (k <? cmax + 1) eqn:E2; [|lia]. apply N.mod_small. lia. }
        rewrite En. rx_goals ltac:(split; [reflexivity|]; exists (k + 1); repeat split; auto; lia).
    - (* IRRELEVANT *)
      destruct Hf as (p & bs & -> & P & ->). rx_crunch.
      rewrite P. rx_crunch.
      destruct (rx_act i) eqn:A; rx_crunch.
      + rx_goals ltac:(destruct (rx_val i); [exists p, (bs ++ [rx_dat i]) | exists p, bs]; repeat split; auto).
      + unfold pkt_verdict. rewrite P. rx_crunch. rx_goals ltac:(split; reflexivity).
  Qed.

  Theorem rx_refines : forall tr s q, rx_rel s q -> env_ok rxs_state (rxs_step D) rxs_env q tr = true ->
    run (rx_step cmax w tbl speed) s tr = run (rxs_step D) q tr.
  Proof.
    induction tr as [|i tr IH]; intros s q H HE; [reflexivity|].
    cbn [env_ok] in HE. apply andb_true_iff in HE as [He Ht].
    destruct (rx_rel_step s q i H He) as [Hr Ho].
    cbn [run]. destruct (rx_step cmax w tbl speed s i) as [s' o].
    destruct (rxs_step D q i) as [q' o']. cbn [fst snd] in *. subst o'. f_equal.
    apply IH; assumption.
  Qed.

  Corollary rx_from_reset : forall tr, env_ok rxs_state (rxs_step D) rxs_env rxs_init tr = true ->
    run (rx_step cmax w tbl speed) rx_init tr = run (rxs_step D) rxs_init tr.
  Proof. intros. apply rx_refines; [apply rx_rel_init | assumption]. Qed.
End Refine.

(* ---------------------------------------------------------------------------------------------- *)
(* decoding the packed output word                                                                  *)
Lemma rx_odd_b2n : forall b k, N.odd (b2n b + 2 * k) = b.
Proof. intros. rewrite N.odd_add_mul_2. destruct b; reflexivity. Qed.

Lemma rx_b2n_lt : forall b, b2n b < 2.
Proof. destruct b; cbn; lia. Qed.

Lemma rx_testbit_div : forall x k, N.testbit x k = N.odd (x / 2 ^ k).
Proof. intros. rewrite N.testbit_odd, N.shiftr_div_pow2. reflexivity. Qed.

Lemma rx_out_decode : forall v n p d b r pid, p < 256 -> pid < 16 ->
  let o := rx_out_word v n p d b r pid in
  o_valid o = v /\ o_next o = n /\ o_payload o = p /\ o_complete o = d /\ o_mismatch o = b /\
  o_ready o = r /\ o_pid o = pid.
Proof.
  intros v n p d b r pid Hp Hpid o. subst o.
  unfold o_valid, o_next, o_payload, o_complete, o_mismatch, o_ready, o_pid, rx_out_word, bits.
  rewrite !rx_testbit_div, !N.land_ones, !N.shiftr_div_pow2.
  pose proof (rx_b2n_lt v); pose proof (rx_b2n_lt n); pose proof (rx_b2n_lt d);
  pose proof (rx_b2n_lt b); pose proof (rx_b2n_lt r).
  change (2 ^ 0) with 1; change (2 ^ 1) with 2; change (2 ^ 2) with 4; change (2 ^ 8) with 256;
  change (2 ^ 10) with 1024; change (2 ^ 11) with 2048; change (2 ^ 12) with 4096;
  change (2 ^ 13) with 8192; change (2 ^ 4) with 16.
  set (x := b2n v + 2 * b2n n + 4 * p + 1024 * b2n d + 2048 * b2n b + 4096 * b2n r + 8192 * pid).
  assert (E0 : x / 1 = b2n v + 2 * (b2n n + 2 * p + 512 * b2n d + 1024 * b2n b + 2048 * b2n r + 4096 * pid)) by lia.
  assert (E1 : x / 2 = b2n n + 2 * (p + 256 * b2n d + 512 * b2n b + 1024 * b2n r + 2048 * pid)) by lia.
  assert (E2 : (x / 4) mod 256 = p) by lia.
  assert (E10 : x / 1024 = b2n d + 2 * (b2n b + 2 * b2n r + 4 * pid)) by lia.
  assert (E11 : x / 2048 = b2n b + 2 * (b2n r + 2 * pid)) by lia.
  assert (E12 : x / 4096 = b2n r + 2 * pid) by lia.
  assert (E13 : (x / 8192) mod 16 = pid) by lia.
  rewrite E0, E1, E2, E10, E11, E12, E13, !rx_odd_b2n. repeat split; reflexivity.
Qed.

(* ---------------------------------------------------------------------------------------------- *)
(* packet-level reading of the specification machine                                                *)
Definition rxs_wf (q : rxs_state) : Prop :=
  (forall l, q_pkt q = Some l -> Forall (fun b => b < 256) l) /\ q_pid q < 16.

Lemma rxs_wf_init : rxs_wf rxs_init.
Proof. split; [discriminate | cbn; lia]. Qed.

Lemma rx_nth_lt : forall (l : list N) k, Forall (fun b => b < 256) l -> nth k l 0 < 256.
Proof.
  induction l as [|x l IH]; intros k H; [destruct k; cbn; lia|].
  inversion H; subst. destruct k; cbn; auto.
Qed.

Lemma pkt_oldest_lt : forall p, (forall l, p = Some l -> Forall (fun b => b < 256) l) -> pkt_oldest p < 256.
Proof.
  intros [[|x bs]|] H; cbn; try lia.
  specialize (H _ eq_refl). inversion H; subst. apply rx_nth_lt. assumption.
Qed.

Section SpecFacts.
  Variable D : N.

  Lemma rxs_wf_step : forall q i, rxs_wf q -> rxs_wf (fst (rxs_step D q i)).
  Proof.
    intros [pkt v pid wait] i [Hl Hp]. unfold rxs_step, rxs_wf in *. cbn [q_pkt q_v q_pid q_wait fst] in *. split.
    - intros l. destruct pkt as [l0|]; cbn [rxp_next].
      + destruct (rx_act i); [|discriminate]. intros E. inversion E; subst.
        destruct (rx_val i); [|auto]. apply Forall_app. split; [auto|]. constructor; [apply rx_dat_lt | constructor].
      + destruct (rx_act i); [|discriminate]. intros E. inversion E; subst. constructor.
    - destruct (match rxp_done pkt i with Some l => pkt_verdict l | None => V_NONE end); try assumption.
      destruct (rxp_done pkt i) as [[|p ?]|]; try assumption. apply N.mod_lt. discriminate.
  Qed.

  Lemma rxs_out_fields : forall q i, rxs_wf q ->
    let o := snd (rxs_step D q i) in
    o_valid o = pkt_streaming (q_pkt q) /\
    o_next o = (pkt_streaming (q_pkt q) && rx_val i) /\
    o_payload o = (if pkt_streaming (q_pkt q) && rx_val i then pkt_oldest (q_pkt q) else 0) /\
    o_complete o = (match q_v q with V_GOOD => true | _ => false end) /\
    o_mismatch o = (match q_v q with V_BAD => true | _ => false end) /\
    o_ready o = (match q_wait q with Some k => k =? D | None => false end) /\
    o_pid o = q_pid q.
  Proof.
    intros q i [Hl Hp]. unfold rxs_step. cbn [snd]. apply rx_out_decode; [|exact Hp].
    destruct (pkt_streaming (q_pkt q) && rx_val i); [apply pkt_oldest_lt; exact Hl | lia].
  Qed.

  Lemma rxs_o_verdict : forall q i, rxs_wf q -> o_verdict (snd (rxs_step D q i)) = q_v q.
  Proof.
    intros q i H. destruct (rxs_out_fields q i H) as (_ & _ & _ & Hc & Hm & _).
    unfold o_verdict. rewrite Hc, Hm. destruct (q_v q); reflexivity.
  Qed.

  (* no packet ever raises both strobes *)
  Theorem rxs_never_both : forall tr q, rxs_wf q ->
    Forall (fun o => o_complete o && o_mismatch o = false) (run (rxs_step D) q tr).
  Proof.
    induction tr as [|i tr IH]; intros q H; cbn [run]; [constructor|].
    pose proof (rxs_out_fields q i H) as (_ & _ & _ & Hc & Hm & _).
    pose proof (rxs_wf_step q i H) as H'.
    destruct (rxs_step D q i) as [q' o]. cbn [fst snd] in *. constructor; [|apply IH; exact H'].
    rewrite Hc, Hm. destruct (q_v q); reflexivity.
  Qed.

  (* the strobes raised along a history are exactly the verdicts on its packets, in order: the verdict on a
     packet is shown in the cycle after the one in which rx_active falls *)
  Theorem rxs_verdict_events : forall tr x q, rxs_wf q ->
    filter is_verdict (map o_verdict (run (rxs_step D) q (tr ++ [x])))
    = filter is_verdict (q_v q :: map pkt_verdict (rx_packets (q_pkt q) tr)).
  Proof.
    induction tr as [|i tr IH]; intros x q H.
    - cbn [app run rx_packets map]. pose proof (rxs_o_verdict q x H) as E.
      destruct (rxs_step D q x) as [q' o]. cbn [snd map] in *. rewrite E. reflexivity.
    - cbn [app run]. pose proof (rxs_o_verdict q i H) as E. pose proof (rxs_wf_step q i H) as H'.
      specialize (IH x (fst (rxs_step D q i)) H').
      assert (Eq : q_pkt (fst (rxs_step D q i)) = rxp_next (q_pkt q) i) by reflexivity.
      assert (Ev : q_v (fst (rxs_step D q i)) =
                   match rxp_done (q_pkt q) i with Some l => pkt_verdict l | None => V_NONE end) by reflexivity.
      destruct (rxs_step D q i) as [q' o]. cbn [fst snd map] in *. rewrite E.
      cbn [filter]. rewrite IH, Eq, Ev. cbn [rx_packets].
      destruct (rxp_done (q_pkt q) i) as [l|]; cbn [map filter is_verdict]; reflexivity.
  Qed.

  Corollary rxs_verdict_events_reset : forall tr x,
    filter is_verdict (map o_verdict (run (rxs_step D) rxs_init (tr ++ [x])))
    = filter is_verdict (map pkt_verdict (rx_packets None tr)).
  Proof. intros. rewrite rxs_verdict_events by apply rxs_wf_init. reflexivity. Qed.

  (* the bytes handed to the consumer are exactly the payloads (bytes between PID and CRC) of the data
     packets, in order; for the packet still in progress: its bytes so far minus the last two *)
  Definition pkt_stream_opt (p : option (list N)) : list N := match p with Some l => pkt_stream l | None => [] end.

  Lemma rx_payload_snoc : forall bs d,
    payload_of (bs ++ [d]) = payload_of bs ++ (if Nat.leb 2 (length bs) then [nth (length bs - 2) bs 0] else []).
  Proof.
    intros bs d. destruct (Nat.leb 2 (length bs)) eqn:E.
    - apply Nat.leb_le in E. destruct (rx_split_last2 bs E) as [pre [a [b ->]]].
      rewrite rx_snoc3, !rx_payload_of_app, rx_nth_lo. reflexivity.
    - apply Nat.leb_gt in E. unfold payload_of. rewrite app_length. cbn [length].
      replace (length bs + 1 - 2)%nat with 0%nat by lia. replace (length bs - 2)%nat with 0%nat by lia.
      reflexivity.
  Qed.

  Lemma pkt_stream_snoc : forall l d,
    pkt_stream (l ++ [d]) = pkt_stream l ++ (if pkt_streaming (Some l) then [pkt_oldest (Some l)] else []).
  Proof.
    intros [|p bs] d.
    - cbn [app pkt_stream pkt_streaming]. destruct (data_pid_byte d); reflexivity.
    - cbn [app pkt_stream pkt_streaming pkt_oldest]. destruct (data_pid_byte p); cbn [andb].
      + apply rx_payload_snoc.
      + reflexivity.
  Qed.

  Theorem rxs_streamed : forall tr q, rxs_wf q -> env_ok rxs_state (rxs_step D) rxs_env q tr = true ->
    pkt_stream_opt (q_pkt q) ++ streamed (run (rxs_step D) q tr)
    = flat_map pkt_stream (rx_packets (q_pkt q) tr) ++ pkt_stream_opt (rx_pending (q_pkt q) tr).
  Proof.
    induction tr as [|i tr IH]; intros q H HE.
    - cbn. rewrite app_nil_r. reflexivity.
    - cbn [env_ok] in HE. apply andb_true_iff in HE as [He Ht].
      unfold rxs_env in He. apply andb_true_iff in He as [Hva _].
      pose proof (rxs_out_fields q i H) as (_ & Hn & Hpl & _).
      pose proof (rxs_wf_step q i H) as H'.
      specialize (IH (fst (rxs_step D q i)) H' Ht).
      assert (Eq : q_pkt (fst (rxs_step D q i)) = rxp_next (q_pkt q) i) by reflexivity.
      cbn [run rx_packets rx_pending].
      destruct (rxs_step D q i) as [q' o]. cbn [fst snd] in *. rewrite Eq in IH.
      unfold streamed in *. cbn [filter]. rewrite Hn.
      destruct (q_pkt q) as [l|] eqn:Ep.
      + cbn [rxp_done rxp_next pkt_stream_opt] in *.
        destruct (rx_act i) eqn:A.
        * destruct (rx_val i) eqn:V.
          -- rewrite andb_true_r in *. rewrite <- IH. cbn [pkt_stream_opt]. rewrite pkt_stream_snoc.
             destruct (pkt_streaming (Some l)); cbn [map].
             ++ rewrite Hpl. rewrite <- app_assoc. reflexivity.
             ++ rewrite app_nil_r. reflexivity.
          -- rewrite andb_false_r in *. rewrite <- IH. reflexivity.
        * rewrite orb_false_r in Hva. apply negb_true_iff in Hva. rewrite Hva, andb_false_r.
          cbn [flat_map]. rewrite <- app_assoc, <- IH. reflexivity.
      + cbn [pkt_streaming andb rxp_done rxp_next pkt_stream_opt app] in *.
        rewrite <- IH. destruct (rx_act i); reflexivity.
  Qed.

  Corollary rxs_streamed_reset : forall tr, env_ok rxs_state (rxs_step D) rxs_env rxs_init tr = true ->
    streamed (run (rxs_step D) rxs_init tr)
    = flat_map pkt_stream (rx_packets None tr) ++ pkt_stream_opt (rx_pending None tr).
  Proof. intros tr H. apply (rxs_streamed tr rxs_init rxs_wf_init H). Qed.

  (* ready_for_response follows only a completed packet: it is raised exactly D cycles after a
     packet_complete strobe *)
  Lemma rxs_ready_cause : forall tr q t, rxs_wf q ->
    o_ready (nth t (run (rxs_step D) q tr) 0) = true ->
    (exists k, q_wait q = Some k /\ k <= D /\ t = N.to_nat (D - k)) \/
    ((N.to_nat D <= t)%nat /\ o_complete (nth (t - N.to_nat D) (run (rxs_step D) q tr) 0) = true).
  Proof.
    induction tr as [|i tr IH]; intros q t H Hr.
    - destruct t; discriminate.
    - cbn [run] in *.
      pose proof (rxs_out_fields q i H) as (_ & _ & _ & _ & _ & Hrd & _).
      pose proof (rxs_wf_step q i H) as H'.
      assert (Ew : q_wait (fst (rxs_step D q i)) =
                   match q_v (fst (rxs_step D q i)) with
                   | V_GOOD => Some 0
                   | _ => match q_wait q with Some k => if k =? D then None else Some (k + 1) | None => None end
                   end) by reflexivity.
      destruct (rxs_step D q i) as [q' o]. cbn [fst snd] in *.
      destruct t as [|t]; cbn [nth] in *.
      + left. rewrite Hrd in Hr. destruct (q_wait q) as [k|]; [|discriminate].
        apply N.eqb_eq in Hr. subst k. exists D. repeat split; lia.
      + destruct (IH q' t H' Hr) as [(k' & Hk' & Hle & Ht) | (Hle & Hc)].
        * rewrite Hk' in Ew. destruct (q_v q') eqn:Ev.
          -- destruct (q_wait q) as [k|]; [|discriminate]. destruct (k =? D) eqn:E; [discriminate|].
             inversion Ew; subst k'. left. exists k. repeat split; lia.
          -- inversion Ew; subst k'. right. split; [lia|].
             replace (S t - N.to_nat D)%nat with 1%nat by lia. cbn [nth].
             destruct tr as [|i2 tr2]; [destruct t; discriminate|]. cbn [run].
             pose proof (rxs_out_fields q' i2 H') as (_ & _ & _ & Hc2 & _).
             destruct (rxs_step D q' i2) as [q2 o2]. cbn [snd nth] in *. rewrite Hc2, Ev. reflexivity.
          -- destruct (q_wait q) as [k|]; [|discriminate]. destruct (k =? D) eqn:E; [discriminate|].
             inversion Ew; subst k'. left. exists k. repeat split; lia.
        * right. split; [lia|]. replace (S t - N.to_nat D)%nat with (S (t - N.to_nat D)) by lia. exact Hc.
  Qed.

  Theorem rxs_ready_follows_complete : forall tr t,
    o_ready (nth t (run (rxs_step D) rxs_init tr) 0) = true ->
    (N.to_nat D <= t)%nat /\ o_complete (nth (t - N.to_nat D) (run (rxs_step D) rxs_init tr) 0) = true.
  Proof.
    intros tr t H. destruct (rxs_ready_cause tr rxs_init t rxs_wf_init H) as [(k & Hk & _) | R]; [discriminate | exact R].
  Qed.
End SpecFacts.

(* ---------------------------------------------------------------------------------------------- *)
(* packing lemmas for the lock-step tie                                                             *)
Lemma rx_zipp_length : forall (p : list bool) (c : list bool) fb,
  length (zipp bool xorb p c fb) = Nat.min (length p) (length c).
Proof. induction p as [|pb p IH]; intros [|x c] fb; cbn; auto. Qed.

Lemma rx_removelast_length : forall (l : list bool), length (removelast l) = (length l - 1)%nat.
Proof.
  induction l as [|x l IH]; [reflexivity|]. destruct l as [|y l]; [reflexivity|].
  cbn [removelast length] in *. rewrite IH. lia.
Qed.

Lemma rx_crc_shift_length : forall reg b, length reg = 16%nat ->
  length (crc_shift bool xorb false poly16 reg b) = 16%nat.
Proof.
  intros reg b H. unfold crc_shift. rewrite rx_zipp_length. cbn [length]. rewrite rx_removelast_length, H.
  reflexivity.
Qed.

Lemma rx_crc_update_length : forall msg reg, length reg = 16%nat -> length (crc_update poly16 reg msg) = 16%nat.
Proof.
  unfold crc_update, crc_shifts. induction msg as [|b msg IH]; intros reg H; cbn [fold_left]; [exact H|].
  apply IH. apply rx_crc_shift_length. exact H.
Qed.

Lemma rx_crc_out_lt : forall reg, length reg = 16%nat -> crc_out reg < 65536.
Proof.
  intros reg H. unfold crc_out, crc_finish.
  pose proof (bits2N_bound (map negb (rev reg))) as B. rewrite map_length, rev_length, H in B. exact B.
Qed.

Lemma rx_fsm_code_of : forall f, rx_fsm_of (rx_fsm_code f) = f.
Proof. destruct f; reflexivity. Qed.
Lemma rx_fsm_code_lt : forall f, rx_fsm_code f < 8.
Proof. destruct f; cbn; lia. Qed.

Lemma rx_dec_enc : forall s, rx_wf s -> rx_dec (rx_enc s) = s.
Proof.
  intros [f apid lo hi lbc lwc crc done bad pid cnt] (H1 & H2 & H3 & H4 & H5 & H6 & H7).
  cbn [x_apid x_lo x_hi x_lbc x_lwc x_crc x_pid] in *.
  unfold rx_dec, rx_enc. cbn [x_fsm x_apid x_lo x_hi x_lbc x_lwc x_crc x_done x_bad x_pid x_cnt].
  pose proof (rx_fsm_code_lt f). pose proof (rx_b2n_lt done). pose proof (rx_b2n_lt bad).
  assert (Hc : bits2N crc < 65536) by (pose proof (bits2N_bound crc) as B; rewrite H6 in B; exact B).
  cbv zeta.
  rewrite !(pk_mod 8), !(pk_div 8) by assumption.
  rewrite !(pk_mod 16 apid), !(pk_div 16 apid) by assumption.
  rewrite !(pk_mod 256 lo), !(pk_div 256 lo) by assumption.
  rewrite !(pk_mod 256 hi), !(pk_div 256 hi) by assumption.
  rewrite !(pk_mod 65536 lbc), !(pk_div 65536 lbc) by assumption.
  rewrite !(pk_mod 65536 lwc), !(pk_div 65536 lwc) by assumption.
  rewrite !(pk_mod 65536 (bits2N crc)), !(pk_div 65536 (bits2N crc)) by assumption.
  rewrite !(pk_mod 2 (b2n done)), !(pk_div 2 (b2n done)) by assumption.
  rewrite !(pk_mod 2 (b2n bad)), !(pk_div 2 (b2n bad)) by assumption.
  rewrite (pk_mod 16 pid), (pk_div 16 pid) by assumption.
  rewrite rx_fsm_code_of. rewrite <- H6 at 1. rewrite N2bits_bits2N.
  destruct done, bad; reflexivity.
Qed.

Lemma rx_wf_init : rx_wf rx_init.
Proof. unfold rx_wf, rx_init; cbn. repeat split; lia. Qed.

Lemma rx_wf_step : forall cmax w tbl speed s i, rx_wf s -> rx_wf (fst (rx_step cmax w tbl speed s i)).
Proof.
  intros cmax w tbl speed [f apid lo hi lbc lwc crc done bad pid cnt] i (H1 & H2 & H3 & H4 & H5 & H6 & H7).
  cbn [x_apid x_lo x_hi x_lbc x_lwc x_crc x_pid] in *.
  unfold rx_wf, rx_step. cbn [fst x_fsm x_apid x_lo x_hi x_lbc x_lwc x_crc x_done x_bad x_pid x_cnt].
  pose proof (rx_dat_lt i). pose proof (rx_bits_lt (rx_dat i) 0 4) as Hb. change (2 ^ 4) with 16 in Hb.
  pose proof (rx_crc_out_lt crc H6).
  pose proof (rx_crc_update_length (N2bits 8 (rx_dat i)) crc H6).
  repeat split.
  - destruct (match f with RX_READ_PID => _ | _ => false end); assumption.
  - destruct (match f with RX_SECOND | RX_EMIT => _ | _ => false end); assumption.
  - destruct (match f with RX_FIRST | RX_SECOND | RX_EMIT => _ | _ => false end); assumption.
  - destruct (match f with RX_FIRST | RX_SECOND | RX_EMIT => _ | _ => false end); assumption.
  - destruct (match f with RX_SECOND | RX_EMIT => _ | _ => false end); assumption.
  - destruct f; try (destruct (rx_val i); assumption). reflexivity.
  - destruct (_ && _ && _); assumption.
Qed.

(* ---------------------------------------------------------------------------------------------- *)
(* the full-module model is the receiver core composed with the CRC16 unit and the interpacket timer *)
Theorem rx_step_compose : forall cmax w tbl speed s i,
  rx_step cmax w tbl speed s i =
  let '(c', (o, st_crc, st_tm)) :=
    rxo_core (rxo_of s) (rx_act i) (rx_val i) (rx_dat i) (crc_out (x_crc s)) (N.odd (ip_strobes tbl (x_cnt s) speed)) in
  ({| x_fsm := c_fsm c'; x_apid := c_apid c'; x_lo := c_lo c'; x_hi := c_hi c'; x_lbc := c_lbc c'; x_lwc := c_lwc c';
      (* USBDataPacketCRC (crc16mod_step of Model/Crc.v with tx_valid = 0): start, else rx_valid advances *)
      x_crc := if st_crc then reg_init 16
               else crc_reg_next poly16 (x_crc s) [(rx_val i, N2bits 8 (rx_dat i))];
      x_done := c_done c'; x_bad := c_bad c'; x_pid := c_pid c';
      (* USBInterpacketTimer (ip_next of Model/IpTimer.v) *)
      x_cnt := ip_next cmax w (x_cnt s) st_tm |}, o).
Proof.
  intros cmax w tbl speed [f apid lo hi lbc lwc crc done bad pid cnt] i.
  unfold rx_step, rxo_core, rxo_of.
  cbn [x_fsm x_apid x_lo x_hi x_lbc x_lwc x_crc x_done x_bad x_pid x_cnt
       c_fsm c_apid c_lo c_hi c_lbc c_lwc c_done c_bad c_pid crc_reg_next].
  destruct f; reflexivity.
Qed.

Lemma rxo_dec_enc : forall c, rxo_wf c -> rxo_dec (rxo_enc c) = c.
Proof.
  intros [f apid lo hi lbc lwc done bad pid] (H1 & H2 & H3 & H4 & H5).
  cbn [c_apid c_lo c_hi c_lbc c_lwc] in *.
  unfold rxo_dec, rxo_enc. cbn [c_fsm c_apid c_lo c_hi c_lbc c_lwc c_done c_bad c_pid].
  pose proof (rx_fsm_code_lt f). pose proof (rx_b2n_lt done). pose proof (rx_b2n_lt bad).
  cbv zeta.
  rewrite !(pk_mod 8), !(pk_div 8) by assumption.
  rewrite !(pk_mod 16 apid), !(pk_div 16 apid) by assumption.
  rewrite !(pk_mod 256 lo), !(pk_div 256 lo) by assumption.
  rewrite !(pk_mod 256 hi), !(pk_div 256 hi) by assumption.
  rewrite !(pk_mod 65536 lbc), !(pk_div 65536 lbc) by assumption.
  rewrite !(pk_mod 65536 lwc), !(pk_div 65536 lwc) by assumption.
  rewrite !(pk_mod 2 (b2n done)), !(pk_div 2 (b2n done)) by assumption.
  rewrite (pk_mod 2 (b2n bad)), (pk_div 2 (b2n bad)) by assumption.
  rewrite rx_fsm_code_of. destruct done, bad; reflexivity.
Qed.

Lemma rxo_wf_init : rxo_wf rxo_init.
Proof. unfold rxo_wf, rxo_init; cbn. repeat split; lia. Qed.

Lemma rxo_wf_step : forall c i, rxo_wf c -> rxo_wf (fst (rxo_step c i)).
Proof.
  intros [f apid lo hi lbc lwc done bad pid] i (H1 & H2 & H3 & H4 & H5).
  cbn [c_apid c_lo c_hi c_lbc c_lwc] in *.
  unfold rxo_wf, rxo_step, rxo_core. cbn [fst c_fsm c_apid c_lo c_hi c_lbc c_lwc c_done c_bad c_pid].
  pose proof (rx_dat_lt i). pose proof (rx_bits_lt (rx_dat i) 0 4) as Hb. change (2 ^ 4) with 16 in Hb.
  pose proof (rx_bits_lt i 10 16) as Hcr. change (2 ^ 16) with 65536 in Hcr.
  repeat split.
  - destruct (match f with RX_READ_PID => _ | _ => false end); assumption.
  - destruct (match f with RX_SECOND | RX_EMIT => _ | _ => false end); assumption.
  - destruct (match f with RX_FIRST | RX_SECOND | RX_EMIT => _ | _ => false end); assumption.
  - destruct (match f with RX_FIRST | RX_SECOND | RX_EMIT => _ | _ => false end); assumption.
  - destruct (match f with RX_SECOND | RX_EMIT => _ | _ => false end); assumption.
Qed.
