(* C32 -- hand model of luna/gateware/usb/usb3/physical/ctc.py: CTCSkipRemover, and its specification.
   Parametric in W = symbols per stream word (LUNA: 4).  The elastic buffer is a list of 2W symbols,
   index 0 = lowest byte of `data_buffer` (oldest), new symbols enter at the top, as in the code:
       data_buffer.eq(Cat(data_buffer[8*k:], valid_data[0:8*k]))          (k = non-SKP symbols this cycle)
   `fill` is `bytes_in_buffer`, a Signal(range(2W+1)) -- its width is part of the model.
   Symbols are 9-bit numbers data + 256*ctrl (LunaLib.SymWord). *)
From Coq Require Import NArith List Bool Arith.
Import ListNotations.
From LunaLib Require Import Netlist Machine SymWord.
Open Scope nat_scope.

(* one clock cycle of stimulus: sink.valid, source.ready, and the W symbols of sink.data/ctrl *)
Record ctc_in := { iv : bool; ir : bool; isyms : list N }.
(* state: the two-word shift register and its fill counter *)
Record ctc_state := { buf : list N; fill : nat }.

(* the symbols that survive: everything that is not the K-symbol SKP (data 0x3C with ctrl = 1) *)
Definition keep (l : list N) : list N := filter (fun s => negb (N.eqb s SKP)) l.

Section SkipRemover.
  Variable W : nat.

  Definition cwidth : nat := Nat.log2 (2 * W) + 1.          (* bits of Signal(range(2W+1)) *)
  Definition ctc_init : ctc_state := {| buf := repeat 0%N (2 * W); fill := 0 |}.

  Definition ctc_out_valid (st : ctc_state) : bool := W <=? fill st.        (* source.valid *)
  Definition ctc_in_ready (st : ctc_state) : bool := fill st <=? 2 * W.     (* sink.ready *)

  (* source.data/ctrl: `with m.Switch(bytes_in_buffer)` has cases W .. 2W-1 only *)
  Definition ctc_out_word (st : ctc_state) : list N :=
    if (W <=? fill st) && (fill st <? 2 * W)
    then firstn W (skipn (2 * W - fill st) (buf st))
    else repeat 0%N W.

  Definition ctc_next (st : ctc_state) (i : ctc_in) : ctc_state :=
    let xo := ctc_out_valid st && ir i in          (* a word leaves *)
    let xi := iv i && ctc_in_ready st in           (* a word arrives *)
    let kept := keep (isyms i) in
    let k := length kept in
    {| buf := if xi then skipn k (buf st ++ kept) else buf st;
       fill := if xi then (if xo then fill st + k - W else fill st + k) mod 2 ^ cwidth
               else if xo then fill st - W else fill st |}.

  (* output of a cycle: Some word when source.valid, else None *)
  Definition ctc_step (st : ctc_state) (i : ctc_in) : ctc_state * option (list N) :=
    (ctc_next st i, if ctc_out_valid st then Some (ctc_out_word st) else None).

  (* ---------------------------------------------------------------------------------------- *)
  (* Specification: an unbounded FIFO of symbols.  Every cycle: if at least W symbols are queued, the
     oldest W leave as one word; then the non-SKP symbols of a valid input word are appended.       *)
  Definition sp_step (q : list N) (i : ctc_in) : list N * option (list N) :=
    let full := W <=? length q in
    ((if full then skipn W q else q) ++ (if iv i then keep (isyms i) else []),
     if full then Some (firstn W q) else None).

  (* ---------------------------------------------------------------------------------------- *)
  (* The model as a packed machine.  Input word: data[8W] ctrl[W] valid ready (low to high);
     output word: data[8W] ctrl[W] valid, all-zero while source.valid = 0.                       *)
  Definition NW : N := N.of_nat W.
  Definition ctc_din (i : N) : ctc_in :=
    {| iv := N.testbit i (9 * NW); ir := N.testbit i (9 * NW + 1);
       isyms := syms_of W (bits i 0 (8 * NW)) (bits i (8 * NW) NW) |}.
  Definition ctc_eout (o : option (list N)) : N :=
    match o with
    | None => 0%N
    | Some w => (data_of w + N.shiftl (ctrl_of w) (8 * NW) + N.shiftl 1 (9 * NW))%N
    end.
  Definition ctc_mstep (st : ctc_state) (i : N) : ctc_state * N :=
    let (st', o) := ctc_step st (ctc_din i) in (st', ctc_eout o).

  (* what the property observes of the real module's packed outputs: nothing but `valid = 0`
     when the word is not valid *)
  Definition ctc_norm (o : N) : N := if N.testbit o (9 * NW) then o else 0%N.

  (* decoding a packed output word back into symbols *)
  Definition ctc_dout (o : N) : option (list N) :=
    if N.testbit o (9 * NW) then Some (syms_of W (bits o 0 (8 * NW)) (bits o (8 * NW) NW)) else None.

  (* state packing for lock-step obligations *)
  Definition ctc_enc (st : ctc_state) : N := N.lor (N.of_nat (fill st)) (N.shiftl (pack9 (buf st)) 8).
  Definition ctc_dec (m : N) : ctc_state :=
    {| buf := unpack9 (2 * W) (N.shiftr m 8); fill := N.to_nat (N.land m 255) |}.
End SkipRemover.

(* symbol streams carried by a trace *)
Definition in_stream (ins : list ctc_in) : list N :=
  concat (map (fun i => if iv i then isyms i else []) ins).
Definition out_stream (outs : list (option (list N))) : list N :=
  concat (map (fun o => match o with Some w => w | None => [] end) outs).

(* input alphabets for lock-step obligations: every word over the given symbols, valid or not,
   downstream ready *)
Fixpoint words_over (W : nat) (syms : list N) : list (list N) :=
  match W with
  | O => [[]]
  | S w => flat_map (fun t => map (fun s => s :: t) syms) (words_over w syms)
  end.
Definition ctc_pack_in (W : nat) (valid : bool) (w : list N) : N :=
  (data_of w + N.shiftl (ctrl_of w) (8 * N.of_nat W) + N.shiftl (b2n valid) (9 * N.of_nat W)
   + N.shiftl 1 (9 * N.of_nat W + 1))%N.
Definition ctc_alphabet (W : nat) (syms : list N) : list N :=
  let ws := words_over W syms in map (ctc_pack_in W true) ws ++ map (ctc_pack_in W false) ws.
(* smaller: every valid word, but only the uniform words as invalid ones *)
Definition ctc_alphabet_small (W : nat) (syms : list N) : list N :=
  map (ctc_pack_in W true) (words_over W syms) ++ map (fun s => ctc_pack_in W false (repeat s W)) syms.

(* environment for the cheaper (quick-tier) lock-step obligation: the marker symbol b occurs at most k times
   among the 2W buffer positions (valid or stale) and the incoming word together *)
Definition ctc_env_marked (W : nat) (b : N) (k : nat) (st : ctc_state) (i : N) : bool :=
  (length (filter (N.eqb b) (buf st)) + length (filter (N.eqb b) (isyms (ctc_din W i))) <=? k)%nat.
