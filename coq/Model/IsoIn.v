(* C15 -- hand model of luna/gateware/usb/usb2/endpoints/isochronous_stream_in.py:
   USBIsochronousStreamInEndpoint, parametric in max_packet_size (mps) and the endpoint number (ep),
   and the frame/packet-level specification of what it must put on its transmit stream.

   One list element = one cycle of the "usb" domain.  Inputs are the EndpointInterface signals the
   module reads (tokenizer.new_frame / endpoint / is_in / ready_for_response, tx.ready), its data
   stream (valid, payload) and bytes_in_frame; outputs are tx.valid/first/last/payload,
   tx_pid_toggle, stream.ready, data_requested, frame_finished. *)
From Coq Require Import NArith List Bool.
Import ListNotations.
From LunaLib Require Import Netlist Machine.
Open Scope N_scope.

Record iso_in := {
  i_nf : bool;        (* tokenizer.new_frame *)
  i_is_in : bool;     (* tokenizer.is_in *)
  i_rfr : bool;       (* tokenizer.ready_for_response *)
  i_rdy : bool;       (* interface.tx.ready *)
  i_sv : bool;        (* stream.valid *)
  i_ep : N;           (* tokenizer.endpoint *)
  i_sp : N;           (* stream.payload *)
  i_bif : N           (* bytes_in_frame *)
}.

Record iso_out := {
  o_valid : bool;     (* interface.tx.valid *)
  o_first : bool;     (* interface.tx.first *)
  o_last : bool;      (* interface.tx.last *)
  o_sready : bool;    (* stream.ready *)
  o_dreq : bool;      (* data_requested *)
  o_ffin : bool;      (* frame_finished *)
  o_pid : N;          (* interface.tx_pid_toggle: 0 DATA0, 1 DATA1, 2 DATA2, 3 MDATA *)
  o_payload : N       (* interface.tx.payload *)
}.

Inductive iso_fsm := IDLE | SEND_DATA | SEND_ZLP.

(* The registers of the module.  (tx_cnt, a byte counter that feeds nothing but itself, is omitted:
   it is not observable.) *)
Record iso_state := {
  st : iso_fsm;
  blf : N;            (* bytes_left_in_frame, 12 bits *)
  blp : N;            (* bytes_left_in_packet, range(0, mps+1) *)
  pid : N;            (* next_data_pid, 2 bits *)
  first : bool;       (* tx.first (a register) *)
  ffin : bool         (* frame_finished (a register) *)
}.

Definition FW : N := 4096.      (* 2^12: bytes_in_frame / bytes_left_in_frame are Signal(range(0, 3073)) *)

Section IsoIn.
  Variable mps : N.             (* max_packet_size *)
  Variable ep : N.              (* endpoint_number *)

  Definition PW : N := 2 ^ N.size mps.    (* bytes_left_in_packet is Signal(range(0, mps+1)) *)

  Definition iso_init : iso_state :=
    {| st := IDLE; blf := 0; blp := mps - 1; pid := 0; first := false; ffin := false |}.

  (* an IN token for this endpoint may be answered now *)
  Definition req (i : iso_in) : bool := (i_ep i =? ep) && i_is_in i && i_rfr i.

  (* the byte being sent ends the packet *)
  Definition terminates (s : iso_state) : bool := (blp s <=? 1) || (blf s <=? 1).

  Definition iso_outf (s : iso_state) (i : iso_in) : iso_out :=
    {| o_valid := match st s with IDLE => false | _ => true end;
       o_first := first s;
       o_last := match st s with IDLE => false | SEND_DATA => terminates s | SEND_ZLP => true end;
       o_sready := match st s with SEND_DATA => i_rdy i | _ => false end;
       o_dreq := match st s with IDLE => req i | _ => false end;
       o_ffin := ffin s;
       o_pid := pid s;
       o_payload := match st s with SEND_DATA => if i_sv i then i_sp i else 0 | _ => 0 end |}.

  (* PID the first packet of a frame with n bytes carries *)
  Definition start_pid (n : N) : N := if 2 * mps <? n then 2 else if mps <? n then 1 else 0.

  Definition iso_next (s : iso_state) (i : iso_in) : iso_state :=
    (* the new_frame latch; assignments made by the FSM below take precedence, as in the code *)
    let blf1 := if i_nf i then i_bif i else blf s in
    let blp1 := if i_nf i then mps else blp s in
    let pid1 := if i_nf i then start_pid (i_bif i) else pid s in
    match st s with
    | IDLE =>
        if req i then
          if blf s =? 0
          then {| st := SEND_ZLP; blf := blf1; blp := blp1; pid := pid1; first := false; ffin := false |}
          else {| st := SEND_DATA; blf := blf1; blp := blp1; pid := pid1; first := true; ffin := false |}
        else {| st := IDLE; blf := blf1; blp := blp1; pid := pid1; first := false; ffin := false |}
    | SEND_DATA =>
        if i_rdy i then
          if terminates s
          then {| st := IDLE; blf := (blf s + FW - 1) mod FW; blp := mps; pid := (pid s + 3) mod 4;
                  first := false; ffin := blf s <=? 1 |}
          else {| st := SEND_DATA; blf := (blf s + FW - 1) mod FW; blp := (blp s + PW - 1) mod PW; pid := pid1;
                  first := false; ffin := blf s <=? 1 |}
        else {| st := SEND_DATA; blf := blf1; blp := blp1; pid := pid1; first := first s; ffin := blf s <=? 1 |}
    | SEND_ZLP =>
        {| st := IDLE; blf := blf1; blp := blp1; pid := pid1; first := first s; ffin := false |}
    end.

  (* the I/O trace of the model *)
  Fixpoint iso_trace (s : iso_state) (ins : list iso_in) : list (iso_in * iso_out) :=
    match ins with
    | [] => []
    | i :: t => (i, iso_outf s i) :: iso_trace (iso_next s i) t
    end.

  (* ---------------------------------------------------------------------------------------- *)
  (* Specification, in terms of interface signals only.                                        *)

  (* What the transmit stream carries, read the way USBDataPacketGenerator reads it:
       - a data packet begins in a cycle with tx.valid & tx.first (the PID is sampled then); its bytes
         are tx.payload in the cycles with tx.valid & tx.ready, up to and including the one with tx.last;
       - tx.valid & tx.last without tx.first outside a data packet is a zero-length packet;
       - anything else with tx.valid (or valid dropping inside a packet) is a protocol violation.
     Besides, the new_frame strobes (with the byte count requested for the frame) and the
     data_requested strobes (an IN token was accepted) are recorded, in cycle order. *)
  Inductive item :=
  | Frame (n : N)
  | Token
  | Packet (pid : N) (bytes : list N)
  | Junk.

  Definition open_packet := option (N * list N).     (* PID and bytes so far *)

  Definition tx_step (cur : open_packet) (i : iso_in) (o : iso_out) : list item * open_packet :=
    let cur1 := match cur with
                | Some c => Some c
                | None => if o_valid o && o_first o then Some (o_pid o, []) else None
                end in
    match cur1 with
    | Some (p, bs) =>
        if o_valid o then
          if i_rdy i then
            if o_last o then ([Packet p (bs ++ [o_payload o])], None)
            else ([], Some (p, bs ++ [o_payload o]))
          else ([], cur1)
        else ([Junk], None)
    | None =>
        if o_valid o then
          if o_last o then ([Packet (o_pid o) []], None) else ([Junk], None)
        else ([], None)
    end.

  Definition obs_step (cur : open_packet) (io : iso_in * iso_out) : list item * open_packet :=
    let (i, o) := io in
    let (tx, cur') := tx_step cur i o in
    ((if i_nf i then [Frame (i_bif i)] else []) ++ (if o_dreq o then [Token] else []) ++ tx, cur').

  Fixpoint observe (cur : open_packet) (tr : list (iso_in * iso_out)) : list item * open_packet :=
    match tr with
    | [] => ([], cur)
    | io :: t => let (a, cur') := obs_step cur io in
                 let (b, cur'') := observe cur' t in (a ++ b, cur'')
    end.

  (* What a frame must look like.  The checker's state: the bytes of the frame still to be sent
     (rem), how many of the packets the frame needs are still to come (need), and whether an accepted
     token is still waiting for its packet (tok).
       - Frame n: n bytes to send; the frame needs 3, 2 or 1 packets (a frame of 0 bytes needs one
         zero-length packet);
       - every packet answers exactly one accepted token and carries min(mps, rem) bytes -- so once
         nothing is left, zero-length packets;
       - while packets are still needed they are labelled need-1: DATA2, DATA1, DATA0 counting down;
         once none is needed only zero-length packets may follow, and their PID is not constrained
         (the property does not say; the code sends MDATA after a frame with data). *)
  Definition packets_needed (n : N) : N := if n <=? mps then 1 else if n <=? 2 * mps then 2 else 3.

  Definition len (l : list N) : N := N.of_nat (length l).

  Record cstate := { rem : N; need : N; tok : bool }.

  (* while packets are still needed the PID is need-1; after that only zero-length packets may follow *)
  Definition pid_ok (c : cstate) (p : N) (bs : list N) : bool :=
    ((0 <? need c) && (p =? need c - 1)) || ((need c =? 0) && (len bs =? 0)).

  Definition conf_step (c : cstate) (it : item) : option cstate :=
    match it with
    | Frame n => if tok c then None else Some {| rem := n; need := packets_needed n; tok := false |}
    | Token => if tok c then None else Some {| rem := rem c; need := need c; tok := true |}
    | Packet p bs =>
        if tok c && (len bs =? N.min mps (rem c)) && pid_ok c p bs
        then Some {| rem := rem c - len bs; need := need c - 1; tok := false |}
        else None
    | Junk => None
    end.

  Fixpoint conf_run (c : cstate) (items : list item) : option cstate :=
    match items with
    | [] => Some c
    | it :: t => match conf_step c it with Some c' => conf_run c' t | None => None end
    end.

  (* before the first new_frame nothing is to be sent: like a frame of 0 bytes *)
  Definition c_init : cstate := {| rem := 0; need := 1; tok := false |}.

  (* a packet still open when the observation stops: right PID, and not yet all of its bytes *)
  Definition open_ok (c : cstate) (cur : open_packet) : bool :=
    match cur with
    | None => true
    | Some (p, bs) => tok c && (len bs <? N.min mps (rem c)) && (0 <? need c) && (p =? need c - 1)
    end.

  Definition iso_spec (tr : list (iso_in * iso_out)) : bool :=
    let (items, cur) := observe None tr in
    match conf_run c_init items with
    | Some c => open_ok c cur
    | None => false
    end.

  (* "taken in order from its stream, zero-filled while the stream has no data": the bytes of all
     packets, in order, are exactly what the data stream offers in the cycles in which the endpoint
     raises stream.ready (the payload if stream.valid, else zero). *)
  Definition fill (i : iso_in) : N := if i_sv i then i_sp i else 0.

  Fixpoint sent_bytes (items : list item) : list N :=
    match items with
    | [] => []
    | Packet _ bs :: t => bs ++ sent_bytes t
    | _ :: t => sent_bytes t
    end.

  Definition all_sent (tr : list (iso_in * iso_out)) : list N :=
    let (items, cur) := observe None tr in
    sent_bytes items ++ match cur with Some (_, bs) => bs | None => [] end.

  Fixpoint taken_bytes (tr : list (iso_in * iso_out)) : list N :=
    match tr with
    | [] => []
    | (i, o) :: t => (if o_sready o then [fill i] else []) ++ taken_bytes t
    end.

  (* Environment assumption, per cycle, on interface signals: a new_frame strobe (SOF token) does not
     coincide with the endpoint transmitting or accepting an IN token (the bus is half duplex), and
     the byte count requested for a frame is at most 3 * mps (and fits bytes_in_frame's 12 bits). *)
  Definition env_cycle (io : iso_in * iso_out) : bool :=
    let (i, o) := io in
    negb (i_nf i) || (negb (o_valid o) && negb (o_dreq o) && (i_bif i <=? 3 * mps) && (i_bif i <? FW)).

  Definition iso_env (tr : list (iso_in * iso_out)) : bool := forallb env_cycle tr.

  (* ---------------------------------------------------------------------------------------- *)
  (* Packed view (for the lock-step tie).  Port order, least significant first:
       inputs : new_frame, is_in, ready_for_response, tx_ready, stream_valid, endpoint[4],
                stream_payload[8], bytes_in_frame[12]
       outputs: tx_valid, tx_first, tx_last, stream_ready, data_requested, frame_finished,
                tx_pid_toggle[2], tx_payload[8]                                                *)
  Definition nb (x : N) : bool := negb (N.eqb x 0).

  Definition iso_in_of (w : N) : iso_in :=
    {| i_nf := nb (bits w 0 1); i_is_in := nb (bits w 1 1); i_rfr := nb (bits w 2 1);
       i_rdy := nb (bits w 3 1); i_sv := nb (bits w 4 1); i_ep := bits w 5 4;
       i_sp := bits w 9 8; i_bif := bits w 17 12 |}.

  Definition pk (B x rest : N) : N := x + B * rest.

  Definition iso_out_pack (o : iso_out) : N :=
    pk 2 (b2n (o_valid o)) (pk 2 (b2n (o_first o)) (pk 2 (b2n (o_last o)) (pk 2 (b2n (o_sready o))
    (pk 2 (b2n (o_dreq o)) (pk 2 (b2n (o_ffin o)) (pk 4 (o_pid o) (o_payload o))))))).

  Definition iso_out_of (w : N) : iso_out :=
    let v := w mod 2 in let w := w / 2 in
    let f := w mod 2 in let w := w / 2 in
    let l := w mod 2 in let w := w / 2 in
    let r := w mod 2 in let w := w / 2 in
    let d := w mod 2 in let w := w / 2 in
    let ff := w mod 2 in let w := w / 2 in
    let p := w mod 4 in let w := w / 4 in
    {| o_valid := nb v; o_first := nb f; o_last := nb l; o_sready := nb r; o_dreq := nb d;
       o_ffin := nb ff; o_pid := p; o_payload := w mod 256 |}.

  Definition iso_mstep (s : iso_state) (w : N) : iso_state * N :=
    let i := iso_in_of w in (iso_next s i, iso_out_pack (iso_outf s i)).

  (* the environment assumption as a predicate on (model state, input word), for the lock-step tie *)
  Definition iso_menv (s : iso_state) (w : N) : bool :=
    let i := iso_in_of w in env_cycle (i, iso_outf s i).

  (* the I/O trace decoded from packed input and output words *)
  Definition decode_trace (ws outs : list N) : list (iso_in * iso_out) :=
    combine (map iso_in_of ws) (map iso_out_of outs).

  Definition fsm_code (f : iso_fsm) : N := match f with IDLE => 0 | SEND_DATA => 1 | SEND_ZLP => 2 end.
  Definition fsm_of (n : N) : iso_fsm := match n with 0 => IDLE | 1 => SEND_DATA | _ => SEND_ZLP end.

  Definition iso_enc (s : iso_state) : N :=
    pk 4 (fsm_code (st s)) (pk 2 (b2n (first s)) (pk 2 (b2n (ffin s)) (pk 4 (pid s) (pk FW (blf s) (blp s))))).

  Definition iso_dec (m : N) : iso_state :=
    let f := m mod 4 in let m := m / 4 in
    let fi := m mod 2 in let m := m / 2 in
    let ff := m mod 2 in let m := m / 2 in
    let p := m mod 4 in let m := m / 4 in
    let bf := m mod FW in let m := m / FW in
    {| st := fsm_of f; blf := bf; blp := m; pid := p; first := nb fi; ffin := nb ff |}.
End IsoIn.
