(* C15 -- proofs about the USBIsochronousStreamInEndpoint model (Model/IsoIn.v). *)
From Coq Require Import NArith ZArith List Bool Lia ZifyBool ZifyN.
Import ListNotations.
From LunaLib Require Import Netlist Machine.
From LunaModel Require Import IsoIn.
Open Scope N_scope.
Ltac Zify.zify_post_hook ::= Z.div_mod_to_equations.

Lemma sub1_mod : forall x P, 1 <= x -> x < P -> (x + P - 1) mod P = x - 1.
Proof.
  intros x P H1 H2. replace (x + P - 1) with ((x - 1) + 1 * P) by lia.
  rewrite N.mod_add by lia. apply N.mod_small. lia.
Qed.

Lemma len_snoc : forall bs x, len (bs ++ [x]) = len bs + 1.
Proof. intros. unfold len. rewrite app_length. cbn [length]. lia. Qed.

Lemma len_nil : len [] = 0.
Proof. reflexivity. Qed.

Definition is_nil {A} (l : list A) : bool := match l with [] => true | _ => false end.

Lemma is_nil_snoc : forall A (l : list A) x, is_nil (l ++ [x]) = false.
Proof. destruct l; reflexivity. Qed.

Lemma sent_bytes_app : forall a b, sent_bytes (a ++ b) = sent_bytes a ++ sent_bytes b.
Proof.
  induction a as [|it a IH]; intro b; [reflexivity|].
  destruct it; cbn [app sent_bytes]; rewrite IH; try reflexivity. apply app_assoc.
Qed.

Lemma conf_run_app : forall mps a b c,
  conf_run mps c (a ++ b) = match conf_run mps c a with Some c' => conf_run mps c' b | None => None end.
Proof.
  induction a as [|it a IH]; intros b c; [reflexivity|].
  cbn [app conf_run]. destruct (conf_step mps c it); [apply IH | reflexivity].
Qed.

Definition open_bytes (cur : open_packet) : list N := match cur with Some (_, bs) => bs | None => [] end.

Section Proofs.
  Variables mps ep : N.

  (* ---- the observer is inside a data packet exactly while the model is in SEND_DATA ---- *)
  Definition drel (s : iso_state) (cur : open_packet) : Prop :=
    match st s with
    | IDLE => cur = None
    | SEND_ZLP => cur = None /\ first s = false
    | SEND_DATA => match cur with None => first s = true | Some _ => True end
    end.

  Lemma dstep : forall s cur i, drel s cur ->
    drel (iso_next mps ep s i) (snd (obs_step cur (i, iso_outf ep s i))) /\
    sent_bytes (fst (obs_step cur (i, iso_outf ep s i))) ++ open_bytes (snd (obs_step cur (i, iso_outf ep s i)))
    = open_bytes cur ++ (if o_sready (iso_outf ep s i) then [fill i] else []).
  Proof.
    intros [f bf bp p fi ff] cur i H. unfold drel in H. cbn [st first] in H.
    unfold obs_step, tx_step, iso_outf, iso_next, drel, fill.
    cbn [st blf blp pid first ffin o_valid o_first o_last o_sready o_dreq o_pid o_payload].
    destruct f.
    - subst cur. destruct (i_nf i), (req ep i); cbn; try (destruct (bf =? 0)); cbn; auto.
    - destruct cur as [[p0 bs]|].
      + cbn. destruct (i_rdy i); cbn; [destruct (terminates _) eqn:T; cbn|];
          destruct (i_nf i); cbn; rewrite ?app_nil_r; auto.
      + rewrite H. cbn. destruct (i_rdy i); cbn; [destruct (terminates _) eqn:T; cbn|];
          destruct (i_nf i); cbn; rewrite ?app_nil_r; auto.
    - destruct H as [-> ->]. cbn. destruct (i_nf i); cbn; auto.
  Qed.

  Lemma observe_cons : forall cur io t,
    observe cur (io :: t) =
    (fst (obs_step cur io) ++ fst (observe (snd (obs_step cur io)) t), snd (observe (snd (obs_step cur io)) t)).
  Proof.
    intros. cbn [observe]. destruct (obs_step cur io) as [a cur']. cbn [fst snd].
    destruct (observe cur' t) as [b cur'']. reflexivity.
  Qed.

  Lemma sent_taken_gen : forall ins s cur, drel s cur ->
    sent_bytes (fst (observe cur (iso_trace mps ep s ins))) ++ open_bytes (snd (observe cur (iso_trace mps ep s ins)))
    = open_bytes cur ++ taken_bytes (iso_trace mps ep s ins).
  Proof.
    induction ins as [|i t IH]; intros s cur H.
    - cbn. rewrite app_nil_r. reflexivity.
    - cbn [iso_trace]. rewrite observe_cons. cbn [fst snd taken_bytes].
      destruct (dstep s cur i H) as [H1 H2].
      rewrite sent_bytes_app, <- app_assoc, (IH _ _ H1), app_assoc, H2, <- app_assoc. reflexivity.
  Qed.

  (* (c) the bytes of all packets are, in order, what the data stream offered in the stream.ready cycles *)
  Theorem iso_sent_taken : forall ins,
    all_sent (iso_trace mps ep (iso_init mps) ins) = taken_bytes (iso_trace mps ep (iso_init mps) ins).
  Proof.
    intro ins. unfold all_sent.
    pose proof (sent_taken_gen ins (iso_init mps) None eq_refl) as H.
    destruct (observe None _) as [items cur]. cbn [fst snd open_bytes app] in H.
    rewrite <- H. destruct cur as [[p bs]|]; reflexivity.
  Qed.

  (* ---- conformance ---- *)
  Hypothesis Hmps : 1 <= mps.

  Definition crel (s : iso_state) (cur : open_packet) (c : cstate) : Prop :=
    need c <= 3 /\ pid s < 4 /\ (0 < need c -> pid s = need c - 1) /\ rem c < FW /\
    (need c = 0 -> rem c = 0) /\ (need c = 1 -> rem c <= mps) /\
    (need c = 2 -> mps < rem c <= 2 * mps) /\ (need c = 3 -> 2 * mps < rem c <= 3 * mps) /\
    match st s with
    | IDLE => cur = None /\ tok c = false /\ blf s = rem c /\ (0 < rem c -> blp s = mps)
    | SEND_ZLP => cur = None /\ tok c = true /\ first s = false /\ blf s = 0 /\ rem c = 0
    | SEND_DATA =>
        tok c = true /\
        exists b, b < N.min mps (rem c) /\ blf s + b = rem c /\ blp s + b = mps /\
          match cur with
          | None => first s = true /\ b = 0
          | Some (p, bs) => p = pid s /\ first s = is_nil bs /\ b = len bs
          end
    end.

  Lemma mps_lt_PW : mps < PW mps.
  Proof. unfold PW. apply N.size_gt. Qed.

  Lemma cstep : forall s cur c i, crel s cur c ->
    env_cycle mps (i, iso_outf ep s i) = true ->
    exists c', conf_run mps c (fst (obs_step cur (i, iso_outf ep s i))) = Some c' /\
               crel (iso_next mps ep s i) (snd (obs_step cur (i, iso_outf ep s i))) c'.
  Proof.
    intros [f bf bp p fi ff] cur [r n tk] i H He.
    unfold crel in H. cbn [st blf blp pid first ffin rem need tok] in H.
    destruct H as (Hn3 & Hp4 & Hpid & Hrem & I0 & I1 & I2 & I3 & H).
    unfold env_cycle in He. unfold iso_outf in He |- *.
    cbn [st blf blp pid first ffin o_valid o_first o_last o_sready o_dreq o_pid o_payload] in He |- *.
    pose proof mps_lt_PW as HPW.
    destruct f.
    - (* IDLE *)
      destruct H as (-> & Htk & Hbf & Hbp). cbn [tok] in Htk. subst tk bf.
      unfold obs_step, tx_step, iso_next.
      cbn [st blf blp pid first ffin o_valid o_first o_last o_sready o_dreq o_pid o_payload andb].
      destruct (i_nf i) eqn:Enf; cbn [negb orb andb] in He.
      + (* new frame: by the environment no token is accepted in this cycle *)
        destruct (req ep i) eqn:Er; [cbn in He; discriminate|].
        cbn [app fst snd conf_run conf_step tok].
        eexists. split; [reflexivity|].
        unfold crel. cbn [st blf blp pid first ffin rem need tok]. unfold packets_needed, start_pid.
        cbn [negb andb] in He.
        destruct (i_bif i <=? mps) eqn:E1; destruct (i_bif i <=? 2 * mps) eqn:E2;
        destruct (2 * mps <? i_bif i) eqn:E3; destruct (mps <? i_bif i) eqn:E4;
        repeat split; intros; try lia.
      + destruct (req ep i) eqn:Er; cbn [app fst snd conf_run conf_step tok rem need].
        * eexists. split; [reflexivity|].
          destruct (r =? 0) eqn:Er0; unfold crel; cbn [st blf blp pid first ffin rem need tok].
          -- repeat split; try lia.
          -- repeat split; try lia. exists 0. repeat split; try lia.
        * eexists. split; [reflexivity|].
          unfold crel; cbn [st blf blp pid first ffin rem need tok]. repeat split; intros; try lia; auto.
    - (* SEND_DATA: tx.valid is high, so by the environment there is no new_frame *)
      destruct H as (Htk & b & Hb & Hbf & Hbp & Hcur). cbn [tok] in Htk. subst tk.
      cbn [negb andb orb] in He. rewrite orb_false_r in He. apply negb_true_iff in He.
      unfold obs_step, tx_step, iso_next, terminates.
      cbn [st blf blp pid first ffin o_valid o_first o_last o_sready o_dreq o_pid o_payload andb].
      rewrite He. cbn [app].
      assert (Hc1 : exists p0 bs, (match cur with Some c => Some c | None => if fi then Some (p, []) else None end)
                                   = Some (p0, bs) /\ p0 = p /\ fi = is_nil bs /\ b = len bs).
      { destruct cur as [[p0 bs]|].
        - exists p0, bs. tauto.
        - destruct Hcur as [-> ->]. exists p, []. repeat split. }
      destruct Hc1 as (p0 & bs & -> & -> & Hfi & Hlen). clear Hcur.
      destruct (i_rdy i) eqn:Erdy.
      + destruct ((bp <=? 1) || (bf <=? 1)) eqn:T; cbn [fst snd conf_run conf_step tok rem need].
        * (* the packet's final byte *)
          rewrite len_snoc.
          assert (Hlen1 : (len bs + 1 =? N.min mps r) = true) by lia.
          assert (Hpok : pid_ok {| rem := r; need := n; tok := true |} p (bs ++ [if i_sv i then i_sp i else 0]) = true).
          { unfold pid_ok. cbn [need]. rewrite len_snoc. lia. }
          rewrite Hlen1, Hpok. cbn [andb].
          eexists. split; [reflexivity|].
          unfold crel; cbn [st blf blp pid first ffin rem need tok].
          assert (Hm : (bf + FW - 1) mod FW = bf - 1) by (apply sub1_mod; unfold FW in *; lia).
          rewrite Hm. clear Hm.
          repeat split; intros; try lia.
        * (* a byte in the middle of the packet *)
          eexists. split; [reflexivity|].
          unfold crel; cbn [st blf blp pid first ffin rem need tok].
          assert (Hm2 : (bp + PW mps - 1) mod PW mps = bp - 1) by (apply sub1_mod; lia).
          assert (Hm : (bf + FW - 1) mod FW = bf - 1) by (apply sub1_mod; unfold FW in *; lia).
          rewrite Hm, Hm2. clear Hm Hm2.
          repeat split; intros; try lia.
          exists (b + 1). rewrite len_snoc, is_nil_snoc. repeat split; intros; try lia.
      + cbn [fst snd conf_run]. eexists. split; [reflexivity|].
        unfold crel; cbn [st blf blp pid first ffin rem need tok].
        repeat split; intros; try lia.
        exists b. repeat split; intros; try lia; auto.
    - (* SEND_ZLP *)
      destruct H as (-> & Htk & Hfi & Hbf & Hr). cbn [tok first] in Htk, Hfi. subst tk fi bf r.
      cbn [negb andb orb] in He. rewrite orb_false_r in He. apply negb_true_iff in He.
      unfold obs_step, tx_step, iso_next.
      cbn [st blf blp pid first ffin o_valid o_first o_last o_sready o_dreq o_pid o_payload andb].
      rewrite He. cbn [app fst snd conf_run conf_step tok rem need].
      assert (Hpok : pid_ok {| rem := 0; need := n; tok := true |} p [] = true).
      { unfold pid_ok. cbn [need]. rewrite len_nil. lia. }
      rewrite len_nil, Hpok.
      replace (0 =? N.min mps 0) with true by lia. cbn [andb].
      eexists. split; [reflexivity|].
      unfold crel; cbn [st blf blp pid first ffin rem need tok].
      repeat split; intros; try lia.
  Qed.

  Lemma crel_open_ok : forall s cur c, crel s cur c -> open_ok mps c cur = true.
  Proof.
    intros [f bf bp p fi ff] cur [r n tk] H. unfold crel in H.
    cbn [st blf blp pid first ffin rem need tok] in H.
    destruct H as (Hn3 & Hp4 & Hpid & Hrem & I0 & I1 & I2 & I3 & H).
    destruct cur as [[p0 bs]|]; [|reflexivity].
    destruct f; [destruct H; discriminate | | destruct H; discriminate].
    destruct H as (Htk & b & Hb & Hbf & Hbp & -> & Hfi & ->). cbn [tok] in Htk. subst tk.
    unfold open_ok. cbn [rem need tok]. lia.
  Qed.

  Lemma conform_gen : forall ins s cur c, crel s cur c ->
    iso_env mps (iso_trace mps ep s ins) = true ->
    exists c', conf_run mps c (fst (observe cur (iso_trace mps ep s ins))) = Some c' /\
               open_ok mps c' (snd (observe cur (iso_trace mps ep s ins))) = true.
  Proof.
    induction ins as [|i t IH]; intros s cur c H He.
    - exists c. split; [reflexivity|]. cbn. exact (crel_open_ok _ _ _ H).
    - cbn [iso_trace] in He |- *. unfold iso_env in He. cbn [forallb] in He.
      apply andb_true_iff in He as [He1 He2].
      destruct (cstep s cur c i H He1) as (c1 & Hc1 & Hr1).
      destruct (IH _ _ _ Hr1 He2) as (c2 & Hc2 & Ho2).
      exists c2. rewrite observe_cons. cbn [fst snd]. rewrite conf_run_app, Hc1. split; assumption.
  Qed.

  Lemma crel_init : crel (iso_init mps) None c_init.
  Proof. unfold crel, iso_init, c_init. cbn [st blf blp pid first ffin rem need tok]. unfold FW. repeat split; intros; try lia. Qed.

  (* (b) every frame is sent as the specification demands *)
  Theorem iso_conforms : forall ins,
    iso_env mps (iso_trace mps ep (iso_init mps) ins) = true ->
    iso_spec mps (iso_trace mps ep (iso_init mps) ins) = true.
  Proof.
    intros ins He. unfold iso_spec.
    destruct (conform_gen ins _ _ _ crel_init He) as (c' & H1 & H2).
    destruct (observe None _) as [items cur]. cbn [fst snd] in H1, H2. rewrite H1. exact H2.
  Qed.
End Proofs.

(* ------------------------------------------------------------------------------------------ *)
(* Packing facts for the lock-step obligation.                                                 *)
Lemma pk_mod : forall B x rest, x < B -> pk B x rest mod B = x.
Proof. intros B x rest H. unfold pk. symmetry. apply (N.mod_unique _ _ rest); [exact H | lia]. Qed.

Lemma pk_div : forall B x rest, x < B -> pk B x rest / B = rest.
Proof. intros B x rest H. unfold pk. symmetry. apply (N.div_unique _ _ _ x); [exact H | lia]. Qed.

Lemma b2n_lt2 : forall b, b2n b < 2.
Proof. destruct b; cbn; lia. Qed.

Lemma nb_b2n : forall b, nb (b2n b) = b.
Proof. destruct b; reflexivity. Qed.

Lemma fsm_code_lt : forall f, fsm_code f < 4.
Proof. destruct f; cbn; lia. Qed.

Lemma fsm_of_code : forall f, fsm_of (fsm_code f) = f.
Proof. destruct f; reflexivity. Qed.

Ltac pk_side := first [apply b2n_lt2 | apply fsm_code_lt | assumption].
Ltac unpk := repeat first [rewrite pk_div by pk_side | rewrite pk_mod by pk_side].

Definition iso_wf (s : iso_state) : Prop := blf s < FW /\ pid s < 4.

Lemma iso_dec_enc : forall s, iso_wf s -> iso_dec (iso_enc s) = s.
Proof.
  intros [f bf bp p fi ff] [Hb Hp]. cbn [blf pid] in *.
  unfold iso_dec, iso_enc. cbv zeta. cbn [st blf blp pid first ffin].
  unpk. rewrite !nb_b2n, fsm_of_code. reflexivity.
Qed.

Lemma bits_lt : forall x lo w, bits x lo w < 2 ^ w.
Proof. intros. unfold bits. rewrite N.land_ones. apply N.mod_lt. apply N.pow_nonzero. lia. Qed.

Lemma start_pid_lt : forall mps n, start_pid mps n < 4.
Proof. intros. unfold start_pid. destruct (2 * mps <? n); [lia|]. destruct (mps <? n); lia. Qed.

Lemma iso_wf_next : forall mps ep s i, iso_wf s -> i_bif i < FW -> iso_wf (iso_next mps ep s i).
Proof.
  intros mps ep [f bf bp p fi ff] i [Hb Hp] Hi. cbn [blf pid] in *. unfold iso_wf, iso_next.
  cbn [st blf blp pid first ffin].
  assert (Hb1 : (if i_nf i then i_bif i else bf) < FW) by (destruct (i_nf i); assumption).
  assert (Hp1 : (if i_nf i then start_pid mps (i_bif i) else p) < 4)
    by (destruct (i_nf i); [apply start_pid_lt | assumption]).
  assert (Hm : (bf + FW - 1) mod FW < FW) by (apply N.mod_lt; unfold FW; lia).
  assert (Hm4 : (p + 3) mod 4 < 4) by (apply N.mod_lt; lia).
  destruct f.
  - destruct (req ep i); [destruct (bf =? 0)|]; cbn [blf pid]; split; assumption.
  - destruct (i_rdy i); [destruct (terminates _)|]; cbn [blf pid]; split; assumption.
  - cbn [blf pid]. split; assumption.
Qed.

Lemma iso_in_of_bif : forall w, i_bif (iso_in_of w) < FW.
Proof. intro w. cbn [iso_in_of i_bif]. apply (bits_lt w 17 12). Qed.

Lemma iso_wf_step : forall mps ep s w, iso_wf s -> iso_wf (fst (iso_mstep mps ep s w)).
Proof. intros. cbn [iso_mstep fst]. apply iso_wf_next; [assumption | apply iso_in_of_bif]. Qed.

Lemma iso_wf_init : forall mps, iso_wf (iso_init mps).
Proof. intro. unfold iso_wf, iso_init, FW. cbn [blf pid]. lia. Qed.

Lemma iso_out_of_pack : forall o, o_pid o < 4 -> o_payload o < 256 -> iso_out_of (iso_out_pack o) = o.
Proof.
  intros [v f l r d ff p pl] Hp Hpl. cbn [o_pid o_payload] in *.
  unfold iso_out_of, iso_out_pack. cbv zeta.
  cbn [o_valid o_first o_last o_sready o_dreq o_ffin o_pid o_payload].
  unpk. rewrite !nb_b2n. rewrite N.mod_small by exact Hpl. reflexivity.
Qed.

Lemma iso_outf_bounds : forall ep s w, iso_wf s ->
  o_pid (iso_outf ep s (iso_in_of w)) < 4 /\ o_payload (iso_outf ep s (iso_in_of w)) < 256.
Proof.
  intros ep s w [_ Hp]. unfold iso_outf. cbn [o_pid o_payload]. split; [exact Hp|].
  destruct (st s); try lia. destruct (i_sv _); [|lia]. cbn [iso_in_of i_sp]. apply (bits_lt w 9 8).
Qed.

(* the packed machine, decoded, is the typed model's I/O trace *)
Lemma iso_decode_run : forall mps ep ws s, iso_wf s ->
  decode_trace ws (run (iso_mstep mps ep) s ws) = iso_trace mps ep s (map iso_in_of ws).
Proof.
  induction ws as [|w t IH]; intros s Hs; [reflexivity|].
  cbn [run iso_mstep map iso_trace]. unfold decode_trace. cbn [map combine].
  destruct (iso_outf_bounds ep s w Hs) as [H1 H2].
  rewrite iso_out_of_pack by assumption. f_equal.
  apply IH. apply iso_wf_next; [assumption | apply iso_in_of_bif].
Qed.

Lemma iso_env_ok : forall mps ep ws s,
  env_ok iso_state (iso_mstep mps ep) (iso_menv mps ep) s ws = iso_env mps (iso_trace mps ep s (map iso_in_of ws)).
Proof.
  induction ws as [|w t IH]; intros s; [reflexivity|].
  cbn [env_ok map iso_trace]. unfold iso_env. cbn [forallb]. f_equal. apply IH.
Qed.

(* What the lock-step tie needs: both theorems about the decoded packed run of the model. *)
Theorem iso_packed : forall mps ep, 1 <= mps -> forall ws,
  env_ok iso_state (iso_mstep mps ep) (iso_menv mps ep) (iso_init mps) ws = true ->
  let tr := decode_trace ws (run (iso_mstep mps ep) (iso_init mps) ws) in
  iso_spec mps tr = true /\ all_sent tr = taken_bytes tr.
Proof.
  intros mps ep Hm ws He. cbv zeta. rewrite iso_decode_run by apply iso_wf_init. split.
  - apply iso_conforms; [exact Hm|]. rewrite <- iso_env_ok. exact He.
  - apply iso_sent_taken.
Qed.

(* sanity of the specification: for byte counts up to 3 * mps, packets_needed is the number of packets
   of at most mps bytes needed for n bytes -- at least one (a frame of 0 bytes needs one zero-length packet) *)
Lemma packets_needed_ceil : forall mps n, 1 <= mps -> n <= 3 * mps ->
  packets_needed mps n = N.max 1 ((n + mps - 1) / mps).
Proof.
  intros mps n Hm Hn. unfold packets_needed.
  destruct (n <=? mps) eqn:E1; [|destruct (n <=? 2 * mps) eqn:E2].
  - destruct (N.eq_dec n 0) as [->|Hz].
    + rewrite N.div_small by lia. reflexivity.
    + replace ((n + mps - 1) / mps) with 1; [reflexivity|].
      apply (N.div_unique _ _ _ (n - 1)); lia.
  - replace ((n + mps - 1) / mps) with 2; [reflexivity|].
    apply (N.div_unique _ _ _ (n - mps - 1)); lia.
  - replace ((n + mps - 1) / mps) with 3; [reflexivity|].
    apply (N.div_unique _ _ _ (n - 2 * mps - 1)); lia.
Qed.
