(* C18 -- hand model of luna/gateware/memory.py: TransactionalizedFIFO, parametric in `depth`
   (entries are arbitrary N; the entry width only enters through the packing at the end of the file),
   together with the specification it is proved to refine: an abstract commit/rollback queue.

   Reading guide
     1. aq / aq_step / aq_observe      the SPECIFICATION (three lists, no pointers, no memory)
     2. tf_state / tf_step             the code-shaped MODEL (four ring pointers, memory, read register)
     3. tf_abs / tf_inv                abstraction function and invariant used by TxFifo_proofs.v
     4. tf_mstep / tf_enc / tf_dec     packed form for lock-step ties against the regenerated netlist

   Same-cycle conventions (they are what the gateware does, and what the spec states):
     * `full` / `empty` gate a write / read with their values at the START of the cycle;
     * a commit covers the writes (reads) of EARLIER cycles only: a write (read) performed in the
       commit cycle itself opens the next transaction;
     * a discard without commit also erases (undoes) a write (read) attempted in the same cycle;
     * a discard beats everything else on its port in the same cycle: commit together with discard
       of the same port is a discard (the commit is ignored).
   The model describes the property-satisfying behaviour.  Two places differ from the gateware as
   found in the tree when this model was written (see findings/C18-*.diff): a commit is gated by
   `& ~discard`, and the memory read address follows a read discard.  On every input on which the
   gateware as found did not corrupt the queue, it and this model agree. *)
From Coq Require Import NArith List Bool Arith.
Import ListNotations.
From LunaLib Require Import Netlist Machine PackN ListMem.
Open Scope nat_scope.

(* ------------------------------------------------------------------------------------------ *)
(* Interface: one record per clock cycle                                                       *)
Record tf_in := {
  fi_read_en : bool;  fi_read_commit : bool;  fi_read_discard : bool;
  fi_write_en : bool; fi_write_commit : bool; fi_write_discard : bool;
  fi_write_data : N }.

Record tf_out := { fo_read_data : N; fo_empty : bool; fo_full : bool; fo_space : nat }.

(* what a user of the FIFO may rely on: read_data only means something when not empty *)
Record tq_obs := { ob_head : option N; ob_empty : bool; ob_full : bool; ob_space : nat }.

Definition tf_observe (o : tf_out) : tq_obs :=
  {| ob_head := if fo_empty o then None else Some (fo_read_data o);
     ob_empty := fo_empty o; ob_full := fo_full o; ob_space := fo_space o |}.

(* ------------------------------------------------------------------------------------------ *)
(* 1. Specification: the abstract transactional queue                                          *)
Record aq := {
  aq_tent  : list N;    (* entries read but not yet finalised, oldest first (a read discard returns them) *)
  aq_avail : list N;    (* committed entries not yet read, oldest first *)
  aq_pend  : list N }.  (* entries written but not yet committed, oldest first *)

Definition aq_init : aq := {| aq_tent := []; aq_avail := []; aq_pend := [] |}.

(* entries held: un-finalised reads and uncommitted writes still occupy storage *)
Definition aq_held (q : aq) : nat := length (aq_tent q) + length (aq_avail q) + length (aq_pend q).

Section Spec.
  Variable depth : nat.   (* capacity *)

  Definition aq_observe (q : aq) : tq_obs :=
    {| ob_head  := hd_error (aq_avail q);
       ob_empty := match aq_avail q with [] => true | _ => false end;
       ob_full  := aq_held q =? depth;
       ob_space := depth - aq_held q |}.

  (* a read request takes the head of the committed entries, if there is one *)
  Definition aq_take (en : bool) (avail : list N) : list N * list N :=
    match avail with
    | h :: t => if en then ([h], t) else ([], avail)
    | [] => ([], [])
    end.

  Definition aq_read_port (i : tf_in) (q : aq) : aq :=
    let (took, rest) := aq_take (fi_read_en i) (aq_avail q) in
    if fi_read_discard i then       (* all tentative reads (and this cycle's) are undone *)
      {| aq_tent := []; aq_avail := aq_tent q ++ aq_avail q; aq_pend := aq_pend q |}
    else if fi_read_commit i then   (* earlier reads are finalised; this cycle's read stays tentative *)
      {| aq_tent := took; aq_avail := rest; aq_pend := aq_pend q |}
    else
      {| aq_tent := aq_tent q ++ took; aq_avail := rest; aq_pend := aq_pend q |}.

  Definition aq_write_port (room : bool) (i : tf_in) (q : aq) : aq :=
    let added := if fi_write_en i && room then [fi_write_data i] else [] in
    if fi_write_discard i then      (* all pending writes (and this cycle's) are erased *)
      {| aq_tent := aq_tent q; aq_avail := aq_avail q; aq_pend := [] |}
    else if fi_write_commit i then  (* earlier writes become readable; this cycle's write stays pending *)
      {| aq_tent := aq_tent q; aq_avail := aq_avail q ++ aq_pend q; aq_pend := added |}
    else
      {| aq_tent := aq_tent q; aq_avail := aq_avail q; aq_pend := aq_pend q ++ added |}.

  Definition aq_next (q : aq) (i : tf_in) : aq :=
    aq_write_port (negb (aq_held q =? depth)) i (aq_read_port i q).

  Definition aq_step (q : aq) (i : tf_in) : aq * tq_obs := (aq_next q i, aq_observe q).

  Fixpoint aq_run (q : aq) (ins : list tf_in) : list tq_obs :=
    match ins with
    | [] => []
    | i :: t => aq_observe q :: aq_run (aq_next q i) t
    end.

  Fixpoint aq_run_state (q : aq) (ins : list tf_in) : aq :=
    match ins with
    | [] => q
    | i :: t => aq_run_state (aq_next q i) t
    end.

  (* history bookkeeping for the order theorem: what is committed / finalised in a cycle *)
  Definition aq_committed_now (q : aq) (i : tf_in) : list N :=
    if fi_write_commit i && negb (fi_write_discard i) then aq_pend q else [].
  Definition aq_finalised_now (q : aq) (i : tf_in) : list N :=
    if fi_read_commit i && negb (fi_read_discard i) then aq_tent q else [].

  Fixpoint aq_committed (q : aq) (ins : list tf_in) : list N :=
    match ins with
    | [] => []
    | i :: t => aq_committed_now q i ++ aq_committed (aq_next q i) t
    end.
  Fixpoint aq_finalised (q : aq) (ins : list tf_in) : list N :=
    match ins with
    | [] => []
    | i :: t => aq_finalised_now q i ++ aq_finalised (aq_next q i) t
    end.
End Spec.

(* ------------------------------------------------------------------------------------------ *)
(* 2. Model: pointers into a ring of depth+1 cells                                             *)
Record tf_state := {
  tf_cw : nat;          (* committed_write_pointer *)
  tf_w  : nat;          (* current_write_pointer *)
  tf_cr : nat;          (* committed_read_pointer *)
  tf_r  : nat;          (* current_read_pointer *)
  tf_mem : list N;      (* backing store, depth+1 cells *)
  tf_rdata : N }.       (* data register of the synchronous, non-transparent read port *)

Section Model.
  Variable depth : nat.

  Definition tf_init : tf_state :=
    {| tf_cw := 0; tf_w := 0; tf_cr := 0; tf_r := 0; tf_mem := repeat 0%N (S depth); tf_rdata := 0%N |}.

  (* next_write_pointer / next_read_pointer: manual wrap-around at `depth` *)
  Definition tf_next (p : nat) : nat := if p =? depth then 0 else S p.

  Definition tf_full (st : tf_state) : bool := tf_next (tf_w st) =? tf_cr st.
  Definition tf_empty (st : tf_state) : bool := tf_r st =? tf_cw st.
  Definition tf_space (st : tf_state) : nat :=
    if tf_full st then 0
    else if tf_cr st <=? tf_w st then depth - (tf_w st - tf_cr st)
    else tf_cr st - tf_w st - 1.

  Definition tf_outputs (st : tf_state) : tf_out :=
    {| fo_read_data := tf_rdata st; fo_empty := tf_empty st; fo_full := tf_full st; fo_space := tf_space st |}.

  Definition tf_next_state (st : tf_state) (i : tf_in) : tf_state :=
    let do_write := fi_write_en i && negb (tf_full st) in
    let do_read  := fi_read_en i && negb (tf_empty st) in
    let w1 := if do_write then tf_next (tf_w st) else tf_w st in
    let r1 := if do_read then tf_next (tf_r st) else tf_r st in
    (* memory read address, chosen "one cycle in advance" *)
    let raddr := if fi_read_discard i then tf_cr st
                 else if do_read then tf_next (tf_r st) else tf_r st in
    (* sync assignments; where two apply, the later one in the source wins (discard after enable) *)
    {| tf_cw := if fi_write_commit i && negb (fi_write_discard i) then tf_w st else tf_cw st;
       tf_w  := if fi_write_discard i then tf_cw st else w1;
       tf_cr := if fi_read_commit i && negb (fi_read_discard i) then tf_r st else tf_cr st;
       tf_r  := if fi_read_discard i then tf_cr st else r1;
       tf_mem := if do_write then upd (tf_w st) (fi_write_data i) (tf_mem st) else tf_mem st;
       tf_rdata := nth raddr (tf_mem st) 0%N |}.

  Definition tf_step (st : tf_state) (i : tf_in) : tf_state * tf_out := (tf_next_state st i, tf_outputs st).

  Fixpoint tf_run (st : tf_state) (ins : list tf_in) : list tf_out :=
    match ins with
    | [] => []
    | i :: t => tf_outputs st :: tf_run (tf_next_state st i) t
    end.

  (* ---------------------------------------------------------------------------------------- *)
  (* 3. Abstraction function and invariant                                                     *)
  Definition wrap (x : nat) : nat := if x <=? depth then x else x - S depth.
  (* number of cells from a forward to b around the ring *)
  Definition dist (a b : nat) : nat := if a <=? b then b - a else b + S depth - a.
  (* the n cells starting at a, going around the ring *)
  Definition ring (m : list N) (a n : nat) : list N := map (fun k => nth (wrap (a + k)) m 0%N) (seq 0 n).

  Definition tf_abs (st : tf_state) : aq :=
    {| aq_tent  := ring (tf_mem st) (tf_cr st) (dist (tf_cr st) (tf_r st));
       aq_avail := ring (tf_mem st) (tf_r st)  (dist (tf_r st) (tf_cw st));
       aq_pend  := ring (tf_mem st) (tf_cw st) (dist (tf_cw st) (tf_w st)) |}.

  Definition tf_inv (st : tf_state) : Prop :=
    tf_cr st <= depth /\ tf_r st <= depth /\ tf_cw st <= depth /\ tf_w st <= depth /\
    length (tf_mem st) = S depth /\
    (* pointer order around the ring cr -> r -> cw -> w, the three regions do not overlap *)
    dist (tf_cr st) (tf_r st) + dist (tf_r st) (tf_cw st) + dist (tf_cw st) (tf_w st) <= depth /\
    (* the read register already holds the head whenever there is one *)
    (tf_r st <> tf_cw st -> tf_rdata st = nth (tf_r st) (tf_mem st) 0%N).
End Model.

(* ------------------------------------------------------------------------------------------ *)
(* 4. Packed form.  Input word (LSB first): read_en, read_commit, read_discard, write_en,
      write_commit, write_discard, write_data[width].  Output word: empty, full,
      read_data[width], space_available.                                                       *)
Open Scope N_scope.

Definition tf_decode (width : N) (i : N) : tf_in :=
  {| fi_read_en := N.testbit i 0; fi_read_commit := N.testbit i 1; fi_read_discard := N.testbit i 2;
     fi_write_en := N.testbit i 3; fi_write_commit := N.testbit i 4; fi_write_discard := N.testbit i 5;
     fi_write_data := bits i 6 width |}.

Definition tf_pack_out (width : N) (o : tf_out) : N :=
  b2n (fo_empty o) + 2 * b2n (fo_full o) + 4 * fo_read_data o + 2 ^ (2 + width) * N.of_nat (fo_space o).

Definition tf_mstep (depth : nat) (width : N) (st : tf_state) (i : N) : tf_state * N :=
  (tf_next_state depth st (tf_decode width i), tf_pack_out width (tf_outputs depth st)).

Definition tf_enc (depth : nat) (width : N) (st : tf_state) : N :=
  let B := N.of_nat (S depth) in
  pk B (N.of_nat (tf_cw st)) (pk B (N.of_nat (tf_w st)) (pk B (N.of_nat (tf_cr st)) (pk B (N.of_nat (tf_r st))
    (pk (2 ^ width) (tf_rdata st) (pack (2 ^ width) (tf_mem st)))))).

Definition tf_dec (depth : nat) (width : N) (x : N) : tf_state :=
  let B := N.of_nat (S depth) in
  let x1 := x / B in let x2 := x1 / B in let x3 := x2 / B in let x4 := x3 / B in
  {| tf_cw := N.to_nat (x mod B); tf_w := N.to_nat (x1 mod B); tf_cr := N.to_nat (x2 mod B);
     tf_r := N.to_nat (x3 mod B); tf_rdata := x4 mod 2 ^ width;
     tf_mem := unpack (2 ^ width) (S depth) (x4 / 2 ^ width) |}.

Definition tf_wf (depth : nat) (width : N) (st : tf_state) : Prop :=
  (tf_cw st <= depth)%nat /\ (tf_w st <= depth)%nat /\ (tf_cr st <= depth)%nat /\ (tf_r st <= depth)%nat /\
  tf_rdata st < 2 ^ width /\ length (tf_mem st) = S depth /\ Forall (fun x => x < 2 ^ width) (tf_mem st).
