(* C11 / C14 -- hand model of luna/gateware/usb/usb2/transfer.py: USBInTransferManager as wired by
   luna/gateware/usb/usb2/endpoints/stream.py: USBStreamInEndpoint (generate_zlps = 1, start_with_data1 = 0,
   active = (tokenizer.endpoint == endpoint_number), reset_sequence = matching clear_endpoint_halt_in),
   parametric in max_packet_size (mps) and the endpoint number (ep); `discard` is tied to 0.

   One list element = one cycle of the "usb" domain.

   The model is code-shaped (FSM inductive, fill counters, two packet memories as lists, the registered
   read ports), but names the two buffers by ROLE: x_w is the buffer being filled (buffer[buffer_toggle]),
   x_r the buffer being sent (buffer[~buffer_toggle]); swapping the roles is what toggling buffer_toggle does.

   Two behaviours of the unchanged code violate C11 / C14 (both confirmed on the simulator); the model takes
   two booleans saying whether the corresponding one-line repairs are applied (true = property-satisfying
   behaviour, which is what every theorem and every tie uses; false = the code as found, used only in the
   `..._unfixed_violates` examples of Properties/C11.v and Properties/C14.v):
     fix_addr  WAIT_TO_SEND drives the read address with 0 instead of the (possibly stale) send_position
     fix_rst   a PID-sequence reset that coincides with a buffer swap in WAIT_FOR_DATA is not undone by the
               swap's toggle.

   Second half of the file: the SPECIFICATION of C11 as an observer (`c11_mon`) of the endpoint's interface
   signals plus one ghost bit per cycle (did the host receive the packet that completes in this cycle),
   which contains a model of the host (expected toggle, de-duplication of retries). *)
From Coq Require Import NArith List Bool Arith.
Import ListNotations.
From LunaLib Require Import Netlist Machine PackN ListMem.
Open Scope N_scope.

(* ------------------------------------------------------------------------------------------ *)
(* interface signals                                                                           *)
Record ix_in := {
  i_valid : bool;      (* stream.valid *)
  i_last : bool;       (* stream.last *)
  i_flush : bool;      (* flush *)
  i_is_in : bool;      (* interface.tokenizer.is_in *)
  i_rfr : bool;        (* interface.tokenizer.ready_for_response *)
  i_newtok : bool;     (* interface.tokenizer.new_token *)
  i_ack : bool;        (* interface.handshakes_in.ack *)
  i_txrdy : bool;      (* interface.tx.ready *)
  i_rcv : bool;        (* GHOST (carried on stream.first, which the module ignores): the host receives the
                          packet that completes in this cycle intact *)
  i_ep : N;            (* interface.tokenizer.endpoint, 4 bits *)
  i_clr : N;           (* interface.clear_endpoint_halt_in: bit 0 enable, bit 1 direction, bits 2..5 number *)
  i_payload : N        (* stream.payload, 8 bits *)
}.

Record ix_out := {
  o_ready : bool;      (* stream.ready *)
  o_valid : bool;      (* interface.tx.valid *)
  o_first : bool;      (* interface.tx.first *)
  o_last : bool;       (* interface.tx.last *)
  o_nak : bool;        (* interface.handshakes_out.nak *)
  o_pid : N;           (* interface.tx_pid_toggle (2 bits): 0 = DATA0, 1 = DATA1 *)
  o_payload : N        (* interface.tx.payload *)
}.

Definition ix_in_of (w : N) : ix_in :=
  {| i_valid := N.testbit w 0; i_last := N.testbit w 1; i_flush := N.testbit w 2;
     i_is_in := N.testbit w 3; i_rfr := N.testbit w 4; i_newtok := N.testbit w 5;
     i_ack := N.testbit w 6; i_txrdy := N.testbit w 7; i_rcv := N.testbit w 8;
     i_ep := bits w 9 4; i_clr := bits w 13 6; i_payload := bits w 19 8 |}.

Definition ix_out_pack (o : ix_out) : N :=
  pk 2 (b2n (o_ready o)) (pk 2 (b2n (o_valid o)) (pk 2 (b2n (o_first o)) (pk 2 (b2n (o_last o))
  (pk 2 (b2n (o_nak o)) (pk 4 (o_pid o) (o_payload o)))))).

Definition nb (n : N) : bool := negb (n =? 0).

Definition ix_out_of (w : N) : ix_out :=
  let r := w mod 2 in let w := w / 2 in
  let v := w mod 2 in let w := w / 2 in
  let f := w mod 2 in let w := w / 2 in
  let l := w mod 2 in let w := w / 2 in
  let k := w mod 2 in let w := w / 2 in
  let p := w mod 4 in let w := w / 4 in
  {| o_ready := nb r; o_valid := nb v; o_first := nb f; o_last := nb l; o_nak := nb k; o_pid := p;
     o_payload := w mod 256 |}.

(* tx.payload is meaningful only while tx.valid is high: outputs are compared after this normalisation *)
Definition out_norm (o : ix_out) : ix_out :=
  {| o_ready := o_ready o; o_valid := o_valid o; o_first := o_first o; o_last := o_last o; o_nak := o_nak o;
     o_pid := o_pid o; o_payload := if o_valid o then o_payload o else 0 |}.
(* the same on packed output words (bit 1 = tx.valid, bits 7.. = tx.payload) *)
Definition normN (o : N) : N := if N.testbit o 1 then o else N.land o 127.

(* ------------------------------------------------------------------------------------------ *)
(* the module                                                                                  *)
Inductive ix_fsm := WFD | WTS | SEND | WFA.
  (* WAIT_FOR_DATA | WAIT_TO_SEND | SEND_PACKET | WAIT_FOR_ACK *)

Record ix_buf := {
  b_fill : nat;        (* buffer_fill_count[k]; Signal(range(mps+1)), never exceeds mps (ix_wf) *)
  b_end : bool;        (* stream_ended_in_buffer<k> *)
  b_rd : N;            (* data register of the buffer's (synchronous) read port *)
  b_mem : list N       (* transmit_buffer_<k>: mps bytes *)
}.

Record ix_state := {
  x_fsm : ix_fsm;
  x_pid : bool;        (* data_pid[0]  (data_pid[1] is constant 0: start_with_data1 is one bit wide) *)
  x_tog : bool;        (* buffer_toggle: which physical buffer plays the write role (only matters for packing) *)
  x_first : bool;      (* packet_stream.first (a register) *)
  x_w : ix_buf;        (* the buffer being filled *)
  x_r : ix_buf;        (* the buffer being sent *)
  x_pos : nat          (* send_position; Signal(range(mps+1)), never exceeds mps in reachable states *)
}.

Section InXfer.
  Variable fix_addr fix_rst : bool.
  Variable mps : nat.           (* max_packet_size >= 1 *)
  Variable ep : N.              (* endpoint_number *)

  (* address width of Memory(depth = mps): bits_for(mps - 1) *)
  Definition ix_aw : N := N.size (N.of_nat mps - 1).

  Definition buf0 : ix_buf := {| b_fill := 0; b_end := false; b_rd := 0; b_mem := repeat 0 mps |}.
  Definition ix_init : ix_state :=
    {| x_fsm := WFD; x_pid := true; x_tog := false; x_first := false; x_w := buf0; x_r := buf0; x_pos := 0 |}.

  (* an IN token for this endpoint may be answered now *)
  Definition tok (i : ix_in) : bool := (i_ep i =? ep) && i_is_in i && i_rfr i.
  (* ClearFeature(ENDPOINT_HALT) addressed to this IN endpoint: enable & direction & number = ep *)
  Definition clr (i : ix_in) : bool :=
    N.testbit (i_clr i) 0 && N.testbit (i_clr i) 1 && (bits (i_clr i) 2 4 =? ep).

  (* in_stream.ready: room in the buffer being filled, and the stream has not ended in it *)
  Definition w_ready (st : ix_state) : bool :=
    negb (b_fill (x_w st) =? mps)%nat && negb (b_end (x_w st)).
  Definition w_en (st : ix_state) (i : ix_in) : bool := i_valid i && w_ready st.

  Definition packet_completing (st : ix_state) (i : ix_in) : bool :=
    i_valid i && (i_last i || (b_fill (x_w st) + 1 =? mps)%nat).
  Definition packet_to_flush (st : ix_state) (i : ix_in) : bool :=
    i_flush i && negb (b_fill (x_w st) =? 0)%nat.
  Definition packet_ready (st : ix_state) (i : ix_in) : bool :=
    packet_completing st i || packet_to_flush st i.

  (* a registered, non-transparent read of a packet memory; the address is truncated to the port's width *)
  Definition rd_mem (m : list N) (a : nat) : N :=
    let a' := N.to_nat (N.of_nat a mod 2 ^ ix_aw) in
    if (a' <? mps)%nat then nth a' m 0 else 0.

  Definition last_byte (st : ix_state) : bool := (x_pos st + 1 =? b_fill (x_r st))%nat.

  (* read address of the port of the buffer being sent *)
  Definition r_addr (st : ix_state) (i : ix_in) : nat :=
    match x_fsm st with
    | WTS => if fix_addr then 0%nat else x_pos st
    | SEND => if i_txrdy i then (x_pos st + 1)%nat else x_pos st
    | _ => x_pos st
    end.

  (* the two buffers after this cycle's background activity (stream write, port reads), before any
     state-specific register update and before any role swap *)
  Definition w_bg (st : ix_state) (i : ix_in) : ix_buf :=
    let w := x_w st in
    {| b_fill := if w_en st i then (b_fill w + 1)%nat else b_fill w;
       b_end := b_end w || (i_last i && w_en st i);
       b_rd := rd_mem (b_mem w) 0;           (* the unselected read port is addressed with 0 *)
       b_mem := if w_en st i then upd (b_fill w) (i_payload i) (b_mem w) else b_mem w |}.
  Definition r_bg (st : ix_state) (i : ix_in) : ix_buf :=
    let r := x_r st in
    {| b_fill := b_fill r; b_end := b_end r; b_rd := rd_mem (b_mem r) (r_addr st i); b_mem := b_mem r |}.

  Definition set_fill (b : ix_buf) (n : nat) : ix_buf :=
    {| b_fill := n; b_end := b_end b; b_rd := b_rd b; b_mem := b_mem b |}.
  Definition clr_end (b : ix_buf) : ix_buf :=
    {| b_fill := b_fill b; b_end := false; b_rd := b_rd b; b_mem := b_mem b |}.

  Definition zlp_now (st : ix_state) (i : ix_in) : bool :=
    negb (clr i) && tok i && (b_fill (x_r st) =? 0)%nat.

  Definition ix_outf (st : ix_state) (i : ix_in) : ix_out :=
    {| o_ready := w_ready st;
       o_valid := match x_fsm st with SEND => true | WTS => zlp_now st i | _ => false end;
       o_first := x_first st;
       o_last := match x_fsm st with SEND => last_byte st | WTS => zlp_now st i | _ => false end;
       o_nak := match x_fsm st with WFD => tok i | _ => false end;
       o_pid := b2n (x_pid st);
       o_payload := b_rd (x_r st) |}.

  (* follow_up_with_zlp: the packet just ACKed was full and ended the transfer (generate_zlps = 1) *)
  Definition follow_up (st : ix_state) : bool := (b_fill (x_r st) =? mps)%nat && b_end (x_r st).

  Definition ix_next (st : ix_state) (i : ix_in) : ix_state :=
    let w1 := w_bg st i in
    let r1 := r_bg st i in
    (* `with m.If(self.reset_sequence): data_pid.eq(~start_with_data1)` -- overridden by later assignments *)
    let pid0 := if clr i then true else x_pid st in
    match x_fsm st with
    | WFD =>
        if packet_ready st i then
          {| x_fsm := WTS;
             x_pid := if fix_rst && clr i then false else negb (x_pid st);
             x_tog := negb (x_tog st); x_first := x_first st;
             x_w := clr_end r1; x_r := w1; x_pos := x_pos st |}
        else
          {| x_fsm := WFD; x_pid := pid0; x_tog := x_tog st; x_first := x_first st;
             x_w := w1; x_r := r1; x_pos := x_pos st |}
    | WTS =>
        if clr i then
          {| x_fsm := WTS; x_pid := false; x_tog := x_tog st; x_first := x_first st;
             x_w := w1; x_r := r1; x_pos := 0 |}
        else if tok i then
          if negb (b_fill (x_r st) =? 0)%nat then
            {| x_fsm := SEND; x_pid := pid0; x_tog := x_tog st; x_first := true;
               x_w := w1; x_r := r1; x_pos := 0 |}
          else
            {| x_fsm := WFA; x_pid := pid0; x_tog := x_tog st; x_first := x_first st;
               x_w := w1; x_r := clr_end r1; x_pos := 0 |}
        else
          {| x_fsm := WTS; x_pid := pid0; x_tog := x_tog st; x_first := x_first st;
             x_w := w1; x_r := r1; x_pos := 0 |}
    | SEND =>
        if i_txrdy i then
          {| x_fsm := if last_byte st then WFA else SEND; x_pid := pid0; x_tog := x_tog st; x_first := false;
             x_w := w1; x_r := r1; x_pos := (x_pos st + 1)%nat |}
        else
          {| x_fsm := SEND; x_pid := pid0; x_tog := x_tog st; x_first := x_first st;
             x_w := w1; x_r := r1; x_pos := x_pos st |}
    | WFA =>
        if i_ack i then
          if follow_up st then
            {| x_fsm := WTS; x_pid := negb (x_pid st); x_tog := x_tog st; x_first := x_first st;
               x_w := w1; x_r := set_fill r1 0; x_pos := x_pos st |}
          else if negb (w_ready st) || packet_ready st i then
            {| x_fsm := WTS; x_pid := negb (x_pid st); x_tog := negb (x_tog st); x_first := x_first st;
               x_w := clr_end (set_fill r1 0); x_r := w1; x_pos := x_pos st |}
          else
            {| x_fsm := if i_newtok i then WTS else WFD; x_pid := pid0; x_tog := x_tog st; x_first := x_first st;
               x_w := w1; x_r := set_fill r1 0; x_pos := x_pos st |}
        else
          {| x_fsm := if i_newtok i then WTS else WFA; x_pid := pid0; x_tog := x_tog st; x_first := x_first st;
             x_w := w1; x_r := r1; x_pos := x_pos st |}
    end.

  Definition ix_mstep (st : ix_state) (w : N) : ix_state * N :=
    let i := ix_in_of w in (ix_next st i, ix_out_pack (ix_outf st i)).
  (* with normalised outputs *)
  Definition ix_mstep_n (st : ix_state) (w : N) : ix_state * N :=
    let i := ix_in_of w in (ix_next st i, ix_out_pack (out_norm (ix_outf st i))).

  (* typed runs *)
  Fixpoint ix_run (st : ix_state) (ins : list ix_in) : list ix_out :=
    match ins with
    | [] => []
    | i :: t => ix_outf st i :: ix_run (ix_next st i) t
    end.

  (* ---------------------------------------------------------------------------------------- *)
  (* packing (for lock-step ties).  x_pos is the most significant digit: it needs no bound.     *)
  Definition FB : N := N.of_nat mps + 1.           (* radix of a fill count *)
  Definition MB : N := 256 ^ N.of_nat mps.         (* radix of a packet memory *)
  Definition fsm_code (f : ix_fsm) : N := match f with WFD => 0 | WTS => 1 | SEND => 2 | WFA => 3 end.
  Definition fsm_of (n : N) : ix_fsm := match n with 0 => WFD | 1 => WTS | 2 => SEND | _ => WFA end.

  Definition buf_enc (b : ix_buf) (rest : N) : N :=
    pk FB (N.of_nat (b_fill b)) (pk 2 (b2n (b_end b)) (pk 256 (b_rd b) (pk MB (pack 256 (b_mem b)) rest))).
  Definition buf_dec (m : N) : ix_buf * N :=
    let f := m mod FB in let m := m / FB in
    let e := m mod 2 in let m := m / 2 in
    let r := m mod 256 in let m := m / 256 in
    let mm := m mod MB in let m := m / MB in
    ({| b_fill := N.to_nat f; b_end := nb e; b_rd := r; b_mem := unpack 256 mps mm |}, m).

  Definition ix_enc (s : ix_state) : N :=
    pk 4 (fsm_code (x_fsm s)) (pk 2 (b2n (x_pid s)) (pk 2 (b2n (x_tog s)) (pk 2 (b2n (x_first s))
      (buf_enc (x_w s) (buf_enc (x_r s) (N.of_nat (x_pos s))))))).
  Definition ix_dec (m : N) : ix_state :=
    let f := m mod 4 in let m := m / 4 in
    let p := m mod 2 in let m := m / 2 in
    let t := m mod 2 in let m := m / 2 in
    let fi := m mod 2 in let m := m / 2 in
    let (w, m) := buf_dec m in
    let (r, m) := buf_dec m in
    {| x_fsm := fsm_of f; x_pid := nb p; x_tog := nb t; x_first := nb fi; x_w := w; x_r := r;
       x_pos := N.to_nat m |}.
End InXfer.

(* ------------------------------------------------------------------------------------------ *)
(* Input alphabets for the lock-step ties (explicit-state closure cannot enumerate 2^27 input words per state).
   The alphabet depends on the FSM state of the model: the inputs the module reads in that state take every
   combination (payload bytes from `vals`, tokenizer.endpoint from `eps`); the inputs it ignores in that state
   are all 0 or all 1 (`irr`). *)
Definition ix_word (valid last flush is_in rfr nt ack rdy rcv : bool) (e c pl : N) : N :=
  b2n valid + 2 * b2n last + 4 * b2n flush + 8 * b2n is_in + 16 * b2n rfr + 32 * b2n nt + 64 * b2n ack
  + 128 * b2n rdy + 256 * b2n rcv + 512 * e + 8192 * c + 524288 * pl.

Definition bools : list bool := [false; true].

Section Alphabet.
  Variable toks : list (N * bool * bool).   (* tokenizer.endpoint / is_in / ready_for_response combinations *)
  Variable vals : list N.                   (* stream.payload values *)
  Variable clrs : list N.                   (* clear_endpoint_halt_in words *)
  Variable irrs : list bool.                (* settings of the inputs the module ignores in the state *)

  (* stream.valid / last / payload: valid = 0 with two settings of the ignored fields, valid = 1 with everything *)
  Definition a_stream : list (bool * bool * N) :=
    (false, false, 0) :: (false, true, last vals 0) ::
    flat_map (fun l => map (fun p => (true, l, p)) vals) bools.

  Definition ix_alpha (st : ix_state) : list N :=
    let e0 := match toks with (e, _, _) :: _ => e | [] => 0 end in
    let e1 := fst (fst (last toks (0, false, false))) in      (* a token for another endpoint *)
    flat_map (fun s => match s with (v, l, p) =>
    flat_map (fun c =>
    flat_map (fun irr =>
      match x_fsm st with
      | WFD => flat_map (fun f => map (fun t => match t with (e, a, b) =>
                 ix_word v l f a b irr irr irr irr e c p end) toks) bools
      | WTS => flat_map (fun g => map (fun t => match t with (e, a, b) =>
                 ix_word v l irr a b irr irr irr g e c p end) toks) bools
      | SEND => flat_map (fun g => map (fun r =>
                 ix_word v l irr irr irr irr irr r g e0 c p) bools) bools
      | WFA => flat_map (fun f => map (fun h => match h with (a, n, e) =>
                 ix_word v l f irr irr n a irr irr e c p end)
                 [(false, false, e0); (true, false, e0); (false, true, e0); (false, true, e1)]) bools
      end) irrs) clrs end) a_stream.
End Alphabet.

(* ------------------------------------------------------------------------------------------ *)
(* SPECIFICATION of C11: an observer of the interface signals.

   It contains the host: `s_h` is the data toggle the host expects next; a packet that the host
   receives intact (ghost bit i_rcv in the cycle the packet completes) is TAKEN if its PID equals s_h (then
   s_h flips) and otherwise discarded as a duplicate; in both cases the host answers ACK, which may or
   may not reach the device.  `s_pend` is the part of the input stream (bytes with their `last` markers,
   in order) that the module has accepted (valid & ready) and the host has not yet taken; `s_in` and
   `s_host` log everything accepted from the stream / taken by the host.

   Environment (the monitor answers None when it is broken):
     * an ACK strobe arrives only while the handshake of a completed packet is outstanding and the host
       did receive that packet (`s_wait = Some (_, _, true)`): the host ACKs what it received, once,
       and not after it has started a new token;
     * ACK and new_token strobes never coincide (they stem from different packets);
     * no ClearFeature(ENDPOINT_HALT) for this endpoint (that is C14's subject).
   Nothing is assumed about the stream (valid gaps, last, flush), tx.ready, or token timing.

   Verdict (false = violation), see c11_mon:
     V1  while no packet is on the wire and no handshake is outstanding, an IN token for this endpoint is
         answered in the same cycle by exactly one of: NAK, a zero-length packet, or a data packet whose
         first byte is offered from the next cycle on; a NAK only if no packet is due (nothing to
         retry, no ZLP owed, and the pending stream neither holds mps bytes nor a `last` byte);
         without such a token there is neither NAK nor tx.valid;
     V2  while a data packet is on the wire tx.valid stays high, tx.first marks exactly the first byte,
         and the packet has at most mps bytes;
     V3  a packet sent after a handshake timed out (new token, no ACK) repeats PID and payload;
         any other packet carries the toggle the host expects;
     V4  a packet the host takes is a prefix of the pending stream, contains a `last` byte at most as its
         final byte, and is zero-length if a ZLP is owed; a ZLP is owed exactly after the host took a
         full-size packet ending in a `last` byte (so every transfer ends in a short or zero-length packet);
     V5  a packet that is not a retry is either full-size, or ends in a `last` byte, or is the owed ZLP, or flush has been
         asserted since the previous packet completed (no premature short packet in mid-transfer);
     V6  stream.ready is high whenever the pending stream holds fewer than mps bytes and no `last` byte (the module never
         refuses data while even its write buffer alone could not be full). *)
Record sp_state := {
  s_pend : list (N * bool);
  s_h : bool;
  s_cur : option (list N);             (* Some bs: data packet on the wire, bs = bytes handed over so far *)
  s_wait : option (N * list N * bool); (* packet complete, handshake outstanding: PID, payload, host received it *)
  s_retry : option (N * list N);       (* the last packet timed out: it must be sent again *)
  s_zlp : bool;                        (* a zero-length packet is owed *)
  s_in : list N;                       (* log: stream bytes accepted *)
  s_host : list N;                     (* log: bytes taken by the host *)
  s_fl : bool                          (* flush has been asserted since the last packet completed *)
}.

Definition sp_init : sp_state :=
  {| s_pend := []; s_h := false; s_cur := None; s_wait := None; s_retry := None; s_zlp := false;
     s_in := []; s_host := []; s_fl := false |}.

Fixpoint bytes_eqb (a b : list N) : bool :=
  match a, b with
  | [], [] => true
  | x :: a', y :: b' => (x =? y) && bytes_eqb a' b'
  | _, _ => false
  end.

(* no transfer boundary strictly inside a packet *)
Fixpoint last_only_at_end (l : list (N * bool)) : bool :=
  match l with
  | [] => true
  | [_] => true
  | (_, f) :: t => negb f && last_only_at_end t
  end.

Definition ends_with_last (l : list (N * bool)) : bool := snd (last l (0, false)).

Section Spec.
  Variable mps : nat.
  Variable ep : N.

  Definition s_tok (i : ix_in) : bool := (i_ep i =? ep) && i_is_in i && i_rfr i.
  Definition s_clr (i : ix_in) : bool :=
    N.testbit (i_clr i) 0 && N.testbit (i_clr i) 1 && (bits (i_clr i) 2 4 =? ep).

  Definition c11_env (s : sp_state) (i : ix_in) : bool :=
    negb (s_clr i) && negb (i_ack i && i_newtok i) &&
    (negb (i_ack i) || match s_wait s with Some (_, _, got) => got | None => false end).

  (* a complete packet is available in the pending stream *)
  Definition packet_due (pend : list (N * bool)) : bool :=
    (mps <=? length pend)%nat || existsb snd pend.

  (* the packet (pid, bs) completes in this cycle; rcv: the host receives it.  Returns the new state
     (s_cur, s_wait, s_retry are set by the caller) and the verdict V2(size) V3 V4. *)
  Definition complete (s : sp_state) (retry : option (N * list N)) (pid : N) (bs : list N) (rcv : bool)
    : sp_state * bool :=
    let n := length bs in
    let v_size := (n <=? mps)%nat in
    let v_pid := match retry with
                 | Some (p0, bs0) => (pid =? p0) && bytes_eqb bs bs0
                 | None => pid =? b2n (s_h s)
                 end in
    let taken := rcv && (pid =? b2n (s_h s)) in
    let pre := firstn n (s_pend s) in
    let v_take := (n <=? length (s_pend s))%nat && bytes_eqb bs (map fst pre) && last_only_at_end pre
                  && (negb (s_zlp s) || (n =? 0)%nat) in
    let v_shape := match retry with
                   | Some _ => true
                   | None => (n =? mps)%nat || (if (n =? 0)%nat then s_zlp s else ends_with_last pre || s_fl s)
                   end in
    ({| s_pend := if taken then skipn n (s_pend s) else s_pend s;
        s_h := if taken then negb (s_h s) else s_h s;
        s_cur := None;
        s_wait := Some (pid, bs, rcv);
        s_retry := None;
        s_zlp := if taken then (n =? mps)%nat && ends_with_last pre else s_zlp s;
        s_in := s_in s;
        s_host := if taken then s_host s ++ bs else s_host s;
        s_fl := false |},
     v_size && v_pid && v_shape && (negb taken || v_take)).

  (* 1. handshakes, judged on the state before this cycle: an ACK or a new token ends the wait for a handshake;
        a new token without ACK means the packet has to be sent again *)
  Definition hs_phase (s : sp_state) (i : ix_in) : sp_state :=
    {| s_pend := s_pend s; s_h := s_h s; s_cur := s_cur s;
       s_wait := if i_ack i || i_newtok i then None else s_wait s;
       s_retry := match s_wait s with
                  | Some (p, bs, _) => if i_newtok i && negb (i_ack i) then Some (p, bs) else None
                  | None => s_retry s
                  end;
       s_zlp := s_zlp s; s_in := s_in s; s_host := s_host s; s_fl := s_fl s || i_flush i |}.

  Definition set_cur (s : sp_state) (c : option (list N)) : sp_state :=
    {| s_pend := s_pend s; s_h := s_h s; s_cur := c; s_wait := s_wait s; s_retry := s_retry s;
       s_zlp := s_zlp s; s_in := s_in s; s_host := s_host s; s_fl := s_fl s |}.

  (* 2. the transmit side (s: state before the cycle, s1: after the handshake phase) *)
  Definition tx_phase (s s1 : sp_state) (i : ix_in) (o : ix_out) : sp_state * bool :=
    match s_cur s with
    | None =>
        if s_tok i && match s_wait s with None => true | Some _ => false end then
          if o_nak o then
            (s1, negb (o_valid o) && match s_retry s1 with None => true | Some _ => false end
                 && negb (s_zlp s) && negb (packet_due (s_pend s)))
          else if o_valid o then
            let '(s', v) := complete s1 (s_retry s1) (o_pid o) [] (i_rcv i) in
            (s', v && o_last o && negb (o_first o))
          else (set_cur s1 (Some []), true)
        else (s1, negb (o_nak o) && negb (o_valid o))
    | Some bs =>
        let v := o_valid o && negb (o_nak o) && Bool.eqb (o_first o) (match bs with [] => true | _ => false end) in
        if o_valid o && i_txrdy i then
          let bs' := bs ++ [o_payload o] in
          if o_last o then
            let '(s', v') := complete s1 (s_retry s1) (o_pid o) bs' (i_rcv i) in (s', v && v')
          else (set_cur s1 (Some bs'), v && (length bs' <? mps)%nat)
        else (s1, v)
    end.

  (* 3. the stream: a byte handed over (valid & ready) joins the pending stream *)
  Definition add_stream (b : bool) (i : ix_in) (s : sp_state) : sp_state :=
    {| s_pend := if b then s_pend s ++ [(i_payload i, i_last i)] else s_pend s;
       s_h := s_h s; s_cur := s_cur s; s_wait := s_wait s; s_retry := s_retry s; s_zlp := s_zlp s;
       s_in := if b then s_in s ++ [i_payload i] else s_in s;
       s_host := s_host s; s_fl := s_fl s |}.

  (* V6 *)
  Definition ready_ok (s : sp_state) (o : ix_out) : bool := packet_due (s_pend s) || o_ready o.

  Definition c11_mon (s : sp_state) (i : ix_in) (o : ix_out) : option (sp_state * bool) :=
    if negb (c11_env s i) then None else
    if negb (ready_ok s o) then Some (s, false) else
    let '(s2, ok) := tx_phase s (hs_phase s i) i o in
    Some (add_stream (i_valid i && o_ready o) i s2, ok).

  (* the monitor over a whole recorded run: true = no violation (as long as the environment holds) *)
  Fixpoint c11_check (s : sp_state) (ios : list (ix_in * ix_out)) : bool :=
    match ios with
    | [] => true
    | (i, o) :: t => match c11_mon s i o with
                     | None => true
                     | Some (s', ok) => ok && c11_check s' t
                     end
    end.

  (* the monitor's state after a run (stops where the environment breaks) *)
  Fixpoint c11_state (s : sp_state) (ios : list (ix_in * ix_out)) : sp_state :=
    match ios with
    | [] => s
    | (i, o) :: t => match c11_mon s i o with
                     | None => s
                     | Some (s', _) => c11_state s' t
                     end
    end.

  (* the environment holds along the whole run *)
  Fixpoint c11_env_all (s : sp_state) (ios : list (ix_in * ix_out)) : bool :=
    match ios with
    | [] => true
    | (i, o) :: t => match c11_mon s i o with
                     | None => false
                     | Some (s', _) => c11_env_all s' t
                     end
    end.

  (* the stream bytes handed over (valid & ready) during a recorded run *)
  Definition accepted_bytes (ios : list (ix_in * ix_out)) : list N :=
    flat_map (fun io => if i_valid (fst io) && o_ready (snd io) then [i_payload (fst io)] else []) ios.

  (* ---- N-packed form of the monitor state, for the runtime oracle (tie.cmon); the logs are dropped ---- *)
  Definition enc_bytes (l : list N) (rest : N) : N :=
    pk 65536 (N.of_nat (length l)) (pk (512 ^ N.of_nat (length l)) (pack 512 l) rest).
  Definition dec_bytes (m : N) : list N * N :=
    let n := m mod 65536 in let m := m / 65536 in
    let B := 512 ^ n in
    (unpack 512 (N.to_nat n) (m mod B), m / B).
  Definition enc_opt (o : option (N * list N * bool)) (rest : N) : N :=
    match o with
    | None => pk 2 0 rest
    | Some (p, bs, g) => pk 2 1 (pk 4 p (pk 2 (b2n g) (enc_bytes bs rest)))
    end.
  Definition dec_opt (m : N) : option (N * list N * bool) * N :=
    if m mod 2 =? 0 then (None, m / 2) else
    let m := m / 2 in let p := m mod 4 in let m := m / 4 in let g := m mod 2 in let m := m / 2 in
    let (bs, m) := dec_bytes m in (Some (p, bs, nb g), m).

  Definition sp_enc (s : sp_state) : N :=
    pk 2 (b2n (s_fl s)) (pk 2 (b2n (s_h s)) (pk 2 (b2n (s_zlp s))
      (enc_bytes (map (fun x => fst x + 256 * b2n (snd x)) (s_pend s))
        (enc_opt (match s_cur s with Some bs => Some (0, bs, false) | None => None end)
          (enc_opt (s_wait s)
            (enc_opt (match s_retry s with Some (p, bs) => Some (p, bs, false) | None => None end) 0)))))).
  Definition sp_dec (m : N) : sp_state :=
    let f := m mod 2 in let m := m / 2 in
    let h := m mod 2 in let m := m / 2 in
    let z := m mod 2 in let m := m / 2 in
    let (pe, m) := dec_bytes m in
    let (cu, m) := dec_opt m in
    let (wa, m) := dec_opt m in
    let (re, m) := dec_opt m in
    {| s_pend := map (fun x => (x mod 256, nb (x / 256))) pe; s_h := nb h;
       s_cur := match cu with Some (_, bs, _) => Some bs | None => None end;
       s_wait := wa;
       s_retry := match re with Some (p, bs, _) => Some (p, bs) | None => None end;
       s_zlp := nb z; s_in := []; s_host := []; s_fl := nb f |}.

  (* the typed monitor over packed (input word, output word) pairs: 0 = accepted, k+1 = first violated cycle k
     (used as the runtime oracle at packet sizes where the N-packed monitor state would be too slow) *)
  Fixpoint c11_bad_from (k : N) (s : sp_state) (ios : list (N * N)) : N :=
    match ios with
    | [] => 0
    | (w, o) :: t => match c11_mon s (ix_in_of w) (ix_out_of o) with
                     | None => 0
                     | Some (s', ok) => if ok then c11_bad_from (N.succ k) s' t else N.succ k
                     end
    end.
  Definition c11_bad_code (ios : list (N * N)) : N := c11_bad_from 0 sp_init ios.

  Definition c11_monN (m w o : N) : option (N * bool) :=
    match c11_mon (sp_dec m) (ix_in_of w) (ix_out_of o) with
    | None => None
    | Some (s', ok) => Some (sp_enc s', ok)
    end.
End Spec.
