From Coq Require Import NArith ZArith Arith List Bool Lia ZifyBool ZifyN.
Import ListNotations.
From LunaLib Require Import Netlist Machine SsWords.
From LunaModel Require Import TsDet.
Open Scope N_scope.
Ltac Zify.zify_post_hook ::= Z.div_mod_to_equations.

(* ---- reading the output word ---- *)
Lemma ts_out_bits : forall st,
  o_detected (ts_out st) = det st /\ o_hot_reset (ts_out st) = hr st /\
  o_loopback (ts_out st) = lb st /\ o_noscramble (ts_out st) = sd st.
Proof.
  intros st. unfold o_detected, o_hot_reset, o_loopback, o_noscramble, ts_out.
  pose proof (b2n_lt2 (det st)). pose proof (b2n_lt2 (hr st)). pose proof (b2n_lt2 (lb st)).
  pose proof (b2n_lt2 (sd st)).
  set (a := b2n (det st)) in *. set (b := b2n (hr st)) in *. set (d := b2n (lb st)) in *. set (e := b2n (sd st)) in *.
  rewrite N.bit0_odd, !N.testbit_odd, !N.shiftr_div_pow2.
  change (2 ^ 1) with 2. change (2 ^ 2) with 4. change (2 ^ 3) with 8.
  assert (E0 : a + 2 * b + 4 * d + 8 * e = a + 2 * (b + 2 * d + 4 * e)) by lia.
  assert (E1 : (a + 2 * b + 4 * d + 8 * e) / 2 = b + 2 * (d + 2 * e)) by lia.
  assert (E2 : (a + 2 * b + 4 * d + 8 * e) / 4 = d + 2 * e) by lia.
  assert (E3 : (a + 2 * b + 4 * d + 8 * e) / 8 = e + 2 * 0) by lia.
  rewrite E1, E2, E3, E0. subst a b d e. rewrite !odd_b2n_add_2. repeat split.
Qed.

Section Proofs.
  Variable c : ts_cfg.
  Let L := set_len c.
  Hypothesis HL : (2 <= L)%nat.
  Hypothesis Hlax : lax c = false.

  Lemma mod_pos : forall cnt k, (k < L)%nat -> ((cnt * L + k) mod L = k)%nat.
  Proof.
    intros cnt k Hk. rewrite Nat.add_comm. rewrite Nat.mod_add by lia. apply Nat.mod_small. exact Hk.
  Qed.

  Lemma tail_ok_word : forall cnt k w ws, (k < L)%nat ->
    tail_ok c (cnt * L + S k) (w :: ws) = word_ok c k w && tail_ok c (cnt * L + k) ws.
  Proof.
    intros cnt k w ws Hk. rewrite Nat.add_succ_r. cbn [tail_ok]. fold L. rewrite mod_pos by exact Hk.
    reflexivity.
  Qed.

  Lemma tail_ok_first : forall cnt w ws,
    tail_ok c (cnt * L + 1) (w :: ws) = word_ok c 0 w && tail_ok c (cnt * L) ws.
  Proof.
    intros. replace (cnt * L)%nat with (cnt * L + 0)%nat at 2 by lia. apply tail_ok_word. lia.
  Qed.

  (* the registers hold the configuration bits of word 1 of the set in progress *)
  Definition regs_ok (st : ts_state) (w : list word) (k : nat) : Prop :=
    inc_cfg c = true ->
    exists x, nth_error w (k - 2) = Some x /\
      hr st = w_hot_reset x /\ lb st = w_loopback x /\ sd st = w_noscramble x.

  Definition fsm_inv (st : ts_state) (w : list word) : Prop :=
    (count st < thr c)%nat /\
    match fsm st with
    | NONE => True
    | WAIT => tail_ok c (count st * L) w = true
    | DET k => (1 <= k <= L)%nat /\ tail_ok c (count st * L + k) w = true /\
               ((2 <= k)%nat -> regs_ok st w k)
    end.

  Lemma inv_step : forall st w i, fsm_inv st w ->
    let st' := ts_next c st i in
    if det st'
    then tail_ok c (thr c * L) w = true /\ cfg_ok c w (ts_out st') = true /\ fsm_inv st' (push (Some i) [])
    else fsm_inv st' (push (Some i) w).
  Proof.
    intros st w i (Hc & Hf). cbv zeta. unfold ts_next. fold L. cbn [push].
    destruct (fsm st) as [| |k] eqn:F.
    - (* NONE *) cbn [det]. unfold fsm_inv. cbn [count fsm]. split; [lia | reflexivity].
    - (* WAIT *)
      destruct (i_valid i) eqn:V.
      + destruct (word_ok c 0 (i_word i)) eqn:W; cbn [det]; unfold fsm_inv; cbn [count fsm].
        * split; [exact Hc|]. split; [lia|]. split; [|intros; lia].
          rewrite tail_ok_first, W, Hf. reflexivity.
        * rewrite Hlax. split; [lia | reflexivity].
      + cbn [det]. unfold fsm_inv. cbn [count fsm]. split; assumption.
    - (* DET k *)
      destruct Hf as (Hk & Ht & Hr).
      destruct (L <=? k)%nat eqn:Last.
      + apply Nat.leb_le in Last. assert (k = L) by lia. subst k. cbn [det].
        destruct (S (count st) =? thr c)%nat eqn:Full.
        * apply Nat.eqb_eq in Full. split; [|split].
          -- rewrite <- Full. replace (S (count st) * L)%nat with (count st * L + L)%nat by lia. exact Ht.
          -- unfold cfg_ok. fold L. destruct (inc_cfg c) eqn:Inc; [|reflexivity].
             destruct (Hr HL Inc) as (x & Hx & R1 & R2 & R3). rewrite Hx.
             match goal with |- context [ts_out ?s] => destruct (ts_out_bits s) as (_ & O1 & O2 & O3) end.
             rewrite O1, O2, O3. cbn [hr lb sd]. rewrite R1, R2, R3, !eqb_reflx. reflexivity.
          -- unfold fsm_inv. cbn [count fsm]. split; [lia|].
             destruct (i_valid i) eqn:V; [|reflexivity].
             destruct (word_ok c 0 (i_word i)) eqn:W; [|exact I].
             split; [lia|]. split; [|intros; lia].
             change (0 * L + 1)%nat with 1%nat. cbn [tail_ok]. fold L. rewrite Nat.mod_0_l by lia. rewrite W. reflexivity.
        * apply Nat.eqb_neq in Full. unfold fsm_inv. cbn [count fsm]. split; [lia|].
          assert (Ht' : tail_ok c (S (count st) * L) w = true).
          { replace (S (count st) * L)%nat with (count st * L + L)%nat by lia. exact Ht. }
          destruct (i_valid i) eqn:V; [|exact Ht'].
          destruct (word_ok c 0 (i_word i)) eqn:W; [|exact I].
          split; [lia|]. split; [|intros; lia]. rewrite tail_ok_first, W, Ht'. reflexivity.
      + apply Nat.leb_gt in Last.
        destruct (i_valid i) eqn:V.
        * destruct (word_ok c k (i_word i)) eqn:W; cbn [det]; unfold fsm_inv; cbn [count fsm].
          -- split; [exact Hc|]. split; [lia|]. split.
             ++ rewrite tail_ok_word by exact Last. rewrite W, Ht. reflexivity.
             ++ intros H2 Inc. unfold regs_ok in *. cbn [hr lb sd]. rewrite Inc, andb_true_r.
                destruct (k =? 1)%nat eqn:K1.
                ** apply Nat.eqb_eq in K1. subst k. exists (i_word i). repeat split.
                ** apply Nat.eqb_neq in K1. assert (K2 : (2 <= k)%nat) by lia.
                   destruct (Hr K2 Inc) as (x & Hx & R). exists x. split; [|exact R].
                   replace (S k - 2)%nat with (S (k - 2))%nat by lia. exact Hx.
          -- split; [exact Hc | exact I].
        * cbn [det]. unfold fsm_inv. cbn [count fsm]. split; [exact Hc|]. split; [exact Hk|]. split; [exact Ht|].
          intros H2 Inc. destruct (Hr H2 Inc) as (x & Hx & R). exists x. split; assumption.
  Qed.

  Definition Inv (st : ts_state) (ws : list word) (prev : option N) : Prop :=
    if det st
    then tail_ok c (thr c * L) ws = true /\ cfg_ok c ws (ts_out st) = true /\ fsm_inv st (push prev [])
    else fsm_inv st (push prev ws).

  Lemma sound_gen : forall ins st ws prev, Inv st ws prev ->
    sound c ws prev (combine ins (run (ts_step c) st ins)) = true.
  Proof.
    induction ins as [|i t IH]; intros st ws prev H; [reflexivity|].
    cbn [run ts_step combine sound]. fold L.
    destruct (ts_out_bits st) as (D & _). rewrite D. unfold Inv in H.
    destruct (det st) eqn:Dt.
    - destruct H as (H1 & H2 & H3). rewrite H1, H2. cbn [andb].
      apply IH. unfold Inv. exact (inv_step st (push prev []) i H3).
    - apply IH. unfold Inv. exact (inv_step st (push prev ws) i H).
  Qed.

  Hypothesis Hthr : (1 <= thr c)%nat.

  Theorem ts_sound : forall ins, sound c [] None (combine ins (run (ts_step c) ts_init ins)) = true.
  Proof.
    intros. apply sound_gen. unfold Inv, ts_init, fsm_inv. cbn. split; [lia | exact I].
  Qed.
End Proofs.

(* what tail_ok says, word by word: the word d cycles-of-valid-data back is a well-formed word
   number (m - 1 - d) mod L *)
Lemma tail_ok_nth : forall c m ws, tail_ok c m ws = true ->
  forall d, (d < m)%nat -> exists w, nth_error ws d = Some w /\ word_ok c ((m - 1 - d) mod set_len c) w = true.
Proof.
  intros c. induction m as [|m IH]; intros ws H d Hd; [lia|].
  destruct ws as [|w ws]; [discriminate|]. cbn [tail_ok] in H. apply andb_true_iff in H as [H1 H2].
  destruct d as [|d].
  - exists w. split; [reflexivity|]. replace (S m - 1 - 0)%nat with m by lia. exact H1.
  - cbn [nth_error]. replace (S m - 1 - S d)%nat with (m - 1 - d)%nat by lia. apply IH; [exact H2 | lia].
Qed.

(* ---- completeness: a clean burst of thr sets, received in sync, is reported exactly once, two
   cycles after its last word ---- *)
Section Complete.
  Variable c : ts_cfg.
  Let L := set_len c.
  Hypothesis HL : (2 <= L)%nat.

  (* about to receive word k of a set, cnt sets of the burst being complete *)
  Definition ready_for (k cnt : nat) (st : ts_state) : Prop :=
    det st = false /\
    match k with
    | O => (fsm st = WAIT /\ count st = cnt) \/ (fsm st = DET L /\ S (count st) = cnt)
    | S _ => fsm st = DET k /\ count st = cnt
    end.

  Definition quiet (outs : list N) : Prop := Forall (fun o => o_detected o = false) outs.

  Lemma seg_run : forall k s, set_seg c k s -> forall cnt st, (cnt < thr c)%nat -> ready_for k cnt st ->
    quiet (run (ts_step c) st s) /\ ready_for L cnt (run_state (ts_step c) st s).
  Proof.
    induction 1 as [|k i rest Hk Hv Hs IH|k i rest Hk Hv Hw Hs IH]; intros cnt st Hc (Hd & Hr).
    - split; [constructor|]. cbn [run_state]. split; assumption.
    - cbn [run run_state ts_step fst]. assert (Hq : o_detected (ts_out st) = false).
      { destruct (ts_out_bits st) as (D & _). rewrite D. exact Hd. }
      assert (R : ready_for k cnt (ts_next c st i)).
      { unfold ready_for, ts_next. fold L. rewrite Hv. destruct k as [|k].
        - destruct Hr as [(F & C)|(F & C)]; rewrite F.
          + cbn [det fsm count]. split; [reflexivity|]. left. split; [reflexivity | exact C].
          + rewrite Nat.leb_refl. cbn [det fsm count].
            assert (E : (S (count st) =? thr c)%nat = false) by (apply Nat.eqb_neq; lia).
            rewrite E. split; [reflexivity|]. left. split; [reflexivity | exact C].
        - destruct Hr as (F & C). rewrite F.
          assert (E : (L <=? S k)%nat = false) by (apply Nat.leb_gt; lia). rewrite E.
          cbn [det fsm count]. split; [reflexivity|]. split; [reflexivity | exact C]. }
      destruct (IH cnt _ Hc R) as (Q & Fin). split; [constructor; assumption | exact Fin].
    - cbn [run run_state ts_step fst]. assert (Hq : o_detected (ts_out st) = false).
      { destruct (ts_out_bits st) as (D & _). rewrite D. exact Hd. }
      assert (R : ready_for (S k) cnt (ts_next c st i)).
      { unfold ready_for, ts_next. fold L. rewrite Hv. destruct k as [|k].
        - destruct Hr as [(F & C)|(F & C)]; rewrite F.
          + rewrite Hw. cbn [det fsm count]. split; [reflexivity|]. split; [reflexivity | exact C].
          + rewrite Nat.leb_refl, Hw. cbn [det fsm count].
            assert (E : (S (count st) =? thr c)%nat = false) by (apply Nat.eqb_neq; lia).
            rewrite E. split; [reflexivity|]. split; [reflexivity | exact C].
        - destruct Hr as (F & C). rewrite F.
          assert (E : (L <=? S k)%nat = false) by (apply Nat.leb_gt; lia). rewrite E, Hw.
          cbn [det fsm count]. split; [reflexivity|]. split; [reflexivity | exact C]. }
      destruct (IH cnt _ Hc R) as (Q & Fin). split; [constructor; assumption | exact Fin].
  Qed.

  Lemma quiet_app : forall a b, quiet a -> quiet b -> quiet (a ++ b).
  Proof. intros. apply Forall_app. split; assumption. Qed.

  (* after a set: DET L with the old count; that is also "ready for word 0 of the next set" *)
  Lemma ready_L_next : forall cnt st, ready_for L cnt st -> ready_for 0 (S cnt) st.
  Proof.
    intros cnt st (Hd & Hr). unfold ready_for in *. destruct L as [|l] eqn:E; [lia|].
    destruct Hr as (F & C). split; [exact Hd|]. right. split; [exact F | lia].
  Qed.

  Lemma burst_run : forall m b, burst_of c m b -> forall cnt st, (cnt + m <= thr c)%nat -> (1 <= m)%nat ->
    ready_for 0 cnt st ->
    quiet (run (ts_step c) st b) /\ ready_for L (cnt + m - 1) (run_state (ts_step c) st b).
  Proof.
    induction 1 as [|m s rest Hs Hb IH]; intros cnt st Hc Hm Hr; [lia|].
    rewrite run_app, run_state_app.
    destruct (seg_run 0 s Hs cnt st ltac:(lia) Hr) as (Q1 & R1).
    destruct m as [|m].
    - inversion Hb; subst. cbn [run run_state]. rewrite app_nil_r.
      split; [exact Q1|]. replace (cnt + 1 - 1)%nat with cnt by lia. exact R1.
    - destruct (IH (S cnt) _ ltac:(lia) ltac:(lia) (ready_L_next _ _ R1)) as (Q2 & R2).
      split; [apply quiet_app; assumption|].
      replace (cnt + S (S m) - 1)%nat with (S cnt + S m - 1)%nat by lia. exact R2.
  Qed.

  Hypothesis Hthr : (1 <= thr c)%nat.

  Theorem ts_complete : forall b st x y z,
    burst_of c (thr c) b -> det st = false -> fsm st = WAIT -> count st = O ->
    map o_detected (run (ts_step c) st (b ++ [x; y; z])) = repeat false (length b) ++ [false; true; false].
  Proof.
    intros b st x y z Hb Hd Hf Hc.
    destruct (burst_run (thr c) b Hb 0%nat st ltac:(lia) Hthr) as (Q & R).
    { split; [exact Hd|]. left. split; assumption. }
    rewrite run_app, map_app. f_equal.
    - rewrite <- (run_length (ts_step c) b st). unfold quiet in Q.
      induction Q as [|o l Ho _ IHl]; [reflexivity|]. cbn [map length repeat]. rewrite Ho, IHl. reflexivity.
    - set (s1 := run_state (ts_step c) st b) in *.
      destruct R as (D1 & R1). unfold ready_for in R1. fold L in R1.
      destruct L as [|l] eqn:EL; [lia|]. destruct R1 as (F1 & C1). rewrite <- EL in *.
      cbn [run ts_step map].
      destruct (ts_out_bits s1) as (O1 & _). rewrite O1, D1.
      assert (N1 : det (ts_next c s1 x) = true /\
                   (forall k, fsm (ts_next c s1 x) = DET k -> k = 1%nat)).
      { unfold ts_next. fold L. rewrite F1, Nat.leb_refl. cbn [det fsm].
        assert (E : (S (count s1) =? thr c)%nat = true) by (apply Nat.eqb_eq; lia). rewrite E.
        split; [reflexivity|]. intros k. destruct (i_valid x); [destruct (word_ok c 0 (i_word x))|];
          intros H; inversion H; reflexivity. }
      destruct N1 as (D2 & K2). set (s2 := ts_next c s1 x) in *.
      destruct (ts_out_bits s2) as (O2 & _). rewrite O2, D2.
      assert (D3 : det (ts_next c s2 y) = false).
      { unfold ts_next. fold L. destruct (fsm s2) as [| |k] eqn:F2; cbn [det].
        - reflexivity.
        - destruct (i_valid y); [destruct (word_ok c 0 (i_word y))|]; reflexivity.
        - rewrite (K2 k eq_refl). assert (E : (L <=? 1)%nat = false) by (apply Nat.leb_gt; lia). rewrite E.
          destruct (i_valid y); [destruct (word_ok c 1 (i_word y))|]; reflexivity. }
      destruct (ts_out_bits (ts_next c s2 y)) as (O3 & _). rewrite O3, D3. reflexivity.
  Qed.
End Complete.

(* the behaviour of the code in /repo (count kept over other valid data while waiting for a first
   word) is not sound: two TS1 sets separated by an idle cycle and three other valid words are
   reported as a burst of two consecutive sets *)
Definition TS1 : list N := [3166485692; 1246363648; 1246382666; 1246382666].
Definition ts1_in (k : nat) : N := 1 + 2 * nth k TS1 0 + N.shiftl (match k with O => 15 | _ => 0 end) 33.
Definition lax_witness : list N :=
  [0; ts1_in 0; ts1_in 1; ts1_in 2; ts1_in 3; 0; 1 + 2 * 3735928559; 1 + 2 * 305419896; 1;
   ts1_in 0; ts1_in 1; ts1_in 2; ts1_in 3; 0; 0; 0].
Theorem ts_lax_refuted :
  let c := {| set_data := TS1; fctrl := 15; thr := 2; inc_cfg := false; lax := true |} in
  sound c [] None (combine lax_witness (run (ts_step c) ts_init lax_witness)) = false.
Proof. vm_compute. reflexivity. Qed.
Example ts_strict_on_witness :
  let c := {| set_data := TS1; fctrl := 15; thr := 2; inc_cfg := false; lax := false |} in
  map o_detected (run (ts_step c) ts_init lax_witness) = repeat false 16.
Proof. vm_compute. reflexivity. Qed.

(* the state one cycle after reset is "in sync" *)
Lemma ts_after_reset : forall c x, let st := fst (ts_step c ts_init x) in
  det st = false /\ fsm st = WAIT /\ count st = O.
Proof. intros. cbn. repeat split. Qed.

(* ---- packing facts for the tie ---- *)
Lemma fsm_of_code : forall f, (match f with DET k => (1 <= k <= 14)%nat | _ => True end) ->
  fsm_of (fsm_code f) = f /\ fsm_code f < 16.
Proof.
  intros [| |k] H; cbn; try (split; [reflexivity | lia]).
  unfold fsm_of, fsm_code. destruct (N.of_nat k + 1 =? 0) eqn:A; [lia|].
  destruct (N.of_nat k + 1 =? 1) eqn:B; [lia|]. split; [|lia]. f_equal. lia.
Qed.

Lemma ts_dec_enc : forall L, (L <= 14)%nat -> forall st, ts_wf L st -> ts_dec (ts_enc st) = st.
Proof.
  intros L HL [f n d h l s] W. unfold ts_wf in W. cbn [fsm] in W. unfold ts_dec, ts_enc. cbn [fsm count det hr lb sd].
  destruct (fsm_of_code f) as (Ff & Fl). { destruct f; try exact I. lia. }
  pose proof (b2n_lt2 d). pose proof (b2n_lt2 h). pose proof (b2n_lt2 l). pose proof (b2n_lt2 s).
  set (bd := b2n d) in *. set (bh := b2n h) in *. set (bl := b2n l) in *. set (bs := b2n s) in *.
  set (fc := fsm_code f) in *. set (cn := N.of_nat n) in *.
  assert (E1 : (bd + 2 * (bh + 2 * (bl + 2 * (bs + 2 * (fc + 16 * cn))))) / 2 = bh + 2 * (bl + 2 * (bs + 2 * (fc + 16 * cn)))) by lia.
  assert (E2 : (bd + 2 * (bh + 2 * (bl + 2 * (bs + 2 * (fc + 16 * cn))))) / 4 = bl + 2 * (bs + 2 * (fc + 16 * cn))) by lia.
  assert (E3 : (bd + 2 * (bh + 2 * (bl + 2 * (bs + 2 * (fc + 16 * cn))))) / 8 = bs + 2 * (fc + 16 * cn)) by lia.
  assert (E4 : (bd + 2 * (bh + 2 * (bl + 2 * (bs + 2 * (fc + 16 * cn))))) / 16 mod 16 = fc) by lia.
  assert (E5 : (bd + 2 * (bh + 2 * (bl + 2 * (bs + 2 * (fc + 16 * cn))))) / 256 = cn) by lia.
  rewrite E1, E2, E3, E4, E5. subst bd bh bl bs fc cn. rewrite !odd_b2n_add_2, Ff, Nat2N.id. reflexivity.
Qed.

Lemma ts_wf_step : forall c, (1 <= set_len c)%nat -> forall st i,
  ts_wf (set_len c) st -> ts_wf (set_len c) (fst (ts_step c st i)).
Proof.
  intros c HL st i W. unfold ts_wf, ts_step, ts_next in *. cbn [fst].
  destruct (fsm st) as [| |k]; cbn [fsm]; try exact I.
  - destruct (i_valid i); [destruct (word_ok c 0 (i_word i))|]; cbn [fsm]; try exact I. lia.
  - destruct (set_len c <=? k)%nat eqn:E.
    + cbn [fsm]. destruct (i_valid i); [destruct (word_ok c 0 (i_word i))|]; try exact I. lia.
    + apply Nat.leb_gt in E. destruct (i_valid i); [destruct (word_ok c k (i_word i))|]; cbn [fsm]; try exact I; lia.
Qed.
