(* C48 (part 1) -- proofs about Model/SsSetupDec.v: under the packet-delivery environment the fixed decoder model
   is output-equal to the word-accumulating specification; the model of the code as it stands is not
   (witness traces); packing lemmas for the lock-step obligation. *)
From Coq Require Import NArith ZArith List Bool Lia.
Import ListNotations.
From LunaLib Require Import Netlist Machine PackN SsWords.
From LunaModel Require Import SsSetupDec.
Open Scope N_scope.

(* can the packet accumulated so far still turn out to be a setup packet? *)
Definition viable (f : bool) (ws : list (N * N)) (e : sd_est) : bool :=
  f && match ws, e with
       | [(_, v0)], EIn => v0 =? 15
       | [(_, v0); (_, v1)], EAwait => (v0 =? 15) && (v1 =? 15)
       | _, _ => false
       end.

Definition sd_rel (st : sd_st) (s : ssd_st) (e : sd_est) : Prop :=
  d_out st = s_out s /\ d_rcv st = s_rcv s /\
  match d_fsm st with
  | WaitFirst => match s_cur s with
                 | None => e = E0
                 | Some (f, ws) => e <> E0 /\ ws <> [] /\ viable f ws e = false
                 end
  | ParseSecond => s_cur s = Some (true, [(d_w0 st, 15)]) /\ e = EIn
  | WaitValid => s_cur s = Some (true, [(d_w0 st, 15); (d_w1 st, 15)]) /\ e = EAwait
  end.

Lemma sd_rel_init : sd_rel sd_init ssd_init E0.
Proof. repeat split. Qed.

Lemma not_viable_not_setup : forall f ws, viable f ws EAwait = false -> is_setup_packet f ws = None.
Proof.
  intros f ws H. unfold viable in H. unfold is_setup_packet.
  destruct ws as [|[d0 v0] [|[d1 v1] [|x r]]]; try reflexivity.
  destruct f; cbn [andb] in *; [rewrite H; reflexivity | reflexivity].
Qed.

Lemma viable_app : forall f ws x e', ws <> [] -> viable f ws EIn = false -> viable f (ws ++ [x]) e' = false.
Proof.
  intros f ws x e' Hne H. unfold viable in *. destruct f; [|reflexivity]. cbn [andb] in *.
  destruct ws as [|[d0 v0] [|[d1 v1] r]]; [contradiction | |].
  - cbn [app]. destruct x as [d1 v1]. destruct e'; try reflexivity. rewrite H. reflexivity.
  - cbn [app]. destruct (r ++ [x]) eqn:E; [destruct r; discriminate|]. destruct e'; reflexivity.
Qed.

Lemma full_word : forall i, sd_full i = true -> sd_word i = true /\ sd_v i = 15.
Proof.
  intros i H. unfold sd_full, sd_word in *. apply N.eqb_eq in H. rewrite H. split; reflexivity.
Qed.

Ltac bool_cases :=
  repeat match goal with
         | |- context [if ?b then _ else _] => destruct b eqn:?
         | H : context [if ?b then _ else _] |- _ => destruct b eqn:?
         end.

Lemma sd_rel_step_plain : forall st s e i e', sd_rel st s e -> sd_env_plain e i = Some e' ->
  sd_rel (sd_next true st i) (ssd_next s i) e'.
Proof.
  intros [fsm w0 w1 out rcv] [cur sout srcv] e i e' (Ho & Hr & H) Henv.
  cbn [d_fsm d_w0 d_w1 d_out d_rcv s_cur s_out s_rcv] in *. subst sout srcv.
  unfold sd_env_plain, sd_env_core in Henv. unfold sd_rel, sd_next, ssd_next.
  cbn [d_fsm d_w0 d_w1 d_out d_rcv s_cur s_out s_rcv].
  destruct (sd_full i) eqn:Ef.
  - (* a full word *)
    destruct (full_word i Ef) as [Ew Ev]. rewrite Ew in *. rewrite Ev in *.
    destruct (sd_good i) eqn:Eg; [cbn in Henv; discriminate|].
    destruct (sd_bad i) eqn:Eb; [cbn in Henv; discriminate|]. cbn [orb andb] in *.
    destruct fsm.
    + destruct cur as [[f ws]|].
      * destruct H as (Hne & Hws & Hv). destruct e; [congruence | | discriminate].
        destruct (sd_first i) eqn:E1; [discriminate|]. cbn [andb].
        destruct (sd_last i) eqn:E2; inversion Henv; subst e'; cbn [d_fsm s_cur];
          (split; [reflexivity|]; split; [reflexivity|]; split; [discriminate|]; split;
           [destruct ws; discriminate | apply viable_app; assumption]).
      * subst e. destruct (sd_first i) eqn:E1; [|discriminate].
        destruct (sd_last i) eqn:E2; inversion Henv; subst e'; cbn [andb negb];
          destruct (sd_setup i) eqn:E3; cbn [andb d_fsm s_cur d_w0];
          repeat split; try discriminate; try reflexivity.
    + destruct H as [Hc He]. subst e cur.
      destruct (sd_first i) eqn:E1; [discriminate|].
      destruct (sd_last i) eqn:E2; inversion Henv; subst e'; cbn [andb d_fsm s_cur d_w0 d_w1 app];
        repeat split; try discriminate; try reflexivity.
    + destruct H as [Hc He]. subst e. discriminate.
  - (* no full word *)
    destruct (sd_word i) eqn:Ew.
    + (* a partial word: must be the last one of its packet *)
      assert (Hv : (sd_v i =? 15) = false) by exact Ef.
      destruct (sd_good i) eqn:Eg; [cbn in Henv; discriminate|].
      destruct (sd_bad i) eqn:Eb; [cbn in Henv; discriminate|]. cbn [orb andb] in *.
      destruct fsm.
      * destruct cur as [[f ws]|].
        -- destruct H as (Hne & Hws & Hvi). destruct e; [congruence | | discriminate].
           destruct (sd_first i) eqn:E1; [discriminate|].
           destruct (sd_last i) eqn:E2; [|discriminate]. inversion Henv; subst e'. cbn [d_fsm s_cur].
           split; [reflexivity|]; split; [reflexivity|]; split; [discriminate|]; split;
             [destruct ws; discriminate | apply viable_app; assumption].
        -- subst e. destruct (sd_first i) eqn:E1; [|discriminate].
           destruct (sd_last i) eqn:E2; [|discriminate]. inversion Henv; subst e'. cbn [d_fsm s_cur].
           repeat split; try discriminate; try reflexivity.
           unfold viable. destruct (sd_setup i); reflexivity.
      * destruct H as [Hc He]. subst e cur.
        destruct (sd_first i) eqn:E1; [discriminate|].
        destruct (sd_last i) eqn:E2; [|discriminate]. inversion Henv; subst e'.
        cbn [andb d_fsm s_cur app]. repeat split; try discriminate; try reflexivity.
        unfold viable. cbn [andb]. rewrite Hv. reflexivity.
      * destruct H as [Hc He]. subst e. discriminate.
    + (* no word: a verdict or nothing *)
      cbn [andb orb] in Henv.
      destruct (sd_good i) eqn:Eg; destruct (sd_bad i) eqn:Eb; cbn [andb orb] in *; try discriminate.
      * (* rx_good *)
        destruct fsm.
        -- destruct cur as [[f ws]|].
           ++ destruct H as (Hne & Hws & Hvi). destruct e; [congruence | discriminate |].
              inversion Henv; subst e'. rewrite (not_viable_not_setup _ _ Hvi). repeat split.
           ++ subst e. inversion Henv; subst e'. repeat split.
        -- destruct H as [Hc He]. subst e. discriminate.
        -- destruct H as [Hc He]. subst e cur. inversion Henv; subst e'.
           cbn [is_setup_packet andb N.eqb Pos.eqb]. repeat split.
      * (* rx_bad *)
        destruct fsm.
        -- destruct cur as [[f ws]|].
           ++ destruct H as (Hne & _). destruct e; [congruence | |]; inversion Henv; subst e'; repeat split.
           ++ subst e. inversion Henv; subst e'. repeat split.
        -- destruct H as [Hc He]. subst e. inversion Henv; subst e'. repeat split.
        -- destruct H as [Hc He]. subst e. inversion Henv; subst e'. repeat split.
      * (* an empty cycle *)
        destruct fsm.
        -- destruct cur as [[f ws]|].
           ++ destruct H as (Hne & Hws & Hvi). destruct e; [congruence | |]; inversion Henv; subst e';
                (split; [reflexivity|]; split; [reflexivity|]; cbn [d_fsm s_cur]; repeat split; (discriminate || assumption)).
           ++ subst e. inversion Henv; subst e'. repeat split.
        -- destruct H as [Hc He]. subst e. inversion Henv; subst e'. repeat split; assumption.
        -- destruct H as [Hc He]. subst e. inversion Henv; subst e'. repeat split; assumption.
Qed.

(* a word of the packet together with rx_bad: the packet is aborted in that cycle *)
Lemma sd_rel_step_abort : forall st s e i e', sd_rel st s e -> sd_word i = true -> sd_bad i = true ->
  sd_good i = false -> sd_env_core e i = Some e' ->
  sd_rel (sd_next true st i) (ssd_next s i) E0.
Proof.
  intros [fsm w0 w1 out rcv] [cur sout srcv] e i e' (Ho & Hr & H) Ew Eb Eg Henv.
  cbn [d_fsm d_w0 d_w1 d_out d_rcv s_cur s_out s_rcv] in *. subst sout srcv.
  unfold sd_env_core in Henv. rewrite Ew in Henv.
  unfold sd_rel, sd_next, ssd_next. cbn [d_fsm d_w0 d_w1 d_out d_rcv s_cur s_out s_rcv].
  rewrite Ew, Eb, Eg. cbn [negb andb orb].
  destruct fsm.
  - rewrite !andb_false_r. cbn [d_fsm d_out d_rcv s_cur s_out s_rcv]. repeat split.
  - cbn [d_fsm d_out d_rcv s_cur s_out s_rcv]. repeat split.
  - destruct H as [_ He]. subst e. discriminate.
Qed.

Lemma sd_rel_step : forall st s e i e', sd_rel st s e -> sd_env_next e i = Some e' ->
  sd_rel (sd_next true st i) (ssd_next s i) e'.
Proof.
  intros st s e i e' R Henv. unfold sd_env_next in Henv.
  destruct (sd_word i) eqn:Ew; destruct (sd_good i) eqn:Eg; destruct (sd_bad i) eqn:Eb; cbn [andb orb] in Henv;
    try discriminate.
  - destruct (sd_env_core e i) as [e0|] eqn:Ec; [|discriminate]. inversion Henv; subst e'.
    apply (sd_rel_step_abort st s e i e0); assumption.
  - apply (sd_rel_step_plain st s e); [exact R|]. unfold sd_env_plain. rewrite Ew, Eg, Eb. exact Henv.
  - apply (sd_rel_step_plain st s e); [exact R|]. unfold sd_env_plain. rewrite Ew, Eg, Eb. exact Henv.
  - apply (sd_rel_step_plain st s e); [exact R|]. unfold sd_env_plain. rewrite Ew, Eg, Eb. exact Henv.
  - apply (sd_rel_step_plain st s e); [exact R|]. unfold sd_env_plain. rewrite Ew, Eg, Eb. exact Henv.
Qed.

(* The fixed decoder equals the specification on every environment-respecting input history. *)
Theorem sd_refines : forall tr st s e, sd_rel st s e -> sd_env_ok e tr = true ->
  run (sd_step true) st tr = run ssd_step s tr.
Proof.
  induction tr as [|i t IH]; intros st s e R Henv; [reflexivity|].
  cbn [sd_env_ok] in Henv. destruct (sd_env_next e i) as [e'|] eqn:E; [|discriminate].
  cbn [run]. unfold sd_step at 1, ssd_step at 1.
  pose proof R as (Ho & Hr & _). rewrite Ho, Hr. f_equal.
  apply (IH _ _ e'); [apply (sd_rel_step _ _ e); assumption | exact Henv].
Qed.

Corollary sd_refines_from_reset : forall tr, sd_env_ok E0 tr = true ->
  run (sd_step true) sd_init tr = run ssd_step ssd_init tr.
Proof. intros. apply (sd_refines tr sd_init ssd_init E0); [apply sd_rel_init | assumption]. Qed.

(* ---- packing lemmas for the lock-step obligation ---- *)
Lemma sd_dec_enc : forall st, sd_wf st -> sd_dec (sd_enc st) = st.
Proof.
  intros [f w0 w1 out rcv] [H0 H1]. cbn [d_w0 d_w1] in *. unfold sd_dec, sd_enc.
  cbn [d_fsm d_w0 d_w1 d_out d_rcv].
  change 3 with (N.ones 2). rewrite !N.shiftr_div_pow2, !N.land_ones. change (2 ^ 2) with 4. change (2 ^ 1) with 2.
  fold (pk (2 ^ 32) w1 out). fold (pk (2 ^ 32) w0 (pk (2 ^ 32) w1 out)).
  fold (pk 2 (b2n rcv) (pk (2 ^ 32) w0 (pk (2 ^ 32) w1 out))).
  set (rest := pk 2 (b2n rcv) (pk (2 ^ 32) w0 (pk (2 ^ 32) w1 out))).
  assert (Hf : forall k, k < 4 -> (k + 4 * rest) mod 4 = k /\ (k + 4 * rest) / 4 = rest).
  { intros k Hk. split; [apply (pk_mod 4 k rest Hk) | apply (pk_div 4 k rest Hk)]. }
  assert (Hb : b2n rcv < 2) by (destruct rcv; cbn; lia).
  assert (Ho : N.odd rest = rcv) by (unfold rest, pk; apply SsWords.odd_b2n_add_2).
  destruct f.
  - destruct (Hf 0 ltac:(lia)) as [-> ->]. rewrite Ho. unfold rest.
    rewrite (pk_div 2) by exact Hb. rewrite (pk_mod (2 ^ 32)), (pk_div (2 ^ 32)) by exact H0.
    rewrite (pk_mod (2 ^ 32)), (pk_div (2 ^ 32)) by exact H1. reflexivity.
  - destruct (Hf 1 ltac:(lia)) as [-> ->]. rewrite Ho. unfold rest.
    rewrite (pk_div 2) by exact Hb. rewrite (pk_mod (2 ^ 32)), (pk_div (2 ^ 32)) by exact H0.
    rewrite (pk_mod (2 ^ 32)), (pk_div (2 ^ 32)) by exact H1. reflexivity.
  - destruct (Hf 2 ltac:(lia)) as [-> ->]. rewrite Ho. unfold rest.
    rewrite (pk_div 2) by exact Hb. rewrite (pk_mod (2 ^ 32)), (pk_div (2 ^ 32)) by exact H0.
    rewrite (pk_mod (2 ^ 32)), (pk_div (2 ^ 32)) by exact H1. reflexivity.
Qed.

Lemma sd_data_lt : forall i, sd_data i < 2 ^ 32.
Proof. intro i. unfold sd_data, bits. apply land_ones_lt. Qed.

Lemma sd_wf_step : forall fixed st i, sd_wf st -> sd_wf (fst (sd_step fixed st i)).
Proof.
  intros fixed [f w0 w1 out rcv] i [H0 H1]. unfold sd_step, sd_next, sd_wf in *.
  cbn [fst d_fsm d_w0 d_w1 d_out d_rcv] in *. pose proof (sd_data_lt i).
  destruct f; bool_cases; cbn [d_w0 d_w1]; split; assumption.
Qed.

Lemma sd_wf_init : sd_wf sd_init.
Proof. split; reflexivity. Qed.

(* ---- the model paired with the environment tracker ---- *)
Lemma sde_dec_enc : forall s, sde_wf s -> sde_dec (sde_enc s) = s.
Proof.
  intros [st e] H. unfold sde_dec, sde_enc, sde_wf in *. cbn [fst snd] in *.
  assert (Hc : sd_est_code e < 4) by (destruct e; cbn; lia).
  change 3 with (N.ones 2). rewrite N.shiftr_div_pow2, N.land_ones. change (2 ^ 2) with 4.
  fold (pk 4 (sd_est_code e) (sd_enc st)). rewrite pk_mod, pk_div by exact Hc.
  rewrite sd_dec_enc by exact H. destruct e; reflexivity.
Qed.
Lemma sde_wf_step : forall fixed s i, sde_wf s -> sde_wf (fst (sde_step fixed s i)).
Proof. intros fixed [st e] i H. unfold sde_wf, sde_step in *. cbn [fst snd] in *. exact (sd_wf_step fixed st i H). Qed.
Lemma sde_run : forall fixed tr st e, run (sde_step fixed) (st, e) tr = run (sd_step fixed) st tr.
Proof.
  induction tr as [|i t IH]; intros st e; [reflexivity|]. cbn [run]. unfold sde_step at 1, sd_step at 1.
  cbn [fst snd]. rewrite IH. reflexivity.
Qed.
Lemma sde_env_ok : forall fixed tr st e,
  env_ok sde_st (sde_step fixed) sde_env (st, e) tr = sd_env_ok e tr.
Proof.
  induction tr as [|i t IH]; intros st e; [reflexivity|]. cbn [env_ok sd_env_ok].
  replace (fst (sde_step fixed (st, e) i))
    with (sd_next fixed st i, match sd_env_next e i with Some e' => e' | None => e end) by reflexivity.
  unfold sde_env at 1. cbn [snd].
  destruct (sd_env_next e i) as [e'|]; cbn [andb]; [apply IH | reflexivity].
Qed.
