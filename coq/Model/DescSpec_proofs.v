(* C09 -- proofs about the protocol-level specification of Model/DescSpec.v: a host that reads a descriptor in
   max-packet-size pieces from a responder that answers each IN transaction as `respond` says receives exactly
   the first min(wLength, len) bytes, in full packets followed by one short packet (a ZLP exactly when the total
   is a multiple of the packet size below wLength). *)
From Coq Require Import NArith ZArith Arith List Bool Lia ZifyBool ZifyN.
Import ListNotations.
From LunaLib Require Import Netlist Bits Machine.
From LunaModel Require Import DescSpec.
Open Scope N_scope.

Lemma nlen_app : forall (A : Type) (a b : list A), nlen (a ++ b) = nlen a + nlen b.
Proof. intros. unfold nlen. rewrite app_length. lia. Qed.

Lemma nlen_firstn : forall (A : Type) n (l : list A), nlen (firstn n l) = N.min (N.of_nat n) (nlen l).
Proof. intros. unfold nlen. rewrite firstn_length. lia. Qed.

Lemma nlen_skipn : forall (A : Type) n (l : list A), nlen (skipn n l) = nlen l - N.of_nat n.
Proof. intros. unfold nlen. rewrite skipn_length. lia. Qed.

Lemma firstn_plus : forall (A : Type) a b (l : list A),
  firstn (a + b) l = firstn a l ++ firstn b (skipn a l).
Proof.
  induction a as [|a IH]; intros b l; [reflexivity|].
  destruct l as [|x l]; [simpl; rewrite firstn_nil; reflexivity|].
  simpl. rewrite IH. reflexivity.
Qed.

Lemma skipn_plus : forall (A : Type) a b (l : list A), skipn (a + b) l = skipn b (skipn a l).
Proof.
  induction a as [|a IH]; intros b l; [reflexivity|].
  destruct l as [|x l]; [simpl; rewrite skipn_nil; reflexivity|].
  simpl. apply IH.
Qed.

Lemma firstn_clip : forall (A : Type) n (l : list A), firstn n l = firstn (Nat.min n (length l)) l.
Proof.
  intros A n l. destruct (Nat.le_ge_cases n (length l)) as [H|H].
  - rewrite Nat.min_l by exact H. reflexivity.
  - rewrite Nat.min_r by exact H. rewrite !firstn_all2; [reflexivity | lia | exact H].
Qed.

(* what the host must end up with *)
Definition stage_ok (d : desc) (mps wlen : N) (pkts : list (list N)) : Prop :=
  concat pkts = firstn (N.to_nat (N.min wlen (nlen d))) d /\
  Forall (fun p => nlen p <= mps) pkts /\
  exists init lastp, pkts = init ++ [lastp] /\
    Forall (fun p => nlen p = mps) init /\ nlen (concat init) < wlen /\
    (nlen lastp < mps \/ nlen (concat pkts) = wlen).

Section Stage.
  Variable d : desc.
  Variables mps wlen : N.
  Hypothesis Hmps : 1 <= mps.
  Hypothesis Hw : 1 <= wlen.
  Hypothesis HL : nlen d < 2048.

  Let resp (sp : N) : response :=
    RData (firstn (N.to_nat (N.min mps (wlen - sp))) (skipn (N.to_nat sp) d)).

  Lemma resp_len : forall sp, sp <= nlen d ->
    nlen (firstn (N.to_nat (N.min mps (wlen - sp))) (skipn (N.to_nat sp) d)) = N.min (N.min mps (wlen - sp)) (nlen d - sp).
  Proof. intros sp H. rewrite nlen_firstn, nlen_skipn. lia. Qed.

  (* the loop from offset sp (sp bytes already received) *)
  Lemma stage_from : forall fuel sp, sp <= nlen d -> sp < wlen -> (N.to_nat (nlen d - sp) < fuel)%nat ->
    exists pkts, data_stage fuel resp mps wlen sp sp = (pkts, false) /\
      concat pkts = firstn (N.to_nat (N.min wlen (nlen d) - sp)) (skipn (N.to_nat sp) d) /\
      Forall (fun p => nlen p <= mps) pkts /\
      exists init lastp, pkts = init ++ [lastp] /\ Forall (fun p => nlen p = mps) init /\
        sp + nlen (concat init) < wlen /\
        (nlen lastp < mps \/ sp + nlen (concat pkts) = wlen).
  Proof.
    induction fuel as [|fuel IH]; intros sp Hsp Hlt Hf; [lia|].
    cbn [data_stage]. unfold resp at 1.
    set (p := firstn (N.to_nat (N.min mps (wlen - sp))) (skipn (N.to_nat sp) d)).
    assert (Hp : nlen p = N.min (N.min mps (wlen - sp)) (nlen d - sp)) by (apply resp_len; exact Hsp).
    destruct ((nlen p <? mps) || (wlen <=? sp + nlen p)) eqn:Estop.
    - (* short packet, or the host has everything it asked for: the stage ends *)
      exists [p]. split; [reflexivity|]. cbn [concat]. rewrite app_nil_r.
      split.
      + assert (Hstop : nlen p < mps \/ wlen <= sp + nlen p) by lia. rewrite Hp in Hstop. clear Estop Hp.
        subst p. rewrite firstn_clip. symmetry. rewrite firstn_clip. symmetry.
        rewrite skipn_length. unfold nlen in *. f_equal. lia.
      + split; [constructor; [lia | constructor]|].
        exists [], p. split; [reflexivity|]. split; [constructor|]. cbn [concat]. change (nlen (@nil N)) with 0. lia.
    - (* a full packet and more to come *)
      assert (Hfull : nlen p = mps) by lia.
      assert (Hnext : sp_next mps sp = sp + mps) by (unfold sp_next; apply N.mod_small; lia).
      rewrite Hnext, Hfull.
      destruct (IH (sp + mps)) as (pk & E & Hc & Hall & init & lastp & Epk & Hinit & Hbelow & Hlast); try lia.
      rewrite E. exists (p :: pk). split; [reflexivity|]. split; [|split].
      + cbn [concat]. rewrite Hc. subst p.
        replace (N.to_nat (N.min mps (wlen - sp))) with (N.to_nat mps) by lia.
        replace (N.to_nat (sp + mps)) with (N.to_nat sp + N.to_nat mps)%nat by lia.
        rewrite skipn_plus, <- firstn_plus. f_equal. lia.
      + constructor; [lia | exact Hall].
      + exists (p :: init), lastp. split; [rewrite Epk; reflexivity|].
        split; [constructor; assumption|].
        cbn [concat]. rewrite !nlen_app, Hfull. lia.
  Qed.

  Theorem data_stage_present :
    exists pkts, data_stage (S (length d)) resp mps wlen 0 0 = (pkts, false) /\ stage_ok d mps wlen pkts.
  Proof.
    destruct (stage_from (S (length d)) 0) as (pk & E & Hc & Hall & init & lastp & Epk & Hinit & Hbelow & Hlast);
      try (unfold nlen; lia).
    exists pk. split; [exact E|]. unfold stage_ok. split; [|split].
    - rewrite Hc. cbn [skipn N.to_nat]. rewrite N.sub_0_r. reflexivity.
    - exact Hall.
    - exists init, lastp. split; [exact Epk|]. split; [exact Hinit|]. lia.
  Qed.

  (* every start position the host makes the device use is below wLength and within the descriptor *)
  Lemma offsets_legal : forall fuel sp, sp <= nlen d -> sp < wlen ->
    Forall (fun o => o < wlen /\ o <= nlen d) (offsets fuel resp mps wlen sp sp).
  Proof.
    induction fuel as [|fuel IH]; intros sp Hsp Hlt; [constructor|].
    cbn [offsets]. constructor; [split; assumption|]. unfold resp at 1.
    set (p := firstn (N.to_nat (N.min mps (wlen - sp))) (skipn (N.to_nat sp) d)).
    assert (Hp : nlen p = N.min (N.min mps (wlen - sp)) (nlen d - sp)) by (apply resp_len; exact Hsp).
    destruct ((nlen p <? mps) || (wlen <=? sp + nlen p)) eqn:Estop; [constructor|].
    assert (Hfull : nlen p = mps) by lia.
    assert (Hnext : sp_next mps sp = sp + mps) by (unfold sp_next; apply N.mod_small; lia).
    rewrite Hnext, Hfull. apply IH; lia.
  Qed.
End Stage.

(* the zero-length-packet rule follows from the shape: the final packet is empty exactly when the total is a
   multiple of the packet size and below wLength *)
Lemma stage_zlp_rule : forall d mps wlen pkts, 1 <= mps -> stage_ok d mps wlen pkts ->
  forall init lastp, pkts = init ++ [lastp] ->
  (lastp = [] <-> nlen (concat pkts) mod mps = 0 /\ nlen (concat pkts) < wlen).
Proof.
  intros d mps wlen pkts Hm (Hc & Hall & init0 & last0 & E0 & Hinit & Hbelow & Hlast) init lastp E.
  assert (init0 = init /\ last0 = lastp) as [-> ->].
  { rewrite E in E0. apply app_inj_tail in E0. destruct E0; split; congruence. }
  assert (Hci : nlen (concat init) = nlen init * mps).
  { clear -Hinit. induction Hinit as [|p l Hp _ IH]; [reflexivity|].
    cbn [concat]. rewrite nlen_app, IH, Hp. unfold nlen. cbn [length]. lia. }
  assert (Htot : nlen (concat pkts) = nlen init * mps + nlen lastp).
  { rewrite E, concat_app, nlen_app. cbn [concat]. rewrite app_nil_r. rewrite Hci. reflexivity. }
  split.
  - intros ->. change (nlen (@nil N)) with 0 in *. rewrite N.add_0_r in Htot.
    split; [rewrite Htot; apply N.mod_mul; lia | lia].
  - intros [Hmod Hlt].
    destruct Hlast as [H|H]; [|lia].
    rewrite Htot in Hmod. rewrite N.add_comm, N.mod_add in Hmod by lia.
    rewrite N.mod_small in Hmod by exact H.
    destruct lastp; [reflexivity | unfold nlen in Hmod; cbn [length] in Hmod; lia].
Qed.

(* the host loop only looks at the responder's answers *)
Lemma data_stage_ext : forall r1 r2 : N -> response, (forall sp, r1 sp = r2 sp) ->
  forall fuel mps wlen sp got, data_stage fuel r1 mps wlen sp got = data_stage fuel r2 mps wlen sp got.
Proof.
  intros r1 r2 H. induction fuel as [|fuel IH]; intros mps wlen sp got; [reflexivity|].
  cbn [data_stage]. rewrite H. destruct (r2 sp) as [|p]; [reflexivity|].
  destruct ((nlen p <? mps) || (wlen <=? got + nlen p)); [reflexivity|]. rewrite IH. reflexivity.
Qed.

Lemma offsets_ext : forall r1 r2 : N -> response, (forall sp, r1 sp = r2 sp) ->
  forall fuel mps wlen sp got, offsets fuel r1 mps wlen sp got = offsets fuel r2 mps wlen sp got.
Proof.
  intros r1 r2 H. induction fuel as [|fuel IH]; intros mps wlen sp got; [reflexivity|].
  cbn [offsets]. rewrite H. destruct (r2 sp) as [|p]; [reflexivity|].
  destruct ((nlen p <? mps) || (wlen <=? got + nlen p)); [reflexivity|]. rewrite IH. reflexivity.
Qed.

Lemma respond_present : forall c mps value wlen d, find_desc c (v_type value) (v_index value) = Some d ->
  forall sp, respond c mps value wlen sp = RData (firstn (N.to_nat (N.min mps (wlen - sp))) (skipn (N.to_nat sp) d)).
Proof. intros c mps value wlen d H sp. unfold respond. rewrite H. reflexivity. Qed.

Theorem data_stage_respond : forall c mps value wlen d,
  find_desc c (v_type value) (v_index value) = Some d -> 1 <= mps -> 1 <= wlen -> nlen d < 2048 ->
  exists pkts, data_stage (S (length d)) (respond c mps value wlen) mps wlen 0 0 = (pkts, false) /\ stage_ok d mps wlen pkts.
Proof.
  intros c mps value wlen d Hf Hm Hw HL.
  destruct (data_stage_present d mps wlen Hm Hw HL) as (pk & E & Hok). exists pk. split; [|exact Hok].
  rewrite <- E. apply data_stage_ext. apply respond_present. exact Hf.
Qed.

Theorem offsets_respond_legal : forall c mps value wlen d fuel,
  find_desc c (v_type value) (v_index value) = Some d -> 1 <= mps -> 1 <= wlen -> nlen d < 2048 ->
  Forall (fun o => o < wlen /\ o <= nlen d) (offsets fuel (respond c mps value wlen) mps wlen 0 0).
Proof.
  intros c mps value wlen d fuel Hf Hm Hw HL.
  rewrite (offsets_ext _ _ (respond_present c mps value wlen d Hf)).
  apply (offsets_legal d mps wlen Hm Hw HL); lia.
Qed.
