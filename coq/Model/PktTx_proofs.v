(* C39 -- proofs about Model/PktTx.v: the PacketTransmitter bookkeeping model satisfies the specification tp_mon
   on every input trace (simulation relation PInv between the ring-pointer model and the list-based specification,
   preserved by every step in which the environment assumptions hold; induction over the trace). *)
From Coq Require Import NArith ZArith List Bool Lia ZifyBool ZifyN.
Import ListNotations.
From LunaLib Require Import Netlist Bits Machine ListMem PackN.
From LunaModel Require Import Crc HdrRx HdrRx_proofs PktTx.
Open Scope N_scope.
Ltac Zify.zify_post_hook ::= idtac.
Unset Lia Cache.

(* lia chokes on many boolean implications in the context (ZifyBool case-splits on them): instantiate the ones whose
   premise is known, drop the others *)
Ltac use_facts :=
  repeat match goal with
  | H : true = true -> _ |- _ => specialize (H eq_refl)
  | H : false = false -> _ |- _ => specialize (H eq_refl)
  | H : false = true -> _ |- _ => clear H
  | H : true = false -> _ |- _ => clear H
  | H : ?b = true -> _, E : ?b = true |- _ => specialize (H E)
  | H : ?b = false -> _, E : ?b = false |- _ => specialize (H E)
  end.
Ltac clear_imps :=
  repeat match goal with
  | H : (_ = true) -> _ |- _ => clear H
  | H : (_ = false) -> _ |- _ => clear H
  | H : forall k : nat, _ |- _ => clear H
  end.
Ltac keep_arith :=
  repeat match goal with
  | H : ?T |- _ =>
      lazymatch T with
      | context [updown] => clear H | context [N.pow] => clear H | context [N.modulo] => clear H
      | (_ < _)%N => fail | (_ <= _)%N => fail | @eq N _ _ => fail
      | (_ < _)%nat => fail | (_ <= _)%nat => fail | @eq nat _ _ => fail
      | _ /\ _ => fail | ~ _ => fail
      | _ => clear H
      end
  end.
Ltac flia := use_facts; clear_imps; keep_arith; lia.

Lemma bits_setbits_same : forall x lo w v, bits (setbits x lo w v) lo w = v mod 2 ^ w.
Proof.
  intros. unfold bits, setbits, trunc. rewrite <- (N.land_ones v w).
  apply N.bits_inj. intro k.
  rewrite !N.land_spec, N.shiftr_spec', N.lor_spec, N.ldiff_spec.
  destruct (N.ltb_spec k w) as [Hk|Hk].
  - rewrite (N.ones_spec_low w k Hk), andb_true_r.
    rewrite !N.shiftl_spec_high' by lia. replace (k + lo - lo) with k by lia.
    rewrite N.land_spec, (N.ones_spec_low w k Hk). cbn [negb]. rewrite andb_false_r, andb_true_r. reflexivity.
  - rewrite (N.ones_spec_high w k Hk), !andb_false_r. reflexivity.
Qed.

Lemma seq_of_stamp : forall sp h q, q < 8 -> seq_of sp (stamp sp h q) = q.
Proof. intros. unfold seq_of, stamp. rewrite bits_setbits_same. apply N.mod_small. exact H. Qed.

Lemma ring_nth : forall n b r cnt k, (k < cnt)%nat ->
  nth k (ring n b r cnt) 0 = nth (N.to_nat ((r + N.of_nat k) mod n)) b 0.
Proof.
  intros. unfold ring.
  rewrite (nth_indep _ 0 (nth (N.to_nat ((r + N.of_nat 0) mod n)) b 0)) by (rewrite map_length, seq_length; exact H).
  rewrite (map_nth (fun j => nth (N.to_nat ((r + N.of_nat j) mod n)) b 0)). rewrite seq_nth by exact H. reflexivity.
Qed.

Section TxSim.
  Variables n pw cw sw T tw sp dp : N.
  Hypothesis Hn : n = 2 ^ pw.
  Hypothesis Hcw : n < 2 ^ cw.
  Hypothesis Hsw : sw <= 3.

  Notation step := (ptx_step n pw cw sw tw sp).
  Notation out := (ptx_out n T dp).

  Lemma tn_pos : 0 < n. Proof. rewrite Hn. apply pow2_gt0. Qed.
  Lemma sw8 : 2 ^ sw <= 8. Proof. change 8 with (2 ^ 3). apply pow2_le. exact Hsw. Qed.

  Definition ctl_ok (s : ptx) (sent : N) : Prop :=
    (x_stale s = true -> x_busy s = true /\ x_retry s = true) /\
    (x_busy s = true -> x_stale s = false -> sent < x_await s) /\
    match x_fsm s with
    | P_DISPATCH => x_busy s = false
    | P_SEND => (x_busy s = true -> x_retry s = true -> x_stale s = true) /\
                (x_busy s = false -> x_retry s = true \/ sent < x_await s)
    | P_RETRY => x_retry s = true /\ sent < x_await s
    end.

  Definition PInv (s : ptx) (g : tp_state) : Prop :=
    t_up g = x_up s /\
    t_cred g = x_cred s /\ x_cred s + x_await s <= n /\
    t_nextcred g = x_ncred s /\ x_ncred s < n /\
    t_seq g = x_tseq s /\ x_tseq s < 2 ^ sw /\
    length (x_bufs s) = N.to_nat n /\ x_ak s < n /\ x_wr s = (x_ak s + x_await s) mod n /\
    t_unacked g = ring n (x_bufs s) (x_ak s) (N.to_nat (x_await s)) /\
    t_sent g <= x_await s /\ x_rd s = (x_ak s + t_sent g) mod n /\ x_tosend s = x_await s - t_sent g /\
    t_dl g = x_retry s /\ t_fly g = x_busy s /\ t_stale g = x_stale s /\
    x_nack s < 2 ^ sw /\
    (x_up s = false -> x_await s = 0) /\
    (x_up s = true -> x_tseq s = (x_nack s + x_await s) mod 2 ^ sw) /\
    (forall k, (k < N.to_nat (x_await s))%nat ->
       seq_of sp (nth k (t_unacked g) 0) = (x_nack s + N.of_nat k) mod 2 ^ sw) /\
    ctl_ok s (t_sent g).

  Ltac pinv_split HI :=
    destruct HI as (Hup & Hcr & Hcra & Hnc & Hncl & Hsq & Hsql & Hlen & Hak & Hwr & Hun & Hsn & Hrd & Hts &
                    Hdl & Hfly & Hst & Hnal & Hnup & Htq & Hseqs & Hctl).

  Lemma pidx_small : forall x, x < n -> pidx n x = N.to_nat x.
  Proof. intros. unfold pidx. f_equal. lia. Qed.

  Lemma unacked_len : forall s g, PInv s g -> N.of_nat (length (t_unacked g)) = x_await s.
  Proof. intros s g HI. pinv_split HI. rewrite Hun, ring_length. lia. Qed.

  (* the retirement conditions of model and specification coincide *)
  Lemma retire_eq : forall s g i, PInv s g -> tp_retire sp g i = m_retire s i.
  Proof.
    intros s g i HI. pose proof (unacked_len s g HI) as Hlenu. pinv_split HI.
    unfold tp_retire, m_retire, is_cmd39, cmd_is. rewrite Hup.
    destruct (p_new i && (p_cmd i =? LGOOD)); [|reflexivity]. destruct (x_up s) eqn:Eu; [|reflexivity]. cbn [andb].
    destruct (x_await s =? 0) eqn:Ea.
    - apply N.eqb_eq in Ea. rewrite Ea in Hun. cbn in Hun. rewrite Hun. rewrite andb_false_r. reflexivity.
    - apply N.eqb_neq in Ea. cbn [negb]. rewrite andb_true_r.
      assert (H0 : (0 < N.to_nat (x_await s))%nat) by lia.
      specialize (Hseqs 0%nat H0). rewrite N.add_0_r, (N.mod_small (x_nack s)) in Hseqs by exact Hnal.
      destruct (t_unacked g) as [|h t] eqn:Eun; [cbn in Hlenu; clear_imps; lia|]. cbn [nth] in Hseqs. rewrite Hseqs.
      apply N.eqb_sym.
  Qed.

  Lemma lcrd_eq : forall s g i, PInv s g -> tp_lcrd_ok g i = m_lcrd_ok s i.
  Proof.
    intros s g i HI. pinv_split HI. unfold tp_lcrd_ok, m_lcrd_ok, is_cmd39, cmd_is. rewrite Hnc, (N.eqb_sym (p_sub i) (x_ncred s)). reflexivity.
  Qed.

  Lemma mismatch_eq : forall s g i, PInv s g -> tp_mismatch sp g i = m_recov_cmd s i.
  Proof.
    intros s g i HI. pose proof (retire_eq s g i HI) as Hr. pinv_split HI.
    unfold tp_mismatch, m_recov_cmd. rewrite Hr. unfold m_retire, is_cmd39, cmd_is. rewrite Hnc, Hup, (N.eqb_sym (p_sub i) (x_ncred s)).
    destruct (p_new i && (p_cmd i =? LCRD) && negb (x_ncred s =? p_sub i)), (p_new i && (p_cmd i =? LGOOD)), (x_up s); cbn [andb orb negb]; reflexivity.
  Qed.

  Lemma inv_check39 : forall s g i, PInv s g -> tp_check sp dp g i (out s i) = true.
  Proof.
    intros s g i HI. pose proof (mismatch_eq s g i HI) as Hmm. pose proof (unacked_len s g HI) as Hlenu.
    pose proof tn_pos as Hn0. pinv_split HI.
    unfold tp_check, tp_start, ptx_out. cbn [q_ready q_gen q_hdr q_start q_done q_retry_req q_retry_rx q_recov q_up q_cred q_tosend].
    rewrite Hmm, Hup, Hcr, Hfly, Hlenu, Hts, Hdl.
    repeat (apply andb_true_iff; split).
    - unfold m_ready. destruct (x_up s); [|reflexivity]. cbn [andb].
      destruct (x_cred s =? 0) eqn:E; [apply N.eqb_eq in E; rewrite E; reflexivity|].
      apply N.eqb_neq in E. assert (H : 0 <? x_cred s = true) by (apply N.ltb_lt; lia). rewrite H. reflexivity.
    - unfold m_gen, m_hdr. destruct Hctl as (Hc1 & Hc2 & Hc3).
      destruct (x_fsm s) eqn:Ef; cbn [andb]; [reflexivity | |].
      + destruct (x_retry s) eqn:Er; cbn [negb andb]; [reflexivity|].
        destruct (x_busy s) eqn:Eb; cbn [negb]; [reflexivity|].
        destruct Hc3 as [_ Hc3]. destruct (Hc3 eq_refl) as [Hc|Hc]; [discriminate Hc|].
        assert (Hlt : t_sent g <? x_await s = true) by (apply N.ltb_lt; exact Hc). rewrite Hlt. cbn [andb].
        rewrite Hun, ring_nth by lia. rewrite N2Nat.id, <- Hrd.
        rewrite pidx_small by (rewrite Hrd; apply N.mod_lt; lia). apply N.eqb_refl.
      + destruct Hc3 as [Hc3 Hc]. rewrite Hc3.
        destruct (negb (p_lrty i) && negb (x_busy s)); [|reflexivity].
        assert (Hlt : t_sent g <? x_await s = true) by (apply N.ltb_lt; exact Hc). rewrite Hlt. cbn [andb].
        rewrite Hun, ring_nth by lia. rewrite N2Nat.id, <- Hrd.
        rewrite pidx_small by (rewrite Hrd; apply N.mod_lt; lia). apply N.eqb_refl.
    - unfold tp_lbad, m_lbad, is_cmd39, cmd_is. apply eqb_reflx.
    - unfold is_cmd39, cmd_is. apply eqb_reflx.
    - destruct (m_recov_cmd s i); reflexivity.
    - apply eqb_reflx.
    - apply N.eqb_refl.
    - apply N.eqb_refl.
  Qed.

  Lemma cmd_excl : forall i a b, a <> b -> cmd_is i a = true -> cmd_is i b = false.
  Proof.
    intros i a b Hab H. unfold cmd_is in *. apply andb_true_iff in H as [H1 H2]. rewrite H1. cbn [andb].
    apply N.eqb_eq in H2. apply N.eqb_neq. congruence.
  Qed.

  Lemma inc_pw39 : forall x, inc pw x = (x + 1) mod n.
  Proof. intros. unfold inc. rewrite Hn. reflexivity. Qed.

  Lemma inv_step39_up : forall s g i, PInv s g -> p_en i = true -> tp_env n sp g i = true ->
    PInv (step s i) (tp_next n sw sp g i (out s i)).
  Proof.
    intros s g i HI Hen Henv.
    pose proof (retire_eq s g i HI) as Hre. pose proof (lcrd_eq s g i HI) as Hle.
    pose proof (unacked_len s g HI) as Hlenu. pose proof tn_pos as Hn0. pose proof sw8 as Hsw8.
    pinv_split HI. destruct Hctl as (Hc1 & Hc2 & Hc3).
    unfold tp_env in Henv. rewrite Hre, Hle, Hlenu, Hcr in Henv.
    apply andb_true_iff in Henv as [Henv E2]. apply andb_true_iff in Henv as [_ E3].
    set (take := m_take s i). set (ret := m_retire s i) in *. set (lc := m_lcrd_ok s i) in *.
    set (lbad := m_lbad i). set (dn := m_done s i). set (deq := m_deq s i). set (bup := m_bringup s i).
    (* facts about the events of this cycle *)
    assert (Ftake : take = true -> x_up s = true /\ 1 <= x_cred s).
    { intro H. unfold take, m_take, m_ready in H. apply andb_true_iff in H as [_ H]. apply andb_true_iff in H as [H1 H2].
      apply negb_true_iff, N.eqb_neq in H2. split; [exact H1 | lia]. }
    assert (Fret : ret = true -> x_up s = true /\ 1 <= x_await s /\ 0 < t_sent g /\ cmd_is i LGOOD = true).
    { intro H. rewrite H in E2. cbn [negb orb] in E2. apply N.ltb_lt in E2.
      unfold ret, m_retire in H. apply andb_true_iff in H as [H H4]. apply andb_true_iff in H as [H H3].
      apply andb_true_iff in H as [H1 H2]. apply negb_true_iff, N.eqb_neq in H4. repeat split; try assumption; lia. }
    assert (Flc : lc = true -> x_cred s + x_await s < n /\ cmd_is i LCRD = true).
    { intro H. rewrite H in E3. cbn [negb orb] in E3. apply N.ltb_lt in E3.
      unfold lc, m_lcrd_ok in H. apply andb_true_iff in H as [H1 _]. auto. }
    assert (Fbup : bup = true -> x_up s = false /\ cmd_is i LGOOD = true).
    { intro H. unfold bup, m_bringup in H. apply andb_true_iff in H as [H1 H2]. apply negb_true_iff in H2. auto. }
    assert (Xlb_ret : lbad = true -> ret = false).
    { intro H. destruct ret eqn:E; [|reflexivity]. destruct (Fret eq_refl) as (_ & _ & _ & Hc).
      unfold lbad, m_lbad in H. rewrite (cmd_excl i LGOOD LBAD ltac:(discriminate) Hc) in H. discriminate H. }
    assert (Xlc_ret : lc = true -> ret = false).
    { intro H. destruct ret eqn:E; [|reflexivity]. destruct (Fret eq_refl) as (_ & _ & _ & Hc).
      destruct (Flc H) as [_ Hc']. rewrite (cmd_excl i LGOOD LCRD ltac:(discriminate) Hc) in Hc'. discriminate Hc'. }
    assert (Xbup_ret : bup = true -> ret = false /\ take = false).
    { intro H. destruct (Fbup H) as [Hu _]. split.
      - destruct ret eqn:E; [|reflexivity]. destruct (Fret eq_refl) as (Hu' & _). congruence.
      - destruct take eqn:E; [|reflexivity]. destruct (Ftake eq_refl) as (Hu' & _). congruence. }
    assert (Fdn : dn = true -> x_busy s = true).
    { intro H. unfold dn, m_done in H. apply andb_true_iff in H as [H _]. exact H. }
    assert (Fdeq : lbad = false -> deq = dn && negb (x_stale s)).
    { intro Hl. unfold deq, m_deq. fold dn. fold lbad. rewrite Hl. destruct (x_fsm s) eqn:Ef.
      - destruct dn eqn:Ed; [|reflexivity]. rewrite (Fdn eq_refl) in Hc3. discriminate Hc3.
      - destruct dn eqn:Ed; [|reflexivity]. cbn [andb]. specialize (Fdn eq_refl). destruct Hc3 as [Hc3 _].
        destruct (x_retry s) eqn:Er, (x_stale s) eqn:Es; try reflexivity.
        + specialize (Hc3 Fdn eq_refl). discriminate Hc3.
        + destruct (Hc1 eq_refl) as [_ H]. discriminate H.
      - cbn [negb]. rewrite andb_true_r. reflexivity. }
    assert (Fcnt : dn = true -> x_stale s = false -> t_sent g < x_await s).
    { intros H1 H2. apply Hc2; [apply Fdn; exact H1 | exact H2]. }
    (* closed forms of the counters *)
    assert (Ecred : updown cw (x_cred s) lc take = x_cred s + b2n lc - b2n take).
    { apply updown_val; [lia | intros H _; destruct (Flc H); lia | intros H _; destruct (Ftake H); lia]. }
    assert (Eawait : updown cw (x_await s) take ret = x_await s + b2n take - b2n ret).
    { apply updown_val; [lia | intros H _; destruct (Ftake H); lia | intros H _; destruct (Fret H) as (_ & ? & _); lia]. }
    assert (Etosend : lbad = false -> updown cw (x_tosend s) take deq = x_tosend s + b2n take - b2n deq).
    { intro Hl. rewrite Hts. apply updown_val; [lia | intros H _; destruct (Ftake H); lia |].
      intros H _. rewrite (Fdeq Hl) in H. apply andb_true_iff in H as [H1 H2]. apply negb_true_iff in H2.
      specialize (Fcnt H1 H2). lia. }
    assert (Etosend_lbad : (x_await s + b2n take) mod 2 ^ cw = x_await s + b2n take).
    { apply N.mod_small. destruct take eqn:Et; cbn [b2n]; [destruct (Ftake eq_refl)|]; lia. }
    unfold tp_next. cbv zeta. rewrite Hen. cbn [negb].
    change (tp_take g i (out s i)) with take. change (q_done (out s i)) with dn. unfold tp_start. change (q_gen (out s i)) with (m_gen s i).
    change (tp_lbad i) with lbad. change (is_cmd39 i LGOOD) with (cmd_is i LGOOD).
    rewrite Hre, Hle, Hst, Hfly, Hdl, Hlenu, Hup, Hcr, Hnc, Hsq. fold ret lc.
    change (m_gen s i && negb (x_busy s)) with (m_start s i).
    unfold ptx_step. fold take ret lc lbad dn deq bup. rewrite Hen. rewrite Ecred, Eawait.
    unfold PInv.
    cbn [t_up t_cred t_nextcred t_seq t_unacked t_sent t_dl t_fly t_stale
         x_cred x_tosend x_await x_rd x_wr x_ak x_bufs x_tseq x_retry x_up x_ncred x_nack x_timer x_fsm x_busy x_stale].
    assert (G1 : x_up s || cmd_is i LGOOD = x_up s || bup) by (unfold bup, m_bringup; destruct (x_up s), (cmd_is i LGOOD); reflexivity).
    repeat match goal with |- _ /\ _ => split end.
    - (* 1 up *) exact G1.
    - (* 2 cred *) reflexivity.
    - (* 3 credits never exceed the partner's buffers *)
      destruct lc eqn:El, take eqn:Et, ret eqn:Er; cbn [b2n]; flia.
    - (* 4 *) rewrite inc_pw39. reflexivity.
    - (* 5 *) rewrite inc_pw39. pose proof (N.mod_lt (x_ncred s + 1) n) as Hm. clear - Hm Hncl Hn0. destruct lc; lia.
    - (* 6 seq *) reflexivity.
    - (* 7 *) pose proof (N.mod_lt (p_sub i + 1) (2 ^ sw)) as Hm. pose proof (inc_lt sw (x_tseq s)) as Hi. pose proof (pow2_gt0 sw) as Hp.
      clear - Hm Hi Hp Hsql. destruct bup; [lia|]. destruct take; lia.
    - (* 8 *) destruct take; [rewrite upd_length|]; exact Hlen.
    - (* 9 *) rewrite inc_pw39. pose proof (N.mod_lt (x_ak s + 1) n) as Hm. clear - Hm Hak Hn0. destruct ret; lia.
    - (* 10 write pointer *)
      rewrite !inc_pw39, Hwr.
      destruct take eqn:Et, ret eqn:Er; cbn [b2n]; use_facts; clear_imps.
      + rewrite !N.add_mod_idemp_l by flia. f_equal. flia.
      + rewrite !N.add_mod_idemp_l by flia. f_equal. flia.
      + rewrite !N.add_mod_idemp_l by flia. f_equal. flia.
      + f_equal. flia.
    - (* 11 the list of unacknowledged headers *)
      assert (Hwrn : x_wr s < n) by (rewrite Hwr; apply N.mod_lt; flia).
      rewrite Hun, inc_pw39, (pidx_small (x_wr s) Hwrn), Hwr. symmetry.
      set (v := stamp sp (p_qhdr i) (x_tseq s)).
      destruct take eqn:Et, ret eqn:Er; cbn [b2n]; use_facts; clear_imps.
      + destruct (N.to_nat (x_await s)) as [|k] eqn:Ek; [flia|].
        replace (N.to_nat (x_await s + 1 - 1)) with (S k) by flia.
        rewrite (ring_head n Hn0 (x_bufs s)). cbn [tl].
        rewrite (ring_snoc n). f_equal.
        * replace (x_await s) with (N.of_nat k + 1) by flia.
          replace ((x_ak s + (N.of_nat k + 1)) mod n) with (((x_ak s + 1) mod n + N.of_nat k) mod n)
            by (rewrite N.add_mod_idemp_l by flia; f_equal; flia).
          apply ring_upd_out; flia.
        * f_equal. rewrite N.add_mod_idemp_l by flia.
          replace (x_ak s + 1 + N.of_nat k) with (x_ak s + x_await s) by flia.
          apply nth_upd_same. pose proof (N.mod_lt (x_ak s + x_await s) n) as Hm. clear - Hm Hlen Hn0. lia.
      + replace (N.to_nat (x_await s + 1 - 0)) with (S (N.to_nat (x_await s))) by flia.
        replace (x_await s) with (N.of_nat (N.to_nat (x_await s))) at 1 by flia.
        apply ring_push; flia.
      + destruct (N.to_nat (x_await s)) as [|k] eqn:Ek; [flia|].
        replace (N.to_nat (x_await s + 0 - 1)) with k by flia.
        rewrite (ring_head n Hn0). cbn [tl]. rewrite app_nil_r. reflexivity.
      + replace (x_await s + 0 - 0) with (x_await s) by flia. rewrite app_nil_r. reflexivity.
    - (* 12 sent <= await *)
      destruct lbad eqn:Elb; [flia|]. rewrite andb_true_r.
      destruct dn eqn:Ed, (x_stale s) eqn:Es, take eqn:Et, ret eqn:Er; cbn [b2n andb negb]; flia.
    - (* 13 read pointer *)
      rewrite !inc_pw39, Hrd.
      destruct lbad eqn:Elb.
      + rewrite (Xlb_ret eq_refl), N.add_0_r. symmetry. apply N.mod_small. exact Hak.
      + rewrite (Fdeq eq_refl), andb_true_r.
        destruct dn eqn:Ed, (x_stale s) eqn:Es, ret eqn:Er; cbn [b2n andb negb]; use_facts; clear_imps;
          try (rewrite !N.add_mod_idemp_l by flia); f_equal; flia.
    - (* 14 packets to send *)
      destruct lbad eqn:Elb.
      + rewrite Etosend_lbad, (Xlb_ret eq_refl). cbn [b2n]. flia.
      + rewrite (Etosend eq_refl), (Fdeq eq_refl), andb_true_r, Hts.
        destruct dn eqn:Ed, (x_stale s) eqn:Es, take eqn:Et, ret eqn:Er; cbn [b2n andb negb]; flia.
    - (* 15 retry mode *)
      destruct lbad eqn:Elb.
      + destruct (x_fsm s) eqn:Ef; try reflexivity.
        unfold deq, m_deq. rewrite Ef. fold lbad. rewrite Elb. cbn [negb]. rewrite !andb_false_r. reflexivity.
      + rewrite andb_true_r. rewrite <- (Fdeq eq_refl).
        destruct (x_fsm s) eqn:Ef.
        * assert (deq = false) by (unfold deq, m_deq; rewrite Ef; reflexivity). rewrite H. reflexivity.
        * destruct deq eqn:Ed; [|reflexivity].
          unfold deq, m_deq in Ed. rewrite Ef in Ed. apply andb_true_iff in Ed as [_ Ed]. apply negb_true_iff in Ed.
          rewrite Ed. reflexivity.
        * destruct Hc3 as [Hr Hlt]. rewrite Hr. rewrite Hts.
          destruct deq; [|reflexivity]. cbn [andb].
          destruct (t_sent g + 1 =? x_await s) eqn:Eq1, (x_await s - t_sent g =? 1) eqn:Eq2; try reflexivity.
          -- apply N.eqb_eq in Eq1. apply N.eqb_neq in Eq2. clear_imps. flia.
          -- apply N.eqb_neq in Eq1. apply N.eqb_eq in Eq2. clear_imps. flia.
    - (* 16 *) unfold m_start. destruct dn, (x_busy s), (m_gen s i); reflexivity.
    - (* 17 *) unfold m_start. destruct dn, (x_stale s), lbad, (x_busy s), (m_gen s i); reflexivity.
    - (* 18 *) pose proof (N.mod_lt (p_sub i + 1) (2 ^ sw)) as Hm. pose proof (inc_lt sw (x_nack s)) as Hi. pose proof (pow2_gt0 sw) as Hp.
      clear - Hm Hi Hp Hnal. destruct bup; [lia|]. destruct ret; lia.
    - (* 19 *) intro H. apply orb_false_iff in H as [Hu Hb]. specialize (Hnup Hu).
      destruct take eqn:Et; [destruct (Ftake eq_refl); congruence|].
      destruct ret eqn:Er; [destruct (Fret eq_refl) as (? & _); congruence|]. cbn [b2n]. clear_imps. flia.
    - (* 20 next sequence number = expected ack + outstanding *)
      intro H. destruct bup eqn:Eb.
      + destruct (Xbup_ret eq_refl) as [-> ->]. destruct (Fbup eq_refl) as [Hu _]. rewrite (Hnup Hu). cbn [b2n].
        change (0 + 0 - 0) with 0. rewrite N.add_0_r. symmetry. apply N.mod_small. apply N.mod_lt. pose proof (pow2_gt0 sw) as Hp. clear - Hp. lia.
      + rewrite orb_false_r in H. specialize (Htq H). pose proof (pow2_gt0 sw) as Hp. unfold inc. rewrite Htq.
        destruct take eqn:Et, ret eqn:Er; cbn [b2n]; use_facts; clear_imps.
        * rewrite !N.add_mod_idemp_l by (clear - Hp; lia). f_equal. flia.
        * rewrite !N.add_mod_idemp_l by (clear - Hp; lia). f_equal. flia.
        * rewrite !N.add_mod_idemp_l by (clear - Hp; lia). f_equal. flia.
        * f_equal. flia.
    - (* 21 the sequence numbers of the unacknowledged headers are consecutive *)
      intros k Hk. pose proof (pow2_gt0 sw) as Hp.
      destruct bup eqn:Eb.
      { destruct (Xbup_ret eq_refl) as [Ex1 Ex2]. destruct (Fbup eq_refl) as [Hu _]. specialize (Hnup Hu).
        rewrite Ex1, Ex2 in Hk. cbn [b2n] in Hk. flia. }
      assert (Hlu : length (t_unacked g) = N.to_nat (x_await s)) by (flia).
      set (U0 := if ret then tl (t_unacked g) else t_unacked g).
      assert (Hl0 : length U0 = N.to_nat (x_await s - b2n ret)).
      { unfold U0. destruct ret eqn:Er; cbn [b2n].
        - destruct (t_unacked g); cbn [tl length] in *; flia.
        - flia. }
      destruct (Nat.ltb_spec k (length U0)) as [Hlt|Hge].
      + rewrite app_nth1 by exact Hlt. unfold U0 in *. destruct ret eqn:Er.
        * destruct (t_unacked g) as [|h t] eqn:EU; [cbn [tl length] in Hlt; flia|]. cbn [tl].
          change (nth k t 0) with (nth (S k) (h :: t) 0). rewrite Hseqs by (cbn [tl length] in *; flia).
          unfold inc. rewrite N.add_mod_idemp_l by (clear - Hp; lia). f_equal. flia.
        * apply Hseqs. flia.
      + destruct take eqn:Et.
        2:{ cbn [b2n] in Hk. rewrite Hl0 in Hge. flia. }
        destruct (Ftake eq_refl) as [Hu _]. specialize (Htq Hu).
        rewrite app_nth2 by exact Hge. replace (k - length U0)%nat with 0%nat
          by (rewrite Hl0 in *; cbn [b2n] in Hk; flia).
        cbn [nth]. rewrite seq_of_stamp by (clear - Hsql Hsw8; lia). rewrite Htq.
        assert (Hk' : N.of_nat k = x_await s - b2n ret) by (rewrite Hl0 in *; cbn [b2n] in Hk; flia).
        rewrite Hk'. destruct ret eqn:Er; cbn [b2n].
        * destruct (Fret eq_refl) as (_ & Ha & _). unfold inc. rewrite N.add_mod_idemp_l by (clear - Hp; lia). f_equal. flia.
        * f_equal. flia.
    - (* 22 control *)
      clear Hseqs Hun Hwr Hrd Hlen Htq Hnup E2 E3 Ecred Etosend_lbad Hcra Hncl Hsql Hnal Hak.
      unfold ctl_ok.
      cbn [x_cred x_tosend x_await x_rd x_wr x_ak x_bufs x_tseq x_retry x_up x_ncred x_nack x_timer x_fsm x_busy x_stale].
      assert (Hsr : lbad = false -> t_sent g + b2n (dn && negb (x_stale s) && negb lbad) - b2n ret =
                                    t_sent g + b2n (dn && negb (x_stale s)) - b2n ret)
        by (intro H; rewrite H, andb_true_r; reflexivity).
      assert (Hgen : m_gen s i = match x_fsm s with P_DISPATCH => false | P_SEND => negb (x_retry s)
                                                   | P_RETRY => negb (p_lrty i) end) by reflexivity.
      split; [|split].
      + (* a stale transmission is in flight and we are in retry mode *)
        destruct dn eqn:Ed; [discriminate|]. intro H.
        apply orb_true_iff in H as [H|H].
        * destruct (Hc1 H) as [Hb Hr]. rewrite Hb. split; [reflexivity|].
          assert (Hdq : deq = false).
          { unfold deq, m_deq. fold dn. rewrite Ed. destruct (x_fsm s); reflexivity. }
          rewrite Hdq, Hr. destruct (x_fsm s), lbad; reflexivity.
        * apply andb_true_iff in H as [Hl Hb]. rewrite Hb, Hl. split; [reflexivity|].
          assert (Hdq : deq = false).
          { unfold deq, m_deq. fold dn. rewrite Ed. destruct (x_fsm s); reflexivity. }
          rewrite Hdq. destruct (x_fsm s); reflexivity.
      + (* the header in flight is still unacknowledged *)
        destruct dn eqn:Ed; [discriminate|]. intros Hb Hs.
        destruct lbad eqn:Elb.
        { rewrite Hb in Hs. destruct (x_stale s); discriminate Hs. }
        cbn [andb] in Hs. rewrite orb_false_r in Hs. cbn [andb b2n]. rewrite N.add_0_r.
        assert (Hlt : t_sent g < x_await s).
        { destruct (x_busy s) eqn:Eb; [apply Hc2; auto|]. cbn [orb] in Hb. rewrite Hgen in Hb.
          destruct (x_fsm s); [discriminate Hb | | destruct Hc3; assumption].
          apply negb_true_iff in Hb. destruct Hc3 as [_ Hc3]. destruct (Hc3 eq_refl) as [H|H]; [congruence | exact H]. }
        destruct take, ret eqn:Er; cbn [b2n]; flia.
      + (* dispatcher *)
        destruct (x_fsm s) eqn:Ef.
        * (* DISPATCH *)
          assert (Hdn : dn = false) by (unfold dn, m_done; rewrite Hc3; reflexivity).
          rewrite Hdn, Hc3. rewrite Hgen. cbn [orb andb negb b2n].
          destruct (x_up s && negb (x_tosend s =? 0)) eqn:Eg; [|reflexivity].
          apply andb_true_iff in Eg as [_ Eg]. apply negb_true_iff, N.eqb_neq in Eg. rewrite Hts in Eg.
          destruct (x_retry s) eqn:Er.
          -- split; [destruct lbad; reflexivity|].
             destruct lbad eqn:Elb; [rewrite (Xlb_ret eq_refl); destruct take; cbn [b2n]; flia|].
             destruct take, ret eqn:Err; cbn [b2n]; flia.
          -- split; [intro H; discriminate H|]. intros _.
             destruct lbad eqn:Elb; [left; reflexivity|]. right.
             destruct take, ret eqn:Err; cbn [b2n]; flia.
        * (* SEND *)
          destruct Hc3 as [Hs1 Hs2]. rewrite Hgen.
          destruct dn eqn:Ed; [reflexivity|].
          destruct (x_busy s) eqn:Eb, (x_retry s) eqn:Er; cbn [andb negb orb].
          -- rewrite (Hs1 eq_refl eq_refl). split; [intros; reflexivity | intro H; discriminate H].
          -- split; [|intro H; discriminate H]. intros _ H. destruct lbad; [destruct (x_stale s); reflexivity | discriminate H].
          -- reflexivity.
          -- split; [|intro H; discriminate H]. intros _ H. destruct lbad; [destruct (x_stale s); reflexivity | discriminate H].
        * (* RETRY *)
          destruct Hc3 as [Hr Hlt]. rewrite Hr.
          destruct (deq && (x_tosend s =? 1)) eqn:Eq.
          -- apply andb_true_iff in Eq as [Eq _]. unfold deq, m_deq in Eq. rewrite Ef in Eq.
             apply andb_true_iff in Eq as [Eq _]. apply andb_true_iff in Eq as [Eq _]. fold dn in Eq. rewrite Eq. reflexivity.
          -- split; [destruct lbad; reflexivity|].
             destruct lbad eqn:Elb; [rewrite (Xlb_ret eq_refl); destruct take; cbn [b2n]; flia|].
             rewrite (Hsr eq_refl), <- (Fdeq eq_refl).
             destruct deq eqn:Edq.
             ++ cbn [andb] in Eq. apply N.eqb_neq in Eq. rewrite Hts in Eq.
                destruct take, ret eqn:Err; cbn [b2n]; flia.
             ++ destruct take, ret eqn:Err; cbn [b2n]; flia.
  Qed.

  (* a cycle with the link down (allowed only while the transmitter is quiescent) forgets the session on both sides *)
  Lemma inv_step39_down : forall s g i, PInv s g -> p_en i = false -> tp_quiet g = true ->
    PInv (step s i) (tp_next n sw sp g i (out s i)).
  Proof.
    intros s g i HI Hen Hq. pose proof (unacked_len s g HI) as Hlenu. pose proof tn_pos as Hn0.
    pose proof (pow2_gt0 sw) as Hp.
    pinv_split HI. destruct Hctl as (Hc1 & Hc2 & Hc3).
    unfold tp_quiet in Hq. rewrite Hfly, Hdl, Hlenu in Hq.
    apply andb_true_iff in Hq as [Hq Hq3]. apply andb_true_iff in Hq as [Hq1 Hq2].
    apply negb_true_iff in Hq1. apply negb_true_iff in Hq3. apply N.eqb_eq in Hq2.
    assert (Hst0 : x_stale s = false).
    { destruct (x_stale s) eqn:E; [|reflexivity]. destruct (Hc1 eq_refl) as [H _]. congruence. }
    assert (Hfsm : x_fsm s = P_DISPATCH).
    { destruct (x_fsm s); [reflexivity | |].
      - destruct Hc3 as [_ H]. destruct (H Hq1) as [H'|H']; [congruence | clear - H' Hq2; lia].
      - destruct Hc3 as [H _]. congruence. }
    assert (Hgen : m_gen s i = false) by (unfold m_gen; rewrite Hfsm; reflexivity).
    assert (Hdn : m_done s i = false) by (unfold m_done; rewrite Hq1; reflexivity).
    assert (Hts0 : x_tosend s = 0) by (clear - Hts Hq2; lia).
    unfold tp_next. cbv zeta. rewrite Hen. cbn [negb].
    change (q_done (out s i)) with (m_done s i). unfold tp_start. change (q_gen (out s i)) with (m_gen s i).
    change (tp_take g i (out s i)) with (m_take s i). change (is_cmd39 i LGOOD) with (cmd_is i LGOOD).
    change (tp_lbad i) with (m_lbad i).
    rewrite Hup, Hsq, Hfly, Hst, Hdn, Hgen, Hq1, Hst0.
    unfold ptx_step. cbv zeta. rewrite Hen, Hdn, Hgen, Hq1, Hst0, Hfsm, Hts0.
    unfold PInv, ctl_ok.
    cbn [t_up t_cred t_nextcred t_seq t_unacked t_sent t_dl t_fly t_stale andb orb negb
         x_cred x_tosend x_await x_rd x_wr x_ak x_bufs x_tseq x_retry x_up x_ncred x_nack x_timer x_fsm x_busy x_stale].
    rewrite andb_false_r. change (0 =? 0) with true. rewrite andb_false_r.
    repeat match goal with |- _ /\ _ => split end;
      try reflexivity; try discriminate; try (clear - Hn0; lia); try (intros; discriminate).
    - pose proof (N.mod_lt (p_sub i + 1) (2 ^ sw)) as Hm. pose proof (inc_lt sw (x_tseq s)) as Hi.
      clear - Hm Hi Hp Hsql. unfold m_bringup. destruct (cmd_is i LGOOD && negb (x_up s)); [lia|]. destruct (m_take s i); lia.
    - destruct (m_take s i); [rewrite upd_length|]; exact Hlen.
    - pose proof (N.mod_lt (p_sub i + 1) (2 ^ sw)) as Hm. pose proof (inc_lt sw (x_nack s)) as Hi.
      clear - Hm Hi Hp Hnal. destruct (m_bringup s i); [lia|]. destruct (m_retire s i); lia.
  Qed.

  Lemma inv_step39 : forall s g i, PInv s g -> tp_env n sp g i = true ->
    PInv (step s i) (tp_next n sw sp g i (out s i)).
  Proof.
    intros s g i HI Henv. destruct (p_en i) eqn:Hen.
    - apply inv_step39_up; assumption.
    - apply inv_step39_down; [assumption | assumption |].
      unfold tp_env in Henv. rewrite Hen in Henv. cbn [orb] in Henv.
      apply andb_true_iff in Henv as [Henv _]. apply andb_true_iff in Henv as [Henv _]. exact Henv.
  Qed.

  Lemma pinv_init : PInv (ptx_init n sw) tp_init.
  Proof.
    pose proof tn_pos as Hn0. pose proof (pow2_gt0 sw) as Hp.
    unfold PInv, ptx_init, tp_init, ctl_ok.
    cbn [t_up t_cred t_nextcred t_seq t_unacked t_sent t_dl t_fly t_stale
         x_cred x_tosend x_await x_rd x_wr x_ak x_bufs x_tseq x_retry x_up x_ncred x_nack x_timer x_fsm x_busy x_stale].
    repeat match goal with |- _ /\ _ => split end; try reflexivity; try lia; try discriminate.
    all: try apply repeat_length; try apply dec_lt; try (intros k Hk; cbn in Hk; lia).
  Qed.

  Theorem ptx_refines : forall ins s g, PInv s g ->
    tp_accepts n sw sp dp g (ptx_ios n pw cw sw T tw sp dp s ins) = true.
  Proof.
    induction ins as [|i t IH]; intros s g HI; [reflexivity|].
    cbn [ptx_ios tp_accepts]. unfold tp_mon. destruct (tp_env n sp g i) eqn:He; [|reflexivity].
    rewrite (inv_check39 s g i HI). cbn [andb]. apply IH. apply inv_step39; assumption.
  Qed.

  Corollary ptx_meets_spec : forall ins,
    tp_accepts n sw sp dp tp_init (ptx_ios n pw cw sw T tw sp dp (ptx_init n sw) ins) = true.
  Proof. intro ins. apply ptx_refines, pinv_init. Qed.
End TxSim.

(* packed runs of the bookkeeping model = packing of its typed input / output pairs *)
Lemma ptx_mrun : forall n pw cw sw T tw sp dp hh tr s,
  run (ptx_mstep n pw cw sw T tw sp dp hh) s tr =
  map (fun io => pack_pout hh cw (snd io)) (ptx_ios n pw cw sw T tw sp dp s (map (pin_of hh) tr)).
Proof.
  induction tr as [|x t IH]; intro s; [reflexivity|].
  cbn [run map ptx_ios]. unfold ptx_mstep at 1. cbn [snd]. rewrite IH. reflexivity.
Qed.
