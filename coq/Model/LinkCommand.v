(* C35 -- hand models of luna/gateware/usb/usb3/link/command.py: LinkCommandGenerator and LinkCommandDetector,
   of the CRC-5 of luna/gateware/usb/usb3/link/crc.py (compute_usb_crc5), and the bit-serial CRC-5 reference.
   Data words are N (32 bits, symbol 0 = bits 7..0), ctrl words are N (4 bits). *)
From Coq Require Import NArith List Bool.
Import ListNotations.
From LunaLib Require Import Netlist Machine SymWord.
Open Scope N_scope.

(* ---------------------------------------------------------------------------------------- *)
(* CRC-5 over the 11 protected bits of a link command word                                   *)

(* as coded: every output bit is a XOR of selected input bits (xor_bits index i = bit 10-i), bit 1 inverted *)
Definition xbits (x : N) (l : list N) : bool := fold_right (fun k acc => xorb (N.testbit x k) acc) false l.
Definition crc5_par (x : N) : N :=
  b2n (xbits x [0; 1; 2; 5; 6; 8])
  + 2 * b2n (negb (xbits x [0; 1; 2; 3; 6; 7; 9]))
  + 4 * b2n (xbits x [0; 1; 2; 3; 4; 7; 8; 10])
  + 8 * b2n (xbits x [0; 3; 4; 6; 9])
  + 16 * b2n (xbits x [0; 1; 4; 5; 7; 10]).

(* reference: bit-serial CRC, polynomial x^5 + x^2 + 1, register preset to all ones, message bits 0..10 in
   transmission order (bit 0 first), remainder complemented and sent most significant bit first (= bit-reversed
   into the field) [USB 3.2 section 7.2.2.1 / 7.2.1.1.2 conventions] *)
Definition crc5_shift (r : N) (b : bool) : N :=
  let r' := N.land (N.shiftl r 1) 31 in
  if xorb (N.testbit r 4) b then N.lxor r' 5 else r'.
Definition rev5 (r : N) : N :=
  b2n (N.testbit r 4) + 2 * b2n (N.testbit r 3) + 4 * b2n (N.testbit r 2) + 8 * b2n (N.testbit r 1) + 16 * b2n (N.testbit r 0).
Definition crc5_ser (x : N) : N :=
  rev5 (N.lxor (fold_left crc5_shift (map (N.testbit x) [0; 1; 2; 3; 4; 5; 6; 7; 8; 9; 10]) 31) 31).

(* ---------------------------------------------------------------------------------------- *)
(* wire format                                                                               *)
Definition HDR_SYMS : list N := [SLC; SLC; SLC; EPF].
Definition HDR_DATA : N := 0xF7FEFEFE.      (* = data_of HDR_SYMS *)
Definition HDR_CTRL : N := 15.              (* = ctrl_of HDR_SYMS *)

(* the 16-bit link command word: subtype[0:4], reserved[4:7] = 0, command[7:11] (class = command[2:4],
   type = command[0:2]), crc5[11:16] over bits 0..10 *)
Definition lc_payload (c s : N) : N := s + 128 * c.
Definition lc_word_of (crc : N -> N) (p : N) : N := p + 2048 * crc p.
Definition lc_word (c s : N) : N := lc_word_of crc5_par (lc_payload c s).
Definition lc_data (c s : N) : N := lc_word c s + 65536 * lc_word c s.     (* two identical copies *)

(* ---------------------------------------------------------------------------------------- *)
(* generator                                                                                 *)
Inductive gen_fsm := G_IDLE | G_HEADER | G_COMMAND.
Record gen_state := { gfsm : gen_fsm; lcmd : N; lsub : N }.
Record gen_in := { g_cmd : N; g_sub : N; g_generate : bool; g_ready : bool }.
Record gen_out := { g_valid : bool; g_data : N; g_ctrl : N; g_done : bool }.

Definition gen_init : gen_state := {| gfsm := G_IDLE; lcmd := 0; lsub := 0 |}.
Definition gen_quiet : gen_out := {| g_valid := false; g_data := 0; g_ctrl := 0; g_done := false |}.
Definition gen_hdr : gen_out := {| g_valid := true; g_data := HDR_DATA; g_ctrl := HDR_CTRL; g_done := false |}.
Definition gen_cmdw (c s : N) (done : bool) : gen_out :=
  {| g_valid := true; g_data := lc_data c s; g_ctrl := 0; g_done := done |}.

Definition gen_step (st : gen_state) (i : gen_in) : gen_state * gen_out :=
  match gfsm st with
  | G_IDLE =>
      (if g_generate i then {| gfsm := G_HEADER; lcmd := g_cmd i; lsub := g_sub i |} else st, gen_quiet)
  | G_HEADER =>
      (if g_ready i then {| gfsm := G_COMMAND; lcmd := lcmd st; lsub := lsub st |} else st, gen_hdr)
  | G_COMMAND =>
      (if g_ready i then {| gfsm := G_IDLE; lcmd := lcmd st; lsub := lsub st |} else st,
       gen_cmdw (lcmd st) (lsub st) (g_ready i))
  end.

(* packed: inputs command[4] subtype[4] generate ready; outputs data[32] ctrl[4] valid done *)
Definition gen_din (i : N) : gen_in :=
  {| g_cmd := bits i 0 4; g_sub := bits i 4 4; g_generate := N.testbit i 8; g_ready := N.testbit i 9 |}.
Definition gen_eout (o : gen_out) : N :=
  g_data o + N.shiftl (g_ctrl o) 32 + N.shiftl (b2n (g_valid o)) 36 + N.shiftl (b2n (g_done o)) 37.
Definition gen_mstep (st : gen_state) (i : N) : gen_state * N :=
  let (st', o) := gen_step st (gen_din i) in (st', gen_eout o).
Definition gen_enc (st : gen_state) : N :=
  (match gfsm st with G_IDLE => 0 | G_HEADER => 1 | G_COMMAND => 2 end) + 4 * lcmd st + 64 * lsub st.
Definition gen_dec (m : N) : gen_state :=
  {| gfsm := match m mod 4 with 0 => G_IDLE | 1 => G_HEADER | _ => G_COMMAND end;
     lcmd := (m / 4) mod 16; lsub := m / 64 |}.

(* ---------------------------------------------------------------------------------------- *)
(* detector                                                                                  *)
Inductive det_fsm := D_WAIT | D_PARSE.
Record det_state := { dfsm : det_fsm; dcmd : N; dsub : N; dnew : bool }.
Record det_in := { d_valid : bool; d_data : N; d_ctrl : N }.
Record det_out := { r_cmd : N; r_sub : N; r_new : bool }.

Definition det_init : det_state := {| dfsm := D_WAIT; dcmd := 0; dsub := 0; dnew := false |}.

Definition is_header (i : det_in) : bool := d_valid i && (d_data i =? HDR_DATA) && (d_ctrl i =? HDR_CTRL).

(* PARSE_COMMAND's three checks on a 32+4-bit word *)
Definition lc_lo (data : N) : N := bits data 0 16.
Definition lc_hi (data : N) : N := bits data 16 16.
Definition lc_accepts (data ctrl : N) : bool :=
  (ctrl =? 0) && (lc_lo data =? lc_hi data) && (bits (lc_lo data) 11 5 =? crc5_par (bits (lc_lo data) 0 11)).

Definition det_step (st : det_state) (i : det_in) : det_state * det_out :=
  let out := {| r_cmd := dcmd st; r_sub := dsub st; r_new := dnew st |} in
  match dfsm st with
  | D_WAIT =>
      ({| dfsm := if is_header i then D_PARSE else D_WAIT; dcmd := dcmd st; dsub := dsub st; dnew := false |}, out)
  | D_PARSE =>
      if d_valid i then
        if lc_accepts (d_data i) (d_ctrl i)
        then ({| dfsm := D_WAIT; dcmd := bits (d_data i) 7 4; dsub := bits (d_data i) 0 4; dnew := true |}, out)
        else ({| dfsm := D_WAIT; dcmd := dcmd st; dsub := dsub st; dnew := false |}, out)
      else ({| dfsm := D_PARSE; dcmd := dcmd st; dsub := dsub st; dnew := false |}, out)
  end.

(* packed: inputs data[32] ctrl[4] valid; outputs command[4] subtype[4] new_command class[2] type[2] *)
Definition det_din (i : N) : det_in :=
  {| d_valid := N.testbit i 36; d_data := bits i 0 32; d_ctrl := bits i 32 4 |}.
Definition det_eout (o : det_out) : N :=
  r_cmd o + N.shiftl (r_sub o) 4 + N.shiftl (b2n (r_new o)) 8
  + N.shiftl (bits (r_cmd o) 2 2) 9 + N.shiftl (bits (r_cmd o) 0 2) 11.
Definition det_mstep (st : det_state) (i : N) : det_state * N :=
  let (st', o) := det_step st (det_din i) in (st', det_eout o).
Definition det_enc (st : det_state) : N :=
  (match dfsm st with D_WAIT => 0 | D_PARSE => 1 end) + 2 * b2n (dnew st) + 4 * dcmd st + 64 * dsub st.
Definition det_dec (m : N) : det_state :=
  {| dfsm := match m mod 2 with 0 => D_WAIT | _ => D_PARSE end; dnew := N.eqb ((m / 2) mod 2) 1;
     dcmd := (m / 4) mod 16; dsub := m / 64 |}.

(* ---------------------------------------------------------------------------------------- *)
(* generator wired to detector through a link that transfers a word when valid & ready       *)
Definition link_word (o : gen_out) (ready : bool) : det_in :=
  {| d_valid := g_valid o && ready; d_data := g_data o; d_ctrl := g_ctrl o |}.
Definition rt_step (st : gen_state * det_state) (i : gen_in) : (gen_state * det_state) * (det_out * gen_out) :=
  let (g', go) := gen_step (fst st) i in
  let (d', dout) := det_step (snd st) (link_word go (g_ready i)) in
  ((g', d'), (dout, go)).
(* packed: inputs as the generator; outputs: detector outputs (13 bits) then wire valid/done *)
Definition rt_eout (o : det_out * gen_out) : N :=
  det_eout (fst o) + N.shiftl (b2n (g_valid (snd o))) 13 + N.shiftl (b2n (g_done (snd o))) 14.
Definition rt_mstep (st : gen_state * det_state) (i : N) : (gen_state * det_state) * N :=
  let (st', o) := rt_step st (gen_din i) in (st', rt_eout o).
Definition rt_enc (st : gen_state * det_state) : N := gen_enc (fst st) + 1024 * det_enc (snd st).
Definition rt_dec (m : N) : gen_state * det_state := (gen_dec (m mod 1024), det_dec (m / 1024)).

(* ---------------------------------------------------------------------------------------- *)
(* input alphabets for the lock-step obligations                                             *)
Definition gen_pack (c s : N) (generate ready : bool) : N :=
  c + N.shiftl s 4 + N.shiftl (b2n generate) 8 + N.shiftl (b2n ready) 9.
Definition pairs (cs ss : list N) : list (N * N) := flat_map (fun c => map (fun s => (c, s)) ss) cs.
Definition range16 : list N := [0;1;2;3;4;5;6;7;8;9;10;11;12;13;14;15].
(* requests for every listed (command, subtype), with and without ready; non-requests with two payloads *)
Definition gen_alphabet (cs ss : list N) : list N :=
  flat_map (fun p => [gen_pack (fst p) (snd p) true false; gen_pack (fst p) (snd p) true true]) (pairs cs ss)
  ++ [gen_pack 0 0 false false; gen_pack 0 0 false true; gen_pack 9 6 false false; gen_pack 9 6 false true].

Definition det_pack (data ctrl : N) (valid : bool) : N := data + N.shiftl ctrl 32 + N.shiftl (b2n valid) 36.
Definition flips16 : list N := map (N.shiftl 1) range16.
(* the corruptions of one 32-bit command word: every single-bit error in the low copy, in the high copy, in
   both copies (equal copies, wrong CRC), every single ctrl flag and all four, and the word marked invalid *)
Definition det_corruptions (d : N) : list N :=
  map (fun f => det_pack (N.lxor d f) 0 true) flips16
  ++ map (fun f => det_pack (N.lxor d (N.shiftl f 16)) 0 true) flips16
  ++ map (fun f => det_pack (N.lxor d (f + N.shiftl f 16)) 0 true) flips16
  ++ map (fun c => det_pack d c true) [1; 2; 4; 8; 15]
  ++ [det_pack d 0 false].
Definition det_alphabet (good : list (N * N)) (corrupted : list (N * N)) : list N :=
  [det_pack HDR_DATA HDR_CTRL true; det_pack HDR_DATA HDR_CTRL false; det_pack HDR_DATA 7 true;
   det_pack 0xF7FEFEFF HDR_CTRL true; det_pack 0 0 true; det_pack 0 0 false]
  ++ map (fun p => det_pack (lc_data (fst p) (snd p)) 0 true) good
  ++ flat_map (fun p => det_corruptions (lc_data (fst p) (snd p))) corrupted.
