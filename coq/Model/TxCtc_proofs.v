(* C33 -- proofs about Model/TxCtc.v: the code-shaped CTCSkipInserter / transmit-path models refine the
   unbounded-accounting specification machines on every trace on which the SKP debt stays below 2^ws;
   closed-form schedule, stream theorems, packing lemmas for the lock-step obligations. *)
From Coq Require Import NArith ZArith List Bool Lia ZifyBool ZifyN.
Import ListNotations.
From LunaLib Require Import Netlist Bits Machine Affine PackN SsWords.
From LunaModel Require Import Crc Scrambler Scrambler_proofs TxCtc.
Open Scope N_scope.

(* ---------------------------------------------------------------------------------------------- *)
(* arithmetic: adding B <= L symbols crosses at most one multiple of L *)
Lemma div_step : forall L B n, 0 < L -> B <= L ->
  (n + B) / L = n / L + (if L <=? n mod L + B then 1 else 0) /\
  (n + B) mod L = (if L <=? n mod L + B then n mod L + B - L else n mod L + B).
Proof.
  intros L B n HL HB.
  assert (Hn : n = L * (n / L) + n mod L) by (apply N.div_mod; lia).
  assert (He : n mod L < L) by (apply N.mod_lt; lia).
  set (q := n / L) in *. set (e := n mod L) in *.
  destruct (L <=? e + B) eqn:E.
  - assert (E1 : n + B = L * (q + 1) + (e + B - L)) by (rewrite N.mul_add_distr_l, N.mul_1_r; lia).
    split.
    + symmetry. apply (N.div_unique _ _ _ (e + B - L)); [lia | exact E1].
    + symmetry. apply (N.mod_unique _ _ (q + 1)); [lia | exact E1].
  - assert (E1 : n + B = L * q + (e + B)) by lia.
    split.
    + rewrite N.add_0_r. symmetry. apply (N.div_unique _ _ _ (e + B)); [lia | exact E1].
    + symmetry. apply (N.mod_unique _ _ q); [lia | exact E1].
Qed.

(* ---------------------------------------------------------------------------------------------- *)
Section SkiProofs.
  Variables L B we ws : N.
  Hypothesis HL : 0 < L.
  Hypothesis HB : B <= L.
  Hypothesis Hwe : L <= 2 ^ we.

  Definition ski_rel (k : ski_st) (s : ssp_st) : Prop :=
    sk_elapsed k = ss_n s mod L /\ sk_owed k = ssp_owed L s /\ 2 * ss_skp s <= ss_n s / L /\
    sk_rdy k = ss_rdy s /\ sk_ov k = ss_ov s /\ sk_od k = ss_od s /\ sk_oc k = ss_oc s.

  Lemma ski_rel_init : ski_rel ski_init ssp_init.
  Proof.
    clear HB Hwe.
    unfold ski_rel, ski_init, ssp_init, ssp_owed.
    cbn [sk_elapsed sk_owed sk_rdy sk_ov sk_od sk_oc ss_n ss_skp ss_rdy ss_ov ss_od ss_oc].
    rewrite N.mod_0_l, N.div_0_l by lia. repeat split; lia.
  Qed.

  Lemma ski_rel_sending : forall k s can, ski_rel k s -> ski_sending k can = ssp_sending L s can.
  Proof. intros k s can (_ & Ho & _). unfold ski_sending, ssp_sending. rewrite Ho. reflexivity. Qed.

  Lemma ski_rel_next : forall k s v d c can r, ski_rel k s ->
    ssp_owed L (ssp_next L B s v d c can r) < 2 ^ ws ->
    ski_rel (ski_next L B we ws k v d c can r) (ssp_next L B s v d c can r).
  Proof.
    intros [ko ke kr kv kd kc] [n skp sr sv sd sc] v d c can r (He & Ho & Hinv & Hr & Hv & Hd & Hc) Hs.
    cbn [sk_elapsed sk_owed sk_rdy sk_ov sk_od sk_oc ss_n ss_skp ss_rdy ss_ov ss_od ss_oc] in *.
    subst kr kv kd kc.
    unfold ski_rel, ski_next, ssp_next, ski_sending, ssp_sending, ssp_owed in *.
    cbn [sk_elapsed sk_owed sk_rdy sk_ov sk_od sk_oc ss_n ss_skp ss_rdy ss_ov ss_od ss_oc] in *.
    destruct (div_step L B n HL HB) as [Dq Dm].
    assert (Hel : n mod L < L) by (apply N.mod_lt; lia).
    subst ke ko.
    set (q := n / L) in *. set (e := n mod L) in *.
    destruct (can && (2 <=? q - 2 * skp)) eqn:Es;
      destruct (v && sr) eqn:Ea; cbn [andb];
      try rewrite Dq in *; try rewrite Dm in *;
      destruct (L <=? e + B) eqn:Ec;
      (repeat split; try reflexivity; try lia;
       try (rewrite N.mod_small by lia; lia);
       try (apply andb_true_iff in Es as [_ Es]; rewrite N.mod_small by lia; lia)).
  Qed.

  Theorem ski_refines : forall tr k s, ski_rel k s -> ssp_safe L B ws s tr = true ->
    run (ski_mstep L B we ws) k tr = run (ssp_mstep L B) s tr.
  Proof.
    induction tr as [|i t IH]; intros k s R Hs; [reflexivity|].
    cbn [ssp_safe] in Hs. apply andb_true_iff in Hs as [H1 H2]. apply N.ltb_lt in H1.
    cbn [run]. unfold ski_mstep at 1, ssp_mstep at 1. unfold ssp_mstep in H1, H2. cbn [fst] in H1, H2.
    rewrite (ski_rel_sending _ _ _ R).
    destruct R as (He & Ho & Hinv & Hr & Hv & Hd & Hc) eqn:RR. rewrite Hr, Hv, Hd, Hc. f_equal.
    apply IH; [|exact H2]. apply ski_rel_next; [|exact H1].
    unfold ski_rel. repeat split; assumption.
  Qed.

  Corollary ski_refines_from_reset : forall tr, ssp_safe L B ws ssp_init tr = true ->
    run (ski_mstep L B we ws) ski_init tr = run (ssp_mstep L B) ssp_init tr.
  Proof. intros. apply ski_refines; [apply ski_rel_init | assumption]. Qed.

  (* facts about the specification machine alone: SKPs are never sent ahead of the debt *)
  Definition ssp_inv (s : ssp_st) : Prop := 2 * ss_skp s <= ss_n s / L.
  Lemma ssp_inv_next : forall s v d c can r, ssp_inv s -> ssp_inv (ssp_next L B s v d c can r).
  Proof.
    clear Hwe.
    intros [n skp sr sv sd sc] v d c can r H. unfold ssp_inv, ssp_next, ssp_sending, ssp_owed in *.
    cbn [ss_n ss_skp ss_rdy] in *.
    destruct (div_step L B n HL HB) as [Dq _].
    destruct (can && (2 <=? n / L - 2 * skp)) eqn:Es; destruct (v && sr); try rewrite Dq;
      try (apply andb_true_iff in Es as [_ Es]); destruct (L <=? n mod L + B); lia.
  Qed.
End SkiProofs.

(* ---------------------------------------------------------------------------------------------- *)
(* LFSR register / keystream sizes *)
Lemma zipp_length : forall (p : list bool) (c : list bool) fb,
  length (zipp bool xorb p c fb) = Nat.min (length p) (length c).
Proof. induction p as [|pb p IH]; intros [|x c] fb; simpl; auto. Qed.

Lemma removelast_length : forall (A : Type) (l : list A), length (removelast l) = pred (length l).
Proof. induction l as [|a [|b l] IH]; simpl in *; auto. Qed.

Lemma lfsr_run_lengths : forall k st, length (fst st) = 16%nat ->
  length (fst (lfsr_run bool xorb false lfsr_taps k st)) = 16%nat /\
  length (snd (lfsr_run bool xorb false lfsr_taps k st)) = (length (snd st) + k)%nat.
Proof.
  induction k as [|k IH]; intros [reg out] H; cbn [lfsr_run]; [cbn [fst snd] in *; lia|].
  cbn [fst snd] in H.
  destruct (IH (lfsr_shift bool xorb false lfsr_taps (reg, out))) as [I1 I2].
  - unfold lfsr_shift. cbn [fst snd]. rewrite zipp_length. cbn [length]. rewrite removelast_length, H.
    reflexivity.
  - split; [exact I1|]. rewrite I2. unfold lfsr_shift. cbn [fst snd]. rewrite app_length. cbn [length]. lia.
Qed.

Lemma lfsr_next_length : forall reg, length reg = 16%nat -> length (lfsr_next reg) = 16%nat.
Proof. intros reg H. unfold lfsr_next, lfsr_bits. apply (lfsr_run_lengths 32 (reg, [])). exact H. Qed.

Lemma ks_word_lt : forall reg, length reg = 16%nat -> ks_word reg < 2 ^ 32.
Proof.
  intros reg H. unfold ks_word, lfsr_bits.
  pose proof (bits2N_bound (snd (lfsr_run bool xorb false lfsr_taps 32 (reg, [])))) as Hb.
  destruct (lfsr_run_lengths 32 (reg, []) H) as [_ Hl]. cbn [snd length] in Hl. rewrite Hl in Hb.
  exact Hb.
Qed.

Lemma lfsr_init_length : forall v, length (lfsr_init v) = 16%nat.
Proof. intros. apply N2bits_length. Qed.

(* ---------------------------------------------------------------------------------------------- *)
(* field extraction from the packed output word of the transmit path *)
Ltac Zify.zify_post_hook ::= Z.div_mod_to_equations.

Lemma tx_unpack : forall od oc (rdy sending : bool) ks, od < 2 ^ 32 -> oc < 16 -> ks < 2 ^ 32 ->
  let o := tx_pack_out false od oc rdy sending ks in
  tx_oword o = (od, oc) /\ tx_oready o = rdy /\ tx_ohold o = sending /\ tx_oks o = ks.
Proof.
  intros od oc rdy sending ks Hd Hc Hk o. subst o.
  unfold tx_oword, tx_oready, tx_ohold, tx_oks, tx_pack_out, bits.
  rewrite !N.shiftl_mul_pow2, !N.land_ones, !N.shiftr_div_pow2.
  change (2 ^ 32) with 4294967296 in *. change (2 ^ 36) with 68719476736.
  change (2 ^ 37) with 137438953472. change (2 ^ 38) with 274877906944.
  change (2 ^ 0) with 1. change (2 ^ 4) with 16. change (2 ^ 1) with 2.
  destruct rdy, sending; cbn [b2n]; repeat split; try (f_equal; lia);
    match goal with
    | |- N.odd ?x = true => let H := fresh in assert (H : x = 1) by lia; rewrite H; reflexivity
    | |- N.odd ?x = false => let H := fresh in assert (H : x = 0) by lia; rewrite H; reflexivity
    end.
Qed.

Lemma tx_unpack_e : forall (e : bool) od oc (rdy sending : bool) ks, od < 2 ^ 32 -> oc < 16 -> ks < 2 ^ 32 ->
  let o := tx_pack_out e od oc rdy sending ks in
  tx_oword o = (if e then 0 else od, if e then 0 else oc) /\ tx_oready o = rdy /\ tx_ohold o = sending /\
  tx_oks o = ks.
Proof.
  intros e od oc rdy sending ks Hd Hc Hk. destruct e.
  - apply (tx_unpack 0 0 rdy sending ks); [reflexivity | reflexivity | exact Hk].
  - apply tx_unpack; assumption.
Qed.

Lemma skp_data4_lt : skp_data 4 < 2 ^ 32. Proof. vm_compute. reflexivity. Qed.
Lemma skp_ctrl4_lt : skp_ctrl 4 < 16. Proof. vm_compute. reflexivity. Qed.

Lemma tx_real_cons2 : forall o o' t,
  tx_real (o :: o' :: t) = if tx_oready o && negb (tx_ohold o) then tx_oword o' :: tx_real (o' :: t) else tx_real (o' :: t).
Proof. reflexivity. Qed.
Lemma link_real_cons2 : forall i ti o o' t,
  link_real (i :: ti) (o :: o' :: t) =
  if tx_oready o && negb (tx_ohold o) then tx_iword i :: link_real ti (o' :: t) else link_real ti (o' :: t).
Proof. reflexivity. Qed.

(* ---------------------------------------------------------------------------------------------- *)
Section TxProofs.
  Variables L we ws : N.
  Variable init : list bool.
  Hypothesis Hinit : length init = 16%nat.

  Notation step := (txp_step L we ws init).

  Definition txs_ok (st : txp_st) : Prop :=
    length (tx_reg st) = 16%nat /\ sk_od (tx_ctc st) < 2 ^ 32 /\ sk_oc (tx_ctc st) < 16.

  Lemma txs_ok_init : txs_ok (txp_init init).
  Proof. unfold txs_ok, txp_init, ski_init. cbn [tx_reg tx_ctc sk_od sk_oc]. split; [exact Hinit | split; reflexivity]. Qed.

  Lemma tx_reg_next_length : forall reg d c r s, length reg = 16%nat ->
    length (tx_reg_next init reg d c r s) = 16%nat.
  Proof.
    intros. unfold tx_reg_next. destruct (com_first d c); [exact Hinit|].
    destruct (r && negb s); [apply lfsr_next_length|]; assumption.
  Qed.

  Lemma txs_ok_next : forall st i, txs_ok st -> txs_ok (fst (step st i)).
  Proof.
    intros st i (H1 & H2 & H3). unfold txs_ok, txp_step. cbn [fst tx_reg tx_ctc].
    split; [apply tx_reg_next_length; exact H1|].
    unfold ski_next. cbn [sk_od sk_oc].
    destruct (ski_sending (tx_ctc st) (tx_ican i)).
    - split; [apply skp_data4_lt | apply skp_ctrl4_lt].
    - split; [apply xor_word_lt | apply bits4_lt].
  Qed.

  Lemma txp_run_cons : forall st i t,
    run step st (i :: t) = snd (step st i) :: run step (fst (step st i)) t.
  Proof. intros. cbn [run]. destruct (step st i). reflexivity. Qed.

  Lemma tx_out_fields : forall st i, txs_ok st ->
    let o := snd (step st i) in let k := tx_ctc st in
    tx_oword o = (if tx_ieidle i then 0 else sk_od k, if tx_ieidle i then 0 else sk_oc k) /\
    tx_oready o = sk_rdy k /\ tx_ohold o = ski_sending k (tx_ican i) /\ tx_oks o = ks_word (tx_reg st).
  Proof.
    intros st i (H1 & H2 & H3). unfold txp_step. cbn [snd].
    apply tx_unpack_e; [exact H2 | exact H3 | apply ks_word_lt; exact H1].
  Qed.

  (* (1) a SKP is inserted only in a cycle whose can_send_skp is high -- every input history *)
  Theorem tx_hold_can_run : forall tr st, txs_ok st -> tx_hold_can tr (run step st tr).
  Proof.
    induction tr as [|i t IH]; intros st Hok; [exact I|].
    rewrite txp_run_cons. cbn [tx_hold_can]. split; [|apply IH, txs_ok_next, Hok].
    destruct (tx_out_fields st i Hok) as (_ & _ & Hh & _). rewrite Hh.
    unfold ski_sending. intro H. apply andb_true_iff in H. tauto.
  Qed.

  (* (2) the PHY word of every cycle is the SKP word if a SKP was inserted in the cycle before, else the
         link word of the cycle before xor the keystream of that cycle; the keystream does not move
         over an inserted SKP *)
  Theorem tx_follow_run : forall tr st, txs_ok st -> Forall (fun i => tx_ieidle i = false) tr ->
    tx_follow tr (run step st tr).
  Proof.
    induction tr as [|i t IH]; intros st Hok Henv; [exact I|].
    inversion Henv as [|? ? _ Ht]; subst.
    rewrite txp_run_cons. destruct t as [|i' t']; [exact I|].
    pose proof (txs_ok_next st i Hok) as Hok'.
    specialize (IH (fst (step st i)) Hok' Ht).
    rewrite txp_run_cons in IH |- *.
    cbn [tx_follow]. split; [|split; [|exact IH]].
    - destruct (tx_out_fields st i Hok) as (_ & _ & Hh & Hk).
      destruct (tx_out_fields (fst (step st i)) i' Hok') as (Hw & _).
      inversion Ht as [|? ? He' _]; subst. rewrite He' in Hw. rewrite Hw.
      unfold tx_expected. rewrite Hh, Hk. unfold txp_step. cbn [fst tx_ctc]. unfold ski_next. cbn [sk_od sk_oc].
      destruct (ski_sending (tx_ctc st) (tx_ican i)); reflexivity.
    - intros Hh Hc.
      destruct (tx_out_fields st i Hok) as (_ & _ & Hh' & Hk). rewrite Hh' in Hh.
      destruct (tx_out_fields (fst (step st i)) i' Hok') as (_ & _ & _ & Hk').
      rewrite Hk, Hk'. unfold txp_step. cbn [fst tx_reg]. unfold tx_reg_next. rewrite Hc, Hh.
      rewrite andb_false_r. reflexivity.
  Qed.

  (* (3) stream: the words that follow handed-over, non-replaced link words are the word-level scrambling
         (Scrambler.scramble_words) of exactly those link words: nothing dropped, duplicated or reordered,
         and the keystream position of every real word is what it would be without any SKP *)
  Theorem tx_stream_run : forall en tr st, txs_ok st -> sk_rdy (tx_ctc st) = true ->
    forallb (tx_env en) tr = true ->
    tx_real (run step st tr) = scramble_words init en (tx_reg st) (link_real tr (run step st tr)).
  Proof.
    intros en. induction tr as [|i t IH]; intros st Hok Hr Henv; [reflexivity|].
    cbn [forallb] in Henv. apply andb_true_iff in Henv as [Hi Ht].
    rewrite txp_run_cons. destruct t as [|i' t']; [reflexivity|].
    pose proof (txs_ok_next st i Hok) as Hok'.
    unfold tx_env in Hi. apply andb_true_iff in Hi as [Hi Hw]. apply andb_true_iff in Hi as [He Hen].
    apply negb_true_iff in He. apply Bool.eqb_prop in Hen.
    assert (Hr' : sk_rdy (tx_ctc (fst (step st i))) = true).
    { unfold txp_step. cbn [fst tx_ctc]. unfold ski_next. cbn [sk_rdy]. rewrite He, Hr.
      destruct (ski_sending (tx_ctc st) (tx_ican i)); reflexivity. }
    specialize (IH (fst (step st i)) Hok' Hr' Ht).
    rewrite txp_run_cons in IH |- *.
    rewrite tx_real_cons2, link_real_cons2.
    destruct (tx_out_fields st i Hok) as (_ & Hrd & Hh & Hk). rewrite Hrd, Hh, Hr. cbn [andb].
    assert (He' : tx_ieidle i' = false).
    { cbn [forallb] in Ht. apply andb_true_iff in Ht as [Ht _]. unfold tx_env in Ht.
      apply andb_true_iff in Ht as [Ht _]. apply andb_true_iff in Ht as [Ht _]. apply negb_true_iff in Ht. exact Ht. }
    destruct (tx_out_fields (fst (step st i)) i' Hok') as (Hw' & _). rewrite He' in Hw'.
    destruct (ski_sending (tx_ctc st) (tx_ican i)) eqn:Es; cbn [negb].
    - (* SKP inserted: the link word is idle filler, the register does not move *)
      rewrite IH. f_equal. unfold txp_step. cbn [fst tx_reg]. unfold tx_reg_next.
      pose proof Es as Es2. unfold ski_sending in Es. apply andb_true_iff in Es as [Ec _]. rewrite Ec in Hw. cbn [negb orb] in Hw.
      apply andb_true_iff in Hw as [Hd0 Hc0]. apply N.eqb_eq in Hd0. apply N.eqb_eq in Hc0.
      rewrite Hd0, Hc0. change (com_first 0 0) with false. rewrite Hr, Es2. reflexivity.
    - unfold tx_iword. cbn [scramble_words]. rewrite Hw'. f_equal.
      + unfold txp_step. cbn [fst tx_ctc]. unfold ski_next. cbn [sk_od sk_oc]. rewrite Es, Hen. reflexivity.
      + rewrite IH. f_equal. unfold txp_step. cbn [fst tx_reg]. unfold tx_reg_next. rewrite Hr, Es. reflexivity.
  Qed.
End TxProofs.

(* ---------------------------------------------------------------------------------------------- *)
Section TxSched.
  Variables L we ws : N.
  Variable init : list bool.
  Hypothesis HL : 0 < L.
  Hypothesis HB : 4 <= L.
  Hypothesis Hwe : L <= 2 ^ we.
  Hypothesis Hinit : length init = 16%nat.

  Notation step := (txp_step L we ws init).

  Definition tx_rel (st : txp_st) (s : tsp_st) : Prop :=
    tx_reg st = ts_reg s /\ ski_rel L (tx_ctc st) (ts_ctc s).

  Lemma tx_rel_init : tx_rel (txp_init init) (tsp_init init).
  Proof. split; [reflexivity | apply ski_rel_init; exact HL]. Qed.

  (* the code-shaped path model equals the specification machine while the SKP debt stays below 2^ws *)
  Theorem txp_refines : forall tr st s, tx_rel st s -> tsp_safe L ws init s tr = true ->
    run step st tr = run (tsp_step L init) s tr.
  Proof.
    induction tr as [|i t IH]; intros st s [Rr Rk] Hs; [reflexivity|].
    cbn [tsp_safe] in Hs. apply andb_true_iff in Hs as [H1 H2]. apply N.ltb_lt in H1.
    cbn [run]. unfold txp_step at 1, tsp_step at 1. unfold tsp_step in H1, H2. cbn [fst ts_ctc] in H1, H2.
    rewrite (ski_rel_sending L _ _ _ Rk), Rr.
    pose proof Rk as (He & Ho & Hinv & Hr & Hv & Hd & Hc). rewrite Hr, Hd, Hc. f_equal.
    apply IH; [|exact H2]. split; [reflexivity|].
    cbn [tx_ctc ts_ctc]. rewrite <- Rr. apply ski_rel_next; assumption.
  Qed.

  Corollary txp_refines_from_reset : forall tr, tsp_safe L ws init (tsp_init init) tr = true ->
    run step (txp_init init) tr = run (tsp_step L init) (tsp_init init) tr.
  Proof. intros. apply txp_refines; [apply tx_rel_init | assumption]. Qed.

  (* closed form of the schedule *)
  Lemma tx_sched_gen : forall tr st s t, ski_rel L (tx_ctc st) s -> txs_ok st ->
    ss_n s = 4 * (t - 1) -> ss_rdy s = (0 <? t) ->
    Forall (fun i => tx_ieidle i = false) tr ->
    sched_safe L 4 (2 ^ ws) t (ss_skp s) (map tx_ican tr) = true ->
    map tx_ohold (run step st tr) = sched L 4 t (ss_skp s) (map tx_ican tr) /\
    map tx_oready (run step st tr) = ready_sched t (length tr).
  Proof.
    induction tr as [|i tr IH]; intros st s t R Hok Hn Hrd Henv Hsafe; [split; reflexivity|].
    inversion Henv as [|? ? He Henv']; subst.
    rewrite (txp_run_cons L we ws init). cbn [map sched length ready_sched sched_safe] in *.
    apply andb_true_iff in Hsafe as [Hs1 Hs2]. apply N.ltb_lt in Hs1.
    destruct (tx_out_fields L we ws init st i Hok) as (_ & Hr & Hh & _).
    assert (Hsend : ski_sending (tx_ctc st) (tx_ican i) = tx_ican i && (2 <=? sched_owed L 4 t (ss_skp s))).
    { rewrite (ski_rel_sending L _ _ _ R). unfold ssp_sending, ssp_owed, sched_owed. rewrite Hn. reflexivity. }
    remember (tx_ican i && (2 <=? sched_owed L 4 t (ss_skp s))) as sending eqn:Esd.
    assert (Hs0 : t = 0 -> sending = false).
    { intro T. rewrite Esd, T. unfold sched_owed. change (4 * (0 - 1)) with 0. rewrite N.div_0_l by lia.
      cbn. apply andb_false_r. }
    set (sd := xor_word (tx_ien i) (ks_word (tx_reg st)) (tx_id i) (tx_ic i)).
    set (s' := ssp_next L 4 s true sd (tx_ic i) (tx_ican i) true).
    assert (Hsk : ss_skp s' = if sending then ss_skp s + 1 else ss_skp s).
    { unfold s', ssp_next. cbn [ss_skp]. unfold ssp_sending, ssp_owed. rewrite Hn.
      fold (sched_owed L 4 t (ss_skp s)). rewrite <- Esd. reflexivity. }
    assert (Hn' : ss_n s' = 4 * (t + 1 - 1)).
    { unfold s', ssp_next. cbn [ss_n]. rewrite Hrd. cbn [andb]. destruct (0 <? t) eqn:E; lia. }
    assert (Hrd' : ss_rdy s' = (0 <? t + 1)).
    { unfold s', ssp_next. cbn [ss_rdy]. unfold ssp_sending, ssp_owed. rewrite Hn. fold (sched_owed L 4 t (ss_skp s)).
      rewrite <- Esd. rewrite Hrd. destruct sending eqn:E.
      - destruct (N.eq_dec t 0) as [T|T]; [specialize (Hs0 T); discriminate|].
        transitivity true; [apply N.ltb_lt; lia | symmetry; apply N.ltb_lt; lia].
      - symmetry; apply N.ltb_lt; lia. }
    assert (R' : ski_rel L (tx_ctc (fst (step st i))) s').
    { unfold txp_step. cbn [fst tx_ctc]. rewrite He. cbn [negb]. apply ski_rel_next; try assumption.
      fold s'. unfold ssp_owed. rewrite Hn', Hsk. exact Hs1. }
    destruct (IH (fst (step st i)) s' (t + 1) R' (txs_ok_next L we ws init Hinit st i Hok) Hn' Hrd' Henv') as [I1 I2].
    { rewrite Hsk. exact Hs2. }
    pose proof R as (_ & _ & _ & Rr & _).
    rewrite I1, I2, Hh, Hr, Hsend, Rr, Hrd, Hsk. split; reflexivity.
  Qed.

  (* (4) from reset, PHY never in electrical idle, debt below 2^ws: the SKP cycles are exactly the cycles
         of the closed-form schedule, and sink.ready is low in the first cycle only *)
  Theorem tx_schedule : forall tr, Forall (fun i => tx_ieidle i = false) tr ->
    sched_safe L 4 (2 ^ ws) 0 0 (map tx_ican tr) = true ->
    map tx_ohold (run step (txp_init init) tr) = sched L 4 0 0 (map tx_ican tr) /\
    map tx_oready (run step (txp_init init) tr) = ready_sched 0 (length tr).
  Proof.
    intros tr Henv Hs.
    apply (tx_sched_gen tr (txp_init init) ssp_init 0); try assumption; try reflexivity.
    - apply ski_rel_init; exact HL.
    - apply txs_ok_init; exact Hinit.
  Qed.
End TxSched.

(* ---------------------------------------------------------------------------------------------- *)
(* packing lemmas for the lock-step obligations *)

Lemma rep_byte_lt : forall n b, b < 256 -> rep_byte n b < 2 ^ (8 * N.of_nat n).
Proof.
  induction n as [|n IH]; intros b Hb; [cbn; lia|].
  cbn [rep_byte]. specialize (IH b Hb).
  replace (8 * N.of_nat (S n)) with (8 + 8 * N.of_nat n) by lia.
  rewrite N.pow_add_r. change (2 ^ 8) with 256. nia.
Qed.

Lemma skp_data_lt : forall B, skp_data B < 2 ^ (8 * B).
Proof.
  intro B. unfold skp_data. pose proof (rep_byte_lt (N.to_nat B) 60 ltac:(lia)) as H.
  rewrite N2Nat.id in H. exact H.
Qed.

Section SkiPack.
  Variables L B we ws : N.

  Lemma ski_dec_enc : forall st, ski_wf B we ws st -> ski_dec B we ws (ski_enc B we ws st) = st.
  Proof.
    intros [o e r v d c] (Ho & He & Hd). cbn [sk_owed sk_elapsed sk_od] in *.
    unfold ski_dec, ski_enc. cbn [sk_owed sk_elapsed sk_rdy sk_ov sk_od sk_oc].
    rewrite !N.shiftr_div_pow2, !N.land_ones. change (2 ^ 1) with 2.
    fold (pk (2 ^ (8 * B)) d c).
    fold (pk 2 (b2n v) (pk (2 ^ (8 * B)) d c)).
    fold (pk 2 (b2n r) (pk 2 (b2n v) (pk (2 ^ (8 * B)) d c))).
    fold (pk (2 ^ we) e (pk 2 (b2n r) (pk 2 (b2n v) (pk (2 ^ (8 * B)) d c)))).
    fold (pk (2 ^ ws) o (pk (2 ^ we) e (pk 2 (b2n r) (pk 2 (b2n v) (pk (2 ^ (8 * B)) d c))))).
    rewrite (pk_mod (2 ^ ws)), (pk_div (2 ^ ws)) by exact Ho.
    rewrite (pk_mod (2 ^ we)), (pk_div (2 ^ we)) by exact He.
    rewrite (pk_div 2) by apply b2n_lt2.
    rewrite (pk_div 2) by apply b2n_lt2.
    rewrite (pk_mod (2 ^ (8 * B))), (pk_div (2 ^ (8 * B))) by exact Hd.
    unfold pk. rewrite !odd_b2n_add_2. reflexivity.
  Qed.

  Lemma ski_wf_next : forall st v d c can r, d < 2 ^ (8 * B) -> ski_wf B we ws st ->
    ski_wf B we ws (ski_next L B we ws st v d c can r).
  Proof.
    intros st v d c can r Hd (Ho & He & Hod). unfold ski_wf, ski_next.
    cbn [sk_owed sk_elapsed sk_od].
    pose proof (SsWords.pow2_pos ws). pose proof (SsWords.pow2_pos we).
    split; [apply N.mod_lt; lia|]. split.
    - destruct (v && sk_rdy st); [apply N.mod_lt; lia | exact He].
    - destruct (ski_sending st can); [apply skp_data_lt | exact Hd].
  Qed.

  Lemma ski_wf_step : forall st i, ski_wf B we ws st -> ski_wf B we ws (fst (ski_mstep L B we ws st i)).
  Proof. intros st i H. unfold ski_mstep. cbn [fst]. apply ski_wf_next; [apply bits_lt | exact H]. Qed.

  Lemma ski_wf_init : ski_wf B we ws ski_init.
  Proof.
    unfold ski_wf, ski_init. cbn [sk_owed sk_elapsed sk_od].
    pose proof (SsWords.pow2_pos ws). pose proof (SsWords.pow2_pos we). pose proof (SsWords.pow2_pos (8 * B)). lia.
  Qed.
End SkiPack.

Section TxPack.
  Variables L we ws : N.
  Variable init : list bool.
  Hypothesis Hinit : length init = 16%nat.

  Lemma txp_dec_enc : forall st, txp_wf we ws st -> txp_dec we ws (txp_enc we ws st) = st.
  Proof.
    intros [reg k] [Hl Hk]. cbn [tx_reg tx_ctc] in *. unfold txp_dec, txp_enc. cbn [tx_reg tx_ctc].
    rewrite N.shiftr_div_pow2, N.land_ones.
    fold (pk (2 ^ 16) (bits2N reg) (ski_enc 4 we ws k)).
    assert (Hb : bits2N reg < 2 ^ 16).
    { pose proof (bits2N_bound reg) as H. rewrite Hl in H. exact H. }
    rewrite pk_mod, pk_div by exact Hb. rewrite ski_dec_enc by exact Hk.
    rewrite <- Hl at 1. rewrite N2bits_bits2N. reflexivity.
  Qed.

  Lemma txp_wf_step : forall st i, txp_wf we ws st -> txp_wf we ws (fst (txp_step L we ws init st i)).
  Proof.
    intros st i [Hl Hk]. unfold txp_wf, txp_step. cbn [fst tx_reg tx_ctc]. split.
    - apply tx_reg_next_length; assumption.
    - apply ski_wf_next; [apply xor_word_lt | exact Hk].
  Qed.

  Lemma txp_wf_init : txp_wf we ws (txp_init init).
  Proof. split; [exact Hinit | apply ski_wf_init]. Qed.
End TxPack.

(* ---------------------------------------------------------------------------------------------- *)
(* statements from reset *)
Section FromReset.
  Variables L we ws : N.
  Variable init : list bool.
  Hypothesis Hinit : length init = 16%nat.
  Notation step := (txp_step L we ws init).

  Theorem tx_hold_can_from_reset : forall tr, tx_hold_can tr (run step (txp_init init) tr).
  Proof. intro tr. apply tx_hold_can_run; [exact Hinit | apply txs_ok_init; exact Hinit]. Qed.

  Theorem tx_follow_from_reset : forall tr, Forall (fun i => tx_ieidle i = false) tr ->
    tx_follow tr (run step (txp_init init) tr).
  Proof. intros tr H. apply tx_follow_run; [exact Hinit | apply txs_ok_init; exact Hinit | exact H]. Qed.

  (* the word of the first cycle after reset is not handed over (sink.ready = 0): it is not part of the
     link stream, and tx_real / link_real skip it *)
  Theorem tx_stream_from_reset : forall en tr, forallb (tx_env en) tr = true ->
    tx_real (run step (txp_init init) tr) =
    scramble_words init en init (link_real tr (run step (txp_init init) tr)).
  Proof.
    intros en [|i t] Henv; [reflexivity|].
    rewrite txp_run_cons. destruct t as [|i' t']; [reflexivity|].
    cbn [forallb] in Henv. apply andb_true_iff in Henv as [Hi Ht].
    pose proof (txs_ok_init init Hinit) as Hok.
    pose proof (txs_ok_next L we ws init Hinit _ i Hok) as Hok'.
    rewrite (txp_run_cons L we ws init (fst (step (txp_init init) i))).
    rewrite tx_real_cons2, link_real_cons2.
    destruct (tx_out_fields L we ws init _ i Hok) as (_ & Hrd & _). rewrite Hrd.
    change (sk_rdy (tx_ctc (txp_init init))) with false. cbn [andb].
    rewrite <- (txp_run_cons L we ws init (fst (step (txp_init init) i))).
    assert (Hreg : tx_reg (fst (step (txp_init init) i)) = init).
    { unfold txp_step. cbn [fst tx_reg]. unfold tx_reg_next, txp_init. cbn [tx_reg tx_ctc sk_rdy ski_init].
      destruct (com_first (tx_id i) (tx_ic i)); reflexivity. }
    assert (Hr1 : sk_rdy (tx_ctc (fst (step (txp_init init) i))) = true).
    { unfold txp_step. cbn [fst tx_ctc]. unfold ski_next, txp_init, ski_sending, ski_init.
      cbn [tx_ctc sk_owed sk_rdy]. change (2 <=? 0) with false. rewrite andb_false_r.
      unfold tx_env in Hi. apply andb_true_iff in Hi as [Hi _]. apply andb_true_iff in Hi as [Hi _].
      exact Hi. }
    pose proof (tx_stream_run L we ws init Hinit en (i' :: t') (fst (step (txp_init init) i)) Hok' Hr1 Ht) as X.
    rewrite Hreg in X. exact X.
  Qed.
End FromReset.

(* the specification machine never sends SKPs ahead of the debt, on any input history *)
Theorem ssp_never_ahead : forall L B, 0 < L -> B <= L -> forall tr s, ssp_inv L s ->
  ssp_inv L (run_state (ssp_mstep L B) s tr).
Proof.
  intros L B HL HB. induction tr as [|i t IH]; intros s H; [exact H|].
  cbn [run_state]. apply IH. unfold ssp_mstep. cbn [fst]. apply ssp_inv_next; assumption.
Qed.

(* a stateless monitor accepted on a trace holds in every cycle *)
Lemma lw_check_all : forall (step : N -> N -> N * N) tr s m,
  check_trace step lw_mon s m tr = true ->
  Forall (fun io => lw_ok (fst io) (snd io) = true) (combine tr (run step s tr)).
Proof.
  intros step. induction tr as [|i t IH]; intros s m H; [constructor|].
  cbn [check_trace run] in *. destruct (step s i) as [s' o]. unfold lw_mon in H at 1.
  apply andb_true_iff in H as [H1 H2]. cbn [combine]. constructor; [exact H1 | exact (IH _ _ H2)].
Qed.
