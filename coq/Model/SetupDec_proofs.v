(* C06 -- proofs about Model/SetupDec.v: the corrected model (c6_step true true) is accepted by the
   specification monitor sm_step on every input history. *)
From Coq Require Import NArith ZArith Arith List Bool Lia ZifyBool ZifyN.
Import ListNotations.
From LunaLib Require Import Netlist Bits Machine.
From LunaModel Require Import Crc Crc_proofs Handshake Handshake_proofs TokenDet TokenDet_proofs IpTimer IpTimer_proofs SetupDec.
Open Scope N_scope.
Ltac Zify.zify_post_hook ::= Z.div_mod_to_equations.

(* ---- small list facts ------------------------------------------------------------------------ *)
Lemma upd_length : forall l k x, length (upd l k x) = length l.
Proof. induction l as [|a l IH]; intros [|k] x; cbn [upd length]; auto. Qed.

Lemma upd_firstn_snoc : forall l k x, (k < length l)%nat -> firstn (S k) (upd l k x) = firstn k l ++ [x].
Proof.
  induction l as [|a l IH]; intros [|k] x H; cbn [length] in H; try lia.
  - reflexivity.
  - cbn [upd]. change (firstn (S (S k)) (a :: upd l k x)) with (a :: firstn (S k) (upd l k x)).
    rewrite IH by lia. reflexivity.
Qed.

Lemma upd_forall : forall (P : N -> Prop) l k x, Forall P l -> P x -> Forall P (upd l k x).
Proof.
  induction l as [|a l IH]; intros [|k] x Hl Hx; cbn [upd]; auto; inversion Hl; subst; constructor; auto.
Qed.

Lemma le_bytes_bound : forall l, Forall (fun b => b < 256) l -> le_bytes l < 2 ^ (8 * N.of_nat (length l)).
Proof.
  induction l as [|b l IH]; intro H; [cbn; lia|]. inversion H; subst. specialize (IH H3).
  cbn [le_bytes fold_right length]. fold (le_bytes l).
  replace (8 * N.of_nat (S (length l))) with (8 + 8 * N.of_nat (length l)) by lia.
  rewrite N.pow_add_r. change (2 ^ 8) with 256. lia.
Qed.

(* ---- output word ------------------------------------------------------------------------------ *)
Lemma c6_out_fields : forall (recv ack : bool) f ep, f < 2 ^ 64 -> ep < 16 ->
  let o := b2n recv + 2 * f + 2 ^ 65 * b2n ack + 2 ^ 66 * ep in
  o_recv o = recv /\ o_flds o = f /\ o_ack o = ack /\ o_endp o = ep.
Proof.
  intros recv ack f ep Hf He o. subst o. unfold o_recv, o_flds, o_ack, o_endp.
  rewrite N.testbit_odd, N.shiftr_div_pow2, !bits_spec.
  change (2 ^ 1) with 2. change (2 ^ 4) with 16.
  set (A := 2 ^ 64) in *. change (2 ^ 65) with (2 * A). change (2 ^ 66) with (4 * A).
  assert (HA : A = 18446744073709551616) by reflexivity.
  repeat split.
  - replace (b2n recv + 2 * f + 2 * A * b2n ack + 4 * A * ep) with (b2n recv + 2 * (f + A * b2n ack + 2 * A * ep)) by lia.
    apply odd_b2n.
  - destruct recv, ack; cbn [b2n]; lia.
  - replace ((b2n recv + 2 * f + 2 * A * b2n ack + 4 * A * ep) / (2 * A)) with (b2n ack + 2 * ep)
      by (destruct recv, ack; cbn [b2n]; lia).
    apply odd_b2n.
  - destruct recv, ack; cbn [b2n]; lia.
Qed.

(* ---- the CRC unit, one cycle ------------------------------------------------------------------- *)
Lemma crc_word_fields : forall (st : bool) d (v : bool), d < 256 ->
  let i := b2n st + 2 * d + 512 * b2n v in
  bits i 0 1 = b2n st /\ bits i 1 8 = d /\ bits i 9 1 = b2n v /\ bits i 18 1 = 0.
Proof.
  intros st d v Hd i. subst i. rewrite !bits_spec.
  change (2 ^ 0) with 1. change (2 ^ 1) with 2. change (2 ^ 8) with 256. change (2 ^ 9) with 512.
  change (2 ^ 18) with 262144.
  destruct st, v; cbn [b2n]; repeat split; lia.
Qed.

Lemma crc_step_start : forall reg d v, d < 256 ->
  fst (crc16mod_step reg (b2n true + 2 * d + 512 * b2n v)) = reg_init 16.
Proof.
  intros reg d v Hd. destruct (crc_word_fields true d v Hd) as (E0 & _).
  unfold crc16mod_step. cbn [fst]. rewrite E0. reflexivity.
Qed.

Lemma crc_step_idle : forall reg d, d < 256 ->
  fst (crc16mod_step reg (b2n false + 2 * d + 512 * b2n false)) = reg.
Proof.
  intros reg d Hd. destruct (crc_word_fields false d false Hd) as (E0 & E1 & E9 & E18).
  unfold crc16mod_step. cbn [fst]. rewrite E0, E9, E18. reflexivity.
Qed.

Lemma crc_step_byte : forall reg d, d < 256 ->
  fst (crc16mod_step reg (b2n false + 2 * d + 512 * b2n true)) = crc_update poly16 reg (N2bits 8 d).
Proof.
  intros reg d Hd. destruct (crc_word_fields false d true Hd) as (E0 & E1 & E9 & E18).
  unfold crc16mod_step. cbn [fst]. rewrite E0, E1, E9. reflexivity.
Qed.

(* running register after the bytes bs; its output is the standard CRC16 of bs *)
Definition crc_reg_of (bs : list N) : list bool := crc_update poly16 (reg_init 16) (bits_of_units 8 bs).
Lemma crc_reg_snoc : forall bs d, crc_reg_of (bs ++ [d]) = crc_update poly16 (crc_reg_of bs) (N2bits 8 d).
Proof.
  intros. unfold crc_reg_of. rewrite bits_of_units_app, crc_update_app.
  unfold bits_of_units at 2. cbn [flat_map]. rewrite app_nil_r. reflexivity.
Qed.
Lemma crc_out_reg_of : forall bs, crc_out (crc_reg_of bs) = crc16_usb bs.
Proof. reflexivity. Qed.

(* ================================================================================================ *)
(* The deserializer (corrected: fa = true) against the byte list of the packet in progress.          *)
Definition tail_ok (rb : list N) (lw lbc lwc : N) : Prop :=
  match rb with
  | [] => True
  | b2 :: r1 => lw / 256 = b2 /\ lbc = crc16_usb (rev r1) /\
      match r1 with [] => True | b1 :: r0 => lw mod 256 = b1 /\ lwc = crc16_usb (rev r0) end
  end.

Definition ds_doomed (l : list N) : Prop := forall ext, dclass (l ++ ext) = D0.

Definition ds_strobe (ds : ds_state) (dn : dstat) : Prop :=
  match dn with
  | D0 => ds_new ds = false
  | D8 pl => ds_new ds = true /\ ds_len ds = 8 /\ ds_pkt ds = pl
  | Dx => ds_new ds = true /\ ds_len ds <> 8
  | Dq => ds_new ds = true -> ds_len ds <> 8
  end.

Definition bytes_ok (l : list N) : Prop := Forall (fun b => b < 256) l.
Definition ds_shape (ds : ds_state) : Prop :=
  length (ds_buf ds) = 10%nat /\ bytes_ok (ds_buf ds) /\ length (ds_pkt ds) = 8%nat /\ bytes_ok (ds_pkt ds) /\
  ds_lw ds < 65536.

Definition ds_rel (ds : ds_state) (reg : list bool) (p : option (list N)) : Prop :=
  match ds_f ds with
  | DS_IDLE => p = None
  | DS_READ_PID => p = Some []
  | DS_CAPTURE => exists pid rb, p = Some (pid :: rev rb) /\ data_pid pid = true /\ (length rb <= 10)%nat /\
       ds_pos ds = N.of_nat (length rb) /\ firstn (length rb) (ds_buf ds) = rev rb /\
       reg = crc_reg_of (rev rb) /\ tail_ok rb (ds_lw ds) (ds_lbc ds) (ds_lwc ds)
  | DS_IRRELEVANT => exists l, p = Some l /\ ds_doomed l
  end.

Lemma ds_shape_init : ds_shape (ds_init 8).
Proof. unfold ds_shape, ds_init, bytes_ok. cbn. repeat split; try lia; repeat constructor. Qed.

Lemma firstn_bytes_ok : forall n l, bytes_ok l -> bytes_ok (firstn n l).
Proof.
  unfold bytes_ok. induction n as [|n IH]; intros [|a l] H; cbn [firstn]; auto. inversion H; subst. constructor; auto.
Qed.

Lemma dclass_long : forall p body, (11 <= length body)%nat -> dclass (p :: body) = D0.
Proof.
  intros p body H. unfold dclass. destruct (data_pid p); [|reflexivity]. cbn [negb].
  pose proof (rev_length body) as L. destruct (rev body) as [|hi [|lo rp]]; cbn [length] in L; try lia.
  rewrite rev_length. replace (Nat.leb (length rp) 8) with false; [reflexivity|].
  symmetry. apply Nat.leb_gt. lia.
Qed.

Lemma dclass_nondata : forall p body, data_pid p = false -> dclass (p :: body) = D0.
Proof. intros p body H. unfold dclass. rewrite H. reflexivity. Qed.

Lemma ds_doomed_snoc : forall l b, ds_doomed l -> ds_doomed (l ++ [b]).
Proof. intros l b H ext. rewrite <- app_assoc. apply H. Qed.

Ltac ds_simp := cbn [ds_f ds_apid ds_pos ds_buf ds_lw ds_lbc ds_lwc ds_new ds_pid ds_pkt ds_len negb andb orb] in *.

Lemma ds_rel_step : forall ds reg p i, ds_shape ds -> ds_rel ds reg p ->
  let ds' := ds_step true 8 4 4 ds (d_act i) (d_val i) (d_dat i) (crc_out reg) in
  let reg' := fst (crc16mod_step reg (b2n (match ds_f ds with DS_READ_PID => true | _ => false end)
                                      + 2 * d_dat i + 512 * b2n (d_val i))) in
  ds_shape ds' /\ ds_rel ds' reg' (pk_next p i) /\
  ds_strobe ds' (match pk_done p i with Some pkt => dclass pkt | None => D0 end).
Proof.
  intros [f ap pos buf lw lbc lwc nw pid pkt len] reg p i (Hbl & Hbb & Hpl & Hpb & Hlw) Hrel.
  unfold ds_rel in Hrel. ds_simp. pose proof (d_dat_bound i) as Hd.
  unfold ds_step, ds_rel, ds_shape, ds_strobe. ds_simp.
  destruct f.
  - (* IDLE *) subst p. unfold pk_next, pk_done.
    destruct (d_act i); ds_simp; repeat split; auto.
  - (* READ_PID *) subst p. unfold pk_next, pk_done.
    destruct (d_act i); ds_simp; [|repeat split; auto].
    destruct (d_val i); ds_simp; [|repeat split; auto].
    destruct (data_pid (d_dat i)) eqn:DP; ds_simp; (split; [repeat split; auto|]); (split; [|reflexivity]).
    + exists (d_dat i), []. cbn [rev app length firstn]. repeat split; auto; try lia.
      rewrite crc_step_start by exact Hd. reflexivity.
    + exists [d_dat i]. split; [reflexivity|]. intro ext. apply dclass_nondata. exact DP.
  - (* CAPTURE *) destruct Hrel as (dp & rb & -> & DP & Hlen & Hpos & Hfst & Hreg & Htail). subst pos reg.
    unfold pk_next, pk_done.
    change (N.of_nat 8 + 2) with 10. change (2 ^ 4) with 16.
    destruct (d_act i); ds_simp.
    + (* packet continues *)
      destruct (d_val i); ds_simp.
      * destruct (N.of_nat (length rb) <? 10) eqn:LT.
        -- (* a byte is stored *)
           assert (Hlt : (length rb < 10)%nat) by lia.
           replace (10 <=? N.of_nat (length rb)) with false by lia.
           split; [repeat split; auto; [rewrite upd_length; exact Hbl | apply upd_forall; auto | lia]|].
           split; [|reflexivity].
           exists dp, (d_dat i :: rb). cbn [rev length app].
           split; [reflexivity|]. split; [exact DP|]. split; [lia|].
           split; [lia|].
           split; [rewrite Nat2N.id; rewrite upd_firstn_snoc by lia; rewrite Hfst; reflexivity|].
           split; [rewrite crc_step_byte by exact Hd; rewrite crc_reg_snoc; reflexivity|].
           cbn [tail_ok]. split; [lia|]. split; [apply crc_out_reg_of|].
           destruct rb as [|b1 r0]; [exact I|]. destruct Htail as (T1 & T2 & _). split; [lia | exact T2].
        -- (* over-long *)
           replace (10 <=? N.of_nat (length rb)) with true by lia.
           split; [repeat split; auto|]. split; [|reflexivity].
           exists ((dp :: rev rb) ++ [d_dat i]). split; [reflexivity|]. intro ext.
           cbn [app]. apply dclass_long. rewrite !app_length, rev_length. cbn [length]. lia.
      * split; [repeat split; auto|]. split; [|reflexivity].
        exists dp, rb. rewrite crc_step_idle by exact Hd. repeat split; auto.
    + (* packet ends *)
      rewrite orb_true_r. ds_simp.
      split.
      { set (cap := d_val i && (N.of_nat (length rb) <? 10)).
        split; [destruct cap; [rewrite upd_length|]; exact Hbl|].
        split; [destruct cap; [apply upd_forall|]; auto|].
        split; [destruct (lwc =? lw); [rewrite firstn_length; lia | exact Hpl]|].
        split; [destruct (lwc =? lw); [apply firstn_bytes_ok|]; auto|].
        destruct cap; lia. }
      split; [reflexivity|].
      unfold dclass. rewrite DP. cbn [negb]. rewrite rev_involutive.
      destruct rb as [|hi [|lo rp]].
      * (* no byte after the PID *) destruct (lwc =? lw); [|discriminate]. intros _. cbn [length]. cbn. lia.
      * destruct (lwc =? lw); [|discriminate]. intros _. cbn [length]. cbn. lia.
      * destruct Htail as (T1 & T2 & T3 & T4). cbn [length] in *.
        rewrite rev_length. replace (Nat.leb (length rp) 8) with true by (symmetry; apply Nat.leb_le; lia).
        cbn [andb]. subst lwc.
        assert (Elw : lw = lo + 256 * hi) by lia. rewrite <- Elw.
        destruct (crc16_usb (rev rp) =? lw) eqn:OK; [|reflexivity].
        assert (Elen : (N.of_nat (S (S (length rp))) + 16 - 2) mod 16 = N.of_nat (length rp)) by lia.
        destruct (Nat.eqb (length rp) 8) eqn:L8.
        -- apply Nat.eqb_eq in L8. repeat split; [rewrite Elen, L8; reflexivity|].
           rewrite L8 in Hfst. change (S (S 8)) with 10%nat in Hfst.
           assert (F : firstn 8 (firstn 10 buf) = firstn 8 buf) by (rewrite firstn_firstn; reflexivity).
           rewrite <- F, Hfst. cbn [rev]. rewrite <- app_assoc.
           rewrite firstn_app, rev_length, L8, Nat.sub_diag, firstn_O, app_nil_r.
           apply firstn_all2. rewrite rev_length. lia.
        -- apply Nat.eqb_neq in L8. split; [reflexivity|]. rewrite Elen. lia.
  - (* IRRELEVANT *) destruct Hrel as (l & -> & Hl). unfold pk_next, pk_done.
    destruct (d_act i); ds_simp.
    + split; [repeat split; auto|]. split; [|reflexivity].
      destruct (d_val i); [exists (l ++ [d_dat i]); split; [reflexivity | apply ds_doomed_snoc; exact Hl] | exists l; auto].
    + split; [repeat split; auto|]. split; [reflexivity|].
      specialize (Hl []). rewrite app_nil_r in Hl. rewrite Hl. reflexivity.
Qed.

(* ================================================================================================ *)
(* The decoder FSM against the monitor's reaction (pure case analysis).                            *)
Definition sd_inv (f : sd_fsm) (wt : option N) (ar : arm) : Prop :=
  match wt with
  | Some _ => f = SD_DELAY
  | None => match ar with A_no => f = SD_IDLE | A_yes => f = SD_READ_DATA
                        | A_q => f = SD_IDLE \/ f = SD_READ_DATA end
  end.

Definition strobe_facts (dn : dstat) (dnew : bool) (dlen : N) (dpkt : list N) : Prop :=
  match dn with
  | D0 => dnew = false
  | D8 pl => dnew = true /\ dlen = 8 /\ dpkt = pl
  | Dx => dnew = true /\ dlen <> 8
  | Dq => dnew = true -> dlen <> 8
  end.

Ltac sd_crush :=
  repeat match goal with
         | |- context [if ?c then _ else _] => destruct c eqn:?
         | H : _ /\ _ |- _ => destruct H
         end;
  cbn in *; repeat split; intros; subst; try discriminate; try congruence; try lia; auto.

Lemma sd_agree : forall f setup ntok stok dnew dlen dpkt sp e wt ar dn,
  sp = 0 \/ sp = 1 ->
  sd_inv f wt ar ->
  (forall k, wt = Some k -> e = k /\ k <= 10 /\ dn = D0 /\ ntok = false /\ sp = 1) ->
  strobe_facts dn dnew dlen dpkt ->
  (dn <> D0 -> ntok = false) ->
  (forall pl, dn = D8 pl -> 12 <= e) ->
  forall f' recv' setup' ack ar' wt' rx' exp_ack quiet,
  sd_step true f setup ntok stok dnew dlen dpkt (if sp =? 0 then e =? 1 else e =? 10) (sp =? 0) = (f', recv', setup', ack) ->
  sm_react sp wt ar dn ntok stok ack = (ar', wt', rx', exp_ack, quiet) ->
  let e' := if dnew then 0 else e + 1 in
  let wte' := match rx' with Rq _ => if recv' && (sp =? 1) then Some 0 else wt' | _ => wt' end in
  match exp_ack with Some b => ack = b | None => True end /\
  match rx' with R0 => recv' = false | R1 pl => recv' = true /\ setup' = pl | Rq pl => (recv' = true -> setup' = pl) end /\
  (recv' = false -> setup' = setup) /\
  (recv' = true -> setup' = dpkt) /\
  sd_inv f' wte' ar' /\
  (forall k, wte' = Some k -> quiet = true /\ e' = k /\ k <= 10 /\ sp = 1) /\
  (rx' <> R0 -> exists pl, dn = D8 pl).
Proof.
  intros f setup ntok stok dnew dlen dpkt sp e wt ar dn Hsp Hinv Hwt Hst Hx He
         f' recv' setup' ack ar' wt' rx' exp_ack quiet Hsd Hre e' wte'. subst e' wte'.
  destruct wt as [k|].
  - (* ACK delay in progress *)
    destruct (Hwt k eq_refl) as (-> & Hk & -> & -> & ->). unfold sd_inv in Hinv. subst f.
    cbn [strobe_facts] in Hst. subst dnew.
    unfold sd_step in Hsd. unfold sm_react in Hre. change (1 =? 0) with false in *. cbv iota in Hsd.
    destruct (k =? 10) eqn:K; inversion Hsd; inversion Hre; subst; clear Hsd Hre;
      cbn [sd_inv andb]; repeat split; intros; try discriminate; try congruence; try lia.
    all: try (inversion H; subst; lia).
    all: try (exfalso; apply H; reflexivity).
  - clear Hwt. unfold sd_inv in Hinv.
    destruct ar; destruct dn as [|pl| |]; cbn [strobe_facts] in Hst;
      try (assert (Hn : ntok = false) by (apply Hx; discriminate); subst ntok);
      try (pose proof (He pl eq_refl) as He12);
      destruct Hsp as [-> | ->]; change (0 =? 0) with true in *; change (1 =? 0) with false in *;
      change (0 =? 1) with false in *; change (1 =? 1) with true in *.
    all: unfold sd_step in Hsd; unfold sm_react in Hre.
    all: try (destruct Hinv as [Hinv | Hinv]); subst f.
    all: repeat match goal with H : _ /\ _ |- _ => destruct H end; subst.
    all: repeat match type of Hsd with context [if ?c then _ else _] => destruct c eqn:? end.
    all: repeat match type of Hre with context [if ?c then _ else _] => destruct c eqn:? end.
    all: inversion Hsd; inversion Hre; subst; clear Hsd Hre.
    all: cbn [sd_inv andb orb negb] in *.
    all: repeat split; intros; try discriminate; try congruence; try lia; auto.
    all: try (match goal with H : Some _ = Some _ |- _ => inversion H; subst end; try lia).
    all: try (exfalso; match goal with H : R0 <> R0 |- _ => apply H; reflexivity end).
    all: eauto.
Qed.

(* ================================================================================================ *)
(* The relation between the corrected model, the monitor state and the elapsed time e since the    *)
(* deserializer last signalled a packet (IpTimer's specification state).                           *)
Definition speed_of (m : sm_state) : N := match m_sp m with Some x => x | None => 0 end.
Definition wt_eff (m : sm_state) (recv : bool) : option N :=
  match m_rx m with Rq _ => if recv && (speed_of m =? 1) then Some 0 else m_wt m | _ => m_wt m end.

Definition c6_rel (s : c6_state) (m : sm_state) (e : N) : Prop :=
  td_rel true (c_td s) (m_tsp m) /\ td_wf (c_td s) /\
  ds_shape (c_ds s) /\ ds_rel (c_ds s) (c_crc s) (fst (m_tsp m)) /\
  strobe_facts (m_dn m) (ds_new (c_ds s)) (ds_len (c_ds s)) (ds_pkt (c_ds s)) /\
  rel 640 (c_tmr s) e /\
  (forall l, fst (m_tsp m) = Some l -> N.of_nat (length l) <= e) /\
  (forall pl, m_dn m = D8 pl -> 12 <= e) /\
  (fst (m_tsp m) <> None -> m_dn m = D0) /\
  (m_dn m <> D0 -> t_new_token (snd (m_tsp m)) = false) /\
  length (c_setup s) = 8%nat /\ bytes_ok (c_setup s) /\
  match m_rx m with
  | R0 => c_recv s = false
  | R1 pl => c_recv s = true /\ c_setup s = pl
  | Rq pl => (c_recv s = true -> c_setup s = pl) /\ m_sp m <> None
  end /\
  (c_recv s = false -> le_bytes (c_setup s) = m_fl m) /\
  (m_sp m = None \/ m_sp m = Some 0 \/ m_sp m = Some 1) /\
  sd_inv (c_f s) (wt_eff m (c_recv s)) (m_ar m) /\
  (forall k, wt_eff m (c_recv s) = Some k ->
             e = k /\ k <= 10 /\ m_dn m = D0 /\ t_new_token (snd (m_tsp m)) = false /\ m_sp m = Some 1) /\
  (m_rx m <> R0 -> m_dn m = D0 /\ t_new_token (snd (m_tsp m)) = false).

Lemma c6_rel_init : c6_rel c6_init sm_init 0.
Proof.
  unfold c6_rel, c6_init, sm_init, wt_eff. cbn [c_td c_crc c_tmr c_ds c_f c_recv c_setup m_tsp m_dn m_ar m_wt m_rx m_fl m_sp].
  split; [apply td_rel_init|]. split; [apply td_wf_init|]. split; [apply ds_shape_init|].
  split; [reflexivity|]. split; [reflexivity|]. split; [apply rel_init with (w := 10); reflexivity|].
  split; [intros l H; discriminate|]. split; [intros pl H; discriminate|].
  split; [intro H; exfalso; apply H; reflexivity|]. split; [intro H; exfalso; apply H; reflexivity|].
  split; [reflexivity|]. split; [unfold bytes_ok; cbn; repeat constructor|].
  split; [reflexivity|]. split; [reflexivity|]. split; [auto|]. split; [reflexivity|].
  split; [intros k H; discriminate | intro H; exfalso; apply H; reflexivity].
Qed.

Lemma tx_allowed_spec : forall c e sp, rel 640 c e -> sp = 0 \/ sp = 1 ->
  tx_allowed_at c sp = if sp =? 0 then e =? 1 else e =? 10.
Proof.
  intros c e sp H Hsp. unfold tx_allowed_at, c6_tbl.
  rewrite (rel_strobes 640 10 (tbl_60 false) (tbl_60_ok false) eq_refl c e sp H).
  destruct Hsp as [-> | ->]; unfold ip_strobes; cbn [tbl_60].
  - change (0 =? 0) with true. cbv iota.
    replace (b2n (e =? 1) + 2 * b2n (e =? 24) + 4 * b2n (e =? 92)) with (b2n (e =? 1) + 2 * (b2n (e =? 24) + 2 * b2n (e =? 92))) by lia.
    apply odd_b2n.
  - change (1 =? 0) with false. cbv iota.
    replace (b2n (e =? 10) + 2 * b2n (e =? 32) + 4 * b2n (e =? 80)) with (b2n (e =? 10) + 2 * (b2n (e =? 32) + 2 * b2n (e =? 80))) by lia.
    apply odd_b2n.
Qed.

(* a data-PID byte is not a token PID *)
Lemma data_pid_not_token : forall filt a p body, data_pid p = true -> classify filt a (p :: body) = EvNone.
Proof.
  intros filt a p body DP.
  assert (E : (p =? pid_byte PID_SOF) = false /\ find_tok p = None).
  { destruct (N.ltb_spec p 256) as [Hp|Hp].
    - assert (F : forall_bits 8 (fun p => negb (data_pid p) ||
                   (negb (p =? pid_byte PID_SOF) && match find_tok p with None => true | Some _ => false end)) = true)
        by (vm_compute; reflexivity).
      pose proof (forall_bits_sound 8 _ F p Hp) as G. cbv beta in G. rewrite DP in G. cbn [negb orb] in G.
      apply andb_true_iff in G as [G1 G2]. apply negb_true_iff in G1. destruct (find_tok p); [discriminate|]. auto.
    - unfold find_tok, token_pids, find.
      change (pid_byte PID_SOF) with 165. change (pid_byte PID_OUT) with 225. change (pid_byte PID_IN) with 105.
      change (pid_byte PID_SETUP) with 45. change (pid_byte PID_PING) with 180.
      replace (p =? 165) with false by lia. replace (p =? 225) with false by lia. replace (p =? 105) with false by lia.
      replace (p =? 45) with false by lia. replace (p =? 180) with false by lia. auto. }
  destruct E as [E1 E2].
  destruct body as [|b0 [|b1 [|b2 body]]]; try reflexivity.
  cbn [classify]. fold (find_tok p). rewrite E1, E2.
  destruct (negb (crc5_usb (tok_payload b0 b1) =? tok_crc b1)); reflexivity.
Qed.

Lemma dclass_not_D0_data : forall pkt, dclass pkt <> D0 -> exists p body, pkt = p :: body /\ data_pid p = true.
Proof.
  intros [|p body] H; [exfalso; apply H; reflexivity|]. exists p, body. split; [reflexivity|].
  destruct (data_pid p) eqn:DP; [reflexivity|]. exfalso. apply H. apply dclass_nondata. exact DP.
Qed.

Lemma dclass_D8_length : forall pkt pl, dclass pkt = D8 pl -> length pkt = 11%nat.
Proof.
  intros [|p body] pl H; [discriminate|]. unfold dclass in H. destruct (negb (data_pid p)); [discriminate|].
  pose proof (rev_length body) as L. destruct (rev body) as [|hi [|lo rp]]; try discriminate.
  destruct (Nat.leb (length (rev rp)) 8 && (crc16_usb (rev rp) =? lo + 256 * hi)); [|discriminate].
  destruct (Nat.eqb (length (rev rp)) 8) eqn:E; [|discriminate]. apply Nat.eqb_eq in E.
  rewrite rev_length in E. cbn [length] in *. lia.
Qed.

Lemma utmi_fields : forall i, d_act (c_utmi i) = d_act i /\ d_val (c_utmi i) = d_val i /\ d_dat (c_utmi i) = d_dat i.
Proof.
  intro i. unfold d_act, d_val, d_dat, c_utmi. split; [|split].
  - unfold bits. rewrite N.land_spec, N.shiftr_0_r, N.ones_spec_low by lia. apply andb_true_r.
  - unfold bits. rewrite N.land_spec, N.shiftr_0_r, N.ones_spec_low by lia. apply andb_true_r.
  - rewrite !bits_spec. change (2 ^ 0) with 1. change (2 ^ 17) with 131072. change (2 ^ 2) with 4. change (2 ^ 8) with 256. lia.
Qed.

Lemma pk_utmi : forall p i, pk_next p (c_utmi i) = pk_next p i /\ pk_done p (c_utmi i) = pk_done p i.
Proof.
  intros p i. destruct (utmi_fields i) as (A & V & D). unfold pk_next, pk_done. rewrite A, V, D. auto.
Qed.

Lemma ds_strobe_facts : forall ds dn, ds_strobe ds dn = strobe_facts dn (ds_new ds) (ds_len ds) (ds_pkt ds).
Proof. intros ds [| | |]; reflexivity. Qed.

Lemma c6_rel_step : forall s m e i m' ok,
  c6_rel s m e ->
  sm_step m i (snd (c6_step true true s i)) = Some (m', ok) ->
  ok = true /\ c6_rel (fst (c6_step true true s i)) m' (sp_next e (ds_new (c_ds s))).
Proof.
  intros s m e i m' ok R H.
  destruct R as (RT & RW & RS & RD & RF & RE & RL & R12 & RP & RX & SL & SB & RR & RFL & RSP & RI & RK & _).
  destruct (td_rel_step true _ _ (c_utmi i) RT) as [RT' _].
  pose proof (td_wf_step true _ (c_utmi i) RW) as RW'.
  pose proof RT as [Hregs _].
  destruct (ds_rel_step _ _ _ i RS RD) as (RS' & RD' & RF'). rewrite ds_strobe_facts in RF'.
  destruct (pk_utmi (fst (m_tsp m)) i) as [PN PD].
  destruct (m_tsp m) as [p r] eqn:Etsp. cbn [fst snd] in *.
  unfold sm_step in H. rewrite Etsp in H. cbn [fst snd] in H.
  set (sp := match m_sp m with Some x => x | None => c_speed i end) in *.
  destruct (negb ((c_speed i =? sp) && (sp <=? 1))) eqn:EV; [discriminate|].
  apply negb_false_iff, andb_true_iff in EV as [EV1 EV2]. apply N.eqb_eq in EV1. apply N.leb_le in EV2.
  assert (Hsp : sp = 0 \/ sp = 1) by lia.
  (* the model's step *)
  unfold c6_step in *.
  destruct (sd_step true (c_f s) (c_setup s) (t_new_token (td_regs (c_td s))) (t_pid (td_regs (c_td s)) =? 13)
              (ds_new (c_ds s)) (ds_len (c_ds s)) (ds_pkt (c_ds s)) (tx_allowed_at (c_tmr s) (c_speed i))
              (c_speed i =? 0)) as [[[f' recv'] setup'] ack] eqn:Hsd.
  cbn [fst snd] in *. rewrite Hregs in *.
  rewrite EV1, (tx_allowed_spec _ _ _ RE Hsp) in Hsd.
  (* the output word *)
  assert (Hfl : le_bytes (c_setup s) < 2 ^ 64).
  { pose proof (le_bytes_bound _ SB) as B. rewrite SL in B. exact B. }
  assert (Hep : t_ep r < 16) by (destruct RW as (_ & _ & (_ & _ & Hep & _)); rewrite Hregs in Hep; exact Hep).
  destruct (c6_out_fields (c_recv s) ack _ _ Hfl Hep) as (O1 & O2 & O3 & O4).
  unfold c6_out in H. rewrite Hregs in H. rewrite O1, O2, O3, O4 in H.
  (* the monitor's reaction *)
  assert (Ewt : match m_rx m with Rq _ => if c_recv s && (sp =? 1) then Some 0 else m_wt m | _ => m_wt m end
                = wt_eff m (c_recv s)).
  { unfold wt_eff, speed_of. destruct (m_rx m) as [|pl|pl]; try reflexivity.
    destruct RR as [_ Hn]. subst sp. destruct (m_sp m); [reflexivity | congruence]. }
  rewrite Ewt in H.
  destruct (sm_react sp (wt_eff m (c_recv s)) (m_ar m) (m_dn m) (t_new_token r) (t_pid r =? 13) ack)
    as [[[[ar' wt'] rx'] exp_ack] quiet] eqn:Hre.
  destruct (quiet && match pk_done p i with Some _ => true | None => false end) eqn:Q; [discriminate|].
  inversion H; subst m' ok; clear H.
  assert (RK' : forall k, wt_eff m (c_recv s) = Some k ->
                          e = k /\ k <= 10 /\ m_dn m = D0 /\ t_new_token r = false /\ sp = 1).
  { intros k Hk. destruct (RK k Hk) as (A1 & A2 & A3 & A4 & A5). repeat split; auto. subst sp. rewrite A5. reflexivity. }
  destruct (sd_agree _ _ _ _ _ _ _ sp e _ _ _ Hsp RI RK' RF RX R12 _ _ _ _ _ _ _ _ _ Hsd Hre)
    as (Gack & Grx & Gs0 & Gs1 & Ginv & Gk & Gd8).
  (* the expected setup bytes are the ones the model shows *)
  assert (Eexp : match m_rx m with R0 => m_fl m | R1 pl | Rq pl => if c_recv s then le_bytes pl else m_fl m end
                 = le_bytes (c_setup s)).
  { destruct (m_rx m) as [|pl|pl].
    - symmetry. apply RFL. exact RR.
    - destruct RR as [R1 R2]. rewrite R1, R2. reflexivity.
    - destruct RR as [R1 _]. destruct (c_recv s) eqn:CR; [rewrite R1 by reflexivity; reflexivity | symmetry; apply RFL; reflexivity]. }
  rewrite Eexp.
  assert (Hnew : p <> None -> ds_new (c_ds s) = false).
  { intro Hp. specialize (RP Hp). rewrite RP in RF. exact RF. }
  split.
  { (* verdict *)
    rewrite !andb_true_iff. repeat split.
    - destruct (m_rx m); [rewrite RR; reflexivity | destruct RR as [-> _]; reflexivity | reflexivity].
    - apply N.eqb_refl.
    - destruct exp_ack as [b|]; [subst b; apply Bool.eqb_reflx | reflexivity].
    - apply N.eqb_refl. }
  (* the relation after the step *)
  unfold c6_rel. cbn [c_td c_crc c_tmr c_ds c_f c_recv c_setup m_tsp m_dn m_ar m_wt m_rx m_fl m_sp].
  unfold tsp_step. cbn [fst snd]. rewrite PN.
  assert (Edone : tok_event_of true p (c_utmi i) =
                  match pk_done p i with Some pkt => classify true (t_address (c_utmi i)) pkt | None => EvNone end).
  { unfold tok_event_of. rewrite PD. reflexivity. }
  split; [unfold tsp_step in RT'; cbn [fst] in RT'; rewrite PN in RT'; exact RT'|].
  split; [exact RW'|]. split; [exact RS'|]. split; [exact RD'|]. split; [exact RF'|].
  split; [apply rel_next; [reflexivity | exact RE]|].
  split.
  { (* bytes received so far <= elapsed *)
    intros l Hl. unfold sp_next. destruct p as [l0|].
    - rewrite Hnew by discriminate. specialize (RL l0 eq_refl). unfold pk_next in Hl.
      destruct (d_act i); [|discriminate]. inversion Hl; subst l.
      destruct (d_val i); [rewrite app_length; cbn [length]|]; lia.
    - unfold pk_next in Hl. destruct (d_act i); [|discriminate]. inversion Hl; subst l. cbn [length].
      destruct (ds_new (c_ds s)); lia. }
  split.
  { intros pl Hd. unfold pk_done in Hd. destruct p as [l0|]; [|discriminate].
    destruct (d_act i); [discriminate|]. apply dclass_D8_length in Hd.
    specialize (RL l0 eq_refl). rewrite Hnew by discriminate. unfold sp_next. lia. }
  split.
  { intro Hp. unfold pk_next, pk_done in *. destruct p as [l0|]; destruct (d_act i); try reflexivity; congruence. }
  split.
  { intro Hd. rewrite Edone. destruct (pk_done p i) as [pkt|]; [|reflexivity].
    destruct (dclass_not_D0_data pkt Hd) as (q & body & -> & DP).
    rewrite data_pid_not_token by exact DP. reflexivity. }
  split; [destruct recv'; [rewrite Gs1 by reflexivity; apply RS | rewrite Gs0 by reflexivity; exact SL]|].
  split; [destruct recv'; [rewrite Gs1 by reflexivity; apply RS | rewrite Gs0 by reflexivity; exact SB]|].
  split; [destruct rx'; auto; split; [exact Grx | discriminate]|].
  split; [intro Hr; rewrite Gs0 by exact Hr; reflexivity|].
  split; [destruct Hsp as [-> | ->]; auto|].
  assert (Ewt' : wt_eff {| m_tsp := (pk_next p i, apply_event (tok_event_of true p (c_utmi i)) r);
                           m_dn := match pk_done p i with Some pkt => dclass pkt | None => D0 end;
                           m_ar := ar'; m_wt := wt'; m_rx := rx'; m_fl := le_bytes (c_setup s); m_sp := Some sp |} recv'
                 = match rx' with Rq _ => if recv' && (sp =? 1) then Some 0 else wt' | _ => wt' end) by reflexivity.
  rewrite Ewt'. split; [exact Ginv|].
  split.
  { intros k Hk. destruct (Gk k Hk) as (Gq & Ge & Gk10 & Gsp1). subst quiet. cbn [andb] in Q.
    unfold sp_next. split; [exact Ge|]. split; [exact Gk10|].
    destruct (pk_done p i) as [pkt|] eqn:PDn; [discriminate|].
    split; [reflexivity|]. split; [rewrite Edone; reflexivity | rewrite Gsp1; reflexivity]. }
  intro Hrx. destruct (Gd8 Hrx) as [pl Hpl].
  assert (Hp : p = None).
  { destruct p as [l0|]; [|reflexivity]. rewrite RP in Hpl by discriminate. discriminate. }
  subst p. rewrite Edone. cbn [pk_done]. auto.
Qed.

(* ================================================================================================ *)
(* Main theorem: every run of the corrected model is accepted by the specification monitor.         *)
Theorem c6_accepts_from : forall tr s m e, c6_rel s m e ->
  sm_accepts m (combine tr (run (c6_step true true) s tr)) = true.
Proof.
  induction tr as [|i tr IH]; intros s m e R; [reflexivity|].
  cbn [run]. destruct (c6_step true true s i) as [s' o] eqn:Es. cbn [combine sm_accepts].
  destruct (sm_step m i o) as [[m' ok]|] eqn:Em; [|reflexivity].
  assert (Eo : o = snd (c6_step true true s i)) by (rewrite Es; reflexivity).
  rewrite Eo in Em. destruct (c6_rel_step s m e i m' ok R Em) as [-> R'].
  rewrite Es in R'. cbn [fst] in R'. cbn [andb]. eapply IH. exact R'.
Qed.

Theorem c6_accepts : forall tr, sm_accepts sm_init (combine tr (run (c6_step true true) c6_init tr)) = true.
Proof. intro tr. eapply c6_accepts_from. apply c6_rel_init. Qed.

(* ================================================================================================ *)
(* "A valid SETUP transaction is never missed": once a SETUP token for this device is signalled, the *)
(* next packet, if it is a well-formed 8-byte data packet, is reported -- whatever happened before.   *)
Lemma c6_joint_app : forall a b s m,
  c6_joint s m (a ++ b) = match c6_joint s m a with Some (s', m') => c6_joint s' m' b | None => None end.
Proof.
  induction a as [|i a IH]; intros b s m; [reflexivity|].
  cbn [app c6_joint]. destruct (c6_step true true s i) as [s' o]. destruct (sm_step m i o) as [[m' ok]|]; [apply IH | reflexivity].
Qed.

Lemma c6_joint_rel : forall tr s m e s' m', c6_rel s m e -> c6_joint s m tr = Some (s', m') ->
  (exists e', c6_rel s' m' e') /\ s' = run_state (c6_step true true) s tr.
Proof.
  induction tr as [|i tr IH]; intros s m e s' m' R H.
  - inversion H; subst. split; [eauto | reflexivity].
  - cbn [c6_joint run_state] in *. destruct (c6_step true true s i) as [s1 o] eqn:Es.
    destruct (sm_step m i o) as [[m1 ok]|] eqn:Em; [|discriminate].
    assert (Eo : o = snd (c6_step true true s i)) by (rewrite Es; reflexivity). rewrite Eo in Em.
    destruct (c6_rel_step s m e i m1 ok R Em) as [_ R']. rewrite Es in R'. cbn [fst] in *.
    eapply IH; eassumption.
Qed.

(* cycles that complete no packet *)
Fixpoint no_done (p : option (list N)) (cs : list N) : Prop :=
  match cs with [] => True | i :: t => pk_done p i = None /\ no_done (pk_next p i) t end.

Definition armed_inv (m : sm_state) : Prop :=
  m_wt m = None /\ m_rx m = R0 /\ m_dn m = D0 /\
  (t_new_token (snd (m_tsp m)) = true -> t_pid (snd (m_tsp m)) = 13) /\
  (t_new_token (snd (m_tsp m)) = false -> m_ar m = A_yes).

Lemma armed_step : forall s m e sp i,
  c6_rel s m e -> armed_inv m -> m_sp m = Some sp -> c_speed i = sp ->
  pk_done (fst (m_tsp m)) i = None ->
  exists m' ok, sm_step m i (snd (c6_step true true s i)) = Some (m', ok) /\
                armed_inv m' /\ m_sp m' = Some sp /\ m_ar m' = A_yes /\
                fst (m_tsp m') = pk_next (fst (m_tsp m)) i.
Proof.
  intros s m e sp i R (Kw & Kr & Kd & Kt & Ka) Hsp Hspeed Hdone.
  pose proof R as (_ & _ & _ & _ & _ & _ & _ & _ & _ & _ & _ & _ & _ & _ & RSP & _ & _ & _).
  assert (Hsp01 : sp = 0 \/ sp = 1) by (rewrite Hsp in RSP; destruct RSP as [H|[H|H]]; inversion H; auto).
  destruct (pk_utmi (fst (m_tsp m)) i) as [PN PD].
  unfold sm_step. rewrite Hsp, Hspeed, N.eqb_refl.
  replace (sp <=? 1) with true by lia. cbn [andb negb].
  rewrite Kr, Kw, Kd, Hdone.
  destruct (m_tsp m) as [p r] eqn:Etsp. cbn [fst snd] in *.
  set (o := snd (c6_step true true s i)).
  assert (Ere : exists exp_ack, sm_react sp None (m_ar m) D0 (t_new_token r) (t_pid r =? 13) (o_ack o)
                = (A_yes, None, R0, exp_ack, false)).
  { unfold sm_react. destruct (t_new_token r) eqn:NT.
    - rewrite (Kt eq_refl). change (13 =? 13) with true. destruct (m_ar m); cbn [andb negb]; eauto.
    - rewrite (Ka eq_refl). cbn [andb]. eauto. }
  destruct Ere as [exp_ack Ere]. rewrite Ere. cbn [andb].
  eexists. eexists. split; [reflexivity|].
  cbn [m_tsp m_dn m_ar m_wt m_rx m_fl m_sp]. unfold tsp_step. cbn [fst snd].
  unfold armed_inv. cbn [m_tsp m_dn m_ar m_wt m_rx m_fl m_sp fst snd].
  unfold tok_event_of. rewrite PD, Hdone, PN. cbn [apply_event t_new_token].
  repeat split; auto; discriminate.
Qed.

Lemma armed_cycles : forall cs s m e sp,
  c6_rel s m e -> armed_inv m -> m_sp m = Some sp -> Forall (fun i => c_speed i = sp) cs ->
  no_done (fst (m_tsp m)) cs -> cs <> [] ->
  exists s' m', c6_joint s m cs = Some (s', m') /\ armed_inv m' /\ m_sp m' = Some sp /\ m_ar m' = A_yes /\
                fst (m_tsp m') = fold_left pk_next cs (fst (m_tsp m)).
Proof.
  induction cs as [|i cs IH]; intros s m e sp R K Hsp Hall Hnd Hne; [congruence|].
  inversion Hall as [|? ? Hi Hcs]; subst. destruct Hnd as [Hd Hnd].
  destruct (armed_step s m e _ i R K Hsp eq_refl Hd) as (m1 & ok & Em & K1 & Hsp1 & Ha1 & Hp1).
  cbn [c6_joint fold_left]. destruct (c6_step true true s i) as [s1 o] eqn:Es. cbn [snd] in Em. rewrite Em.
  destruct cs as [|j cs'].
  - cbn [c6_joint fold_left]. exists s1, m1. auto.
  - assert (Eo : o = snd (c6_step true true s i)) by (rewrite Es; reflexivity). rewrite Eo in Em.
    destruct (c6_rel_step s m e i m1 ok R Em) as [_ R1]. rewrite Es in R1. cbn [fst] in R1.
    rewrite <- Hp1 in Hnd.
    destruct (IH s1 m1 _ _ R1 K1 Hsp1 Hcs Hnd ltac:(discriminate)) as (s' & m' & J & K' & Hsp' & Ha' & Hp').
    exists s', m'. rewrite Hp1 in Hp'. auto.
Qed.

(* what the model's output word shows *)
Lemma c6_out_obs : forall s m e i, c6_rel s m e ->
  let o := snd (c6_step true true s i) in
  o_recv o = c_recv s /\ o_flds o = le_bytes (c_setup s) /\ o_endp o = t_ep (td_regs (c_td s)).
Proof.
  intros s m e i R o. subst o.
  destruct R as (RT & RW & _ & _ & _ & _ & _ & _ & _ & _ & SL & SB & _).
  unfold c6_step. destruct (sd_step _ _ _ _ _ _ _ _ _ _) as [[[f' recv'] setup'] ack]. cbn [snd].
  assert (Hfl : le_bytes (c_setup s) < 2 ^ 64).
  { pose proof (le_bytes_bound _ SB) as B. rewrite SL in B. exact B. }
  assert (Hep : t_ep (td_regs (c_td s)) < 16) by (destruct RW as (_ & _ & (_ & _ & Hep & _)); exact Hep).
  destruct (c6_out_fields (c_recv s) ack _ _ Hfl Hep) as (O1 & O2 & O3 & O4). unfold c6_out. auto.
Qed.

Lemma data_packet_reported : forall s m e sp pkt pl y1 y2 y3,
  c6_rel s m e -> armed_inv m -> m_sp m = Some sp ->
  fst (m_tsp m) = Some pkt -> dclass pkt = D8 pl -> d_act y1 = false ->
  c_speed y1 = sp -> c_speed y2 = sp -> c_speed y3 = sp ->
  let s1 := fst (c6_step true true s y1) in
  let s2 := fst (c6_step true true s1 y2) in
  o_ack (snd (c6_step true true s1 y2)) = (sp =? 0) /\
  o_recv (snd (c6_step true true s2 y3)) = true /\ o_flds (snd (c6_step true true s2 y3)) = le_bytes pl /\
  exists m2 e2, c6_joint s m [y1; y2] = Some (s2, m2) /\ c6_rel s2 m2 e2 /\
                m_wt m2 = (if sp =? 0 then None else Some 0) /\ m_rx m2 = R1 pl /\ m_sp m2 = Some sp.
Proof.
  intros s m e sp pkt pl y1 y2 y3 R (Kw & Kr & Kd & Kt & Ka) Hsp Hp Hd8 Hact S1 S2 S3 s1 s2.
  pose proof R as (_ & _ & _ & _ & _ & _ & _ & _ & _ & _ & _ & _ & _ & _ & RSP & _ & _ & _).
  assert (Hsp01 : sp = 0 \/ sp = 1) by (rewrite Hsp in RSP; destruct RSP as [H|[H|H]]; inversion H; auto).
  (* cycle y1: the data packet completes *)
  destruct (m_tsp m) as [p r] eqn:Etsp. cbn [fst snd] in *. subst p.
  assert (E1 : exists m1 ok1, sm_step m y1 (snd (c6_step true true s y1)) = Some (m1, ok1) /\
             m_dn m1 = D8 pl /\ m_ar m1 = A_yes /\ m_wt m1 = None /\ m_rx m1 = R0 /\ m_sp m1 = Some sp /\
             fst (m_tsp m1) = None).
  { unfold sm_step. rewrite Hsp, S1, N.eqb_refl. replace (sp <=? 1) with true by lia. cbn [andb negb].
    rewrite Kr, Kw, Kd, Etsp. cbn [fst snd].
    set (o := snd (c6_step true true s y1)).
    assert (Ere : exists exp_ack, sm_react sp None (m_ar m) D0 (t_new_token r) (t_pid r =? 13) (o_ack o)
                  = (A_yes, None, R0, exp_ack, false)).
    { unfold sm_react. destruct (t_new_token r) eqn:NT.
      - rewrite (Kt eq_refl). change (13 =? 13) with true. destruct (m_ar m); cbn [andb negb]; eauto.
      - rewrite (Ka eq_refl). cbn [andb]. eauto. }
    destruct Ere as [exp_ack Ere]. rewrite Ere. cbn [andb].
    eexists. eexists. split; [reflexivity|]. cbn [m_tsp m_dn m_ar m_wt m_rx m_fl m_sp].
    unfold pk_done. rewrite Hact. unfold tsp_step. cbn [fst snd].
    destruct (pk_utmi (Some pkt) y1) as [PN _]. rewrite PN. unfold pk_next. rewrite Hact. auto 10. }
  destruct E1 as (m1 & ok1 & Em1 & D1 & A1 & W1 & X1 & P1 & N1).
  destruct (c6_rel_step s m e y1 m1 ok1 R Em1) as [_ Rel1]. fold s1 in Rel1.
  (* cycle y2: the deserializer signals the packet; the decoder reacts *)
  assert (E2 : exists m2 ok2, sm_step m1 y2 (snd (c6_step true true s1 y2)) = Some (m2, ok2) /\
             (ok2 = true -> o_ack (snd (c6_step true true s1 y2)) = (sp =? 0)) /\
             m_rx m2 = R1 pl /\ m_wt m2 = (if sp =? 0 then None else Some 0) /\ m_sp m2 = Some sp).
  { unfold sm_step. rewrite P1, S2, N.eqb_refl. replace (sp <=? 1) with true by lia. cbn [andb negb].
    rewrite X1, W1, A1, D1, N1. unfold pk_done. unfold sm_react.
    destruct Hsp01 as [-> | ->]; change (0 =? 0) with true; change (1 =? 0) with false; change (1 =? 1) with true;
      change (0 =? 1) with false; cbn [andb].
    - eexists. eexists. split; [reflexivity|]. cbn [m_rx m_wt m_sp]. repeat split; auto.
      intro H. rewrite !andb_true_iff in H. destruct H as [[[_ _] H] _]. apply Bool.eqb_prop in H. exact H.
    - eexists. eexists. split; [reflexivity|]. cbn [m_rx m_wt m_sp]. repeat split; auto.
      intro H. rewrite !andb_true_iff in H. destruct H as [[[_ _] H] _]. apply Bool.eqb_prop in H. exact H. }
  destruct E2 as (m2 & ok2 & Em2 & Hack & X2 & W2 & P2).
  destruct (c6_rel_step s1 m1 _ y2 m2 ok2 Rel1 Em2) as [Hok Rel2]. fold s2 in Rel2.
  split; [apply Hack; exact Hok|].
  destruct (c6_out_obs s2 m2 _ y3 Rel2) as (O1 & O2 & _).
  pose proof Rel2 as (_ & _ & _ & _ & _ & _ & _ & _ & _ & _ & _ & _ & RR2 & _).
  rewrite X2 in RR2. destruct RR2 as [RR2a RR2b].
  split; [rewrite O1; exact RR2a|]. split; [rewrite O2, RR2b; reflexivity|].
  exists m2. eexists. split.
  { subst s2 s1. cbn [c6_joint]. destruct (c6_step true true s y1) as [s1' o1] eqn:Es1. cbn [fst snd] in *. rewrite Em1.
    destruct (c6_step true true s1' y2) as [s2' o2] eqn:Es2. cbn [fst snd] in *. rewrite Em2. reflexivity. }
  split; [exact Rel2|]. auto.
Qed.

(* ---- packets as cycle lists --------------------------------------------------------------------- *)
Lemma active_prefix_all : forall l, Forall (fun i => d_act i = true) l -> active_prefix l = l.
Proof. induction l as [|i l IH]; intro H; [reflexivity|]. inversion H; subst. cbn [active_prefix]. rewrite H2, IH by assumption. reflexivity. Qed.

Lemma fold_pk_run : forall runc, runc <> [] -> Forall (fun i => d_act i = true) runc ->
  fold_left pk_next runc None = Some (run_bytes runc).
Proof.
  intros runc Hne Hall. change (fold_left pk_next runc None) with (cur_pkt runc).
  rewrite cur_pkt_closed_form. unfold pkt_in_progress, run_cycles.
  rewrite active_prefix_all by (apply Forall_rev; exact Hall). rewrite rev_involutive.
  destruct runc; [congruence | reflexivity].
Qed.

Lemma fold_pk_gap : forall gap, Forall (fun i => d_act i = false) gap -> fold_left pk_next gap None = None.
Proof. induction gap as [|i gap IH]; intro H; [reflexivity|]. inversion H; subst. cbn [fold_left pk_next]. rewrite H2. apply IH. exact H3. Qed.

Lemma no_done_active : forall runc p, Forall (fun i => d_act i = true) runc -> no_done p runc.
Proof.
  induction runc as [|i runc IH]; intros p H; [exact I|]. inversion H; subst. cbn [no_done]. split; [|apply IH; exact H3].
  unfold pk_done. destruct p; [rewrite H2|]; reflexivity.
Qed.

Lemma no_done_gap_run : forall gap runc, Forall (fun i => d_act i = false) gap -> Forall (fun i => d_act i = true) runc ->
  no_done None (gap ++ runc).
Proof.
  induction gap as [|i gap IH]; intros runc Hg Hr; [apply no_done_active; exact Hr|].
  inversion Hg; subst. cbn [app no_done pk_done pk_next]. rewrite H1. split; [reflexivity | apply IH; assumption].
Qed.

(* Core statement, from any reachable situation: in the current cycle a SETUP token for this device is being
   signalled (new_token with pid SETUP; by C01 that is exactly: a well-formed SETUP token packet with the device's
   address completed in the previous cycle).  If the next packet -- after any number of idle cycles, with any
   rx_valid pattern -- is a data packet with 8 payload bytes pl and a correct CRC16, then the decoder requests
   the ACK in the cycle after the packet ends iff the bus is high speed, and reports `received` with the setup
   bytes pl one cycle later.  Nothing is assumed about the history that led to (s, m). *)
Theorem setup_reported_from : forall s m e sp gap runc pl y1 y2 y3,
  c6_rel s m e -> m_sp m = Some sp ->
  t_new_token (snd (m_tsp m)) = true -> t_pid (snd (m_tsp m)) = 13 -> fst (m_tsp m) = None ->
  Forall (fun i => d_act i = false) gap -> Forall (fun i => d_act i = true) runc -> runc <> [] ->
  dclass (run_bytes runc) = D8 pl -> d_act y1 = false ->
  Forall (fun i => c_speed i = sp) (gap ++ runc ++ [y1; y2; y3]) ->
  let outs := run (c6_step true true) s (gap ++ runc ++ [y1; y2; y3]) in
  let n := (length gap + length runc)%nat in
  o_ack (nth (n + 1) outs 0) = (sp =? 0) /\
  o_recv (nth (n + 2) outs 0) = true /\ o_flds (nth (n + 2) outs 0) = le_bytes pl.
Proof.
  intros s m e sp gap runc pl y1 y2 y3 R Hsp Hnt Hpid Hp Hgap Hrun Hne Hd8 Hy1 Hspeed outs n.
  (* the monitor is in a state without pending effects *)
  assert (K : armed_inv m).
  { destruct R as (_ & _ & _ & _ & _ & _ & _ & _ & _ & RX & _ & _ & RR & _ & _ & RI & RK & RQ).
    assert (Hdn : m_dn m = D0).
    { destruct (m_dn m) eqn:E; [reflexivity| | |]; rewrite RX in Hnt by discriminate; discriminate. }
    assert (Hrx : m_rx m = R0).
    { destruct (m_rx m) eqn:E; [reflexivity| |]; destruct RQ as [_ Q]; try discriminate; rewrite Q in Hnt; discriminate. }
    assert (Hwt : m_wt m = None).
    { destruct (m_wt m) as [k|] eqn:E; [|reflexivity].
      assert (W : wt_eff m (c_recv s) = Some k) by (unfold wt_eff; rewrite Hrx; exact E).
      destruct (RK k W) as (_ & _ & _ & Q & _). rewrite Q in Hnt. discriminate. }
    unfold armed_inv. repeat split; auto. intro Q. rewrite Q in Hnt. discriminate. }
  assert (Hsp_cs : Forall (fun i => c_speed i = sp) (gap ++ runc)).
  { rewrite app_assoc in Hspeed. apply Forall_app in Hspeed. tauto. }
  assert (Hsp_y : c_speed y1 = sp /\ c_speed y2 = sp /\ c_speed y3 = sp).
  { rewrite app_assoc in Hspeed. apply Forall_app in Hspeed as [_ H]. inversion H as [|? ? H1 H']; subst.
    inversion H' as [|? ? H2 H'']; subst. inversion H'' as [|? ? H3 _]; subst. auto. }
  destruct Hsp_y as (S1 & S2 & S3).
  assert (Hnd : no_done (fst (m_tsp m)) (gap ++ runc)) by (rewrite Hp; apply no_done_gap_run; assumption).
  assert (Hne' : gap ++ runc <> []) by (destruct gap; [exact Hne | discriminate]).
  destruct (armed_cycles (gap ++ runc) s m e sp R K Hsp Hsp_cs Hnd Hne') as (s' & m' & J & K' & Hsp' & Ha' & Hp').
  destruct (c6_joint_rel _ _ _ _ _ _ R J) as [[e' R'] Es'].
  rewrite Hp, fold_left_app, fold_pk_gap, fold_pk_run in Hp' by assumption.
  destruct (data_packet_reported s' m' e' sp _ pl y1 y2 y3 R' K' Hsp' Hp' Hd8 Hy1 S1 S2 S3) as (A & B & C & _).
  subst outs n. rewrite app_assoc, run_app, <- Es'.
  assert (L : length (run (c6_step true true) s (gap ++ runc)) = (length gap + length runc)%nat)
    by (rewrite run_length, app_length; reflexivity).
  rewrite <- L. rewrite !app_nth2_plus.
  cbn [run]. destruct (c6_step true true s' y1) as [s1 o1] eqn:E1. cbn [fst snd] in *.
  destruct (c6_step true true s1 y2) as [s2 o2] eqn:E2. cbn [fst snd] in *.
  destruct (c6_step true true s2 y3) as [s3 o3] eqn:E3. cbn [fst snd nth] in *. auto.
Qed.

(* ---- from reset ------------------------------------------------------------------------------- *)
Lemma some_pair_inj : forall (a a' : sm_state) (b b' : bool), Some (a, b) = Some (a', b') -> a = a'.
Proof. intros a a' b b' H. injection H. auto. Qed.

Lemma sm_step_tsp : forall m i o m' ok, sm_step m i o = Some (m', ok) ->
  m_tsp m' = fst (tsp_step true (m_tsp m) (c_utmi i)) /\
  m_sp m' = Some (match m_sp m with Some x => x | None => c_speed i end).
Proof.
  intros m i o m' ok H. unfold sm_step in H.
  destruct (negb ((c_speed i =? match m_sp m with Some x => x | None => c_speed i end) &&
                  (match m_sp m with Some x => x | None => c_speed i end <=? 1))); [discriminate|].
  match type of H with context [sm_react ?a ?b ?c ?d ?e ?f ?g] => destruct (sm_react a b c d e f g) as [[[[ar' wt'] rx'] ea] q] end.
  match type of H with context [if ?c then None else _] => destruct c end; [discriminate|].
  rewrite <- (some_pair_inj _ _ _ _ H). cbn [m_tsp m_sp]. auto.
Qed.

Lemma joint_tsp : forall h s m s' m', c6_joint s m h = Some (s', m') ->
  m_tsp m' = run_state (tsp_step true) (m_tsp m) (map c_utmi h).
Proof.
  induction h as [|i h IH]; intros s m s' m' H; [inversion H; reflexivity|].
  cbn [c6_joint map run_state] in *. destruct (c6_step true true s i) as [s1 o].
  destruct (sm_step m i o) as [[m1 ok]|] eqn:Em; [|discriminate].
  rewrite (IH _ _ _ _ H). destruct (sm_step_tsp _ _ _ _ _ Em) as [E _]. rewrite E. reflexivity.
Qed.

Lemma joint_speed : forall h s m s' m' sp, c6_joint s m h = Some (s', m') -> h <> [] ->
  (m_sp m = None \/ m_sp m = Some sp) -> Forall (fun i => c_speed i = sp) h -> m_sp m' = Some sp.
Proof.
  induction h as [|i h IH]; intros s m s' m' sp H Hne Hm Hall; [congruence|].
  inversion Hall as [|? ? Hi Hh]; subst.
  cbn [c6_joint] in H. destruct (c6_step true true s i) as [s1 o].
  destruct (sm_step m i o) as [[m1 ok]|] eqn:Em; [|discriminate].
  assert (E1 : m_sp m1 = Some (c_speed i)).
  { destruct (sm_step_tsp _ _ _ _ _ Em) as [_ E]. rewrite E. destruct Hm as [-> | ->]; reflexivity. }
  destruct h as [|j h']; [inversion H; subst; exact E1|].
  eapply IH; [exact H | discriminate | right; exact E1 | exact Hh].
Qed.

Lemma tsp_new_token_idle : forall filt h,
  t_new_token (regs_after filt h) = true -> cur_pkt h = None.
Proof.
  intros filt h. destruct h as [|x h] using rev_ind; [reflexivity|]. clear IHh.
  rewrite regs_after_snoc, <- cur_pkt_closed_form. unfold cur_pkt. rewrite fold_left_app. cbn [fold_left].
  generalize (fold_left pk_next h None). intros [l|]; unfold tok_event_of, pk_done, pk_next.
  - destruct (d_act x); [intro H; simpl in H; discriminate H | reflexivity].
  - intro H. simpl in H. discriminate H.
Qed.

(* "A preceding corrupted, aborted or unrelated packet never causes a later valid SETUP transaction to be
   missed."  h0 is ANY input history (for which the environment assumption holds); then a packet that is a
   well-formed SETUP token for this device completes in cycle x; after any idle gap the next packet (cycles
   runc, any rx_valid pattern) carries a DATAx PID, 8 bytes pl and their CRC16: the setup request is reported. *)
Theorem setup_never_missed : forall h0 x tok a ep sp gap runc pl y1 y2 y3,
  let h := h0 ++ [x] in
  c6_env h = true ->
  pkt_in_progress (map c_utmi h0) = Some tok -> d_act x = false ->
  classify true (t_address (c_utmi x)) tok = EvToken PID_SETUP a ep ->
  Forall (fun i => d_act i = false) gap -> Forall (fun i => d_act i = true) runc -> runc <> [] ->
  dclass (run_bytes runc) = D8 pl -> d_act y1 = false ->
  Forall (fun i => c_speed i = sp) (h ++ gap ++ runc ++ [y1; y2; y3]) ->
  let outs := run (c6_step true true) c6_init (h ++ gap ++ runc ++ [y1; y2; y3]) in
  let n := (length h + length gap + length runc)%nat in
  o_ack (nth (n + 1) outs 0) = (sp =? 0) /\
  o_recv (nth (n + 2) outs 0) = true /\ o_flds (nth (n + 2) outs 0) = le_bytes pl.
Proof.
  intros h0 x tok a ep sp gap runc pl y1 y2 y3 h Henv Htok Hx Hcl Hgap Hrun Hne Hd8 Hy1 Hspeed outs n.
  unfold c6_env in Henv. destruct (c6_joint c6_init sm_init h) as [[s m]|] eqn:J; [|discriminate].
  destruct (c6_joint_rel _ _ _ _ _ _ c6_rel_init J) as [[e R] Es].
  apply Forall_app in Hspeed as [Hsp_h Hsp_rest].
  assert (Hsp : m_sp m = Some sp).
  { eapply joint_speed; [exact J | subst h; destruct h0; discriminate | left; reflexivity | exact Hsp_h]. }
  pose proof (joint_tsp _ _ _ _ _ J) as Etsp. change (m_tsp sm_init) with tsp_init in Etsp.
  rewrite tsp_state_after in Etsp.
  assert (Eregs : snd (m_tsp m) = apply_event (EvToken PID_SETUP a ep) (regs_after true (map c_utmi h0))).
  { rewrite Etsp. cbn [snd]. subst h. rewrite map_app. cbn [map]. rewrite regs_after_snoc.
    f_equal. unfold tok_event_of. rewrite Htok. destruct (pk_utmi (Some tok) x) as [_ PD]. rewrite PD.
    unfold pk_done. rewrite Hx. exact Hcl. }
  assert (Hnt : t_new_token (snd (m_tsp m)) = true) by (rewrite Eregs; reflexivity).
  assert (Hpid : t_pid (snd (m_tsp m)) = 13) by (rewrite Eregs; reflexivity).
  assert (Hp : fst (m_tsp m) = None).
  { rewrite Etsp. cbn [fst]. apply (tsp_new_token_idle true). rewrite Etsp in Hnt. exact Hnt. }
  destruct (setup_reported_from s m e sp gap runc pl y1 y2 y3 R Hsp Hnt Hpid Hp Hgap Hrun Hne Hd8 Hy1 Hsp_rest)
    as (A & B & C).
  subst outs n. rewrite run_app, <- Es.
  assert (L : length (run (c6_step true true) c6_init h) = length h) by apply run_length.
  rewrite <- L, <- !Nat.add_assoc, !app_nth2_plus. rewrite !Nat.add_assoc. auto.
Qed.

(* ---- soundness of `received` -------------------------------------------------------------------- *)
Lemma sm_react_rx : forall sp wt ar dn ntok stok ack ar' wt' rx' ea q,
  sm_react sp wt ar dn ntok stok ack = (ar', wt', rx', ea, q) ->
  match rx' with R0 => True | R1 pl | Rq pl => wt = None /\ dn = D8 pl /\ ar <> A_no end.
Proof.
  intros sp wt ar dn ntok stok ack ar' wt' rx' ea q H. unfold sm_react in H.
  destruct wt as [k|]; [destruct (k =? 10); inversion H; exact I|].
  destruct ar; destruct dn as [|pl| |]; try (inversion H; exact I);
    try (destruct (sp =? 0); [destruct ack|]; inversion H; subst; try exact I; repeat split; discriminate).
  all: inversion H; subst; repeat split; discriminate.
Qed.

Lemma sm_step_rx : forall m i o m' ok, sm_step m i o = Some (m', ok) ->
  match m_rx m' with R0 => True | R1 pl | Rq pl => m_dn m = D8 pl /\ m_ar m <> A_no end.
Proof.
  intros m i o m' ok H. unfold sm_step in H.
  destruct (negb ((c_speed i =? match m_sp m with Some x => x | None => c_speed i end) &&
                  (match m_sp m with Some x => x | None => c_speed i end <=? 1))); [discriminate|].
  match type of H with context [sm_react ?a ?b ?c ?d ?e ?f ?g] =>
    destruct (sm_react a b c d e f g) as [[[[ar' wt'] rx'] ea] q] eqn:Hre end.
  match type of H with context [if ?c then None else _] => destruct c end; [discriminate|].
  rewrite <- (some_pair_inj _ _ _ _ H). cbn [m_rx]. pose proof (sm_react_rx _ _ _ _ _ _ _ _ _ _ _ _ Hre) as P.
  destruct rx'; [exact I | tauto | tauto].
Qed.

(* `received` is shown only in the second cycle after a well-formed 8-byte data packet completed while the
   decoder was armed (or possibly armed), and then with exactly that packet's bytes *)
Theorem received_sound : forall h i s m s' m',
  c6_joint c6_init sm_init h = Some (s, m) -> c6_joint c6_init sm_init (h ++ [i]) = Some (s', m') ->
  c_recv s' = true -> exists pl, m_dn m = D8 pl /\ m_ar m <> A_no /\ c_setup s' = pl.
Proof.
  intros h i s m s' m' J J' Hr. rewrite c6_joint_app, J in J'. cbn [c6_joint] in J'.
  destruct (c6_joint_rel _ _ _ _ _ _ c6_rel_init J) as [[e R] _].
  destruct (c6_step true true s i) as [s1 o] eqn:Es.
  destruct (sm_step m i o) as [[m1 ok]|] eqn:Em; [|discriminate]. inversion J'; subst s1 m1.
  assert (Eo : o = snd (c6_step true true s i)) by (rewrite Es; reflexivity). rewrite Eo in Em.
  destruct (c6_rel_step s m e i m' ok R Em) as [_ R']. rewrite Es in R'. cbn [fst] in R'.
  pose proof (sm_step_rx _ _ _ _ _ Em) as P.
  destruct R' as (_ & _ & _ & _ & _ & _ & _ & _ & _ & _ & _ & _ & RR & _).
  destruct (m_rx m') as [|pl|pl].
  - rewrite RR in Hr. discriminate.
  - exists pl. destruct RR as [_ ->]. tauto.
  - exists pl. destruct RR as [RR _]. rewrite (RR Hr). tauto.
Qed.

(* ---- full speed: the ACK request comes exactly when the inter-packet delay has elapsed ---------- *)
Lemma delay_step : forall s m e k i,
  c6_rel s m e -> m_wt m = Some k -> (forall pl, m_rx m <> Rq pl) -> m_sp m = Some 1 -> c_speed i = 1 ->
  (k <> 10 -> pk_done (fst (m_tsp m)) i = None) ->
  exists m' ok, sm_step m i (snd (c6_step true true s i)) = Some (m', ok) /\
    o_ack (snd (c6_step true true s i)) = (k =? 10) /\
    m_wt m' = (if k =? 10 then None else Some (k + 1)) /\ m_rx m' = R0 /\ m_sp m' = Some 1 /\
    fst (m_tsp m') = pk_next (fst (m_tsp m)) i.
Proof.
  intros s m e k i R Hw Hrx Hsp Hspeed Hq.
  assert (E : exists m' ok, sm_step m i (snd (c6_step true true s i)) = Some (m', ok) /\
            (ok = true -> o_ack (snd (c6_step true true s i)) = (k =? 10)) /\
            m_wt m' = (if k =? 10 then None else Some (k + 1)) /\ m_rx m' = R0 /\ m_sp m' = Some 1 /\
            fst (m_tsp m') = pk_next (fst (m_tsp m)) i).
  { unfold sm_step. rewrite Hsp, Hspeed. change (negb ((1 =? 1) && (1 <=? 1))) with false. cbv iota.
    assert (Ew : match m_rx m with Rq _ => if o_recv (snd (c6_step true true s i)) && (1 =? 1) then Some 0 else m_wt m
                                 | _ => m_wt m end = Some k).
    { destruct (m_rx m) as [| |pl] eqn:Erx; try exact Hw. exfalso. exact (Hrx pl eq_refl). }
    rewrite Ew. unfold sm_react.
    destruct (pk_utmi (fst (m_tsp m)) i) as [PN _].
    destruct (k =? 10) eqn:K.
    - cbn [andb]. eexists. eexists. split; [reflexivity|]. cbn [m_wt m_rx m_sp m_tsp].
      unfold tsp_step. destruct (m_tsp m) as [p r]. cbn [fst snd] in *. rewrite PN. repeat split; auto.
      intro H. rewrite !andb_true_iff in H. destruct H as [[[_ _] H] _]. apply Bool.eqb_prop in H. exact H.
    - rewrite Hq by lia. cbn [andb]. eexists. eexists. split; [reflexivity|]. cbn [m_wt m_rx m_sp m_tsp].
      unfold tsp_step. destruct (m_tsp m) as [p r]. cbn [fst snd] in *. rewrite PN. repeat split; auto.
      intro H. rewrite !andb_true_iff in H. destruct H as [[[_ _] H] _]. apply Bool.eqb_prop in H. exact H. }
  destruct E as (m' & ok & Em & Hack & W & X & P & T).
  destruct (c6_rel_step s m e i m' ok R Em) as [Hok _].
  exists m', ok. repeat split; auto.
Qed.

Lemma delay_cycles : forall cs s m e k,
  c6_rel s m e -> m_wt m = Some k -> (forall pl, m_rx m <> Rq pl) -> m_sp m = Some 1 ->
  Forall (fun i => c_speed i = 1) cs -> no_done (fst (m_tsp m)) cs -> k + N.of_nat (length cs) = 10 ->
  Forall (fun o => o_ack o = false) (run (c6_step true true) s cs) /\
  exists m' e', c6_rel (run_state (c6_step true true) s cs) m' e' /\ m_wt m' = Some 10 /\
                (forall pl, m_rx m' <> Rq pl) /\ m_sp m' = Some 1.
Proof.
  induction cs as [|i cs IH]; intros s m e k R Hw Hrx Hsp Hall Hnd Hk.
  - cbn [length] in Hk. split; [constructor|]. exists m, e. cbn [run_state].
    split; [exact R|]. split; [rewrite Hw; f_equal; lia|]. split; assumption.
  - inversion Hall as [|? ? Hi Hcs]; subst. destruct Hnd as [Hd Hnd]. cbn [length] in Hk.
    destruct (delay_step s m e k i R Hw Hrx Hsp Hi (fun _ => Hd)) as (m1 & ok & Em & Hack & W & X & P & T).
    replace (k =? 10) with false in * by lia.
    destruct (c6_rel_step s m e i m1 ok R Em) as [_ R1].
    cbn [run run_state]. destruct (c6_step true true s i) as [s1 o] eqn:Es. cbn [fst snd] in *.
    rewrite <- T in Hnd.
    destruct (IH s1 m1 _ (k + 1) R1 W ltac:(intros pl; rewrite X; discriminate) P Hcs Hnd ltac:(lia)) as [F E].
    split; [constructor; assumption | exact E].
Qed.

Lemma tsp_fst_fold : forall cs st, fst (run_state (tsp_step true) st (map c_utmi cs)) = fold_left pk_next cs (fst st).
Proof.
  induction cs as [|i cs IH]; intro st; [reflexivity|]. cbn [map run_state fold_left]. rewrite IH.
  destruct st as [p r]. unfold tsp_step. cbn [fst]. destruct (pk_utmi p i) as [-> _]. reflexivity.
Qed.

(* Full speed: after the situation of setup_reported_from, if the bus stays idle for the 11 cycles after the
   data packet's last cycle, the ACK request is raised in exactly the 12th cycle after rx_active fell
   (cycle n = rx_active falls; n+1 the packet is signalled and the timer restarts; 10 cycles = 2 bit times later). *)
Theorem fs_ack_timing_from : forall s m e gap runc pl y1 y2 zs z,
  c6_rel s m e -> m_sp m = Some 1 ->
  t_new_token (snd (m_tsp m)) = true -> t_pid (snd (m_tsp m)) = 13 -> fst (m_tsp m) = None ->
  Forall (fun i => d_act i = false) gap -> Forall (fun i => d_act i = true) runc -> runc <> [] ->
  dclass (run_bytes runc) = D8 pl -> d_act y1 = false ->
  Forall (fun i => d_act i = false) (y2 :: zs) -> length zs = 10%nat ->
  Forall (fun i => c_speed i = 1) (gap ++ runc ++ [y1; y2] ++ zs ++ [z]) ->
  let outs := run (c6_step true true) s (gap ++ runc ++ [y1; y2] ++ zs ++ [z]) in
  let n := (length gap + length runc)%nat in
  o_ack (nth (n + 1) outs 0) = false /\
  (forall j, (j < 10)%nat -> o_ack (nth (n + 2 + j) outs 0) = false) /\
  o_ack (nth (n + 12) outs 0) = true.
Proof.
  intros s m e gap runc pl y1 y2 zs z R Hsp Hnt Hpid Hp Hgap Hrun Hne Hd8 Hy1 Hidle Hlen Hspeed outs n.
  assert (K : armed_inv m).
  { destruct R as (_ & _ & _ & _ & _ & _ & _ & _ & _ & RX & _ & _ & RR & _ & _ & RI & RK & RQ).
    assert (Hdn : m_dn m = D0).
    { destruct (m_dn m) eqn:E; [reflexivity| | |]; rewrite RX in Hnt by discriminate; discriminate. }
    assert (Hrx : m_rx m = R0).
    { destruct (m_rx m) eqn:E; [reflexivity| |]; destruct RQ as [_ Q]; try discriminate; rewrite Q in Hnt; discriminate. }
    assert (Hwt : m_wt m = None).
    { destruct (m_wt m) as [k|] eqn:E; [|reflexivity].
      assert (W : wt_eff m (c_recv s) = Some k) by (unfold wt_eff; rewrite Hrx; exact E).
      destruct (RK k W) as (_ & _ & _ & Q & _). rewrite Q in Hnt. discriminate. }
    unfold armed_inv. repeat split; auto. intro Q. rewrite Q in Hnt. discriminate. }
  rewrite app_assoc in Hspeed. apply Forall_app in Hspeed as [Hsp_cs Hsp_r].
  apply Forall_app in Hsp_r as [Hsp_y Hsp_z]. apply Forall_app in Hsp_z as [Hsp_zs Hsp_z].
  inversion Hsp_y as [|? ? S1 Hy']; subst. inversion Hy' as [|? ? S2 _]; subst. inversion Hsp_z as [|? ? S3 _]; subst.
  inversion Hidle as [|? ? Hy2 Hzs]; subst.
  assert (Hnd : no_done (fst (m_tsp m)) (gap ++ runc)) by (rewrite Hp; apply no_done_gap_run; assumption).
  assert (Hne' : gap ++ runc <> []) by (destruct gap; [exact Hne | discriminate]).
  destruct (armed_cycles (gap ++ runc) s m e 1 R K Hsp Hsp_cs Hnd Hne') as (s' & m' & J & K' & Hsp' & Ha' & Hp').
  destruct (c6_joint_rel _ _ _ _ _ _ R J) as [[e' R'] Es'].
  rewrite Hp, fold_left_app, fold_pk_gap, fold_pk_run in Hp' by assumption.
  destruct (data_packet_reported s' m' e' 1 _ pl y1 y2 z R' K' Hsp' Hp' Hd8 Hy1 S1 S2 S3)
    as (A & _ & _ & m2 & e2 & J2 & R2 & W2 & X2 & P2).
  change (1 =? 0) with false in *.
  set (s1 := fst (c6_step true true s' y1)) in *. set (s2 := fst (c6_step true true s1 y2)) in *.
  assert (Hp2 : fst (m_tsp m2) = None).
  { rewrite (joint_tsp _ _ _ _ _ J2), tsp_fst_fold, Hp'. cbn [fold_left]. unfold pk_next. rewrite Hy1, Hy2. reflexivity. }
  assert (Hnd2 : no_done (fst (m_tsp m2)) zs) by (rewrite Hp2; rewrite <- (app_nil_r zs); apply no_done_gap_run; auto).
  destruct (delay_cycles zs s2 m2 e2 0 R2 W2 ltac:(intros q; rewrite X2; discriminate) P2 Hsp_zs Hnd2 ltac:(rewrite Hlen; reflexivity))
    as (F & m3 & e3 & R3 & W3 & X3 & P3).
  destruct (delay_step _ m3 e3 10 z R3 W3 X3 P3 S3 ltac:(congruence)) as (_ & _ & _ & Az & _).
  change (10 =? 10) with true in Az.
  (* locate the outputs *)
  assert (Es2 : s2 = run_state (c6_step true true) s ((gap ++ runc) ++ [y1; y2])).
  { rewrite run_state_app, <- Es'. reflexivity. }
  subst outs n.
  replace (gap ++ runc ++ [y1; y2] ++ zs ++ [z]) with ((gap ++ runc) ++ [y1; y2] ++ zs ++ [z]) by (rewrite <- app_assoc; reflexivity).
  rewrite run_app, <- Es'.
  assert (L : length (run (c6_step true true) s (gap ++ runc)) = (length gap + length runc)%nat)
    by (rewrite run_length, app_length; reflexivity).
  rewrite <- L.
  assert (E12 : run (c6_step true true) s' ([y1; y2] ++ zs ++ [z]) =
                [snd (c6_step true true s' y1); snd (c6_step true true s1 y2)] ++
                run (c6_step true true) s2 zs ++ [snd (c6_step true true (run_state (c6_step true true) s2 zs) z)]).
  { cbn [app run]. subst s2 s1. destruct (c6_step true true s' y1) as [a1 o1]. cbn [fst snd].
    destruct (c6_step true true a1 y2) as [a2 o2]. cbn [fst snd]. rewrite run_app. cbn [run].
    destruct (c6_step true true (run_state (c6_step true true) a2 zs) z). reflexivity. }
  rewrite E12. split; [|split].
  - rewrite app_nth2_plus. exact A.
  - intros j Hj. rewrite <- Nat.add_assoc, app_nth2_plus. change (2 + j)%nat with (S (S j)). cbn [app nth].
    rewrite app_nth1 by (rewrite run_length; lia).
    rewrite Forall_forall in F. apply F. apply nth_In. rewrite run_length. lia.
  - rewrite app_nth2_plus. change 12%nat with (S (S 10)). cbn [app nth].
    rewrite app_nth2; rewrite run_length, Hlen; [|lia]. rewrite Nat.sub_diag. exact Az.
Qed.

(* exhaustive single-transaction sweeps of a netlist from reset *)
Theorem c6_sweep_sound : forall gstep ginit w mk, c6_sweep_eq gstep ginit w mk = true ->
  forall x, x < 2 ^ N.of_nat w -> run gstep ginit (mk x) = run (c6_step true true) c6_init (mk x).
Proof.
  intros gstep ginit w mk H x Hx. unfold c6_sweep_eq in H.
  pose proof (forall_bits_sound w _ H x Hx) as E. cbv beta in E. apply list_eqb_eq in E. exact E.
Qed.
