(* C49 -- proofs about the UART transmitter models (Model/Uart.v). *)
From Coq Require Import NArith ZArith List Bool Lia ZifyBool ZifyN Arith.
Import ListNotations.
From LunaLib Require Import Netlist Bits Machine.
From LunaModel Require Import Uart.
Open Scope N_scope.
Ltac Zify.zify_post_hook ::= Z.div_mod_to_equations.

(* ------------------------------------------------------------------------------------------ *)
(* bit-vector facts                                                                            *)
(* ------------------------------------------------------------------------------------------ *)
Lemma bits_lt : forall x lo w, bits x lo w < 2 ^ w.
Proof.
  intros. unfold bits. rewrite N.land_ones. apply N.mod_lt. apply N.pow_nonzero. lia.
Qed.

Lemma in_payload_lt8 : forall i, in_payload 8 i < 256.
Proof. intros. unfold in_payload. change 256 with (2 ^ 8). apply bits_lt. Qed.

Definition list_bool_eqb (a b : list bool) : bool :=
  if list_eq_dec bool_dec a b then true else false.

Lemma framed_bits : forall p, p < 256 -> N2bits 10 (framed p) = frame_bits p.
Proof.
  intros p Hp.
  assert (H : forall_bits 8 (fun p => list_bool_eqb (N2bits 10 (framed p)) (frame_bits p)) = true)
    by (vm_compute; reflexivity).
  pose proof (forall_bits_sound 8 _ H p Hp) as E. cbv beta in E.
  unfold list_bool_eqb in E. destruct (list_eq_dec bool_dec _ _); [assumption | discriminate].
Qed.

Lemma framed_lt : forall p, p < 256 -> framed p < 1024.
Proof. intros. unfold framed. lia. Qed.

(* ------------------------------------------------------------------------------------------ *)
(* single-byte transmitter: simulation relation model ~ specification                          *)
(* ------------------------------------------------------------------------------------------ *)
Section UartProofs.
  Variable div : N.
  Hypothesis Hdiv : 1 <= div.

  Notation hold := (fun x : bool => repeat x (N.to_nat div)).

  (* line samples left when the current bit (head of l) has b+1 cycles to go *)
  Definition samples (b : N) (l : list bool) : list bool :=
    repeat (hd true l) (S (N.to_nat b)) ++ flat_map hold (tl l).

  Definition rel (st : u_state) (q : us_state) : Prop :=
    match ufsm st with
    | U_IDLE => q = []
    | U_TRANSMIT => q = samples (baud st) (N2bits (S (N.to_nat (nbits st))) (shift st))
    end.

  Lemma rel_init : rel u_init us_init.
  Proof. reflexivity. Qed.

  Lemma samples_full : forall l, l <> [] -> samples (div - 1) l = flat_map hold l.
  Proof.
    intros [|x l] H; [congruence|]. unfold samples. cbn [hd tl flat_map].
    replace (S (N.to_nat (div - 1))) with (N.to_nat div) by lia. reflexivity.
  Qed.

  Lemma hold_length : forall x, length (hold x) = N.to_nat div.
  Proof. intros. apply repeat_length. Qed.

  Lemma rel_ready : forall st q, rel st q -> u_ready st = us_ready q.
  Proof.
    intros [f b k s] q H. unfold rel, u_ready, us_ready in *. cbn [ufsm baud nbits shift] in *.
    destruct f; subst q; [reflexivity|].
    unfold samples. rewrite app_length, repeat_length.
    destruct (b =? 0) eqn:Eb; cbn [andb].
    - destruct (k =? 0) eqn:Ek.
      + assert (k = 0) by lia. assert (b = 0) by lia. subst. reflexivity.
      + destruct (N.to_nat k) as [|k'] eqn:Ekn; [lia|].
        cbn [N2bits tl flat_map]. rewrite app_length, hold_length.
        symmetry. apply Nat.leb_gt. lia.
    - symmetry. apply Nat.leb_gt. lia.
  Qed.

  Lemma rel_out : forall st q, rel st q -> u_out st = us_out q.
  Proof.
    intros st q H. unfold u_out, us_out. rewrite (rel_ready _ _ H). f_equal.
    - destruct st as [f b k s]. unfold rel, u_tx, us_tx in *. cbn [ufsm baud nbits shift] in *.
      destruct f; subst q; reflexivity.
    - destruct st as [f b k s]. unfold rel, u_idle, us_idle in *. cbn [ufsm baud nbits shift] in *.
      destruct f; subst q; reflexivity.
    - destruct st as [f b k s]. unfold rel, u_idle, us_idle in *. cbn [ufsm baud nbits shift] in *.
      destruct f; subst q; reflexivity.
  Qed.

  Lemma rel_load : forall p, p < 256 ->
    rel {| ufsm := U_TRANSMIT; baud := div - 1; nbits := 9; shift := framed p |} (frame_samples div p).
  Proof.
    intros p Hp. unfold rel. cbn [ufsm baud nbits shift].
    change (S (N.to_nat 9)) with 10%nat. rewrite framed_bits by exact Hp.
    rewrite samples_full by (unfold frame_bits; discriminate). reflexivity.
  Qed.

  (* the byte only matters when it is offered *)
  Lemma rel_next : forall st q v b1 b2, rel st q -> (v = true -> b1 = b2 /\ b1 < 256) ->
    rel (u_next div st v b1) (us_next div q v b2).
  Proof.
    intros st q v b1 b2 H Hb. pose proof (rel_ready _ _ H) as Hr.
    destruct st as [f b k s]. unfold u_next, us_next. rewrite <- Hr. clear Hr.
    unfold rel, u_ready in *. cbn [ufsm baud nbits shift] in *.
    destruct f.
    - (* IDLE *) subst q. cbn [andb]. destruct v.
      + destruct (Hb eq_refl) as [<- Hlt]. apply rel_load. exact Hlt.
      + reflexivity.
    - (* TRANSMIT *) subst q. destruct (b =? 0) eqn:Eb; cbn [andb].
      + assert (b = 0) by lia. subst b.
        destruct (N.to_nat k) as [|k'] eqn:Ekn.
        * assert (k = 0) by lia. subst k. cbn [N.eqb N.ltb N.compare andb].
          destruct v.
          -- destruct (Hb eq_refl) as [<- Hlt]. apply rel_load. exact Hlt.
          -- reflexivity.
        * assert (Ek : (k =? 0) = false) by lia. rewrite Ek.
          assert (Ek2 : (0 <? k) = true) by lia. rewrite Ek2. cbn [andb ufsm baud nbits shift].
          replace (S (N.to_nat (k - 1))) with (S k') by lia.
          rewrite samples_full by discriminate.
          unfold samples. cbn [N2bits hd tl N.to_nat repeat app]. reflexivity.
      + cbn [ufsm baud nbits shift]. unfold samples.
        replace (S (N.to_nat (b - 1))) with (N.to_nat b) by lia.
        destruct (N.to_nat b) as [|b'] eqn:Ebn; [lia|]. reflexivity.
  Qed.

  Theorem uart_refines : forall tr st q, rel st q ->
    run (u_step div) st tr = run (us_step div) q tr.
  Proof.
    induction tr as [|i t IH]; intros st q H; [reflexivity|].
    cbn [run u_step us_step]. rewrite (rel_out _ _ H). f_equal. apply IH.
    apply rel_next; [exact H|]. intros _. split; [reflexivity | apply in_payload_lt8].
  Qed.

  Corollary uart_from_reset : forall tr,
    run (u_step div) u_init tr = run (us_step div) us_init tr.
  Proof. intros. apply uart_refines. apply rel_init. Qed.

  (* ---------------------------------------------------------------------------------------- *)
  (* What the specification machine puts on the wire, stated on traces.                        *)
  (* ---------------------------------------------------------------------------------------- *)
  Definition busy_out (b : bool) : N := uart_pack b false false true.

  (* while more than one sample is queued nothing is accepted and the queue drains in order *)
  Lemma us_run_drain : forall ins q, (length ins < length q)%nat ->
    run (us_step div) q ins = map busy_out (firstn (length ins) q) /\
    run_state (us_step div) q ins = skipn (length ins) q.
  Proof.
    induction ins as [|i t IH]; intros q Hl; [split; reflexivity|].
    destruct q as [|x [|y q']]; cbn [length] in Hl; try lia.
    cbn [run run_state us_step fst length firstn skipn map].
    assert (Hn : us_next div (x :: y :: q') (in_valid i) (in_payload 8 i) = y :: q') by reflexivity.
    rewrite Hn. destruct (IH (y :: q')) as [IH1 IH2]; [cbn [length]; lia|].
    rewrite IH1, IH2. split; reflexivity.
  Qed.

  Lemma frame_samples_length : forall p, length (frame_samples div p) = (10 * N.to_nat div)%nat.
  Proof.
    intros. unfold frame_samples, frame_bits.
    assert (G : forall l : list bool, length (flat_map hold l) = (length l * N.to_nat div)%nat).
    { induction l as [|x l IHl]; [reflexivity|]. cbn [flat_map length]. rewrite app_length, hold_length, IHl. lia. }
    rewrite G. cbn [length]. rewrite app_length, N2bits_length. cbn [length]. lia.
  Qed.

  Lemma frame_samples_split : forall p,
    frame_samples div p = flat_map hold (false :: N2bits 8 p) ++ hold true.
  Proof.
    intros. unfold frame_samples, frame_bits.
    change (false :: N2bits 8 p ++ [true]) with ((false :: N2bits 8 p) ++ [true]).
    rewrite flat_map_app. cbn [flat_map]. rewrite app_nil_r. reflexivity.
  Qed.

  Lemma skipn_frame_last : forall p,
    skipn (10 * N.to_nat div - 1) (frame_samples div p) = [true].
  Proof.
    intros p. rewrite frame_samples_split.
    set (A := flat_map hold (false :: N2bits 8 p)).
    assert (HA : length A = (9 * N.to_nat div)%nat).
    { pose proof (frame_samples_length p) as L. rewrite frame_samples_split in L. fold A in L.
      rewrite app_length, hold_length in L. lia. }
    rewrite skipn_app. rewrite skipn_all2 by lia. cbn [app].
    replace (10 * N.to_nat div - 1 - length A)%nat with (N.to_nat div - 1)%nat by lia.
    destruct (N.to_nat div) as [|d] eqn:Ed; [lia|].
    replace (S d - 1)%nat with d by lia.
    clear. induction d as [|d IH]; [reflexivity|]. cbn [repeat skipn] in *. exact IH.
  Qed.

  (* A byte offered in a ready cycle is accepted (that cycle's outputs are unaffected); the next
     10*div cycles carry exactly its frame, nothing else is accepted before the frame's last cycle. *)
  Theorem us_frame_exact : forall q i ins, us_ready q = true -> in_valid i = true ->
    (length ins < 10 * N.to_nat div)%nat ->
    run (us_step div) q (i :: ins) =
      us_out q :: map busy_out (firstn (length ins) (frame_samples div (in_payload 8 i))).
  Proof.
    intros q i ins Hr Hv Hl. cbn [run us_step]. f_equal.
    unfold us_next. rewrite Hr, Hv. cbn [andb].
    apply us_run_drain. rewrite frame_samples_length. exact Hl.
  Qed.

  (* ... and in the frame's last cycle (the last cycle of the stop bit) the transmitter is ready again *)
  Theorem us_frame_end : forall q i ins, us_ready q = true -> in_valid i = true ->
    length ins = (10 * N.to_nat div - 1)%nat ->
    run_state (us_step div) q (i :: ins) = [true].
  Proof.
    intros q i ins Hr Hv Hl. cbn [run_state us_step fst].
    unfold us_next. rewrite Hr, Hv. cbn [andb].
    destruct (us_run_drain ins (frame_samples div (in_payload 8 i))) as [_ E].
    - rewrite frame_samples_length. lia.
    - rewrite E, Hl. apply skipn_frame_last.
  Qed.

  (* a byte that is offered while the transmitter is not ready is ignored *)
  Theorem us_not_ready_ignores : forall q v p, us_ready q = false -> us_next div q v p = tl q.
  Proof. intros q v p H. unfold us_next. rewrite H. reflexivity. Qed.

  (* the line idles high *)
  Theorem us_idle_high : forall n,
    run (us_step div) us_init (repeat 0 n) = repeat (uart_pack true true true false) n.
  Proof. induction n as [|n IH]; [reflexivity|]. cbn [repeat run us_step]. f_equal. exact IH. Qed.
End UartProofs.

(* ------------------------------------------------------------------------------------------ *)
(* multi-byte transmitter                                                                      *)
(* ------------------------------------------------------------------------------------------ *)
Section MultiProofs.
  Variable bw : nat.
  Variable div : N.
  Hypothesis Hbw : (1 <= bw)%nat.
  Hypothesis Hdiv : 1 <= div.

  Definition mrel (st : m_state) (sp : ms_state) : Prop :=
    rel div (uart st) (line sp) /\
    match mfsm st with
    | U_IDLE => pend sp = []
    | U_TRANSMIT => pend sp = bytes_le (S (N.to_nat (nbytes st))) (dshift st)
    end.

  Lemma mrel_init : mrel m_init ms_init.
  Proof. split; reflexivity. Qed.

  Lemma mod256_lt : forall x, x mod 256 < 256.
  Proof. intros. lia. Qed.

  Lemma mrel_out : forall st sp, mrel st sp -> m_out st = ms_out sp.
  Proof.
    intros [f d k u] [pd ln] [Hu Hp]. unfold m_out, ms_out, m_ready, ms_ready, m_idle, ms_idle.
    cbn [mfsm dshift nbytes uart pend line] in *.
    pose proof (rel_ready div Hdiv _ _ Hu) as Hr.
    assert (Htx : u_tx u = us_tx ln).
    { destruct u as [uf ub uk us]. unfold rel, u_tx, us_tx in *. cbn [ufsm baud nbits shift] in *.
      destruct uf; subst ln; reflexivity. }
    rewrite Htx. destruct f; subst pd; [reflexivity|].
    destruct (N.to_nat k) as [|k'] eqn:Ek.
    - assert (E : (0 <? k) = false) by lia. rewrite E. cbn [bytes_le negb]. rewrite Hr, andb_true_r. reflexivity.
    - assert (E : (0 <? k) = true) by lia. rewrite E. cbn [bytes_le negb]. rewrite andb_false_r. reflexivity.
  Qed.

  Lemma mrel_next : forall st sp v w, mrel st sp ->
    mrel (m_next bw div st v w) (ms_next bw div sp v w).
  Proof.
    intros [f d k u] [pd ln] v w [Hu Hp].
    pose proof (rel_ready div Hdiv _ _ Hu) as Hr.
    unfold m_next, ms_next, m_ready, ms_ready, m_idle, ms_idle.
    cbn [mfsm dshift nbytes uart pend line] in *.
    destruct f; subst pd.
    - (* IDLE *)
      assert (Hu' : rel div (u_next div u false (d mod 256)) (us_next div ln false 0)).
      { apply rel_next; [exact Hdiv | exact Hu | discriminate]. }
      cbn [negb hd andb]. destruct v.
      + split; cbn [mfsm dshift nbytes uart pend line]; [exact Hu'|].
        replace (S (N.to_nat (N.of_nat bw - 1))) with bw by lia. reflexivity.
      + split; cbn [mfsm dshift nbytes uart pend line]; [exact Hu'|].
        destruct (us_ready ln); reflexivity.
    - (* TRANSMIT *)
      assert (Hu' : rel div (u_next div u true (d mod 256))
                             (us_next div ln true (hd 0 (bytes_le (S (N.to_nat k)) d)))).
      { apply rel_next; [exact Hdiv | exact Hu |]. intros _. split; [reflexivity | apply mod256_lt]. }
      cbn [negb] in *. rewrite <- Hr.
      destruct (u_ready u) eqn:Eur.
      + destruct (N.to_nat k) as [|k'] eqn:Ek.
        * assert (E : (0 <? k) = false) by lia. rewrite E. cbn [bytes_le tl andb] in *.
          destruct v; split; cbn [mfsm dshift nbytes uart pend line]; try exact Hu'.
          -- replace (S (N.to_nat (N.of_nat bw - 1))) with bw by lia. reflexivity.
          -- reflexivity.
        * assert (E : (0 <? k) = true) by lia. rewrite E.
          split; cbn [mfsm dshift nbytes uart pend line]; [exact Hu'|].
          replace (S (N.to_nat (k - 1))) with (S k') by lia.
          cbn [bytes_le tl andb]. reflexivity.
      + split; cbn [mfsm dshift nbytes uart pend line]; [exact Hu'|].
        destruct (N.to_nat k) as [|k']; cbn [bytes_le andb]; reflexivity.
  Qed.

  Theorem multi_refines : forall tr st sp, mrel st sp ->
    run (m_step bw div) st tr = run (ms_step bw div) sp tr.
  Proof.
    induction tr as [|i t IH]; intros st sp H; [reflexivity|].
    cbn [run m_step ms_step]. rewrite (mrel_out _ _ H). f_equal. apply IH. apply mrel_next. exact H.
  Qed.

  Corollary multi_from_reset : forall tr,
    run (m_step bw div) m_init tr = run (ms_step bw div) ms_init tr.
  Proof. intros. apply multi_refines. apply mrel_init. Qed.
End MultiProofs.

(* ------------------------------------------------------------------------------------------ *)
(* packing facts for the lock-step obligations                                                 *)
(* ------------------------------------------------------------------------------------------ *)
Lemma u_dec_enc : forall st, u_wf st -> u_dec (u_enc st) = st.
Proof.
  intros [f b k s] [Hk Hs]. unfold u_dec, u_enc. cbn [ufsm baud nbits shift] in *.
  rewrite (N.mod_small k) by exact Hk. rewrite (N.mod_small s) by exact Hs.
  destruct f.
  - assert (E0 : (0 + 2 * k + 32 * s + 32768 * b) mod 2 = 0) by lia.
    assert (E1 : ((0 + 2 * k + 32 * s + 32768 * b) / 2) mod 16 = k) by lia.
    assert (E2 : ((0 + 2 * k + 32 * s + 32768 * b) / 32) mod 1024 = s) by lia.
    assert (E3 : (0 + 2 * k + 32 * s + 32768 * b) / 32768 = b) by lia.
    rewrite E0, E1, E2, E3. reflexivity.
  - assert (E0 : (1 + 2 * k + 32 * s + 32768 * b) mod 2 = 1) by lia.
    assert (E1 : ((1 + 2 * k + 32 * s + 32768 * b) / 2) mod 16 = k) by lia.
    assert (E2 : ((1 + 2 * k + 32 * s + 32768 * b) / 32) mod 1024 = s) by lia.
    assert (E3 : (1 + 2 * k + 32 * s + 32768 * b) / 32768 = b) by lia.
    rewrite E0, E1, E2, E3. reflexivity.
Qed.

Lemma u_wf_next : forall div st v p, p < 256 -> u_wf st -> u_wf (u_next div st v p).
Proof.
  intros div [f b k s] v p Hp [Hk Hs]. unfold u_wf, u_next in *. cbn [ufsm baud nbits shift] in *.
  pose proof (framed_lt p Hp) as Hf.
  assert (Hd : N.div2 s < 1024) by (rewrite N.div2_div; lia).
  destruct f.
  - destruct v; cbn [ufsm baud nbits shift]; lia.
  - destruct (b =? 0); [destruct (0 <? k) eqn:E; [|destruct v]|]; cbn [ufsm baud nbits shift]; lia.
Qed.

Lemma u_wf_step : forall div st i, u_wf st -> u_wf (fst (u_step div st i)).
Proof. intros. cbn [u_step fst]. apply u_wf_next; [apply in_payload_lt8 | assumption]. Qed.

Lemma u_wf_init : u_wf u_init.
Proof. split; reflexivity. Qed.

Lemma m_dec_enc : forall st, m_wf st -> m_dec (m_enc st) = st.
Proof.
  intros [f d k u] [Hk [Hb Hu]]. unfold m_dec, m_enc. cbn [mfsm dshift nbytes uart] in *.
  pose proof (u_dec_enc u Hu) as HU.
  assert (Hue : u_enc u < 2 ^ 31).
  { destruct u as [uf ub uk us]. destruct Hu as [Huk Hus]. unfold u_enc. cbn [ufsm baud nbits shift] in *.
    change (2 ^ 31) with 2147483648. destruct uf; lia. }
  change (2 ^ 31) with 2147483648 in *.
  set (e := u_enc u) in *.
  destruct f.
  - assert (E0 : (0 + 2 * k + 512 * e + 1099511627776 * d) mod 2 = 0) by lia.
    assert (E1 : ((0 + 2 * k + 512 * e + 1099511627776 * d) / 2) mod 256 = k) by lia.
    assert (E2 : ((0 + 2 * k + 512 * e + 1099511627776 * d) / 512) mod 2147483648 = e) by lia.
    assert (E3 : (0 + 2 * k + 512 * e + 1099511627776 * d) / 1099511627776 = d) by lia.
    rewrite E0, E1, E2, E3, HU. reflexivity.
  - assert (E0 : (1 + 2 * k + 512 * e + 1099511627776 * d) mod 2 = 1) by lia.
    assert (E1 : ((1 + 2 * k + 512 * e + 1099511627776 * d) / 2) mod 256 = k) by lia.
    assert (E2 : ((1 + 2 * k + 512 * e + 1099511627776 * d) / 512) mod 2147483648 = e) by lia.
    assert (E3 : (1 + 2 * k + 512 * e + 1099511627776 * d) / 1099511627776 = d) by lia.
    rewrite E0, E1, E2, E3, HU. reflexivity.
Qed.

Lemma m_wf_step : forall bw div, (N.of_nat bw <=? 256) = true -> (div <=? 65536) = true ->
  forall st i, m_wf st -> m_wf (fst (m_step bw div st i)).
Proof.
  intros bw div Hbw Hdiv [f d k u] i [Hk [Hb Hu]]. cbn [m_step fst]. unfold m_wf, m_next in *.
  cbn [mfsm dshift nbytes uart] in *.
  assert (Hu' : forall v, u_wf (u_next div u v (d mod 256)) /\ baud (u_next div u v (d mod 256)) < 65536).
  { intro v. split; [apply u_wf_next; [lia | exact Hu]|].
    destruct u as [uf ub uk us]. unfold u_next. cbn [ufsm baud nbits shift] in *.
    destruct uf; [destruct v; cbn [baud]; lia|].
    destruct (ub =? 0); [destruct (0 <? uk); [|destruct v]|]; cbn [baud]; lia. }
  destruct f.
  - destruct (in_valid i); cbn [mfsm dshift nbytes uart negb]; destruct (Hu' false) as [A B];
      (split; [lia | split; [exact B | exact A]]).
  - destruct (u_ready u); [destruct (0 <? k) eqn:E; [|destruct (in_valid i)]|];
      cbn [mfsm dshift nbytes uart negb]; destruct (Hu' true) as [A B];
      (split; [lia | split; [exact B | exact A]]).
Qed.

Lemma m_wf_init : m_wf m_init.
Proof. repeat split; reflexivity. Qed.

(* ------------------------------------------------------------------------------------------ *)
(* The multi-byte specification on traces: an accepted word appears on the wire as the frames   *)
(* of its bytes, least significant byte first, back to back.                                    *)
(* ------------------------------------------------------------------------------------------ *)
Definition tx_of (o : N) : bool := N.odd o.

Lemma tx_of_multi_pack : forall a b c, tx_of (multi_pack a b c) = a.
Proof. intros [] [] []; reflexivity. Qed.

Section MultiWire.
  Variable bw : nat.
  Variable div : N.
  Hypothesis Hdiv : 1 <= div.

  Definition quiet (i : N) : Prop := in_valid i = false.

  Lemma ms_next_quiet : forall bs q w,
    ms_next bw div {| pend := bs; line := q |} false w =
      {| pend := if us_ready q then tl bs else bs;
         line := us_next div q (negb (ms_idle {| pend := bs; line := q |})) (hd 0 bs) |}.
  Proof. intros. unfold ms_next. rewrite andb_false_r. reflexivity. Qed.

  (* while more than one sample is queued on the line, the byte queue waits *)
  Lemma ms_drain : forall ins bs q, Forall quiet ins -> (length ins < length q)%nat ->
    map tx_of (run (ms_step bw div) {| pend := bs; line := q |} ins) = firstn (length ins) q /\
    run_state (ms_step bw div) {| pend := bs; line := q |} ins = {| pend := bs; line := skipn (length ins) q |}.
  Proof.
    induction ins as [|i t IH]; intros bs q HF Hl; [split; reflexivity|].
    inversion HF as [|? ? Hi Ht]; subst. unfold quiet in Hi.
    destruct q as [|x [|y q']]; cbn [length] in Hl; try lia.
    cbn [run run_state ms_step fst map length firstn skipn]. rewrite Hi, ms_next_quiet.
    assert (E1 : us_ready (x :: y :: q') = false) by reflexivity. rewrite E1.
    unfold us_next. rewrite E1. cbn [andb tl].
    destruct (IH bs (y :: q') Ht) as [A B]; [cbn [length]; lia|].
    unfold ms_out at 1. rewrite tx_of_multi_pack. cbn [line us_tx hd].
    rewrite A, B. split; reflexivity.
  Qed.

  Lemma firstn_skipn_last : forall (q : list bool), q <> [] ->
    exists x, skipn (length q - 1) q = [x] /\ firstn (length q - 1) q ++ [x] = q.
  Proof.
    intros q Hq. pose proof (firstn_skipn (length q - 1) q) as E.
    assert (L : length (skipn (length q - 1) q) = 1%nat).
    { rewrite skipn_length. destruct q; [congruence|]. cbn [length]. lia. }
    destruct (skipn (length q - 1) q) as [|x [|y r]]; cbn [length] in L; try lia.
    exists x. split; [reflexivity | exact E].
  Qed.

  Lemma frame_samples_nonempty : forall p, frame_samples div p <> [].
  Proof.
    intros p E. pose proof (frame_samples_length div Hdiv p) as L. rewrite E in L. cbn [length] in L. lia.
  Qed.

  Lemma split_at : forall (l : list N) n, (n <= length l)%nat ->
    exists a c, l = a ++ c /\ length a = n /\ length c = (length l - n)%nat.
  Proof.
    intros l n H. exists (firstn n l), (skipn n l). split; [symmetry; apply firstn_skipn|].
    rewrite firstn_length, skipn_length. lia.
  Qed.

  Lemma ms_wire : forall bs q ins, q <> [] -> Forall quiet ins ->
    length ins = (length q + 10 * N.to_nat div * length bs)%nat ->
    map tx_of (run (ms_step bw div) {| pend := bs; line := q |} ins) = q ++ flat_map (frame_samples div) bs.
  Proof.
    induction bs as [|b bs IH]; intros q ins Hq HF Hl.
    - (* no byte pending: the line drains *)
      cbn [length flat_map] in *. rewrite app_nil_r.
      destruct (firstn_skipn_last q Hq) as [x [Hs Hf]].
      assert (Lq : (1 <= length q)%nat) by (destruct q; [congruence | cbn [length]; lia]).
      destruct (split_at ins (length q - 1)) as (a & c & E & La & Lc); [lia|]. subst ins.
      destruct c as [|i [|? ?]]; cbn [length] in Lc; try lia.
      apply Forall_app in HF. destruct HF as [Fa Fc].
      rewrite run_app, map_app.
      destruct (ms_drain a [] q Fa) as [A B]; [lia|].
      rewrite A, B, La, Hs. cbn [run map ms_step]. unfold ms_out. rewrite tx_of_multi_pack.
      cbn [line us_tx hd]. exact Hf.
    - cbn [length flat_map] in *.
      destruct (firstn_skipn_last q Hq) as [x [Hs Hf]].
      assert (Lq : (1 <= length q)%nat) by (destruct q; [congruence | cbn [length]; lia]).
      destruct (split_at ins (length q - 1)) as (a & c & E & La & Lc); [lia|]. subst ins.
      destruct c as [|i c']; cbn [length] in Lc; [lia|].
      apply Forall_app in HF. destruct HF as [Fa Fc].
      inversion Fc as [|? ? Hi Fc']; subst.
      rewrite run_app, map_app.
      destruct (ms_drain a (b :: bs) q Fa) as [A B]; [lia|].
      rewrite A, B, La, Hs. unfold quiet in Hi. cbn [run map ms_step]. rewrite Hi, ms_next_quiet.
      unfold ms_out at 1. rewrite tx_of_multi_pack. cbn [line us_tx hd].
      change (us_ready [x]) with true. cbn iota. cbn [tl hd ms_idle pend negb].
      change (us_next div [x] true b) with (frame_samples div b).
      rewrite (IH (frame_samples div b) c' (frame_samples_nonempty b) Fc').
      + transitivity ((firstn (length q - 1) q ++ [x]) ++ frame_samples div b ++ flat_map (frame_samples div) bs);
          [rewrite <- app_assoc; reflexivity | rewrite Hf; reflexivity].
      + rewrite frame_samples_length by exact Hdiv. lia.
  Qed.

  (* A word accepted from rest: two more idle-high cycles (the acceptance cycle and the hand-over to the
     byte transmitter), then the frames of its bytes in little-endian order, back to back. *)
  Theorem ms_word_little_endian : forall i ins, (1 <= bw)%nat -> in_valid i = true -> Forall quiet ins ->
    length ins = (1 + 10 * N.to_nat div * bw)%nat ->
    map tx_of (run (ms_step bw div) ms_init (i :: ins)) =
      true :: true :: flat_map (frame_samples div) (bytes_le bw (in_payload (8 * N.of_nat bw) i)).
  Proof.
    intros i ins Hbw Hv HF Hl.
    assert (Lb : forall k x, length (bytes_le k x) = k).
    { induction k as [|k IHk]; intros x; [reflexivity|]. cbn [bytes_le length]. rewrite IHk. reflexivity. }
    cbn [run map ms_step]. unfold ms_out at 1. rewrite tx_of_multi_pack. cbn [ms_init line us_tx us_init hd]. f_equal.
    unfold ms_next at 1. cbn [ms_init pend line ms_ready ms_idle negb]. rewrite Hv. cbn [andb hd].
    set (w := in_payload (8 * N.of_nat bw) i).
    assert (E0 : us_next div us_init false 0 = []) by reflexivity. rewrite E0.
    destruct ins as [|j ins']; cbn [length] in Hl; [lia|].
    inversion HF as [|? ? Hj HF']; subst.
    pose proof (Lb bw w) as Lw.
    destruct (bytes_le bw w) as [|b0 bs] eqn:Eb; cbn [length] in Lw; [lia|].
    cbn [flat_map].
    unfold quiet in Hj. cbn [run map ms_step]. rewrite Hj, ms_next_quiet.
    unfold ms_out at 1. rewrite tx_of_multi_pack. cbn [line us_tx hd]. f_equal.
    change (us_ready []) with true. cbn iota. cbn [tl hd ms_idle pend negb].
    change (us_next div [] true b0) with (frame_samples div b0).
    apply ms_wire; [apply frame_samples_nonempty | exact HF' |].
    rewrite frame_samples_length by exact Hdiv. lia.
  Qed.
End MultiWire.
