(* C09 -- definitions and lemmas shared by the refinement proofs of the two GET_DESCRIPTOR handler models
   (DescBlock_proofs.v, DescDist_proofs.v). *)
From Coq Require Import NArith ZArith Arith List Bool Lia ZifyBool ZifyN.
Import ListNotations.
From LunaLib Require Import Netlist Bits Machine.
From LunaModel Require Import DescSpec DescSpec_proofs DescRom DescRom_proofs.
Open Scope N_scope.
Ltac Zify.zify_post_hook ::= Z.div_mod_to_equations.

(* the length limit of one IN transaction, the bounds of the request fields, the requested descriptor *)
Definition lenq (mps : N) (q : dreq) : N := N.min mps (q_wlen q - q_sp q).
Definition q_bounded (q : dreq) : Prop := q_value q < 65536 /\ q_wlen q < 65536 /\ q_sp q < 2048.
Definition fd (c : dcoll) (q : dreq) : option desc := find_desc c (v_type (q_value q)) (v_index (q_value q)).

Lemma i_wlen_lt : forall i, i_wlen i < 65536.
Proof. intros. unfold i_wlen. apply (bits_lt i 16 16). Qed.
Lemma i_value_lt : forall i, i_value i < 65536.
Proof. intros. unfold i_value. apply (bits_lt i 0 16). Qed.
Lemma i_sp_lt : forall i, i_sp i < 2048.
Proof. intros. unfold i_sp. apply (bits_lt i 33 11). Qed.

Lemma req_of_bounded : forall i, q_bounded (req_of i).
Proof. intros i. unfold q_bounded, req_of. cbn. split; [apply i_value_lt | split; [apply i_wlen_lt | apply i_sp_lt]]. Qed.

Lemma held_fields : forall q i, held q i = true ->
  i_value i = q_value q /\ i_wlen i = q_wlen q /\ i_sp i = q_sp q /\ i_start i = false.
Proof.
  intros q i H. unfold held in H. repeat (apply andb_true_iff in H as [H ?]).
  repeat split; try (apply N.eqb_eq; assumption). destruct (i_start i); [discriminate | reflexivity].
Qed.

Lemma firstn_skipn_cons : forall (d : list N) n p, (1 <= n)%nat -> (p < length d)%nat ->
  firstn n (skipn p d) = nth p d 0 :: firstn (n - 1) (skipn (S p) d).
Proof.
  induction d as [|x d IH]; intros n p Hn Hp; [cbn in Hp; lia|].
  destruct p as [|p].
  - cbn [skipn nth]. destruct n as [|n]; [lia|]. cbn [firstn]. replace (S n - 1)%nat with n by lia. reflexivity.
  - cbn [skipn nth]. apply IH; [exact Hn | cbn [length] in Hp; lia].
Qed.

Lemma firstn_skipn_last : forall (d : list N) n p,
  match firstn n (skipn p d) with [] => true | _ :: _ => false end = (n =? 0)%nat || (length d <=? p)%nat.
Proof.
  intros d n p. destruct n as [|n]; [reflexivity|]. cbn [Nat.eqb orb].
  destruct (Nat.leb_spec (length d) p) as [H|H].
  - rewrite skipn_all2 by exact H. reflexivity.
  - rewrite (firstn_skipn_cons d (S n) p) by lia. reflexivity.
Qed.

