(* C10 -- proofs: unsupported / unclaimed requests are STALLed and never answered (Model/CtlStall.v). *)
From Coq Require Import NArith List Bool Lia.
Import ListNotations.
From LunaLib Require Import Netlist PackN Machine.
From LunaModel Require Import CtlXfer CtlXfer_proofs CtlStall.
Open Scope N_scope.

#[local] Arguments i_new : simpl never.   #[local] Arguments i_rfr : simpl never.   #[local] Arguments i_in : simpl never.
#[local] Arguments i_out : simpl never.   #[local] Arguments i_setup : simpl never. #[local] Arguments i_ping : simpl never.
#[local] Arguments i_ep : simpl never.    #[local] Arguments i_rcv : simpl never.   #[local] Arguments i_dirin : simpl never.
#[local] Arguments i_type : simpl never.  #[local] Arguments i_rcpt : simpl never.  #[local] Arguments i_req : simpl never.
#[local] Arguments i_value : simpl never. #[local] Arguments i_index : simpl never. #[local] Arguments i_len : simpl never.
#[local] Arguments i_sack : simpl never.  #[local] Arguments i_rxrfr : simpl never. #[local] Arguments i_ack : simpl never.
#[local] Arguments i_dstall : simpl never. #[local] Arguments i_dv : simpl never.   #[local] Arguments i_df : simpl never.
#[local] Arguments i_dl : simpl never.    #[local] Arguments i_sv : simpl never.    #[local] Arguments i_sf : simpl never.
#[local] Arguments i_sl : simpl never.    #[local] Arguments i_std : simpl never.   #[local] Arguments i_haslen : simpl never.
#[local] Arguments cf_unsupp : simpl never. #[local] Arguments bits : simpl never.

Section Proofs.
  Variables EP mps spw : N.
  Variable skip : N -> bool.
  Variable gate : bool.
  Hypothesis skip_ext : forall f i, same_fieldsb f i = true -> skip i = skip f.
  Notation step := (cx_step EP mps spw skip gate).

  Lemma dispatch_unsupported : forall i, supported_std i = false -> dispatch i = HUnhandled.
  Proof.
    intros i H. unfold supported_std in H. unfold dispatch, cf_unsupp.
    destruct (i_req i =? 0); [discriminate H|]. destruct (i_req i =? 5); [discriminate H|].
    destruct (i_req i =? 6); [discriminate H|]. destruct (i_req i =? 8); [discriminate H|].
    destruct (i_req i =? 9); [discriminate H|]. cbn [orb] in H.
    destruct (i_req i =? 1); [|reflexivity]. cbn [andb] in H.
    destruct (i_rcpt i =? 2), (i_value i =? 0); try discriminate H; reflexivity.
  Qed.

  Lemma ctl_ping_opp : forall c i, ctl_ping EP c i = true -> (i_ep i =? EP) && i_rfr i && i_ping i = true.
  Proof. intros [] i; cbn; unfold i_tgt; try discriminate; auto. Qed.

  Definition inv10 (s : st10) (x : cx_state) : Prop :=
    match t_cur s with
    | Some f => i_std f = true ->
                x_h x = if skip f then HIdle else if t_ans s then HIdle else HUnhandled
    | None => True
    end.

  Lemma c10_step : forall s x i, inv10 s x ->
    c10_ok EP skip s i (snd (step x i)) = true /\ inv10 (c10_next skip s i (snd (step x i))) (fst (step x i)).
  Proof.
    intros s x i Hi. unfold c10_ok, c10_next, watching.
    destruct (i_rcv i) eqn:Er.
    - (* a SETUP packet is reported: nothing is checked; the handler re-dispatches *)
      destruct (t_cur s); cbn [negb andb]; (split; [reflexivity|]);
      unfold inv10; cbn [t_cur t_ans];
      (destruct (unsupported skip i) eqn:Eu; [|exact I]); intro Hs;
      cbn [step cx_step fst x_h]; rewrite Hs; unfold h_next; rewrite Er;
      (destruct (skip i) eqn:Ek; [reflexivity|]);
      unfold unsupported, unclaimed in Eu; rewrite Hs, Ek in Eu; cbn in Eu;
      apply negb_true_iff in Eu; apply dispatch_unsupported; exact Eu.
    - destruct (t_cur s) as [f|] eqn:Ec; [|split; [reflexivity | exact I]].
      cbn [negb andb]. destruct (same_fieldsb f i) eqn:Esf; [|split; [reflexivity | exact I]].
      destruct (same_fields_eqs f i Esf) as (_ & E2 & _).
      assert (Estd : i_std i = i_std f) by (unfold i_std; rewrite E2; reflexivity).
      pose proof (skip_ext f i Esf) as Ek.
      unfold inv10 in *. rewrite Ec in Hi. cbn [t_cur t_ans].
      cbn [step cx_step fst snd x_h]. unfold stall_cycle_ok, unclaimed, claimed.
      cbn [o_dr o_sr o_txv o_ds o_ss o_nak o_ac o_cc o_halt o_ack o_stall].
      set (dr := ctl_dr EP (x_ctl x) i). set (sr := ctl_sr EP (x_ctl x) i).
      assert (Hack : forall ha, ha = false ->
                impb (i_sack i || ha || ctl_ping EP (x_ctl x) i) (i_sack i || ((i_ep i =? EP) && i_rfr i && i_ping i)) = true).
      { intros ha ->. unfold impb. destruct (i_sack i); [reflexivity|]. cbn [orb negb].
        destruct (ctl_ping EP (x_ctl x) i) eqn:Ep; [|reflexivity]. rewrite (ctl_ping_opp _ _ Ep). reflexivity. }
      rewrite Estd, Ek. destruct (i_std f) eqn:Es; cbn [negb andb orb].
      + specialize (Hi eq_refl). rewrite Hi. unfold h_next. rewrite Er.
        destruct (skip f) eqn:Ekf; cbn [negb andb orb].
        * (* skiplisted: the fallback answers *)
          cbn [fb_outputs h_txv h_ac h_cc h_halt h_ack h_stall h_dstart h_sstart h_own_next andb N.eqb negb].
          rewrite Hack by reflexivity. rewrite andb_true_r. split; [apply eqb_reflx | intros _; reflexivity].
        * destruct (t_ans s) eqn:Ea.
          -- cbn [h_outputs h_quiet h_txv h_ac h_cc h_halt h_ack h_stall h_dstart h_sstart h_own_next andb N.eqb negb orb].
             rewrite Hack by reflexivity. rewrite andb_false_r. split; [reflexivity | intros _; reflexivity].
          -- cbn [h_outputs h_quiet h_txv h_ac h_cc h_halt h_ack h_stall h_dstart h_sstart h_own_next andb N.eqb negb orb].
             rewrite Hack by reflexivity. rewrite andb_true_r. split; [apply eqb_reflx|].
             intros _. destruct (dr || sr); reflexivity.
      + (* not a standard request: the handler is frozen, the fallback answers *)
        cbn [fb_outputs h_txv h_ac h_cc h_halt h_ack h_stall andb N.eqb negb].
        rewrite Hack by reflexivity. rewrite andb_true_r. split; [apply eqb_reflx | discriminate].
  Qed.

  Lemma stalled_run : forall tr s x, inv10 s x -> stalled_along EP skip s tr (xrun step x tr) = true.
  Proof.
    induction tr as [|i t IH]; intros s x Hi; cbn [xrun stalled_along]; [reflexivity|].
    destruct (c10_step s x i Hi) as [A B]. destruct (step x i) as [x' o]. cbn [fst snd] in *.
    rewrite A. cbn [andb]. apply IH. exact B.
  Qed.

  (* C10: from ANY state of the control endpoint and for EVERY input history *)
  Theorem unsupported_requests_stalled : forall tr x,
    stalled_along EP skip st10_0 tr (xrun step x tr) = true.
  Proof. intros tr x. apply stalled_run. exact I. Qed.
End Proofs.

Lemma st10_dec_enc : forall s, st10_dec (st10_enc s) = s.
Proof.
  intros [cur ans]. unfold st10_dec, st10_enc. cbn [t_cur t_ans].
  rewrite pk_div, pk_mod by apply b2n_lt. rewrite nb_b2n. destruct cur as [f|]; [|reflexivity].
  replace (1 + 2 * f =? 0) with false by (symmetry; apply N.eqb_neq; lia).
  replace (1 + 2 * f - 1) with (f * 2) by lia. rewrite N.div_mul by lia. reflexivity.
Qed.

(* every (bRequest < 256, recipient, stage shape, value) of the sweep is in the swept list *)
Lemma sw_in : forall EP r rc ld v, r < 256 -> In rc sw_recipients -> In ld sw_stages -> In v sw_values ->
  In (sw_trace EP r rc (fst ld) (snd ld) v) (sw_all EP).
Proof.
  intros EP r rc ld v Hr Hrc Hld Hv. unfold sw_all.
  apply in_flat_map. exists r. split.
  - apply in_map_iff. exists (N.to_nat r). split; [apply N2Nat.id|]. apply in_seq. lia.
  - apply in_flat_map. exists rc. split; [exact Hrc|].
    apply in_flat_map. exists ld. split; [exact Hld|].
    apply in_map_iff. exists v. split; [reflexivity | exact Hv].
Qed.
