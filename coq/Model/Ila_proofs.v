(* C56 -- proofs about the IntegratedLogicAnalyzer model (Model/Ila.v):
     ila_refines           the code-shaped model (pipeline registers, registered write enable,
                           wrapping write counter) is output-equivalent to the history-based
                           specification machine, for all depth >= 1, counter widths that hold it,
                           pre-trigger counts and input histories;
     sp_capture            after an accepted trigger exactly `depth` consecutive delayed samples are
                           stored at 0..depth-1, `sampling` is high and `complete` low meanwhile,
                           `complete` is high afterwards -- whatever `trigger` does during capture;
     sp_idle_reads         while idle the buffer and `complete` stay, and every read request returns
                           the addressed sample one cycle later;
     ila_capture_readback  the three combined, on the model's outputs from reset;
     packing lemmas        for the lock-step tie. *)
From Coq Require Import NArith List Bool Arith Lia.
Import ListNotations.
From LunaLib Require Import Netlist Machine PackN ListMem.
From LunaModel Require Import Ila.
Open Scope nat_scope.

Lemma nth_firstn_lt : forall (l : list N) n j d, j < n -> nth j (firstn n l) d = nth j l d.
Proof.
  induction l as [|x t IH]; intros n j d H; [rewrite firstn_nil; reflexivity|].
  destruct n as [|n]; [lia|]. destruct j as [|j]; simpl; [reflexivity | apply IH; lia].
Qed.

Lemma In_firstn : forall (A : Type) (l : list A) n x, In x (firstn n l) -> In x l.
Proof.
  induction l as [|y t IH]; intros n x H; [rewrite firstn_nil in H; exact H|].
  destruct n as [|n]; [contradiction|]. destruct H as [H|H]; [left; exact H | right; apply (IH n); exact H].
Qed.

Lemma skipn_len_app : forall (A : Type) (a b : list A) n, skipn (length a + n) (a ++ b) = skipn n b.
Proof. induction a as [|x t IH]; intros b n; [reflexivity|]. cbn. apply IH. Qed.

(* ------------------------------------------------------------------------------------------ *)
Section Refine.
  Variables depth pw pre : nat.
  Hypothesis Hdepth : 1 <= depth.
  Hypothesis Hpw : depth <= 2 ^ pw.

  Definition rel (st : ila_state) (s : ispec) : Prop :=
    length (il_pipe st) = pre /\
    (forall j, j < pre -> nth j (il_pipe st) 0%N = nth j (sp_past s) 0%N) /\
    il_mem st = sp_buf s /\ il_rdata st = sp_shown s /\ il_complete st = sp_done s /\
    match sp_phase s with
    | None => il_sampling st = false /\ il_en st = false
    | Some k => il_sampling st = true /\ il_en st = true /\ il_pos st = k /\ k < depth
    end.

  Lemma rel_init : rel (ila_init depth pre) (sp_init depth).
  Proof.
    unfold rel, ila_init, sp_init. cbn. rewrite repeat_length. repeat split.
    intros j _. rewrite nth_repeat. destruct j; reflexivity.
  Qed.

  Lemma rel_out : forall st s, rel st s -> ila_out_of st = sp_out s.
  Proof.
    intros st s (_ & _ & _ & Hr & Hc & Hp). unfold ila_out_of, sp_out. rewrite Hr, Hc.
    destruct (sp_phase s) as [k|]; [destruct Hp as (-> & _) | destruct Hp as (-> & _)]; reflexivity.
  Qed.

  Lemma rel_delayed : forall st s i, rel st s -> ila_delayed pre st i = sp_sample pre s i.
  Proof.
    intros st s i (_ & Hn & _). unfold ila_delayed, sp_sample. destruct pre as [|p]; [reflexivity|].
    simpl. apply Hn. lia.
  Qed.

  Lemma rel_next : forall st s i, rel st s -> rel (ila_next depth pw pre st i) (sp_next depth pre s i).
  Proof.
    intros st s i H. pose proof (rel_delayed st s i H) as Hd.
    destruct H as (Hl & Hn & Hm & Hr & Hc & Hp).
    assert (Hl' : length (firstn pre (ii_probe i :: il_pipe st)) = pre)
      by (rewrite firstn_length; simpl; lia).
    assert (Hn' : forall j, j < pre ->
              nth j (firstn pre (ii_probe i :: il_pipe st)) 0%N = nth j (ii_probe i :: sp_past s) 0%N).
    { intros j Hj. rewrite nth_firstn_lt by exact Hj. destruct j as [|j]; [reflexivity|]. simpl. apply Hn. lia. }
    unfold rel, ila_next, sp_next. destruct (sp_phase s) as [k|].
    - destruct Hp as (Hs & He & Hk & Hlt). rewrite Hs, He, Hk, Hd, Hm, Hc.
      destruct (Nat.eqb_spec (S k) depth) as [E|E]; cbn.
      + repeat split; assumption.
      + assert (HH : S k < 2 ^ pw) by (clear - Hpw Hlt E; lia).
        repeat split; try assumption; [apply Nat.mod_small; exact HH | lia].
    - destruct Hp as (Hs & He). rewrite Hs, He, Hm, Hc.
      destruct (ii_trigger i); cbn; repeat split; try assumption; clear - Hdepth; lia.
  Qed.

  Theorem ila_refines : forall ins st s, rel st s -> ila_run depth pw pre st ins = sp_run depth pre s ins.
  Proof.
    induction ins as [|i t IH]; intros st s H; [reflexivity|].
    cbn [ila_run sp_run]. rewrite (rel_out st s H). f_equal. apply IH. apply rel_next. exact H.
  Qed.

  Corollary ila_from_reset : forall ins,
    ila_run depth pw pre (ila_init depth pre) ins = sp_run depth pre (sp_init depth) ins.
  Proof. intros. apply ila_refines. apply rel_init. Qed.
End Refine.

(* ------------------------------------------------------------------------------------------ *)
(* What the specification machine does                                                          *)
Section Capture.
  Variables depth pre : nat.
  Notation sp_next := (sp_next depth pre).
  Notation sp_run := (sp_run depth pre).
  Notation sp_run_state := (sp_run_state depth pre).

  Lemma sp_run_app : forall a b s, sp_run s (a ++ b) = sp_run s a ++ sp_run (sp_run_state s a) b.
  Proof. induction a as [|i t IH]; intros b s; [reflexivity|]. cbn. rewrite IH. reflexivity. Qed.

  Lemma sp_run_state_app : forall a b s, sp_run_state s (a ++ b) = sp_run_state (sp_run_state s a) b.
  Proof. induction a as [|i t IH]; intros b s; [reflexivity|]. cbn. apply IH. Qed.

  Lemma sp_run_length : forall a s, length (sp_run s a) = length a.
  Proof. induction a as [|i t IH]; intros s; [reflexivity|]. cbn. rewrite IH. reflexivity. Qed.

  Lemma sp_past_run : forall a s, sp_past (sp_run_state s a) = rev (map ii_probe a) ++ sp_past s.
  Proof.
    induction a as [|i t IH]; intros s; [reflexivity|]. cbn [sp_run_state map rev]. rewrite IH.
    cbn [Ila.sp_next sp_past]. rewrite <- app_assoc. reflexivity.
  Qed.

  Lemma sp_buf_length : forall s i, length (sp_buf (sp_next s i)) = length (sp_buf s).
  Proof. intros. cbn. destruct (sp_phase s); [apply upd_length | reflexivity]. Qed.

  Lemma sp_buf_length_run : forall a s, length (sp_buf (sp_run_state s a)) = length (sp_buf s).
  Proof. induction a as [|i t IH]; intros s; [reflexivity|]. cbn [sp_run_state]. rewrite IH. apply sp_buf_length. Qed.

  (* capture in progress: k samples stored, the rest of the capture is `body` *)
  Lemma sp_capture_from : forall body s k, sp_phase s = Some k -> k + length body = depth -> body <> [] ->
    length (sp_buf s) = depth ->
    let s' := sp_run_state s body in
    sp_phase s' = None /\ sp_done s' = true /\ length (sp_buf s') = depth /\
    (forall n, n < k -> nth n (sp_buf s') 0%N = nth n (sp_buf s) 0%N) /\
    (forall j, j < length body ->
       nth (k + j) (sp_buf s') 0%N = nth pre (rev (map ii_probe (firstn (S j) body)) ++ sp_past s) 0%N) /\
    Forall (fun o => io_sampling o = true /\ io_complete o = sp_done s) (sp_run s body).
  Proof.
    induction body as [|i rest IH]; intros s k Hph Hlen Hne Hbl; [contradiction|].
    cbn [sp_run_state Ila.sp_run length] in *.
    destruct rest as [|i2 rest2].
    - (* last sample *)
      cbn [sp_run_state Ila.sp_run length] in *. assert (E : S k = depth) by lia.
      unfold Ila.sp_next. rewrite Hph. cbn [sp_phase sp_done sp_buf sp_past].
      destruct (Nat.eqb_spec (S k) depth); [|contradiction].
      split; [reflexivity|]. split; [reflexivity|]. split; [rewrite upd_length; exact Hbl|].
      split; [intros n Hn; apply nth_upd_other; lia|]. split.
      + intros j Hj. assert (j = 0) by lia. subst j. rewrite Nat.add_0_r.
        rewrite nth_upd_same by lia. reflexivity.
      + constructor; [|constructor]. unfold sp_out. rewrite Hph. split; reflexivity.
    - (* more samples follow *)
      assert (NE : S k <> depth) by (cbn [length] in Hlen; lia).
      set (s1 := sp_next s i).
      assert (Hph1 : sp_phase s1 = Some (S k)).
      { unfold s1, Ila.sp_next. rewrite Hph. cbn [sp_phase]. destruct (Nat.eqb_spec (S k) depth); [contradiction | reflexivity]. }
      assert (Hd1 : sp_done s1 = sp_done s).
      { unfold s1, Ila.sp_next. rewrite Hph. cbn [sp_done]. destruct (Nat.eqb_spec (S k) depth); [contradiction | reflexivity]. }
      assert (Hb1 : sp_buf s1 = upd k (sp_sample pre s i) (sp_buf s)).
      { unfold s1, Ila.sp_next. rewrite Hph. reflexivity. }
      assert (Hp1 : sp_past s1 = ii_probe i :: sp_past s) by reflexivity.
      assert (Hbl1 : length (sp_buf s1) = depth) by (rewrite Hb1, upd_length; exact Hbl).
      destruct (IH s1 (S k) Hph1 ltac:(cbn [length] in *; lia) ltac:(discriminate) Hbl1)
        as (R1 & R2 & R3 & R4 & R5 & R6).
      split; [exact R1|]. split; [exact R2|]. split; [exact R3|]. split; [|split].
      + intros n Hn. rewrite R4 by lia. rewrite Hb1. apply nth_upd_other. lia.
      + intros j Hj. destruct j as [|j].
        * rewrite Nat.add_0_r. rewrite R4 by lia. rewrite Hb1. rewrite nth_upd_same by (cbn [length] in Hlen; lia).
          reflexivity.
        * replace (k + S j) with (S k + j) by lia. rewrite R5 by (cbn [length] in *; lia).
          rewrite Hp1. cbn [firstn map rev]. rewrite <- !app_assoc. reflexivity.
      + constructor.
        * unfold sp_out. rewrite Hph. split; reflexivity.
        * rewrite <- Hd1. exact R6.
  Qed.

  (* The capture theorem.  s: any idle state; i0: a cycle with trigger; body: the next `depth`
     cycles with ARBITRARY inputs (in particular arbitrary trigger values).  Then sample n of the
     buffer is the probe value `pre` cycles before body cycle n. *)
  Theorem sp_capture : forall s i0 body, 1 <= depth ->
    sp_phase s = None -> ii_trigger i0 = true -> length body = depth -> length (sp_buf s) = depth ->
    let s' := sp_run_state s (i0 :: body) in
    sp_phase s' = None /\ sp_done s' = true /\ length (sp_buf s') = depth /\
    (forall n, n < depth ->
       nth n (sp_buf s') 0%N = nth pre (rev (map ii_probe (firstn (S n) body)) ++ ii_probe i0 :: sp_past s) 0%N) /\
    Forall (fun o => io_sampling o = true /\ io_complete o = false) (sp_run (sp_next s i0) body).
  Proof.
    intros s i0 body Hd Hph Htr Hlen Hbl. cbn [sp_run_state].
    set (s1 := sp_next s i0).
    assert (Hph1 : sp_phase s1 = Some 0) by (unfold s1, Ila.sp_next; rewrite Hph, Htr; reflexivity).
    assert (Hd1 : sp_done s1 = false) by (unfold s1, Ila.sp_next; rewrite Hph, Htr; reflexivity).
    assert (Hb1 : length (sp_buf s1) = depth) by (unfold s1; rewrite sp_buf_length; exact Hbl).
    assert (Hne : body <> []) by (intro E; subst body; cbn in Hlen; lia).
    destruct (sp_capture_from body s1 0 Hph1 ltac:(lia) Hne Hb1) as (R1 & R2 & R3 & _ & R5 & R6).
    split; [exact R1|]. split; [exact R2|]. split; [exact R3|]. split.
    - intros n Hn. apply (R5 n). lia.
    - rewrite Hd1 in R6. exact R6.
  Qed.

  (* idle without trigger: nothing moves, reads are answered one cycle later *)
  Fixpoint expect_reads (buf : list N) (shown : N) (reads : list ila_in) : list ila_out :=
    match reads with
    | [] => []
    | r :: t => {| io_sampling := false; io_complete := true; io_captured := shown |}
                :: expect_reads buf (nth (ii_number r) buf 0%N) t
    end.

  Theorem sp_idle_reads : forall reads s, sp_phase s = None -> sp_done s = true ->
    Forall (fun r => ii_trigger r = false) reads ->
    sp_run s reads = expect_reads (sp_buf s) (sp_shown s) reads /\
    sp_buf (sp_run_state s reads) = sp_buf s /\ sp_phase (sp_run_state s reads) = None.
  Proof.
    induction reads as [|r t IH]; intros s Hph Hdn Hall; [repeat split; assumption|].
    inversion Hall as [|? ? Hr Ht]; subst. cbn [Ila.sp_run expect_reads sp_run_state].
    assert (H1 : sp_phase (sp_next s r) = None) by (unfold Ila.sp_next; rewrite Hph, Hr; reflexivity).
    assert (H2 : sp_done (sp_next s r) = true) by (unfold Ila.sp_next; rewrite Hph, Hr; exact Hdn).
    assert (H3 : sp_buf (sp_next s r) = sp_buf s) by (unfold Ila.sp_next; rewrite Hph; reflexivity).
    destruct (IH (sp_next s r) H1 H2 Ht) as (E1 & E2 & E3). rewrite E1, E2, E3, H3.
    repeat split. unfold sp_out. rewrite Hph, Hdn. reflexivity.
  Qed.
End Capture.

(* ------------------------------------------------------------------------------------------ *)
(* End to end, on the model's outputs from reset: any history `prefix` after which the analyzer
   is idle, a trigger cycle, `depth` arbitrary cycles, then read requests without new trigger.    *)
Theorem ila_capture_readback : forall depth pw pre prefix i0 body reads,
  1 <= depth -> depth <= 2 ^ pw ->
  sp_phase (sp_run_state depth pre (sp_init depth) prefix) = None ->
  ii_trigger i0 = true -> length body = depth -> Forall (fun r => ii_trigger r = false) reads ->
  exists samples shown, length samples = depth /\
    (forall n, n < depth ->
       nth n samples 0%N = nth pre (rev (map ii_probe (firstn (S n) body)) ++ ii_probe i0 :: rev (map ii_probe prefix)) 0%N) /\
    skipn (length prefix + 1 + depth) (ila_run depth pw pre (ila_init depth pre) (prefix ++ i0 :: body ++ reads))
      = expect_reads samples shown reads /\
    Forall (fun o => io_sampling o = true /\ io_complete o = false)
      (firstn depth (skipn (length prefix + 1) (ila_run depth pw pre (ila_init depth pre) (prefix ++ i0 :: body ++ reads)))).
Proof.
  intros depth pw pre prefix i0 body reads Hd Hpw Hidle Htr Hlen Hreads.
  rewrite (ila_from_reset depth pw pre Hd Hpw).
  set (s := sp_run_state depth pre (sp_init depth) prefix) in *.
  assert (Hbl : length (sp_buf s) = depth).
  { unfold s. rewrite sp_buf_length_run. cbn [sp_init sp_buf]. apply repeat_length. }
  destruct (sp_capture depth pre s i0 body Hd Hidle Htr Hlen Hbl) as (R1 & R2 & R3 & R4 & R5).
  set (s' := sp_run_state depth pre s (i0 :: body)) in *.
  destruct (sp_idle_reads depth pre reads s' R1 R2 Hreads) as (E1 & _ & _).
  exists (sp_buf s'), (sp_shown s'). split; [exact R3|]. split.
  - intros n Hn. rewrite (R4 n Hn). unfold s. rewrite sp_past_run. cbn [sp_init sp_past]. rewrite app_nil_r. reflexivity.
  - assert (Hrun : sp_run depth pre (sp_init depth) (prefix ++ i0 :: body ++ reads) =
                   sp_run depth pre (sp_init depth) prefix ++ sp_out s ::
                   sp_run depth pre (sp_next depth pre s i0) body ++ sp_run depth pre s' reads).
    { rewrite sp_run_app. fold s. cbn [Ila.sp_run]. rewrite sp_run_app. reflexivity. }
    rewrite Hrun. split.
    + replace (length prefix + 1 + depth) with (length (sp_run depth pre (sp_init depth) prefix) + (1 + depth))
        by (rewrite sp_run_length; lia).
      rewrite skipn_len_app. cbn [Nat.add skipn].
      replace depth with (length (sp_run depth pre (sp_next depth pre s i0) body) + 0) at 1
        by (rewrite sp_run_length; lia).
      rewrite skipn_len_app. exact E1.
    + replace (length prefix + 1) with (length (sp_run depth pre (sp_init depth) prefix) + 1)
        by (rewrite sp_run_length; lia).
      rewrite skipn_len_app. cbn [skipn].
      replace depth with (length (sp_run depth pre (sp_next depth pre s i0) body)) at 1
        by (rewrite sp_run_length; exact Hlen).
      rewrite firstn_app, firstn_all, Nat.sub_diag. cbn [firstn]. rewrite app_nil_r. exact R5.
Qed.

(* ------------------------------------------------------------------------------------------ *)
(* Packing facts for the lock-step tie                                                          *)
Open Scope N_scope.

Lemma pack_lt : forall B l, 0 < B -> Forall (fun x => x < B) l -> pack B l < B ^ N.of_nat (length l).
Proof.
  intros B l HB. induction l as [|x t IH]; intro H; [simpl; lia|].
  inversion H as [|? ? Hx Ht]; subst. specialize (IH Ht).
  cbn [pack length]. rewrite Nat2N.inj_succ, N.pow_succ_r'. unfold pk. nia.
Qed.

Lemma b2n_dec : forall (b : bool) rest, (pk 2 (b2n b) rest mod 2 =? 1) = b.
Proof. intros. rewrite pk_mod by (destruct b; simpl; lia). destruct b; reflexivity. Qed.

Lemma b2n_div : forall (b : bool) rest, pk 2 (b2n b) rest / 2 = rest.
Proof. intros. apply pk_div. destruct b; simpl; lia. Qed.

Lemma ila_dec_enc : forall depth pw pre width st, ila_wf depth pw pre width st ->
  ila_dec depth pw pre width (ila_enc depth pw pre width st) = st.
Proof.
  intros depth pw pre width [sa pos en co pipe mem rd] (H1 & H2 & H3 & H4 & H5 & H6).
  cbn [il_sampling il_pos il_en il_complete il_pipe il_mem il_rdata] in *.
  unfold ila_dec, ila_enc. cbn [il_sampling il_pos il_en il_complete il_pipe il_mem il_rdata]. cbv zeta.
  pose proof (pow2_pos width) as HB.
  assert (Hpos : N.of_nat pos < N.of_nat (2 ^ pw)) by lia.
  assert (Hpipe : pack (2 ^ width) pipe < (2 ^ width) ^ N.of_nat pre)
    by (rewrite <- H3; apply pack_lt; assumption).
  repeat (rewrite b2n_div). repeat (rewrite b2n_dec).
  repeat (rewrite pk_div by assumption). repeat (rewrite pk_mod by assumption).
  rewrite Nat2N.id. rewrite <- H3 at 1. rewrite <- H5 at 1. rewrite !unpack_pack by assumption. reflexivity.
Qed.

Lemma ila_wf_step : forall depth pw pre width st i, ila_wf depth pw pre width st ->
  ila_wf depth pw pre width (fst (ila_mstep depth pw pre width st i)).
Proof.
  intros depth pw pre width st i (H1 & H2 & H3 & H4 & H5 & H6).
  pose proof (pow2_pos width) as HB.
  assert (Hpr : ii_probe (ila_decode pw width i) < 2 ^ width)
    by (cbn [ila_decode ii_probe]; unfold bits; apply land_ones_lt).
  set (ii := ila_decode pw width i) in *.
  assert (Hdel : ila_delayed pre st ii < 2 ^ width).
  { unfold ila_delayed. destruct pre; [exact Hpr | apply Forall_nth_lt; assumption]. }
  assert (Hpipe : length (firstn pre (ii_probe ii :: il_pipe st)) = pre /\
                  Forall (fun x => x < 2 ^ width) (firstn pre (ii_probe ii :: il_pipe st))).
  { split; [rewrite firstn_length; simpl; lia|]. apply Forall_forall. intros x Hx.
    apply In_firstn in Hx. destruct Hx as [<-|Hx]; [exact Hpr|]. rewrite Forall_forall in H4. apply H4, Hx. }
  assert (Hmem : length (if il_en st then upd (il_pos st) (ila_delayed pre st ii) (il_mem st) else il_mem st) = depth /\
                 Forall (fun x => x < 2 ^ width)
                   (if il_en st then upd (il_pos st) (ila_delayed pre st ii) (il_mem st) else il_mem st)).
  { destruct (il_en st); [rewrite upd_length; split; [assumption | apply upd_Forall; assumption] | split; assumption]. }
  assert (Hrd : nth (ii_number ii) (il_mem st) 0 < 2 ^ width) by (apply Forall_nth_lt; assumption).
  assert (Hp0 : (0 < 2 ^ pw)%nat) by (apply Nat.neq_0_lt_0, Nat.pow_nonzero; lia).
  assert (Hmod : (S (il_pos st) mod 2 ^ pw < 2 ^ pw)%nat) by (apply Nat.mod_upper_bound; lia).
  destruct Hpipe as [Hp1 Hp2]. destruct Hmem as [Hm1 Hm2].
  unfold ila_mstep, ila_next, ila_wf. cbn [fst]. fold ii.
  destruct (il_sampling st); [|destruct (ii_trigger ii)];
    cbn [il_sampling il_pos il_en il_complete il_pipe il_mem il_rdata]; repeat split; assumption.
Qed.

Lemma ila_wf_init : forall depth pw pre width, ila_wf depth pw pre width (ila_init depth pre).
Proof.
  intros. unfold ila_wf, ila_init. cbn [il_sampling il_pos il_en il_complete il_pipe il_mem il_rdata].
  pose proof (pow2_pos width). rewrite !repeat_length.
  assert (forall n, Forall (fun x => x < 2 ^ width) (repeat 0 n)).
  { intro n. apply Forall_forall. intros x Hx. apply repeat_spec in Hx. subst. assumption. }
  repeat split; auto. apply Nat.neq_0_lt_0, Nat.pow_nonzero. lia.
Qed.

Lemma ila_mrun : forall depth pw pre width tr st,
  run (ila_mstep depth pw pre width) st tr =
  map ila_pack_out (ila_run depth pw pre st (map (ila_decode pw width) tr)).
Proof.
  induction tr as [|i t IH]; intro st; [reflexivity|].
  cbn [run map ila_run]. unfold ila_mstep at 1. rewrite IH. reflexivity.
Qed.
