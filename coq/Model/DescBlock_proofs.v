(* C09 -- proofs about the block-ROM GET_DESCRIPTOR handler model (Model/DescBlock.v):
   (a) packing lemmas for the lock-step obligations;
   (b) block_refines: for every well-formed collection and packet size the model, configured the way the
       constructor configures the gateware (ROM image rom_of, widths, index map), is output-equivalent to the
       specification machine s_step (resp_of c mps) on every input history that respects s_env. *)
From Coq Require Import NArith ZArith Arith List Bool Lia ZifyBool ZifyN.
Import ListNotations.
From LunaLib Require Import Netlist Bits Machine.
From LunaModel Require Import DescSpec DescSpec_proofs DescRom DescRom_proofs DescCommon DescBlock.
Open Scope N_scope.
Ltac Zify.zify_post_hook ::= Z.div_mod_to_equations.

(* ---------------------------------------------------------------------------------------------------------- *)
(* (a) packing *)
Lemma unpair_lo : forall w a b, a < 2 ^ w -> trunc w (pair w a b) = a.
Proof.
  intros w a b H. unfold pair. rewrite trunc_spec, N.shiftl_mul_pow2.
  rewrite N.mod_add by (pose proof (pow2_pos w); lia). apply N.mod_small. exact H.
Qed.

Lemma unpair_hi : forall w a b, a < 2 ^ w -> N.shiftr (pair w a b) w = b.
Proof.
  intros w a b H. unfold pair. rewrite N.shiftr_div_pow2, N.shiftl_mul_pow2.
  rewrite N.div_add by (pose proof (pow2_pos w); lia). rewrite N.div_small by exact H. reflexivity.
Qed.

Lemma bk_dec_enc : forall c st, bk_wf c st -> bk_dec c (bk_enc c st) = st.
Proof.
  intros c [f len pos sent dlen base didx rd] (H1 & H2 & H3 & H4 & H5 & H6).
  unfold bk_dec, bk_enc. cbn [b_fsm b_len b_pos b_sent b_dlen b_base b_didx b_rd] in *.
  assert (Hf : fsm_code f < 2 ^ 3) by (destruct f; vm_compute; reflexivity).
  rewrite (unpair_lo 3 _ _ Hf), (unpair_hi 3 _ _ Hf).
  rewrite (unpair_lo _ len _ H1), (unpair_hi _ len _ H1).
  rewrite (unpair_lo _ pos _ H2), (unpair_hi _ pos _ H2).
  rewrite (unpair_lo _ sent _ H3), (unpair_hi _ sent _ H3).
  rewrite (unpair_lo _ dlen _ H4), (unpair_hi _ dlen _ H4).
  rewrite (unpair_lo _ base _ H5), (unpair_hi _ base _ H5).
  rewrite (unpair_lo _ didx _ H6), (unpair_hi _ didx _ H6).
  destruct f; reflexivity.
Qed.

Lemma len_next_lt : forall c i, len_next c i < 2 ^ 16.
Proof.
  intros c i. unfold len_next. pose proof (i_wlen_lt i).
  destruct (i_wlen i <? i_sp i); [apply trunc_lt|].
  destruct (i_wlen i - i_sp i <=? k_mps c); [change (2 ^ 16) with 65536; lia | apply trunc_lt].
Qed.

Lemma imap_lookup_lt : forall c v, imap_lookup c v < 2 ^ 8.
Proof. intros. unfold imap_lookup. destruct (assoc v (k_imap c)); [apply trunc_lt | vm_compute; reflexivity]. Qed.

Lemma bk_wf_step : forall c st i, bk_wf c st -> bk_wf c (fst (bk_step c st i)).
Proof.
  intros c st i (H1 & H2 & H3 & H4 & H5 & H6). unfold bk_step, bk_next, bk_wf. cbn [fst].
  pose proof (len_next_lt c i) as HL. pose proof (pow2_pos 16) as P16. pose proof (pow2_pos (k_aw c)) as Paw.
  assert (Hhi : forall x, e_hi x < 2 ^ 16) by (intro x; unfold e_hi; apply bits_lt).
  destruct (b_fsm st); cbn [b_len b_pos b_sent b_dlen b_base b_didx].
  - repeat split; assumption.
  - repeat split; try assumption; [apply trunc_lt|]. destruct (k_indirect c); [apply imap_lookup_lt | assumption].
  - repeat split; assumption.
  - repeat split; try assumption; [apply Hhi | apply bits_lt].
  - destruct (i_ready i); [destruct (on_last st)|]; cbn [b_len b_pos b_sent b_dlen b_base b_didx];
      repeat split; try assumption; apply trunc_lt.
  - repeat split; assumption.
Qed.

Lemma bk_wf_init : forall c, bk_wf c bk_init.
Proof. intros c. unfold bk_wf, bk_init. cbn. repeat split; apply pow2_pos. Qed.

(* ---------------------------------------------------------------------------------------------------------- *)
(* (b) refinement *)
Lemma div4_lt : forall x pw, 2 <= pw -> x < 2 ^ pw -> x / 4 < 2 ^ (pw - 2).
Proof.
  intros x pw Hp Hx. replace pw with (2 + (pw - 2)) in Hx by lia. rewrite N.pow_add_r in Hx.
  change (2 ^ 2) with 4 in Hx. pose proof (pow2_pos (pw - 2)). nia.
Qed.

Lemma size_ge_2 : forall x, 2 <= x -> 2 <= N.size x.
Proof.
  intros x H. destruct (N.le_gt_cases 2 (N.size x)) as [|Hlt]; [assumption|].
  pose proof (N.size_gt x) as Hg. assert (N.size x = 0 \/ N.size x = 1) as [E|E] by lia; rewrite E in Hg; cbn in Hg; lia.
Qed.

Lemma lookup_addr : forall aw h B p, aw <= 14 -> B + p / 4 < 2 ^ aw ->
  trunc aw (N.shiftr (entry h (4 * B) + p) 2) = B + p / 4.
Proof.
  intros aw h B p Haw Hx. rewrite N.shiftr_div_pow2. change (2 ^ 2) with 4. unfold entry.
  replace ((h * 65536 + 4 * B + p) / 4) with (h * 16384 + (B + p / 4)) by lia.
  rewrite trunc_spec.
  assert (E : 16384 = 2 ^ (14 - aw) * 2 ^ aw).
  { rewrite <- N.pow_add_r. replace (14 - aw + aw) with 14 by lia. reflexivity. }
  rewrite E, N.mul_assoc, N.add_comm, N.mod_add by (pose proof (pow2_pos aw); lia).
  apply N.mod_small. exact Hx.
Qed.

Section Refine.
  Variable c : dcoll.
  Variable mps : N.
  Hypothesis F : coll_facts c.
  Hypothesis Hmps : 1 <= mps /\ mps < 65536.

  Local Notation cfg := (block_cfg c mps).
  Local Notation rom := (rom_of c).
  Local Notation aw := (N.size (nlen (rom_of c) - 1)).
  Local Notation pw := (N.size (max_desc_len c)).
  Local Notation resp := (resp_of c mps).
  Local Notation lat := (bk_lat c).

  Local Notation lenq := (DescCommon.lenq mps).
  Local Notation fd := (DescCommon.fd c).

  (* the descriptor d lies at word address B of the image *)
  Definition data_at (B : N) (d : desc) : Prop :=
    nlen d < 65536 /\ 4 * B < 65536 /\ nlen d <= max_desc_len c /\
    forall k, k < nlen d -> B + k / 4 < nlen rom /\ byte_lane (rom_read rom (B + k / 4)) (k mod 4) = nth (N.to_nat k) d 0.

  Definition sending (s : sstate) : option (list N * bool * dreq) :=
    match s with
    | SWait 0 q => match resp q with RData (b :: bs) => Some (b :: bs, true, q) | _ => None end
    | SSend bs f q => Some (bs, f, q)
    | _ => None
    end.
  Definition req_of_state (s : sstate) : option dreq :=
    match s with SIdle => None | SWait _ q => Some q | SSend _ _ q => Some q end.
  Definition wait_k (s : sstate) : option N := match s with SWait k _ => Some k | _ => None end.

  Definition rel (st : bk_state) (s : sstate) : Prop :=
    match s with
    | SIdle => b_fsm st = B_IDLE
    | _ => exists q, req_of_state s = Some q /\ q_bounded q /\ req_legal c q = true /\ b_len st = lenq q /\
        match b_fsm st with
        | B_IDLE => False
        | B_START => b_sent st = 0 /\ wait_k s = Some (lat q - 1)
        | B_LOOKUP_TYPE =>
            b_sent st = 0 /\ (forall d, fd q = Some d -> b_pos st = q_sp q) /\
            v_type (q_value q) <= max_type c /\ wait_k s = Some (lat q - 2) /\
            b_rd st = rom_read rom (v_type (q_value q)) /\
            (k_indirect cfg = true -> b_didx st = didx_val c (q_value q))
        | B_LOOKUP_DESCRIPTOR =>
            exists d B, fd q = Some d /\ wait_k s = Some 1 /\ b_sent st = 0 /\ b_pos st = q_sp q /\
              b_rd st = entry (nlen d) (4 * B) /\ data_at B d
        | B_SEND_ZLP => exists d, fd q = Some d /\ wait_k s = Some 0 /\ nlen d <= q_sp q
        | B_SEND_DESCRIPTOR =>
            exists d B bs f, fd q = Some d /\ sending s = Some (bs, f, q) /\ data_at B d /\
              b_pos st = q_sp q + b_sent st /\ b_pos st < nlen d /\ b_sent st < lenq q /\
              b_dlen st = nlen d /\ b_base st = B /\ b_rd st = rom_read rom (B + b_pos st / 4) /\
              bs = firstn (N.to_nat (lenq q - b_sent st)) (skipn (N.to_nat (b_pos st)) d) /\
              f = (b_sent st =? 0)
        end
    end.

  (* ---- facts about the configuration ---- *)
  Lemma rom_bounds : nlen rom <= 2 ^ aw /\ aw <= 14 /\ ntypes c <= nlen rom.
  Proof. apply rom_aw_facts. exact F. Qed.

  Lemma rom_read_trunc : forall a, a < nlen rom -> rom_read rom (trunc aw a) = rom_read rom a.
  Proof. intros a H. destruct rom_bounds as (H1 & _). rewrite trunc_small by lia. reflexivity. Qed.

  Lemma len_next_held : forall q i, q_bounded q -> req_legal c q = true ->
    i_wlen i = q_wlen q -> i_sp i = q_sp q -> len_next cfg i = lenq q.
  Proof.
    intros q i (_ & Hw & _) Hl Ew Es. unfold req_legal in Hl. apply andb_true_iff in Hl as [Hl _].
    unfold len_next, DescCommon.lenq. cbn [block_cfg k_mps]. rewrite Ew, Es.
    destruct (N.ltb_spec (q_wlen q) (q_sp q)); [lia|].
    destruct (N.leb_spec (q_wlen q - q_sp q) mps); [lia|]. rewrite trunc_small by (change (2 ^ 16) with 65536; lia). lia.
  Qed.

  Lemma lat_cases : forall q,
    (max_type c < v_type (q_value q) /\ lat q = 1 /\ fd q = None) \/
    (v_type (q_value q) <= max_type c /\ lat q = 2 /\ fd q = None) \/
    (v_type (q_value q) <= max_type c /\ lat q = 4 /\ exists d, fd q = Some d).
  Proof.
    intros q. unfold bk_lat, DescCommon.fd. destruct (N.ltb_spec (max_type c) (v_type (q_value q))) as [H|H].
    - left. split; [exact H|]. split; [reflexivity|]. unfold find_desc.
      destruct (assoc (v_type (q_value q)) c) as [idxs|] eqn:Ea; [|reflexivity].
      destruct (cf_group c F _ _ Ea) as (_ & _ & _ & _ & _ & Hle). lia.
    - right. destruct (find_desc c (v_type (q_value q)) (v_index (q_value q))) as [d|].
      + right. split; [exact H|]. split; [reflexivity|]. exists d. reflexivity.
      + left. split; [exact H|]. split; reflexivity.
  Qed.

  Lemma didx_of_val : forall st i q, i_value i = q_value q ->
    (k_indirect cfg = true -> b_didx st = didx_val c (q_value q)) -> didx_of cfg st i = didx_val c (q_value q).
  Proof.
    intros st i q Ev H. unfold didx_of, didx_val, k_indirect in *. cbn [block_cfg k_imap] in *.
    destruct (index_map c); [rewrite Ev; reflexivity | apply H; reflexivity].
  Qed.

  Lemma imap_lookup_val : forall v, k_indirect cfg = true -> imap_lookup cfg v = didx_val c v.
  Proof.
    intros v H. unfold imap_lookup, didx_val, k_indirect in *. cbn [block_cfg k_imap] in *.
    destruct (index_map c); [discriminate | reflexivity].
  Qed.

  Lemma lenq_pos : forall q, req_legal c q = true -> 1 <= lenq q.
  Proof.
    intros q Hl. unfold req_legal in Hl. apply andb_true_iff in Hl as [Hl _]. unfold DescCommon.lenq. lia.
  Qed.

  Lemma pw_facts : forall d : desc, nlen d <= max_desc_len c -> nlen d < 2 ^ pw.
  Proof. intros d H. pose proof (N.size_gt (max_desc_len c)). lia. Qed.

  (* one cycle in SEND_DESCRIPTOR *)
  Lemma send_step : forall q i d B len pos sent dlen base didx rd bs f,
    q_bounded q -> req_legal c q = true -> held q i = true -> fd q = Some d -> data_at B d ->
    len = lenq q -> pos = q_sp q + sent -> pos < nlen d -> sent < lenq q -> dlen = nlen d -> base = B ->
    rd = rom_read rom (B + pos / 4) ->
    bs = firstn (N.to_nat (lenq q - sent)) (skipn (N.to_nat pos) d) -> f = (sent =? 0) ->
    let st := {| b_fsm := B_SEND_DESCRIPTOR; b_len := len; b_pos := pos; b_sent := sent; b_dlen := dlen;
                 b_base := base; b_didx := didx; b_rd := rd |} in
    bk_out cfg st i = snd (send bs f q i) /\ rel (bk_next cfg st i) (fst (send bs f q i)).
  Proof.
    intros q i d B len pos sent dlen base didx rd bs f Hb Hleg HE Hfd Hda -> Hpos Hlt Hsl -> -> -> Hbs -> st. subst st.
    destruct (held_fields _ _ HE) as (Ev & Ew & Esp & Est).
    pose proof (len_next_held q i Hb Hleg Ew Esp) as Hln.
    destruct Hda as (Hd16 & HB16 & Hdmax & Hbytes).
    destruct rom_bounds as (Hrom & Haw & _).
    destruct (Hbytes pos Hlt) as [Hin Hbyte].
    assert (Hnat : (N.to_nat pos < length d)%nat) by (unfold nlen in Hlt; lia).
    rewrite (firstn_skipn_cons d (N.to_nat (lenq q - sent)) (N.to_nat pos) ltac:(lia) Hnat) in Hbs.
    set (rest := firstn (N.to_nat (lenq q - sent) - 1) (skipn (S (N.to_nat pos)) d)) in *.
    set (ol := (nlen d =? pos + 1) || (lenq q <=? sent + 1)).
    assert (Hlast : match rest with [] => true | _ :: _ => false end = ol).
    { subst rest ol. rewrite firstn_skipn_last. unfold nlen in *.
      destruct (Nat.eqb_spec (N.to_nat (lenq q - sent) - 1) 0), (Nat.leb_spec (length d) (S (N.to_nat pos))),
               (N.eqb_spec (N.of_nat (length d)) (pos + 1)), (N.leb_spec (lenq q) (sent + 1)); cbn [orb]; try reflexivity; lia. }
    subst bs. cbn [send]. rewrite Hlast.
    split.
    - (* outputs *)
      cbn [snd]. unfold bk_out, on_first, on_last. cbn [b_fsm b_rd b_pos b_dlen b_len b_sent]. fold ol. f_equal.
      + rewrite <- Hbyte. f_equal. rewrite bits_spec. change (2 ^ 0) with 1. change (2 ^ 2) with 4. rewrite N.div_1_r. reflexivity.
      + rewrite Esp. destruct (N.eqb_spec pos (q_sp q)), (N.eqb_spec sent 0); try reflexivity; lia.
    - (* next state *)
      unfold bk_next, bk_addr, on_last. cbn [b_fsm b_dlen b_pos b_len b_sent b_base b_didx b_rd]. fold ol.
      destruct (i_ready i) eqn:Er.
      + destruct ol eqn:El.
        * cbn [fst rel b_fsm]. reflexivity.
        * (* advance *)
          cbn [fst]. subst ol.
          assert (Hp1 : pos + 1 < nlen d) by lia.
          assert (Hs1 : sent + 1 < lenq q) by lia.
          pose proof (pw_facts d Hdmax) as Hpw.
          assert (Hpw2 : 2 <= pw) by (apply size_ge_2; lia).
          cbn [rel]. exists q. split; [reflexivity|]. split; [exact Hb|]. split; [exact Hleg|].
          cbn [b_len b_fsm]. split; [exact Hln|].
          exists d, B, rest, false. cbn [sending b_pos b_sent b_dlen b_base b_rd block_cfg k_pw k_rom k_aw negb andb].
          assert (Ep : trunc pw (pos + 1) = pos + 1) by (apply trunc_small; lia).
          assert (Es1 : trunc 16 (sent + 1) = sent + 1).
          { apply trunc_small. change (2 ^ 16) with 65536. unfold DescCommon.lenq in Hs1. lia. }
          rewrite Ep, Es1.
          split; [exact Hfd|]. split; [reflexivity|].
          split; [exact (conj Hd16 (conj HB16 (conj Hdmax Hbytes)))|].
          split; [lia|]. split; [exact Hp1|]. split; [exact Hs1|]. split; [reflexivity|]. split; [reflexivity|].
          split.
          { destruct (Hbytes (pos + 1) Hp1) as [Hin1 _].
            rewrite bits_spec. change (2 ^ 2) with 4.
            rewrite (N.mod_small ((pos + 1) / 4)) by (apply div4_lt; [exact Hpw2 | lia]).
            rewrite trunc_small by lia. reflexivity. }
          split.
          { subst rest. f_equal; [lia|]. f_equal. lia. }
          destruct (N.eqb_spec (sent + 1) 0); [lia | reflexivity].
      + (* not accepted: hold *)
        cbn [fst rel]. exists q. split; [reflexivity|]. split; [exact Hb|]. split; [exact Hleg|].
        cbn [b_len b_fsm]. split; [exact Hln|].
        exists d, B, (nth (N.to_nat pos) d 0 :: rest), (sent =? 0).
        cbn [sending b_pos b_sent b_dlen b_base b_rd block_cfg k_pw k_rom k_aw andb].
        split; [exact Hfd|]. split; [reflexivity|]. split; [exact (conj Hd16 (conj HB16 (conj Hdmax Hbytes)))|].
        split; [exact Hpos|]. split; [exact Hlt|]. split; [exact Hsl|]. split; [reflexivity|]. split; [reflexivity|].
        split.
        { rewrite N.shiftr_div_pow2. change (2 ^ 2) with 4. rewrite trunc_small by lia. reflexivity. }
        split; [|reflexivity].
        rewrite (firstn_skipn_cons d (N.to_nat (lenq q - sent)) (N.to_nat pos) ltac:(lia) Hnat). reflexivity.
  Qed.

  Lemma resp_absent : forall q, fd q = None -> resp q = RStall.
  Proof. intros q H. unfold resp_of, respond. unfold DescCommon.fd in H. rewrite H. reflexivity. Qed.

  Lemma resp_present : forall q d, fd q = Some d ->
    resp q = RData (firstn (N.to_nat (lenq q)) (skipn (N.to_nat (q_sp q)) d)).
  Proof. intros q d H. unfold resp_of, respond. unfold DescCommon.fd in H. rewrite H. reflexivity. Qed.

  Lemma legal_sp : forall q d, req_legal c q = true -> fd q = Some d -> q_sp q <= nlen d.
  Proof.
    intros q d Hl Hf. unfold req_legal in Hl. unfold DescCommon.fd in Hf. rewrite Hf in Hl.
    apply andb_true_iff in Hl as [_ Hl]. lia.
  Qed.

  Lemma rel_step : forall st s i, rel st s -> s_env (req_legal c) s i = true ->
    bk_out cfg st i = snd (s_step resp lat s i) /\ rel (bk_next cfg st i) (fst (s_step resp lat s i)).
  Proof.
    intros [f len pos sent dlen base didx rd] s i HR HE.
    destruct rom_bounds as (Hrom & Haw & Hnt).
    destruct s as [|k q|bs fl q].
    - (* idle *)
      cbn [rel b_fsm] in HR. subst f. cbn [s_env] in HE. cbn [s_step].
      unfold bk_out, bk_next. cbn [b_fsm].
      destruct (i_start i) eqn:Es.
      + assert (Hk : (lat (req_of i) =? 0) = false).
        { destruct (lat_cases (req_of i)) as [(_ & E & _)|[(_ & E & _)|(_ & E & _)]]; rewrite E; reflexivity. }
        unfold wait. rewrite Hk. cbn [fst snd]. split; [reflexivity|].
        cbn [rel]. exists (req_of i). split; [reflexivity|]. split; [apply req_of_bounded|]. split; [exact HE|].
        cbn [b_len b_fsm b_sent].
        split; [apply len_next_held; [apply req_of_bounded | exact HE | reflexivity | reflexivity]|].
        split; reflexivity.
      + cbn [fst snd rel b_fsm]. split; reflexivity.
    - (* waiting for the answer to q *)
      cbn [rel] in HR. destruct HR as (q' & Eq & Hb & Hleg & Hlen & HR).
      cbn [req_of_state] in Eq. inversion Eq; subst q'. clear Eq.
      cbn [s_env] in HE. destruct (held_fields _ _ HE) as (Ev & Ew & Esp & Est).
      pose proof (len_next_held q i Hb Hleg Ew Esp) as Hln.
      pose proof (lenq_pos q Hleg) as Hlq.
      destruct Hb as (Hv16 & Hw16 & Hs11). assert (Hb : q_bounded q) by (repeat split; assumption).
      cbn [b_fsm b_len b_sent b_pos b_rd b_didx b_dlen b_base wait_k] in HR, Hlen. subst len.
      cbn [s_step]. unfold wait.
      destruct f.
      + contradiction.
      + (* START *)
        destruct HR as (-> & Hk). inversion Hk; subst k. clear Hk.
        unfold bk_out, bk_next. cbn [b_fsm block_cfg k_maxtype k_pw k_rom]. rewrite Ev.
        destruct (lat_cases q) as [(Ht & El & Ef)|[(Ht & El & Ef)|(Ht & El & d & Ef)]]; rewrite El.
        * (* type beyond the table: stall now *)
          cbn [N.sub N.eqb Pos.sub]. change (1 - 1 =? 0) with true. cbv iota.
          unfold deliver. rewrite (resp_absent q Ef). cbn [fst snd].
          destruct (N.leb_spec (v_type (q_value q)) (max_type c)); [lia|]. split; [reflexivity|]. reflexivity.
        * change (2 - 1 =? 0) with false. cbv iota. cbn [fst snd].
          destruct (N.leb_spec (v_type (q_value q)) (max_type c)); [|lia]. split; [reflexivity|].
          cbn [rel]. exists q. split; [reflexivity|]. split; [exact Hb|]. split; [exact Hleg|].
          cbn [b_len b_fsm b_sent b_pos b_rd b_didx wait_k]. split; [exact Hln|].
          split; [reflexivity|]. split; [intros d Hd; congruence|]. split; [exact H|].
          split; [rewrite El; reflexivity|]. split.
          { unfold bk_addr. cbn [b_fsm block_cfg k_aw]. rewrite Ev. apply rom_read_trunc. unfold ntypes in Hnt. lia. }
          intro Hind. rewrite Hind. apply imap_lookup_val. exact Hind.
        * change (4 - 1 =? 0) with false. cbv iota. cbn [fst snd].
          destruct (N.leb_spec (v_type (q_value q)) (max_type c)); [|lia]. split; [reflexivity|].
          cbn [rel]. exists q. split; [reflexivity|]. split; [exact Hb|]. split; [exact Hleg|].
          cbn [b_len b_fsm b_sent b_pos b_rd b_didx wait_k]. split; [exact Hln|].
          split; [reflexivity|]. split.
          { intros d' Hd'. rewrite Esp. apply trunc_small.
            destruct (walk_present c (q_value q) d' F Hv16 Hd') as (n & A & B & _ & _ & _ & _ & _ & _ & _ & _ & _ & Hmax & _).
            pose proof (legal_sp q d' Hleg Hd'). pose proof (pw_facts d' Hmax). lia. }
          split; [exact H|]. split; [rewrite El; reflexivity|]. split.
          { unfold bk_addr. cbn [b_fsm block_cfg k_aw]. rewrite Ev. apply rom_read_trunc. unfold ntypes in Hnt. lia. }
          intro Hind. rewrite Hind. apply imap_lookup_val. exact Hind.
      + (* LOOKUP_TYPE *)
        destruct HR as (-> & Hpos & Ht & Hk & -> & Hdidx). inversion Hk; subst k. clear Hk.
        pose proof (didx_of_val {| b_fsm := B_LOOKUP_TYPE; b_len := lenq q; b_pos := pos; b_sent := 0; b_dlen := dlen;
                                   b_base := base; b_didx := didx; b_rd := rom_read rom (v_type (q_value q)) |} i q Ev Hdidx) as Hdv.
        unfold bk_out, bk_next, bk_addr. cbn [b_fsm b_rd b_len block_cfg k_rom k_aw]. rewrite Hdv.
        destruct (lat_cases q) as [(Ht' & El & Ef)|[(_ & El & Ef)|(_ & El & d & Ef)]]; [lia | |]; rewrite El.
        * (* absent: stall now *)
          change (2 - 2 =? 0) with true. cbv iota. unfold deliver. rewrite (resp_absent q Ef). cbn [fst snd].
          pose proof (walk_absent c (q_value q) F Hv16 Ht Ef) as Hwa.
          destruct (N.leb_spec (e_hi (rom_read rom (v_type (q_value q)))) (didx_val c (q_value q))); [|lia].
          split; reflexivity.
        * change (4 - 2 =? 0) with false. cbv iota. cbn [fst snd].
          destruct (walk_present c (q_value q) d F Hv16 Ef) as (n & A & B & _ & Hr1 & Hn & HA & Hdn & HAd & Hr2 & Hd16 & HB & Hmax & Hbytes).
          rewrite Hr1. rewrite (e_hi_entry n (4 * A)) by lia.
          destruct (N.leb_spec n (didx_val c (q_value q))); [lia|].
          destruct (N.eqb_spec (lenq q) 0); [lia|].
          split; [reflexivity|].
          cbn [rel]. exists q. split; [reflexivity|]. split; [exact Hb|]. split; [exact Hleg|].
          cbn [b_len b_fsm b_sent b_pos b_rd wait_k]. split; [exact Hln|].
          exists d, B. split; [exact Ef|]. split; [reflexivity|]. split; [reflexivity|]. split; [exact (Hpos d Ef)|].
          split.
          { rewrite (ptr_entry n A aw) by lia. rewrite trunc_small by lia. exact Hr2. }
          exact (conj Hd16 (conj HB (conj Hmax Hbytes))).
      + (* LOOKUP_DESCRIPTOR *)
        destruct HR as (d & B & Ef & Hk & -> & -> & -> & Hda). inversion Hk; subst k. clear Hk.
        change (1 =? 0) with false. cbv iota. cbn [fst snd].
        destruct Hda as (Hd16 & HB16 & Hdmax & Hbytes).
        unfold bk_out, bk_next, bk_addr. cbn [b_fsm b_rd b_pos block_cfg k_rom k_aw]. split; [reflexivity|].
        rewrite (e_hi_entry (nlen d) (4 * B)) by lia.
        destruct (N.leb_spec (nlen d) (q_sp q)) as [Hz|Hz].
        * cbn [rel]. exists q. split; [reflexivity|]. split; [exact Hb|]. split; [exact Hleg|].
          cbn [b_len b_fsm wait_k]. split; [exact Hln|]. exists d. repeat split; assumption.
        * destruct (Hbytes (q_sp q) Hz) as [Hin _].
          assert (Hnat : (N.to_nat (q_sp q) < length d)%nat) by (unfold nlen in Hz; lia).
          cbn [rel]. exists q. split; [reflexivity|]. split; [exact Hb|]. split; [exact Hleg|].
          cbn [b_len b_fsm]. split; [exact Hln|].
          exists d, B, (firstn (N.to_nat (lenq q)) (skipn (N.to_nat (q_sp q)) d)), true.
          cbn [b_pos b_sent b_dlen b_base b_rd].
          split; [exact Ef|]. split.
          { cbn [sending]. rewrite (resp_present q d Ef).
            rewrite (firstn_skipn_cons d (N.to_nat (lenq q)) (N.to_nat (q_sp q)) ltac:(lia) Hnat). reflexivity. }
          split; [exact (conj Hd16 (conj HB16 (conj Hdmax Hbytes)))|].
          split; [lia|]. split; [exact Hz|]. split; [lia|]. split; [reflexivity|].
          split; [apply ptr_entry; lia|].
          split; [rewrite lookup_addr by lia; reflexivity|].
          split; [rewrite N.sub_0_r; reflexivity | reflexivity].
      + (* SEND_DESCRIPTOR, first cycle of the answer *)
        destruct HR as (d & B & bs & fl & Ef & Hs & Hda & Hp & Hlt & Hsl & Hdl & Hbase & Hrd & Hbs & Hfl).
        cbn [sending] in Hs. destruct k as [|kp]; [|discriminate].
        change (0 =? 0) with true. cbv iota. unfold deliver.
        destruct (resp q) as [|[|b0 bs0]] eqn:Er; try discriminate. inversion Hs; subst bs fl. clear Hs.
        apply (send_step q i d B (lenq q) pos sent dlen base didx rd (b0 :: bs0) true); try assumption; reflexivity.
      + (* SEND_ZLP *)
        destruct HR as (d & Ef & Hk & Hz). inversion Hk; subst k. clear Hk.
        change (0 =? 0) with true. cbv iota. unfold deliver. rewrite (resp_present q d Ef).
        rewrite skipn_all2 by (unfold nlen in Hz; lia). rewrite firstn_nil. cbn [fst snd].
        unfold bk_out, bk_next. cbn [b_fsm]. split; reflexivity.
    - (* sending *)
      cbn [rel] in HR. destruct HR as (q' & Eq & Hb & Hleg & Hlen & HR).
      cbn [req_of_state] in Eq. inversion Eq; subst q'. clear Eq.
      cbn [s_env] in HE. cbn [b_fsm b_len b_sent b_pos b_rd b_didx b_dlen b_base wait_k] in HR, Hlen.
      cbn [s_step].
      destruct f; try contradiction;
        try (destruct HR as (_ & Hk); discriminate);
        try (destruct HR as (_ & _ & _ & Hk & _); discriminate);
        try (destruct HR as (? & ? & _ & Hk & _); discriminate);
        try (destruct HR as (? & _ & Hk & _); discriminate).
      destruct HR as (d & B & bs' & fl' & Ef & Hs & Hda & Hp & Hlt & Hsl & Hdl & Hbase & Hrd & Hbs & Hfl).
      cbn [sending] in Hs. injection Hs as -> ->.
      apply (send_step q i d B len pos sent dlen base didx rd bs' fl'); assumption.
  Qed.

  Theorem block_refines_from : forall tr st s, rel st s ->
    env_ok sstate (s_step resp lat) (s_env (req_legal c)) s tr = true ->
    run (bk_step cfg) st tr = run (s_step resp lat) s tr.
  Proof.
    induction tr as [|i t IH]; intros st s HR HE; [reflexivity|].
    cbn [env_ok] in HE. apply andb_true_iff in HE as [HE1 HE2].
    destruct (rel_step st s i HR HE1) as [Ho Hn].
    cbn [run bk_step]. destruct (s_step resp lat s i) as [s' o] eqn:Es. cbn [fst snd] in *.
    rewrite Ho. f_equal. apply IH; assumption.
  Qed.
End Refine.

(* The block-ROM handler, configured from any well-formed collection, answers every legal request sequence exactly
   as the specification machine does. *)
Theorem block_refines : forall c mps, coll_okb c = true -> 1 <= mps /\ mps < 65536 -> forall tr,
  env_ok sstate (s_step (resp_of c mps) (bk_lat c)) (s_env (req_legal c)) SIdle tr = true ->
  run (bk_step (block_cfg c mps)) bk_init tr = run (s_step (resp_of c mps) (bk_lat c)) SIdle tr.
Proof.
  intros c mps Hc Hm tr HE. apply (block_refines_from c mps (coll_ok_facts c Hc) Hm); [reflexivity | exact HE].
Qed.
