(* C09 -- proofs about the block-ROM GET_DESCRIPTOR handler model (Model/DescBlock.v):
   (a) packing lemmas for the lock-step obligations;
   (b) block_refines: for every well-formed collection and packet size the model, configured the way the
       constructor configures the gateware (ROM image rom_of, widths, index map), is output-equivalent to the
       specification machine s_step (resp_of c mps) on every input history that respects s_env. *)
From Coq Require Import NArith ZArith Arith List Bool Lia ZifyBool ZifyN.
Import ListNotations.
From LunaLib Require Import Netlist Bits Machine.
From LunaModel Require Import DescSpec DescSpec_proofs DescRom DescRom_proofs DescBlock.
Open Scope N_scope.
Ltac Zify.zify_post_hook ::= Z.div_mod_to_equations.

(* ---------------------------------------------------------------------------------------------------------- *)
(* (a) packing *)
Lemma unpair_lo : forall w a b, a < 2 ^ w -> trunc w (pair w a b) = a.
Proof.
  intros w a b H. unfold pair. rewrite trunc_spec, N.shiftl_mul_pow2.
  rewrite N.mod_add by (pose proof (pow2_pos w); lia). apply N.mod_small. exact H.
Qed.

Lemma unpair_hi : forall w a b, a < 2 ^ w -> N.shiftr (pair w a b) w = b.
Proof.
  intros w a b H. unfold pair. rewrite N.shiftr_div_pow2, N.shiftl_mul_pow2.
  rewrite N.div_add by (pose proof (pow2_pos w); lia). rewrite N.div_small by exact H. reflexivity.
Qed.

Lemma bk_dec_enc : forall c st, bk_wf c st -> bk_dec c (bk_enc c st) = st.
Proof.
  intros c [f len pos sent dlen base didx rd] (H1 & H2 & H3 & H4 & H5 & H6).
  unfold bk_dec, bk_enc. cbn [b_fsm b_len b_pos b_sent b_dlen b_base b_didx b_rd] in *.
  assert (Hf : fsm_code f < 2 ^ 3) by (destruct f; vm_compute; reflexivity).
  rewrite (unpair_lo 3 _ _ Hf), (unpair_hi 3 _ _ Hf).
  rewrite (unpair_lo _ len _ H1), (unpair_hi _ len _ H1).
  rewrite (unpair_lo _ pos _ H2), (unpair_hi _ pos _ H2).
  rewrite (unpair_lo _ sent _ H3), (unpair_hi _ sent _ H3).
  rewrite (unpair_lo _ dlen _ H4), (unpair_hi _ dlen _ H4).
  rewrite (unpair_lo _ base _ H5), (unpair_hi _ base _ H5).
  rewrite (unpair_lo _ didx _ H6), (unpair_hi _ didx _ H6).
  destruct f; reflexivity.
Qed.

Lemma i_wlen_lt : forall i, i_wlen i < 65536.
Proof. intros. unfold i_wlen. apply (bits_lt i 16 16). Qed.
Lemma i_value_lt : forall i, i_value i < 65536.
Proof. intros. unfold i_value. apply (bits_lt i 0 16). Qed.
Lemma i_sp_lt : forall i, i_sp i < 2048.
Proof. intros. unfold i_sp. apply (bits_lt i 33 11). Qed.

Lemma len_next_lt : forall c i, len_next c i < 2 ^ 16.
Proof.
  intros c i. unfold len_next. pose proof (i_wlen_lt i).
  destruct (i_wlen i <? i_sp i); [apply trunc_lt|].
  destruct (i_wlen i - i_sp i <=? k_mps c); [change (2 ^ 16) with 65536; lia | apply trunc_lt].
Qed.

Lemma imap_lookup_lt : forall c v, imap_lookup c v < 2 ^ 8.
Proof. intros. unfold imap_lookup. destruct (assoc v (k_imap c)); [apply trunc_lt | vm_compute; reflexivity]. Qed.

Lemma bk_wf_step : forall c st i, bk_wf c st -> bk_wf c (fst (bk_step c st i)).
Proof.
  intros c st i (H1 & H2 & H3 & H4 & H5 & H6). unfold bk_step, bk_next, bk_wf. cbn [fst].
  pose proof (len_next_lt c i) as HL. pose proof (pow2_pos 16) as P16. pose proof (pow2_pos (k_aw c)) as Paw.
  assert (Hhi : forall x, e_hi x < 2 ^ 16) by (intro x; unfold e_hi; apply bits_lt).
  destruct (b_fsm st); cbn [b_len b_pos b_sent b_dlen b_base b_didx].
  - repeat split; assumption.
  - repeat split; try assumption; [apply trunc_lt|]. destruct (k_indirect c); [apply imap_lookup_lt | assumption].
  - repeat split; assumption.
  - repeat split; try assumption; [apply Hhi | apply bits_lt].
  - destruct (i_ready i); [destruct (on_last st)|]; cbn [b_len b_pos b_sent b_dlen b_base b_didx];
      repeat split; try assumption; apply trunc_lt.
  - repeat split; assumption.
Qed.

Lemma bk_wf_init : forall c, bk_wf c bk_init.
Proof. intros c. unfold bk_wf, bk_init. cbn. repeat split; apply pow2_pos. Qed.
