(* C48 (part 2) -- hand model and specification of
     luna/gateware/usb/usb3/application/descriptor.py : GetDescriptorHandler  (SuperSpeed, 32-bit stream).

   The handler instantiates one ConstantStreamGenerator per descriptor (32-bit payload, 4 byte-valid bits,
   16-bit max_length), selects the one whose key (type << 8 | index) equals `value`, and passes its stream through
   a one-word output register that is loaded whenever it is empty or tx.ready.

   The generators are modelled by C27's SPECIFICATION of ConstantStreamGenerator (Model/ConstGen.v: `answer`,
   i.e. `beats`), in a compact form: kind, latched max_length, index of the current beat of the answer.  C27 proves
   the generator's code-shaped model equal to that specification; here the composite (generators + selection +
   output register) is tied to the handler netlist as a whole.

   One cycle's packed input word :  value(16) length(16) start(1) tx.ready(1)
   One cycle's packed output word:  tx.valid(4) tx.first(1) tx.last(1) tx.payload(32) tx_length(16) stall(1)    *)
From Coq Require Import NArith List Bool.
Import ListNotations.
From LunaLib Require Import Netlist Machine.
From LunaModel Require Import ConstGen.
Open Scope N_scope.

(* ---- one generator, specification form ---- *)
Inductive qk := QIdle | QSend | QDone.
Record q_st := { q_k : qk; q_ml : N; q_pos : nat }.
Definition q_init : q_st := {| q_k := QIdle; q_ml := 0; q_pos := 0 |}.

(* what a stream word looks like on the wire: valid mask, first, last, payload *)
Definition wire := (N * bool * bool * N)%type.
Definition wire_none : wire := (0, false, false, 0).
Definition wire_of (c : cg_cfg) (b : beat) : wire := (vmask c (b_bytes b), b_first b, b_last b, b_payload b).
Definition wire_valid (w : wire) : N := fst (fst (fst w)).

Section Gen.
  Variable c : cg_cfg.
  Definition q_answer (s : q_st) : list beat := answer c 0 (q_ml s).
  Definition q_wire (s : q_st) : wire :=
    match q_k s with
    | QSend => match nth_error (q_answer s) (q_pos s) with Some b => wire_of c b | None => wire_none end
    | _ => wire_none
    end.
  Definition q_olen (s : q_st) : N := olen_of c (q_ml s).          (* output_length = min(max_length, len) *)
  Definition q_next (s : q_st) (start : bool) (ml : N) (ready : bool) : q_st :=
    match q_k s with
    | QIdle => if start && (0 <? ml) then {| q_k := QSend; q_ml := ml; q_pos := 0 |}
               else {| q_k := QIdle; q_ml := ml; q_pos := 0 |}
    | QSend => if ready
               then if Nat.ltb (S (q_pos s)) (length (q_answer s))
                    then {| q_k := QSend; q_ml := q_ml s; q_pos := S (q_pos s) |}
                    else {| q_k := QDone; q_ml := q_ml s; q_pos := 0 |}
               else s
    | QDone => {| q_k := QIdle; q_ml := q_ml s; q_pos := 0 |}
    end.
End Gen.

(* ---- the handler ---- *)
Definition hd_value (i : N) : N := bits i 0 16.
Definition hd_length (i : N) : N := bits i 16 16.
Definition hd_start (i : N) : bool := N.odd (bits i 32 1).
Definition hd_ready (i : N) : bool := N.odd (bits i 33 1).

Record hd_st := { h_gens : list q_st; h_w : wire; h_len : N }.     (* generators, tx register, tx_length register *)

Definition hd_pack_out (w : wire) (len : N) (stall : bool) : N :=
  let '(v, f, l, p) := w in
  v + N.shiftl (b2n f) 4 + N.shiftl (b2n l) 5 + N.shiftl p 6 + N.shiftl len 38 + N.shiftl (b2n stall) 54.

Section Handler.
  Variable descs : list (N * cg_cfg).            (* (type << 8 | index, generator configuration) *)

  Definition hd_init : hd_st := {| h_gens := map (fun _ => q_init) descs; h_w := wire_none; h_len := 0 |}.

  (* step every generator; the selected one (key = value) sees start / length / ready, the others see zeros;
     returns the new generator states and the selected generator's stream word and output_length *)
  Fixpoint hd_gens (ds : list (N * cg_cfg)) (gs : list q_st) (value len : N) (start le : bool)
    : list q_st * option (wire * N) :=
    match ds, gs with
    | (k, c) :: ds', g :: gs' =>
        let act := value =? k in
        let g' := q_next c g (act && start) (if act then len else 0) (act && le) in
        let (gs'', sel) := hd_gens ds' gs' value len start le in
        (g' :: gs'', if act then Some (q_wire c g, q_olen c g) else sel)
    | _, _ => ([], None)
    end.

  Definition hd_known (value : N) : bool := existsb (fun d => value =? fst d) descs.

  Definition hd_step (st : hd_st) (i : N) : hd_st * N :=
    let le := (wire_valid (h_w st) =? 0) || hd_ready i in           (* ~tx.valid.any() | tx.ready *)
    let (gs', sel) := hd_gens descs (h_gens st) (hd_value i) (hd_length i) (hd_start i) le in
    ({| h_gens := gs';
        h_w := match sel with Some (w, _) => if le then w else h_w st | None => h_w st end;
        h_len := match sel with Some (_, ol) => if le then ol else h_len st | None => h_len st end |},
     hd_pack_out (h_w st) (h_len st) (negb (hd_known (hd_value i)) && hd_start i)).
End Handler.

(* =====================  SPECIFICATION (stream level)  =====================
   What goes over tx: the words handed over, i.e. present (valid mask non-zero) in a cycle with tx.ready,
   each with the tx_length shown in that cycle. *)
Definition hd_ovalid (o : N) : N := bits o 0 4.
Definition hd_owire (o : N) : wire := (bits o 0 4, N.odd (bits o 4 1), N.odd (bits o 5 1), bits o 6 32).
Definition hd_olen (o : N) : N := bits o 38 16.
Definition hd_ostall (o : N) : bool := N.odd (bits o 54 1).

Fixpoint hd_xfers (ins outs : list N) : list (wire * N) :=
  match ins, outs with
  | i :: ti, o :: to =>
      (if negb (hd_ovalid o =? 0) && hd_ready i then [(hd_owire o, hd_olen o)] else []) ++ hd_xfers ti to
  | _, _ => []
  end.

(* the expected answer to GET_DESCRIPTOR(value = key of configuration c, wLength = ml):
   the beats of C27's `answer` from position 0 with byte budget ml, each shown with tx_length = min(ml, len) *)
Definition hd_expected (c : cg_cfg) (ml : N) : list (wire * N) :=
  map (fun b => (wire_of c b, olen_of c ml)) (answer c 0 ml).

(* a request: one cycle with start, then `value` and `length` held with start low *)
Definition hd_in (value len : N) (start ready : bool) : N :=
  value + N.shiftl len 16 + N.shiftl (b2n start) 32 + N.shiftl (b2n ready) 33.
Definition hd_request (value len : N) (r0 : bool) (readys : list bool) : list N :=
  hd_in value len true r0 :: map (hd_in value len false) readys.

(* configurations the SuperSpeed handler creates: 4 bytes per word, 4 valid bits, 16-bit max_length;
   the ROM words fit the 32-bit payload *)
Definition hd_cfg_ok (c : cg_cfg) : bool :=
  cfg_okb c && c_hasml c && (c_bpw c =? 4) && (c_vw c =? 4) && (c_mlw c =? 16) && (c_dw c =? 32)
  && forallb (fun w => w <? 2 ^ 32) (c_words c).

(* ---- packing of the model state for the lock-step obligation ---- *)
Definition q_enc (s : q_st) : N :=
  (match q_k s with QIdle => 0 | QSend => 1 | QDone => 2 end) + 4 * (q_ml s + 2 ^ 16 * N.of_nat (q_pos s)).
Definition q_dec (m : N) : q_st :=
  {| q_k := match N.land m 3 with 0 => QIdle | 1 => QSend | _ => QDone end;
     q_ml := N.land (N.shiftr m 2) (N.ones 16); q_pos := N.to_nat (N.shiftr m 18) |}.
(* generators are packed in 64-bit slots *)
Fixpoint qs_enc (gs : list q_st) : N := match gs with [] => 0 | g :: t => q_enc g + 2 ^ 64 * qs_enc t end.
Fixpoint qs_dec (n : nat) (m : N) : list q_st :=
  match n with O => [] | S k => q_dec (N.land m (N.ones 64)) :: qs_dec k (N.shiftr m 64) end.
Definition w_enc (w : wire) : N := let '(v, f, l, p) := w in v + 16 * (b2n f + 2 * (b2n l + 2 * p)).
Definition w_dec (m : N) : wire :=
  (N.land m 15, N.odd (N.shiftr m 4), N.odd (N.shiftr m 5), N.shiftr m 6).
Definition hd_enc (st : hd_st) : N := h_len st + 2 ^ 16 * (w_enc (h_w st) + 2 ^ 38 * qs_enc (h_gens st)).
Definition hd_dec (n : nat) (m : N) : hd_st :=
  {| h_len := N.land m (N.ones 16); h_w := w_dec (N.land (N.shiftr m 16) (N.ones 38));
     h_gens := qs_dec n (N.shiftr m 54) |}.
(* well-formed model states, relative to the descriptor collection *)
Definition q_wfd (c : cg_cfg) (g : q_st) : Prop :=
  q_ml g < 2 ^ 16 /\ (q_pos g <= length (c_words c))%nat /\ (q_k g = QSend -> 0 < q_ml g).
Definition w_ok (w : wire) (len : N) : Prop := let '(v, f, l, p) := w in v < 16 /\ p < 2 ^ 32 /\ len < 2 ^ 16.
Definition hd_wf (descs : list (N * cg_cfg)) (st : hd_st) : Prop :=
  Forall2 (fun d g => q_wfd (snd d) g) descs (h_gens st) /\ w_ok (h_w st) (h_len st).
Definition hd_descs_ok (descs : list (N * cg_cfg)) : bool :=
  forallb (fun d => hd_cfg_ok (snd d) && (N.of_nat (length (c_words (snd d))) <? 2 ^ 32)) descs.

(* input alphabet for the lock-step obligation *)
Definition hd_alphabet (values lens : list N) : list N :=
  flat_map (fun v => flat_map (fun l => flat_map (fun s => map (fun r => hd_in v l s r) [false; true]) [false; true]) lens) values.

(* ---- the specification as a request-level monitor over simulator traces (runtime oracle).
   Monitor state: idle, or answering descriptor number k with limit ml having handed over `pos` words.
   None = environment assumption broken (start / changed value or length while a request is being answered). *)
Fixpoint hd_find (ds : list (N * cg_cfg)) (value : N) (k : N) : option (N * cg_cfg) :=
  match ds with
  | [] => None
  | (key, c) :: t => if value =? key then Some (k, c) else hd_find t value (k + 1)
  end.
Definition hd_mon (descs : list (N * cg_cfg)) (m i o : N) : option (N * bool) :=
  let active := N.odd m in let k := bits m 1 16 in let ml := bits m 17 16 in let pos := N.shiftr m 33 in
  if active then
    match nth_error descs (N.to_nat k) with
    | None => None
    | Some (key, c) =>
        if hd_start i || negb (hd_value i =? key) || negb (hd_length i =? ml) then None
        else
          let exp := hd_expected c ml in
          let shown := negb (hd_ovalid o =? 0) in
          let ok_word := match nth_error exp (N.to_nat pos) with
                         | Some (w, l) => if shown then (N.eqb (w_enc (hd_owire o)) (w_enc w) && N.eqb (hd_olen o) l) else true
                         | None => negb shown
                         end in
          let pos' := if shown && hd_ready i then pos + 1 else pos in
          let fin := N.of_nat (length exp) <=? pos' in
          Some (if fin then 0 else 1 + 2 * k + N.shiftl ml 17 + N.shiftl pos' 33, ok_word && negb (hd_ostall o))
    end
  else
    let known := hd_find descs (hd_value i) 0 in
    let ok := (hd_ovalid o =? 0) && Bool.eqb (hd_ostall o) (hd_start i && match known with None => true | Some _ => false end) in
    match known with
    | Some (k', _) => Some (if hd_start i && (0 <? hd_length i) then 1 + 2 * k' + N.shiftl (hd_length i) 17 else 0, ok)
    | None => Some (0, ok)
    end.

(* ---- the bytes of an answer (for byte-level checks of concrete descriptor collections) ---- *)
Fixpoint le_bytes (n : nat) (w : N) : list N :=
  match n with O => [] | S k => w mod 256 :: le_bytes k (w / 256) end.
Definition answer_bytes (c : cg_cfg) (ml : N) : list N :=
  flat_map (fun b => firstn (N.to_nat (b_bytes b)) (le_bytes 4 (b_payload b))) (answer c 0 ml).
(* for every listed wLength: the answer's bytes are the first min(wLength, len) bytes of the descriptor *)
Definition desc_bytes_ok (data : list N) (mls : list N) : bool :=
  let c := cfg_of_bytes data 4 false (Some 16) in
  forallb (fun ml => list_eqb (answer_bytes c ml) (firstn (N.to_nat (N.min ml (N.of_nat (length data)))) data)) mls.
Fixpoint n_range (lo : N) (n : nat) : list N := match n with O => [] | S k => lo :: n_range (lo + 1) k end.
