(* C09 -- model and specification of luna/gateware/usb/usb2/descriptor.py: GetDescriptorHandlerMux, the multiplexer
   StandardRequestHandler puts in front of a block-ROM handler (fixed descriptors) and a distributed handler (runtime
   descriptors) when a device has runtime descriptors:

     stalled_i = handler_i.stall | stall_latch_i          mux.stall = all stalled_i
     stall_latch_i <= 1 when handler_i.stall & ~mux.stall;  <= 0 when start | mux.stall
     tx = one-hot mux of the handlers' streams: valid/first/last OR-ed, payload of the (single) valid handler

   This is the PROPERTY-SATISFYING behaviour: a latch is not looked at in the cycle of a new `start`
   (stalled_i = handler_i.stall | (stall_latch_i & ~start)).  The unchanged /repo looks at it, so the latch the ROM
   handler set while a runtime descriptor was being served makes the next request for a ROM descriptor STALL in its
   start cycle (findings/C09-mux-stall-latch.json, .diff).  Runtime descriptors are modelled as constant byte strings
   served by USBDescriptorStreamGenerator; arbitrary callables (generators whose data changes at run time, or that do
   not follow the ConstantStreamGenerator interface) are not.

   mx_step is a combinator over two handler machines, so that the same definition composes the code-shaped handler
   models (bk_step, ds_step) and their specification machines. Ports as in Model/DescSpec.v. *)
From Coq Require Import NArith List Bool.
Import ListNotations.
From LunaLib Require Import Netlist Bits Machine.
From LunaModel Require Import ConstGen DescSpec DescRom DescBlock DescDist.
Open Scope N_scope.

Definition o_stallb (o : N) : bool := N.testbit o 11.
Definition o_validb (o : N) : bool := N.testbit o 0.

(* tx of the mux: flags OR-ed; payload of handler 1 iff it alone is valid, else of handler 0 (Encoder output 0) *)
Definition mx_tx (o0 o1 : N) : N :=
  if o_validb o1 && negb (o_validb o0) then N.lor (bits o0 0 3) (trunc 11 o1) else N.lor (trunc 11 o0) (bits o1 0 3).

Definition mx_stalled (o : N) (l : bool) (i : N) : bool := o_stallb o || (l && negb (i_start i)).
Definition mx_stall (o0 o1 : N) (l0 l1 : bool) (i : N) : bool := mx_stalled o0 l0 i && mx_stalled o1 l1 i.
Definition mx_out (o0 o1 : N) (l0 l1 : bool) (i : N) : N :=
  mx_tx o0 o1 + (if mx_stall o0 o1 l0 l1 i then 2048 else 0).
Definition mx_latch (o : N) (l : bool) (ms : bool) (i : N) : bool :=
  if o_stallb o && negb ms then true else if i_start i || ms then false else l.

Section MuxComb.
  Context {A B : Type}.
  Variable stepA : A -> N -> A * N.        (* handler 0 *)
  Variable stepB : B -> N -> B * N.        (* handler 1 *)

  Definition mx_state : Type := (A * B * (bool * bool))%type.
  Definition mx_step (st : mx_state) (i : N) : mx_state * N :=
    let '(a, b, (l0, l1)) := st in
    let (a', o0) := stepA a i in
    let (b', o1) := stepB b i in
    let ms := mx_stall o0 o1 l0 l1 i in
    ((a', b', (mx_latch o0 l0 ms i, mx_latch o1 l1 ms i)), mx_out o0 o1 l0 l1 i).
End MuxComb.

(* ---- specification: the C09 specification machine for the union of the two collections ---- *)
Definition find2 (cF cR : dcoll) (ty ix : N) : option desc :=
  match find_desc cF ty ix with Some d => Some d | None => find_desc cR ty ix end.
Definition fd2 (cF cR : dcoll) (q : dreq) : option desc := find2 cF cR (v_type (q_value q)) (v_index (q_value q)).

Definition resp_mux (cF cR : dcoll) (mps : N) (q : dreq) : response :=
  match fd2 cF cR q with
  | None => RStall
  | Some d => RData (firstn (N.to_nat (N.min mps (q_wlen q - q_sp q))) (skipn (N.to_nat (q_sp q)) d))
  end.
Definition legal_mux (cF cR : dcoll) (q : dreq) : bool :=
  (q_sp q <? q_wlen q) && match fd2 cF cR q with Some d => q_sp q <=? nlen d | None => true end.
(* implementation-defined latency: that of the handler that owns the descriptor; the ROM handler's for absent ones *)
Definition mx_lat (cF cR : dcoll) (q : dreq) : N :=
  match find_desc cR (v_type (q_value q)) (v_index (q_value q)) with
  | Some _ => ds_lat cR q
  | None => bk_lat cF q
  end.
(* the (type, index) keys of the two parts are disjoint *)
Definition disjoint_keys (cF cR : dcoll) : Prop :=
  forall ty ix, find_desc cF ty ix <> None -> find_desc cR ty ix = None.

(* ---- the code-shaped model: block-ROM handler model + distributed handler model under the mux, plus a ghost
        register (the request of the last start strobe) used only to state the environment assumption of the
        lock-step obligation ---- *)
Record mux_cfg := { x_fixed : dcoll; x_runtime : dcoll; x_mps : N }.

Definition mxm_state : Type := (@mx_state bk_state ds_state * N)%type.
Definition mxm_step (c : mux_cfg) (st : mxm_state) (i : N) : mxm_state * N :=
  let (s, g) := st in
  let (s', o) := mx_step (bk_step (block_cfg (x_fixed c) (x_mps c))) (ds_step (dist_gens (x_runtime c)) (x_mps c)) s i in
  ((s', if i_start i then trunc 45 i else g), o).
Definition mxm_init (c : mux_cfg) : mxm_state := ((bk_init, ds_init (dist_gens (x_runtime c)), (false, false)), 0).

Definition gen_busy (s : bool * cg_state) : bool :=
  fst s || match g_fsm (snd s) with STREAMING => true | _ => false end.
Definition mxm_busy (st : mxm_state) : bool :=
  let '((a, b, _), _) := st in
  negb (fsm_code (b_fsm a) =? 0) || d_zlp b || existsb gen_busy (d_gens b).
(* one request at a time, made only while both handlers are idle; inputs held and start low until both are idle
   again; offsets legal for the union collection *)
Definition mxm_env (c : mux_cfg) (st : mxm_state) (i : N) : bool :=
  if mxm_busy st then
    (i_value i =? i_value (snd st)) && (i_wlen i =? i_wlen (snd st)) && (i_sp i =? i_sp (snd st)) && negb (i_start i)
  else if i_start i then legal_mux (x_fixed c) (x_runtime c) (req_of i) else true.

(* ---- packing for the lock-step obligation ---- *)
Definition mxm_enc (c : mux_cfg) (st : mxm_state) : N :=
  let '((a, b, (l0, l1)), g) := st in
  let gens := dist_gens (x_runtime c) in
  ConstGen.pair 47 (b2n l0 + 2 * b2n l1 + 4 * g)
    (ConstGen.pair (1 + 64 * nlen gens) (ds_enc gens b) (bk_enc (block_cfg (x_fixed c) (x_mps c)) a)).
Definition mxm_dec (c : mux_cfg) (m : N) : mxm_state :=
  let gens := dist_gens (x_runtime c) in
  let lo := trunc 47 m in let hi := N.shiftr m 47 in
  ((bk_dec (block_cfg (x_fixed c) (x_mps c)) (N.shiftr hi (1 + 64 * nlen gens)),
    ds_dec gens (trunc (1 + 64 * nlen gens) hi), (N.testbit lo 0, N.testbit lo 1)), N.shiftr lo 2).
Definition mxm_wf (c : mux_cfg) (st : mxm_state) : Prop :=
  let '((a, b, _), g) := st in
  bk_wf (block_cfg (x_fixed c) (x_mps c)) a /\ ds_wf (dist_gens (x_runtime c)) b /\ g < 2 ^ 45.
