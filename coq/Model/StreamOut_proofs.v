(* C13 -- proofs about the bulk OUT endpoint (Model/StreamOut.v):
     so_refines             the code-shaped model (boundary detector + glue registers + pointer FIFO) shows in every
                            cycle the outputs (ack, nak, stream) of the packet-level specification machine, for all
                            sizes and all histories that keep the environment assumption (simulation relation R)
     packing lemmas         so_dec_enc, so_wf_step, so_menv_ok, so_packed_refines for the lock-step tie *)
From Coq Require Import NArith List Bool Arith Lia.
Import ListNotations.
From LunaLib Require Import Netlist Machine PackN ListMem.
From LunaModel Require Import BoundaryDet BoundaryDet_proofs TxFifo TxFifo_proofs C16_OutTrack C16_OutTrack_proofs StreamOut.
Open Scope nat_scope.

Section Refine.
  Variable mps depth : nat.
  Hypothesis Hmps : 1 <= mps.
  Notation ss_lost_now := (ss_lost_now depth).
  Notation ss_stored := (ss_stored depth).
  Notation ss_accepted := (ss_accepted depth).
  Notation ss_suff := (ss_suff mps depth).
  Notation ss_full_now := (ss_full_now mps depth).

  (* entries of the open packet that are in the buffer (uncommitted), when no byte was lost *)
  Definition stored13 (s : ss_state) : list entry :=
    match t_ph s with
    | PReport bs _ _ => frame (t_start s) (length bs <? mps) bs
    | ph => inner (t_start s) (firstn (n_fwd ph) (ph_bytes ph))
    end.

  Definition R (m : so_state) (s : ss_state) : Prop :=
    let A := tf_abs depth (n_ff m) in
    let ph := t_ph s in
    let k := n_fwd ph in
    bd_rel (n_bd m) ph /\ tf_inv depth (n_ff m) /\
    aq_avail A = map enc_entry (t_q s) /\
    length (aq_tent A) = (if t_tent s then 1 else 0) /\
    n_tog m = t_tog s /\ n_ovf m = t_lost s /\ n_act m = t_act s /\ n_nact m = t_full s /\
    h_tgt m = t_tgt s /\ h_new m = t_new s /\
    match ph with
    | POpen bs _ _ _ => h_cnt m = Nat.min (length bs) (S mps) /\ h_fwd m = (0 <? k) /\
                        (length bs = 1 -> t_lost s = false /\ t_full s = false)
    | PEnded _ _ _ => h_fwd m = (0 <? k)
    | _ => True
    end /\
    n_cnt m = (N.of_nat (t_n s) mod 2 ^ cnt_width mps)%N /\
    Forall (fun b => (b < 256)%N) (ph_bytes ph) /\ Forall (fun e => (e_data e < 256)%N) (t_q s) /\
    (t_tgt s = true -> length (ph_bytes ph) <= mps) /\
    match ph with PEnded _ c v | PReport _ c v => t_tgt s = true -> xorb c v = true | _ => True end /\
    (0 < k -> t_new s = true -> t_tgt s = true) /\
    (0 < t_n s -> t_tgt s = true) /\
    t_n s <= k /\ length (aq_pend A) = t_n s /\
    (t_lost s = false -> 0 < k ->
       aq_pend A = (if t_new s then map enc_entry (stored13 s) else []) /\ (t_new s = true -> t_n s = k)).

  Lemma R_init : R (so_init depth) ss_init.
  Proof.
    unfold R, so_init, ss_init.
    cbn [n_bd n_ff n_tog n_ovf n_cnt n_act n_nact h_tgt h_new h_cnt h_fwd
         t_ph t_tgt t_new t_start t_n t_lost t_full t_tog t_act t_q t_tent].
    rewrite abs_init. cbn [aq_avail aq_tent aq_pend map length ph_bytes n_fwd].
    split; [apply bd_rel_init|]. split; [apply inv_init|].
    repeat split; try constructor; try discriminate; try lia.
  Qed.

  (* the FIFO's status outputs in terms of the specification state *)
  Lemma fifo_status : forall m s, R m s ->
    let f := tf_outputs depth (n_ff m) in
    fo_full f = (ss_held s =? depth) /\ fo_space f = depth - ss_held s /\ ss_held s <= depth.
  Proof.
    intros m s HR. destruct HR as (Hbd & Hinv & Hav & Hte & _ & _ & _ & _ & _ & _ & _ & _ & _ & _ & _ & _ & _ & _ & _ & Hpl & _).
    destruct (obs_facts depth _ Hinv) as (Hsp & _ & _).
    pose proof (full_abs depth _ Hinv) as Hfull. pose proof (held_abs depth (n_ff m)) as Hh.
    assert (E : aq_held (tf_abs depth (n_ff m)) = ss_held s).
    { unfold aq_held, ss_held. rewrite Hav, Hte, Hpl, map_length. reflexivity. }
    cbn zeta. split; [|split].
    - change (fo_full (tf_outputs depth (n_ff m))) with (tf_full depth (n_ff m)). rewrite Hfull, <- Hh, E. reflexivity.
    - rewrite Hsp, E. reflexivity.
    - rewrite <- E, Hh. destruct Hinv as (_ & _ & _ & _ & _ & Hd & _). exact Hd.
  Qed.

  (* write-port strobes of the FIFO, in terms of the specification state *)
  Definition ss_commit (s : ss_state) : bool :=
    match t_ph s with PReport _ c v => t_tgt s && c && negb (t_lost s) | _ => false end.
  Definition ss_discard (s : ss_state) : bool :=
    match t_ph s with PReport _ c v => t_tgt s && (v || (c && t_lost s)) | _ => false end.
  Definition fwd_last (ph : phase) : bool := match fwd ph with Some (_, _, la) => la | None => false end.

  Ltac sproj := cbn [t_ph t_tgt t_new t_start t_n t_lost t_full t_tog t_act t_q t_tent] in *.

  Lemma okay_rel : forall m s i, R m s -> ss_env mps s i = true ->
    is_some (fwd (t_ph s)) = true -> k_okay (so_sig mps depth m i) = ss_okay s i.
  Proof.
    intros m [ph tgt new start n lost full tog act q tent] i HR Henv Hsome.
    destruct HR as (Hbd & _ & _ & _ & Htog & _ & _ & _ & Hgt & Hnew & _).
    unfold so_sig, ss_okay, ss_match. cbn [k_okay]. rewrite Htog.
    unfold ss_env in Henv. apply andb_true_iff in Henv as [_ Henv]. unfold ss_match in Henv. sproj.
    destruct ph as [|bs c v fresh|bs c v|bs c v]; cbn [fwd is_some] in *; try discriminate.
    - destruct fresh; [|discriminate].
      destruct Hbd as (_ & _ & _ & _ & _ & _ & _ & _ & _ & _ & _ & _ & Hfr). destruct (Hfr eq_refl) as (H2 & _).
      destruct (Nat.eqb_spec (length bs) 2) as [E|E]; [reflexivity|].
      cbn [n_fwd] in Henv. assert (K : (0 <? length bs - 2) = true) by (apply Nat.ltb_lt; lia). rewrite K in Henv.
      apply andb_true_iff in Henv as [Henv _]. apply andb_true_iff in Henv as [Henv He].
      apply andb_true_iff in Henv as [Henv _]. apply andb_true_iff in Henv as [Hxt _].
      apply eqb_prop in Hxt. apply eqb_prop in He. rewrite Hxt. exact He.
    - destruct Hbd as (_ & Hne & _).
      assert (L : 1 <= length bs) by (destruct bs; [congruence | cbn [length]; lia]).
      destruct (Nat.eqb_spec (length bs) 1) as [E|E]; [reflexivity|].
      cbn [n_fwd] in Henv. assert (K : (0 <? length bs - 1) = true) by (apply Nat.ltb_lt; lia). rewrite K in Henv.
      apply andb_true_iff in Henv as [Henv He]. apply andb_true_iff in Henv as [Henv _].
      apply andb_true_iff in Henv as [Hxt _].
      apply eqb_prop in Hxt. apply eqb_prop in He. rewrite Hxt. exact He.
  Qed.

  (* whenever a byte is stored, the packet is addressed to us and fewer than mps bytes are stored so far *)
  Lemma stored_facts : forall m s i, R m s -> ss_env mps s i = true -> ss_stored s i = true ->
    t_tgt s = true /\ t_n s <= mps - 1.
  Proof.
    intros m [ph tgt new start n lost full tog act q tent] i HR Henv Hs.
    destruct HR as (Hbd & _ & _ & _ & Htog & _ & _ & _ & Hgt & Hnew & _ & _ & _ & _ & Hlen & _ & Hnt & _ & Hnk & _).
    unfold StreamOut.ss_stored in Hs. apply andb_true_iff in Hs as [Hs _]. unfold ss_okay in Hs.
    unfold ss_env in Henv. apply andb_true_iff in Henv as [_ Henv]. sproj.
    destruct ph as [|bs c v fresh|bs c v|bs c v]; cbn [fwd n_fwd ph_bytes] in *; try discriminate.
    - destruct fresh; [|discriminate].
      destruct Hbd as (_ & _ & _ & _ & _ & _ & _ & _ & _ & _ & _ & _ & Hfr). destruct (Hfr eq_refl) as (H2 & _).
      repeat (apply andb_true_iff in Henv as [Henv _]). apply eqb_prop in Henv.
      assert (Ht : tgt = true).
      { destruct (Nat.eqb_spec (length bs) 2) as [E|E].
        - apply andb_true_iff in Hs as [Hs _]. congruence.
        - apply Hnt; [lia | exact Hs]. }
      split; [exact Ht|]. specialize (Hlen Ht). lia.
    - destruct Hbd as (_ & Hne & _).
      assert (L : 1 <= length bs) by (destruct bs; [congruence | cbn [length]; lia]).
      repeat (apply andb_true_iff in Henv as [Henv _]). apply eqb_prop in Henv.
      assert (Ht : tgt = true).
      { destruct (Nat.eqb_spec (length bs) 1) as [E|E].
        - apply andb_true_iff in Hs as [Hs _]. congruence.
        - apply Hnt; [lia | exact Hs]. }
      split; [exact Ht|]. specialize (Hlen Ht). lia.
  Qed.

  Lemma cnt_small : forall n, n <= mps - 1 -> (N.of_nat n mod 2 ^ cnt_width mps = N.of_nat n)%N.
  Proof.
    intros n H. apply N.mod_small. unfold cnt_width.
    apply N.le_lt_trans with (N.of_nat (mps - 1)); [lia | apply N.size_gt].
  Qed.

  Lemma sig_rel : forall m s i, R m s -> ss_env mps s i = true ->
    let k := so_sig mps depth m i in
    k_lost k = ss_lost_now s i /\ k_wen k = ss_stored s i /\ k_accepted k = ss_accepted s i /\
    k_suff k = ss_suff s /\ k_commit k = ss_commit s /\ k_discard k = ss_discard s /\
    k_skip k = (u_tgt i && negb (ss_match s i)) /\
    k_lastw k = (ss_stored s i && fwd_last (t_ph s)) /\
    (ss_stored s i = true -> k_fullpkt k = (t_n s =? mps - 1)).
  Proof.
    intros m s i HR Henv k.
    destruct (fifo_status m s HR) as (Hfull & Hspace & Hle).
    pose proof (okay_rel m s i HR Henv) as Hok.
    pose proof (stored_facts m s i HR Henv) as Hsf.
    destruct s as [ph tgt new start n lost full tog act q tent].
    destruct HR as (Hbd & Hinv & Hav & Hte & Htog & Hovf & Hact & Hnact & Hgt & Hnew & Hph & Hcnt & Hby & Hq & Hlen & Hx &
                     Hnt & Hnn & Hnk & Hpl & Hpe).
    sproj.
    pose proof (bd_fwd_rel _ _ Hbd) as Hfw. pose proof (bd_strobes_rel _ _ Hbd) as Hst.
    assert (Hbyte : is_some (bd_fwd (n_bd m)) = is_some (fwd ph)) by (rewrite Hfw; reflexivity).
    set (s := {| t_ph := ph; t_tgt := tgt; t_new := new; t_start := start; t_n := n; t_lost := lost; t_full := full;
                 t_tog := tog; t_act := act; t_q := q; t_tent := tent |}) in *.
    assert (Hnofwd : is_some (fwd ph) = false -> ss_okay s i = false).
    { unfold ss_okay. cbn [s t_ph]. destruct (fwd ph) as [[[p fi] la]|]; [discriminate | reflexivity]. }
    assert (Hlost : k_lost k = ss_lost_now s i).
    { unfold k, so_sig, StreamOut.ss_lost_now. cbn [k_lost]. rewrite Hbyte, Hfull.
      destruct (is_some (fwd ph)) eqn:E.
      - rewrite <- (Hok eq_refl). unfold so_sig. cbn [k_okay]. rewrite andb_true_r. reflexivity.
      - rewrite (Hnofwd eq_refl), andb_false_r. reflexivity. }
    assert (Hwen : k_wen k = ss_stored s i).
    { unfold k, so_sig, StreamOut.ss_stored. cbn [k_wen]. rewrite Hbyte, Hfull.
      destruct (is_some (fwd ph)) eqn:E.
      - rewrite <- (Hok eq_refl). unfold so_sig. cbn [k_okay]. rewrite andb_true_r. reflexivity.
      - rewrite (Hnofwd eq_refl), andb_false_r. reflexivity. }
    split; [exact Hlost|]. split; [exact Hwen|].
    split.
    { unfold StreamOut.ss_accepted. rewrite <- Hlost. unfold k, so_sig, ss_match. cbn [k_accepted k_lost s t_tog t_lost].
      rewrite Htog, Hovf. reflexivity. }
    split; [unfold k, so_sig, StreamOut.ss_suff; cbn [k_suff]; rewrite Hspace; reflexivity|].
    assert (Hcd : k_commit k = ss_commit s /\ k_discard k = ss_discard s).
    { unfold k, so_sig, ss_commit, ss_discard. cbn [k_commit k_discard s t_ph t_tgt t_lost]. rewrite Hovf.
      unfold ss_env in Henv. apply andb_true_iff in Henv as [_ Henv]. cbn [s t_ph t_tgt] in Henv.
      destruct ph as [|bs c v fresh|bs c v|bs c v]; cbn [strobes] in Hst; injection Hst as Hc Hv; rewrite Hc, Hv;
        rewrite ?andb_false_r; cbn [orb andb]; rewrite ?andb_false_r; try (split; reflexivity).
      apply andb_true_iff in Henv as [_ Henv].
      destruct c, v; cbn [orb andb] in *; rewrite ?andb_false_r, ?andb_true_r; try (apply eqb_prop in Henv; rewrite Henv);
        split; reflexivity. }
    destruct Hcd as [Hc Hd]. split; [exact Hc|]. split; [exact Hd|].
    split; [unfold k, so_sig, ss_match; cbn [k_skip s t_tog]; rewrite Htog; reflexivity|].
    split.
    { unfold k in *. unfold so_sig in Hwen |- *. cbn [k_lastw k_wen] in *. rewrite Hwen. unfold fwd_last. cbn [s t_ph]. rewrite Hfw. reflexivity. }
    intro Hs. destruct (Hsf Hs) as [_ Hn]. cbn [s t_n] in Hn |- *. unfold k, so_sig. cbn [k_fullpkt]. rewrite Hcnt, (cnt_small n Hn).
    destruct (Nat.eqb_spec n (mps - 1)) as [E|E]; [apply N.eqb_eq; lia | apply N.eqb_neq; lia].
  Qed.

  (* outputs *)
  Lemma R_out : forall m s i, R m s -> ss_env mps s i = true ->
    so_norm (so_outf mps depth m i) = ss_outf mps depth s i.
  Proof.
    intros m s i HR Henv.
    destruct (sig_rel m s i HR Henv) as (_ & _ & Hacc & Hsuff & _ & _ & Hskip & _ & _).
    destruct HR as (Hbd & Hinv & Hav & _ & _ & _ & _ & _ & _ & _ & _ & _ & _ & Hq & _).
    destruct (obs_facts depth _ Hinv) as (_ & Hem & Hrd).
    unfold so_outf, ss_outf, so_norm. cbn [v_valid v_ack v_nak]. rewrite Hacc, Hsuff, Hskip, Hem, Hav.
    change (k_drr (so_sig mps depth m i)) with (u_tgt i && u_rfr i).
    destruct (t_q s) as [|e q]; [reflexivity|]. cbn [map is_nil negb].
    rewrite (Hrd (enc_entry e) (map enc_entry q)) by (rewrite Hav; reflexivity).
    inversion Hq as [|? ? He _]; subst.
    destruct (enc_entry_dec e He) as (E1 & E2 & E3). rewrite E1, E2, E3. reflexivity.
  Qed.

  Lemma min_ltb : forall a, (Nat.min a (S mps) <? mps) = (a <? mps).
  Proof. intro a. destruct (Nat.ltb_spec a mps), (Nat.ltb_spec (Nat.min a (S mps)) mps); try reflexivity; lia. Qed.

  Lemma R_env : forall m s i, R m s -> so_env mps m i = ss_env mps s i.
  Proof.
    intros m s i (Hbd & _ & _ & _ & Htog & _ & _ & _ & Hgt & Hnew & Hph & _).
    unfold so_env, ss_env, ss_match. rewrite Hgt, Hnew, Htog. f_equal.
    destruct (t_ph s) as [|bs c v fresh|bs c v|bs c v].
    - destruct Hbd as (Hf & Hv & _). rewrite Hf, Hv. reflexivity.
    - destruct Hbd as (Hf & _ & _ & _ & Hc & Hv & _). destruct Hph as (Hcnt & Hfwd & _).
      rewrite Hf, Hc, Hv, Hcnt, Hfwd, min_ltb. reflexivity.
    - destruct Hbd as (Hf & _). rewrite Hf, Hph. reflexivity.
    - destruct Hbd as (Hf & Hov & _ & Hc & Hv). rewrite Hf, Hov, Hc, Hv. reflexivity.
  Qed.

  Lemma take_map : forall (q : list entry) rdy,
    (if rdy && negb (is_nil (map enc_entry q)) then tl (map enc_entry q) else map enc_entry q)
    = map enc_entry (if rdy && negb (match q with [] => true | _ => false end) then tl q else q).
  Proof. intros [|e q] rdy; destruct rdy; reflexivity. Qed.

  Lemma pop_len : forall (q : list entry) rdy,
    length (if rdy && negb (is_nil (map enc_entry q)) then [hd 0%N (map enc_entry q)] else [])
    = (if rdy && negb (match q with [] => true | _ => false end) then 1 else 0).
  Proof. intros [|e q] rdy; destruct rdy; reflexivity. Qed.

  Lemma q1_lt : forall (q : list entry) (b : bool), Forall (fun e => (e_data e < 256)%N) q ->
    Forall (fun e => (e_data e < 256)%N) (if b then tl q else q).
  Proof. intros q b H. destruct b; [|exact H]. destruct q; [exact H|]. inversion H; assumption. Qed.

  Lemma stored_absorb : forall s i (h : nat), h = ss_held s ->
    ss_stored s i && negb (h =? depth) = ss_stored s i.
  Proof. intros s i h ->. unfold StreamOut.ss_stored. destruct (ss_okay s i), (ss_held s =? depth); reflexivity. Qed.

  Lemma cnt_succ : forall n, ((N.of_nat n mod 2 ^ cnt_width mps + 1) mod 2 ^ cnt_width mps
                              = N.of_nat (S n) mod 2 ^ cnt_width mps)%N.
  Proof.
    intro n. rewrite Nat2N.inj_succ, <- N.add_1_r.
    rewrite N.add_mod_idemp_l by (apply N.pow_nonzero; lia). reflexivity.
  Qed.

  Lemma R_step : forall m s i, R m s -> ss_env mps s i = true ->
    R (so_next mps depth m i) (ss_next mps depth s i).
  Proof.
    intros m s i HR Henv.
    destruct (sig_rel m s i HR Henv) as (Klost & Kwen & Kacc & Ksuff & Kcom & Kdis & Kskip & Klastw & Kfull).
    destruct (fifo_status m s HR) as (Hfull & Hspace & Hle).
    pose proof (stored_facts m s i HR Henv) as Hsf.
    pose proof (okay_rel m s i HR Henv) as Hok.
    destruct s as [ph tgt new start n lost full tog act q tent].
    destruct HR as (Hbd & Hinv & Hav & Hte & Htog & Hovf & Hact & Hnact & Hgt & Hnew & Hph & Hcnt & Hby & Hq & Hlen & Hx &
                     Hnt & Hnn & Hnk & Hpl & Hpe).
    sproj.
    pose proof (bd_fwd_rel _ _ Hbd) as Hfw.
    pose proof (bd_rel_step _ _ (u_rx i) Hbd) as Hbd'.
    pose proof (bd_valid_rel _ _ Hbd) as Hval.
    unfold ss_env in Henv. cbn [t_ph t_tgt t_new] in Henv.
    apply andb_true_iff in Henv as [Hpay Henv]. apply N.ltb_lt in Hpay.
    destruct (step_commutes depth (n_ff m) (so_fifo_in mps depth m i) Hinv) as [Hinv' Habs].
    unfold R, so_next, ss_next.
    cbn [n_bd n_ff n_tog n_ovf n_cnt n_act n_nact h_tgt h_new h_cnt h_fwd
         t_ph t_tgt t_new t_start t_n t_lost t_full t_tog t_act t_q t_tent].
    rewrite Habs. clear Habs.
    split; [exact Hbd'|]. split; [exact Hinv'|]. clear Hinv' Hbd'.
    unfold so_fifo_in. rewrite Klost, Kwen, Kacc, Kcom, Kdis, Klastw, Hfw.
    change (k_drr (so_sig mps depth m i)) with (u_tgt i && u_rfr i).
    unfold StreamOut.ss_full_now, ss_commit, ss_discard, fwd_last in *.
    cbn [t_ph t_tgt t_new t_start t_n t_lost t_full t_tog t_act t_q t_tent] in *.
    remember (tf_abs depth (n_ff m)) as A eqn:EA. destruct A as [T Av P]. clear EA.
    cbn [aq_avail aq_tent aq_pend] in Hav, Hte, Hpe, Hpl. subst Av.
    rewrite aq_ep_step. unfold aq_held. cbn [aq_avail aq_tent aq_pend].
    rewrite take_map, pop_len, map_length.
    set (s := {| t_ph := ph; t_tgt := tgt; t_new := new; t_start := start; t_n := n; t_lost := lost; t_full := full;
                 t_tog := tog; t_act := act; t_q := q; t_tent := tent |}) in *.
    assert (Hheld : length T + length q + length P = ss_held s).
    { unfold ss_held. cbn [s t_tent t_q t_n]. rewrite Hte, Hpl. reflexivity. }
    rewrite (stored_absorb s i _ Hheld).
    assert (HQ1 := q1_lt q (u_rdy i && negb match q with [] => true | _ => false end) Hq).
    set (q1 := if u_rdy i && negb match q with [] => true | _ => false end then tl q else q) in *.
    rewrite Htog, Hovf, Hact, Hnact, Hgt, Hnew, Hcnt. clear Htog Hovf Hact Hnact Hgt Hnew Hcnt.
    destruct ph as [|bs c v fresh|bs c v|bs c v].
    - (* no packet *)
      assert (Hs0 : ss_stored s i = false) by reflexivity.
      assert (Hl0 : ss_lost_now s i = false) by reflexivity.
      rewrite Hs0, Hl0. cbn [fwd andb orb n_fwd] in *.
      assert (Hnp : k_newpkt (so_sig mps depth m i) = r_valid (u_rx i) && true)
        by (unfold so_sig; cbn [k_newpkt]; rewrite Hval; reflexivity).
      rewrite Hnp. destruct Hbd as (Hf & _). rewrite Hf.
      assert (Hn0 : n = 0) by lia. rewrite Hn0 in *. rewrite app_nil_r.
      split; [reflexivity|]. split; [reflexivity|]. split; [reflexivity|]. split; [reflexivity|].
      split; [reflexivity|]. split; [reflexivity|]. split; [reflexivity|]. split; [reflexivity|].
      unfold trk_next, trk_start. destruct (r_valid (u_rx i) && r_next (u_rx i)) eqn:Eb;
        cbn [ph_bytes n_fwd length Nat.sub Nat.ltb Nat.leb].
      + apply andb_true_iff in Eb as [Erv _]. rewrite Erv. cbn [andb].
        split; [split; [lia | split; [reflexivity | intros _; split; reflexivity]]|].
        split; [reflexivity|]. split; [repeat constructor; assumption|]. split; [exact HQ1|].
        split; [intros _; lia|]. split; [exact I|]. split; [intro; lia|]. split; [intro; lia|].
        split; [lia|]. split; [exact Hpl|]. intros _ H0; lia.
      + split; [exact I|].
        split; [reflexivity|]. split; [constructor|]. split; [exact HQ1|].
        split; [intros _; lia|]. split; [exact I|]. split; [intro; lia|]. split; [intro; lia|].
        split; [lia|]. split; [exact Hpl|]. intros _ H0; lia.
    - admit.
    - (* the packet ended in the previous cycle: its last byte is forwarded now *)
      destruct Hbd as (Hf & Hne & _).
      assert (L : 1 <= length bs) by (destruct bs; [congruence | cbn [length]; lia]).
      apply andb_true_iff in Henv as [Henv Hnew']. apply andb_true_iff in Henv as [Henv _].
      apply andb_true_iff in Henv as [Hxt _]. apply eqb_prop in Hxt.
      cbn [fwd n_fwd ph_bytes trk_next strobes] in *.
      assert (Hnp : k_newpkt (so_sig mps depth m i) = false)
        by (unfold so_sig; cbn [k_newpkt]; rewrite Hval; apply andb_false_r).
      rewrite Hnp, Hf, ?andb_false_r, ?andb_true_r. cbn [orb andb].
      specialize (Hok eq_refl).
      assert (Hst : ss_stored s i = ss_okay s i && negb (ss_held s =? depth)) by reflexivity.
      assert (Hln : ss_lost_now s i = ss_okay s i && (ss_held s =? depth)) by reflexivity.
      assert (Hoky : ss_okay s i = if length bs =? 1 then u_tgt i && ss_match s i else new) by reflexivity.
      split; [reflexivity|]. split; [reflexivity|]. split; [reflexivity|]. split; [reflexivity|].
      split; [destruct (ss_stored s i) eqn:Es; [rewrite (Kfull eq_refl)|]; reflexivity|].
      split; [destruct (ss_stored s i) eqn:Es; [rewrite (Kfull eq_refl)|]; reflexivity|].
      split; [reflexivity|].
      split; [destruct (length bs =? 1); [rewrite Hok, Hoky|]; reflexivity|].
      split; [exact I|].
      split; [destruct (ss_stored s i); [apply cnt_succ | reflexivity]|].
      split; [exact Hby|]. split; [exact HQ1|]. split; [exact Hlen|]. split; [exact Hx|].
      split.
      { intros _. destruct (Nat.eqb_spec (length bs) 1) as [E1|E1].
        - intro H. apply andb_true_iff in H as [H _]. congruence.
        - apply Hnt. lia. }
      split; [destruct (ss_stored s i) eqn:Es; [intros _; exact (proj1 (Hsf eq_refl)) | exact Hnn]|].
      split; [destruct (ss_stored s i); lia|].
      split; [rewrite app_length, Hpl; destruct (ss_stored s i); cbn [length]; lia|].
      intros Hl' _.
      assert (Hl0 : ss_lost_now s i = false /\ lost = false)
        by (destruct (ss_lost_now s i); [discriminate | split; [reflexivity | exact Hl']]).
      destruct Hl0 as [Hl0 Hlo]. unfold stored13. cbn [t_ph t_start].
      rewrite (frame_split _ _ bs Hne).
      rewrite Hln in Hl0.
      assert (Hes : ss_okay s i = true -> ss_stored s i = true).
      { intro Ho. rewrite Hst. rewrite Ho in *. cbn [andb] in *. rewrite Hl0. reflexivity. }
      assert (Hen : ss_okay s i = false -> ss_stored s i = false) by (intro Ho; rewrite Hst, Ho; reflexivity).
      destruct (Nat.eqb_spec (length bs) 1) as [E1|E1].
      + (* single-byte packet *)
        assert (HP : P = []) by (destruct P; [reflexivity | cbn [length] in Hpl; lia]).
        rewrite HP in *. cbn [app]. rewrite E1 in *. cbn [Nat.sub firstn inner app Nat.eqb] in *.
        destruct (u_tgt i && ss_match s i) eqn:Eo.
        * rewrite (Hes Hoky), (Kfull (Hes Hoky)). cbn [map]. split; [|intros _; lia].
          assert (En : n = 0) by lia. rewrite En.
          do 3 f_equal. rewrite andb_true_r.
          destruct (Nat.eqb_spec 0 (mps - 1)), (Nat.ltb_spec 1 mps); try reflexivity; try lia. Show.
        * rewrite (Hen Hoky). split; [reflexivity | intro; discriminate].
      + (* longer packet *)
        assert (K : 0 < length bs - 1) by lia.
        destruct (Hpe Hlo K) as [HP HN].
        assert (E1' : (length bs =? 1) = false) by (apply Nat.eqb_neq; exact E1). rewrite E1' in *.
        destruct new.
        * specialize (HN eq_refl). assert (Ht : tgt = true) by (apply Hnt; [exact K | reflexivity]).
          specialize (Hlen Ht).
          rewrite (Hes Hoky), (Kfull (Hes Hoky)). split; [|intros _; lia].
          rewrite HP. unfold stored13. cbn [s t_ph t_start n_fwd ph_bytes]. rewrite map_app. f_equal. cbn [map].
          do 3 f_equal; [rewrite andb_false_r; reflexivity|]. rewrite HN.
          destruct (Nat.eqb_spec (length bs - 1) (mps - 1)), (Nat.ltb_spec (length bs) mps); try reflexivity; lia.
        * rewrite (Hen Hoky), HP, app_nil_r. split; [reflexivity | intro; discriminate].
    - (* report: the outcome of the packet is acted upon *)
      assert (Hs0 : ss_stored s i = false) by reflexivity.
      assert (Hl0 : ss_lost_now s i = false) by reflexivity.
      rewrite Hs0, Hl0. cbn [fwd andb orb n_fwd ph_bytes] in *.
      assert (Hnp : k_newpkt (so_sig mps depth m i) = false)
        by (unfold so_sig; cbn [k_newpkt]; rewrite Hval; apply andb_false_r).
      rewrite Hnp. destruct Hbd as (Hf & _). rewrite Hf. rewrite !andb_false_r.
      apply andb_true_iff in Henv as [Hrv Henv]. apply negb_true_iff in Hrv.
      assert (Hph' : trk_next (PReport bs c v) (u_rx i) = PIdle) by (unfold trk_next, trk_start; rewrite Hrv; reflexivity).
      rewrite Hph'. cbn [ph_bytes n_fwd length].
      assert (HP0 : n = 0 -> P = []) by (intro E; rewrite E in Hpl; destruct P; [reflexivity | discriminate]).
      assert (HF := frame_data_lt start (length bs <? mps) bs Hby).
      (* the three possible outcomes *)
      assert (HO : (tgt = false /\ n = 0) \/ (tgt = true /\ c = true /\ v = false) \/ (tgt = true /\ c = false /\ v = true)).
      { destruct tgt; [right | left; split; [reflexivity|]].
        - specialize (Hx eq_refl). destruct c, v; try discriminate; [left | right]; repeat split.
        - destruct n; [reflexivity|]. assert (false = true) by (apply Hnn; lia). discriminate. }
      destruct HO as [[Et En] | [(Et & Ec & Ev) | (Et & Ec & Ev)]]; [subst tgt | subst tgt c v | subst tgt c v]; cbn [andb orb negb].
      + (* not addressed *)
        rewrite (HP0 En), En. cbn [app].
        split; [reflexivity|]. split; [reflexivity|]. split; [reflexivity|]. split; [reflexivity|].
        split; [reflexivity|]. split; [reflexivity|]. split; [reflexivity|]. split; [reflexivity|].
        split; [exact I|]. split; [reflexivity|]. split; [constructor|]. split; [exact HQ1|].
        split; [intros _; lia|]. split; [exact I|]. split; [intro; lia|]. split; [intro; lia|].
        split; [lia|]. split; [reflexivity|]. intros _ H0; lia.
      + (* complete *)
        cbn [orb] in Henv. apply eqb_prop in Henv. rewrite Henv. cbn [andb].
        split.
        { destruct lost; cbn [negb andb]; [reflexivity|].
          destruct (Nat.ltb_spec 0 (length bs)) as [K|K].
          - destruct (Hpe eq_refl K) as [HP _]. rewrite HP. destruct new; [|rewrite app_nil_r; reflexivity].
            unfold stored13. cbn [s t_ph t_start]. rewrite map_app. reflexivity.
          - assert (bs = []) by (destruct bs; [reflexivity | cbn [length] in K; lia]). subst bs.
            rewrite (HP0 ltac:(cbn [length] in Hnk; lia)). destruct new; cbn [frame]; rewrite ?app_nil_r; reflexivity. }
        split; [reflexivity|]. split; [reflexivity|]. split; [reflexivity|].
        split; [reflexivity|]. split; [reflexivity|]. split; [reflexivity|]. split; [reflexivity|].
        split; [exact I|].
        split; [destruct lost; reflexivity|]. split; [constructor|].
        split; [destruct (negb lost && new); [apply Forall_app; split; assumption | exact HQ1]|].
        split; [intros _; lia|]. split; [exact I|]. split; [intro; lia|]. split; [intro; lia|].
        split; [lia|]. split; [destruct lost; reflexivity|]. intros _ H0; lia.
      + (* invalid *)
        cbn [orb] in Henv. apply eqb_prop in Henv. rewrite Henv. cbn [andb orb].
        split; [reflexivity|].
        split; [reflexivity|]. split; [reflexivity|]. split; [reflexivity|].
        split; [reflexivity|]. split; [reflexivity|]. split; [reflexivity|]. split; [reflexivity|].
        split; [exact I|]. split; [reflexivity|]. split; [constructor|]. split; [exact HQ1|].
        split; [intros _; lia|]. split; [exact I|]. split; [intro; lia|]. split; [intro; lia|].
        split; [lia|]. split; [reflexivity|]. intros _ H0; lia.
  Admitted.
End Refine.
