(* C13 -- proofs about the bulk OUT endpoint (Model/StreamOut.v):
     so_refines             the code-shaped model (boundary detector + glue registers + pointer FIFO) shows in every
                            cycle the outputs (ack, nak, stream) of the packet-level specification machine, for all
                            sizes and all histories that keep the environment assumption (simulation relation R)
     packing lemmas         so_dec_enc, so_wf_step, so_menv_ok, so_packed_refines for the lock-step tie *)
From Coq Require Import NArith List Bool Arith Lia.
Import ListNotations.
From LunaLib Require Import Netlist Machine PackN ListMem.
From LunaModel Require Import BoundaryDet BoundaryDet_proofs TxFifo TxFifo_proofs C16_OutTrack C16_OutTrack_proofs StreamOut.
Open Scope nat_scope.

Section Refine.
  Variable mps depth : nat.
  Hypothesis Hmps : 1 <= mps.
  Notation ss_lost_now := (ss_lost_now depth).
  Notation ss_stored := (ss_stored depth).
  Notation ss_accepted := (ss_accepted depth).
  Notation ss_suff := (ss_suff mps depth).
  Notation ss_full_now := (ss_full_now mps depth).

  (* entries of the open packet that are in the buffer (uncommitted), when no byte was lost *)
  Definition stored13 (s : ss_state) : list entry :=
    match t_ph s with
    | PReport bs _ _ => frame (t_start s) (length bs <? mps) bs
    | ph => inner (t_start s) (firstn (n_fwd ph) (ph_bytes ph))
    end.

  Definition R (m : so_state) (s : ss_state) : Prop :=
    let A := tf_abs depth (n_ff m) in
    let ph := t_ph s in
    let k := n_fwd ph in
    bd_rel (n_bd m) ph /\ tf_inv depth (n_ff m) /\
    aq_avail A = map enc_entry (t_q s) /\
    length (aq_tent A) = (if t_tent s then 1 else 0) /\
    n_tog m = t_tog s /\ n_ovf m = t_lost s /\ n_act m = t_act s /\ n_nact m = t_full s /\
    h_tgt m = t_tgt s /\ h_new m = t_new s /\
    match ph with
    | POpen bs _ _ _ => h_cnt m = Nat.min (length bs) (S mps) /\ h_fwd m = (0 <? k) /\
                        (length bs = 1 -> t_lost s = false /\ t_full s = false)
    | PEnded _ _ _ => h_fwd m = (0 <? k)
    | _ => True
    end /\
    n_cnt m = (N.of_nat (t_n s) mod 2 ^ cnt_width mps)%N /\
    Forall (fun b => (b < 256)%N) (ph_bytes ph) /\ Forall (fun e => (e_data e < 256)%N) (t_q s) /\
    (t_tgt s = true -> length (ph_bytes ph) <= mps) /\
    match ph with PEnded _ c v | PReport _ c v => t_tgt s = true -> xorb c v = true | _ => True end /\
    (0 < k -> t_new s = true -> t_tgt s = true) /\
    (0 < t_n s -> t_tgt s = true) /\
    t_n s <= k /\ length (aq_pend A) = t_n s /\
    (t_lost s = false -> 0 < k ->
       aq_pend A = (if t_new s then map enc_entry (stored13 s) else []) /\ (t_new s = true -> t_n s = k)).

  Lemma R_init : R (so_init depth) ss_init.
  Proof.
    unfold R, so_init, ss_init.
    cbn [n_bd n_ff n_tog n_ovf n_cnt n_act n_nact h_tgt h_new h_cnt h_fwd
         t_ph t_tgt t_new t_start t_n t_lost t_full t_tog t_act t_q t_tent].
    rewrite abs_init. cbn [aq_avail aq_tent aq_pend map length ph_bytes n_fwd].
    split; [apply bd_rel_init|]. split; [apply inv_init|].
    repeat split; try constructor; try discriminate; try lia.
  Qed.

  (* the FIFO's status outputs in terms of the specification state *)
  Lemma fifo_status : forall m s, R m s ->
    let f := tf_outputs depth (n_ff m) in
    fo_full f = (ss_held s =? depth) /\ fo_space f = depth - ss_held s /\ ss_held s <= depth.
  Proof.
    intros m s HR. destruct HR as (Hbd & Hinv & Hav & Hte & _ & _ & _ & _ & _ & _ & _ & _ & _ & _ & _ & _ & _ & _ & _ & Hpl & _).
    destruct (obs_facts depth _ Hinv) as (Hsp & _ & _).
    pose proof (full_abs depth _ Hinv) as Hfull. pose proof (held_abs depth (n_ff m)) as Hh.
    assert (E : aq_held (tf_abs depth (n_ff m)) = ss_held s).
    { unfold aq_held, ss_held. rewrite Hav, Hte, Hpl, map_length. reflexivity. }
    cbn zeta. split; [|split].
    - change (fo_full (tf_outputs depth (n_ff m))) with (tf_full depth (n_ff m)). rewrite Hfull, <- Hh, E. reflexivity.
    - rewrite Hsp, E. reflexivity.
    - rewrite <- E, Hh. destruct Hinv as (_ & _ & _ & _ & _ & Hd & _). exact Hd.
  Qed.

  (* write-port strobes of the FIFO, in terms of the specification state *)
  Definition ss_commit (s : ss_state) : bool :=
    match t_ph s with PReport _ c v => t_tgt s && c && negb (t_lost s) | _ => false end.
  Definition ss_discard (s : ss_state) : bool :=
    match t_ph s with PReport _ c v => t_tgt s && (v || (c && t_lost s)) | _ => false end.
  Definition fwd_last (ph : phase) : bool := match fwd ph with Some (_, _, la) => la | None => false end.

  Ltac sproj := cbn [t_ph t_tgt t_new t_start t_n t_lost t_full t_tog t_act t_q t_tent] in *.

  Lemma okay_rel : forall m s i, R m s -> ss_env mps s i = true ->
    is_some (fwd (t_ph s)) = true -> k_okay (so_sig mps depth m i) = ss_okay s i.
  Proof.
    intros m [ph tgt new start n lost full tog act q tent] i HR Henv Hsome.
    destruct HR as (Hbd & _ & _ & _ & Htog & _ & _ & _ & Hgt & Hnew & _).
    unfold so_sig, ss_okay, ss_match. cbn [k_okay]. rewrite Htog.
    unfold ss_env in Henv. apply andb_true_iff in Henv as [_ Henv]. unfold ss_match in Henv. sproj.
    destruct ph as [|bs c v fresh|bs c v|bs c v]; cbn [fwd is_some] in *; try discriminate.
    - destruct fresh; [|discriminate].
      destruct Hbd as (_ & _ & _ & _ & _ & _ & _ & _ & _ & _ & _ & _ & Hfr). destruct (Hfr eq_refl) as (H2 & _).
      destruct (Nat.eqb_spec (length bs) 2) as [E|E]; [reflexivity|].
      cbn [n_fwd] in Henv. assert (K : (0 <? length bs - 2) = true) by (apply Nat.ltb_lt; lia). rewrite K in Henv.
      apply andb_true_iff in Henv as [Henv _]. apply andb_true_iff in Henv as [Henv He].
      apply andb_true_iff in Henv as [Henv _]. apply andb_true_iff in Henv as [Hxt _].
      apply eqb_prop in Hxt. apply eqb_prop in He. rewrite Hxt. exact He.
    - destruct Hbd as (_ & Hne & _).
      assert (L : 1 <= length bs) by (destruct bs; [congruence | cbn [length]; lia]).
      destruct (Nat.eqb_spec (length bs) 1) as [E|E]; [reflexivity|].
      cbn [n_fwd] in Henv. assert (K : (0 <? length bs - 1) = true) by (apply Nat.ltb_lt; lia). rewrite K in Henv.
      apply andb_true_iff in Henv as [Henv He]. apply andb_true_iff in Henv as [Henv _].
      apply andb_true_iff in Henv as [Hxt _].
      apply eqb_prop in Hxt. apply eqb_prop in He. rewrite Hxt. exact He.
  Qed.

  (* whenever a byte is stored, the packet is addressed to us and fewer than mps bytes are stored so far *)
  Lemma stored_facts : forall m s i, R m s -> ss_env mps s i = true -> ss_stored s i = true ->
    t_tgt s = true /\ t_n s <= mps - 1.
  Proof.
    intros m [ph tgt new start n lost full tog act q tent] i HR Henv Hs.
    destruct HR as (Hbd & _ & _ & _ & Htog & _ & _ & _ & Hgt & Hnew & _ & _ & _ & _ & Hlen & _ & Hnt & _ & Hnk & _).
    unfold StreamOut.ss_stored in Hs. apply andb_true_iff in Hs as [Hs _]. unfold ss_okay in Hs.
    unfold ss_env in Henv. apply andb_true_iff in Henv as [_ Henv]. sproj.
    destruct ph as [|bs c v fresh|bs c v|bs c v]; cbn [fwd n_fwd ph_bytes] in *; try discriminate.
    - destruct fresh; [|discriminate].
      destruct Hbd as (_ & _ & _ & _ & _ & _ & _ & _ & _ & _ & _ & _ & Hfr). destruct (Hfr eq_refl) as (H2 & _).
      repeat (apply andb_true_iff in Henv as [Henv _]). apply eqb_prop in Henv.
      assert (Ht : tgt = true).
      { destruct (Nat.eqb_spec (length bs) 2) as [E|E].
        - apply andb_true_iff in Hs as [Hs _]. congruence.
        - apply Hnt; [lia | exact Hs]. }
      split; [exact Ht|]. specialize (Hlen Ht). lia.
    - destruct Hbd as (_ & Hne & _).
      assert (L : 1 <= length bs) by (destruct bs; [congruence | cbn [length]; lia]).
      repeat (apply andb_true_iff in Henv as [Henv _]). apply eqb_prop in Henv.
      assert (Ht : tgt = true).
      { destruct (Nat.eqb_spec (length bs) 1) as [E|E].
        - apply andb_true_iff in Hs as [Hs _]. congruence.
        - apply Hnt; [lia | exact Hs]. }
      split; [exact Ht|]. specialize (Hlen Ht). lia.
  Qed.

  Lemma cnt_small : forall n, n <= mps - 1 -> (N.of_nat n mod 2 ^ cnt_width mps = N.of_nat n)%N.
  Proof.
    intros n H. apply N.mod_small. unfold cnt_width.
    apply N.le_lt_trans with (N.of_nat (mps - 1)); [lia | apply N.size_gt].
  Qed.

  Lemma sig_rel : forall m s i, R m s -> ss_env mps s i = true ->
    let k := so_sig mps depth m i in
    k_lost k = ss_lost_now s i /\ k_wen k = ss_stored s i /\ k_accepted k = ss_accepted s i /\
    k_suff k = ss_suff s /\ k_commit k = ss_commit s /\ k_discard k = ss_discard s /\
    k_skip k = (u_tgt i && negb (ss_match s i)) /\
    k_lastw k = (ss_stored s i && fwd_last (t_ph s)) /\
    (ss_stored s i = true -> k_fullpkt k = (t_n s =? mps - 1)).
  Proof.
    intros m s i HR Henv k.
    destruct (fifo_status m s HR) as (Hfull & Hspace & Hle).
    pose proof (okay_rel m s i HR Henv) as Hok.
    pose proof (stored_facts m s i HR Henv) as Hsf.
    destruct s as [ph tgt new start n lost full tog act q tent].
    destruct HR as (Hbd & Hinv & Hav & Hte & Htog & Hovf & Hact & Hnact & Hgt & Hnew & Hph & Hcnt & Hby & Hq & Hlen & Hx &
                     Hnt & Hnn & Hnk & Hpl & Hpe).
    sproj.
    pose proof (bd_fwd_rel _ _ Hbd) as Hfw. pose proof (bd_strobes_rel _ _ Hbd) as Hst.
    assert (Hbyte : is_some (bd_fwd (n_bd m)) = is_some (fwd ph)) by (rewrite Hfw; reflexivity).
    set (s := {| t_ph := ph; t_tgt := tgt; t_new := new; t_start := start; t_n := n; t_lost := lost; t_full := full;
                 t_tog := tog; t_act := act; t_q := q; t_tent := tent |}) in *.
    assert (Hnofwd : is_some (fwd ph) = false -> ss_okay s i = false).
    { unfold ss_okay. cbn [s t_ph]. destruct (fwd ph) as [[[p fi] la]|]; [discriminate | reflexivity]. }
    assert (Hlost : k_lost k = ss_lost_now s i).
    { unfold k, so_sig, StreamOut.ss_lost_now. cbn [k_lost]. rewrite Hbyte, Hfull.
      destruct (is_some (fwd ph)) eqn:E.
      - rewrite <- (Hok eq_refl). unfold so_sig. cbn [k_okay]. rewrite andb_true_r. reflexivity.
      - rewrite (Hnofwd eq_refl), andb_false_r. reflexivity. }
    assert (Hwen : k_wen k = ss_stored s i).
    { unfold k, so_sig, StreamOut.ss_stored. cbn [k_wen]. rewrite Hbyte, Hfull.
      destruct (is_some (fwd ph)) eqn:E.
      - rewrite <- (Hok eq_refl). unfold so_sig. cbn [k_okay]. rewrite andb_true_r. reflexivity.
      - rewrite (Hnofwd eq_refl), andb_false_r. reflexivity. }
    split; [exact Hlost|]. split; [exact Hwen|].
    split.
    { unfold StreamOut.ss_accepted. rewrite <- Hlost. unfold k, so_sig, ss_match. cbn [k_accepted k_lost s t_tog t_lost].
      rewrite Htog, Hovf. reflexivity. }
    split; [unfold k, so_sig, StreamOut.ss_suff; cbn [k_suff]; rewrite Hspace; reflexivity|].
    assert (Hcd : k_commit k = ss_commit s /\ k_discard k = ss_discard s).
    { unfold k, so_sig, ss_commit, ss_discard. cbn [k_commit k_discard s t_ph t_tgt t_lost]. rewrite Hovf.
      unfold ss_env in Henv. apply andb_true_iff in Henv as [_ Henv]. cbn [s t_ph t_tgt] in Henv.
      destruct ph as [|bs c v fresh|bs c v|bs c v]; cbn [strobes] in Hst; injection Hst as Hc Hv; rewrite Hc, Hv;
        rewrite ?andb_false_r; cbn [orb andb]; rewrite ?andb_false_r; try (split; reflexivity).
      apply andb_true_iff in Henv as [_ Henv].
      destruct c, v; cbn [orb andb] in *; rewrite ?andb_false_r, ?andb_true_r; try (apply eqb_prop in Henv; rewrite Henv);
        split; reflexivity. }
    destruct Hcd as [Hc Hd]. split; [exact Hc|]. split; [exact Hd|].
    split; [unfold k, so_sig, ss_match; cbn [k_skip s t_tog]; rewrite Htog; reflexivity|].
    split.
    { unfold k in *. unfold so_sig in Hwen |- *. cbn [k_lastw k_wen] in *. rewrite Hwen. unfold fwd_last. cbn [s t_ph]. rewrite Hfw. reflexivity. }
    intro Hs. destruct (Hsf Hs) as [_ Hn]. cbn [s t_n] in Hn |- *. unfold k, so_sig. cbn [k_fullpkt]. rewrite Hcnt, (cnt_small n Hn).
    destruct (Nat.eqb_spec n (mps - 1)) as [E|E]; [apply N.eqb_eq; lia | apply N.eqb_neq; lia].
  Qed.

  (* outputs *)
  Lemma R_out : forall m s i, R m s -> ss_env mps s i = true ->
    so_norm (so_outf mps depth m i) = ss_outf mps depth s i.
  Proof.
    intros m s i HR Henv.
    destruct (sig_rel m s i HR Henv) as (_ & _ & Hacc & Hsuff & _ & _ & Hskip & _ & _).
    destruct HR as (Hbd & Hinv & Hav & _ & _ & _ & _ & _ & _ & _ & _ & _ & _ & Hq & _).
    destruct (obs_facts depth _ Hinv) as (_ & Hem & Hrd).
    unfold so_outf, ss_outf, so_norm. cbn [v_valid v_ack v_nak]. rewrite Hacc, Hsuff, Hskip, Hem, Hav.
    change (k_drr (so_sig mps depth m i)) with (u_tgt i && u_rfr i).
    destruct (t_q s) as [|e q]; [reflexivity|]. cbn [map is_nil negb].
    rewrite (Hrd (enc_entry e) (map enc_entry q)) by (rewrite Hav; reflexivity).
    inversion Hq as [|? ? He _]; subst.
    destruct (enc_entry_dec e He) as (E1 & E2 & E3). rewrite E1, E2, E3. reflexivity.
  Qed.

  Lemma min_ltb : forall a, (Nat.min a (S mps) <? mps) = (a <? mps).
  Proof. intro a. destruct (Nat.ltb_spec a mps), (Nat.ltb_spec (Nat.min a (S mps)) mps); try reflexivity; lia. Qed.

  Lemma R_env : forall m s i, R m s -> so_env mps m i = ss_env mps s i.
  Proof.
    intros m s i (Hbd & _ & _ & _ & Htog & _ & _ & _ & Hgt & Hnew & Hph & _).
    unfold so_env, ss_env, ss_match. rewrite Hgt, Hnew, Htog. f_equal.
    destruct (t_ph s) as [|bs c v fresh|bs c v|bs c v].
    - destruct Hbd as (Hf & Hv & _). rewrite Hf, Hv. reflexivity.
    - destruct Hbd as (Hf & _ & _ & _ & Hc & Hv & _). destruct Hph as (Hcnt & Hfwd & _).
      rewrite Hf, Hc, Hv, Hcnt, Hfwd, min_ltb. reflexivity.
    - destruct Hbd as (Hf & _). rewrite Hf, Hph. reflexivity.
    - destruct Hbd as (Hf & Hov & _ & Hc & Hv). rewrite Hf, Hov, Hc, Hv. reflexivity.
  Qed.

  Lemma take_map : forall (q : list entry) rdy,
    (if rdy && negb (is_nil (map enc_entry q)) then tl (map enc_entry q) else map enc_entry q)
    = map enc_entry (if rdy && negb (match q with [] => true | _ => false end) then tl q else q).
  Proof. intros [|e q] rdy; destruct rdy; reflexivity. Qed.

  Lemma pop_len : forall (q : list entry) rdy,
    length (if rdy && negb (is_nil (map enc_entry q)) then [hd 0%N (map enc_entry q)] else [])
    = (if rdy && negb (match q with [] => true | _ => false end) then 1 else 0).
  Proof. intros [|e q] rdy; destruct rdy; reflexivity. Qed.

  Lemma q1_lt : forall (q : list entry) (b : bool), Forall (fun e => (e_data e < 256)%N) q ->
    Forall (fun e => (e_data e < 256)%N) (if b then tl q else q).
  Proof. intros q b H. destruct b; [|exact H]. destruct q; [exact H|]. inversion H; assumption. Qed.

  Lemma stored_absorb : forall s i (h : nat), h = ss_held s ->
    ss_stored s i && negb (h =? depth) = ss_stored s i.
  Proof. intros s i h ->. unfold StreamOut.ss_stored. destruct (ss_okay s i), (ss_held s =? depth); reflexivity. Qed.

  Lemma cnt_succ : forall n, ((N.of_nat n mod 2 ^ cnt_width mps + 1) mod 2 ^ cnt_width mps
                              = N.of_nat (S n) mod 2 ^ cnt_width mps)%N.
  Proof.
    intro n. rewrite Nat2N.inj_succ, <- N.add_1_r.
    rewrite N.add_mod_idemp_l by (apply N.pow_nonzero; lia). reflexivity.
  Qed.

  Lemma open_next13 : forall bs c v fresh r, bs <> [] -> (fresh = true -> 2 <= length bs) ->
    let ph' := trk_next (POpen bs c v fresh) r in
    n_fwd ph' = n_fwd (POpen bs c v fresh) + (if fresh then 1 else 0) /\
    firstn (n_fwd ph') (ph_bytes ph') = firstn (n_fwd ph') bs /\
    match ph' with PReport _ _ _ | PIdle => False | _ => True end.
  Proof.
    intros bs c v fresh r Hne Hfr. assert (L : 1 <= length bs) by (destruct bs; [congruence | cbn [length]; lia]).
    unfold trk_next. destruct (negb (r_valid r)); [|destruct (r_next r)]; cbn [n_fwd ph_bytes].
    - destruct fresh; [specialize (Hfr eq_refl)|]; repeat split; lia.
    - rewrite app_length. cbn [length]. destruct fresh; [specialize (Hfr eq_refl)|]; repeat split; try lia.
      all: rewrite firstn_snoc_le by lia; reflexivity.
    - destruct fresh; [specialize (Hfr eq_refl)|]; repeat split; lia.
  Qed.

  Lemma R_step : forall m s i, R m s -> ss_env mps s i = true ->
    R (so_next mps depth m i) (ss_next mps depth s i).
  Proof.
    intros m s i HR Henv.
    destruct (sig_rel m s i HR Henv) as (Klost & Kwen & Kacc & Ksuff & Kcom & Kdis & Kskip & Klastw & Kfull).
    destruct (fifo_status m s HR) as (Hfull & Hspace & Hle).
    pose proof (stored_facts m s i HR Henv) as Hsf.
    pose proof (okay_rel m s i HR Henv) as Hok.
    destruct s as [ph tgt new start n lost full tog act q tent].
    destruct HR as (Hbd & Hinv & Hav & Hte & Htog & Hovf & Hact & Hnact & Hgt & Hnew & Hph & Hcnt & Hby & Hq & Hlen & Hx &
                     Hnt & Hnn & Hnk & Hpl & Hpe).
    sproj.
    pose proof (bd_fwd_rel _ _ Hbd) as Hfw.
    pose proof (bd_rel_step _ _ (u_rx i) Hbd) as Hbd'.
    pose proof (bd_valid_rel _ _ Hbd) as Hval.
    unfold ss_env in Henv. cbn [t_ph t_tgt t_new] in Henv.
    apply andb_true_iff in Henv as [Hpay Henv]. apply N.ltb_lt in Hpay.
    destruct (step_commutes depth (n_ff m) (so_fifo_in mps depth m i) Hinv) as [Hinv' Habs].
    unfold R, so_next, ss_next.
    cbn [n_bd n_ff n_tog n_ovf n_cnt n_act n_nact h_tgt h_new h_cnt h_fwd
         t_ph t_tgt t_new t_start t_n t_lost t_full t_tog t_act t_q t_tent].
    rewrite Habs. clear Habs.
    split; [exact Hbd'|]. split; [exact Hinv'|]. clear Hinv' Hbd'.
    unfold so_fifo_in. rewrite Klost, Kwen, Kacc, Kcom, Kdis, Klastw, Hfw.
    change (k_drr (so_sig mps depth m i)) with (u_tgt i && u_rfr i).
    unfold StreamOut.ss_full_now, ss_commit, ss_discard, fwd_last in *.
    cbn [t_ph t_tgt t_new t_start t_n t_lost t_full t_tog t_act t_q t_tent] in *.
    remember (tf_abs depth (n_ff m)) as A eqn:EA. destruct A as [T Av P]. clear EA.
    cbn [aq_avail aq_tent aq_pend] in Hav, Hte, Hpe, Hpl. subst Av.
    rewrite aq_ep_step. unfold aq_held. cbn [aq_avail aq_tent aq_pend].
    rewrite take_map, pop_len, map_length.
    set (s := {| t_ph := ph; t_tgt := tgt; t_new := new; t_start := start; t_n := n; t_lost := lost; t_full := full;
                 t_tog := tog; t_act := act; t_q := q; t_tent := tent |}) in *.
    assert (Hheld : length T + length q + length P = ss_held s).
    { unfold ss_held. cbn [s t_tent t_q t_n]. rewrite Hte, Hpl. reflexivity. }
    rewrite (stored_absorb s i _ Hheld).
    assert (HQ1 := q1_lt q (u_rdy i && negb match q with [] => true | _ => false end) Hq).
    set (q1 := if u_rdy i && negb match q with [] => true | _ => false end then tl q else q) in *.
    rewrite Htog, Hovf, Hact, Hnact, Hgt, Hnew, Hcnt. clear Htog Hovf Hact Hnact Hgt Hnew Hcnt.
    destruct ph as [|bs c v fresh|bs c v|bs c v].
    - (* no packet *)
      assert (Hs0 : ss_stored s i = false) by reflexivity.
      assert (Hl0 : ss_lost_now s i = false) by reflexivity.
      rewrite Hs0, Hl0. cbn [fwd andb orb n_fwd] in *.
      assert (Hnp : k_newpkt (so_sig mps depth m i) = r_valid (u_rx i) && true)
        by (unfold so_sig; cbn [k_newpkt]; rewrite Hval; reflexivity).
      rewrite Hnp. destruct Hbd as (Hf & _). rewrite Hf.
      assert (Hn0 : n = 0) by lia. rewrite Hn0 in *. rewrite app_nil_r.
      split; [reflexivity|]. split; [reflexivity|]. split; [reflexivity|]. split; [reflexivity|].
      split; [reflexivity|]. split; [reflexivity|]. split; [reflexivity|]. split; [reflexivity|].
      unfold trk_next, trk_start. destruct (r_valid (u_rx i) && r_next (u_rx i)) eqn:Eb;
        cbn [ph_bytes n_fwd length Nat.sub Nat.ltb Nat.leb].
      + apply andb_true_iff in Eb as [Erv _]. rewrite Erv. cbn [andb].
        split; [split; [lia | split; [reflexivity | intros _; split; reflexivity]]|].
        split; [reflexivity|]. split; [repeat constructor; assumption|]. split; [exact HQ1|].
        split; [intros _; lia|]. split; [exact I|]. split; [intro; lia|]. split; [intro; lia|].
        split; [lia|]. split; [exact Hpl|]. intros _ H0; lia.
      + split; [exact I|].
        split; [reflexivity|]. split; [constructor|]. split; [exact HQ1|].
        split; [intros _; lia|]. split; [exact I|]. split; [intro; lia|]. split; [intro; lia|].
        split; [lia|]. split; [exact Hpl|]. intros _ H0; lia.
    - (* a packet is open *)
      destruct Hbd as (Hf & Hne & Hbuf & Hisf & Hbc & Hbi & Hoc & Hoi & Hol & Hon & Hval2 & Hnv & Hfr).
      assert (L : 1 <= length bs) by (destruct bs; [congruence | cbn [length]; lia]).
      destruct Hph as (Hhc & Hhf & Hyoung).
      apply andb_true_iff in Henv as [Henv He]. apply andb_true_iff in Henv as [Henv Hnew'].
      apply andb_true_iff in Henv as [Henv _]. apply andb_true_iff in Henv as [Hxt _]. apply eqb_prop in Hxt.
      destruct (open_next13 bs c v fresh (u_rx i) Hne (fun E => proj1 (Hfr E))) as (Hn' & Hfn' & Hnr).
      cbn [ph_bytes strobes] in *.
      rewrite Hf, ?andb_false_r. cbn [orb andb].
      assert (Hst : ss_stored s i = ss_okay s i && negb (ss_held s =? depth)) by reflexivity.
      assert (Hln : ss_lost_now s i = ss_okay s i && (ss_held s =? depth)) by reflexivity.
      (* a second "new packet" pulse of the gateware (first cycle of the packet) finds the flags already clear *)
      assert (Hnp : k_newpkt (so_sig mps depth m i) = false \/ (lost = false /\ full = false /\ fresh = false)).
      { unfold so_sig. cbn [k_newpkt]. destruct Hval as [Hv2 Hv0]. destruct (o_valid (out (n_bd m))) eqn:Ev.
        - left. apply andb_false_r.
        - right. specialize (Hv0 eq_refl). assert (length bs = 1) by (destruct (Nat.le_gt_cases 2 (length bs)) as [G|G];
            [specialize (Hv2 G); discriminate | lia]).
          destruct (Hyoung H). repeat split; assumption. }
      assert (HB : match trk_next (POpen bs c v fresh) (u_rx i) with
                   | POpen bs' _ _ _ => (if r_valid (u_rx i) && r_next (u_rx i) then Nat.min (S (h_cnt m)) (S mps) else h_cnt m)
                                        = Nat.min (length bs') (S mps) /\ (length bs' = 1 -> length bs = 1 /\ fresh = false)
                   | _ => True end /\
                   Forall (fun b => (b < 256)%N) (ph_bytes (trk_next (POpen bs c v fresh) (u_rx i))) /\
                   (tgt = true -> length (ph_bytes (trk_next (POpen bs c v fresh) (u_rx i))) <= mps) /\
                   match trk_next (POpen bs c v fresh) (u_rx i) with
                   | PEnded _ c' v' | PReport _ c' v' => tgt = true -> xorb c' v' = true
                   | _ => True end).
      { unfold trk_next. destruct (r_valid (u_rx i)) eqn:Erv; cbn [negb andb]; [destruct (r_next (u_rx i)) eqn:Ern|];
          cbn [ph_bytes].
        - split; [split; [rewrite Hhc, app_length; cbn [length]; lia | rewrite app_length; cbn [length]; intro; lia]|].
          split; [apply Forall_app; split; [assumption | repeat constructor; assumption]|].
          split; [|exact I]. intro Et. rewrite Et in He. cbn [negb] in He. apply Nat.ltb_lt in He.
          rewrite app_length. cbn [length]. lia.
        - split; [split; [exact Hhc | intro E1; split; [exact E1|]; destruct fresh; [destruct (Hfr eq_refl); lia | reflexivity]]|].
          split; [exact Hby|]. split; [exact Hlen | exact I].
        - split; [exact I|]. split; [exact Hby|]. split; [exact Hlen|].
          intro Et. rewrite Et in He. exact He. }
      destruct HB as (HB1 & HB2 & HB3 & HB4).
      set (ph' := trk_next (POpen bs c v fresh) (u_rx i)) in *.
      destruct fresh.
      + (* a byte is forwarded *)
        destruct (Hfr eq_refl) as (H2 & _). clear Hfr Hnv Hval2 Hyoung.
        destruct Hnp as [Hnp | (_ & _ & Hx0)]; [|discriminate]. rewrite Hnp.
        cbn [fwd n_fwd] in *. rewrite ?andb_false_r. cbn [orb andb].
        specialize (Hok eq_refl).
        assert (Hoky : ss_okay s i = if length bs =? 2 then u_tgt i && ss_match s i else new) by reflexivity.
        split; [reflexivity|]. split; [reflexivity|]. split; [reflexivity|]. split; [reflexivity|].
        split; [reflexivity|]. split; [reflexivity|]. split; [reflexivity|].
        split; [destruct (length bs =? 2); [rewrite Hok, Hoky|]; reflexivity|].
        split.
        { destruct ph' as [|bs' c' v' fr'|bs' c' v'|bs' c' v']; try exact I; try contradiction.
          - destruct HB1 as [HB1 HB1']. split; [exact HB1|]. split; [rewrite Hhf, Hn'; cbn [is_some]; rewrite orb_true_r; symmetry; apply Nat.ltb_lt; lia|].
            intro E1. destruct (HB1' E1) as [_ Hx0]. discriminate.
          - rewrite Hhf, Hn'. cbn [is_some]. rewrite orb_true_r. symmetry. apply Nat.ltb_lt. lia. }
        split; [destruct (ss_stored s i); [apply cnt_succ | reflexivity]|].
        split; [exact HB2|]. split; [exact HQ1|]. split; [exact HB3|]. split; [exact HB4|].
        split.
        { intros _. destruct (Nat.eqb_spec (length bs) 2) as [E2|E2].
          - intro H. apply andb_true_iff in H as [H _]. congruence.
          - apply Hnt. lia. }
        split; [destruct (ss_stored s i) eqn:Es; [intros _; exact (proj1 (Hsf eq_refl)) | exact Hnn]|].
        split; [rewrite Hn'; destruct (ss_stored s i); lia|].
        split; [rewrite app_length, Hpl; destruct (ss_stored s i); cbn [length]; lia|].
        intros Hl' _.
        assert (Hl0 : ss_lost_now s i = false /\ lost = false)
          by (destruct (ss_lost_now s i); [discriminate | split; [reflexivity | exact Hl']]).
        destruct Hl0 as [Hl0 Hlo]. rewrite Hln in Hl0.
        assert (Hes : ss_okay s i = true -> ss_stored s i = true).
        { intro Ho. rewrite Hst. rewrite Ho in *. cbn [andb] in *. rewrite Hl0. reflexivity. }
        assert (Hen : ss_okay s i = false -> ss_stored s i = false) by (intro Ho; rewrite Hst, Ho; reflexivity).
        assert (Hinner : forall x, t_ph x = ph' -> stored13 x = inner (t_start x) (firstn (n_fwd ph') bs)).
        { intros x Hx0. unfold stored13. rewrite Hx0. destruct ph'; try contradiction; rewrite Hfn'; reflexivity. }
        match goal with |- context [stored13 ?x] => rewrite (Hinner x eq_refl) end. rewrite Hn'. cbn [t_start].
        destruct (Nat.eqb_spec (length bs) 2) as [E2|E2].
        * (* the packet's first byte *)
          assert (HP : P = []) by (destruct P; [reflexivity | cbn [length] in Hpl; lia]).
          rewrite HP in *. cbn [app]. rewrite E2 in *. cbn [Nat.sub Nat.add] in *.
          destruct (u_tgt i && ss_match s i) eqn:Eo.
          -- rewrite (Hes Hoky). split; [|intros _; lia].
             destruct bs as [|a [|b [|]]]; cbn [length] in E2; try lia. cbn [firstn inner map nth Nat.eqb andb]. reflexivity.
          -- rewrite (Hen Hoky). split; [reflexivity | intro; discriminate].
        * (* a later byte *)
          assert (K : 0 < length bs - 2) by lia.
          destruct (Hpe Hlo K) as [HP HN].
          destruct new.
          -- specialize (HN eq_refl).
             rewrite (Hes Hoky). split; [|intros _; lia].
             rewrite HP. unfold stored13. cbn [s t_ph t_start n_fwd ph_bytes].
             replace (length bs - 2 + 1) with (S (length bs - 2)) by lia.
             rewrite inner_snoc by lia. rewrite map_app. f_equal. cbn [map].
             assert (E0 : (length bs - 2 =? 0) = false) by (apply Nat.eqb_neq; lia).
             rewrite E0, andb_false_r, andb_false_l. reflexivity.
          -- rewrite (Hen Hoky), HP, app_nil_r. split; [reflexivity | intro; discriminate].
      + (* nothing is forwarded *)
        assert (Hs0 : ss_stored s i = false) by reflexivity.
        assert (Hl0 : ss_lost_now s i = false) by reflexivity.
        rewrite Hs0, Hl0. cbn [fwd n_fwd andb orb] in *. rewrite ?andb_false_r. rewrite Nat.add_0_r in Hn'.
        rewrite app_nil_r.
        split; [reflexivity|]. split; [reflexivity|]. split; [reflexivity|].
        split; [destruct Hnp as [Hnp | (Hlo & _)]; [rewrite Hnp; reflexivity | rewrite Hlo; destruct (k_newpkt _); reflexivity]|].
        split; [reflexivity|].
        split; [destruct Hnp as [Hnp | (_ & Hfu & _)]; [rewrite Hnp; reflexivity | rewrite Hfu; destruct (k_newpkt _); reflexivity]|].
        split; [reflexivity|]. split; [reflexivity|].
        split.
        { destruct ph' as [|bs' c' v' fr'|bs' c' v'|bs' c' v']; try exact I; try contradiction.
          - destruct HB1 as [HB1 HB1']. split; [exact HB1|]. split; [rewrite Hhf, Hn'; cbn [is_some]; apply orb_false_r|].
            intro E1. destruct (HB1' E1) as [E1b _]. exact (Hyoung E1b).
          - rewrite Hhf, Hn'. cbn [is_some]. apply orb_false_r. }
        split; [reflexivity|].
        split; [exact HB2|]. split; [exact HQ1|]. split; [exact HB3|]. split; [exact HB4|].
        split; [rewrite Hn'; exact Hnt|]. split; [exact Hnn|]. split; [rewrite Hn'; exact Hnk|]. split; [exact Hpl|].
        intros Hlo K. rewrite Hn' in K. destruct (Hpe Hlo K) as [HP HN]. split; [|rewrite Hn'; exact HN].
        rewrite HP. destruct new; [|reflexivity]. f_equal. unfold stored13. cbn [s t_ph t_start].
        destruct ph'; try contradiction; rewrite Hfn', Hn'; reflexivity.
    - (* the packet ended in the previous cycle: its last byte is forwarded now *)
      destruct Hbd as (Hf & Hne & _).
      assert (L : 1 <= length bs) by (destruct bs; [congruence | cbn [length]; lia]).
      apply andb_true_iff in Henv as [Henv Hnew']. apply andb_true_iff in Henv as [Henv _].
      apply andb_true_iff in Henv as [Hxt _]. apply eqb_prop in Hxt.
      cbn [fwd n_fwd ph_bytes trk_next strobes] in *.
      assert (Hnp : k_newpkt (so_sig mps depth m i) = false)
        by (unfold so_sig; cbn [k_newpkt]; rewrite Hval; apply andb_false_r).
      rewrite Hnp, Hf, ?andb_false_r, ?andb_true_r. cbn [orb andb].
      specialize (Hok eq_refl).
      assert (Hst : ss_stored s i = ss_okay s i && negb (ss_held s =? depth)) by reflexivity.
      assert (Hln : ss_lost_now s i = ss_okay s i && (ss_held s =? depth)) by reflexivity.
      assert (Hoky : ss_okay s i = if length bs =? 1 then u_tgt i && ss_match s i else new) by reflexivity.
      split; [reflexivity|]. split; [reflexivity|]. split; [reflexivity|]. split; [reflexivity|].
      split; [destruct (ss_stored s i) eqn:Es; [rewrite (Kfull eq_refl)|]; reflexivity|].
      split; [destruct (ss_stored s i) eqn:Es; [rewrite (Kfull eq_refl)|]; reflexivity|].
      split; [reflexivity|].
      split; [destruct (length bs =? 1); [rewrite Hok, Hoky|]; reflexivity|].
      split; [exact I|].
      split; [destruct (ss_stored s i); [apply cnt_succ | reflexivity]|].
      split; [exact Hby|]. split; [exact HQ1|]. split; [exact Hlen|]. split; [exact Hx|].
      split.
      { intros _. destruct (Nat.eqb_spec (length bs) 1) as [E1|E1].
        - intro H. apply andb_true_iff in H as [H _]. congruence.
        - apply Hnt. lia. }
      split; [destruct (ss_stored s i) eqn:Es; [intros _; exact (proj1 (Hsf eq_refl)) | exact Hnn]|].
      split; [destruct (ss_stored s i); lia|].
      split; [rewrite app_length, Hpl; destruct (ss_stored s i); cbn [length]; lia|].
      intros Hl' _.
      assert (Hl0 : ss_lost_now s i = false /\ lost = false)
        by (destruct (ss_lost_now s i); [discriminate | split; [reflexivity | exact Hl']]).
      destruct Hl0 as [Hl0 Hlo]. unfold stored13. cbn [t_ph t_start].
      rewrite (frame_split _ _ bs Hne).
      rewrite Hln in Hl0.
      assert (Hes : ss_okay s i = true -> ss_stored s i = true).
      { intro Ho. rewrite Hst. rewrite Ho in *. cbn [andb] in *. rewrite Hl0. reflexivity. }
      assert (Hen : ss_okay s i = false -> ss_stored s i = false) by (intro Ho; rewrite Hst, Ho; reflexivity).
      destruct (Nat.eqb_spec (length bs) 1) as [E1|E1].
      + (* single-byte packet *)
        assert (HP : P = []) by (destruct P; [reflexivity | cbn [length] in Hpl; lia]).
        rewrite HP in *. cbn [app]. rewrite E1 in *. cbn [Nat.sub firstn inner app Nat.eqb] in *.
        destruct (u_tgt i && ss_match s i) eqn:Eo.
        * rewrite (Hes Hoky), (Kfull (Hes Hoky)). cbn [map]. split; [|intros _; lia].
          assert (En : n = 0) by lia. rewrite En.
          replace (negb (0 =? mps - 1)) with (1 <? mps)
            by (destruct (Nat.eqb_spec 0 (mps - 1)), (Nat.ltb_spec 1 mps); try reflexivity; lia).
          rewrite andb_true_r. reflexivity.
        * rewrite (Hen Hoky). split; [reflexivity | intro; discriminate].
      + (* longer packet *)
        assert (K : 0 < length bs - 1) by lia.
        destruct (Hpe Hlo K) as [HP HN].
        destruct new.
        * specialize (HN eq_refl). assert (Ht : tgt = true) by (apply Hnt; [exact K | reflexivity]).
          specialize (Hlen Ht).
          rewrite (Hes Hoky), (Kfull (Hes Hoky)). split; [|intros _; lia].
          rewrite HP. unfold stored13. cbn [s t_ph t_start n_fwd ph_bytes]. rewrite map_app. f_equal. cbn [map].
          rewrite HN, andb_false_r.
          replace (negb (length bs - 1 =? mps - 1)) with (length bs <? mps)
            by (destruct (Nat.eqb_spec (length bs - 1) (mps - 1)), (Nat.ltb_spec (length bs) mps); try reflexivity; lia).
          reflexivity.
        * rewrite (Hen Hoky), HP, app_nil_r. split; [reflexivity | intro; discriminate].
    - (* report: the outcome of the packet is acted upon *)
      assert (Hs0 : ss_stored s i = false) by reflexivity.
      assert (Hl0 : ss_lost_now s i = false) by reflexivity.
      rewrite Hs0, Hl0. cbn [fwd andb orb n_fwd ph_bytes] in *.
      assert (Hnp : k_newpkt (so_sig mps depth m i) = false)
        by (unfold so_sig; cbn [k_newpkt]; rewrite Hval; apply andb_false_r).
      rewrite Hnp. destruct Hbd as (Hf & _). rewrite Hf. rewrite !andb_false_r.
      apply andb_true_iff in Henv as [Hrv Henv]. apply negb_true_iff in Hrv.
      assert (Hph' : trk_next (PReport bs c v) (u_rx i) = PIdle) by (unfold trk_next, trk_start; rewrite Hrv; reflexivity).
      rewrite Hph'. cbn [ph_bytes n_fwd length].
      assert (HP0 : n = 0 -> P = []) by (intro E; rewrite E in Hpl; destruct P; [reflexivity | discriminate]).
      assert (HF := frame_data_lt start (length bs <? mps) bs Hby).
      (* the three possible outcomes *)
      assert (HO : (tgt = false /\ n = 0) \/ (tgt = true /\ c = true /\ v = false) \/ (tgt = true /\ c = false /\ v = true)).
      { destruct tgt; [right | left; split; [reflexivity|]].
        - specialize (Hx eq_refl). destruct c, v; try discriminate; [left | right]; repeat split.
        - destruct n; [reflexivity|]. assert (false = true) by (apply Hnn; lia). discriminate. }
      destruct HO as [[Et En] | [(Et & Ec & Ev) | (Et & Ec & Ev)]]; [subst tgt | subst tgt c v | subst tgt c v]; cbn [andb orb negb].
      + (* not addressed *)
        rewrite (HP0 En), En. cbn [app].
        split; [reflexivity|]. split; [reflexivity|]. split; [reflexivity|]. split; [reflexivity|].
        split; [reflexivity|]. split; [reflexivity|]. split; [reflexivity|]. split; [reflexivity|].
        split; [exact I|]. split; [reflexivity|]. split; [constructor|]. split; [exact HQ1|].
        split; [intros _; lia|]. split; [exact I|]. split; [intro; lia|]. split; [intro; lia|].
        split; [lia|]. split; [reflexivity|]. intros _ H0; lia.
      + (* complete *)
        cbn [orb] in Henv. apply eqb_prop in Henv. rewrite Henv. cbn [andb].
        split.
        { destruct lost; cbn [negb andb]; [reflexivity|].
          destruct (Nat.ltb_spec 0 (length bs)) as [K|K].
          - destruct (Hpe eq_refl K) as [HP _]. rewrite HP. destruct new; [|rewrite app_nil_r; reflexivity].
            unfold stored13. cbn [s t_ph t_start]. rewrite map_app. reflexivity.
          - assert (bs = []) by (destruct bs; [reflexivity | cbn [length] in K; lia]). subst bs.
            rewrite (HP0 ltac:(cbn [length] in Hnk; lia)). destruct new; cbn [frame]; rewrite ?app_nil_r; reflexivity. }
        split; [reflexivity|]. split; [reflexivity|]. split; [reflexivity|].
        split; [reflexivity|]. split; [reflexivity|]. split; [reflexivity|]. split; [reflexivity|].
        split; [exact I|].
        split; [destruct lost; reflexivity|]. split; [constructor|].
        split; [destruct (negb lost && new); [apply Forall_app; split; assumption | exact HQ1]|].
        split; [intros _; lia|]. split; [exact I|]. split; [intro; lia|]. split; [intro; lia|].
        split; [lia|]. split; [destruct lost; reflexivity|]. intros _ H0; lia.
      + (* invalid *)
        cbn [orb] in Henv. apply eqb_prop in Henv. rewrite Henv. cbn [andb orb].
        split; [reflexivity|].
        split; [reflexivity|]. split; [reflexivity|]. split; [reflexivity|].
        split; [reflexivity|]. split; [reflexivity|]. split; [reflexivity|]. split; [reflexivity|].
        split; [exact I|]. split; [reflexivity|]. split; [constructor|]. split; [exact HQ1|].
        split; [intros _; lia|]. split; [exact I|]. split; [intro; lia|]. split; [intro; lia|].
        split; [lia|]. split; [reflexivity|]. intros _ H0; lia.
  Qed.

  Theorem so_refines_from : forall ins m s, R m s -> ss_env_ok mps depth s ins = true ->
    map so_norm (so_run mps depth m ins) = ss_run mps depth s ins.
  Proof.
    induction ins as [|i t IH]; intros m s HR HE; [reflexivity|].
    cbn [ss_env_ok] in HE. apply andb_true_iff in HE as [He Ht].
    cbn [so_run ss_run map]. rewrite (R_out m s i HR He). f_equal.
    apply IH; [apply R_step; assumption | exact Ht].
  Qed.
End Refine.

Theorem so_refines : forall mps depth, 1 <= mps -> forall ins,
  ss_env_ok mps depth ss_init ins = true ->
  map so_norm (so_run mps depth (so_init depth) ins) = ss_run mps depth ss_init ins.
Proof. intros mps depth H ins HE. apply (so_refines_from mps depth H ins _ _ (R_init mps depth H) HE). Qed.

(* ------------------------------------------------------------------------------------------ *)
(* Packing facts for the lock-step tie                                                          *)
Definition so_wf (mps depth : nat) (m : so_state) : Prop :=
  bd_wf (n_bd m) /\ tf_wf depth 10 (n_ff m) /\ (n_cnt m < 2 ^ cnt_width mps)%N /\ h_cnt m <= S mps.

Lemma so_wf_init : forall mps depth, so_wf mps depth (so_init depth).
Proof.
  intros. split; [exact bd_wf_init|]. split; [apply tf_wf_init|]. split; [|cbn; lia].
  cbn [so_init n_cnt]. apply N.neq_0_lt_0, N.pow_nonzero. lia.
Qed.

Lemma so_dec_enc : forall mps depth m, so_wf mps depth m -> so_dec mps depth (so_enc mps depth m) = m.
Proof.
  intros mps depth [bd ff tg ov cn ac na ht hn hc hf] (Hb & Hf & Hcn & Hc).
  cbn [n_bd n_ff n_tog n_ovf n_cnt n_act n_nact h_tgt h_new h_cnt h_fwd] in *.
  unfold so_dec, so_enc. cbn [n_bd n_ff n_tog n_ovf n_cnt n_act n_nact h_tgt h_new h_cnt h_fwd]. cbv zeta.
  rewrite !land_mod, !shr_div.
  pose proof (tf_enc2_lt depth ff Hf) as Hlt.
  assert (Hc' : (N.of_nat hc < 2 ^ hcnt_bits mps)%N).
  { unfold hcnt_bits. apply N.le_lt_trans with (N.of_nat (S mps)); [lia | apply N.size_gt]. }
  assert (Ha : forall b : bool, (b2n b < 2 ^ 1)%N) by (intros [|]; cbn; lia).
  repeat first [rewrite PackN.pk_div by first [apply Ha | assumption]
               | rewrite PackN.pk_mod by first [apply Ha | assumption]].
  rewrite !nb_b2n, Nat2N.id, tf_dec_enc2 by assumption. rewrite bd_dec2_eq, bd_dec_enc by assumption. reflexivity.
Qed.

Lemma so_in_pay : forall ep w, (r_pay (u_rx (so_in_of ep w)) < 256)%N.
Proof. intros. cbn [so_in_of u_rx r_pay]. apply (bits_lt w 21 8). Qed.

Lemma so_wf_step : forall mps depth ep m w, so_wf mps depth m -> so_wf mps depth (fst (so_mstep mps depth ep m w)).
Proof.
  intros mps depth ep m w (Hb & Hf & Hcn & Hc). cbn [so_mstep fst]. unfold so_next, so_wf.
  cbn [n_bd n_ff n_tog n_ovf n_cnt n_act n_nact h_tgt h_new h_cnt h_fwd]. split; [|split; [|split]].
  - apply bd_wf_next; [exact Hb | apply so_in_pay].
  - apply tf_wf_next; [exact Hf|]. unfold so_fifo_in, bd_fwd. cbn [fi_write_data].
    destruct (o_next (out (n_bd m)) && o_valid (out (n_bd m))); [|cbn; lia].
    apply enc_entry_lt. cbn [e_data]. exact (proj1 Hb).
  - assert (P0 : (0 < 2 ^ cnt_width mps)%N) by (apply N.neq_0_lt_0, N.pow_nonzero; lia).
    destruct (k_commit _ || k_discard _); [exact P0|]. destruct (k_wen _); [|exact Hcn].
    apply N.mod_lt. lia.
  - destruct (fsm (n_bd m)); [lia | | exact Hc].
    destruct (r_valid (u_rx (so_in_of ep w)) && r_next (u_rx (so_in_of ep w))); lia.
Qed.

Lemma so_mrun : forall mps depth ep tr m,
  run (so_mstep mps depth ep) m tr
  = map (fun o => so_out_pack (so_norm o)) ((fix go (m : so_state) (l : list N) : list so_out :=
       match l with [] => [] | w :: t => so_outf mps depth m (so_in_of ep w) :: go (so_next mps depth m (so_in_of ep w)) t end) m tr).
Proof.
  induction tr as [|w t IH]; intro m; [reflexivity|].
  cbn [run map]. unfold so_mstep at 1. cbv zeta. rewrite IH. reflexivity.
Qed.

Lemma so_run_map : forall mps depth ep tr m,
  (fix go (m : so_state) (l : list N) : list so_out :=
       match l with [] => [] | w :: t => so_outf mps depth m (so_in_of ep w) :: go (so_next mps depth m (so_in_of ep w)) t end) m tr
  = so_run mps depth m (map (so_in_of ep) tr).
Proof. induction tr as [|w t IH]; intro m; [reflexivity|]. cbn [map so_run]. rewrite <- IH. reflexivity. Qed.

Lemma so_out_of_pack : forall o, (v_data o < 256)%N -> so_out_of (so_out_pack o) = o.
Proof.
  intros [a k v f l d] H. cbn [v_data] in H. unfold so_out_of, so_out_pack. cbn [v_ack v_nak v_valid v_first v_last v_data].
  assert (T : forall x n, N.testbit x n = N.odd (x / 2 ^ n)).
  { intros. rewrite <- N.shiftr_div_pow2. unfold N.testbit. rewrite <- N.bit0_odd, N.shiftr_spec by lia.
    rewrite N.add_0_l. reflexivity. }
  unfold bits. rewrite N.shiftr_div_pow2, N.land_ones, !T.
  change (2 ^ 0)%N with 1%N. change (2 ^ 1)%N with 2%N. change (2 ^ 2)%N with 4%N. change (2 ^ 3)%N with 8%N.
  change (2 ^ 4)%N with 16%N. change (2 ^ 5)%N with 32%N. change (2 ^ 8)%N with 256%N. rewrite N.div_1_r.
  set (x := (b2n a + 2 * b2n k + 4 * b2n v + 8 * b2n f + 16 * b2n l + 32 * d)%N).
  assert (B : forall b : bool, (b2n b < 2)%N) by (intros [|]; cbn; lia).
  pose proof (B a). pose proof (B k). pose proof (B v). pose proof (B f). pose proof (B l).
  assert (E32 : (x / 32 = d)%N) by (symmetry; apply (N.div_unique x 32 d (b2n a + 2 * b2n k + 4 * b2n v + 8 * b2n f + 16 * b2n l)); unfold x; lia).
  assert (E16 : (x / 16 = b2n l + 2 * d)%N) by (symmetry; apply (N.div_unique x 16 _ (b2n a + 2 * b2n k + 4 * b2n v + 8 * b2n f)); unfold x; lia).
  assert (E8 : (x / 8 = b2n f + 2 * (b2n l + 2 * d))%N) by (symmetry; apply (N.div_unique x 8 _ (b2n a + 2 * b2n k + 4 * b2n v)); unfold x; lia).
  assert (E4 : (x / 4 = b2n v + 2 * (b2n f + 2 * (b2n l + 2 * d)))%N) by (symmetry; apply (N.div_unique x 4 _ (b2n a + 2 * b2n k)); unfold x; lia).
  assert (E2 : (x / 2 = b2n k + 2 * (b2n v + 2 * (b2n f + 2 * (b2n l + 2 * d))))%N) by (symmetry; apply (N.div_unique x 2 _ (b2n a)); unfold x; lia).
  rewrite E32, E16, E8, E4, E2, N.mod_small by exact H.
  assert (O : forall (b : bool) y, N.odd (b2n b + 2 * y) = b).
  { intros b y. rewrite N.odd_add_mul_2. destruct b; reflexivity. }
  replace x with (b2n a + 2 * (b2n k + 2 * (b2n v + 2 * (b2n f + 2 * (b2n l + 2 * d)))))%N by (unfold x; lia).
  rewrite !O. reflexivity.
Qed.

Lemma so_menv_ok : forall mps depth ep, 1 <= mps -> forall tr,
  ss_env_ok mps depth ss_init (map (so_in_of ep) tr) = true ->
  env_ok so_state (so_mstep mps depth ep) (so_menv mps ep) (so_init depth) tr = true.
Proof.
  intros mps depth ep H tr. generalize (R_init mps depth H). generalize (so_init depth), ss_init.
  induction tr as [|w t IH]; intros m s HR HE; [reflexivity|].
  cbn [map ss_env_ok] in HE. apply andb_true_iff in HE as [He Ht].
  cbn [env_ok]. unfold so_menv at 1. rewrite (R_env mps depth H m s _ HR), He. cbn [andb so_mstep fst].
  apply (IH _ (ss_next mps depth s (so_in_of ep w))); [apply R_step; assumption | exact Ht].
Qed.

Lemma so_run_data : forall mps depth ins m o, In o (so_run mps depth m ins) -> (v_data o < 256)%N.
Proof.
  induction ins as [|i t IH]; intros m o H; [contradiction|].
  cbn [so_run] in H. destruct H as [<-|H]; [|exact (IH _ _ H)].
  cbn [so_outf v_data]. apply N.mod_lt. discriminate.
Qed.

(* netlist = model (the tie) composes with model = specification *)
Theorem so_packed_refines : forall mps depth ep, 1 <= mps -> forall tr,
  ss_env_ok mps depth ss_init (map (so_in_of ep) tr) = true ->
  map (fun w => so_norm (so_out_of w)) (run (so_mstep mps depth ep) (so_init depth) tr)
  = ss_run mps depth ss_init (map (so_in_of ep) tr).
Proof.
  intros mps depth ep H tr HE. rewrite so_mrun, so_run_map, map_map.
  rewrite <- (so_refines mps depth H _ HE).
  apply map_ext_in. intros o Ho.
  assert (Hd : (v_data (so_norm o) < 256)%N)
    by (unfold so_norm; destruct (v_valid o); [exact (so_run_data _ _ _ _ _ Ho) | cbn; lia]).
  rewrite so_out_of_pack by exact Hd. unfold so_norm. destruct (v_valid o) eqn:E; [rewrite E; reflexivity | reflexivity].
Qed.

(* ------------------------------------------------------------------------------------------ *)
(* Properties of the specification itself                                                       *)
Section Spec.
  Variable mps depth : nat.
  Notation next := (ss_next mps depth).

  (* entries handed to the consumer (valid & ready), in order *)
  Definition ss_popped (s : ss_state) (i : so_in) : list entry :=
    match t_q s with e :: _ => if u_rdy i then [e] else [] | [] => [] end.
  Fixpoint ss_delivered (s : ss_state) (ins : list so_in) : list entry :=
    match ins with
    | [] => []
    | i :: t => ss_popped s i ++ ss_delivered (next s i) t
    end.

  (* the packet whose outcome is acted upon in this cycle is accepted as new data *)
  Definition ss_accept_now (s : ss_state) : list (list entry) :=
    match t_ph s with
    | PReport bs c v =>
        if t_tgt s && c && negb v && negb (t_lost s) && t_new s then [frame (t_start s) (length bs <? mps) bs] else []
    | _ => []
    end.
  Fixpoint ss_accepted_frames (s : ss_state) (ins : list so_in) : list (list entry) :=
    match ins with
    | [] => []
    | i :: t => ss_accept_now s ++ ss_accepted_frames (next s i) t
    end.

  Fixpoint ss_run_state (s : ss_state) (ins : list so_in) : ss_state :=
    match ins with
    | [] => s
    | i :: t => ss_run_state (next s i) t
    end.

  Lemma ss_q_step : forall s i, ss_popped s i ++ t_q (next s i) = t_q s ++ concat (ss_accept_now s).
  Proof.
    intros [ph tgt new start n lost full tog act q tent] i. unfold ss_popped, ss_next, ss_accept_now.
    cbn [t_ph t_tgt t_new t_start t_n t_lost t_full t_tog t_act t_q t_tent].
    set (q1 := if u_rdy i && negb match q with [] => true | _ => false end then tl q else q).
    assert (E : (match q with e :: _ => if u_rdy i then [e] else [] | [] => [] end) ++ q1 = q).
    { unfold q1. destruct q as [|e q], (u_rdy i); reflexivity. }
    destruct ph as [|bs c v fresh|bs c v|bs c v]; cbn [concat]; rewrite ?app_nil_r; try exact E.
    destruct (tgt && c && negb v && negb lost && new); cbn [concat]; rewrite ?app_nil_r; try exact E.
    rewrite app_assoc, E. reflexivity.
  Qed.

  (* delivered ++ still queued = what was queued ++ the framed payloads of the packets accepted since *)
  Theorem ss_whole_packets_from : forall ins s,
    ss_delivered s ins ++ t_q (ss_run_state s ins) = t_q s ++ concat (ss_accepted_frames s ins).
  Proof.
    induction ins as [|i t IH]; intro s; cbn [ss_delivered ss_run_state ss_accepted_frames concat].
    - rewrite app_nil_r. reflexivity.
    - rewrite <- app_assoc, IH, app_assoc, ss_q_step, concat_app, app_assoc. reflexivity.
  Qed.

  (* a response to a data packet with the expected toggle: ACK iff no byte of the packet was lost, else NAK;
     with the previous toggle: ACK (the host missed our ACK), nothing is stored *)
  Lemma ss_response : forall s i, u_tgt i = true -> u_rfr i = true -> u_ping i = false ->
    let o := ss_outf mps depth s i in
    (ss_match s i = true -> v_ack o = negb (ss_lost_now depth s i || t_lost s) /\ v_nak o = (ss_lost_now depth s i || t_lost s)) /\
    (ss_match s i = false -> v_ack o = true /\ v_nak o = false).
  Proof.
    intros s i Ht Hr Hp. unfold ss_outf, StreamOut.ss_accepted. rewrite Ht, Hr, Hp. cbn [andb orb].
    split; intro Hm; rewrite Hm; cbn [andb negb orb];
      destruct (t_q s); cbn [v_ack v_nak]; destruct (ss_lost_now depth s i), (t_lost s); split; reflexivity.
  Qed.

  (* the toggle advances exactly with an ACK for new data *)
  Lemma ss_toggle : forall s i, u_clr i = false ->
    t_tog (next s i) = if u_tgt i && u_rfr i && ss_match s i && negb (ss_lost_now depth s i || t_lost s)
                       then negb (t_tog s) else t_tog s.
  Proof.
    intros s i Hc. unfold ss_next, StreamOut.ss_accepted. cbn [t_tog]. rewrite Hc.
    destruct (u_tgt i), (u_rfr i), (ss_match s i), (ss_lost_now depth s i), (t_lost s); reflexivity.
  Qed.

  (* entries handed over, read off an output trace: cycles with valid & ready *)
  Fixpoint so_transfers (ins : list so_in) (outs : list so_out) : list entry :=
    match ins, outs with
    | i :: ti, o :: to =>
        (if v_valid o && u_rdy i then [{| e_data := v_data o; e_first := v_first o; e_last := v_last o |}] else [])
        ++ so_transfers ti to
    | _, _ => []
    end.

  Lemma so_transfers_spec : forall ins s, so_transfers ins (ss_run mps depth s ins) = ss_delivered s ins.
  Proof.
    induction ins as [|i t IH]; intro s; [reflexivity|].
    cbn [ss_run so_transfers ss_delivered]. rewrite IH. f_equal.
    unfold ss_outf, ss_popped. destruct (t_q s) as [|[d f l] q]; [reflexivity|].
    cbn [v_valid v_data v_first v_last andb e_data e_first e_last]. reflexivity.
  Qed.

  Lemma so_transfers_norm : forall ins outs, so_transfers ins (map so_norm outs) = so_transfers ins outs.
  Proof.
    induction ins as [|i t IH]; intros [|o outs]; try reflexivity.
    cbn [map so_transfers]. rewrite IH. f_equal. unfold so_norm. destruct (v_valid o) eqn:E; [rewrite E; reflexivity|].
    reflexivity.
  Qed.
End Spec.

Theorem so_model_stream : forall mps depth, 1 <= mps -> forall ins,
  ss_env_ok mps depth ss_init ins = true ->
  so_transfers ins (so_run mps depth (so_init depth) ins) ++ t_q (ss_run_state mps depth ss_init ins)
  = concat (ss_accepted_frames mps depth ss_init ins).
Proof.
  intros mps depth H ins HE.
  rewrite <- so_transfers_norm, (so_refines mps depth H ins HE), so_transfers_spec.
  apply (ss_whole_packets_from mps depth ins ss_init).
Qed.

(* handshakes of the model = handshakes of the specification *)
Theorem so_model_handshakes : forall mps depth, 1 <= mps -> forall ins,
  ss_env_ok mps depth ss_init ins = true ->
  map (fun o => (v_ack o, v_nak o)) (so_run mps depth (so_init depth) ins)
  = map (fun o => (v_ack o, v_nak o)) (ss_run mps depth ss_init ins).
Proof.
  intros mps depth H ins HE. rewrite <- (so_refines mps depth H ins HE), map_map.
  apply map_ext. intro o. unfold so_norm. destruct (v_valid o); reflexivity.
Qed.

(* ------------------------------------------------------------------------------------------ *)
(* The specification as a runtime oracle (tie.cmon): the state of ss_next packed into one N (bounded
   encodings as in IsoOut_proofs.v; no theorem depends on them).                                *)
Open Scope N_scope.

Definition enc_list13 (w : N) (cap : nat) (l : list N) : N * N :=
  (PackN.pk (2 ^ 16) (N.of_nat (length l)) (pack (2 ^ w) (l ++ repeat 0 (cap - length l))), 16 + w * N.of_nat cap).
Definition dec_list13 (w : N) (cap : nat) (x : N) : list N :=
  firstn (N.to_nat (N.land x (N.ones 16))) (unpack2 w cap (N.shiftr x 16)).
Definition dec_entry13 (x : N) : entry :=
  {| e_data := N.land x (N.ones 8); e_first := N.testbit x 9; e_last := N.testbit x 8 |}.

Definition ss_enc (mps depth : nat) (s : ss_state) : N :=
  let '(tag, bs, c, v, fresh) :=
    match t_ph s with
    | PIdle => (0, [], false, false, false)
    | POpen bs c v fresh => (1, bs, c, v, fresh)
    | PEnded bs c v => (2, bs, c, v, false)
    | PReport bs c v => (3, bs, c, v, false)
    end in
  let '(eb, nb_) := enc_list13 8 (mps + 2) bs in
  let '(eq, _) := enc_list13 10 (S depth) (map enc_entry (t_q s)) in
  let b := fun x : bool => PackN.pk 2 (b2n x) in
  b (t_tent s) (b (t_tgt s) (b (t_new s) (b (t_start s) (b (t_lost s) (b (t_full s) (b (t_tog s) (b (t_act s)
    (PackN.pk 4 tag (b c (b v (b fresh (PackN.pk (2 ^ 16) (N.of_nat (t_n s)) (PackN.pk (2 ^ nb_) eb eq))))))))))))).

Definition ss_dec (mps depth : nat) (x : N) : ss_state :=
  let tag := N.land (N.shiftr x 8) 3 in
  let c := N.testbit x 10 in let v := N.testbit x 11 in let fr := N.testbit x 12 in
  let y := N.shiftr x 13 in
  let n := N.to_nat (N.land y (N.ones 16)) in let y := N.shiftr y 16 in
  let nbits := 16 + 8 * N.of_nat (mps + 2) in
  let bs := dec_list13 8 (mps + 2) (N.land y (N.ones nbits)) in let y := N.shiftr y nbits in
  let q := map dec_entry13 (dec_list13 10 (S depth) y) in
  {| t_ph := match tag with 0 => PIdle | 1 => POpen bs c v fr | 2 => PEnded bs c v | _ => PReport bs c v end;
     t_tgt := N.testbit x 1; t_new := N.testbit x 2; t_start := N.testbit x 3; t_n := n;
     t_lost := N.testbit x 4; t_full := N.testbit x 5; t_tog := N.testbit x 6; t_act := N.testbit x 7;
     t_q := q; t_tent := N.testbit x 0 |}.

Definition ss_mon0 : N := 0.

Definition ss_mon (mps depth : nat) (ep : N) (m i o : N) : option (N * bool) :=
  let s := ss_dec mps depth m in
  let ii := so_in_of ep i in
  let short := match t_ph s with POpen bs _ _ _ => (length bs <=? mps)%nat | _ => true end in
  if ss_env mps s ii && short then
    Some (ss_enc mps depth (ss_next mps depth s ii),
          so_out_pack (so_norm (so_out_of o)) =? so_out_pack (ss_outf mps depth s ii))
  else None.
