From Coq Require Import NArith List Bool Arith Lia.
Import ListNotations.
From LunaLib Require Import Netlist Machine PackN ListMem.
From LunaModel Require Import BoundaryDet BoundaryDet_proofs TxFifo TxFifo_proofs C16_OutTrack C16_OutTrack_proofs StreamOut.
Open Scope nat_scope.
