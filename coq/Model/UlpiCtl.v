(* C24 -- ULPI control registers converge to the requested UTMI settings.

   Hand model of luna/gateware/interface/ulpi.py: ULPIControlTranslator together with its ULPIRegisterWindow
   (the configuration ULPIControlTranslator(register_window=ULPIRegisterWindow(), own_register_window=True)),
   a ULPI PHY seen from the pins (register file + what it does with DIR/NXT/DATA/STP), and the specification.

   The model is the PROPERTY-SATISFYING behaviour (findings/C24-ulpi-control.diff):
     * the register window uses the address / write data it latched when it accepted the request for the whole
       transaction (the code in /repo latches them but then uses the live inputs, which the control translator
       re-targets when a second register becomes dirty or the value changes mid-write);
     * the control translator hands the window the requested value itself, and when a write completes it sets the
       shadow of the register that was written to the value that was written (the code in /repo copies its
       write_value register into the shadow of whichever register the If/Elif chain selects at that moment).

   Port packing of the stand-alone target (props/C24.py):
     inputs : bus_idle 0, dir 1, nxt 2, xcvr_select[2] 3..4, term_select 5, op_mode[2] 6..7, suspend 8, id_pullup 9,
              dp_pulldown 10, dm_pulldown 11, chrg_vbus 12, dischrg_vbus 13, use_external_vbus_indicator 14
     outputs: window ulpi_data_out[8] 0..7, ulpi_out_req 8, ulpi_stop 9, window busy 10, done 11, translator busy 12 *)
From Coq Require Import NArith List Bool.
Import ListNotations.
From LunaLib Require Import Netlist Machine.
Open Scope N_scope.

(* ============================== inputs ========================================================== *)
Definition ki_idle (i : N) : bool := N.testbit i 0.
Definition ki_dir (i : N) : bool := N.testbit i 1.
Definition ki_nxt (i : N) : bool := N.testbit i 2.
(* requested Function Control value: Cat(xcvr_select, term_select, op_mode, 0, ~suspend, 0) *)
Definition ki_func (i : N) : N := bits i 3 2 + 4 * bits i 5 1 + 8 * bits i 6 2 + 64 * (1 - bits i 8 1).
(* requested OTG Control value: Cat(id_pullup, dp_pulldown, dm_pulldown, dischrg_vbus, chrg_vbus, 0, 0, use_ext_vbus) *)
Definition ki_otg (i : N) : N :=
  bits i 9 1 + 2 * bits i 10 1 + 4 * bits i 11 1 + 8 * bits i 13 1 + 16 * bits i 12 1 + 128 * bits i 14 1.

Definition FUNC_CTRL : N := 4.    (* register addresses *)
Definition OTG_CTRL : N := 10.
Definition FUNC_RESET : N := 65.  (* 0b01000001: values the PHY's registers hold after reset *)
Definition OTG_RESET : N := 6.    (* 0b00000110 *)

(* ============================== the module ===================================================== *)
Inductive wfsm := W_IDLE | W_START | W_SEND | W_HOLD | W_STOPPING.

Record cw_state := {
  w_fsm : wfsm; w_dout : N; w_oreq : bool; w_stop : bool; w_done : bool;
  w_caddr : N; w_cwrite : N;              (* current_address, current_write *)
  c_cur4 : N; c_cur10 : N; c_busy : bool  (* current_register_value_04 / _0a, translator busy *)
}.
Definition cw_init : cw_state :=
  {| w_fsm := W_IDLE; w_dout := 0; w_oreq := false; w_stop := false; w_done := false; w_caddr := 0; w_cwrite := 0;
     c_cur4 := FUNC_RESET; c_cur10 := OTG_RESET; c_busy := false |}.

Definition w_busy (s : cw_state) : bool := match w_fsm s with W_IDLE => false | _ => true end.

Definition cw_out (s : cw_state) : N :=
  w_dout s + 256 * b2n (w_oreq s) + 512 * b2n (w_stop s) + 1024 * b2n (w_busy s) + 2048 * b2n (w_done s)
  + 4096 * b2n (c_busy s).

(* the If/Elif chain of the control translator: which register (if any) is requested, with which value *)
Definition cw_select (s : cw_state) (f g : N) : option (N * N) :=
  if negb (c_cur4 s =? f) then Some (FUNC_CTRL, f)
  else if negb (c_cur10 s =? g) then Some (OTG_CTRL, g) else None.

Definition cw_next (s : cw_state) (idle dir nxt : bool) (f g : N) : cw_state :=
  let sel := cw_select s f g in
  let request := match sel with Some _ => negb (w_done s) && idle | None => false end in
  let address := match sel with Some (a, _) => a | None => 0 end in
  let wdata := match sel with Some (_, v) => v | None => 0 end in
  (* shadow registers: a finished write updates the shadow of the register that was written *)
  let cur4' := if w_done s && (w_caddr s =? FUNC_CTRL) then w_cwrite s else c_cur4 s in
  let cur10' := if w_done s && (w_caddr s =? OTG_CTRL) then w_cwrite s else c_cur10 s in
  let busy' := request || w_busy s in
  let mk fsm dout oreq stop done caddr cwrite :=
    {| w_fsm := fsm; w_dout := dout; w_oreq := oreq; w_stop := stop; w_done := done;
       w_caddr := caddr; w_cwrite := cwrite; c_cur4 := cur4'; c_cur10 := cur10'; c_busy := busy' |} in
  match w_fsm s with
  | W_IDLE => mk (if request then W_START else W_IDLE) 0 false false false address wdata
  | W_START =>
      if dir then mk W_START (w_dout s) false false false (w_caddr s) (w_cwrite s)
      else mk W_SEND (128 + w_caddr s) true false false (w_caddr s) (w_cwrite s)
  | W_SEND =>
      if dir then mk W_START (w_dout s) false false false (w_caddr s) (w_cwrite s)
      else if nxt then mk W_HOLD (w_cwrite s) true false false (w_caddr s) (w_cwrite s)
      else mk W_SEND (w_dout s) true false false (w_caddr s) (w_cwrite s)
  | W_HOLD =>
      if dir then mk W_START (w_dout s) false false false (w_caddr s) (w_cwrite s)
      else if nxt then mk W_STOPPING 0 true true false (w_caddr s) (w_cwrite s)
      else mk W_HOLD (w_dout s) true false false (w_caddr s) (w_cwrite s)
  | W_STOPPING =>
      if dir then mk W_START (w_dout s) false false false (w_caddr s) (w_cwrite s)
      else mk W_IDLE (w_dout s) false false true (w_caddr s) (w_cwrite s)
  end.

Definition cw_step (s : cw_state) (i : N) : cw_state * N :=
  (cw_next s (ki_idle i) (ki_dir i) (ki_nxt i) (ki_func i) (ki_otg i), cw_out s).

(* ============================== the PHY, seen from the pins ====================================== *)
(* Register-write protocol (ULPI 1.1 3.8.3): with DIR low the PHY takes a command byte in a cycle in which it
   asserts NXT (never in the turn-around cycle after DIR fell), then the data byte in the next cycle with NXT, and
   commits the write when it sees STP.  Raising DIR aborts whatever was in progress.  A transmit command
   (0b01xxxxxx) puts it into transmit until STP.  Only the two registers of interest are tracked; q_other records a
   committed write to any other address. *)
Inductive qphase := QIdle | QTx | QW1 | QW2.
Record phy := { q_ph : qphase; q_pdir : bool; q_addr : N; q_data : N; q_r4 : N; q_r10 : N; q_other : bool }.
Definition phy_init : phy :=
  {| q_ph := QIdle; q_pdir := false; q_addr := 0; q_data := 0; q_r4 := FUNC_RESET; q_r10 := OTG_RESET; q_other := false |}.

Definition is_txcmd_b (d : N) : bool := (64 <=? d) && (d <? 128).
Definition is_regw_b (d : N) : bool := (128 <=? d) && (d <? 192).

(* the committed write of this cycle, if any *)
Definition phy_commit (p : phy) (dir stp : bool) : option (N * N) :=
  match q_ph p with QW2 => if negb dir && stp then Some (q_addr p, q_data p) else None | _ => None end.

Definition phy_step (p : phy) (dir nxt : bool) (bus : N) (stp : bool) : phy :=
  let mk ph a d r4 r10 o := {| q_ph := ph; q_pdir := dir; q_addr := a; q_data := d; q_r4 := r4; q_r10 := r10; q_other := o |} in
  let keep ph := mk ph (q_addr p) (q_data p) (q_r4 p) (q_r10 p) (q_other p) in
  if dir then keep QIdle else
  match q_ph p with
  | QIdle => if nxt && negb (q_pdir p) then
               (if is_regw_b bus then mk QW1 (bus mod 64) (q_data p) (q_r4 p) (q_r10 p) (q_other p)
                else if is_txcmd_b bus then keep QTx else keep QIdle)
             else keep QIdle
  | QTx => keep (if stp then QIdle else QTx)
  | QW1 => if nxt then mk QW2 (q_addr p) bus (q_r4 p) (q_r10 p) (q_other p) else keep QW1
  | QW2 => if stp then
             mk QIdle (q_addr p) (q_data p)
                (if q_addr p =? FUNC_CTRL then q_data p else q_r4 p)
                (if q_addr p =? OTG_CTRL then q_data p else q_r10 p)
                (q_other p || negb ((q_addr p =? FUNC_CTRL) || (q_addr p =? OTG_CTRL)))
           else keep QW2
  end.

(* the model together with the PHY watching its pins *)
Definition sys_step (sp : cw_state * phy) (i : N) : cw_state * phy :=
  let (s, p) := sp in
  (fst (cw_step s i), phy_step p (ki_dir i) (ki_nxt i) (w_dout s) (w_stop s)).
Definition sys_run (sp : cw_state * phy) (tr : list N) : cw_state * phy := fold_left sys_step tr sp.
Definition sys_init : cw_state * phy := (cw_init, phy_init).

(* ============================== the specification ================================================ *)
(* (S1) every write the PHY commits is the one the window was asked for: its address is Function Control or OTG
        Control and its data is the value that was requested for THAT register in the cycle the request was accepted.
        Ghost: greq = (address, requested value) recorded in the cycle the window accepts a request. *)
Definition accepts_request (s : cw_state) (i : N) : option (N * N) :=
  match w_fsm s, cw_select s (ki_func i) (ki_otg i) with
  | W_IDLE, Some av => if negb (w_done s) && ki_idle i then Some av else None
  | _, _ => None
  end.
Definition ghost_next (gq : option (N * N)) (s : cw_state) (i : N) : option (N * N) :=
  match accepts_request s i with Some av => Some av | None => gq end.
Definition requested_of (a : N) (i : N) : option N :=
  if a =? FUNC_CTRL then Some (ki_func i) else if a =? OTG_CTRL then Some (ki_otg i) else None.

(* (S2/S3) quiescence: the window is idle, no completion is being reported, and the translator has nothing to
        ask for; then the PHY's registers hold the requested settings. *)
Definition quiescent (s : cw_state) (i : N) : bool :=
  match w_fsm s with W_IDLE => negb (w_done s) | _ => false end &&
  match cw_select s (ki_func i) (ki_otg i) with None => true | Some _ => false end.

(* ============================== packing for the lock-step obligations ============================= *)
Definition wfsm_code (f : wfsm) : N :=
  match f with W_IDLE => 0 | W_START => 1 | W_SEND => 2 | W_HOLD => 3 | W_STOPPING => 4 end.
Definition wfsm_of (n : N) : wfsm :=
  match n with 0 => W_IDLE | 1 => W_START | 2 => W_SEND | 3 => W_HOLD | _ => W_STOPPING end.
(* fields: fsm 3 bits, oreq, stop, done, busy, then dout, caddr, cwrite, cur4, cur10 (8 bits each) *)
Definition cw_enc (s : cw_state) : N :=
  wfsm_code (w_fsm s) + 8 * b2n (w_oreq s) + 16 * b2n (w_stop s) + 32 * b2n (w_done s) + 64 * b2n (c_busy s)
  + 128 * (w_dout s + 256 * (w_caddr s + 256 * (w_cwrite s + 256 * (c_cur4 s + 256 * c_cur10 s)))).
Definition cw_dec (m : N) : cw_state :=
  let r0 := m / 128 in let r1 := r0 / 256 in let r2 := r1 / 256 in let r3 := r2 / 256 in
  {| w_fsm := wfsm_of (m mod 8); w_oreq := N.testbit m 3; w_stop := N.testbit m 4; w_done := N.testbit m 5;
     c_busy := N.testbit m 6; w_dout := r0 mod 256; w_caddr := r1 mod 256; w_cwrite := r2 mod 256;
     c_cur4 := r3 mod 256; c_cur10 := r3 / 256 |}.
Definition cw_wf (s : cw_state) : Prop :=
  w_dout s < 256 /\ w_caddr s < 64 /\ w_cwrite s < 256 /\ c_cur4 s < 256.

(* ============================== monitors at the pins of UTMITranslator ============================ *)
(* Port layout of the translator target of props/C24.py:
     inputs : data_i[8] 0..7, nxt 8, dir 9, tx_data[8] 10..17, tx_valid 18, op_mode[2] 19..20, xcvr_select[2] 21..22,
              term_select 23, suspend 24, id_pullup 25, dp_pulldown 26, dm_pulldown 27, chrg_vbus 28, dischrg_vbus 29,
              use_external_vbus_indicator 30
     outputs: data_o[8] 0..7, oe 8, stp 9, tx_ready 10, register window busy 11, transmit translator busy 12,
              transmit translator out_req 13, control translator busy 14, translator busy 15                     *)
Record kcyc := { k_dir : bool; k_nxt : bool; k_bus : N; k_stp : bool; k_f : N; k_g : N; k_txv : bool; k_rdy : bool;
                 k_wbusy : bool; k_ttbusy : bool; k_oreq : bool }.
Definition ut_view (io : N * N) : kcyc :=
  let (i, o) := io in
  {| k_dir := N.testbit i 9; k_nxt := N.testbit i 8; k_bus := bits o 0 8; k_stp := N.testbit o 9;
     k_f := bits i 21 2 + 4 * bits i 23 1 + 8 * bits i 19 2 + 64 * (1 - bits i 24 1);
     k_g := bits i 25 1 + 2 * bits i 26 1 + 4 * bits i 27 1 + 8 * bits i 29 1 + 16 * bits i 28 1 + 128 * bits i 30 1;
     k_txv := N.testbit i 18; k_rdy := N.testbit o 10;
     k_wbusy := N.testbit o 11; k_ttbusy := N.testbit o 12; k_oreq := N.testbit o 13 |}.

(* class of the byte the link drives, as the PHY sees it: 0 nothing of interest (or DIR high / turn-around cycle),
   1 transmit command, 2 register-write command *)
Definition k_class (pdir : bool) (c : kcyc) : N :=
  if k_dir c || pdir then 0 else if is_txcmd_b (k_bus c) then 1 else if is_regw_b (k_bus c) then 2 else 0.

(* packing of the PHY observer: ph 0..1, pdir 2, addr 3..8, data 9..16, r4 17..24, r10 25..32, other 33 *)
Definition qph_code (q : qphase) : N := match q with QIdle => 0 | QTx => 1 | QW1 => 2 | QW2 => 3 end.
Definition qph_of (n : N) : qphase := match n with 0 => QIdle | 1 => QTx | 2 => QW1 | _ => QW2 end.
Definition phy_enc (p : phy) : N :=
  qph_code (q_ph p) + 4 * b2n (q_pdir p) + 8 * (q_addr p mod 64) + 512 * (q_data p mod 256)
  + 131072 * (q_r4 p mod 256) + 33554432 * (q_r10 p mod 256) + 8589934592 * b2n (q_other p).
Definition phy_dec (m : N) : phy :=
  {| q_ph := qph_of (bits m 0 2); q_pdir := N.testbit m 2; q_addr := bits m 3 6; q_data := bits m 9 8;
     q_r4 := bits m 17 8; q_r10 := bits m 25 8; q_other := N.testbit m 33 |}.

(* PHY contract at the pins: outside a transaction the PHY raises NXT (DIR low) only in answer to a command that was
   on the bus in the previous cycle; it does not raise DIR between the acknowledgement of a transmit command and STP *)
Definition k_contract (p : phy) (pc : N) (c : kcyc) : bool :=
  match q_ph p with
  | QIdle => implb (negb (k_dir c) && k_nxt c) (negb (pc =? 0))
  | QTx => negb (k_dir c)
  | _ => true
  end.

(* ---- convergence / write-correctness monitor --------------------------------------------------- *)
(* state: PHY observer 0..33 | pc 34..35 | fq 36..43 | gq 44..51 | pf 52..59 | pg 60..67 | pb 68 | ppb 69 | pav 70 |
          sr4 71..78 | sr10 79..86 | started 87 *)
Definition conv_init : N := phy_enc phy_init.
Definition conv_mon_view (view : N * N -> kcyc) (m i o : N) : option (N * bool) :=
  let c := view (i, o) in
  let p := phy_dec (bits m 0 34) in let pc := bits m 34 2 in
  let fq := bits m 36 8 in let gq := bits m 44 8 in let pf := bits m 52 8 in let pg := bits m 60 8 in
  let pb := N.testbit m 68 in let ppb := N.testbit m 69 in let pav := N.testbit m 70 in
  let sr4 := bits m 71 8 in let sr10 := bits m 79 8 in let started := N.testbit m 87 in
  if k_contract p pc c then
    let ok_commit :=
      match phy_commit p (k_dir c) (k_stp c) with
      | Some (a, d) => ((a =? FUNC_CTRL) && (d =? fq)) || ((a =? OTG_CTRL) && (d =? gq))
      | None => true
      end in
    (* the previous cycle was quiescent although a write could have started: registers must match the request *)
    let ok_conv := implb (negb ppb && negb pb && negb (k_wbusy c) && pav) ((sr4 =? pf) && (sr10 =? pg)) in
    let rise := k_wbusy c && negb pb in
    let p' := phy_step p (k_dir c) (k_nxt c) (k_bus c) (k_stp c) in
    let avail := negb (k_txv c) && negb (k_ttbusy c) && started in
    Some (phy_enc p' + N.shiftl (k_class (q_pdir p) c) 34
          + N.shiftl (if rise then pf else fq) 36 + N.shiftl (if rise then pg else gq) 44
          + N.shiftl (k_f c) 52 + N.shiftl (k_g c) 60 + N.shiftl (b2n (k_wbusy c)) 68 + N.shiftl (b2n pb) 69
          + N.shiftl (b2n avail) 70 + N.shiftl (q_r4 p) 71 + N.shiftl (q_r10 p) 79 + N.shiftl 1 87,
          ok_commit && negb (q_other p') && ok_conv)
  else None.
Definition conv_mon := conv_mon_view ut_view.

(* the same monitor on the stand-alone control translator + window (bus_idle is an input there) *)
Definition cw_view (io : N * N) : kcyc :=
  let (i, o) := io in
  {| k_dir := ki_dir i; k_nxt := ki_nxt i; k_bus := bits o 0 8; k_stp := N.testbit o 9; k_f := ki_func i; k_g := ki_otg i;
     k_txv := negb (ki_idle i); k_rdy := false; k_wbusy := N.testbit o 10; k_ttbusy := false; k_oreq := false |}.
Definition cw_conv_mon := conv_mon_view cw_view.

(* ---- arbitration: safety ------------------------------------------------------------------------ *)
(* the register window is never active while the transmitter claims the bus or is inside a packet.
   Assumes the UTMI rule that a transmission, once its command could be offered, is not abandoned:
   out_req & ~busy (waiting for NXT) implies tx_valid. *)
Definition arb_mon (m i o : N) : option (N * bool) :=
  let c := ut_view (i, o) in
  if implb (k_oreq c && negb (k_ttbusy c)) (k_txv c) then
    Some (0, negb (k_wbusy c && (k_oreq c || k_ttbusy c)))
  else None.

(* ---- arbitration: progress under a prompt PHY ---------------------------------------------------- *)
(* Environment: DIR stays low; the PHY answers every command one cycle after it appeared, takes register data in the
   next cycle and transmit data in every cycle; UTMI packets carry at most 2 bytes, are not abandoned, and are
   separated by at least 2 cycles.  Then (K1) a pending transmission has its first byte accepted within K1 cycles,
   and (K2) after K2 cycles without a control change and without transmit requests the translator is quiescent and
   the PHY registers equal the requested settings.
   state: PHY observer 0..33 | pc 34..35 | pf 36..43 | pg 44..51 | txwait 52..57 | quiet 58..63 | nbytes 64..65 |
          gap 66..67 | ptxv 68 | started 69 *)
Definition prog_init : N := phy_enc phy_init + N.shiftl 3 66.
Definition prog_mon (K1 K2 : N) (m i o : N) : option (N * bool) :=
  let c := ut_view (i, o) in
  let p := phy_dec (bits m 0 34) in let pc := bits m 34 2 in
  let pf := bits m 36 8 in let pg := bits m 44 8 in
  let txwait := bits m 52 6 in let quiet := bits m 58 6 in let nbytes := bits m 64 2 in let gap := bits m 66 2 in
  let ptxv := N.testbit m 68 in let started := N.testbit m 69 in
  let exp_nxt := match q_ph p with QIdle => negb (pc =? 0) | QTx => true | QW1 => true | QW2 => false end in
  let utmi_ok :=
    (* no new transmission during the gap; none abandoned; at most 2 bytes *)
    implb (k_txv c && negb ptxv) (2 <=? gap) && implb (negb (k_txv c) && ptxv) (negb (nbytes =? 0)) &&
    implb (k_txv c) (nbytes <? 2) in
  if negb (k_dir c) && eqb (k_nxt c) exp_nxt && utmi_ok then
    let acc := k_txv c && k_rdy c in
    let nbytes' := if k_txv c then (if acc then nbytes + 1 else nbytes) else 0 in
    let txwait' := if k_txv c && (nbytes =? 0) && negb acc then txwait + 1 else 0 in
    let same := (k_f c =? pf) && (k_g c =? pg) && started in
    let quiet' := if negb (k_txv c) && same then N.min (quiet + 1) K2 else 0 in
    let gap' := if k_txv c then 0 else N.min (gap + 1) 3 in
    let p' := phy_step p false (k_nxt c) (k_bus c) (k_stp c) in
    let ok := (txwait' <=? K1) &&
              implb ((K2 <=? quiet) && same) (negb (k_wbusy c) && (q_r4 p =? k_f c) && (q_r10 p =? k_g c)) in
    Some (phy_enc p' + N.shiftl (k_class (q_pdir p) c) 34 + N.shiftl (k_f c) 36 + N.shiftl (k_g c) 44
          + N.shiftl txwait' 52 + N.shiftl quiet' 58 + N.shiftl nbytes' 64 + N.shiftl gap' 66
          + N.shiftl (b2n (k_txv c)) 68 + N.shiftl 1 69, ok)
  else None.
