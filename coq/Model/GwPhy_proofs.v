(* C25 -- theorems about the gateware PHY models (coq/Model/GwPhy.v): this file only collects the proof files.
     GwPhyCodec_proofs   the line code: unstuff/stuff, NRZI, unframe (frame bytes) = bytes, violations
     GwPhyTxU_proofs     usb-domain half of the transmitter in closed loop with a UTMI driver
     GwPhyTxIo_proofs    usb_io half + the two-clock transmit machine: tx_session_line
     GwPhyRxB_proofs     symbol-level receive machine: rxb_frame, rxb_violation
     GwPhyRxC_proofs     cycle-level receive front end on an ideally sampled line = symbol-level machine *)
From LunaModel Require Export GwPhyCodec GwPhyCodec_proofs GwPhy GwPhyTxU_proofs GwPhyTxIo_proofs GwPhyRxB_proofs GwPhyRxC_proofs.
