(* C25 -- theorems about the gateware PHY models (coq/Model/GwPhy.v). *)
From Coq Require Import NArith List Bool Lia.
Import ListNotations.
From LunaLib Require Import Netlist Machine.
From LunaModel Require Import GwPhyCodec GwPhyCodec_proofs GwPhy.
Open Scope N_scope.
