(* C16 -- luna/gateware/usb/usb2/endpoints/isochronous_stream_out.py: USBIsochronousStreamOutEndpoint,
   parametric in max_packet_size (mps), the buffer size (depth) and the endpoint number.

   Reading guide
     1. io_in / io_out               one record per clock cycle of the "usb" domain
     2. is_state / is_next / is_outf the SPECIFICATION: a packet-level machine.  It collects the bytes of the
                                     packet being received in a list, decides ONCE per packet whether the packet is
                                     admitted (is there room for a maximum-size packet?), and when the packet has
                                     ended CRC-valid, addressed to the endpoint and admitted, appends its framed
                                     payload -- the whole of it, in one step -- to the output queue.  Nothing else
                                     ever enters the queue; the output stream shows the head of the queue.
     3. is_env                       the environment assumption (what an EndpointInterface guarantees)
     4. is_delivered / is_accepted   stream-level reading of a run of the specification (for the corollaries)
     5. io_state / io_next / io_outf the code-shaped MODEL: boundary-detector model (C28) + glue + FIFO model (C18)
     6. packing                      for the lock-step tie against the regenerated netlist

   DEFECT in the tree as found (findings/C16-truncated-packet.json/.diff): the gateware re-evaluates
   `sufficient_space` (space_available >= max_packet_size) for every byte; as soon as the packet's own first byte
   is in the buffer the test fails if exactly max_packet_size entries were free, the rest of the packet is
   refused, and the one-byte stump is committed.  The model below is the property-satisfying behaviour: the
   decision is taken when the packet's first byte reaches the buffer and latched for the rest of the packet
   (register m_adm; candidate patch findings/C16-truncated-packet.diff). *)
From Coq Require Import NArith List Bool Arith.
Import ListNotations.
From LunaLib Require Import Netlist Machine PackN.
From LunaModel Require Import BoundaryDet TxFifo C16_OutTrack.
Open Scope nat_scope.

(* ------------------------------------------------------------------------------------------ *)
(* 1. Interface                                                                                *)
Record io_in := {
  x_tgt : bool;       (* tokenizer.endpoint == endpoint_number  &  tokenizer.is_out *)
  x_rdy : bool;       (* stream.ready *)
  x_rx  : rx_in       (* interface.rx.valid / next / payload, rx_complete, rx_invalid *)
}.

Record io_out := { y_valid : bool; y_first : bool; y_last : bool; y_data : N }.

Definition io_zero : io_out := {| y_valid := false; y_first := false; y_last := false; y_data := 0%N |}.
(* payload, first and last mean something only while valid is high *)
Definition io_norm (o : io_out) : io_out := if y_valid o then o else io_zero.

Section IsoOut.
  Variable mps : nat.      (* max_packet_size *)
  Variable depth : nat.    (* buffer_size *)

  (* ---------------------------------------------------------------------------------------- *)
  (* 2. Specification                                                                          *)
  Record is_state := {
    s_ph   : phase;        (* packet tracker (C16_OutTrack.v): bytes of the open packet, its strobes, timing *)
    s_tgt  : bool;         (* the open packet is addressed to this endpoint (sampled at its first byte) *)
    s_adm  : bool;         (* the open packet has been admitted *)
    s_q    : list entry;   (* accepted payload not yet delivered *)
    s_tent : bool          (* an entry was delivered in the previous cycle; its slot is released one cycle later *)
  }.

  Definition is_init : is_state :=
    {| s_ph := PIdle; s_tgt := false; s_adm := false; s_q := []; s_tent := false |}.

  (* free buffer slots as the endpoint sees them while no byte of the open packet is stored yet *)
  Definition is_free (s : is_state) : nat := depth - length (s_q s) - (if s_tent s then 1 else 0).

  Definition is_outf (s : is_state) : io_out :=
    match s_q s with
    | [] => io_zero
    | e :: _ => {| y_valid := true; y_first := e_first e; y_last := e_last e; y_data := e_data e |}
    end.

  Definition is_next (s : is_state) (i : io_in) : is_state :=
    let ph := s_ph s in
    (* output side: the head is taken when the consumer is ready *)
    let pop := x_rdy i && negb (match s_q s with [] => true | _ => false end) in
    let q1 := if pop then tl (s_q s) else s_q s in
    (* admission: decided in the cycle in which the packet's first byte is forwarded to the buffer *)
    let adm := match fwd ph with Some (_, true, _) => mps <=? is_free s | _ => s_adm s end in
    (* outcome: a CRC-valid, addressed, admitted packet is appended as a whole *)
    let q2 := match ph with
              | PReport bs c v => if s_tgt s && c && negb v && adm then q1 ++ frame true true bs else q1
              | _ => q1
              end in
    {| s_ph := trk_next ph (x_rx i);
       s_tgt := match ph with PIdle | PReport _ _ _ => x_tgt i | _ => s_tgt s end;
       s_adm := adm; s_q := q2; s_tent := pop |}.

  Fixpoint is_run (s : is_state) (ins : list io_in) : list io_out :=
    match ins with
    | [] => []
    | i :: t => is_outf s :: is_run (is_next s i) t
    end.

  (* ---------------------------------------------------------------------------------------- *)
  (* 3. Environment assumption, cycle by cycle (see props/C16.py ASSUMPTIONS for the justification):
        E0  payload bytes are bytes;
        E1  the addressing (tokenizer fields) does not change while a packet is being received and
            until its outcome has been acted upon;
        E2  no byte is presented in the cycle right after a packet ended (C28's assumption);
        E3  a packet addressed to the endpoint ends with exactly one of rx_complete / rx_invalid;
        E4  a packet addressed to the endpoint has at most max_packet_size bytes.                *)
  Definition rx_env (tgt : bool) (ph : phase) (xt : bool) (r : rx_in) : bool :=
    (r_pay r <? 256)%N &&
    match ph with
    | PIdle => true
    | POpen bs c v _ =>
        eqb xt tgt &&
        (if tgt then
           if negb (r_valid r) then xorb (c || r_cin r) (v || r_iin r)
           else if r_next r then length bs <? mps else true
         else true)
    | PEnded _ _ _ => eqb xt tgt && negb (r_valid r && r_next r)
    | PReport _ c v => if c || v then eqb xt tgt else true
    end.

  Definition is_env (s : is_state) (i : io_in) : bool := rx_env (s_tgt s) (s_ph s) (x_tgt i) (x_rx i).

  Fixpoint is_env_ok (s : is_state) (ins : list io_in) : bool :=
    match ins with
    | [] => true
    | i :: t => is_env s i && is_env_ok (is_next s i) t
    end.

  (* ---------------------------------------------------------------------------------------- *)
  (* 4. Stream-level reading of the specification                                               *)
  (* entries handed to the consumer (valid & ready), in order *)
  Fixpoint is_delivered (s : is_state) (ins : list io_in) : list entry :=
    match ins with
    | [] => []
    | i :: t => (match s_q s with e :: _ => if x_rdy i then [e] else [] | [] => [] end)
                ++ is_delivered (is_next s i) t
    end.

  (* payloads of the packets accepted (appended to the queue), in order *)
  Definition is_accept_now (s : is_state) : list (list N) :=
    match s_ph s with
    | PReport bs c v =>
        let adm := s_adm s in
        if s_tgt s && c && negb v && adm then [bs] else []
    | _ => []
    end.
  Fixpoint is_accepted (s : is_state) (ins : list io_in) : list (list N) :=
    match ins with
    | [] => []
    | i :: t => is_accept_now s ++ is_accepted (is_next s i) t
    end.

  (* payloads of ALL packets that ended CRC-valid and addressed to the endpoint, in order *)
  Definition is_good_now (s : is_state) : list (list N) :=
    match s_ph s with
    | PReport bs c v => if s_tgt s && c && negb v then [bs] else []
    | _ => []
    end.
  Fixpoint is_good (s : is_state) (ins : list io_in) : list (list N) :=
    match ins with
    | [] => []
    | i :: t => is_good_now s ++ is_good (is_next s i) t
    end.

  Fixpoint is_run_state (s : is_state) (ins : list io_in) : is_state :=
    match ins with
    | [] => s
    | i :: t => is_run_state (is_next s i) t
    end.

  (* ---------------------------------------------------------------------------------------- *)
  (* 5. Model                                                                                  *)
  Record io_state := {
    m_bd  : bd_state;      (* USBOutStreamBoundaryDetector (Model/BoundaryDet.v) *)
    m_ff  : tf_state;      (* TransactionalizedFIFO(width=10, depth=buffer_size) (Model/TxFifo.v) *)
    m_adm : bool;          (* the latched admission decision (the repair; see header) *)
    (* ghost registers, read only by the environment predicate io_env: *)
    g_tgt : bool;          (* x_tgt at the first byte of the packet *)
    g_cnt : nat            (* bytes of the packet so far, saturating at mps + 1 *)
  }.

  Definition io_init : io_state :=
    {| m_bd := bd_init; m_ff := tf_init depth; m_adm := false; g_tgt := false; g_cnt := 0 |}.

  Definition io_outf (m : io_state) : io_out :=
    let f := tf_outputs depth (m_ff m) in
    let rd := fo_read_data f in
    {| y_valid := negb (fo_empty f); y_first := N.testbit rd 9; y_last := N.testbit rd 8;
       y_data := (rd mod 256)%N |}.

  (* the FIFO's inputs in a cycle *)
  Definition io_fifo_in (m : io_state) (i : io_in) : tf_in :=
    let o := out (m_bd m) in
    let sufficient_space := mps <=? fo_space (tf_outputs depth (m_ff m)) in
    match bd_fwd (m_bd m) with               (* rx.next & rx.valid: a byte is presented *)
    | Some (p, fi, la) =>
        let receiving := if fi then sufficient_space else m_adm m in
        {| fi_read_en := x_rdy i; fi_read_commit := true; fi_read_discard := false;
           fi_write_en := x_tgt i && receiving;
           fi_write_commit := x_tgt i && o_complete o; fi_write_discard := x_tgt i && o_invalid o;
           fi_write_data := enc_entry {| e_data := p; e_first := fi; e_last := la |} |}
    | None =>
        {| fi_read_en := x_rdy i; fi_read_commit := true; fi_read_discard := false;
           fi_write_en := false;
           fi_write_commit := x_tgt i && o_complete o; fi_write_discard := x_tgt i && o_invalid o;
           fi_write_data := 0%N |}
    end.

  Definition io_next (m : io_state) (i : io_in) : io_state :=
    let r := x_rx i in
    let sufficient_space := mps <=? fo_space (tf_outputs depth (m_ff m)) in
    {| m_bd := bd_next (m_bd m) (rx_bd r);
       m_ff := tf_next_state depth (m_ff m) (io_fifo_in m i);
       m_adm := match bd_fwd (m_bd m) with Some (_, true, _) => sufficient_space | _ => m_adm m end;
       g_tgt := match fsm (m_bd m) with WAIT_FOR_FIRST_BYTE => x_tgt i | _ => g_tgt m end;
       g_cnt := match fsm (m_bd m) with
                | WAIT_FOR_FIRST_BYTE => 1
                | RECEIVE_AND_TRANSMIT => if r_valid r && r_next r then Nat.min (S (g_cnt m)) (S mps) else g_cnt m
                | OUTPUT_STROBES => g_cnt m
                end |}.

  Fixpoint io_run (m : io_state) (ins : list io_in) : list io_out :=
    match ins with
    | [] => []
    | i :: t => io_outf m :: io_run (io_next m i) t
    end.

  (* the environment assumption phrased on the model's registers (equal to is_env on related states) *)
  Definition io_env (m : io_state) (i : io_in) : bool :=
    let r := x_rx i in
    let b := m_bd m in
    (r_pay r <? 256)%N &&
    match fsm b with
    | WAIT_FOR_FIRST_BYTE =>
        if o_complete (out b) || o_invalid (out b) then eqb (x_tgt i) (g_tgt m) else true
    | RECEIVE_AND_TRANSMIT =>
        eqb (x_tgt i) (g_tgt m) &&
        (if g_tgt m then
           if negb (r_valid r) then xorb (buf_c b || r_cin r) (buf_i b || r_iin r)
           else if r_next r then g_cnt m <? mps else true
         else true)
    | OUTPUT_STROBES => eqb (x_tgt i) (g_tgt m) && negb (r_valid r && r_next r)
    end.
End IsoOut.

(* ------------------------------------------------------------------------------------------ *)
(* 6. Packed form.  Input word (LSB first): is_out, rx_valid, rx_next, rx_complete, rx_invalid, ready,
      endpoint[4], rx_payload[8].  Output word: valid, first, last, data[8].                   *)
Open Scope N_scope.

Definition io_in_of (ep : N) (w : N) : io_in :=
  {| x_tgt := (bits w 6 4 =? ep) && N.testbit w 0;
     x_rdy := N.testbit w 5;
     x_rx := {| r_valid := N.testbit w 1; r_next := N.testbit w 2; r_cin := N.testbit w 3;
                r_iin := N.testbit w 4; r_pay := bits w 10 8 |} |}.

Definition io_out_pack (o : io_out) : N :=
  b2n (y_valid o) + 2 * b2n (y_first o) + 4 * b2n (y_last o) + 8 * y_data o.

Definition io_out_of (w : N) : io_out :=
  {| y_valid := N.testbit w 0; y_first := N.testbit w 1; y_last := N.testbit w 2; y_data := bits w 3 8 |}.

(* the lock-step targets expose the stream fields masked by stream.valid (payload, first and last are don't-care
   while valid is low), so the packed model does the same *)
Definition io_mstep (mps depth : nat) (ep : N) (m : io_state) (w : N) : io_state * N :=
  (io_next mps depth m (io_in_of ep w), io_out_pack (io_norm (io_outf depth m))).

Definition io_menv (mps : nat) (ep : N) (m : io_state) (w : N) : bool := io_env mps m (io_in_of ep w).

(* state packing: bit fields (adm, g_tgt, g_cnt, FIFO state, boundary-detector state on top) *)
Definition cnt_bits (mps : nat) : N := N.size (N.of_nat (S mps)).

Definition io_enc (mps depth : nat) (m : io_state) : N :=
  PackN.pk (2 ^ 1) (b2n (m_adm m)) (PackN.pk (2 ^ 1) (b2n (g_tgt m)) (PackN.pk (2 ^ cnt_bits mps) (N.of_nat (g_cnt m))
    (PackN.pk (2 ^ tf_bits2 depth) (tf_enc2 depth (m_ff m)) (bd_enc (m_bd m))))).

Definition io_dec (mps depth : nat) (x : N) : io_state :=
  let a := N.land x (N.ones 1) in let x := N.shiftr x 1 in
  let g := N.land x (N.ones 1) in let x := N.shiftr x 1 in
  let c := N.land x (N.ones (cnt_bits mps)) in let x := N.shiftr x (cnt_bits mps) in
  let f := N.land x (N.ones (tf_bits2 depth)) in let x := N.shiftr x (tf_bits2 depth) in
  {| m_bd := bd_dec2 x; m_ff := tf_dec2 depth f; m_adm := nb a; g_tgt := nb g; g_cnt := N.to_nat c |}.

(* output words compared modulo don't-care fields *)
Definition io_normN (w : N) : N := io_out_pack (io_norm (io_out_of w)).
