(* C25 -- tie support for the gateware PHY models: N-level step functions of the individual LUNA classes (packed like the
   targets' ports), packing of the model states for the lock-step obligations, environment predicates and the
   specification-level runtime monitors.  Definitions only. *)
From Coq Require Import NArith List Bool.
Import ListNotations.
From LunaLib Require Import Netlist PackN.
From LunaModel Require Import GwPhyCodec GwPhy.
Open Scope N_scope.

Definition n2b (x : N) : bool := negb (N.eqb x 0).
Definition bN (b : bool) : N := if b then 1 else 0.

(* ================================================================================================ *)
(* 1. GatewarePHY transmit side (target phytx), with the previous input word as ghost state          *)
(* ================================================================================================ *)
Definition txfsm_code (f : txfsm) : N := match f with TxIdle => 0 | TxSync => 1 | TxData => 2 | TxLast => 3 end.
Definition txfsm_of (n : N) : txfsm := match n with 0 => TxIdle | 1 => TxSync | 2 => TxData | _ => TxLast end.
Definition nz_code (q : nzst) : N :=
  match q with NzIdle => 0 | NzDJ => 1 | NzDK => 2 | NzSE0A => 3 | NzSE0B => 4 | NzEOPJ => 5 end.
Definition nz_of (n : N) : nzst :=
  match n with 0 => NzIdle | 1 => NzDJ | 2 => NzDK | 3 => NzSE0A | 4 => NzSE0B | _ => NzEOPJ end.

Definition txu_enc (u : txu) (rest : N) : N :=
  pk 4 (txfsm_code (u_fsm u)) (pk 256 (u_sp u) (pk 4 (u_gray u) (pk 256 (sh_reg (u_sh u)) (pk 256 (sh_pos (u_sh u))
  (pk 2 (bN (sh_get (u_sh u))) (pk 8 (u_bs u) rest)))))).
Definition txu_dec (m : N) : txu * N :=
  let f := m mod 4 in let m := m / 4 in
  let sp := m mod 256 in let m := m / 256 in
  let gr := m mod 4 in let m := m / 4 in
  let rg := m mod 256 in let m := m / 256 in
  let ps := m mod 256 in let m := m / 256 in
  let gt := m mod 2 in let m := m / 2 in
  let bs := m mod 8 in let m := m / 8 in
  ({| u_fsm := txfsm_of f; u_sp := sp; u_gray := gr; u_sh := {| sh_reg := rg; sh_pos := ps; sh_get := n2b gt |}; u_bs := bs |}, m).

Definition txio_enc (c : txio) (rest : N) : N :=
  pk 2 (bN (c_d0 c)) (pk 2 (bN (c_d1 c)) (pk 2 (bN (c_d2 c)) (pk 2 (bN (c_e0 c)) (pk 2 (bN (c_e1 c)) (pk 2 (bN (c_e2 c))
  (pk 6 (nz_code (c_nz c)) (pk 2 (bN (c_p c)) (pk 2 (bN (c_n c)) (pk 2 (bN (c_oe c)) (pk 4 (c_ctr c) rest)))))))))).
Definition txio_dec (m : N) : txio * N :=
  let d0 := m mod 2 in let m := m / 2 in
  let d1 := m mod 2 in let m := m / 2 in
  let d2 := m mod 2 in let m := m / 2 in
  let e0 := m mod 2 in let m := m / 2 in
  let e1 := m mod 2 in let m := m / 2 in
  let e2 := m mod 2 in let m := m / 2 in
  let nz := m mod 6 in let m := m / 6 in
  let p := m mod 2 in let m := m / 2 in
  let n := m mod 2 in let m := m / 2 in
  let oe := m mod 2 in let m := m / 2 in
  let ct := m mod 4 in let m := m / 4 in
  ({| c_d0 := n2b d0; c_d1 := n2b d1; c_d2 := n2b d2; c_e0 := n2b e0; c_e1 := n2b e1; c_e2 := n2b e2;
      c_nz := nz_of nz; c_p := n2b p; c_n := n2b n; c_oe := n2b oe; c_ctr := ct |}, m).

(* model state of the obligation: the transmit machine plus the UTMI inputs (11 bits) of the previous step *)
Definition txg := (txs * N)%type.
Definition txg_init : txg := (txs_init, 2048).      (* 2048 = no previous step *)
Definition txg_step (W : N) (s : txg) (i : N) : txg * N :=
  let (s', o) := tx_step W (fst s) i in ((s', bits i 0 11), o).
Definition txg_enc (s : txg) : N := txu_enc (x_u (fst s)) (txio_enc (x_io (fst s)) (snd s)).
Definition txg_dec (m : N) : txg :=
  let (u, m1) := txu_dec m in let (c, m2) := txio_dec m1 in ({| x_u := u; x_io := c |}, m2).
Definition txu_wf (u : txu) : Prop :=
  u_sp u < 256 /\ u_gray u < 4 /\ sh_reg (u_sh u) < 256 /\ sh_pos (u_sh u) < 256 /\ u_bs u <= 6.
Definition txg_wf (s : txg) : Prop := txu_wf (x_u (fst s)) /\ c_ctr (x_io (fst s)) < 4.

(* environment of the two-clock machine, as a state-dependent input alphabet (for tie_dep.rlock_dep): usb_io ticks in
   every step; usb ticks exactly in the steps in which the strobe counter is 0 (steps 0, 4, 8, ...); the UTMI inputs
   (usb-domain signals) change only right after a usb edge: after a usb edge (strobe counter 1) or in the very first step
   any word of the alphabet with the right ticks, otherwise the previous UTMI inputs again *)
Definition txg_alpha (datas modes : list N) (s : txg) : list N :=
  let ctr := c_ctr (x_io (fst s)) in
  let ticks := 2048 + 4096 * bN (N.eqb ctr 0) in
  if N.eqb ctr 1 || N.eqb (snd s) 2048
  then flat_map (fun d => flat_map (fun v => map (fun m => d + 256 * v + 512 * m + ticks) modes) [0; 1]) datas
  else [snd s + ticks].

(* ================================================================================================ *)
(* 2. The individual LUNA classes as N-level machines (inputs/outputs packed like the targets' ports) *)
(* ================================================================================================ *)

(* ---- RxClockDataRecovery: in usbp[0] usbn[1]; out valid[0] dj[1] dk[2] se0[3] se1[4] ---- *)
Definition cdr_code (q : cdrst) : N := match q with CdT => 0 | CdJ => 1 | CdK => 2 | Cd0 => 3 | Cd1 => 4 end.
Definition cdr_of_code (n : N) : cdrst := match n with 0 => CdT | 1 => CdJ | 2 => CdK | 3 => Cd0 | _ => Cd1 end.
Definition cdr_mstep (s : cdr) (i : N) : cdr * N :=
  (cdr_next s (nb (bits i 0 1)) (nb (bits i 1 1)),
   bN (k_valid s) + 2 * bN (k_dj s) + 4 * bN (k_dk s) + 8 * bN (k_se0 s) + 16 * bN (k_se1 s)).
Definition cdr_enc (s : cdr) : N :=
  pk 2 (bN (k_p0 s)) (pk 2 (bN (k_p1 s)) (pk 2 (bN (k_n0 s)) (pk 2 (bN (k_n1 s)) (pk 5 (cdr_code (k_fsm s))
  (pk 4 (k_phase s) (pk 2 (bN (k_valid s)) (pk 2 (bN (k_se0 s)) (pk 2 (bN (k_se1 s)) (pk 2 (bN (k_dj s)) (bN (k_dk s))))))))))).
Definition cdr_dec (m : N) : cdr :=
  let p0 := m mod 2 in let m := m / 2 in
  let p1 := m mod 2 in let m := m / 2 in
  let n0 := m mod 2 in let m := m / 2 in
  let n1 := m mod 2 in let m := m / 2 in
  let f := m mod 5 in let m := m / 5 in
  let ph := m mod 4 in let m := m / 4 in
  let v := m mod 2 in let m := m / 2 in
  let s0 := m mod 2 in let m := m / 2 in
  let s1 := m mod 2 in let m := m / 2 in
  let dj := m mod 2 in let m := m / 2 in
  {| k_p0 := n2b p0; k_p1 := n2b p1; k_n0 := n2b n0; k_n1 := n2b n1; k_fsm := cdr_of_code f; k_phase := ph;
     k_valid := n2b v; k_se0 := n2b s0; k_se1 := n2b s1; k_dj := n2b dj; k_dk := n2b m |}.
Definition cdr_wf (s : cdr) : Prop := k_phase s < 4.

(* ---- RxNRZIDecoder: in i_valid[0] i_dj[1] i_dk[2]; out o_valid[0] o_data[1] o_se0[2] ---- *)
Definition rxnz_mstep (s : rxnz) (i : N) : rxnz * N :=
  (rxnz_next s (nb (bits i 0 1)) (nb (bits i 1 1)) (nb (bits i 2 1)),
   bN (z_valid s) + 2 * bN (z_data s) + 4 * bN (z_se0 s)).
Definition rxnz_enc (s : rxnz) : N := pk 2 (bN (z_last s)) (pk 2 (bN (z_data s)) (pk 2 (bN (z_se0 s)) (bN (z_valid s)))).
Definition rxnz_dec (m : N) : rxnz :=
  {| z_last := n2b (m mod 2); z_data := n2b ((m / 2) mod 2); z_se0 := n2b ((m / 4) mod 2); z_valid := n2b (m / 8) |}.

(* ---- RxPacketDetect: in i_valid[0] i_data[1] i_se0[2]; out o_pkt_start[0] o_pkt_active[1] o_pkt_end[2]; state = N ---- *)
Definition det_mstep (q : N) (i : N) : N * N :=
  let v := nb (bits i 0 1) in let d := nb (bits i 1 1) in let z := nb (bits i 2 1) in
  (det_next q v d z, bN (det_start q v d z) + 2 * bN (det_active q v z) + 4 * bN (det_end q v z)).

(* ---- RxBitstuffRemover: in i_valid[0] i_data[1]; out o_data[0] o_error[1] o_stall[2] ---- *)
Definition rxbs_mstep (s : rxbs) (i : N) : rxbs * N :=
  (rxbs_next s (nb (bits i 0 1)) (nb (bits i 1 1)), bN (b_data s) + 2 * bN (b_error s) + 4 * bN (b_stall s)).
Definition rxbs_enc (s : rxbs) : N := pk 2 (bN (b_data s)) (pk 2 (bN (b_stall s)) (pk 2 (bN (b_error s)) (b_cnt s))).
Definition rxbs_dec (m : N) : rxbs :=
  {| b_data := n2b (m mod 2); b_stall := n2b ((m / 2) mod 2); b_error := n2b ((m / 4) mod 2); b_cnt := m / 8 |}.

(* ---- RxShifter(width W): in reset[0] i_valid[1] i_data[2]; out o_data[0..W-1] o_put[W] ---- *)
Definition rxsh_mstep (W : N) (s : rxsh) (i : N) : rxsh * N :=
  (rxsh_next W s (nb (bits i 0 1)) (nb (bits i 1 1)) (nb (bits i 2 1)), r_reg s mod 2 ^ W + 2 ^ W * bN (r_put s)).
Definition rxsh_enc (s : rxsh) : N := pk 2 (bN (r_put s)) (r_reg s).
Definition rxsh_dec (m : N) : rxsh := {| r_put := n2b (m mod 2); r_reg := m / 2 |}.

(* ---- TxShifter(width W): in i_data[0..W-1] i_enable[W] i_clear[W+1]; out o_get[0] o_empty[1] o_data[2] ---- *)
Definition txsh_mstep (W : N) (s : txsh) (i : N) : txsh * N :=
  (txsh_next W s (bits i 0 W) (nb (bits i W 1)) (nb (bits i (W + 1) 1)),
   bN (sh_get s) + 2 * bN (txsh_empty s) + 4 * bN (txsh_data s)).
Definition txsh_enc (W : N) (s : txsh) : N := pk 2 (bN (sh_get s)) (pk (2 ^ W) (sh_reg s) (sh_pos s)).
Definition txsh_dec (W : N) (m : N) : txsh :=
  {| sh_get := n2b (m mod 2); sh_reg := (m / 2) mod 2 ^ W; sh_pos := (m / 2) / 2 ^ W |}.
Definition txsh_wf (W : N) (s : txsh) : Prop := sh_reg s < 2 ^ W.

(* ---- TxBitstuffer: in i_data[0]; out o_stall[0] o_will_stall[1] o_data[2] (o_data is a register) ---- *)
Definition txbs_mstep (s : N * bool) (i : N) : (N * bool) * N :=
  let d := nb (bits i 0 1) in
  ((txbs_next (fst s) d, if txbs_stall (fst s) then false else d),
   bN (txbs_stall (fst s)) + 2 * bN (txbs_will_stall (fst s) d) + 4 * bN (snd s)).
Definition txbs_enc (s : N * bool) : N := pk 2 (bN (snd s)) (fst s).
Definition txbs_dec (m : N) : N * bool := (m / 2, n2b (m mod 2)).

(* ---- TxNRZIEncoder: in i_valid[0] i_oe[1] i_data[2]; out o_usbp[0] o_usbn[1] o_oe[2] (registers) ---- *)
Definition txnz_mstep (s : nzst * (bool * bool * bool)) (i : N) : (nzst * (bool * bool * bool)) * N :=
  let '(p, n, oe) := snd s in
  ((nz_next (fst s) (nb (bits i 0 1)) (nb (bits i 1 1)) (nb (bits i 2 1)), nz_out (fst s)),
   bN p + 2 * bN n + 4 * bN oe).
Definition txnz_enc (s : nzst * (bool * bool * bool)) : N :=
  let '(p, n, oe) := snd s in pk 6 (nz_code (fst s)) (pk 2 (bN p) (pk 2 (bN n) (bN oe))).
Definition txnz_dec (m : N) : nzst * (bool * bool * bool) :=
  (nz_of (m mod 6), (n2b ((m / 6) mod 2), n2b ((m / 12) mod 2), n2b (m / 24))).

(* ================================================================================================ *)
(* 3. Static clauses and specification-level monitors                                               *)
(* ================================================================================================ *)

(* pull resistors (target phypulls): in term_select[0] dp_pulldown[1] dm_pulldown[2]; out pullup[0] pulldown[1] *)
Definition pulls_mon (m i o : N) : option (N * bool) :=
  let term := bits i 0 1 in let dpd := bits i 1 1 in let dmd := bits i 2 1 in
  Some (0, N.eqb (bits o 0 1) term && N.eqb (bits o 1 1) (N.lor dpd dmd)).

(* operating modes against UTMI (target phytx): 00 normal, 01 non-driving (never drives), 10 bit-stuffing and NRZI
   disabled (D+ = tx_data[0], D- = its complement, driven while tx_valid), 11 undefined in UTMI: must not drive *)
Definition opmode_mon (m i o : N) : option (N * bool) :=
  let data0 := bits i 0 1 in let valid := bits i 8 1 in let mode := bits i 9 2 in
  let dp := bits o 0 1 in let dn := bits o 1 1 in let oep := bits o 2 1 in let oen := bits o 3 1 in
  Some (0,
    N.eqb oep oen &&
    (if N.eqb mode 1 || N.eqb mode 3 then N.eqb oep 0
     else if N.eqb mode 2 then N.eqb oep valid && N.eqb dp data0 && N.eqb dn (1 - data0) && N.eqb (bits o 4 1) 0
     else true)).
