(* C25 -- code-shaped models of the gateware full-speed PHY (luna/gateware/interface/gateware_phy):
     transmitter.py  TxShifter, TxBitstuffer, TxNRZIEncoder, TxPipeline  +  phy.py (strobe counter, op-mode mux)
     receiver.py     RxClockDataRecovery, RxNRZIDecoder, RxPacketDetect, RxBitstuffRemover, RxShifter,
                     RxPipeline up to the write ports of its two clock-domain-crossing FIFOs
   Definitions only.  One step of the two-clock machines is one usb_io (48 MHz) cycle; the usb (12 MHz)
   registers move only in steps whose tick_usb input bit is set.

   The models are the PROPERTY-SATISFYING behaviour.  They differ from the tree under verification in exactly
   the places listed in findings/C25-*.diff:
     - op_mode 1 = non-driving, 2 = no bit-stuffing/NRZI (UTMI encodings);
     - the transmit bit stuffer is restarted with the shifter at the end of SYNC;
     - a receive bit-stuffing error inside a packet is held until the next packet starts.
   Faithfully modelled quirks that do not violate the property are commented where they occur. *)
From Coq Require Import NArith List Bool.
Import ListNotations.
From LunaLib Require Import Netlist.
From LunaModel Require Import GwPhyCodec.
Open Scope N_scope.

Definition nb (x : N) : bool := negb (N.eqb x 0).          (* 1-bit word -> bool *)
Definition bit0 (x : N) : bool := N.odd x.

(* ================================================================================================ *)
(* 1. Transmit path                                                                                 *)
(* ================================================================================================ *)

(* ---- 1.1 TxShifter(width W): usb domain ---- *)
Record txsh := { sh_reg : N; sh_pos : N; sh_get : bool }.
Definition txsh_init : txsh := {| sh_reg := 0; sh_pos := 1; sh_get := false |}.
Definition txsh_empty (s : txsh) : bool := bit0 (sh_pos s).
Definition txsh_data (s : txsh) : bool := bit0 (sh_reg s).
(* i_enable: shift / reload when empty;  i_clear (assigned last, wins): shifter := 0, pos := 1 *)
Definition txsh_next (W : N) (s : txsh) (data : N) (enable clear : bool) : txsh :=
  let e := txsh_empty s in
  let r1 := if enable then (if e then data mod 2 ^ W else sh_reg s / 2) else sh_reg s in
  let p1 := if enable then (if e then 2 ^ (W - 1) else sh_pos s / 2) else sh_pos s in
  {| sh_reg := if clear then 0 else r1;
     sh_pos := if clear then 1 else p1;
     sh_get := if enable then e else sh_get s |}.

(* ---- 1.2 TxBitstuffer: usb domain; state = number of consecutive ones seen (D0..D6) ---- *)
Definition txbs_stall (c : N) : bool := N.eqb c 6.
Definition txbs_will_stall (c : N) (d : bool) : bool := N.eqb c 5 && d.
Definition txbs_next (c : N) (d : bool) : N :=
  if N.eqb c 6 then 0 else if d then c + 1 else 0.

(* ---- 1.3 TxNRZIEncoder: usb_io domain ---- *)
Inductive nzst := NzIdle | NzDJ | NzDK | NzSE0A | NzSE0B | NzEOPJ.
(* (usbp, usbn, oe) driven combinationally by the state; registered once more on the way out *)
Definition nz_out (q : nzst) : bool * bool * bool :=
  match q with
  | NzIdle => (true, false, false)
  | NzDJ => (true, false, true)
  | NzDK => (false, true, true)
  | NzSE0A | NzSE0B => (false, false, true)
  | NzEOPJ => (true, false, true)
  end.
Definition nz_next (q : nzst) (valid oe data : bool) : nzst :=
  if valid then
    match q with
    | NzIdle => if oe then NzDK else NzIdle
    | NzDJ => if negb oe then NzSE0A else if data then NzDJ else NzDK
    | NzDK => if negb oe then NzSE0A else if data then NzDK else NzDJ
    | NzSE0A => NzSE0B
    | NzSE0B => NzEOPJ
    | NzEOPJ => NzIdle
    end
  else q.

(* ---- 1.4 TxPipeline, usb-domain half ---- *)
Inductive txfsm := TxIdle | TxSync | TxData | TxLast.
Record txu := { u_fsm : txfsm; u_sp : N (* sync_pulse, 8 bits *); u_gray : N (* state_gray, 2 bits *);
                u_sh : txsh; u_bs : N }.
Definition txu_init : txu := {| u_fsm := TxIdle; u_sp := 0; u_gray := 0; u_sh := txsh_init; u_bs := 0 |}.

Definition u_state_data (s : txu) : bool := N.eqb (u_gray s) 3.
Definition u_state_sync (s : txu) : bool := N.eqb (u_gray s) 1.
Definition u_stall (s : txu) : bool := txbs_stall (u_bs s).
Definition u_fit_oe (s : txu) : bool := u_state_data s || u_state_sync s.
Definition u_fit_dat (s : txu) : bool :=
  (u_state_data s && txsh_data (u_sh s) && negb (u_stall s)) || bit0 (u_sp s).
Definition u_ready (s : txu) (oe : bool) : bool :=
  u_state_data s && sh_get (u_sh s) && negb (u_stall s) && oe.

(* one usb clock edge; W = shifter width (8 in LUNA) *)
Definition txu_next (W : N) (s : txu) (data : N) (oe : bool) : txu :=
  let stall := u_stall s in
  let empty := txsh_empty (u_sh s) in
  let d := txsh_data (u_sh s) in
  let sp_reset := N.testbit (u_sp s) 1 in                 (* sp_reset_shifter = sync_pulse[1] *)
  let sh' := txsh_next W (u_sh s) data (negb stall) sp_reset in
  (* the stuffer restarts together with the shifter (findings/C25-tx-bitstuffer-reset.diff) *)
  let bs' := if sp_reset then 0 else txbs_next (u_bs s) d in
  match u_fsm s with
  | TxIdle =>
      if oe then {| u_fsm := TxSync; u_sp := 128; u_gray := 1; u_sh := sh'; u_bs := bs' |}
      else {| u_fsm := TxIdle; u_sp := u_sp s; u_gray := 0; u_sh := sh'; u_bs := bs' |}
  | TxSync =>
      if bit0 (u_sp s) then {| u_fsm := TxData; u_sp := u_sp s / 2; u_gray := 3; u_sh := sh'; u_bs := bs' |}
      else {| u_fsm := TxSync; u_sp := u_sp s / 2; u_gray := 1; u_sh := sh'; u_bs := bs' |}
  | TxData =>
      if negb oe && empty && negb stall then
        if txbs_will_stall (u_bs s) d
        then {| u_fsm := TxLast; u_sp := u_sp s; u_gray := u_gray s; u_sh := sh'; u_bs := bs' |}
        else {| u_fsm := TxIdle; u_sp := u_sp s; u_gray := 2; u_sh := sh'; u_bs := bs' |}
      else {| u_fsm := TxData; u_sp := u_sp s; u_gray := 3; u_sh := sh'; u_bs := bs' |}
  | TxLast => {| u_fsm := TxIdle; u_sp := u_sp s; u_gray := 2; u_sh := sh'; u_bs := bs' |}
  end.

(* ---- 1.5 usb_io half: two 3-stage synchronisers, strobe counter (phy.py), NRZI encoder + output registers ---- *)
Record txio := { c_d0 : bool; c_d1 : bool; c_d2 : bool;       (* fit_dat -> nrzi_dat *)
                 c_e0 : bool; c_e1 : bool; c_e2 : bool;       (* fit_oe  -> nrzi_oe  *)
                 c_nz : nzst; c_p : bool; c_n : bool; c_oe : bool;   (* o_usbp, o_usbn, o_oe *)
                 c_ctr : N }.
Definition txio_init : txio :=
  {| c_d0 := false; c_d1 := false; c_d2 := false; c_e0 := false; c_e1 := false; c_e2 := false;
     c_nz := NzIdle; c_p := false; c_n := false; c_oe := false; c_ctr := 0 |}.
Definition txio_next (s : txio) (fit_dat fit_oe : bool) : txio :=
  let strobe := N.eqb (c_ctr s) 0 in
  let '(p, n, oe) := nz_out (c_nz s) in
  {| c_d0 := fit_dat; c_d1 := c_d0 s; c_d2 := c_d1 s;
     c_e0 := fit_oe; c_e1 := c_e0 s; c_e2 := c_e1 s;
     c_nz := nz_next (c_nz s) strobe (c_e2 s) (c_d2 s);
     c_p := p; c_n := n; c_oe := oe;
     c_ctr := (c_ctr s + 1) mod 4 |}.

(* ---- 1.6 GatewarePHY transmit side.  Input word: tx_data[0..7] tx_valid[8] op_mode[9..10]
        tick_usb_io[11] tick_usb[12];  output word: dp_o dn_o dp_oe dn_oe tx_ready ---- *)
Record txs := { x_u : txu; x_io : txio }.
Definition txs_init : txs := {| x_u := txu_init; x_io := txio_init |}.

Definition tx_out (dp dn oe rdy : bool) : N :=
  b2n dp + 2 * b2n dn + 4 * b2n oe + 8 * b2n oe + 16 * b2n rdy.

Definition tx_step (W : N) (s : txs) (i : N) : txs * N :=
  let data := bits i 0 8 in
  let valid := nb (bits i 8 1) in
  let mode := bits i 9 2 in
  let tick_io := nb (bits i 11 1) in
  let tick_usb := nb (bits i 12 1) in
  let normal := N.eqb mode 0 in
  let p_data := if normal then data else 0 in          (* transmitter inputs are only driven in normal mode *)
  let p_oe := normal && valid in
  let u := x_u s in let c := x_io s in
  let out :=
    if normal then tx_out (c_p c) (c_n c) (c_oe c) (u_ready u p_oe)
    else if N.eqb mode 2 then tx_out (bit0 data) (negb (bit0 data)) valid false
    else 0 in
  let u' := if tick_usb then txu_next W u p_data p_oe else u in
  let c' := if tick_io then txio_next c (u_fit_dat u) (u_fit_oe u) else c in
  ({| x_u := u'; x_io := c' |}, out).

(* ================================================================================================ *)
(* 2. Receive path (usb_io domain up to the FIFO write ports)                                       *)
(* ================================================================================================ *)

(* ---- 2.1 RxClockDataRecovery.  NOTE the state names follow the code, whose `dpair = Cat(sync_dp, sync_dn)`
        makes its "DJ" state the one with D+ low / D- high (a full-speed K) and its "DK" the idle level; the
        NRZI decoder only looks at changes, so the swap is harmless and is modelled as it is. ---- *)
Inductive cdrst := CdT | CdJ | CdK | Cd0 | Cd1.
Record cdr := { k_p0 : bool; k_p1 : bool; k_n0 : bool; k_n1 : bool;     (* two 2-stage synchronisers *)
                k_fsm : cdrst; k_phase : N; k_valid : bool;
                k_se0 : bool; k_se1 : bool; k_dj : bool; k_dk : bool }.
Definition cdr_init : cdr :=
  {| k_p0 := false; k_p1 := false; k_n0 := false; k_n1 := false; k_fsm := CdT; k_phase := 0; k_valid := false;
     k_se0 := false; k_se1 := false; k_dj := false; k_dk := false |}.
(* state selected by the synchronised pair (dp, dn) *)
Definition cdr_of_pair (dp dn : bool) : cdrst :=
  match dp, dn with
  | false, true => CdJ          (* dpair = 0b10 *)
  | true, false => CdK          (* dpair = 0b01 *)
  | false, false => Cd0
  | true, true => Cd1
  end.
Definition cdrst_eqb (a b : cdrst) : bool :=
  match a, b with CdT, CdT | CdJ, CdJ | CdK, CdK | Cd0, Cd0 | Cd1, Cd1 => true | _, _ => false end.
Definition cdr_next (s : cdr) (dp dn : bool) : cdr :=
  let tgt := cdr_of_pair (k_p1 s) (k_n1 s) in
  let in_t := cdrst_eqb (k_fsm s) CdT in
  {| k_p0 := dp; k_p1 := k_p0 s; k_n0 := dn; k_n1 := k_n0 s;
     k_fsm := if in_t then tgt else if cdrst_eqb (k_fsm s) tgt then k_fsm s else CdT;
     k_phase := if in_t then 0 else (k_phase s + 1) mod 4;
     k_valid := if in_t then false else N.eqb (k_phase s) 1;
     k_se0 := cdrst_eqb (k_fsm s) Cd0; k_se1 := cdrst_eqb (k_fsm s) Cd1;
     k_dj := cdrst_eqb (k_fsm s) CdJ; k_dk := cdrst_eqb (k_fsm s) CdK |}.

(* ---- 2.2 RxNRZIDecoder ---- *)
Record rxnz := { z_last : bool; z_data : bool; z_se0 : bool; z_valid : bool }.
Definition rxnz_init : rxnz := {| z_last := false; z_data := false; z_se0 := false; z_valid := false |}.
Definition rxnz_next (s : rxnz) (valid dj dk : bool) : rxnz :=
  if valid then {| z_last := dk; z_data := negb (xorb dk (z_last s)); z_se0 := negb dj && negb dk; z_valid := true |}
  else {| z_last := z_last s; z_data := z_data s; z_se0 := z_se0 s; z_valid := false |}.

(* ---- 2.3 RxPacketDetect: states D0..D5 = 0..5, PKT_ACTIVE = 6; outputs are combinational ---- *)
Definition det_start (q : N) (valid data se0 : bool) : bool := N.eqb q 5 && valid && negb se0 && data.
Definition det_end (q : N) (valid se0 : bool) : bool := N.eqb q 6 && valid && se0.
Definition det_active (q : N) (valid se0 : bool) : bool := N.eqb q 6 && negb (valid && se0).
Definition det_next (q : N) (valid data se0 : bool) : N :=
  if valid then
    if N.eqb q 6 then (if se0 then 0 else 6)
    else if N.eqb q 5 then (if se0 then 0 else if data then 6 else 5)
    else if data || se0 then 0 else q + 1
  else q.

(* ---- 2.4 RxBitstuffRemover.  The ResetInserter(~pkt_active) around it in RxPipeline names no clock domain and
        therefore resets nothing: the remover runs all the time.  After a SYNC it has seen exactly one 1, so
        inside a packet it implements USB 2.0's rule (SYNC's last 1 counts). ---- *)
Record rxbs := { b_cnt : N; b_data : bool; b_stall : bool; b_error : bool }.
Definition rxbs_init : rxbs := {| b_cnt := 0; b_data := false; b_stall := true; b_error := false |}.
Definition rxbs_next (s : rxbs) (valid data : bool) : rxbs :=
  let drop := N.eqb (b_cnt s) 6 && valid in
  {| b_cnt := if valid then (if N.eqb (b_cnt s) 6 then 0 else if data then b_cnt s + 1 else 0) else b_cnt s;
     b_data := data; b_stall := drop || negb valid; b_error := drop && data && valid |}.

(* ---- 2.5 RxShifter(width W): W+1-bit register with a marker bit ---- *)
Record rxsh := { r_reg : N; r_put : bool }.
Definition rxsh_init : rxsh := {| r_reg := 1; r_put := false |}.
Definition rxsh_next (W : N) (s : rxsh) (reset valid data : bool) : rxsh :=
  let full := N.testbit (r_reg s) W in
  {| r_reg := if valid then (if full then b2n data + 2 else (b2n data + 2 * (r_reg s mod 2 ^ W)))
              else if reset then 1 else r_reg s;
     r_put := N.testbit (r_reg s) (W - 1) && negb full && valid |}.
(* o_data[::-1] for W = 8 *)
Definition rev8 (x : N) : N :=
  b2n (N.testbit x 7) + 2 * b2n (N.testbit x 6) + 4 * b2n (N.testbit x 5) + 8 * b2n (N.testbit x 4)
  + 16 * b2n (N.testbit x 3) + 32 * b2n (N.testbit x 2) + 64 * b2n (N.testbit x 1) + 128 * b2n (N.testbit x 0).

(* ---- 2.6 RxPipeline front end.  Input word: i_usbp[0] i_usbn[1];
        output word: payload w_en[0] w_data[1..8], flags w_en[9] w_data[10..11] (bit 0 = end, bit 1 = start),
        receive_error[12], bit_strobe[13] ---- *)
Record rxf := { f_cdr : cdr; f_nz : rxnz; f_det : N; f_bs : rxbs; f_sh : rxsh; f_past : bool; f_err : bool }.
Definition rxf_init : rxf :=
  {| f_cdr := cdr_init; f_nz := rxnz_init; f_det := 0; f_bs := rxbs_init; f_sh := rxsh_init;
     f_past := false; f_err := false |}.

Definition rxf_out (s : rxf) : N :=
  let z := f_nz s in
  let st := det_start (f_det s) (z_valid z) (z_data z) (z_se0 z) in
  let en := det_end (f_det s) (z_valid z) (z_se0 z) in
  b2n (r_put (f_sh s)) + 2 * rev8 (r_reg (f_sh s) mod 256) + 512 * b2n (st || en) + 1024 * b2n en + 2048 * b2n st
  + 4096 * b2n (f_err s) + 8192 * b2n (k_valid (f_cdr s)).

Definition rxf_next (s : rxf) (dp dn : bool) : rxf :=
  let k := f_cdr s in let z := f_nz s in let b := f_bs s in
  let st := det_start (f_det s) (z_valid z) (z_data z) (z_se0 z) in
  let en := det_end (f_det s) (z_valid z) (z_se0 z) in
  let act := det_active (f_det s) (z_valid z) (z_se0 z) in
  {| f_cdr := cdr_next k dp dn;
     f_nz := rxnz_next z (k_valid k) (k_dj k) (k_dk k);
     f_det := det_next (f_det s) (z_valid z) (z_data z) (z_se0 z);
     f_bs := rxbs_next b (z_valid z) (z_data z);
     f_sh := rxsh_next 8 (f_sh s) en (negb (b_stall b) && f_past s) (b_data b);
     f_past := act;
     (* held until the next packet starts (findings/C25-rx-error-pulse.diff) *)
     f_err := if st then false else if b_error b && f_past s then true else f_err s |}.

Definition rxf_step (s : rxf) (i : N) : rxf * N :=
  (rxf_next s (nb (bits i 0 1)) (nb (bits i 1 1)), rxf_out s).

(* ================================================================================================ *)
(* 3. Environments, abstractions and observation functions used by the theorems                     *)
(* ================================================================================================ *)

(* ---- 3.1 UTMI transmit driver in closed loop with the usb-domain half (one element per usb cycle).
        q = bytes still to be handed over (head = byte on tx_data, tx_valid = q is non-empty); the driver moves to
        the next byte after a cycle with tx_ready.  g = what is on tx_data while tx_valid = 0 (arbitrary); its
        length is the number of cycles. ---- *)
Definition drv_oe (q : list N) : bool := match q with [] => false | _ => true end.
Definition drv_data (q : list N) (gd : N) : N := match q with [] => gd | b :: _ => b end.

(* (fit_dat, fit_oe, tx_ready) per cycle *)
Fixpoint tx_loop (W : N) (s : txu) (q : list N) (g : list N) : list (bool * bool * bool) :=
  match g with
  | [] => []
  | gd :: g' =>
      let oe := drv_oe q in
      let r := u_ready s oe in
      (u_fit_dat s, u_fit_oe s, r) :: tx_loop W (txu_next W s (drv_data q gd) oe) (if r then tl q else q) g'
  end.
(* state and bytes left after the loop *)
Fixpoint tx_loop_end (W : N) (s : txu) (q : list N) (g : list N) : txu * list N :=
  match g with
  | [] => (s, q)
  | gd :: g' =>
      let oe := drv_oe q in
      tx_loop_end W (txu_next W s (drv_data q gd) oe) (if u_ready s oe then tl q else q) g'
  end.
(* the (tx_data, tx_valid) history the driver produced *)
Fixpoint tx_loop_in (W : N) (s : txu) (q : list N) (g : list N) : list (N * bool) :=
  match g with
  | [] => []
  | gd :: g' =>
      let oe := drv_oe q in
      (drv_data q gd, oe) :: tx_loop_in W (txu_next W s (drv_data q gd) oe) (if u_ready s oe then tl q else q) g'
  end.

(* between packets: FSM idle, SYNC generator empty, not in the data or sync phase; the shifter and the stuffer
   free-run on whatever is on tx_data, so nothing is assumed about them beyond their ranges *)
Definition onehot8 (p : N) : bool :=
  N.eqb p 1 || N.eqb p 2 || N.eqb p 4 || N.eqb p 8 || N.eqb p 16 || N.eqb p 32 || N.eqb p 64 || N.eqb p 128.
Definition txu_quiet (s : txu) : Prop :=
  u_fsm s = TxIdle /\ u_sp s = 0 /\ (u_gray s = 0 \/ u_gray s = 2) /\
  onehot8 (sh_pos (u_sh s)) = true /\ sh_reg (u_sh s) < 256 /\ u_bs s <= 6.

(* ---- 3.2 the usb_io half driven by a (fit_dat, fit_oe) value per usb_io step ---- *)
Fixpoint txio_run (c : txio) (fits : list (bool * bool)) : list (bool * bool * bool) :=
  match fits with
  | [] => []
  | (d, e) :: t => (c_p c, c_n c, c_oe c) :: txio_run (txio_next c d e) t
  end.
(* the NRZI encoder's state after each strobe, one (fit_dat, fit_oe) per strobe *)
Fixpoint nz_states (q : nzst) (fits : list (bool * bool)) : list nzst :=
  match fits with
  | [] => []
  | (d, e) :: t => let q' := nz_next q true e d in q' :: nz_states q' t
  end.
(* line level driven for a symbol *)
Definition sym_drive (s : sym) : bool * bool * bool :=
  match s with SJ => (true, false, true) | SK => (false, true, true) | S0 => (false, false, true) | S1 => (true, true, true) end.
Definition line_idle : bool * bool * bool := (true, false, false).       (* not driven *)
Definition rep4 {A} (l : list A) : list A := flat_map (fun x => [x; x; x; x]) l.

(* ---- 3.3 input words of the two-clock transmit machine: cycle-0 word once, then every usb cycle four times;
        tick_usb_io in every step, tick_usb in steps 0, 4, 8, ... ---- *)
Definition tx_word (data : N) (valid : bool) (mode : N) (tick_usb : bool) : N :=
  data mod 256 + 256 * b2n valid + 512 * (mode mod 4) + 2048 + 4096 * b2n tick_usb.
Definition tx_words4 (mode : N) (dv : N * bool) : list N :=
  let w := tx_word (fst dv) (snd dv) mode in [w false; w false; w false; w true].
Definition tx_trace (mode : N) (u : list (N * bool)) : list N :=
  match u with
  | [] => []
  | dv :: t => tx_word (fst dv) (snd dv) mode true :: flat_map (tx_words4 mode) t
  end.
(* observation: (dp_o, dn_o, oe) and tx_ready of an output word *)
Definition tx_line_of (o : N) : bool * bool * bool := (N.testbit o 0, N.testbit o 1, N.testbit o 2).
Definition tx_ready_of (o : N) : bool := N.testbit o 4.

(* ---- 3.4 receive: bit-level abstraction of the front end (one step per recovered line symbol) ---- *)
Inductive rxev := EvStart | EvByte (b : N) | EvEnd.
Record rxb := { a_last : bool; a_det : N; a_cnt : N; a_reg : N; a_err : bool }.
(* the code's (dj, dk) for a line symbol: its "dk" is the idle level J *)
Definition sym_dj (s : sym) : bool := match s with SK => true | _ => false end.
Definition sym_dk (s : sym) : bool := match s with SJ => true | _ => false end.
Definition rxb_step (s : rxb) (y : sym) : rxb * list rxev :=
  let dj := sym_dj y in let dk := sym_dk y in
  let data := negb (xorb dk (a_last s)) in
  let se0 := negb dj && negb dk in
  let st := det_start (a_det s) true data se0 in
  let en := det_end (a_det s) true se0 in
  let act := det_active (a_det s) true se0 in
  let drop := N.eqb (a_cnt s) 6 in
  let shift := negb drop && act in
  let full := N.testbit (a_reg s) 8 in
  let reg1 := if shift then (if full then b2n data + 2 else b2n data + 2 * (a_reg s mod 256)) else a_reg s in
  let put := N.testbit (a_reg s) 7 && negb full && shift in
  ({| a_last := dk;
      a_det := det_next (a_det s) true data se0;
      a_cnt := if drop then 0 else if data then a_cnt s + 1 else 0;
      a_reg := if en then 1 else reg1;
      a_err := if st then false else if drop && data && act then true else a_err s |},
   (if st then [EvStart] else []) ++ (if put then [EvByte (rev8 (reg1 mod 256))] else []) ++ (if en then [EvEnd] else [])).
Fixpoint rxb_run (s : rxb) (l : list sym) : rxb * list rxev :=
  match l with
  | [] => (s, [])
  | y :: t => let (s1, e1) := rxb_step s y in let (s2, e2) := rxb_run s1 t in (s2, e1 ++ e2)
  end.
(* bus idle: last level J, detector waiting, shifter empty, no error pending; the remover's count is arbitrary *)
Definition rxb_idle (s : rxb) : Prop :=
  a_last s = true /\ a_det s = 0 /\ a_cnt s <= 6 /\ a_reg s = 1 /\ a_err s = false.

(* events written into the two FIFOs in one usb_io cycle, decoded from the front end's output word *)
Definition rxf_events (o : N) : list rxev :=
  (if N.testbit o 9 && N.testbit o 11 then [EvStart] else []) ++
  (if N.testbit o 0 then [EvByte (bits o 1 8)] else []) ++
  (if N.testbit o 9 && N.testbit o 10 then [EvEnd] else []).
Definition rxf_err_of (o : N) : bool := N.testbit o 12.
Definition line_word (s : sym) : N :=
  match s with SJ => 1 | SK => 2 | S0 => 0 | S1 => 3 end.      (* i_usbp + 2 * i_usbn *)

(* ---- 3.5 the front end "locked" on an ideally (4x) sampled line: the cycle in which the strobe for symbol sk is
        visible (k_valid), the synchronisers already hold two samples of the next symbol sk1, and everything behind
        the clock recovery is at rest in the condition described by the bit-level state b ---- *)
Definition sym_dp (s : sym) : bool := match s with SJ | S1 => true | _ => false end.
Definition sym_dn (s : sym) : bool := match s with SK | S1 => true | _ => false end.
Definition cdr_of_sym (s : sym) : cdrst := cdr_of_pair (sym_dp s) (sym_dn s).
Definition rxf_simb (s : rxf) (sk sk1 : sym) (b : rxb) : bool :=
  let k := f_cdr s in
  Bool.eqb (k_p0 k) (sym_dp sk1) && Bool.eqb (k_p1 k) (sym_dp sk1) &&
  Bool.eqb (k_n0 k) (sym_dn sk1) && Bool.eqb (k_n1 k) (sym_dn sk1) &&
  cdrst_eqb (k_fsm k) (cdr_of_sym sk) && N.eqb (k_phase k) 2 && k_valid k &&
  Bool.eqb (k_se0 k) (cdrst_eqb (cdr_of_sym sk) Cd0) && Bool.eqb (k_se1 k) (cdrst_eqb (cdr_of_sym sk) Cd1) &&
  Bool.eqb (k_dj k) (sym_dj sk) && Bool.eqb (k_dk k) (sym_dk sk) &&
  Bool.eqb (z_last (f_nz s)) (a_last b) && negb (z_valid (f_nz s)) &&
  N.eqb (f_det s) (a_det b) &&
  N.eqb (b_cnt (f_bs s)) (a_cnt b) && b_stall (f_bs s) && negb (b_error (f_bs s)) &&
  N.eqb (r_reg (f_sh s)) (a_reg b) && negb (r_put (f_sh s)) &&
  Bool.eqb (f_past s) (N.eqb (a_det b) 6) && Bool.eqb (f_err s) (a_err b).

(* ---- 3.6 observation helpers and sessions ---- *)
Definition fit_of (x : bool * bool * bool) : bool * bool := (fst (fst x), snd (fst x)).
Definition rdy_of (x : bool * bool * bool) : bool := snd x.

(* a transmit session: phases (bytes, g); in each phase the driver hands over `bytes` (none = stay idle) and the
   phase lasts length g usb cycles (g = tx_data while tx_valid = 0) *)
Fixpoint tx_session_in (W : N) (s : txu) (ph : list (list N * list N)) : list (N * bool) :=
  match ph with
  | [] => []
  | (bs, g) :: t => tx_loop_in W s bs g ++ tx_session_in W (fst (tx_loop_end W s bs g)) t
  end.
(* what the line must show during a phase of n usb cycles, one entry per bit time *)
Definition phase_line (bs : list N) (n : nat) : list (bool * bool * bool) :=
  match bs with
  | [] => repeat line_idle n
  | _ => let f := frame0 bs in line_idle :: map sym_drive f ++ repeat line_idle (n - 1 - length f)
  end.
Definition phase_ok (p : list N * list N) : Prop :=
  Forall (fun b => b < 256) (fst p) /\ (fst p <> [] -> (1 + length (frame0 (fst p)) <= length (snd p))%nat).

(* error flag after each recovered symbol *)
Fixpoint rxb_errs (s : rxb) (l : list sym) : list bool :=
  match l with
  | [] => []
  | y :: t => let s1 := fst (rxb_step s y) in a_err s1 :: rxb_errs s1 t
  end.
Definition rxb_idle_c (c : N) : rxb := {| a_last := true; a_det := 0; a_cnt := c; a_reg := 1; a_err := false |}.
