From Coq Require Import NArith ZArith List Bool Lia ZifyBool ZifyN.
Import ListNotations.
From LunaLib Require Import Netlist Machine SsWords.
From LunaModel Require Import Itp.
Open Scope N_scope.
Ltac Zify.zify_post_hook ::= Z.div_mod_to_equations.

(* ---- the model meets the specification whenever the registers are wide enough ---- *)
Section Proofs.
  Variables wb wd : N.
  Hypothesis Hwb : 14 <= wb.
  Hypothesis Hwd : 13 <= wd.

  (* the machine state is a function of the history *)
  Definition rel (st : itp_state) (hist : list N) : Prop :=
    upd st = (match hist with j :: _ => is_itp j | [] => false end) /\
    bic st = (match find is_itp hist with Some j => f_counter j | None => 0 end) /\
    dlt st = (match find is_itp hist with Some j => f_delta j | None => 0 end).

  Lemma rel_init : rel itp_init [].
  Proof. repeat split. Qed.

  Lemma rel_out : forall st hist i, rel st hist -> itp_out st i = spec_out hist i.
  Proof. intros st hist i (H1 & H2 & H3). unfold itp_out, spec_out. rewrite H1, H2, H3. reflexivity. Qed.

  Lemma rel_next : forall st hist i, rel st hist -> rel (itp_next wb wd st i) (i :: hist).
  Proof.
    intros st hist i (H1 & H2 & H3). unfold rel, itp_next. cbn [find].
    destruct (is_itp i) eqn:E; cbn [upd bic dlt].
    - repeat split.
      + unfold f_counter. apply trunc_bits_wide. exact Hwb.
      + unfold f_delta. apply trunc_bits_wide. exact Hwd.
    - repeat split; assumption.
  Qed.

  Theorem itp_model_spec : forall ins st hist, rel st hist ->
    run (itp_step wb wd) st ins = spec_trace hist ins.
  Proof.
    induction ins as [|i t IH]; intros st hist H; [reflexivity|].
    cbn [run spec_trace itp_step]. rewrite (rel_out _ _ _ H). f_equal.
    apply IH. apply rel_next. exact H.
  Qed.

  Corollary itp_from_reset : forall ins, run (itp_step wb wd) itp_init ins = spec_trace [] ins.
  Proof. intros. apply itp_model_spec. apply rel_init. Qed.
End Proofs.

(* ---- reading the packed output word back ---- *)
Lemma o_fields : forall r u c d, c < 65536 ->
  o_ready (pack_out r u c d) = r /\ o_update (pack_out r u c d) = u /\
  o_counter (pack_out r u c d) = c /\ o_delta (pack_out r u c d) = d.
Proof.
  intros r u c d Hc. unfold o_ready, o_update, o_counter, o_delta, pack_out.
  pose proof (b2n_lt2 r) as Hr. pose proof (b2n_lt2 u) as Hu.
  assert (E1 : b2n r + 2 * b2n u + 4 * c + 262144 * d = b2n r + 2 * (b2n u + 2 * c + 131072 * d)) by lia.
  assert (E2 : (b2n r + 2 * b2n u + 4 * c + 262144 * d) / 2 = b2n u + 2 * (c + 65536 * d)) by lia.
  repeat split.
  - rewrite E1. apply odd_b2n_add_2.
  - rewrite E2. apply odd_b2n_add_2.
  - lia.
  - lia.
Qed.

Lemma f_counter_lt : forall i, f_counter i < 65536.
Proof. intros. unfold f_counter. pose proof (bits_lt (in_dw0 i) 5 14). change (2 ^ 14) with 16384 in H. lia. Qed.

(* ---- the property in the words of its statement: the cycle after any timestamp packet, the
   update strobe is high and both reported values equal the packet's full fields ---- *)
Lemma spec_trace_app : forall a hist b,
  spec_trace hist (a ++ b) = spec_trace hist a ++ spec_trace (rev a ++ hist) b.
Proof.
  induction a as [|x a IH]; intros hist b; [reflexivity|].
  cbn [app spec_trace rev]. rewrite IH. rewrite <- app_assoc. reflexivity.
Qed.

Lemma spec_trace_length : forall ins hist, length (spec_trace hist ins) = length ins.
Proof. induction ins as [|i t IH]; intros; [reflexivity|]. cbn [spec_trace length]. rewrite IH. reflexivity. Qed.

Theorem itp_reported : forall wb wd, 14 <= wb -> 13 <= wd ->
  forall pre i i' post, is_itp i = true ->
  let outs := run (itp_step wb wd) itp_init (pre ++ i :: i' :: post) in
  exists o o', nth_error outs (length pre) = Some o /\ nth_error outs (S (length pre)) = Some o' /\
    o_ready o = true /\
    o_update o' = true /\ o_counter o' = f_counter i /\ o_delta o' = f_delta i.
Proof.
  intros wb wd Hb Hd pre i i' post Hi outs. subst outs.
  rewrite (itp_from_reset wb wd Hb Hd). rewrite spec_trace_app. cbn [spec_trace].
  exists (spec_out (rev pre ++ []) i), (spec_out (i :: rev pre ++ []) i').
  assert (L : length (spec_trace [] pre) = length pre) by apply spec_trace_length.
  split; [|split].
  - rewrite nth_error_app2 by lia. rewrite L, Nat.sub_diag. reflexivity.
  - rewrite nth_error_app2 by lia. rewrite L. replace (S (length pre) - length pre)%nat with 1%nat by lia.
    reflexivity.
  - unfold spec_out. cbn [find]. rewrite Hi.
    destruct (o_fields (is_itp i') true (f_counter i) (f_delta i) (f_counter_lt i)) as (_ & A & B & C).
    destruct (o_fields true
       (match rev pre ++ [] with j :: _ => is_itp j | [] => false end)
       (match find is_itp (rev pre ++ []) with Some j => f_counter j | None => 0 end)
       (match find is_itp (rev pre ++ []) with Some j => f_delta j | None => 0 end)) as (R & _).
    { destruct (find is_itp (rev pre ++ [])); [apply f_counter_lt | lia]. }
    repeat split; assumption.
Qed.

(* ---- the widths declared in the code (Signal() = 1 bit) do NOT satisfy the specification ---- *)
Theorem itp_one_bit_refuted : exists ins,
  run (itp_step 1 1) itp_init ins <> spec_trace [] ins.
Proof. exists [mk_in true 12 2 2; 0]. vm_compute. discriminate. Qed.

(* ---- packing facts for the tie ---- *)
Lemma itp_dec_enc : forall st, itp_wf st -> itp_dec (itp_enc st) = st.
Proof.
  intros [u b d] H. unfold itp_wf in H. cbn [bic] in H. unfold itp_dec, itp_enc. cbn [upd bic dlt].
  pose proof (b2n_lt2 u) as Hu.
  assert (E0 : b2n u + 2 * b + 32768 * d = b2n u + 2 * (b + 16384 * d)) by lia.
  assert (E1 : (b2n u + 2 * b + 32768 * d) / 2 mod 16384 = b) by lia.
  assert (E2 : (b2n u + 2 * b + 32768 * d) / 32768 = d) by lia.
  rewrite E1, E2. rewrite E0, odd_b2n_add_2. reflexivity.
Qed.

Lemma itp_wf_step : forall wb wd, wb <= 14 -> forall st i, itp_wf st -> itp_wf (fst (itp_step wb wd st i)).
Proof.
  intros wb wd Hw st i H. unfold itp_wf, itp_step, itp_next in *. cbn [fst].
  destruct (is_itp i); cbn [bic]; [|exact H].
  pose proof (trunc_lt wb (f_counter i)). pose proof (pow2_le_mono wb 14 Hw).
  change (2 ^ 14) with 16384 in *. lia.
Qed.

Lemma itp_wf_init : itp_wf itp_init.
Proof. unfold itp_wf, itp_init. cbn. lia. Qed.
